------------------------------- MODULE OpFut -------------------------------
(* X04 - operation futures and combinators of compio-runtime.

   Implementation-shaped model of
     compio-runtime/src/future/future.rs       Submit<T, ()> / Submit<T, Extra> : poll arms, PinnedDrop
     compio-runtime/src/future/stream.rs       SubmitMulti (Idle / Submitted / Finished, try_take, drop),
                                               SubmitMultiManaged (inner Option, item mapping)
     compio-runtime/src/future/mod.rs          submit_raw, poll_task, poll_task_with_extra, poll_multishot
     compio-runtime/src/future/combinator/     Ext::{with_cancel, with_personality, get_cancel, set_extra},
                                               WithCancel, WithCancelFailFast (listener first), WithPersonality
     compio-runtime/src/waker/ext.rs           with_ext (get_ext or default), ExtWaker, OwnedExtWaker, get_waker
     compio-runtime/src/cancel.rs              CancelToken::{cancel, register, listen, is_cancelled}
   and of the part of compio-driver they talk to (push ready/pending, has_result, cancel, set_result + wake).

   One "root" is what a task awaits: an outer chain of combinators around a join of branches, each branch an
   inner chain of combinators around one leaf (an operation future or stream).  A harness step (= one action
   here) polls the root with one branch selected, feeds an operation, cancels a token, takes or drops.
   The kernel is a batch step (one Proactor::poll): in the Eager variant (used to generate behaviours that
   are replayed into the real crates) it runs at the end of every harness step, otherwise it is a separate
   action so that TLC also explores polls between a request and its completion.

   Wrappers are strings: "C1" "C2" = with_cancel(token 1/2), "F1" "F2" = with_cancel(token).fail_fast(),
   "P1" "P2" = with_personality(1/2); personality 2 is an id that is NOT registered with the ring, so an
   io_uring operation stamped with it completes with EINVAL (that is how the real check observes it).
   Leaves: "sb" submit(Recv), "sx" submit(Recv).with_extra(), "am" submit_multi(AcceptMulti),
   "mg" submit_multi(RecvMulti).into_managed(pool), "pr" a probe future (never ready, inspects its waker). *)
EXTENDS Integers, Sequences, FiniteSets, TLC

CONSTANTS Driver,             \* "iour" | "poll"
          Shapes,             \* set of root shapes [o |-> chain, b |-> <<[c |-> chain, l |-> leaf], ...>>]
          MaxSteps,           \* bound on harness steps (0 = unbounded, for the liveness configs)
          MaxCancel,          \* calls of cancel() per token
          MaxFeed,            \* feeds per branch
          Eager,              \* TRUE: kernel batch at the end of every step (generator); FALSE: own action
          FixListen,          \* TRUE: fail_fast() on an already cancelled token is born notified (repaired)
          FixFFStream,        \* TRUE: a fail-fast stream ends after Err(Cancelled) instead of panicking
          MutPersDropsCancel, \* model mutation: Ext::with_personality forgets the cancel token
          MutNoDropCancel,    \* model mutation: PinnedDrop does not cancel
          MutNoWaker          \* model mutation: poll_task does not register the waker

Tokens == {1, 2}
BadPers == 2

WKind(w) == IF w \in {"C1", "C2"} THEN "C" ELSE IF w \in {"F1", "F2"} THEN "F" ELSE "P"
WId(w) == IF w \in {"C1", "F1", "P1"} THEN 1 ELSE 2

VARIABLES shape,   \* the root under test (constant after Init)
          phase,   \* "pre" (tokens exist, root not built) | "run" | "end"
          tokC,    \* [Tokens -> BOOLEAN]      Inner::is_cancelled
          tokN,    \* [Tokens -> Nat]          number of cancel() calls so far
          tokReg,  \* [Tokens -> SUBSET Nat]   Inner::tokens (weak keys), by branch
          postC,   \* [Tokens -> BOOLEAN]      ghost: cancel() was called after the root was built
          lst,     \* [FPos -> "none"|"idle"|"armed"|"notified"|"gone"|"dead"]  EventListener of each fail_fast()
          br,      \* [1..NB -> branch record]
          rootSt,  \* "live" | "done" | "dropped"
          pend,    \* branches the executor still has to poll (liveness variant: set by wakes)
          last,    \* observation of the last step
          steps

vars == <<shape, phase, tokC, tokN, tokReg, postC, lst, br, rootSt, pend, last, steps>>

NB == Len(shape.b)
Br == 1..NB
Leaf(b) == shape.b[b].l
IsStream(b) == Leaf(b) \in {"am", "mg"}

\* ---------------------------------------------------------------------------------------------------
\* paths: positions <<0,i>> = outer chain, <<b,i>> = chain of branch b; outermost first
\* ---------------------------------------------------------------------------------------------------
PLen(b) == Len(shape.o) + Len(shape.b[b].c)
Pos(b, k) == IF k <= Len(shape.o) THEN <<0, k>> ELSE <<b, k - Len(shape.o)>>
W(p) == IF p[1] = 0 THEN shape.o[p[2]] ELSE shape.b[p[1]].c[p[2]]
FPosOf(s) == {<<0, i>> : i \in {j \in 1..Len(s.o) : WKind(s.o[j]) = "F"}}
             \cup UNION {{<<b, i>> : i \in {j \in 1..Len(s.b[b].c) : WKind(s.b[b].c[j]) = "F"}} : b \in 1..Len(s.b)}
FPos == FPosOf(shape)
TokOf(s) == {WId(s.o[i]) : i \in {j \in 1..Len(s.o) : WKind(s.o[j]) # "P"}}
            \cup UNION {{WId(s.b[b].c[i]) : i \in {j \in 1..Len(s.b[b].c) : WKind(s.b[b].c[j]) # "P"}} : b \in 1..Len(s.b)}

\* Ext as the code builds it: with_ext = get_ext(waker) or Ext::default(), then one constructor per level
ExtDefault == [pers |-> 0, cancel |-> 0]
ExtWithCancel(e, t) == [pers |-> e.pers, cancel |-> t]
ExtWithPersonality(e, p) == [pers |-> p, cancel |-> IF MutPersDropsCancel THEN 0 ELSE e.cancel]
RECURSIVE FoldExt(_, _, _)
FoldExt(b, k, e) ==
  IF k > PLen(b) THEN e
  ELSE LET w == W(Pos(b, k))
       IN FoldExt(b, k + 1, IF WKind(w) = "P" THEN ExtWithPersonality(e, WId(w)) ELSE ExtWithCancel(e, WId(w)))
ExtSeen(b) == FoldExt(b, 1, ExtDefault)

\* the contract's own vocabulary: innermost wrapper of each kind on the leaf's own path
MaxOf(S) == CHOOSE x \in S : \A y \in S : y <= x
VisTok(b) == LET idx == {k \in 1..PLen(b) : WKind(W(Pos(b, k))) # "P"}
             IN IF idx = {} THEN 0 ELSE WId(W(Pos(b, MaxOf(idx))))
VisPers(b) == LET idx == {k \in 1..PLen(b) : WKind(W(Pos(b, k))) = "P"}
              IN IF idx = {} THEN 0 ELSE WId(W(Pos(b, MaxOf(idx))))

\* first fail-fast level on the path whose listener ends the poll (notified -> Err(Cancelled), gone -> panic)
StopSet(b) == {k \in 1..PLen(b) : Pos(b, k) \in FPos /\ lst[Pos(b, k)] \in {"notified", "gone"}}
Stop(b) == IF StopSet(b) = {} THEN 0 ELSE CHOOSE k \in StopSet(b) : \A j \in StopSet(b) : k <= j
\* listeners polled (and armed with a clone of the context's waker) by this poll: those before the stop
ArmedBy(b) == {Pos(b, k) : k \in {j \in 1..PLen(b) : Pos(b, j) \in FPos /\ (Stop(b) = 0 \/ j < Stop(b))}}

BrInit == [fs |-> "Idle",   \* Idle | Submitted | Finished | Ended | Done | Taken | Dropped | Probe
           st |-> "none",   \* operation in the driver: none | flight | done | taken
           res |-> "-", rn |-> 0,          \* result: ok | canc | einval | eof ; units delivered
           creq |-> FALSE, cw |-> "-",     \* cancel requested; ghost cause: tok | drop
           fed |-> 0, nfed |-> 0, eof |-> FALSE,
           q |-> <<>>,                      \* multishot items popped later by poll_multishot
           wreg |-> FALSE,                  \* a waker is stored in the key
           pers |-> 0, rtok |-> 0,          \* what the submission was stamped with / registered to
           ended |-> FALSE]                 \* ghost: the stream has returned None once

NoObs == [a |-> "-", b |-> 0, r |-> "-", v |-> "-", n |-> 0, seen |-> 0, lp |-> FALSE, px |-> -1, dw |-> 0,
          ffexp |-> FALSE, wasEnded |-> FALSE, pre |-> "-"]

\* ---------------------------------------------------------------------------------------------------
\* the driver side: one batch = one Proactor::poll (completions are set_result + wake of the stored waker)
\* ---------------------------------------------------------------------------------------------------
Ones(n) == [i \in 1..n |-> 1]
Complete(r, res, rn) ==  \* Entry::notify -> Key::set_result: result stored, waker taken and woken
  [r EXCEPT !.st = IF r.fs = "Dropped" THEN "taken" ELSE "done", !.res = res, !.rn = rn, !.wreg = FALSE]
W1(r) == IF r.wreg THEN 1 ELSE 0

KSingle(r) ==   \* Recv
  IF Driver = "iour" /\ r.pers = BadPers THEN [r |-> Complete(r, "einval", 0), dw |-> W1(r)]
  ELSE IF r.fed > 0 THEN [r |-> [Complete(r, "ok", r.fed) EXCEPT !.fed = 0], dw |-> W1(r)]
  ELSE IF r.creq THEN [r |-> Complete(r, "canc", 0), dw |-> W1(r)]
  ELSE [r |-> r, dw |-> 0]

KAccept(r) ==   \* AcceptMulti: multishot on io_uring (one CQE with MORE per connection), single accept on polling
  IF Driver = "iour" THEN
     IF r.pers = BadPers THEN [r |-> Complete(r, "einval", 0), dw |-> W1(r)]
     ELSE LET r1 == [r EXCEPT !.q = r.q \o Ones(r.fed), !.fed = 0]
              dwi == IF r.wreg THEN r.fed ELSE 0          \* wake_by_ref per CQE, the waker stays
          IN IF r.creq THEN [r |-> Complete(r1, "canc", 0), dw |-> dwi + W1(r)]
             ELSE [r |-> r1, dw |-> dwi]
  ELSE IF r.fed > 0 THEN [r |-> [Complete(r, "ok", 1) EXCEPT !.fed = r.fed - 1], dw |-> W1(r)]
  ELSE IF r.creq THEN [r |-> Complete(r, "canc", 0), dw |-> W1(r)]
  ELSE [r |-> r, dw |-> 0]

KRecvMulti(r) ==  \* RecvMulti: multishot on io_uring (pending bytes coalesce into one CQE), RecvManaged on polling
  IF Driver = "iour" THEN
     IF r.pers = BadPers THEN [r |-> Complete(r, "einval", 0), dw |-> W1(r)]
     ELSE LET r1 == [r EXCEPT !.q = IF r.fed > 0 THEN Append(r.q, r.fed) ELSE r.q, !.fed = 0]
              dwi == IF r.wreg /\ r.fed > 0 THEN 1 ELSE 0
          IN \* as observed (Linux 6.18): a request that has just delivered bytes goes back to its poll before it
             \* can see the end of the stream, so a cancellation that is already queued reaches it first
             IF r.creq /\ r.fed > 0 THEN [r |-> Complete(r1, "canc", 0), dw |-> dwi + W1(r)]
             ELSE IF r.eof THEN [r |-> Complete(r1, "eof", 0), dw |-> dwi + W1(r)]
             ELSE IF r.creq THEN [r |-> Complete(r1, "canc", 0), dw |-> dwi + W1(r)]
             ELSE [r |-> r1, dw |-> dwi]
  ELSE IF r.fed > 0 THEN [r |-> [Complete(r, "ok", r.fed) EXCEPT !.fed = 0], dw |-> W1(r)]
  ELSE IF r.eof THEN [r |-> Complete(r, "eof", 0), dw |-> W1(r)]
  ELSE IF r.creq THEN [r |-> Complete(r, "canc", 0), dw |-> W1(r)]
  ELSE [r |-> r, dw |-> 0]

K1(b, r) == IF r.st # "flight" THEN [r |-> r, dw |-> 0]
            ELSE IF Leaf(b) \in {"sb", "sx"} THEN KSingle(r)
            ELSE IF Leaf(b) = "am" THEN KAccept(r)
            ELSE KRecvMulti(r)

RECURSIVE SumDw(_, _)
SumDw(f, S) == IF S = {} THEN 0 ELSE LET x == CHOOSE y \in S : TRUE IN f[x].dw + SumDw(f, S \ {x})
KBatch(brs) == LET k == [b \in Br |-> K1(b, brs[b])]
               IN [brs |-> [b \in Br |-> k[b].r], dw |-> SumDw(k, Br)]
\* what a harness step leaves behind: with Eager the batch has run (the harness waits for the wakes)
Settle(brs) == IF Eager THEN KBatch(brs) ELSE [brs |-> brs, dw |-> 0]

Finished(r) == r.fs \in {"Done", "Taken", "Dropped"}
LiveBr(brs) == {b \in Br : ~Finished(brs[b])}
\* the executor polls a woken task again (liveness variant only; otherwise pend stays empty)
PendAfter(p, brs, dw) == IF MaxSteps # 0 THEN {} ELSE IF dw > 0 THEN LiveBr(brs) ELSE p \cap LiveBr(brs)

\* PinnedDrop of Submit / SubmitMulti: State::Submitted -> Proactor::cancel(key)
DropLeaf(r) ==
  IF Finished(r) THEN r
  ELSE IF r.st = "flight"
       THEN [r EXCEPT !.fs = "Dropped",
                      !.creq = IF MutNoDropCancel THEN r.creq ELSE TRUE,      \* set_cancelled + driver.cancel
                      !.cw = IF r.creq \/ MutNoDropCancel THEN r.cw ELSE "drop"]
       ELSE [r EXCEPT !.fs = "Dropped", !.st = IF r.st = "done" THEN "taken" ELSE r.st]

StepOK == MaxSteps = 0 \/ steps < MaxSteps
StepInc == IF MaxSteps = 0 THEN 0 ELSE steps + 1

\* is_terminated() of a leaf the harness still holds as its concrete type
Term(brs, b) ==
  IF Finished(brs[b]) \/ shape.b[b].c # <<>> \/ Leaf(b) = "pr" THEN "-"
  ELSE IF Leaf(b) \in {"sb", "sx"} THEN "f"
  ELSE IF brs[b].fs \in {"Finished", "Ended"} THEN "t" ELSE "f"

\* ---------------------------------------------------------------------------------------------------
\* actions of the environment
\* ---------------------------------------------------------------------------------------------------
Init ==
  /\ shape \in Shapes
  /\ phase = "pre"
  /\ tokC = [t \in Tokens |-> FALSE] /\ tokN = [t \in Tokens |-> 0] /\ tokReg = [t \in Tokens |-> {}]
  /\ postC = [t \in Tokens |-> FALSE]
  /\ lst = [p \in FPos |-> "none"]
  /\ br = [b \in Br |-> BrInit]
  /\ rootSt = "live" /\ pend = {} /\ last = NoObs /\ steps = 0

\* CancelToken::cancel: notify_all first, then (only the first time) cancel every registered key
CancelEffect(t) ==
  LET L == {p \in FPos : WId(W(p)) = t /\ lst[p] \in {"idle", "armed"}}
      dwl == Cardinality({p \in L : lst[p] = "armed"})
      hit == IF tokC[t] THEN {} ELSE {b \in tokReg[t] : br[b].st = "flight" /\ ~br[b].creq}  \* cancel_token
      br1 == [b \in Br |-> IF b \in hit THEN [br[b] EXCEPT !.creq = TRUE, !.cw = "tok"] ELSE br[b]]
      s == Settle(br1)
  IN /\ lst' = [p \in FPos |-> IF p \in L THEN "notified" ELSE lst[p]]
     /\ tokC' = [tokC EXCEPT ![t] = TRUE]
     /\ tokN' = [tokN EXCEPT ![t] = @ + 1]
     /\ tokReg' = [tokReg EXCEPT ![t] = IF tokC[t] THEN @ ELSE {}]
     /\ br' = s.brs
     /\ pend' = PendAfter(pend, s.brs, dwl + s.dw)
     /\ last' = [NoObs EXCEPT !.a = "cancel", !.b = t, !.dw = dwl + s.dw]

PreCancel(t) ==
  /\ phase = "pre" /\ StepOK /\ t \in TokOf(shape) /\ tokN[t] < MaxCancel
  /\ CancelEffect(t)
  /\ steps' = StepInc
  /\ UNCHANGED <<shape, phase, postC, rootSt>>

\* the root is constructed: every fail_fast() calls token.listen()
Build ==
  /\ phase = "pre" /\ StepOK
  /\ phase' = "run"
  /\ lst' = [p \in FPos |-> IF FixListen /\ tokC[WId(W(p))] THEN "notified" ELSE "idle"]
  /\ pend' = IF MaxSteps = 0 THEN Br ELSE {}
  /\ last' = [NoObs EXCEPT !.a = "build"]
  /\ steps' = StepInc
  /\ UNCHANGED <<shape, tokC, tokN, tokReg, postC, br, rootSt>>

Cancel(t) ==
  /\ phase = "run" /\ rootSt = "live" /\ StepOK /\ t \in TokOf(shape) /\ tokN[t] < MaxCancel
  /\ CancelEffect(t)
  /\ postC' = [postC EXCEPT ![t] = TRUE]
  /\ steps' = StepInc
  /\ UNCHANGED <<shape, phase, rootSt>>

\* the harness makes one unit of input available (4 bytes on the peer socket / one connection)
Feed(b) ==
  /\ b \in Br
  /\ phase = "run" /\ rootSt = "live" /\ StepOK
  /\ Leaf(b) # "pr" /\ ~Finished(br[b]) /\ br[b].fs \notin {"Finished", "Ended"}
  /\ br[b].nfed < MaxFeed /\ ~br[b].eof
  /\ LET s == Settle([br EXCEPT ![b].fed = @ + 1, ![b].nfed = @ + 1])
     IN /\ br' = s.brs
        /\ pend' = PendAfter(pend, s.brs, s.dw)
        /\ last' = [NoObs EXCEPT !.a = "feed", !.b = b, !.dw = s.dw]
  /\ steps' = StepInc
  /\ UNCHANGED <<shape, phase, tokC, tokN, tokReg, postC, lst, rootSt>>

\* the peer of a managed receive stream is closed
Eof(b) ==
  /\ b \in Br
  /\ phase = "run" /\ rootSt = "live" /\ StepOK
  /\ Leaf(b) = "mg" /\ ~Finished(br[b]) /\ br[b].fs \in {"Idle", "Submitted"} /\ ~br[b].eof
  /\ LET s == Settle([br EXCEPT ![b].eof = TRUE])
     IN /\ br' = s.brs
        /\ pend' = PendAfter(pend, s.brs, s.dw)
        /\ last' = [NoObs EXCEPT !.a = "eof", !.b = b, !.dw = s.dw]
  /\ steps' = StepInc
  /\ UNCHANGED <<shape, phase, tokC, tokN, tokReg, postC, lst, rootSt>>

\* one Proactor::poll when the kernel is not composed into the steps
KernelStep ==
  /\ ~Eager /\ phase \in {"run", "end"}
  /\ \E b \in Br : K1(b, br[b]).r # br[b]
  /\ LET s == KBatch(br)
     IN /\ br' = s.brs
        /\ pend' = PendAfter(pend, s.brs, s.dw)
        /\ last' = [NoObs EXCEPT !.a = "kernel", !.dw = s.dw]
  /\ UNCHANGED <<shape, phase, tokC, tokN, tokReg, postC, lst, rootSt, steps>>

\* ---------------------------------------------------------------------------------------------------
\* poll arms of the leaves.  Each returns [rec, r, v, n, px, reg]: the new branch record, the observation
\* (r = pend | out | item | end, v = ok | canc | einval | none | empty, n units), the personality reported
\* by Submit<T, Extra> (-1 = not reported / unsupported) and the token the key is registered with (0 = none)
\* ---------------------------------------------------------------------------------------------------
Obs(rec, r, v, n, px, reg) == [rec |-> rec, r |-> r, v |-> v, n |-> n, px |-> px, reg |-> reg]

\* State::Idle with PushEntry::Pending: submit_raw, then cx.get_cancel() -> CancelToken::register, then the
\* loop runs the Submitted arm once: pop finds no result, update_waker, Poll::Pending
Arm_Idle_PushPending(r, e) ==
  LET pre == e.cancel # 0 /\ tokC[e.cancel]       \* register on a cancelled token = driver.cancel(key) at once
  IN Obs([r EXCEPT !.fs = "Submitted", !.st = "flight", !.pers = e.pers, !.rtok = e.cancel,
                   !.creq = pre, !.cw = IF pre THEN "tok" ELSE "-", !.wreg = ~MutNoWaker],
         "pend", "-", 0, -1, IF e.cancel # 0 /\ ~pre THEN e.cancel ELSE 0)

\* the polling driver completes Recv / Accept inside push when the descriptor is ready (Decision::Completed)
PushReady(b, r) == Driver = "poll" /\ (r.fed > 0 \/ (Leaf(b) = "mg" /\ r.eof))

Arm_Submit(b, r, e) ==
  IF r.fs = "Idle" THEN
     IF PushReady(b, r)
     THEN \* Submit_Idle_PushReady: no key survives, nothing is registered, default_extra() is returned
          Obs([r EXCEPT !.fs = "Done", !.st = "taken", !.res = "ok", !.rn = r.fed, !.fed = 0,
                        !.pers = e.pers, !.rtok = e.cancel], "out", "ok", r.fed, -1, 0)
     ELSE Arm_Idle_PushPending(r, e)
  ELSE IF r.st = "done"
       THEN \* Submit_Submitted_Ready: pop / pop_with_extra
            Obs([r EXCEPT !.fs = "Done", !.st = "taken"], "out", r.res, r.rn,
                IF Leaf(b) = "sx" /\ Driver = "iour" THEN r.pers ELSE -1, 0)
       ELSE \* Submit_Submitted_Pending: update_waker with the waker stripped of every ExtWaker
            Obs([r EXCEPT !.wreg = ~MutNoWaker], "pend", "-", 0, -1, 0)

Arm_Multi(b, r, e) ==
  IF r.fs = "Idle" THEN
     IF PushReady(b, r)
     THEN \* Multi_Idle_PushReady: State::Finished at once, the result is the only item
          Obs([r EXCEPT !.fs = "Finished", !.st = "taken", !.res = "ok", !.rn = 1, !.fed = r.fed - 1,
                        !.pers = e.pers, !.rtok = e.cancel], "item", "ok", 1, -1, 0)
     ELSE Arm_Idle_PushPending(r, e)
  ELSE IF r.fs = "Submitted" THEN
     IF r.q # <<>>
     THEN \* Multi_Submitted_Item: poll_multishot pops one item, the waker is not touched
          Obs([r EXCEPT !.q = Tail(r.q)], "item", "ok", Head(r.q), -1, 0)
     ELSE IF r.st = "done"
          THEN \* Multi_Submitted_Final: poll_task_with_extra ready -> State::Finished
               Obs([r EXCEPT !.fs = "Finished", !.st = "taken"], "item", r.res, r.rn, -1, 0)
          ELSE Obs([r EXCEPT !.wreg = ~MutNoWaker], "pend", "-", 0, -1, 0)
  ELSE \* Multi_Finished: fused, None for ever
       Obs([r EXCEPT !.ended = TRUE], "end", "-", 0, -1, 0)

\* SubmitMultiManaged: the inner stream is dropped (inner = None) with its final item
Arm_Managed(b, r, e) ==
  IF r.fs = "Ended" THEN Obs([r EXCEPT !.ended = TRUE], "end", "-", 0, -1, 0)
  ELSE IF r.fs = "Idle" /\ PushReady(b, r)
       THEN Obs([r EXCEPT !.fs = "Ended", !.st = "taken", !.res = IF r.fed > 0 THEN "ok" ELSE "eof",
                          !.rn = r.fed, !.fed = 0, !.pers = e.pers, !.rtok = e.cancel],
                "item", IF r.fed > 0 THEN "ok" ELSE "empty", r.fed, -1, 0)
  ELSE LET m == Arm_Multi(b, r, e)
       IN IF m.r = "item" /\ m.rec.fs = "Finished"
          THEN \* is_terminated branch: take the op, take_buffer; Ok(None) when io_uring selected no buffer
               Obs([m.rec EXCEPT !.fs = "Ended"], "item",
                   IF m.v = "eof" THEN (IF Driver = "iour" THEN "none" ELSE "empty") ELSE m.v, m.n, -1, 0)
          ELSE m

LeafPoll(b, r, e) ==
  IF Leaf(b) = "pr" THEN Obs(r, "pend", "-", 0, -1, 0)
  ELSE IF Leaf(b) \in {"sb", "sx"} THEN Arm_Submit(b, r, e)
  ELSE IF Leaf(b) = "am" THEN Arm_Multi(b, r, e)
  ELSE Arm_Managed(b, r, e)

ProbeWakes == 4   \* the probe wakes: its context by reference, a clone by value, two clones on another thread

\* a fail-fast level on the path whose token was cancelled after the root was built (contract's view)
FFExpected(b) == \E k \in 1..PLen(b) : Pos(b, k) \in FPos /\ postC[WId(W(Pos(b, k)))]
                                        /\ lst[Pos(b, k)] # "gone"

RootDoneAfter(brs) == \A b \in Br : Finished(brs[b])
\* a finished branch future is dropped at once (and with it its listeners), a finished root likewise
KillBr(l, b) == [p \in FPos |-> IF p[1] = b THEN "dead" ELSE l[p]]
KillAll(l) == [p \in FPos |-> "dead"]

\* the task polls the root; the join polls branch b.  Combinators run outermost first: each fail-fast level
\* polls its listener before anything below it; every level pushes its Ext through an ExtWaker.
Poll(b) ==
  /\ b \in Br
  /\ phase = "run" /\ rootSt = "live" /\ StepOK /\ ~Finished(br[b])
  /\ MaxSteps = 0 => b \in pend
  /\ LET s == Stop(b)
         lstA == [p \in FPos |-> IF p \in ArmedBy(b) /\ lst[p] = "idle" THEN "armed" ELSE lst[p]]
         base == [NoObs EXCEPT !.a = "poll", !.b = b, !.ffexp = FFExpected(b), !.wasEnded = br[b].ended,
                               !.pre = br[b].fs]
     IN IF s # 0 /\ lst[Pos(b, s)] = "gone"
        THEN \* FailFastStream_Repoll: EventListener polled again after it was ready
             IF FixFFStream
             THEN /\ last' = [base EXCEPT !.r = "end"] /\ lst' = lstA /\ br' = [br EXCEPT ![b].ended = TRUE]
                  /\ UNCHANGED <<phase, rootSt, tokReg>> /\ pend' = PendAfter(pend \ {b}, br, 0)
             ELSE /\ last' = [base EXCEPT !.r = "panic"] /\ lst' = lstA /\ phase' = "end"
                  /\ UNCHANGED <<br, rootSt, tokReg>> /\ pend' = {}
        ELSE IF s # 0
        THEN \* FailFast_Cancelled: Err(Cancelled) without polling anything below this level
             LET p == Pos(b, s)
                 lstB == [lstA EXCEPT ![p] = "gone"]
             IN IF p[1] = 0
                THEN LET st == Settle([x \in Br |-> DropLeaf(br[x])])
                     IN /\ last' = [base EXCEPT !.r = "ffroot", !.dw = st.dw]
                        /\ br' = st.brs /\ lst' = KillAll(lstB) /\ rootSt' = "done" /\ phase' = "end" /\ pend' = {}
                        /\ UNCHANGED tokReg
                ELSE IF IsStream(b)
                THEN /\ last' = [base EXCEPT !.r = "ffitem"]
                     /\ lst' = lstB /\ pend' = PendAfter(pend \ {b}, br, 0)
                     /\ UNCHANGED <<br, rootSt, phase, tokReg>>
                ELSE LET st == Settle([br EXCEPT ![b] = DropLeaf(br[b])])
                         done == RootDoneAfter(st.brs)
                     IN /\ last' = [base EXCEPT !.r = "ffbr", !.dw = st.dw]
                        /\ br' = st.brs /\ lst' = IF done THEN KillAll(lstB) ELSE KillBr(lstB, b)
                        /\ rootSt' = IF done THEN "done" ELSE rootSt
                        /\ phase' = IF done THEN "end" ELSE phase
                        /\ pend' = IF done THEN {} ELSE PendAfter(pend \ {b}, st.brs, st.dw)
                        /\ UNCHANGED tokReg
        ELSE LET e == ExtSeen(b)
                 o == LeafPoll(b, br[b], e)
                 own == IF Leaf(b) = "pr" THEN ProbeWakes ELSE 0
                 st == Settle([br EXCEPT ![b] = o.rec])
                 done == RootDoneAfter(st.brs)
             IN /\ last' = [base EXCEPT !.r = o.r, !.v = o.v, !.n = o.n, !.px = o.px, !.seen = e.cancel,
                                        !.lp = TRUE, !.dw = own + st.dw]
                /\ br' = st.brs
                /\ lst' = IF done THEN KillAll(lstA) ELSE IF Finished(st.brs[b]) THEN KillBr(lstA, b) ELSE lstA
                /\ tokReg' = IF o.reg = 0 THEN tokReg ELSE [tokReg EXCEPT ![o.reg] = @ \cup {b}]
                /\ rootSt' = IF done THEN "done" ELSE rootSt
                /\ phase' = IF done THEN "end" ELSE phase
                /\ pend' = IF done THEN {} ELSE PendAfter(pend \ {b}, st.brs, own + st.dw)
  /\ steps' = StepInc
  /\ UNCHANGED <<shape, tokC, tokN, postC>>

\* SubmitMulti::try_take on a stream the harness holds as its concrete type
Take(b) ==
  /\ b \in Br
  /\ phase = "run" /\ rootSt = "live" /\ StepOK
  /\ Leaf(b) = "am" /\ shape.b[b].c = <<>> /\ br[b].fs \in {"Idle", "Submitted", "Finished"}
  /\ LET ok == br[b].fs \in {"Idle", "Finished"}
     IN /\ br' = IF ok THEN [br EXCEPT ![b].fs = "Taken"] ELSE br
        /\ last' = [NoObs EXCEPT !.a = "take", !.b = b, !.r = IF ok THEN "ok" ELSE "err", !.pre = br[b].fs]
        /\ pend' = IF ok THEN pend \ {b} ELSE pend
  /\ steps' = StepInc
  /\ UNCHANGED <<shape, phase, tokC, tokN, tokReg, postC, lst, rootSt>>

DropRoot ==
  /\ phase = "run" /\ rootSt = "live" /\ StepOK
  /\ LET st == Settle([x \in Br |-> DropLeaf(br[x])])
     IN /\ br' = st.brs /\ last' = [NoObs EXCEPT !.a = "drop", !.dw = st.dw]
  /\ rootSt' = "dropped" /\ phase' = "end" /\ pend' = {} /\ lst' = KillAll(lst)
  /\ steps' = StepInc
  /\ UNCHANGED <<shape, tokC, tokN, tokReg, postC>>

Next ==
  \/ \E t \in Tokens : PreCancel(t)
  \/ \E t \in Tokens : Cancel(t)
  \/ Build
  \/ \E b \in 1..2 : Feed(b)
  \/ \E b \in 1..2 : Eof(b)
  \/ \E b \in 1..2 : Poll(b)
  \/ \E b \in 1..2 : Take(b)
  \/ DropRoot
  \/ KernelStep

Spec == Init /\ [][Next]_vars
\* the executor polls what was woken, the kernel completes what it can; the environment owes nothing
FairSpec == Spec /\ WF_vars(Build) /\ WF_vars(KernelStep) /\ \A b \in 1..2 : WF_vars(Poll(b))

\* ---------------------------------------------------------------------------------------------------
\* properties
\* ---------------------------------------------------------------------------------------------------
TypeOK ==
  /\ phase \in {"pre", "run", "end"} /\ rootSt \in {"live", "done", "dropped"}
  /\ \A b \in Br : /\ br[b].fs \in {"Idle", "Submitted", "Finished", "Ended", "Done", "Taken", "Dropped"}
                   /\ br[b].st \in {"none", "flight", "done", "taken"}
                   /\ br[b].res \in {"-", "ok", "canc", "einval", "eof"}
  /\ \A p \in FPos : lst[p] \in {"none", "idle", "armed", "notified", "gone", "dead"}

\* every operation is stamped with exactly the innermost token / personality of its own path, whatever the
\* nesting; in particular nothing of a sibling's chain reaches it and nothing of its own path is lost
ExtInnermost ==
  /\ \A b \in Br : br[b].st # "none" => br[b].rtok = VisTok(b) /\ br[b].pers = VisPers(b)
  /\ last.lp => last.seen = VisTok(last.b)
\* a key is only ever held by the token its operation saw
RegSound == \A t \in Tokens : \A b \in tokReg[t] : br[b].rtok = t /\ ~tokC[t]
\* an operation is cancelled only through its own visible token or through the drop of its future
CancelOnlyVisible ==
  \A b \in Br : (br[b].res = "canc") =>
      /\ br[b].cw \in {"tok", "drop"}
      /\ (br[b].cw = "tok") => (VisTok(b) # 0 /\ tokC[VisTok(b)])
      /\ (br[b].cw = "drop") => (br[b].fs = "Dropped")
\* EINVAL is how an unregistered personality shows: only io_uring operations that saw it
BadPersOnlyVisible ==
  \A b \in Br :
     /\ (br[b].res = "einval") => (Driver = "iour" /\ VisPers(b) = BadPers)
     /\ (br[b].res \in {"ok", "canc", "eof"} /\ Driver = "iour") => (VisPers(b) # BadPers)
\* a cancelled fail-fast level answers Err(Cancelled) and nothing below it is polled (the panic of a fail-fast
\* stream polled again is the deviation PanicOnlyKnown pins down)
FailFastPrompt == (last.a = "poll" /\ last.ffexp) => (last.r \in {"ffroot", "ffbr", "ffitem", "panic"} /\ ~last.lp)
\* the same including tokens cancelled before fail_fast() was called (holds only with FixListen)
ListenCoversPast == phase # "pre" => \A p \in FPos : tokC[WId(W(p))] => lst[p] \in {"notified", "gone", "dead"}
\* a stream that has returned None keeps returning None (SubmitMulti and SubmitMultiManaged are FusedStream, and
\* with_cancel / with_personality are transparent; a fail-fast level is not fused: polling it after None is the
\* caller's fault, it may still answer Err(Cancelled))
NoFFOnPath(b) == \A k \in 1..PLen(b) : Pos(b, k) \notin FPos
Fused == (last.a = "poll" /\ last.wasEnded /\ NoFFOnPath(last.b)) => last.r = "end"
\* try_take gives the operation back exactly when the stream was never polled or has finished
TryTake == last.a = "take" => (last.r = "ok" <=> last.pre \in {"Idle", "Finished"})
\* dropping a submitted future or stream requests the cancellation of its operation
DropCancels == \A b \in Br : (br[b].fs = "Dropped" /\ br[b].st = "flight") => br[b].creq
\* no legal step panics (holds only with FixFFStream: polling a stream after Some(_) is legal)
NoPanic == last.r # "panic"
\* the one known way to panic
PanicOnlyKnown == last.r = "panic" => (IsStream(last.b) /\ \E k \in 1..PLen(last.b) :
                                         Pos(last.b, k) \in FPos /\ lst[Pos(last.b, k)] = "gone")
\* a single-shot completion is reported by the future exactly as the driver produced it (fail-slow included)
OwnResult == (last.a = "poll" /\ last.r = "out") => (last.v = br[last.b].res /\ last.n = br[last.b].rn)

Safety == TypeOK /\ ExtInnermost /\ RegSound /\ CancelOnlyVisible /\ BadPersOnlyVisible /\ FailFastPrompt
          /\ Fused /\ TryTake /\ DropCancels /\ PanicOnlyKnown /\ OwnResult

\* liveness (FairSpec, MaxSteps = 0): every submitted operation whose visible token is cancelled is reported,
\* every completion is seen by its future, every cancelled fail-fast level resolves
Unresolved(b) == rootSt = "live" /\ phase = "run" /\ br[b].fs \in {"Idle", "Submitted"}
CancelResolves == \A b \in 1..2 : (b \in Br /\ Leaf(b) \in {"sb", "sx"} /\ VisTok(b) # 0 /\ tokC[VisTok(b)]
                                    /\ Unresolved(b)) ~> (b \in Br /\ ~Unresolved(b))
CompletionSeen == \A b \in 1..2 : (b \in Br /\ Leaf(b) \in {"sb", "sx"} /\ br[b].st = "done" /\ Unresolved(b))
                                   ~> (b \in Br /\ ~Unresolved(b))
FFPending(b) == rootSt = "live" /\ phase = "run" /\ ~Finished(br[b]) /\ ~IsStream(b)
FailFastResolves == \A b \in 1..2 : (b \in Br /\ FFPending(b) /\ \E k \in 1..PLen(b) :
                                         Pos(b, k) \in FPos /\ postC[WId(W(Pos(b, k)))])
                                     ~> (b \in Br /\ ~FFPending(b))
\* the same for tokens cancelled at any time (violated without FixListen: control)
FailFastResolvesStrict == \A b \in 1..2 : (b \in Br /\ FFPending(b) /\ \E k \in 1..PLen(b) :
                                         Pos(b, k) \in FPos /\ tokC[WId(W(Pos(b, k)))])
                                     ~> (b \in Br /\ ~FFPending(b))

\* ---------------------------------------------------------------------------------------------------
\* shape sets (cfg files cannot hold sequences: Shapes <- one of these)
\* ---------------------------------------------------------------------------------------------------
Wr == {"C1", "C2", "F1", "F2", "P1", "P2"}
Chains0 == {<<>>}
Chains1 == {<<w>> : w \in Wr}
Chains2 == {<<w1, w2>> : w1 \in Wr, w2 \in Wr}
Chains3 == {<<w1, w2, w3>> : w1 \in Wr, w2 \in Wr, w3 \in Wr}
One(c, l) == [o |-> <<>>, b |-> <<[c |-> c, l |-> l]>>]
\* token 1 and 2 are interchangeable: keep chains whose first token wrapper uses token 1
FirstTok(c) == LET idx == {k \in 1..Len(c) : WKind(c[k]) # "P"}
               IN IF idx = {} THEN 1 ELSE WId(c[CHOOSE k \in idx : \A j \in idx : k <= j])
Canon(C) == {c \in C : FirstTok(c) = 1}

\* visibility: every chain up to depth 2 (3) over a probe and over an operation that reports its Extra
ShapesVis2 == {One(c, l) : c \in Canon(Chains0 \cup Chains1 \cup Chains2), l \in {"pr", "sx"}}
ShapesVis3 == {One(c, l) : c \in Canon(Chains3), l \in {"pr", "sx"}}
\* state machines: all leaves under the chains that change what a poll does
SMChains == {<<>>, <<"C1">>, <<"F1">>, <<"P2">>, <<"C1", "P1">>, <<"C2", "C1">>, <<"F1", "C2">>, <<"C1", "F1">>}
ShapesSM == {One(c, l) : c \in SMChains, l \in {"sb", "sx", "am", "mg"}}
ShapesSMAll == {One(c, l) : c \in Canon(Chains0 \cup Chains1 \cup Chains2), l \in {"sb", "sx", "am", "mg"}}
\* joins: an outer chain around two branches - what one branch is wrapped in must not reach the other
Two(o, c1, l1, c2, l2) == [o |-> o, b |-> <<[c |-> c1, l |-> l1], [c |-> c2, l |-> l2]>>]
ShapesJoin == {Two(<<>>, <<"C1">>, "sb", <<>>, "sx"),
               Two(<<>>, <<"P2">>, "sx", <<>>, "sx"),
               Two(<<"C1">>, <<"P1">>, "sx", <<"C2">>, "sb"),
               Two(<<"P1">>, <<"C1">>, "sx", <<"P2">>, "sx"),
               Two(<<"F1">>, <<>>, "sb", <<"C2">>, "pr"),
               Two(<<"C1">>, <<"F2">>, "sb", <<>>, "am"),
               Two(<<>>, <<"F1">>, "am", <<"C1">>, "mg"),
               Two(<<"C2">>, <<"C1">>, "sb", <<"F1">>, "pr")}
ShapesJoinAll == {Two(o, c1, l1, c2, l2) : o \in Chains0 \cup {<<"C1">>, <<"F1">>, <<"P1">>, <<"P2">>},
                                           c1 \in Chains0 \cup Chains1, c2 \in Chains0 \cup Chains1,
                                           l1 \in {"sb", "sx"}, l2 \in {"sx", "pr", "am"}}
ShapesJoinMC == {Two(o, c1, l1, c2, l2) : o \in {<<>>, <<"C1">>, <<"F1">>, <<"P2">>},
                                          c1 \in {<<>>, <<"C1">>, <<"F1">>, <<"P1">>},
                                          c2 \in {<<>>, <<"C2">>, <<"F1">>, <<"P2">>},
                                          l1 \in {"sb", "sx"}, l2 \in {"sx", "pr", "am"}}
ShapesQuick == ShapesVis2 \cup ShapesSM \cup ShapesJoin
ShapesThorough == ShapesSMAll \cup ShapesJoinAll \cup ShapesVis3
\* small sets for the control configurations and the liveness runs
ShapesCtl == {One(<<"F1">>, "pr"), One(<<"F1">>, "am"), One(<<"C1", "P1">>, "sx"), One(<<>>, "sb"),
              One(<<"F1">>, "sb")}
ShapesCtl2 == {One(<<"F1">>, "am")}
ShapesLiveQ == ShapesCtl \cup {One(<<"C1">>, "sb"), One(<<"C2", "F1">>, "pr"), One(<<"C1">>, "mg"),
                            Two(<<"F1">>, <<>>, "sb", <<"C2">>, "pr")}
ShapesLive == ShapesSM \cup {One(<<"F1">>, "pr"), One(<<"C2", "F1">>, "pr"),
                            Two(<<"F1">>, <<>>, "sb", <<"C2">>, "pr"), Two(<<"C1">>, <<"P1">>, "sx", <<"C2">>, "sb")}
ShapesMCThorough == ShapesQuick \cup ShapesSMAll \cup ShapesVis3
=============================================================================
