CONSTANTS
  Threads = {1, 2}
  Layouts <- LayoutsCtl
  Muts <- MutsAll
  Sigs = {"a", "b"}
  BadSigs = {"k"}
  MaxRaise = 1
  RaiseOn = {0}
  SpuriousPolls = FALSE
  FixLeak = FALSE
  MaxNL = 3
SPECIFICATION CtlSpec
INVARIANTS CtlSeen
CONSTRAINT CtlCons
