CONSTANTS
  Driver = "iour"
  Shapes <- ShapesCtl
  MaxSteps = 0
  MaxCancel = 2
  MaxFeed = 2
  Eager = FALSE
  FixListen = FALSE
  FixFFStream = FALSE
  MutPersDropsCancel = FALSE
  MutNoDropCancel = FALSE
  MutNoWaker = TRUE
SPECIFICATION FairSpec
PROPERTIES CompletionSeen
