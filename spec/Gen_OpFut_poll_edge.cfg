CONSTANTS
  Driver = "poll"
  Shapes <- ShapesQuick
  MaxSteps = 7
  MaxCancel = 2
  MaxFeed = 2
  Eager = TRUE
  FixListen = FALSE
  FixFFStream = FALSE
  MutPersDropsCancel = FALSE
  MutNoDropCancel = FALSE
  MutNoWaker = FALSE
SPECIFICATION GSpec
INVARIANTS Emit
VIEW ViewEdge
