\* non-vacuity control: with the seeded mutation interval_drift the model must violate an invariant
CONSTANTS
  N = 2
  Deadlines = {0, 1, 2}
  Periods = {2}
  Kinds = {"sleep", "timeout", "interval"}
  NW = 1
  MaxNow = 3
  MaxGen = 3
  Mut = "interval_drift"
SPECIFICATION Spec
INVARIANTS TypeOK WheelExact WakerOwner NeverEarly AlwaysFires ReadyWhenDue MinTimeoutCorrect IdleSleepBound TimeoutExact IntervalAligned
