CONSTANTS
  K = 2
  EchoBuf = 1
  NIns = {0, 1, 2, 3, 4, 6}
  NOuts = {0, 1, 3, 4}
  NErrs = {0, 1, 3, 4}
  WChunks = {0, 1, 2}
  RChunks = {0, 1, 2}
  IoStatuses = {"c0"}
  Codes = {"c0"}
  Sigs = {"s9"}
  Drivers = {"iour"}
  Impls = {"blocking", "pidfd"}
  Families = {"echo", "consumer", "producer", "exit", "status", "held"}
  BlockingChildPipes = TRUE
SPECIFICATION Spec
INVARIANTS TypeOK NoDeadlockStrict
