\* thorough, exhaustive: one timeout or interval alone, 7 steps, two wakers
CONSTANTS
  N = 1
  Deadlines = {0, 1, 2}
  Periods = {1, 2}
  Kinds = {"timeout", "interval"}
  NW = 2
  MaxNow = 4
  MaxGen = 4
  Mut = "none"
  MaxSteps = 7
SPECIFICATION GSpec
INVARIANTS Emit
