------------------------------- MODULE BufVec -------------------------------
(* C10 - vectored buffer views of compio-buf over a root [Vec<u8>; N]:
     io_vec_buf.rs  IoVectoredBuf::slice, IoVectoredBufMut::slice_mut, VectoredBufIter
     slice.rs       VectoredSlice::{iter_slice, iter_uninit_slice, set_len}
     io_buf.rs      default_set_len, SetLenExt::{advance_to, advance_vec_to}
   transcribed as the code is written.  A fill through a vectored view is what readv does:
   write k bytes across iter_uninit_slice() in order, then advance_vec_to(k); through a
   VectoredBufIter it is a scalar read: write at as_uninit()[0..k), then advance_to(k).   *)
EXTENDS Integers, Sequences, FiniteSets, TLC

CONSTANTS N,            \* number of member buffers
          Caps,         \* set of member capacities
          MaxSteps

Members == 1..N

VARIABLES caps,         \* [Members -> Caps]
          lens,         \* [Members -> Nat]   buf_len() of each member (Vec: exact set_len)
          view,         \* [k |-> "root"] | [k |-> "vs", begin, idx, off] | [k |-> "it", index, tf, filled]
          mem,          \* ghost: [Members -> Seq(tag)]
          steps,
          lastFill      \* ghost: <<>> or [w |-> [Members -> <<from, to>>], pre |-> lens before]

vars == <<caps, lens, view, mem, steps, lastFill>>

Min(a, b) == IF a < b THEN a ELSE b
Max(a, b) == IF a > b THEN a ELSE b
RECURSIVE SumTo(_, _)
SumTo(f, n) == IF n = 0 THEN 0 ELSE f[n] + SumTo(f, n - 1)

\* ---- default_set_len over the root: for each member in order while len > 0 -------------
RECURSIVE SetLenFrom(_, _, _)
SetLenFrom(ls, j, n) ==
  IF n = 0 \/ j > N THEN ls
  ELSE LET sub == Min(caps[j], n) IN SetLenFrom([ls EXCEPT ![j] = sub], j + 1, n - sub)
RootSetLen(ls, n) == SetLenFrom(ls, 1, n)

\* ---- slice(begin): skip `begin` initialized bytes; slice_mut(begin): skip by capacity ----
RECURSIVE Skip(_, _, _)
\* returns <<idx, off>>  (idx may be N+1 when everything is skipped)
Skip(f, j, off) == IF j > N THEN <<j, off>>
                   ELSE IF f[j] > off THEN <<j, off>> ELSE Skip(f, j + 1, off - f[j])

\* ---- projections: sequence of [m, io, il, uo, ul] per yielded member ---------------------
\* VectoredSlice::iter_slice does &buf[offset..] on the first yielded member: panics if off > len
VsPanics == view.k = "vs" /\ view.idx <= N /\ view.off > lens[view.idx]
ItPanics == view.k = "it" /\ view.filled > lens[view.index]
Panics == VsPanics \/ ItPanics

Parts ==
  CASE view.k = "root" -> [j \in Members |-> [m |-> j, io |-> 0, il |-> lens[j], uo |-> 0, ul |-> caps[j]]]
    [] view.k = "vs" ->
         [i \in 1..(N + 1 - view.idx) |->
            LET j == view.idx + i - 1
                o == IF i = 1 THEN view.off ELSE 0
            IN [m |-> j, io |-> o, il |-> lens[j] - o, uo |-> o, ul |-> caps[j] - o]]
    [] view.k = "it" ->
         <<[m |-> view.index, io |-> view.filled, il |-> lens[view.index] - view.filled,
            uo |-> 0, ul |-> caps[view.index]]>>

TotalLen == LET p == Parts IN SumTo([i \in 1..Len(p) |-> p[i].il], Len(p))
TotalCap == LET p == Parts IN SumTo([i \in 1..Len(p) |-> p[i].ul], Len(p))

\* ---------------------------------------------------------------------------------------
Init == /\ caps \in [Members -> Caps]
        /\ lens \in {l \in [Members -> 0..4] : \A j \in Members : l[j] <= caps[j]}
        /\ view = [k |-> "root"]
        /\ mem = [j \in Members |-> [p \in 1..caps[j] |-> 0]]
        /\ steps = 0
        /\ lastFill = <<>>

TotalInit == SumTo(lens, N)
TotalCaps == SumTo(caps, N)

VSlice(b) ==     \* IoVectoredBuf::slice(begin)
  /\ view.k = "root" /\ steps < MaxSteps
  /\ LET s == Skip(lens, 1, b) IN view' = [k |-> "vs", begin |-> b, idx |-> s[1], off |-> s[2]]
  /\ steps' = steps + 1 /\ lastFill' = <<>> /\ UNCHANGED <<caps, lens, mem>>

VSliceMut(b) ==  \* IoVectoredBufMut::slice_mut(begin)
  /\ view.k = "root" /\ steps < MaxSteps
  /\ LET s == Skip(caps, 1, b) IN
       \* usage contract of slice_mut: what is skipped has been filled already
       /\ \A j \in Members : j < s[1] => lens[j] = caps[j]
       /\ s[1] <= N => lens[s[1]] >= s[2]
       /\ view' = [k |-> "vs", begin |-> b, idx |-> s[1], off |-> s[2]]
  /\ steps' = steps + 1 /\ lastFill' = <<>> /\ UNCHANGED <<caps, lens, mem>>

OwnedIter ==
  /\ view.k = "root" /\ steps < MaxSteps
  /\ view' = [k |-> "it", index |-> 1, tf |-> 0, filled |-> 0]
  /\ steps' = steps + 1 /\ lastFill' = <<>> /\ UNCHANGED <<caps, lens, mem>>

IterNext ==      \* VectoredBufIter::next(): Ok(self) or Err(buf) at the end
  /\ view.k = "it" /\ steps < MaxSteps
  /\ view' = IF view.index + 1 <= N
               THEN [k |-> "it", index |-> view.index + 1, tf |-> view.tf + view.filled, filled |-> 0]
               ELSE [k |-> "root"]
  /\ steps' = steps + 1 /\ lastFill' = <<>> /\ UNCHANGED <<caps, lens, mem>>

IntoInner ==
  /\ view.k # "root" /\ steps < MaxSteps
  /\ view' = [k |-> "root"]
  /\ steps' = steps + 1 /\ lastFill' = <<>> /\ UNCHANGED <<caps, lens, mem>>

\* where do k bytes written across the parts land: [Members -> <<from, to>>] (positions from+1..to)
RECURSIVE Spread(_, _, _, _)
Spread(p, i, k, acc) ==
  IF i > Len(p) \/ k = 0 THEN acc
  ELSE LET n == Min(k, p[i].ul)
       IN Spread(p, i + 1, k - n, [acc EXCEPT ![p[i].m] = <<p[i].uo, p[i].uo + n>>])
NoWrite == [j \in Members |-> <<0, 0>>]

Fill(k) ==
  /\ steps < MaxSteps /\ ~Panics
  /\ k <= TotalCap
  /\ LET p == Parts
         w == Spread(p, 1, k, NoWrite)
         newlens ==
           IF view.k = "it"
             THEN \* advance_to(k): if k > buf_len() then set_len(k): filled = k; buf.set_len(tf + k)
                  IF k > p[1].il THEN RootSetLen(lens, view.tf + k) ELSE lens
             ELSE \* advance_vec_to(k): if k > total_len() then set_len(k) (VectoredSlice: begin + k)
                  IF k > TotalLen
                    THEN RootSetLen(lens, (IF view.k = "vs" THEN view.begin ELSE 0) + k)
                    ELSE lens
     IN /\ mem' = [j \in Members |-> [q \in 1..caps[j] |->
                      IF q > w[j][1] /\ q <= w[j][2] THEN steps + 1 ELSE mem[j][q]]]
        /\ lens' = newlens
        /\ lastFill' = [w |-> w, pre |-> lens]
        /\ view' = IF view.k = "it" /\ k > p[1].il THEN [view EXCEPT !.filled = k] ELSE view
  /\ steps' = steps + 1
  /\ UNCHANGED caps

Next == \/ \E b \in 0..(TotalCaps + 1) : VSlice(b) \/ VSliceMut(b)
        \/ OwnedIter \/ IterNext \/ IntoInner
        \/ \E k \in 0..TotalCaps : Fill(k)

Spec == Init /\ [][Next]_vars

\* ---------------------------------------------------------------------------------------
\* Contract (C10) for vectored views
\* ---------------------------------------------------------------------------------------
Prefix == ~Panics /\ \A i \in 1..Len(Parts) : Parts[i].io = Parts[i].uo /\ Parts[i].il <= Parts[i].ul /\ Parts[i].il >= 0
Inside == \A j \in Members : lens[j] <= caps[j]
\* recording a fill makes exactly the written bytes visible as initialized in the root:
\* every member's length is max(previous length, end of the range written into it)
FillVisible == lastFill # <<>> =>
   \A j \in Members : lens[j] = Max(lastFill.pre[j], lastFill.w[j][2])
Contract == Prefix /\ Inside /\ FillVisible

\* ---- the recorded deviations of the pinned code (each a known finding) -------------------
\* D1: advance_vec_to / default_set_len account in whole capacities from the first member:
\*     correct only when, before the fill, every member is either full or empty-from-the-start
\*     in the prefix layout "full* partial? empty*".
PrefixLayout(ls) == \A j \in Members : (j > 1 /\ ls[j] > 0) => ls[j - 1] = caps[j - 1]
\* D2: VectoredBufIter: as_init skips `filled` but as_uninit does not (after a recorded fill),
\*     and set_len assumes the earlier members were filled to capacity.
IterDeviation == view.k = "it" /\ (view.filled > 0 \/ ~PrefixLayout(lens) \/ (lastFill # <<>> /\ ~PrefixLayout(lastFill.pre)))
\* D3: slice(begin) counts initialized bytes, set_len(begin + n) distributes by capacity:
\*     differs as soon as a skipped member is not full; slice_mut beyond the initialized part panics.
VsDeviation == view.k = "vs" /\ (VsPanics \/ view.begin # SumTo(caps, view.idx - 1) + view.off \/ ~PrefixLayout(lens) \/ (lastFill # <<>> /\ ~PrefixLayout(lastFill.pre)))
RootDeviation == view.k = "root" /\ lastFill # <<>> /\ ~PrefixLayout(lastFill.pre)
KnownDeviation == IterDeviation \/ VsDeviation \/ RootDeviation

ContractModuloKnown == KnownDeviation \/ Contract
=============================================================================
