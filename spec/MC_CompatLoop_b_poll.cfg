CONSTANTS
  w1 = w1
  w2 = w2
  Wakers = {w1}
  Target <- TgtB
  Tasks = {"t1"}
  QCap = 1
  Mode = "external"
  Driver = "poll"
  Eager = FALSE
  ArmInFlush = TRUE
  WakeAfterPush = TRUE
  Overflow = FALSE
  Hosts <- BothHosts
  Muts = {"none"}
  Ops = {"o1"}
  Timers = {}
  Jobs = {"j1"}
  Owner <- OwnB
  AnyTurn = TRUE
SPECIFICATION XSpec
INVARIANTS XTypeOK PendingBound TypeOK RealSafe
