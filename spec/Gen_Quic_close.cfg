CONSTANTS
  NS = 3
  Units = 3
  Lens = {1, 2, 3}
  Wins = {1, 3}
  ConnWin = 9
  MaxStreamss = {1, 2}
  NDg = 2
  DgCap = 1
  DgReaders = 1
  DgWakeAll = TRUE
  FinishWakes = TRUE
  AllowReset = TRUE
  AllowStop = TRUE
  AllowLoss = FALSE
  Extra = {}
  CloseKinds = {"localA", "localB", "endpointA"}
  Deviations = {}
  CMins = {1, 3, 5, 8, 12, 16, 22, 30}
  Spices = {"plain", "plain2", "plain3", "reset", "stop"}
SPECIFICATION GSpec
INVARIANTS Emit
