----------------------------- MODULE Gen_Task -----------------------------
(* Behaviour printer for Task: the program (sequence of commands) is carried as a history
   variable together with the projection the model expects after every command and, for a
   tick, the order of polls with the outcome each polled future must produce.
   One JSON line per program; replayed on the real Executor by harness bin replay_task. *)
EXTENDS Task, Json

CONSTANT MaxSteps
VARIABLE hist
gvars == <<vars, hist>>

ProjOf(W, HD, WK, EX) ==
  [polls |-> W.polls, fdrops |-> W.fdrops, rdrops |-> W.rdrops, deallocs |-> W.deallocs,
   jwoken |-> W.jwoken, joinres |-> W.joinres, produced |-> W.produced, dw |-> W.dw,
   hashot |-> (W.hot # <<>>), hd |-> HD, wk |-> WK, ex |-> EX, err |-> (W.err # {})]
Rec(a, t, j) == [a |-> a, t |-> t, j |-> j, polls |-> <<>>, ret |-> FALSE,
                 x |-> ProjOf(w', hd', wk', ex')]
Log(a, t, j) == hist' = Append(hist, Rec(a, t, j))
Fin == hist' = [hist EXCEPT ![Len(hist)] = [@ EXCEPT !.polls = w'.order, !.ret = w'.ret,
                                                      !.x = ProjOf(w', hd', wk', ex')]]

GInit == Init /\ hist = <<>>

GCommand ==
  /\ Len(hist) < MaxSteps
  /\ \/ Spawn /\ Log("spawn", nsp', 0)
     \/ TickBegin /\ Log("tick", 0, 0)
     \/ Clear /\ Log("clear", 0, 0)
     \/ ExecDrop /\ Log("execdrop", 0, 0)
     \/ \E t \in T : \/ WakeLocal(t) /\ Log("wake", t, 0)
                     \/ WakerClone(t) /\ Log("wclone", t, 0)
                     \/ WakerDrop(t) /\ Log("wdrop", t, 0)
                     \/ Cancel(t) /\ Log("cancel", t, 0)
                     \/ Detach(t) /\ Log("detach", t, 0)
                     \/ HandleDrop(t) /\ Log("hdrop", t, 0)
                     \/ \E j \in 1..NJ : PollLocal(t, j) /\ Log("poll", t, j)

GInternal ==
  \/ (TickEnd \/ ClearEnd) /\ Fin
  \/ /\ \/ TickNext \/ Unschedule \/ \E o \in Outcomes : RunFuture(o)
        \/ FinishRunning \/ WakeJoiner \/ TaskDrop \/ QueueRemove \/ Reset \/ ClearTask
     /\ UNCHANGED hist

GNext == GCommand \/ GInternal
GSpec == GInit /\ [][GNext]_gvars

\* nothing left to do: executor gone, no handle and no waker held
Terminal == ex = "dropped" /\ \A t \in T : hd[t] # "held" /\ wk[t] = 0
Emit == (Idle /\ (Len(hist) = MaxSteps \/ Terminal)) =>
          PrintT(<<"REPLAY", ToJson([nt |-> NT, mi |-> MI, nj |-> NJ, steps |-> hist])>>)
=============================================================================
