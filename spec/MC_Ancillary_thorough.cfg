CONSTANTS
  FixIterShort = TRUE
  FixDataSlice = TRUE
  Caps = {0, 1, 8, 15, 16, 17, 23, 24, 25, 31, 32, 33, 39, 40, 41, 47, 48, 49, 55, 56, 63, 64, 65, 72, 80, 88, 96, 104, 112, 120, 128}
  Sizes = {0, 1, 2, 3, 4, 7, 8, 9, 12, 15, 16, 17, 20, 24}
  MaxMsgs = 4
  Hdr = 16
  Align = 8
SPECIFICATION Spec
INVARIANTS Accounting IterHeaders IterAtHeader RoundTrip PayloadInside DataSliceExact NoPanicModuloKnown IterNeverPanics
PROPERTIES PushAnswer
