------------------------------ MODULE IoHelpers ------------------------------
(* C11 - the read/write helper algorithms of compio-io over a stream that transfers
   short, is interrupted, fails or ends at any call.

   For every helper the module holds
     (a) the REFERENCE: what a straightforward implementation transfers, as a function of
         the case (op), the stream and the injected hard fault only (operators Ref..), and
     (b) the CODE-SHAPED loop, transcribed from
           compio-io/src/read/ext.rs   loop_read_exact, loop_read_to_end, loop_read_vectored,
                                       read_exact(_at), read_to_end(_at), read_vectored_exact(_at), append
           compio-io/src/write/ext.rs  loop_write_all, loop_write_vectored, write_all(_at),
                                       write_vectored_all(_at)
           compio-io/src/read/buf.rs   BufReader::{fill_buf, consume, read}
           compio-io/src/write/buf.rs  BufWriter::{flush_if_needed, write, flush}
           compio-io/src/buffer.rs     Buffer::{all_done, need_fill, need_flush, reset, advance, flush_to}
           compio-io/src/util/take.rs  Take::read
           compio-io/src/util/copy.rs  copy_with_size
           compio-buf                  Slice (slice(b..e), set_len), VectoredSlice (slice / slice_mut),
                                       VectoredBufIter, default_set_len, advance_to, advance_vec_to
         one action per helper, one step per call of the inner stream.
   The environment chooses the outcome of every inner call:
       k > 0  Ok(k) short or full transfer     0  Ok(0): end of stream / zero write
       -1     Err(Interrupted)                 -2 Err(Other)
   Bytes: the source stream is 1, 2, .., L; a payload to write is 1, .., n; pre-existing content of
   a destination is 11, 12, .. (members of a vectored buffer: 21.., 31..); 0 = never written.
   Deviations of the pinned code that are recorded as known findings are NAMED predicates
   (Dev..); everything outside them must equal the reference.                              *)
EXTENDS Integers, Sequences, FiniteSets, TLC

CONSTANTS MaxL,       \* maximal stream / payload length
          MaxCap,     \* buffer capacities 0..MaxCap
          MaxIntr,    \* Interrupted outcomes per case
          MaxFault,   \* hard faults per case (Err(Other), Ok(0) on a write), 0 or 1
          Helpers,    \* helper names included
          Fixed       \* repaired defects whose fix is in the code: subset of AllFixes.  The normal
                      \* configs use Fixed = AllFixes; control configs take fixes out and must then
                      \* violate the property (the old behaviour is kept in the model as a switch)

VARIABLES op,         \* the case: helper and parameters (constant)
          loc,        \* local variables of the helper
          pc,         \* "run" | "done"
          rpos,       \* bytes consumed from the source stream
          sink,       \* bytes that reached the destination stream
          intrLeft, faultLeft,
          fault,      \* ghost: the injected hard fault [side, kind, off]
          res,        \* result of the helper
          calls,      \* number of inner calls (step bound)
          sched, wsched,  \* history: outcomes of the inner read / write calls (hidden by VIEW)
          rcap, wlen      \* history: capacity / length offered to the inner stream at each of these calls

envvars == <<rpos, sink, intrLeft, faultLeft, fault, calls, sched, wsched, rcap, wlen>>
vars == <<op, loc, pc, res, envvars>>
view == <<op, loc, pc, res, rpos, sink, intrLeft, faultLeft, fault, calls>>

Min(a, b) == IF a < b THEN a ELSE b
Max(a, b) == IF a > b THEN a ELSE b
AllFixes == {"read_to_end_appends",        \* read_to_end family starts at the old length
             "bufreader_cap0",             \* BufReader::with_capacity(0) uses capacity 1
             "copy_cap0",                  \* copy_with_size(.., 0) uses a buffer of 1
             "bufwriter_accept",           \* BufWriter::write returns Ok(written) once bytes are buffered
             "read_vectored_at_clamp",     \* read_vectored_at clamps the position like read_at
             "vec_write_vectored",         \* Vec::write_vectored reserves the payload length
             "vec_write_vectored_at"}      \* Vec::write_vectored_at: saturating capacity hint
ASSUME Fixed \subseteq AllFixes
Bytes(a, k) == [i \in 1..k |-> a + i]
RECURSIVE SumSeq(_, _)
SumSeq(f, n) == IF n = 0 THEN 0 ELSE f[n] + SumSeq(f, n - 1)
RECURSIVE Comp(_)
Comp(n) == IF n = 0 THEN {<<>>} ELSE UNION {{<<k>> \o s : s \in Comp(n - k)} : k \in 1..n}
FirstN(s, n) == SubSeq(s, 1, Max(0, Min(n, Len(s))))
IsPrefix(s, t) == Len(s) <= Len(t) /\ SubSeq(t, 1, Len(s)) = s

\* write bs at 0-based offset `at` into the byte map m (padding with 0 = never written)
Put(m, at, bs) ==
  IF Len(bs) = 0 THEN m
  ELSE [i \in 1..Max(Len(m), at + Len(bs)) |->
          IF i > at /\ i <= at + Len(bs) THEN bs[i - at] ELSE IF i <= Len(m) THEN m[i] ELSE 0]

\* ---------------------------------------------------------------------------------------
\* buffers
\* ---------------------------------------------------------------------------------------
Vec(p, c, base) == [len |-> p, cap |-> c, mem |-> Bytes(base, p)]     \* Vec<u8> with p bytes, capacity c
NoBuf == Vec(0, 0, 0)
Content(b) == [i \in 1..b.len |-> IF i <= Len(b.mem) THEN b.mem[i] ELSE 0]

\* an inner read stores bs at the start of the view b.slice(bg..en) (en = -1: open) and records it
\* with advance_to(k): Slice::set_len(k) = Vec::set_len(bg + k), only if k > buf_len() of the view
SliceRead(b, bg, en, bs) ==
  LET vlen == Min(IF en < 0 THEN b.len ELSE en, b.len) - bg
      k == Len(bs)
  IN [len |-> IF k > vlen THEN bg + k ELSE b.len, cap |-> b.cap, mem |-> Put(b.mem, bg, bs)]

\* vectored buffers: sequence of Vec<u8> members
VCaps(vb) == [j \in 1..Len(vb) |-> vb[j].cap]
VLens(vb) == [j \in 1..Len(vb) |-> vb[j].len]
TotalCap(vb) == SumSeq(VCaps(vb), Len(vb))
TotalLen(vb) == SumSeq(VLens(vb), Len(vb))
\* default_set_len: for each member in order while len > 0: set_len(min(capacity, len))
RECURSIVE DefaultSetLen(_, _, _)
DefaultSetLen(vb, j, n) ==
  IF n = 0 \/ j > Len(vb) THEN vb
  ELSE LET sub == Min(vb[j].cap, n) IN DefaultSetLen([vb EXCEPT ![j].len = sub], j + 1, n - sub)
\* IoVectoredBuf::slice (f = lens) / IoVectoredBufMut::slice_mut (f = caps): members to skip
RECURSIVE Skip(_, _, _)
Skip(f, j, off) == IF j > Len(f) THEN <<j, off>>
                   ELSE IF f[j] > off THEN <<j, off>> ELSE Skip(f, j + 1, off - f[j])
VSlice(f, begin) == LET s == Skip(f, 1, begin) IN [begin |-> begin, idx |-> s[1], off |-> s[2]]
VsOff(vs, j) == IF j = vs.idx THEN vs.off ELSE 0
\* VectoredSlice::iter_slice evaluates &buf[offset..] on the first member it yields
VsSlicePanics(vb, vs) == vs.idx <= Len(vb) /\ vs.off > vb[vs.idx].len
VsTotalLen(vb, vs) == SumSeq([j \in 1..Len(vb) |-> IF j < vs.idx THEN 0 ELSE vb[j].len - VsOff(vs, j)], Len(vb))
VsTotalCap(vb, vs) == SumSeq([j \in 1..Len(vb) |-> IF j < vs.idx THEN 0 ELSE vb[j].cap - VsOff(vs, j)], Len(vb))
\* loop_read_vectored / loop_write_vectored: first member of the view with room (f = caps) / data (f = lens)
RECURSIVE FirstWith(_, _, _)
FirstWith(f, vs, j) == IF j > Len(f) THEN 0
                       ELSE IF f[j] - VsOff(vs, j) > 0 THEN j ELSE FirstWith(f, vs, j + 1)
\* scalar read through VectoredBufIter<VectoredSlice<..>> positioned at member j:
\* store at as_uninit()[0..k), advance_to(k): buf_len() = len_j - off, set_len(k) = root.set_len(begin + k)
VIterRead(vb, vs, j, bs) ==
  LET o == VsOff(vs, j)
      w == [vb EXCEPT ![j].mem = Put(@, o, bs)]
  IN IF Len(bs) > vb[j].len - o THEN DefaultSetLen(w, 1, vs.begin + Len(bs)) ELSE w
\* native readv through the VectoredSlice: fill iter_uninit_slice() in order, advance_vec_to(k)
RECURSIVE Dist(_, _, _, _)
Dist(vb, vs, j, bs) ==
  IF Len(bs) = 0 \/ j > Len(vb) THEN vb
  ELSE LET o == VsOff(vs, j)
           t == Min(vb[j].cap - o, Len(bs))
       IN Dist([vb EXCEPT ![j].mem = Put(@, o, SubSeq(bs, 1, t))], vs, j + 1, SubSeq(bs, t + 1, Len(bs)))
VNativeRead(vb, vs, bs) ==
  LET w == Dist(vb, vs, vs.idx, bs)
  IN IF Len(bs) > VsTotalLen(vb, vs) THEN DefaultSetLen(w, 1, vs.begin + Len(bs)) ELSE w
RECURSIVE Concat(_, _)
Concat(vb, j) == IF j > Len(vb) THEN <<>> ELSE Content(vb[j]) \o Concat(vb, j + 1)

\* Buffer of BufReader / BufWriter: Slice<Vec<u8>> with progress `begin`
NoBB == [begin |-> 0, len |-> 0, cap |-> 0, mem |-> <<>>]

\* ---------------------------------------------------------------------------------------
\* results
\* ---------------------------------------------------------------------------------------
RNone == [k |-> "none", v |-> 0, e |-> ""]
ROk(v) == [k |-> "ok", v |-> v, e |-> ""]
RErr(e) == [k |-> "err", v |-> 0, e |-> e]       \* e: "eof" UnexpectedEof, "wzero" WriteZero, "other", "intr"
RPanic == [k |-> "panic", v |-> 0, e |-> ""]
NoFault == [side |-> "none", kind |-> "", off |-> 0]

\* ---------------------------------------------------------------------------------------
\* the case
\* ---------------------------------------------------------------------------------------
NoOp == [h |-> "", L |-> 0, n |-> 0, cap |-> 0, pre |-> 0, native |-> FALSE, caps |-> <<>>, lens |-> <<>>,
         bc |-> 0, uc |-> 0, lim |-> 0, pos |-> 0, chunks |-> <<>>, inner |-> "script"]
NoLoc == [t |-> 0, b |-> NoBuf, vb |-> <<>>, bb |-> NoBB, got |-> <<>>, errs |-> <<>>, ph |-> "", ci |-> 1,
          nd |-> 0, tot |-> 0, g |-> 0]

AtHelpers == {"read_exact_at", "read_to_end_at", "read_vectored_exact_at", "write_all_at", "write_vectored_all_at"}
RteHelpers == {"read_to_end", "read_to_end_at"}
RveHelpers == {"read_vectored_exact", "read_vectored_exact_at"}
WvaHelpers == {"write_vectored_all", "write_vectored_all_at"}
IsAt == op.h \in AtHelpers
IsMem == op.inner # "script"

Members(caps, lens) == [j \in 1..Len(caps) |-> Vec(lens[j], caps[j], 10 * (j + 1))]
\* payload members: member j holds the bytes following those of the members before it
RECURSIVE PayloadFrom(_, _, _)
PayloadFrom(lens, j, base) ==
  IF j > Len(lens) THEN <<>> ELSE <<Vec(lens[j], lens[j], base)>> \o PayloadFrom(lens, j + 1, base + lens[j])

Cases ==
  UNION {
    { [NoOp EXCEPT !.h = "read_exact", !.L = l, !.cap = c, !.pre = p, !.inner = i] :
        l \in 0..MaxL, c \in 0..MaxCap, p \in 0..2, i \in {"script", "mem"} },
    { [NoOp EXCEPT !.h = "read_exact_at", !.L = l, !.cap = c, !.pos = q, !.inner = i] :
        l \in 0..MaxL, c \in 0..MaxCap, q \in 0..(MaxL + 1), i \in {"script", "mem"} },
    { [NoOp EXCEPT !.h = "read_to_end", !.L = l, !.pre = p, !.cap = p + s, !.inner = i] :
        l \in 0..MaxL, p \in 0..2, s \in 0..2, i \in {"script", "mem"} },
    { [NoOp EXCEPT !.h = "read_to_end_at", !.L = l, !.pre = p, !.cap = p + s, !.pos = q, !.inner = i] :
        l \in 0..MaxL, p \in 0..1, s \in 0..1, q \in 0..(MaxL + 1), i \in {"script", "mem"} },
    { [NoOp EXCEPT !.h = "read_vectored_exact", !.L = l, !.caps = cs, !.lens = ls, !.native = nv, !.inner = i] :
        l \in 0..MaxL, cs \in [1..2 -> 0..2], ls \in [1..2 -> 0..2], nv \in BOOLEAN, i \in {"script", "mem"} },
    { [NoOp EXCEPT !.h = "read_vectored_exact_at", !.L = l, !.caps = cs, !.lens = <<0, 0>>, !.native = nv, !.pos = q] :
        l \in 0..MaxL, cs \in [1..2 -> 0..2], nv \in BOOLEAN, q \in 0..2 },
    { [NoOp EXCEPT !.h = "append", !.L = l, !.cap = c, !.pre = p] :
        l \in 0..Min(MaxL, 2), c \in 0..MaxCap, p \in 0..2 },
    { [NoOp EXCEPT !.h = "take", !.L = l, !.lim = m, !.uc = u, !.inner = i] :
        l \in 0..MaxL, m \in 0..(MaxL + 1), u \in 1..3, i \in {"script", "mem"} },
    { [NoOp EXCEPT !.h = "bufreader", !.L = l, !.bc = c, !.uc = u, !.inner = i] :
        l \in 0..MaxL, c \in 0..MaxCap, u \in 1..3, i \in {"script", "mem"} },
    { [NoOp EXCEPT !.h = "bufreader_fill", !.L = l, !.bc = c, !.uc = u, !.inner = i] :
        l \in 0..MaxL, c \in 0..MaxCap, u \in 1..2, i \in {"script", "mem"} },
    { [NoOp EXCEPT !.h = "take_fill", !.L = l, !.bc = c, !.uc = u, !.lim = m, !.inner = i] :
        l \in 0..MaxL, c \in 0..MaxCap, u \in 1..2, m \in 0..(MaxL + 1), i \in {"script", "mem"} },
    { [NoOp EXCEPT !.h = "copy", !.L = l, !.cap = c, !.inner = i] :
        l \in 0..Min(MaxL, 3), c \in 0..MaxCap, i \in {"script", "mem"} },
    { [NoOp EXCEPT !.h = "write_all", !.n = m, !.inner = "script"] : m \in 0..MaxL },
    { [NoOp EXCEPT !.h = "write_all", !.n = m, !.inner = "vec"] : m \in 0..MaxL },
    { [NoOp EXCEPT !.h = "write_all", !.n = m, !.inner = "arr", !.lim = s] : m \in 0..MaxL, s \in 0..(MaxL + 1) },
    { [NoOp EXCEPT !.h = "write_all_at", !.n = m, !.pos = q] : m \in 0..MaxL, q \in 0..2 },
    { [NoOp EXCEPT !.h = "write_vectored_all", !.lens = ls, !.native = nv] :
        ls \in [1..2 -> 0..2], nv \in BOOLEAN },
    { [NoOp EXCEPT !.h = "write_vectored_all_at", !.lens = ls, !.native = nv, !.pos = q] :
        ls \in [1..2 -> 0..2], nv \in BOOLEAN, q \in 0..1 },
    UNION { { [NoOp EXCEPT !.h = "bufwriter", !.n = m, !.chunks = ch, !.bc = c] :
                ch \in Comp(m), c \in 0..MaxCap } : m \in 0..Min(MaxL, 3) }
  }

CaseOk(o) ==
  /\ o.h \in Helpers
  /\ (o.h = "read_exact" => o.pre <= o.cap)
  /\ (o.h = "append" => o.pre <= o.cap)
  /\ (o.h \in RveHelpers => \A j \in 1..2 : o.lens[j] <= o.caps[j])
  /\ (o.h = "read_vectored_exact" /\ o.inner = "mem" => o.native)    \* in-memory readers are natively vectored
  /\ (o.h = "bufwriter" => Len(o.chunks) = Len(o.chunks))

\* BufReader::with_capacity: Buffer::with_capacity(cap.max(1))   (before the fix: cap)
BufReaderCap(c) == IF "bufreader_cap0" \in Fixed THEN Max(1, c) ELSE c
InitLoc(o) ==
  CASE o.h \in {"read_exact", "read_exact_at", "append"} -> [NoLoc EXCEPT !.b = Vec(o.pre, o.cap, 10)]
    [] o.h \in RteHelpers -> [NoLoc EXCEPT !.b = Vec(o.pre, o.cap, 10)]
    [] o.h \in RveHelpers -> [NoLoc EXCEPT !.vb = Members(o.caps, o.lens)]
    [] o.h = "take" -> [NoLoc EXCEPT !.t = o.lim]
    [] o.h \in {"bufreader", "bufreader_fill"} -> [NoLoc EXCEPT !.bb = [NoBB EXCEPT !.cap = BufReaderCap(o.bc)]]
    [] o.h = "take_fill" -> [NoLoc EXCEPT !.bb = [NoBB EXCEPT !.cap = BufReaderCap(o.bc)], !.t = o.lim]
    [] o.h = "copy" -> [NoLoc EXCEPT !.b = Vec(0, IF "copy_cap0" \in Fixed THEN Max(1, o.cap) ELSE o.cap, 0), !.ph = "read"]
    [] o.h \in {"write_all", "write_all_at"} -> [NoLoc EXCEPT !.b = Vec(o.n, o.n, 0)]
    [] o.h \in WvaHelpers -> [NoLoc EXCEPT !.vb = PayloadFrom(o.lens, 1, 0)]
    [] o.h = "bufwriter" -> [NoLoc EXCEPT !.bb = [NoBB EXCEPT !.cap = o.bc], !.ph = "call"]
    [] OTHER -> NoLoc

Init == /\ op \in {o \in Cases : CaseOk(o)}
        /\ loc = InitLoc(op)
        /\ pc = "run"
        /\ rpos = 0 /\ sink = <<>>
        /\ intrLeft \in {IF op.inner = "script" THEN MaxIntr ELSE 0}
        /\ faultLeft \in {IF op.inner = "script" THEN MaxFault ELSE 0}
        /\ fault = NoFault /\ res = RNone /\ calls = 0
        /\ sched = <<>> /\ wsched = <<>> /\ rcap = <<>> /\ wlen = <<>>

\* ---------------------------------------------------------------------------------------
\* environment: one inner call
\* ---------------------------------------------------------------------------------------
RSrc(at) == IF IsAt THEN at ELSE rpos
RAvail(at) == Max(0, op.L - RSrc(at))
ROuts(c, at) ==
  IF c = 0 THEN {0}                                  \* a zero-capacity read transfers nothing
  ELSE IF IsMem THEN {Min(c, RAvail(at))}            \* slice / Cursor: everything that fits
  ELSE {k \in 1..Min(c, RAvail(at)) : TRUE} \cup (IF RAvail(at) = 0 THEN {0} ELSE {})
       \cup (IF intrLeft > 0 THEN {-1} ELSE {}) \cup (IF faultLeft > 0 THEN {-2} ELSE {})
RBytes(o, at) == Bytes(RSrc(at), o)
RCall(c, at, o) ==
  /\ rpos' = IF o > 0 /\ ~IsAt THEN rpos + o ELSE rpos
  /\ intrLeft' = IF o = -1 THEN intrLeft - 1 ELSE intrLeft
  /\ faultLeft' = IF o = -2 THEN faultLeft - 1 ELSE faultLeft
  /\ fault' = IF o = -2 THEN [side |-> "r", kind |-> "err", off |-> RSrc(at)] ELSE fault
  /\ sched' = IF c = 0 THEN sched ELSE Append(sched, o)
  /\ rcap' = IF c = 0 THEN rcap ELSE Append(rcap, c)
  /\ calls' = calls + 1
  /\ UNCHANGED <<sink, wsched, wlen>>

WOff(at) == IF IsAt THEN at ELSE Len(sink)
WOuts(n) ==
  IF n = 0 THEN {0}
  ELSE IF op.inner = "arr" THEN {Min(n, Max(0, op.lim - Len(sink)))}   \* Cursor<[u8; lim]>
  ELSE IF IsMem THEN {n}                                               \* Vec<u8> / Cursor<Vec<u8>>
  ELSE (1..n) \cup (IF intrLeft > 0 THEN {-1} ELSE {}) \cup (IF faultLeft > 0 THEN {0, -2} ELSE {})
WCall(n, at, o, bs) ==
  /\ sink' = IF o > 0 THEN (IF IsAt THEN Put(sink, at, SubSeq(bs, 1, o)) ELSE sink \o SubSeq(bs, 1, o)) ELSE sink
  /\ intrLeft' = IF o = -1 THEN intrLeft - 1 ELSE intrLeft
  /\ faultLeft' = IF n > 0 /\ o \in {0, -2} /\ ~IsMem THEN faultLeft - 1 ELSE faultLeft
  /\ fault' = IF n > 0 /\ o \in {0, -2}
              THEN [side |-> "w", kind |-> IF o = 0 THEN "zero" ELSE "err", off |-> WOff(at)] ELSE fault
  /\ wsched' = IF n = 0 THEN wsched ELSE Append(wsched, o)
  /\ wlen' = IF n = 0 THEN wlen ELSE Append(wlen, n)
  /\ calls' = calls + 1
  /\ UNCHANGED <<rpos, sched, rcap>>

NoCall == UNCHANGED envvars
Finish(r) == res' = r /\ pc' = "done"
Stay == UNCHANGED <<res, pc>>

\* ---------------------------------------------------------------------------------------
\* read_exact / read_exact_at:  loop_read_exact!(buf, buf.buf_capacity(), read,
\*                                   loop self.read[_at](buf.slice(read..) [, pos + read]))
\* ---------------------------------------------------------------------------------------
StepReadExact ==
  /\ pc = "run" /\ UNCHANGED op
  /\ op.h \in {"read_exact", "read_exact_at"}
  /\ IF loc.t < op.cap
     THEN IF loc.t > loc.b.len                    \* slice(read..) asserts begin <= buf_len()
          THEN Finish(RPanic) /\ NoCall /\ UNCHANGED loc
          ELSE \E o \in ROuts(loc.b.cap - loc.t, op.pos + loc.t) :
                 /\ RCall(loc.b.cap - loc.t, op.pos + loc.t, o)
                 /\ CASE o = 0  -> Finish(RErr("eof")) /\ UNCHANGED loc
                      [] o > 0  -> /\ loc' = [loc EXCEPT !.t = @ + o,
                                                        !.b = SliceRead(@, loc.t, -1, RBytes(o, op.pos + loc.t))]
                                   /\ Stay
                      [] o = -1 -> UNCHANGED loc /\ Stay
                      [] o = -2 -> Finish(RErr("other")) /\ UNCHANGED loc
     ELSE Finish(ROk(0)) /\ NoCall /\ UNCHANGED loc

\* ---------------------------------------------------------------------------------------
\* read_to_end / read_to_string / read_to_end_at:  loop_read_to_end!(buf, total, loop
\*      self.read[_at](buf.slice(start + total..) [, pos + total]))   start = buf.len() at entry
\* (before the fix read_to_end_appends: slice(total..), i.e. start = 0 - DevReadToEndOverwrites)
\* ---------------------------------------------------------------------------------------
StepReadToEnd ==
  /\ pc = "run" /\ UNCHANGED op
  /\ op.h \in RteHelpers
  /\ LET b1 == IF loc.b.len = loc.b.cap THEN [loc.b EXCEPT !.cap = @ + 32] ELSE loc.b    \* buf.reserve(32)
         start == IF "read_to_end_appends" \in Fixed THEN op.pre ELSE 0
         bg == start + loc.t
         c == b1.cap - bg
         at == op.pos + loc.t
     IN IF bg > b1.len
        THEN Finish(RPanic) /\ NoCall /\ UNCHANGED loc
        ELSE \E o \in ROuts(c, at) :
               /\ RCall(c, at, o)
               /\ CASE o = 0  -> Finish(ROk(loc.t)) /\ loc' = [loc EXCEPT !.b = b1]
                    [] o > 0  -> loc' = [loc EXCEPT !.t = @ + o, !.b = SliceRead(b1, bg, -1, RBytes(o, at))] /\ Stay
                    [] o = -1 -> loc' = [loc EXCEPT !.b = b1] /\ Stay
                    [] o = -2 -> Finish(RErr("other")) /\ loc' = [loc EXCEPT !.b = b1]

\* ---------------------------------------------------------------------------------------
\* read_vectored_exact[_at]: len = total_capacity(); loop_read_exact!(.., loop
\*      self.read_vectored[_at](buf.slice_mut(read) [, pos + read]))
\* read_vectored is the trait default (loop_read_vectored over owned_iter()) or a native readv
\* ---------------------------------------------------------------------------------------
StepReadVectoredExact ==
  /\ pc = "run" /\ UNCHANGED op
  /\ op.h \in RveHelpers
  /\ LET vb == loc.vb
         vs == VSlice(VCaps(vb), loc.t)
         at == op.pos + loc.t
     IN IF loc.t < TotalCap(vb)
        THEN IF op.native
             THEN \E o \in ROuts(VsTotalCap(vb, vs), at) :
                    /\ RCall(VsTotalCap(vb, vs), at, o)
                    /\ CASE o >= 0 /\ VsSlicePanics(vb, vs) ->      \* advance_vec_to -> total_len() -> &buf[offset..]
                              Finish(RPanic) /\ loc' = [loc EXCEPT !.vb = Dist(vb, vs, vs.idx, RBytes(o, at))]
                         [] o = 0 /\ ~VsSlicePanics(vb, vs) -> Finish(RErr("eof")) /\ UNCHANGED loc
                         [] o > 0 /\ ~VsSlicePanics(vb, vs) ->
                              loc' = [loc EXCEPT !.t = @ + o, !.vb = VNativeRead(vb, vs, RBytes(o, at))] /\ Stay
                         [] o = -1 -> UNCHANGED loc /\ Stay
                         [] o = -2 -> Finish(RErr("other")) /\ UNCHANGED loc
             ELSE LET j == FirstWith(VCaps(vb), vs, vs.idx) IN
                  IF VsSlicePanics(vb, vs)                   \* owned_iter(): iter_slice().count()
                  THEN Finish(RPanic) /\ NoCall /\ UNCHANGED loc
                  ELSE IF j = 0                              \* no member with room: Ok(0)
                  THEN Finish(RErr("eof")) /\ NoCall /\ UNCHANGED loc
                  ELSE \E o \in ROuts(vb[j].cap - VsOff(vs, j), at) :
                         /\ RCall(vb[j].cap - VsOff(vs, j), at, o)
                         /\ CASE o = 0  -> Finish(RErr("eof")) /\ UNCHANGED loc
                              [] o > 0  -> loc' = [loc EXCEPT !.t = @ + o, !.vb = VIterRead(vb, vs, j, RBytes(o, at))] /\ Stay
                              [] o = -1 -> UNCHANGED loc /\ Stay
                              [] o = -2 -> Finish(RErr("other")) /\ UNCHANGED loc
        ELSE Finish(ROk(0)) /\ NoCall /\ UNCHANGED loc

\* ---------------------------------------------------------------------------------------
\* append: self.read(buf.uninit()) then Uninit::into_inner; one inner call, result passed through
\* ---------------------------------------------------------------------------------------
StepAppend ==
  /\ pc = "run" /\ UNCHANGED op
  /\ op.h = "append"
  /\ \E o \in ROuts(loc.b.cap - loc.b.len, 0) :
       /\ RCall(loc.b.cap - loc.b.len, 0, o)
       /\ CASE o >= 0 -> Finish(ROk(o)) /\ loc' = [loc EXCEPT !.b = SliceRead(@, loc.b.len, -1, RBytes(o, 0))]
            [] o = -1 -> Finish(RErr("intr")) /\ UNCHANGED loc
            [] o = -2 -> Finish(RErr("other")) /\ UNCHANGED loc

\* ---------------------------------------------------------------------------------------
\* Take::read driven by a user who reads into fresh buffers of capacity uc until Ok(0),
\* retrying after errors.   loc.t = limit
\* ---------------------------------------------------------------------------------------
StepTake ==
  /\ pc = "run" /\ UNCHANGED op
  /\ op.h = "take"
  /\ IF loc.t = 0
     THEN Finish(ROk(Len(loc.got))) /\ NoCall /\ UNCHANGED loc            \* limit == 0: Ok(0)
     ELSE LET max == Min(loc.t, op.uc) IN                                  \* buf.slice(..max)
          \E o \in ROuts(max, 0) :
            /\ RCall(max, 0, o)
            /\ CASE o = 0  -> Finish(ROk(Len(loc.got))) /\ UNCHANGED loc
                 [] o > 0  -> IF o > loc.t THEN Finish(RPanic) /\ UNCHANGED loc     \* assert!(n <= limit)
                              ELSE loc' = [loc EXCEPT !.t = @ - o, !.got = @ \o RBytes(o, 0)] /\ Stay
                 [] o = -1 -> UNCHANGED loc /\ Stay                                 \* user retries
                 [] o = -2 -> loc' = [loc EXCEPT !.errs = Append(@, "other")] /\ Stay

\* ---------------------------------------------------------------------------------------
\* BufReader::read (fill_buf; copy; consume) driven by the same user.   loc.bb = Buffer
\* ---------------------------------------------------------------------------------------
Serve(bb, uc) == Min(bb.len - bb.begin, uc)
StepBufReader ==
  /\ pc = "run" /\ UNCHANGED op
  /\ op.h = "bufreader"
  /\ LET b0 == loc.bb
         b1 == IF b0.len - b0.begin = 0 THEN [b0 EXCEPT !.begin = 0, !.len = 0] ELSE b0    \* all_done -> reset
     IN IF b1.len = 0                                                                      \* need_fill
        THEN \E o \in ROuts(b1.cap, 0) :
               /\ RCall(b1.cap, 0, o)
               /\ CASE o = 0  -> Finish(ROk(Len(loc.got))) /\ loc' = [loc EXCEPT !.bb = b1]   \* empty buffer: Ok(0)
                    [] o > 0  -> LET b2 == [b1 EXCEPT !.len = o, !.mem = Put(@, 0, RBytes(o, 0))]
                                     n == Serve(b2, op.uc)
                                 IN /\ loc' = [loc EXCEPT !.bb = [b2 EXCEPT !.begin = @ + n],
                                                          !.got = @ \o SubSeq(b2.mem, b2.begin + 1, b2.begin + n)]
                                    /\ Stay
                    [] o = -1 -> loc' = [loc EXCEPT !.bb = b1] /\ Stay
                    [] o = -2 -> loc' = [loc EXCEPT !.bb = b1, !.errs = Append(@, "other")] /\ Stay
        ELSE LET n == Serve(b1, op.uc) IN
             /\ IF b1.begin + n > b1.cap THEN Finish(RPanic) ELSE Stay       \* Buffer::advance assertion
             /\ loc' = [loc EXCEPT !.bb = [b1 EXCEPT !.begin = @ + n],
                                   !.got = @ \o SubSeq(b1.mem, b1.begin + 1, b1.begin + n)]
             /\ NoCall

\* ---------------------------------------------------------------------------------------
\* AsyncBufRead used directly: loop { s = fill_buf(); if s is empty: stop; consume(min(uc, len s)) }
\* on BufReader (bufreader_fill) and on Take<BufReader> (take_fill: fill_buf cuts the slice at the
\* limit, consume lowers the limit).   loc.t = limit of Take
\* ---------------------------------------------------------------------------------------
FillServe(l, b) ==       \* the buffer b is non-empty or the stream ended; hand out and consume
  LET avail == b.len - b.begin
      vis == IF op.h = "take_fill" THEN Min(l.t, avail) ELSE avail
      a == Min(op.uc, vis)
  IN [l EXCEPT !.bb = [b EXCEPT !.begin = @ + a], !.t = IF op.h = "take_fill" THEN @ - a ELSE @,
               !.got = @ \o SubSeq(b.mem, b.begin + 1, b.begin + a)]
StepFillBuf ==
  /\ pc = "run" /\ UNCHANGED op
  /\ op.h \in {"bufreader_fill", "take_fill"}
  /\ IF op.h = "take_fill" /\ loc.t = 0
     THEN Finish(ROk(Len(loc.got))) /\ NoCall /\ UNCHANGED loc              \* limit == 0: Ok(&[])
     ELSE LET b0 == loc.bb
              b1 == IF b0.len - b0.begin = 0 THEN [b0 EXCEPT !.begin = 0, !.len = 0] ELSE b0
          IN IF b1.len = 0
             THEN \E o \in ROuts(b1.cap, 0) :
                    /\ RCall(b1.cap, 0, o)
                    /\ CASE o = 0  -> Finish(ROk(Len(loc.got))) /\ loc' = [loc EXCEPT !.bb = b1]
                         [] o > 0  -> loc' = FillServe(loc, [b1 EXCEPT !.len = o, !.mem = Put(@, 0, RBytes(o, 0))]) /\ Stay
                         [] o = -1 -> loc' = [loc EXCEPT !.bb = b1] /\ Stay
                         [] o = -2 -> loc' = [loc EXCEPT !.bb = b1, !.errs = Append(@, "other")] /\ Stay
             ELSE loc' = FillServe(loc, b1) /\ Stay /\ NoCall

\* ---------------------------------------------------------------------------------------
\* copy_with_size: buf = Vec::with_capacity(size); loop { read(buf); write_all(buf); buf.clear() }
\* then flush, shutdown
\* ---------------------------------------------------------------------------------------
StepCopy ==
  /\ pc = "run" /\ UNCHANGED op
  /\ op.h = "copy"
  /\ IF loc.ph = "read"
     THEN \E o \in ROuts(loc.b.cap, 0) :
            /\ RCall(loc.b.cap, 0, o)
            /\ CASE o = 0  -> Finish(ROk(loc.tot)) /\ UNCHANGED loc
                 [] o > 0  -> loc' = [loc EXCEPT !.tot = @ + o, !.b = SliceRead(@, 0, -1, RBytes(o, 0)),
                                                 !.ph = "write", !.nd = 0] /\ Stay
                 [] o = -1 -> UNCHANGED loc /\ Stay
                 [] o = -2 -> Finish(RErr("other")) /\ UNCHANGED loc
     ELSE LET n == loc.b.len - loc.nd
              bs == SubSeq(loc.b.mem, loc.nd + 1, loc.b.len)
          IN \E o \in WOuts(n) :
               /\ WCall(n, 0, o, bs)
               /\ CASE o = 0  -> Finish(RErr("wzero")) /\ UNCHANGED loc
                    [] o > 0  -> (IF loc.nd + o < loc.b.len
                                  THEN loc' = [loc EXCEPT !.nd = @ + o]
                                  ELSE loc' = [loc EXCEPT !.nd = 0, !.b = [@ EXCEPT !.len = 0], !.ph = "read"]) /\ Stay
                    [] o = -1 -> UNCHANGED loc /\ Stay
                    [] o = -2 -> Finish(RErr("other")) /\ UNCHANGED loc

\* ---------------------------------------------------------------------------------------
\* write_all[_at]: loop_write_all!(buf, buf.buf_len(), needle, loop self.write[_at](buf.slice(needle..) [, pos + needle]))
\* ---------------------------------------------------------------------------------------
StepWriteAll ==
  /\ pc = "run" /\ UNCHANGED op
  /\ op.h \in {"write_all", "write_all_at"}
  /\ IF loc.nd < loc.b.len
     THEN LET n == loc.b.len - loc.nd
              bs == SubSeq(loc.b.mem, loc.nd + 1, loc.b.len)
          IN \E o \in WOuts(n) :
               /\ WCall(n, op.pos + loc.nd, o, bs)
               /\ CASE o = 0  -> Finish(RErr("wzero")) /\ UNCHANGED loc
                    [] o > 0  -> loc' = [loc EXCEPT !.nd = @ + o] /\ Stay
                    [] o = -1 -> UNCHANGED loc /\ Stay
                    [] o = -2 -> Finish(RErr("other")) /\ UNCHANGED loc
     ELSE Finish(ROk(0)) /\ NoCall /\ UNCHANGED loc

\* ---------------------------------------------------------------------------------------
\* write_vectored_all[_at]: len = total_len(); loop_write_all!(.., loop self.write_vectored[_at](buf.slice(needle) ..))
\* write_vectored is the trait default (loop_write_vectored over owned_iter()) or a native writev
\* ---------------------------------------------------------------------------------------
StepWriteVectoredAll ==
  /\ pc = "run" /\ UNCHANGED op
  /\ op.h \in WvaHelpers
  /\ LET vb == loc.vb
         vs == VSlice(VLens(vb), loc.nd)
         at == op.pos + loc.nd
         all == Concat(vb, 1)
     IN IF loc.nd < TotalLen(vb)
        THEN LET j == FirstWith(VLens(vb), vs, vs.idx)
                 n == IF op.native THEN VsTotalLen(vb, vs) ELSE (IF j = 0 THEN 0 ELSE vb[j].len - VsOff(vs, j))
                 bs == IF op.native THEN SubSeq(all, loc.nd + 1, Len(all))
                       ELSE (IF j = 0 THEN <<>> ELSE SubSeq(vb[j].mem, VsOff(vs, j) + 1, vb[j].len))
             IN IF ~op.native /\ j = 0
                THEN Finish(RErr("wzero")) /\ NoCall /\ UNCHANGED loc         \* default returns Ok(0)
                ELSE \E o \in WOuts(n) :
                       /\ WCall(n, at, o, bs)
                       /\ CASE o = 0  -> Finish(RErr("wzero")) /\ UNCHANGED loc
                            [] o > 0  -> loc' = [loc EXCEPT !.nd = @ + o] /\ Stay
                            [] o = -1 -> UNCHANGED loc /\ Stay
                            [] o = -2 -> Finish(RErr("other")) /\ UNCHANGED loc
        ELSE Finish(ROk(0)) /\ NoCall /\ UNCHANGED loc

\* ---------------------------------------------------------------------------------------
\* BufWriter: the user does write_all(chunk) for every chunk, then flush() (retried after errors).
\*   write(buf): flush_if_needed; copy into the free part; flush_if_needed; Ok(written)
\*   phases: "call" entry of BufWriter::write / next chunk, "f1" / "f2" inside the first / second
\*   flush_to of a write call, "flush" the explicit flush.  loc.nd = needle of write_all in the
\*   current chunk, loc.t = `written` of the current write call, loc.tot = bytes of earlier chunks
\* ---------------------------------------------------------------------------------------
NeedFlush(bb) == bb.len > (bb.cap * 2) \div 3
Pending(bb) == bb.len - bb.begin
\* copy: w.slice(len..) of the Slice view; slice_to_buf copies what fits and records it
BwCopy(bb, bs) == LET k == Min(bb.cap - bb.len, Len(bs))
                  IN [bb EXCEPT !.len = @ + k, !.mem = Put(@, bb.len, SubSeq(bs, 1, k))]
ChunkLen == IF loc.ci <= Len(op.chunks) THEN op.chunks[loc.ci] ELSE 0
ChunkRest == Bytes(loc.tot + loc.nd, ChunkLen - loc.nd)          \* chunk.slice(needle..)
\* after `written` bytes were accepted by one BufWriter::write call: write_all bookkeeping
BwAccepted(l, w) ==
  IF w = 0 THEN [l EXCEPT !.ph = "wzero"]
  ELSE IF l.nd + w < op.chunks[l.ci] THEN [l EXCEPT !.nd = @ + w, !.ph = "call"]
  ELSE [l EXCEPT !.tot = @ + op.chunks[l.ci], !.ci = @ + 1, !.nd = 0, !.ph = "call"]
\* one inner write of flush_to; cont(l) is applied when the flush completed
BwFlushStep(after) ==
  LET bb == loc.bb
      n == Pending(bb)
      bs == SubSeq(bb.mem, bb.begin + 1, bb.len)
  IN \E o \in WOuts(n) :
       /\ WCall(n, 0, o, bs)
       /\ CASE o <= 0 /\ after = "ret" /\ loc.t > 0 /\ "bufwriter_accept" \in Fixed ->
                 \* the bytes are accepted: the failure of the eager flush is not reported by this call;
                 \* the data stays in the buffer and the next write / flush tries again
                 loc' = BwAccepted(loc, loc.t) /\ Stay
            [] o = 0 /\ ~(after = "ret" /\ loc.t > 0 /\ "bufwriter_accept" \in Fixed) ->
                 Finish(RErr("wzero")) /\ UNCHANGED loc
            [] o > 0  -> IF bb.begin + o > bb.cap THEN Finish(RPanic) /\ UNCHANGED loc
                         ELSE IF bb.begin + o < bb.len
                         THEN loc' = [loc EXCEPT !.bb = [bb EXCEPT !.begin = @ + o]] /\ Stay      \* advance
                         ELSE LET l1 == [loc EXCEPT !.bb = [bb EXCEPT !.begin = 0, !.len = 0]]    \* all_done, reset
                              IN (CASE after = "copy" ->
                                         LET b2 == BwCopy(l1.bb, ChunkRest)
                                             w == b2.len - l1.bb.len
                                         IN IF NeedFlush(b2) /\ Pending(b2) > 0
                                            THEN loc' = [l1 EXCEPT !.bb = b2, !.t = w, !.ph = "f2"] /\ Stay
                                            ELSE IF w = 0 THEN Finish(RErr("wzero")) /\ loc' = [l1 EXCEPT !.bb = b2]
                                            ELSE loc' = BwAccepted([l1 EXCEPT !.bb = b2], w) /\ Stay
                                    [] after = "ret" ->
                                         IF loc.t = 0 THEN Finish(RErr("wzero")) /\ loc' = l1
                                         ELSE loc' = BwAccepted(l1, loc.t) /\ Stay
                                    [] after = "done" -> Finish(ROk(0)) /\ loc' = l1)
            [] o = -1 /\ ~(after = "ret" /\ loc.t > 0 /\ "bufwriter_accept" \in Fixed) ->
                         (IF after = "done" THEN UNCHANGED loc           \* flush() returns Interrupted, user retries
                          ELSE loc' = [loc EXCEPT !.ph = "call",         \* write returns Interrupted, write_all retries
                                                 !.g = IF after = "ret" /\ loc.t > 0 THEN 1 ELSE @]) /\ Stay
            [] o = -2 /\ ~(after = "ret" /\ loc.t > 0 /\ "bufwriter_accept" \in Fixed) ->
                         IF after = "done"
                         THEN loc' = [loc EXCEPT !.errs = Append(@, "other")] /\ Stay              \* user retries flush
                         ELSE Finish(RErr("other")) /\ UNCHANGED loc
StepBufWriter ==
  /\ pc = "run" /\ UNCHANGED op
  /\ op.h = "bufwriter"
  /\ CASE loc.ph = "call" ->
            IF loc.ci > Len(op.chunks)
            THEN (IF Pending(loc.bb) = 0 THEN Finish(ROk(0)) /\ UNCHANGED loc               \* flush_to: nothing to do
                  ELSE loc' = [loc EXCEPT !.ph = "flush"] /\ Stay) /\ NoCall
            ELSE IF NeedFlush(loc.bb) /\ Pending(loc.bb) > 0
            THEN loc' = [loc EXCEPT !.ph = "f1"] /\ Stay /\ NoCall
            ELSE LET b2 == BwCopy(loc.bb, ChunkRest)
                     w == b2.len - loc.bb.len
                 IN /\ NoCall
                    /\ IF NeedFlush(b2) /\ Pending(b2) > 0
                       THEN loc' = [loc EXCEPT !.bb = b2, !.t = w, !.ph = "f2"] /\ Stay
                       ELSE IF w = 0 THEN Finish(RErr("wzero")) /\ loc' = [loc EXCEPT !.bb = b2]
                       ELSE loc' = BwAccepted([loc EXCEPT !.bb = b2], w) /\ Stay
       [] loc.ph = "f1" -> BwFlushStep("copy")
       [] loc.ph = "f2" -> BwFlushStep("ret")
       [] loc.ph = "flush" -> BwFlushStep("done")

\* ---------------------------------------------------------------------------------------
Next == \/ StepReadExact \/ StepReadToEnd \/ StepReadVectoredExact \/ StepAppend
        \/ StepTake \/ StepBufReader \/ StepFillBuf \/ StepCopy
        \/ StepWriteAll \/ StepWriteVectoredAll \/ StepBufWriter

\* split halves (util/split.rs): ReadHalf / WriteHalf lock the shared stream and forward the call;
\* the replay runs read_exact and write_all through them and expects the same behaviour
SplitHalf(stream) == stream

Spec == Init /\ [][Next]_vars
FairSpec == Spec /\ WF_vars(Next)

\* ---------------------------------------------------------------------------------------
\* REFERENCE (independent of the loops): result and data as a function of the case and the fault
\* ---------------------------------------------------------------------------------------
RFault == fault.side = "r"
WFault == fault.side = "w"
\* what the helper observably produced
Obs == [res |-> res,
        buf |-> Content(loc.b),
        vb |-> [j \in 1..Len(loc.vb) |-> Content(loc.vb[j])],
        got |-> loc.got, errs |-> loc.errs, sink |-> sink, rpos |-> rpos]

SrcFrom(p) == Bytes(Min(p, op.L), Max(0, op.L - p))        \* the stream from position p to its end
\* read_exact(n): the first n bytes or UnexpectedEof (or the stream's error)
RefReadExact ==
  LET n == op.cap IN
  IF RFault THEN [res |-> RErr("other")]
  ELSE IF Len(SrcFrom(op.pos)) < n THEN [res |-> RErr("eof")]
  ELSE [res |-> ROk(0), buf |-> SubSeq(SrcFrom(op.pos), 1, n) \o Bytes(10 + n, Max(0, op.pre - n)),
        rpos |-> IF IsAt THEN 0 ELSE n]
\* read_to_end: all bytes, appended after the existing content
RefReadToEnd ==
  IF RFault THEN [res |-> RErr("other"), buf |-> Bytes(10, op.pre) \o FirstN(SrcFrom(op.pos), fault.off - op.pos)]
  ELSE [res |-> ROk(Len(SrcFrom(op.pos))), buf |-> Bytes(10, op.pre) \o SrcFrom(op.pos)]
\* vectored exact read: bytes laid out across the members in order, every member full
RECURSIVE Layout(_, _, _)
Layout(caps, j, s) == IF j > Len(caps) THEN <<>> ELSE <<SubSeq(s, 1, caps[j])>> \o Layout(caps, j + 1, SubSeq(s, caps[j] + 1, Len(s)))
RefReadVectoredExact ==
  LET n == SumSeq(op.caps, Len(op.caps)) IN
  IF RFault THEN [res |-> RErr("other")]
  ELSE IF Len(SrcFrom(op.pos)) < n THEN [res |-> RErr("eof")]
  ELSE [res |-> ROk(0), vb |-> Layout(op.caps, 1, SrcFrom(op.pos)), rpos |-> IF IsAt THEN 0 ELSE n]
\* append: the outcome of the single read, stored after the existing content
RefAppend ==
  LET o == sched[1] IN
  IF op.cap - op.pre = 0 THEN [res |-> ROk(0), buf |-> Bytes(10, op.pre)]
  ELSE IF o >= 0 THEN [res |-> ROk(o), buf |-> Bytes(10, op.pre) \o Bytes(0, o)]
  ELSE [res |-> RErr(IF o = -1 THEN "intr" ELSE "other"), buf |-> Bytes(10, op.pre)]
\* Take(limit): the first limit bytes, never more consumed; errors are passed on, nothing is lost
RefTake == LET n == Min(op.lim, op.L) IN
           [res |-> ROk(n), got |-> Bytes(0, n), errs |-> IF RFault THEN <<"other">> ELSE <<>>, rpos |-> n]
\* BufReader: the same byte stream as the inner reader
RefBufReader == [res |-> ROk(op.L), got |-> Bytes(0, op.L), errs |-> IF RFault THEN <<"other">> ELSE <<>>]
\* copy: every byte of the reader reaches the writer, in order; on a fault the prefix before it
RefCopy ==
  IF fault.side = "none" THEN [res |-> ROk(op.L), sink |-> Bytes(0, op.L)]
  ELSE [res |-> RErr(IF fault.kind = "zero" THEN "wzero" ELSE "other"), sink |-> Bytes(0, fault.off)]
\* write_all: all bytes in order; on a fault exactly the bytes before it
WPayloadLen == IF op.h \in WvaHelpers THEN SumSeq(op.lens, Len(op.lens)) ELSE op.n
\* the in-memory array sink of size lim reports Ok(0) when full
EffFault == IF op.inner = "arr" /\ WPayloadLen > op.lim THEN [side |-> "w", kind |-> "zero", off |-> op.lim] ELSE fault
RefWriteAll ==
  LET n == WPayloadLen
      f == EffFault
      k == IF f.side = "w" THEN f.off - op.pos ELSE n
  IN [res |-> IF f.side = "w" THEN RErr(IF f.kind = "zero" THEN "wzero" ELSE "other") ELSE ROk(0),
      sink |-> Put(<<>>, op.pos, Bytes(0, k))]
\* BufWriter: what was accepted reaches the writer exactly once, in order; all of it after a
\* successful flush.  A buffer of capacity 0 accepts nothing: write_all reports WriteZero.
RefBufWriterOk ==
  \/ /\ res = ROk(0) /\ sink = Bytes(0, op.n)
     /\ loc.errs = (IF WFault /\ fault.kind = "err" /\ Len(loc.errs) > 0 THEN <<"other">> ELSE <<>>)
  \/ /\ res.k = "err" /\ IsPrefix(sink, Bytes(0, op.n))
     /\ \/ res.e = "other" /\ WFault /\ fault.kind = "err"
        \/ res.e = "wzero" /\ WFault /\ fault.kind = "zero"
        \/ res.e = "wzero" /\ op.bc = 0 /\ op.n > 0 /\ sink = <<>>

Ref == CASE op.h \in {"read_exact", "read_exact_at"} -> RefReadExact
         [] op.h \in RteHelpers -> RefReadToEnd
         [] op.h \in RveHelpers -> RefReadVectoredExact
         [] op.h = "append" -> RefAppend
         [] op.h = "take" -> RefTake
         [] op.h \in {"bufreader", "bufreader_fill"} -> RefBufReader
         [] op.h = "take_fill" -> [res |-> ROk(Min(op.lim, op.L)), got |-> Bytes(0, Min(op.lim, op.L)),
                                   errs |-> IF RFault THEN <<"other">> ELSE <<>>]
         [] op.h = "copy" -> RefCopy
         [] op.h \in {"write_all", "write_all_at"} \cup WvaHelpers -> RefWriteAll
         [] OTHER -> [res |-> res]
\* the observation agrees with the reference on every field the reference defines
Agrees == IF op.h = "bufwriter" THEN RefBufWriterOk
          ELSE LET r == Ref o == Obs IN \A f \in DOMAIN r : o[f] = r[f]

\* ---------------------------------------------------------------------------------------
\* NAMED DEVIATIONS: DevVectoredPrefilled is open (known finding, compio-buf); the others are
\* repaired in the code and only exist when their fix is taken out of Fixed (control configs)
\* ---------------------------------------------------------------------------------------
\* read_to_end / read_to_string / read_to_end_at start writing at offset 0 of a non-empty buffer
DevReadToEndOverwrites == "read_to_end_appends" \notin Fixed /\ op.h \in RteHelpers /\ op.pre > 0
\* read_vectored_exact over a natively vectored reader with members that already hold data:
\* advance_vec_to compares with the total length of the view and skips recording the bytes
DevVectoredPrefilled == op.h \in RveHelpers /\ op.native /\ SumSeq(op.lens, Len(op.lens)) > 0
\* a zero-capacity buffer makes a non-empty source look finished
DevBufReaderZeroCap == /\ "bufreader_cap0" \notin Fixed
                       /\ op.h \in {"bufreader", "bufreader_fill", "take_fill"} /\ op.bc = 0 /\ op.L > 0
                       /\ (op.h = "take_fill" => op.lim > 0)
DevCopyZeroCap == "copy_cap0" \notin Fixed /\ op.h = "copy" /\ op.cap = 0 /\ op.L > 0
\* BufWriter::write reports Interrupted from its second flush_if_needed after it accepted the bytes;
\* write_all retries and the bytes are buffered twice
DevBufWriterInterruptedAfterAccept == "bufwriter_accept" \notin Fixed /\ op.h = "bufwriter" /\ loc.g = 1
KnownDeviation == \/ DevReadToEndOverwrites \/ DevVectoredPrefilled \/ DevBufReaderZeroCap
                  \/ DevCopyZeroCap \/ DevBufWriterInterruptedAfterAccept

\* ---------------------------------------------------------------------------------------
\* what TLC checks
\* ---------------------------------------------------------------------------------------
Done == pc = "done"
Conforms == Done => Agrees
\* non-vacuity controls: each named deviation really is one (TLC must violate these)
StrictReadToEnd == Done /\ DevReadToEndOverwrites => Agrees
StrictVectoredPrefilled == Done /\ DevVectoredPrefilled => Agrees
StrictBufReaderZeroCap == Done /\ DevBufReaderZeroCap => Agrees
StrictCopyZeroCap == Done /\ DevCopyZeroCap => Agrees
StrictBufWriterInterrupted == Done /\ DevBufWriterInterruptedAfterAccept => Agrees
ConformsModuloKnown == Done /\ ~KnownDeviation => Agrees
\* control for the repaired defects: with a fix taken out of Fixed this must be violated
ConformsModuloOpen == Done /\ ~DevVectoredPrefilled => Agrees
NoPanic == Done /\ ~KnownDeviation => res.k # "panic"
ErrorKinds == Done /\ res.k = "err" => res.e \in {"eof", "wzero", "other"} \cup (IF op.h = "append" THEN {"intr"} ELSE {})
\* termination: a bound on the inner calls in terms of the case (progress: every call transfers
\* at least one byte, ends the helper, or uses up an Interrupted / fault)
CallBound == calls <= 2 * (op.L + WPayloadLen) + MaxIntr + MaxFault + 2
Termination == <>Done
TypeOK == /\ pc \in {"run", "done"} /\ rpos \in 0..MaxL /\ intrLeft \in 0..MaxIntr /\ faultLeft \in 0..MaxFault
          /\ (pc = "done") = (res.k # "none")
=============================================================================
