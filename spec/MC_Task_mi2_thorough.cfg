CONSTANTS
  NT = 2
  MI = 2
  MaxPolls = 3
  MaxW = 1
  NJ = 1
  Outcomes = {"pend", "stash", "selfwake", "ready", "panic"}
  Mut = "none"
SPECIFICATION Spec
VIEW View
INVARIANTS NoErr ExactlyOnce RcMatches WordOk DetachKeepsRunning JoinerWoken NoStarvation QueueOk
PROPERTIES PanicIsolated
