CONSTANTS
  RW = {"a"}
  WW = {"b"}
  MaxPW = 1
  MaxFill = 1
  AllowShut = FALSE
  Eager = FALSE
  Strict = FALSE
  Mut = "nowake"
SPECIFICATION Spec
INVARIANTS Covered
