CONSTANTS
  Setup = "fresh"
  NW = 0
  SyncCap = 1
  MaxTicks = 2
  MaxJPolls = 2
  MaxWakes = 1
  JCmds = {"poll", "hdrop", "cancel", "detach"}
  HCmds = {"tick", "clear", "execdrop"}
  Spurious = TRUE
  Strict = TRUE
  Fix = {"D10a", "D10b", "D11"}
SPECIFICATION Spec
INVARIANTS NoErr HomeOnly ExactlyOnce NoWakerLeak RcMatches NoLostJoinWake PendingBound ScntOk
