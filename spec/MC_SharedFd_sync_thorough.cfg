CONSTANTS
  Handles = {"h1", "h2", "h3", "o1", "o2"}
  Ops = {"o1", "o2"}
  InitLive = {}
  Variant = "sync"
  AllowClone = TRUE
  AllowTake2 = TRUE
  AllowCancel = TRUE
  AllowSpurious = TRUE
  FileLayer = FALSE
  SilentRelease = FALSE
  ForgetsHandle = FALSE
  MaxMigrate = 1
  RegisterOnce = FALSE
SPECIFICATION FairSpec
INVARIANTS Safe
PROPERTIES NoLeakLive
