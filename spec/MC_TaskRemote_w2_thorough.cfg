CONSTANTS
  Setup = "hot"
  NW = 2
  SyncCap = 1
  MaxTicks = 2
  MaxJPolls = 1
  MaxWakes = 1
  JCmds = {}
  HCmds = {"tick", "clear", "execdrop"}
  Spurious = TRUE
  Strict = FALSE
  Fix = {}
SPECIFICATION Spec
INVARIANTS NoErr HomeOnly ExactlyOnce NoWakerLeak RcMatches NoLostJoinWake PendingBound ScntOk

