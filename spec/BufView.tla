------------------------------ MODULE BufView ------------------------------
(* C10 - scalar buffer views of compio-buf: Slice, Uninit over a root buffer.

   The module transcribes the arithmetic of
     compio-buf/src/slice.rs    Slice::{as_init(deref), as_uninit, set_len}
     compio-buf/src/uninit.rs   Uninit::{new, as_init, as_uninit, set_len}
     compio-buf/src/io_buf.rs   SetLen for Vec/BytesMut (exact), ArrayVec/SmallVec (grow only),
                                arrays/boxed slices (no-op), SetLenExt::advance_to
   as the code is written (implementation-shaped part), and states the contract
   of the property on top of it (the Contract operators).

   State: one root allocation of capacity Cap with rlen initialized bytes and a
   stack of views over it.  A "fill" is what every read operation of the driver
   does: write k bytes at the start of the writable region the view reports and
   then record them with advance_to(k).                                       *)
EXTENDS Integers, Sequences, FiniteSets, TLC

CONSTANTS Cap,          \* capacity of the root allocation
          InitLens,     \* set of initial root lengths
          Kinds,        \* subset of {"exact","grow","fixed"}
          MaxDepth,     \* maximal view nesting
          MaxSteps      \* maximal number of fills + wraps + unwraps

NoEnd == Cap + 1        \* Slice::end = None

VARIABLES kind,         \* root kind
          rlen,         \* root buf_len()
          mem,          \* ghost: [0..Cap-1 -> Nat] last write tag per position (0 = original)
          views,        \* Seq of [k: "slice", b, e] | [k: "uninit", b]   (b = Slice::begin)
          steps,        \* step counter (also the write tag)
          lastFill      \* ghost: [off, k, pre] of the last fill (root offset, count, root len before) or none

vars == <<kind, rlen, mem, views, steps, lastFill>>

Min(a, b) == IF a < b THEN a ELSE b
Max(a, b) == IF a > b THEN a ELSE b

\* ---------------------------------------------------------------------------
\* projection of level i (0 = root, i = Len(views) is the outermost view)
\* Each returns <<offset in root allocation, length>>
\* ---------------------------------------------------------------------------
RECURSIVE InitR(_, _), UnR(_, _)
InitR(i, rl) ==
  IF i = 0 THEN <<0, IF kind = "fixed" THEN Cap ELSE rl>>
  ELSE LET v == views[i]
           inner == InitR(i - 1, rl)
           \* Slice::deref: &buffer.as_init()[begin .. min(end, len)]
           endI == Min(v.e, inner[2])
           sl == <<inner[1] + v.b, endI - v.b>>          \* requires v.b <= endI (see NoPanic)
       IN sl   \* Uninit::as_init delegates to the inner Slice

UnR(i, rl) ==
  IF i = 0 THEN <<0, Cap>>
  ELSE LET v == views[i]
           inner == UnR(i - 1, rl)
           endU == Min(v.e, inner[2])
           sl == <<inner[1] + v.b, endU - v.b>>
       IN IF v.k = "slice" THEN sl
          ELSE \* Uninit::as_uninit: &mut self.0.as_uninit()[self.buf_len()..]
               LET il == InitR(i, rl)[2] IN <<sl[1] + il, sl[2] - il>>

Depth == Len(views)

\* Uninit::as_uninit indexes  self.0.as_uninit()[buf_len()..]  and panics (slice index out of
\* range) when the recorded length exceeds what is left of the inner slice.
SliceUnLen(i, rl) == LET inner == UnR(i - 1, rl) IN Min(views[i].e, inner[2]) - views[i].b
RECURSIVE PanicsAt(_, _)
PanicsAt(i, rl) == IF i = 0 THEN FALSE
                   ELSE \/ PanicsAt(i - 1, rl)
                        \/ (views[i].k = "uninit" /\ InitR(i, rl)[2] > SliceUnLen(i, rl))
                        \/ SliceUnLen(i, rl) < 0
Panics == PanicsAt(Depth, rlen)

TopInit == InitR(Depth, rlen)
TopUn == IF Panics THEN <<0, 0>> ELSE UnR(Depth, rlen)

\* SetLen as written: Slice::set_len(n) = buffer.set_len(begin + n); Uninit delegates.
RECURSIVE RootLenArg(_, _)
RootLenArg(i, n) == IF i = 0 THEN n ELSE RootLenArg(i - 1, views[i].b + n)

RootSetLen(n) == CASE kind = "exact" -> n
                   [] kind = "grow"  -> Max(rlen, n)
                   [] kind = "fixed" -> rlen

\* ---------------------------------------------------------------------------
Init == /\ kind \in Kinds
        /\ rlen \in (IF kind = "fixed" THEN {Cap} ELSE InitLens)
        /\ mem = [p \in 0..(Cap - 1) |-> 0]
        /\ views = <<>>
        /\ steps = 0
        /\ lastFill = <<>>

\* buf.slice(b..e) / buf.slice(b..): asserts b <= buf_len(), b <= e
WrapSlice(b, e) ==
  /\ ~Panics
  /\ Depth < MaxDepth /\ steps < MaxSteps
  /\ b <= TopInit[2] /\ b <= e
  /\ views' = Append(views, [k |-> "slice", b |-> b, e |-> e])
  /\ steps' = steps + 1 /\ lastFill' = <<>>
  /\ UNCHANGED <<kind, rlen, mem>>

\* buf.uninit(): Slice(buffer, buf_len()..)
WrapUninit ==
  /\ ~Panics
  /\ Depth < MaxDepth /\ steps < MaxSteps
  /\ views' = Append(views, [k |-> "uninit", b |-> TopInit[2], e |-> NoEnd])
  /\ steps' = steps + 1 /\ lastFill' = <<>>
  /\ UNCHANGED <<kind, rlen, mem>>

\* into_inner()
Unwrap ==
  /\ Depth > 0 /\ steps < MaxSteps
  /\ views' = SubSeq(views, 1, Depth - 1)
  /\ steps' = steps + 1 /\ lastFill' = <<>>
  /\ UNCHANGED <<kind, rlen, mem>>

\* a read of k bytes into the view: write at as_uninit()[0..k), then advance_to(k)
Fill(k) ==
  /\ ~Panics
  /\ steps < MaxSteps
  /\ k <= TopUn[2]
  /\ LET off == TopUn[1]
         newlen == IF k > TopInit[2] THEN RootSetLen(RootLenArg(Depth, k)) ELSE rlen
     IN /\ mem' = [p \in 0..(Cap - 1) |-> IF p >= off /\ p < off + k THEN steps + 1 ELSE mem[p]]
        /\ rlen' = newlen
        /\ lastFill' = <<off, k, rlen>>
  /\ steps' = steps + 1
  /\ UNCHANGED <<kind, views>>

Next == \/ \E b \in 0..Cap, e \in (0..Cap) \cup {NoEnd} : WrapSlice(b, e)
        \/ WrapUninit
        \/ Unwrap
        \/ \E k \in 0..Cap : Fill(k)

Spec == Init /\ [][Next]_vars

\* ---------------------------------------------------------------------------
\* Contract of the property (C10)
\* ---------------------------------------------------------------------------
\* (a) the initialized bytes reported are a prefix of the writable region reported
Prefix == ~Panics /\ TopInit[1] = TopUn[1] /\ TopInit[2] <= TopUn[2]
\* (b) both lie inside the allocation, lengths never exceed capacities
Inside == /\ TopUn[1] + TopUn[2] <= Cap
          /\ TopInit[1] + TopInit[2] <= Cap
          /\ rlen <= Cap
\* (c) recording a fill makes exactly the written bytes visible as initialized in the
\*     root: the root's initialized prefix covers the written range and never shrinks,
\*     and does not grow beyond the written range
FillVisible == lastFill # <<>> =>
                 LET off == lastFill[1] k == lastFill[2] pre == lastFill[3] IN
                   /\ rlen >= pre
                   /\ (kind # "fixed" => rlen = Max(pre, IF k = 0 THEN pre ELSE off + k))

\* the one deviation of the pinned code that is recorded as a known finding:
\* an Uninit view that has recorded a fill (its as_init is non-empty).
RECURSIVE FilledUninitBelow(_)
FilledUninitBelow(i) == IF i = 0 THEN FALSE
                        ELSE \/ (views[i].k = "uninit" /\ InitR(i, rlen)[2] > 0)
                             \/ FilledUninitBelow(i - 1)
KnownDeviation == FilledUninitBelow(Depth)

Contract == Prefix /\ Inside /\ FillVisible
ContractModuloKnown == KnownDeviation \/ Contract
\* the clauses that hold even with the deviation
AlwaysInside == rlen <= Cap /\ TopInit[1] + TopInit[2] <= Cap
=============================================================================
