CONSTANTS
  NT = 1
  MI = 1
  MaxPolls = 3
  MaxW = 2
  NJ = 2
  Outcomes = {"pend", "stash", "selfwake", "ready", "panic"}
  Mut = "take_one_less"
SPECIFICATION Spec
VIEW View
INVARIANTS NoErr ExactlyOnce RcMatches WordOk DetachKeepsRunning JoinerWoken NoStarvation QueueOk
PROPERTIES PanicIsolated
