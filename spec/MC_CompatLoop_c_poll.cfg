CONSTANTS
  w1 = w1
  w2 = w2
  Wakers = {w1}
  Target <- TgtC
  Tasks = {}
  QCap = 1
  Mode = "external"
  Driver = "poll"
  Eager = FALSE
  ArmInFlush = TRUE
  WakeAfterPush = TRUE
  Overflow = FALSE
  Hosts <- BothHosts
  Muts = {"none"}
  Ops = {"o1"}
  Timers = {"s1"}
  Jobs = {"j1"}
  Owner <- OwnC
  AnyTurn = TRUE
SPECIFICATION XSpec
INVARIANTS XTypeOK PendingBound TypeOK RealSafe
