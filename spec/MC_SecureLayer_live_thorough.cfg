\* liveness, two scheduled Pendings
CONSTANTS
  Backends = {"native", "rustls"}
  Shapes = {"t13", "t12"}
  Bufferings = {TRUE, FALSE}
  Payloads = {0, 2}
  Inits = {"c", "s"}
  Limits = {0, 1}
  U = 2
  MaxPend = 2
  FlushBeforeRead = TRUE
  PendingIsWouldBlock = TRUE
  MidResumes = TRUE
  FinalFlush = TRUE
  CloseFlushes = TRUE
  FixRustlsHsFlush = FALSE
SPECIFICATION FairSpec
PROPERTIES HandshakeCompletes CloseCompletes
