---------------------------- MODULE MC_TermParse ----------------------------
(* Input families for TermParse (check X05): what a terminal sends for its keys, mouse reports, pastes and focus
   reports (Tk, the same table as hx05::catalogue), sequences of them, every short string over an alphabet of
   byte classes that reaches every arm of the parser, and tokens with one byte replaced / cut short (hostile). *)
EXTENDS TermParse

Csi(s) == <<27, 91>> \o s
Pst(s) == PASTE_START \o s \o PASTE_END

Tk == [ a |-> <<97>>, A |-> <<65>>, eacute |-> <<195, 169>>, Eacute |-> <<195, 137>>, euro |-> <<226, 130, 172>>,
        smile |-> <<240, 159, 152, 128>>, cr |-> <<13>>, lf |-> <<10>>, tab |-> <<9>>, bs |-> <<127>>, nul |-> <<0>>,
        ctrl_c |-> <<3>>, ctrl_bslash |-> <<28>>, esc |-> <<27>>, escesc |-> <<27, 27>>, alt_x |-> <<27, 120>>,
        alt_eacute |-> <<27, 195, 169>>, alt_cr |-> <<27, 13>>,
        up |-> Csi(<<65>>), focus_in |-> Csi(<<73>>), focus_out |-> Csi(<<79>>), backtab |-> Csi(<<90>>), f3_csi |-> Csi(<<82>>),
        ss3_up |-> <<27, 79, 65>>, ss3_f1 |-> <<27, 79, 80>>, ss3_f4 |-> <<27, 79, 83>>,
        ctrl_right_rep |-> Csi(<<49, 59, 54, 58, 50, 67>>), shift_up |-> Csi(<<49, 59, 50, 65>>),
        cpr |-> Csi(<<49, 50, 59, 53, 82>>), del |-> Csi(<<51, 126>>), f5 |-> Csi(<<49, 53, 126>>), f12 |-> Csi(<<50, 52, 126>>),
        ctrl_pgup |-> Csi(<<53, 59, 53, 126>>),
        kitty_a_ctrl_rel |-> Csi(<<57, 55, 59, 53, 58, 51, 117>>), kitty_esc |-> Csi(<<50, 55, 117>>),
        kitty_shift_alt |-> Csi(<<57, 55, 58, 54, 53, 59, 50, 117>>), kitty_kp0 |-> Csi(<<53, 55, 51, 57, 57, 117>>),
        kitty_lshift |-> Csi(<<53, 55, 52, 52, 49, 59, 50, 117>>), kitty_caps |-> Csi(<<57, 55, 59, 54, 53, 117>>),
        kitty_f13 |-> Csi(<<53, 55, 51, 55, 54, 117>>), kitty_play |-> Csi(<<53, 55, 52, 50, 56, 117>>),
        kitty_flags |-> Csi(<<63, 49, 117>>), da1 |-> Csi(<<63, 54, 50, 59, 99>>),
        sgr_down |-> Csi(<<60, 48, 59, 52, 59, 51, 77>>), sgr_up |-> Csi(<<60, 48, 59, 52, 59, 51, 109>>),
        sgr_drag_ctrl |-> Csi(<<60, 53, 48, 59, 49, 59, 49, 77>>), sgr_scroll |-> Csi(<<60, 54, 53, 59, 50, 59, 50, 77>>),
        rxvt_down |-> Csi(<<51, 50, 59, 49, 48, 59, 53, 77>>),
        x10_down |-> <<27, 91, 77, 32, 33, 33>>, x10_raw |-> <<27, 91, 77, 35, 91, 65>>,
        paste_hi |-> Pst(<<104, 105>>), paste_empty |-> Pst(<<>>), paste_esc |-> Pst(<<27, 91, 65, 120>>),
        paste_nl |-> Pst(<<97, 13, 10, 98>>) ]

TokNames == DOMAIN Tk
\* a smaller set with one token per arm, for pairs and triples
CoreNames == {"a", "eacute", "smile", "cr", "esc", "escesc", "alt_x", "alt_eacute", "up", "f3_csi", "ss3_f1", "ctrl_right_rep",
              "cpr", "f5", "kitty_a_ctrl_rel", "kitty_flags", "sgr_down", "rxvt_down", "x10_raw", "paste_hi", "paste_esc"}

CanonNames == {"a", "lf", "cr", "eacute", "esc", "alt_x", "up", "ctrl_right_rep", "sgr_down", "paste_hi", "paste_nl", "kitty_esc", "ctrl_c"}
\* byte classes: ESC [ O M < ; : digits ~ u A R x CR, UTF-8 leads of every length, continuation, invalid, ? c m + space !
Sigma == {27, 91, 79, 77, 60, 59, 58, 48, 49, 50, 57, 126, 117, 65, 82, 120, 13, 195, 169, 226, 240, 128, 255, 192, 237,
          63, 99, 109, 43, 32, 33}
SigmaSmall == {27, 91, 77, 49, 59, 65, 126, 195, 169}

RECURSIVE Strings(_, _)
Strings(S, n) == IF n = 0 THEN {<<>>} ELSE LET P == Strings(S, n - 1) IN P \cup {Append(p, x) : p \in {q \in P : Len(q) = n - 1}, x \in S}

Singles == {Tk[n] : n \in TokNames}
Pairs == {Tk[a] \o Tk[b] : a \in CoreNames, b \in CoreNames}
ReplaceAt(s, i, x) == [s EXCEPT ![i] = x]
Mutated(Names, S) == {ReplaceAt(Tk[n], i, x) : n \in Names, i \in 1..6, x \in S} \ {<<>>}
MutatedOk(Names, S) == UNION {{ReplaceAt(Tk[n], i, x) : i \in 1..Len(Tk[n]), x \in S} : n \in Names}
Truncated(Names, Follow) == UNION {{SubSeq(Tk[n], 1, i) \o Tk[m] : i \in 1..(Len(Tk[n]) - 1), m \in Follow} : n \in Names}
LongCsi == {<<27, 91>> \o [i \in 1..n |-> 49] : n \in {8, 40}} \cup {<<27, 91>> \o [i \in 1..40 |-> 49] \o <<59, 53, 65>>}

InputsStale == {<<27, 120, 27>>, <<27, 27, 27>>, <<27, 120, 27, 91, 65>>, <<27, 13, 27, 120>>}
InputsWf == Singles \cup Pairs
CoreQ == {"a", "eacute", "esc", "escesc", "alt_x", "up", "ctrl_right_rep", "sgr_down", "x10_raw", "paste_esc"}
InputsWfQ == Singles \cup {Tk[a] \o Tk[b] : a \in CoreQ, b \in CoreQ}
InputsHostileQ == (Strings(SigmaSmall, 3) \ {<<>>}) \cup LongCsi \cup InputsStale
SigmaTiny == {27, 91, 65, 49, 195, 169}
InputsCtl == {<<27, 91, 65>>, <<27, 91, 77, 32, 33, 33>>, <<27, 27, 91, 65>>, <<97, 98>>, Pst(<<104>>)}
=============================================================================
