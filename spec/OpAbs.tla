------------------------------- MODULE OpAbs -------------------------------
(* Contract monitor for C01 / C02 / C05 / C06(b) / C17 at the level of ownership events.

   The monitor is a pure function Ev(m, e) from a monitor record and one event to the next
   monitor record.  It is used in two ways:
     - the implementation-shaped driver models (IourDriver, PollDriver) emit events from
       their actions and TLC checks NoViol in every reachable state;
     - Trace_OpAbs feeds it the events recorded from the real compio-driver (hooks behind
       cfg(compio_verif) plus the harness' own API-level events) and TLC checks NoViol at
       every step of every recorded run.

   Events (record with fields ev, op and, where needed, a / fd):
     hooks in compio-driver
       alloc      RawOp allocated                      (key.rs ErasedKey::new)
       free       RawOp released                       (key.rs, guard field drop)
       result     final result stored (set_result)     (key.rs)
       cancelled  cancelled flag set                   (key.rs set_cancelled)
       submit     entry pushed to the SQ, one reference leaked to the ring   (iour push_raw_with_key)
       cqe        completion consumed by poll_entries, a=1 iff IORING_CQE_F_MORE
       cancelreq  Driver::cancel called, a=1 iff the SQ was full            (iour cancel)
       dropcqe    completion consumed by Driver::drop, a=1 iff MORE
       ringclosed io_uring fd closed in Driver::drop
       dropfree   Driver::drop releases a reference left in in_flight
       psubmit    op queued on fd (poll driver submit / submit_front)
       ppop       op popped from the fd queue on an event (poll_one)
       pcancel    op removed from the fd queue (cancel_one)
       pevent     readiness event received for op: the driver dereferences the key
       bdispatch / bstart / bdone   thread-pool job handed over / running / finished
     events of the harness (API level)
       hsub       push returned Pending: the submitter holds a key
       htake      the submitter gives its key back to the driver (pop / cancel / drop) - begin
       hpending   pop returned Pending: the submitter holds the key again
       hready     pop / cancel returned the result: a = 1 iff the result is what the OS did
       hbufdrop   the operation's buffer was dropped
       hdrvdrop   the Proactor is about to be dropped
       hend       end of the run: everything has been dropped
       hsetw      the submitter registered waker a for the pending operation (Proactor::update_waker, what a
                  future does whenever its poll returns Pending); a new poll may bring another waker (the future
                  moved to another task)
       hwoken     waker a of the operation was invoked (recorded by the waker itself)
       hwchk      end of a harness step while the submitter still holds the key: a stored result must have
                  woken the waker of the LATEST registration                                   *)
EXTENDS Integers, Sequences, FiniteSets, TLC

CONSTANTS Ops            \* set of operation identities

MonInit == [ alloc   |-> [o \in Ops |-> 0],        \* 0 never, 1 live, 2 freed
             frees   |-> [o \in Ops |-> 0],
             os      |-> [o \in Ops |-> 0],        \* references held on behalf of the OS
             pq      |-> [o \in Ops |-> {}],       \* poll driver: fds whose queue holds the op
             pool    |-> [o \in Ops |-> "no"],     \* no | disp | run | done
             user    |-> [o \in Ops |-> FALSE],    \* submitter holds its key
             results |-> [o \in Ops |-> 0],
             taken   |-> [o \in Ops |-> 0],        \* results handed to the submitter
             bufdrop |-> [o \in Ops |-> 0],
             wk      |-> [o \in Ops |-> 0],        \* waker of the latest registration + 1 (0 none)
             needw   |-> [o \in Ops |-> FALSE],    \* a result was stored while a waker was registered
             wokeok  |-> [o \in Ops |-> FALSE],    \* ... and that waker has been invoked since
             ring    |-> "open",
             ended   |-> FALSE,
             viol    |-> {} ]

V(m, cond, kind, o) == IF cond THEN m.viol \cup {<<kind, o>>} ELSE m.viol
V2(vs, cond, kind, o) == IF cond THEN vs \cup {<<kind, o>>} ELSE vs

OsBusy(m, o) == m.os[o] > 0 \/ m.pq[o] # {} \/ m.pool[o] \in {"disp", "run"}

Ev(m, e) ==
  LET o == e.op IN
  CASE e.ev = "alloc" ->
         [m EXCEPT !.alloc[o] = 1, !.viol = V(m, m.alloc[o] # 0, "realloc", o)]
    [] e.ev = "free" ->
         [m EXCEPT !.alloc[o] = 2, !.frees[o] = @ + 1,
                   !.viol = V2(V2(V2(V2(m.viol,
                               m.os[o] > 0 \/ m.pq[o] # {}, "free-while-os-holds", o),
                               m.pool[o] \in {"disp", "run"}, "free-while-pool-runs", o),
                               m.frees[o] >= 1 \/ m.alloc[o] # 1, "double-free", o),
                               m.user[o], "free-under-submitter", o)]
    [] e.ev = "result" ->
         [m EXCEPT !.results[o] = @ + 1, !.needw[o] = (m.wk[o] # 0), !.wokeok[o] = FALSE,
                   !.viol = V2(V2(m.viol, m.results[o] >= 1, "double-result", o),
                               m.alloc[o] # 1, "result-on-dead-op", o)]
    [] e.ev = "cancelled" -> [m EXCEPT !.viol = V(m, m.alloc[o] # 1, "cancel-on-dead-op", o)]
    [] e.ev = "submit" ->
         [m EXCEPT !.os[o] = @ + 1,
                   !.viol = V2(V2(m.viol, m.alloc[o] # 1, "submit-dead-op", o), m.os[o] # 0, "double-submit", o)]
    [] e.ev \in {"cqe", "dropcqe"} ->
         [m EXCEPT !.os[o] = IF e.a = 1 \/ @ = 0 THEN @ ELSE @ - 1,
                   !.viol = V2(V2(m.viol, m.os[o] = 0, "completion-for-op-not-in-os", o),
                               m.alloc[o] # 1, "completion-touches-freed-op", o)]
    [] e.ev = "cancelreq" -> [m EXCEPT !.viol = V(m, m.alloc[o] # 1, "cancel-dead-op", o)]
    [] e.ev = "ringclosed" -> [m EXCEPT !.ring = "closed", !.os = [p \in Ops |-> 0], !.pq = [p \in Ops |-> {}]]
    [] e.ev = "dropfree" ->
         [m EXCEPT !.viol = V2(V2(m.viol, m.ring # "closed", "release-before-ring-closed", o),
                               m.alloc[o] # 1, "release-of-dead-op", o)]
    [] e.ev = "psubmit" ->
         [m EXCEPT !.pq[o] = @ \cup {e.fd}, !.viol = V(m, m.alloc[o] # 1, "submit-dead-op", o)]
    [] e.ev \in {"ppop", "pcancel"} -> [m EXCEPT !.pq[o] = @ \ {e.fd}]
    [] e.ev = "pevent" -> [m EXCEPT !.viol = V(m, m.alloc[o] # 1, "event-touches-freed-op", o)]
    [] e.ev = "bdispatch" ->
         [m EXCEPT !.pool[o] = "disp", !.viol = V(m, m.alloc[o] # 1 \/ m.pool[o] # "no", "bad-dispatch", o)]
    [] e.ev = "bstart" ->
         [m EXCEPT !.pool[o] = "run",
                   !.viol = V2(V2(m.viol, m.pool[o] # "disp", "job-started-twice-or-undispatched", o),
                               m.alloc[o] # 1, "job-on-freed-op", o)]
    [] e.ev = "bdone" ->
         [m EXCEPT !.pool[o] = "done", !.viol = V(m, m.pool[o] # "run", "job-done-without-start", o)]
    [] e.ev = "hsub" -> [m EXCEPT !.user[o] = TRUE]
    [] e.ev = "htake" -> [m EXCEPT !.user[o] = FALSE]
    [] e.ev = "hpending" ->
         [m EXCEPT !.user[o] = TRUE, !.viol = V(m, m.alloc[o] # 1, "pending-key-to-freed-op", o)]
    [] e.ev = "hready" ->
         [m EXCEPT !.taken[o] = @ + 1,
                   !.viol = V2(V2(V2(V2(m.viol,
                               m.taken[o] >= 1, "result-delivered-twice", o),
                               m.results[o] = 0, "result-delivered-but-never-stored", o),
                               OsBusy(m, o), "result-delivered-while-os-holds", o),
                               e.a # 1, "result-is-not-what-the-os-did", o)]
    [] e.ev = "hbufdrop" ->
         [m EXCEPT !.bufdrop[o] = @ + 1,
                   !.viol = V2(V2(m.viol, OsBusy(m, o), "buffer-dropped-while-os-holds", o),
                               m.bufdrop[o] >= 1, "buffer-dropped-twice", o)]
    [] e.ev = "hsetw" ->
         \* set_waker is a no-op once the result is stored
         IF m.results[o] > 0 THEN m
         ELSE [m EXCEPT !.wk[o] = e.a + 1, !.viol = V(m, m.alloc[o] # 1, "waker-on-dead-op", o)]
    [] e.ev = "hwoken" ->
         [m EXCEPT !.wokeok[o] = (e.a + 1 = m.wk[o]) \/ @,
                   !.viol = V(m, m.user[o] /\ e.a + 1 # m.wk[o], "stale-waker-woken", o)]
    [] e.ev = "hwchk" ->
         [m EXCEPT !.viol = V(m, m.user[o] /\ m.needw[o] /\ ~m.wokeok[o], "waiter-not-woken", o)]
    [] e.ev = "hdrvdrop" -> m
    [] e.ev = "hend" ->
         [m EXCEPT !.ended = TRUE,
                   !.viol = m.viol \cup {<<"leaked", p>> : p \in {q \in Ops : m.alloc[q] = 1}}
                                   \cup {<<"buffer-leaked", p>> : p \in {q \in Ops : m.alloc[q] # 0 /\ m.bufdrop[q] = 0 /\ m.taken[q] = 0}}]
    [] OTHER -> [m EXCEPT !.viol = @ \cup {<<"unknown-event", o>>}]

RECURSIVE Apply(_, _)
Apply(m, es) == IF es = <<>> THEN m ELSE Apply(Ev(m, Head(es)), Tail(es))

NoViol(m) == m.viol = {}
=============================================================================
