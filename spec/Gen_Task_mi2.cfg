CONSTANTS
  NT = 2
  MI = 2
  MaxPolls = 3
  MaxW = 1
  NJ = 1
  Outcomes = {"pend", "stash", "selfwake", "ready", "panic"}
  Mut = "none"
  MaxSteps = 5
SPECIFICATION GSpec
INVARIANTS Emit
