------------------------------- MODULE Actor -------------------------------
(* C19 - compio-actor: mailbox, run loop, calls, registry, process group, supervision.

   Implementation-shaped: one action per critical section / linearization point of
     mailbox/mod.rs        MailboxInner::send (is_closed check, then try_send), stop (swap, then
                           try_send on the one-slot stop channel), begin_stop, is_closed
     mailbox/receiver.rs   Receiver::recv  (select_biased: stop first, then a message)
     mailbox/call.rs       call_with (send, then await the oneshot reply; dropped sender => NoReply)
     actor/deliver.rs      run (post_start, started event, recv/handle loop), finish (begin_stop,
                           pre_stop, drop(receiver), post_stop)
     cluster/spawn.rs      Cluster::start (reserve, dispatch, pre_start, activate, started_tx,
                           run, drop(reg), terminal supervision event)
     cluster/registry.rs   reserve / activate / Drop for Registration / get
     process_group/mod.rs  join, Membership::drop, send (round robin, skip full, evict closed)
     supervisor/mod.rs     started / terminated / failed  (best-effort casts)

   Actions that carry a logged event of the recorder (harness/hactor record_actor) take the
   logged fields as parameters; everything else is an internal (silent) step.  Trace_Actor
   reuses every action of this module.

   NAMED DEVIATION (known finding C19-queued-call-hangs): CloseRxKeepsQueue.  Dropping the
   flume receiver disconnects the channel but does not drop queued messages; a Call that is
   still queued when the actor exits keeps its reply sender alive for as long as any Mailbox
   clone exists - and the caller itself holds one - so the call never returns.  With
   DrainOnClose = TRUE the model uses the repaired behaviour (CloseRxDrains).              *)
EXTENDS Integers, Sequences, FiniteSets, TLC

CONSTANTS Actors,        \* actor incarnation ids (naturals)
          Procs,         \* client processes (threads / the supervisor's handler), naturals
          Names,         \* registry names (strings)
          Caps,          \* mailbox capacities a spawn may choose
          Kinds,         \* message kinds the bounded Next may send
          Spawners, Senders, Stoppers, Lookers, GSenders, Joiners,   \* roles for the bounded Next
          Prestarted,    \* actors that are already up (post_start done) in the initial state
          Prejoined,     \* BOOLEAN: the Prestarted actors are members of the group initially (ascending ids)
          InitialActors, \* actors the Spawners may spawn
          Replacements,  \* actors the supervisor may spawn as reaction to a terminal event
          MsgsPer, StopsPer, LooksPer, JoinsPer,
          SupChoices,    \* subset of BOOLEAN
          SupProc,       \* the proc that stands for the supervisor's handler, or NoProc
          SupCap,        \* capacity of the supervisor's mailbox
          PreMayFail, PostMayFail, StopHooksMayFail,   \* BOOLEAN
          DrainOnClose,  \* FALSE = code as it is (deviation), TRUE = repaired
          ReserveIgnoresStarting,  \* FALSE = code as it is: an entry that is only reserved (actor still in pre_start)
                                   \* counts as taken; TRUE = control variant, must violate RegistrySound
          ReportBeforeRelease   \* FALSE = code as it is: a failed start frees the name BEFORE the failure is reported;
                                \* TRUE = control variant (release only after the report), must violate FailedStartFreesName

NoActor == 0 - 1
NoProc == 0 - 1
NoName == ""
NoMsg == [p |-> NoProc, n |-> 0, k |-> ""]

CallKinds == {"call", "noreply", "callfail"}
FailKinds == {"fail", "callfail"}
AllKinds == {"cast", "fail", "stopself"} \cup CallKinds

VARIABLES
  \* --- per actor incarnation ---
  phase,      \* program counter of the actor task (see Phases)
  queue,      \* bounded flume channel of messages (FIFO)
  stopq,      \* one-slot stop channel holds a token
  stopping,   \* MailboxInner::stopping
  rxopen,     \* the Receiver pair is alive (channels not disconnected)
  cur,        \* message taken out of the channel, being handled
  exit,       \* "" | "stopped" | "failed"
  startmsg,   \* started_tx: "none" | "ok" | "err"
  aname, acap, asup,   \* spawn parameters
  selfstop,   \* inner effect of the current handler: "none" | "t" | "f" (result of myself.stop()) | "r" (replied / dropped the call)
  \* --- registry ---
  regOwner,   \* [Names -> actor or NoActor]   entry present
  regActive,  \* [Names -> BOOLEAN]            entry holds Some(mailbox)
  \* --- client processes ---
  op,         \* current operation of each proc
  reply,      \* oneshot of the proc's current call: "none" | "value" | "dropped"
  bud,        \* per proc counters [m, s, l, j] (message numbering and budgets of the bounded Next)
  \* --- process group ---
  members,    \* Seq of [id, a]
  cursor,
  glock,      \* proc inside ProcessGroup::send holding the state mutex, or NoProc
  \* --- supervisor mailbox ---
  supq,       \* Seq of [k, a]
  \* --- ghost (history) ---
  accepted,   \* [Actors -> Seq of <<p, n>>]  acceptance order
  handled,    \* [Actors -> Seq of <<p, n>>]
  hooks,      \* [Actors -> Seq of hook names]
  active      \* [Actors -> Nat] handlers in flight

avars == <<phase, queue, stopq, stopping, rxopen, cur, exit, startmsg, aname, acap, asup, selfstop>>
rvars == <<regOwner, regActive>>
pvars == <<op, reply, bud>>
gvars == <<members, cursor, glock>>
hvars == <<accepted, handled, hooks, active>>
vars == <<avars, rvars, pvars, gvars, supq, hvars>>

Phases == {"unspawned", "spawning", "rejected", "dispatched", "prefail", "prefail2", "startfailed", "prestarted",
           "activated", "poststart", "supstart", "recv", "gotmsg", "handling", "finish", "prestop",
           "closing", "poststop", "releasing", "supterm", "done"}
\* an actor is live from the moment its task may run pre_start until post_stop returned
LivePhases == {"dispatched", "prefail", "prestarted", "activated", "poststart", "supstart", "recv", "gotmsg",
               "handling", "finish", "prestop", "closing", "poststop", "releasing"}
\* phases in which the registry entry may be active (between activate and drop(reg))
ActivePhases == {"activated", "poststart", "supstart", "recv", "gotmsg", "handling", "finish", "prestop",
                 "closing", "poststop", "releasing"}
GonePhases == {"finish", "prestop", "closing", "poststop", "releasing", "supterm", "done"}

Idle == [t |-> "idle", st |-> "", a |-> NoActor, n |-> 0, k |-> "", res |-> "", idx |-> 0, att |-> 0,
         atts |-> 0, sf |-> FALSE, name |-> NoName, tok |-> 0 - 1, tried |-> {}, dup |-> FALSE]

RECURSIVE InitMembers(_)
InitMembers(S) == IF S = {} THEN <<>>
                  ELSE LET x == CHOOSE y \in S : \A z \in S : y <= z
                       IN <<[id |-> 1000 + x, a |-> x]>> \o InitMembers(S \ {x})

Init ==
  /\ phase = [a \in Actors |-> IF a \in Prestarted THEN "recv" ELSE "unspawned"]
  /\ queue = [a \in Actors |-> <<>>]
  /\ stopq = [a \in Actors |-> FALSE]
  /\ stopping = [a \in Actors |-> FALSE]
  /\ rxopen = [a \in Actors |-> TRUE]
  /\ cur = [a \in Actors |-> NoMsg]
  /\ exit = [a \in Actors |-> ""]
  /\ startmsg = [a \in Actors |-> IF a \in Prestarted THEN "ok" ELSE "none"]
  /\ aname = [a \in Actors |-> NoName]
  /\ acap \in [Actors -> Caps] /\ \A a \in Actors \ Prestarted : \A c \in Caps : acap[a] <= c
  /\ asup = [a \in Actors |-> FALSE]
  /\ selfstop = [a \in Actors |-> "none"]
  /\ regOwner = [nm \in Names |-> NoActor]
  /\ regActive = [nm \in Names |-> FALSE]
  /\ op = [p \in Procs |-> Idle]
  /\ reply = [p \in Procs |-> "none"]
  /\ bud = [p \in Procs |-> [m |-> 0, s |-> 0, l |-> 0, j |-> 0]]
  /\ members = IF Prejoined THEN InitMembers(Prestarted) ELSE <<>>
  /\ cursor = 0
  /\ glock = NoProc
  /\ supq = <<>>
  /\ accepted = [a \in Actors |-> <<>>]
  /\ handled = [a \in Actors |-> <<>>]
  /\ hooks = [a \in Actors |-> IF a \in Prestarted THEN <<"pre_start", "post_start">> ELSE <<>>]
  /\ active = [a \in Actors |-> 0]

SetPhase(a, ph) == phase' = [phase EXCEPT ![a] = ph]
Hook(a, h) == hooks' = [hooks EXCEPT ![a] = Append(@, h)]
SupPush(ev) == supq' = IF Len(supq) < SupCap THEN Append(supq, ev) ELSE supq   \* best-effort cast
RemoveAt(s, i) == [j \in 1..(Len(s) - 1) |-> IF j < i THEN s[j] ELSE s[j + 1]]

\* MailboxInner::is_closed
Closed(a) == stopping[a] \/ ~rxopen[a]

\* ===========================================================================
\* spawn (cluster/spawn.rs Cluster::start) and the registry
\* ===========================================================================
SpawnCall(p, a, nm, cap, sup) ==                         \* logged: spawn.call
  /\ op[p].t = "idle" /\ phase[a] = "unspawned"
  /\ op' = [op EXCEPT ![p] = [Idle EXCEPT !.t = "spawn", !.st = "reserve", !.a = a]]
  /\ aname' = [aname EXCEPT ![a] = nm]
  /\ acap' = [acap EXCEPT ![a] = cap]
  /\ asup' = [asup EXCEPT ![a] = sup]
  /\ SetPhase(a, "spawning")
  /\ UNCHANGED <<queue, stopq, stopping, rxopen, cur, exit, startmsg, selfstop, rvars, reply, bud, gvars, supq, hvars>>

\* Registry::reserve under the registry mutex, then dispatch of the actor task
SpawnReserve(p) ==
  LET a == op[p].a
      nm == aname[a] IN
  /\ op[p].t = "spawn" /\ op[p].st = "reserve"
  /\ IF nm # NoName /\ regOwner[nm] # NoActor /\ (ReserveIgnoresStarting => regActive[nm])
       THEN /\ op' = [op EXCEPT ![p].st = "ret", ![p].res = "nametaken"]
            /\ SetPhase(a, "rejected")
            /\ UNCHANGED rvars
       ELSE /\ op' = [op EXCEPT ![p].st = "wait"]
            /\ SetPhase(a, "dispatched")
            /\ regOwner' = IF nm # NoName THEN [regOwner EXCEPT ![nm] = a] ELSE regOwner
            /\ UNCHANGED regActive
  /\ UNCHANGED <<queue, stopq, stopping, rxopen, cur, exit, startmsg, aname, acap, asup, selfstop, reply, bud,
                 gvars, supq, hvars>>

\* the actor task entered pre_start: its spawn was admitted (observation only)
StartEnter(a) ==                                        \* logged: start.enter
  /\ phase[a] = "dispatched"
  /\ UNCHANGED vars

PreStart(a, ok) ==                                      \* logged: hook pre_start
  /\ phase[a] = "dispatched"
  /\ Hook(a, "pre_start")
  /\ SetPhase(a, IF ok THEN "prestarted" ELSE "prefail")
  /\ UNCHANGED <<queue, stopq, stopping, rxopen, cur, exit, startmsg, aname, acap, asup, selfstop, rvars, pvars,
                 gvars, supq, accepted, handled, active>>

\* pre_start failed.  The code does  reg.take();  THEN  started_tx.send(Err(error)):  the name is free
\* before the spawner can learn about the failure (so a respawn under the same name cannot collide).
\* Two steps, in that order; the control variant ReportBeforeRelease swaps them.
ReleaseFailed(a) ==
  /\ phase[a] = (IF ReportBeforeRelease THEN "prefail2" ELSE "prefail")
  /\ regOwner' = IF aname[a] # NoName THEN [regOwner EXCEPT ![aname[a]] = NoActor] ELSE regOwner
  /\ UNCHANGED regActive
  /\ SetPhase(a, IF ReportBeforeRelease THEN "startfailed" ELSE "prefail2")
  /\ UNCHANGED <<queue, stopq, stopping, rxopen, cur, exit, startmsg, aname, acap, asup, selfstop, pvars, gvars, supq, hvars>>

ReportStartFail(a) ==
  /\ phase[a] = (IF ReportBeforeRelease THEN "prefail" ELSE "prefail2")
  /\ startmsg' = [startmsg EXCEPT ![a] = "err"]
  /\ SetPhase(a, IF ReportBeforeRelease THEN "prefail2" ELSE "startfailed")
  /\ UNCHANGED <<queue, stopq, stopping, rxopen, cur, exit, aname, acap, asup, selfstop, rvars, pvars, gvars, supq, hvars>>

\* registration.activate(&actor_ref)
Activate(a) ==
  /\ phase[a] = "prestarted"
  /\ regActive' = IF aname[a] # NoName THEN [regActive EXCEPT ![aname[a]] = TRUE] ELSE regActive
  /\ UNCHANGED regOwner
  /\ SetPhase(a, "activated")
  /\ UNCHANGED <<queue, stopq, stopping, rxopen, cur, exit, startmsg, aname, acap, asup, selfstop, pvars, gvars,
                 supq, hvars>>

\* started_tx.send(Ok(()))   (the spawn future is kept alive by the recorder; see notes)
StartedSend(a) ==
  /\ phase[a] = "activated"
  /\ startmsg' = [startmsg EXCEPT ![a] = "ok"]
  /\ SetPhase(a, "poststart")
  /\ UNCHANGED <<queue, stopq, stopping, rxopen, cur, exit, aname, acap, asup, selfstop, rvars, pvars, gvars,
                 supq, hvars>>

SpawnRet(p, res) ==                                     \* logged: spawn.ret
  /\ op[p].t = "spawn"
  /\ \/ op[p].st = "ret" /\ op[p].res = res
     \/ op[p].st = "wait" /\ res = "ok" /\ startmsg[op[p].a] = "ok"
     \/ op[p].st = "wait" /\ res = "startfail" /\ startmsg[op[p].a] = "err"
  \* a spawn made by the supervisor's handler returns into that handler
  /\ op' = [op EXCEPT ![p] = IF op[p].k = "sup" THEN [Idle EXCEPT !.t = "suphandle", !.k = "respawned", !.res = res]
                                                ELSE Idle]
  /\ UNCHANGED <<avars, rvars, reply, bud, gvars, supq, hvars>>

\* ===========================================================================
\* run loop (actor/deliver.rs run / finish)
\* ===========================================================================
PostStart(a, ok) ==                                     \* logged: hook post_start
  /\ phase[a] = "poststart"
  /\ Hook(a, "post_start")
  /\ IF ok THEN /\ SetPhase(a, IF asup[a] THEN "supstart" ELSE "recv")
                /\ UNCHANGED exit
           ELSE /\ SetPhase(a, "finish")
                /\ exit' = [exit EXCEPT ![a] = "failed"]
  /\ UNCHANGED <<queue, stopq, stopping, rxopen, cur, startmsg, aname, acap, asup, selfstop, rvars, pvars, gvars,
                 supq, accepted, handled, active>>

SupStarted(a) ==
  /\ phase[a] = "supstart"
  /\ SupPush([k |-> "started", a |-> a])
  /\ SetPhase(a, "recv")
  /\ UNCHANGED <<queue, stopq, stopping, rxopen, cur, exit, startmsg, aname, acap, asup, selfstop, rvars, pvars,
                 gvars, hvars>>

\* Receiver::recv, select_biased!: the stop channel is polled first
RecvStop(a) ==
  /\ phase[a] = "recv" /\ stopq[a]
  /\ stopq' = [stopq EXCEPT ![a] = FALSE]
  /\ exit' = [exit EXCEPT ![a] = "stopped"]
  /\ SetPhase(a, "finish")
  /\ UNCHANGED <<queue, stopping, rxopen, cur, startmsg, aname, acap, asup, selfstop, rvars, pvars, gvars, supq,
                 hvars>>

RecvMsg(a) ==
  /\ phase[a] = "recv" /\ ~stopq[a] /\ queue[a] # <<>>
  /\ cur' = [cur EXCEPT ![a] = Head(queue[a])]
  /\ queue' = [queue EXCEPT ![a] = Tail(@)]
  /\ SetPhase(a, "gotmsg")
  /\ UNCHANGED <<stopq, stopping, rxopen, exit, startmsg, aname, acap, asup, selfstop, rvars, pvars, gvars, supq,
                 hvars>>

HandleBegin(a, m) ==                                    \* logged: handle.begin
  /\ phase[a] = "gotmsg" /\ cur[a] = m
  /\ SetPhase(a, "handling")
  /\ selfstop' = [selfstop EXCEPT ![a] = "none"]
  /\ handled' = [handled EXCEPT ![a] = Append(@, <<m.p, m.n>>)]
  /\ active' = [active EXCEPT ![a] = @ + 1]
  /\ UNCHANGED <<queue, stopq, stopping, rxopen, cur, exit, startmsg, aname, acap, asup, rvars, pvars, gvars, supq,
                 accepted, hooks>>

\* myself.stop() inside a handler (swap + try_send on the actor's own thread)
SelfStop(a) ==
  /\ phase[a] = "handling" /\ cur[a].k = "stopself" /\ selfstop[a] = "none"
  /\ IF stopping[a]
       THEN /\ selfstop' = [selfstop EXCEPT ![a] = "f"]
            /\ UNCHANGED <<stopping, stopq>>
       ELSE /\ stopping' = [stopping EXCEPT ![a] = TRUE]
            /\ stopq' = [stopq EXCEPT ![a] = TRUE]
            /\ selfstop' = [selfstop EXCEPT ![a] = "t"]
  /\ UNCHANGED <<phase, queue, rxopen, cur, exit, startmsg, aname, acap, asup, rvars, pvars, gvars, supq, hvars>>

\* the handler answers the call (kind call) or drops the Call value (noreply, callfail)
ReplyStep(a) ==
  /\ phase[a] = "handling" /\ cur[a].k \in CallKinds /\ selfstop[a] = "none"
  /\ reply' = [reply EXCEPT ![cur[a].p] = IF cur[a].k = "call" THEN "value" ELSE "dropped"]
  /\ selfstop' = [selfstop EXCEPT ![a] = "r"]
  /\ UNCHANGED <<phase, queue, stopq, stopping, rxopen, cur, exit, startmsg, aname, acap, asup, rvars, op, bud,
                 gvars, supq, hvars>>

HandleEnd(a, ok) ==                                     \* logged: handle.end
  /\ phase[a] = "handling"
  /\ ok = (cur[a].k \notin FailKinds)
  /\ cur[a].k \in CallKinds \cup {"stopself"} => selfstop[a] # "none"
  /\ cur' = [cur EXCEPT ![a] = NoMsg]
  /\ active' = [active EXCEPT ![a] = @ - 1]
  /\ IF ok THEN SetPhase(a, "recv") /\ UNCHANGED exit
           ELSE SetPhase(a, "finish") /\ exit' = [exit EXCEPT ![a] = "failed"]
  /\ UNCHANGED <<queue, stopq, stopping, rxopen, startmsg, aname, acap, asup, selfstop, rvars, pvars, gvars, supq,
                 accepted, handled, hooks>>

\* finish(): myself.begin_stop()
BeginStop(a) ==
  /\ phase[a] = "finish"
  /\ stopping' = [stopping EXCEPT ![a] = TRUE]
  /\ SetPhase(a, "prestop")
  /\ UNCHANGED <<queue, stopq, rxopen, cur, exit, startmsg, aname, acap, asup, selfstop, rvars, pvars, gvars, supq,
                 hvars>>

PreStop(a, ok) ==                                       \* logged: hook pre_stop
  /\ phase[a] = "prestop"
  /\ Hook(a, "pre_stop")
  /\ exit' = IF ~ok /\ exit[a] = "stopped" THEN [exit EXCEPT ![a] = "failed"] ELSE exit
  /\ SetPhase(a, "closing")
  /\ UNCHANGED <<queue, stopq, stopping, rxopen, cur, startmsg, aname, acap, asup, selfstop, rvars, pvars, gvars,
                 supq, accepted, handled, active>>

\* drop(receiver) as the code has it: both channels disconnect, queued messages stay queued
CloseRxKeepsQueue(a) ==
  /\ ~DrainOnClose
  /\ phase[a] = "closing"
  /\ rxopen' = [rxopen EXCEPT ![a] = FALSE]
  /\ SetPhase(a, "poststop")
  /\ UNCHANGED <<queue, stopq, stopping, cur, exit, startmsg, aname, acap, asup, selfstop, rvars, pvars, gvars,
                 supq, hvars>>

\* repaired: closing drops what is still queued, so queued calls see their reply sender dropped
CloseRxDrains(a) ==
  /\ DrainOnClose
  /\ phase[a] = "closing"
  /\ rxopen' = [rxopen EXCEPT ![a] = FALSE]
  /\ queue' = [queue EXCEPT ![a] = <<>>]
  /\ reply' = [p \in Procs |->
                 IF \E i \in 1..Len(queue[a]) : queue[a][i].p = p /\ queue[a][i].k \in CallKinds
                   THEN "dropped" ELSE reply[p]]
  /\ SetPhase(a, "poststop")
  /\ UNCHANGED <<stopq, stopping, cur, exit, startmsg, aname, acap, asup, selfstop, rvars, op, bud, gvars, supq,
                 hvars>>

CloseRx(a) == CloseRxKeepsQueue(a) \/ CloseRxDrains(a)

PostStop(a, ok) ==                                      \* logged: hook post_stop
  /\ phase[a] = "poststop"
  /\ Hook(a, "post_stop")
  /\ exit' = IF ~ok /\ exit[a] = "stopped" THEN [exit EXCEPT ![a] = "failed"] ELSE exit
  /\ SetPhase(a, "releasing")
  /\ UNCHANGED <<queue, stopq, stopping, rxopen, cur, startmsg, aname, acap, asup, selfstop, rvars, pvars, gvars,
                 supq, accepted, handled, active>>

\* drop(reg)
ReleaseName(a) ==
  /\ phase[a] = "releasing"
  /\ IF aname[a] # NoName
       THEN /\ regOwner' = [regOwner EXCEPT ![aname[a]] = NoActor]
            /\ regActive' = [regActive EXCEPT ![aname[a]] = FALSE]
       ELSE UNCHANGED rvars
  /\ SetPhase(a, IF asup[a] THEN "supterm" ELSE "done")
  /\ UNCHANGED <<queue, stopq, stopping, rxopen, cur, exit, startmsg, aname, acap, asup, selfstop, pvars, gvars,
                 supq, hvars>>

\* supervisor.terminated / supervisor.failed
SupTerminal(a) ==
  /\ phase[a] = "supterm"
  /\ SupPush([k |-> IF exit[a] = "stopped" THEN "terminated" ELSE "failed", a |-> a])
  /\ SetPhase(a, "done")
  /\ UNCHANGED <<queue, stopq, stopping, rxopen, cur, exit, startmsg, aname, acap, asup, selfstop, rvars, pvars,
                 gvars, hvars>>

\* ActorHandle resolved with the exit (observation only)
ExitObs(a, res) ==                                      \* logged: exit
  /\ phase[a] = "done" /\ exit[a] = res
  /\ UNCHANGED vars

\* the supervisor's handler takes the next event out of its mailbox
SupHandle(p, ev) ==                                     \* logged: sup.event
  /\ p = SupProc /\ op[p].t = "idle"
  /\ supq # <<>> /\ Head(supq) = ev
  /\ supq' = Tail(supq)
  /\ op' = [op EXCEPT ![p] = [Idle EXCEPT !.t = "suphandle", !.a = ev.a, !.k = ev.k]]
  /\ UNCHANGED <<avars, rvars, reply, bud, gvars, hvars>>

SupHandleEnd(p) ==                                      \* logged: sup.done
  /\ op[p].t = "suphandle"
  /\ op' = [op EXCEPT ![p] = Idle]
  /\ UNCHANGED <<avars, rvars, reply, bud, gvars, supq, hvars>>

\* the supervisor spawns a replacement from inside its handler (reaction to a terminal event)
SupRespawnCall(p, a, nm, cap, sup) ==                   \* logged: spawn.call by the supervisor
  /\ op[p].t = "suphandle" /\ phase[a] = "unspawned"
  /\ op' = [op EXCEPT ![p] = [Idle EXCEPT !.t = "spawn", !.st = "reserve", !.a = a, !.k = "sup"]]
  /\ aname' = [aname EXCEPT ![a] = nm]
  /\ acap' = [acap EXCEPT ![a] = cap]
  /\ asup' = [asup EXCEPT ![a] = sup]
  /\ SetPhase(a, "spawning")
  /\ UNCHANGED <<queue, stopq, stopping, rxopen, cur, exit, startmsg, selfstop, rvars, reply, bud, gvars, supq, hvars>>

\* ===========================================================================
\* send / call / stop / lookup  (mailbox/mod.rs, mailbox/call.rs, cluster/mod.rs)
\* ===========================================================================
SendCall(p, a, n, k) ==                                 \* logged: send.call
  /\ op[p].t = "idle"
  /\ op' = [op EXCEPT ![p] = [Idle EXCEPT !.t = "send", !.st = "check", !.a = a, !.n = n, !.k = k]]
  /\ reply' = [reply EXCEPT ![p] = "none"]
  /\ bud' = [bud EXCEPT ![p].m = n]
  /\ UNCHANGED <<avars, rvars, gvars, supq, hvars>>

\* if self.is_closed() { return Err(Closed) }
SendCheck(p) ==
  /\ op[p].t \in {"send", "gsend"} /\ op[p].st = "check"
  /\ op' = IF Closed(op[p].a)
             THEN [op EXCEPT ![p].res = "closed", ![p].st = IF op[p].t = "send" THEN "ret" ELSE "gafter"]
             ELSE [op EXCEPT ![p].st = "push"]
  /\ UNCHANGED <<avars, rvars, reply, bud, gvars, supq, hvars>>

\* self.messages.try_send(..)
SendPush(p) ==
  LET a == op[p].a
      after == IF op[p].t = "send" THEN "ret" ELSE "gafter" IN
  /\ op[p].t \in {"send", "gsend"} /\ op[p].st = "push"
  /\ IF ~rxopen[a]
       THEN /\ op' = [op EXCEPT ![p].res = "closed", ![p].st = after]
            /\ UNCHANGED <<queue, accepted>>
       ELSE IF Len(queue[a]) >= acap[a]
       THEN /\ op' = [op EXCEPT ![p].res = "full", ![p].st = after]
            /\ UNCHANGED <<queue, accepted>>
       ELSE /\ op' = [op EXCEPT ![p].res = "ok", ![p].st = after]
            /\ queue' = [queue EXCEPT ![a] = Append(@, [p |-> p, n |-> op[p].n, k |-> op[p].k])]
            /\ accepted' = [accepted EXCEPT ![a] = Append(@, <<p, op[p].n>>)]
  /\ UNCHANGED <<phase, stopq, stopping, rxopen, cur, exit, startmsg, aname, acap, asup, selfstop, rvars, reply, bud,
                 gvars, supq, handled, hooks, active>>

SendRet(p, res) ==                                      \* logged: send.ret (casts, direct or via the group)
  /\ op[p].t \in {"send", "gsend"} /\ op[p].st = "ret" /\ op[p].k \notin CallKinds
  /\ op[p].res = res
  /\ op' = [op EXCEPT ![p] = Idle]
  /\ UNCHANGED <<avars, rvars, reply, bud, gvars, supq, hvars>>

\* call_with: delivery error, or the oneshot resolves with the reply / with Canceled (NoReply)
CallRet(p, res) ==                                      \* logged: call.ret
  /\ op[p].t \in {"send", "gsend"} /\ op[p].st = "ret" /\ op[p].k \in CallKinds
  /\ \/ op[p].res \in {"full", "closed"} /\ res = op[p].res
     \/ op[p].res = "ok" /\ reply[p] = "value" /\ res = "reply"
     \/ op[p].res = "ok" /\ reply[p] = "dropped" /\ res = "noreply"
  /\ op' = [op EXCEPT ![p] = Idle]
  /\ reply' = [reply EXCEPT ![p] = "none"]
  /\ UNCHANGED <<avars, rvars, bud, gvars, supq, hvars>>

\* the call's message sits in a closed mailbox that nobody will ever drain
Stuck(p) ==
  /\ op[p].t \in {"send", "gsend"} /\ op[p].st = "ret" /\ op[p].k \in CallKinds /\ op[p].res = "ok"
  /\ reply[p] = "none"
  /\ \E a \in Actors : ~rxopen[a] /\ \E i \in 1..Len(queue[a]) : queue[a][i].p = p /\ queue[a][i].n = op[p].n

\* DEVIATION observed: the recorder gave up on a call after the watchdog (consequence of CloseRxKeepsQueue)
CallHangs(p) ==                                         \* logged: call.ret res=hang
  /\ Stuck(p)
  /\ op' = [op EXCEPT ![p] = Idle]
  /\ UNCHANGED <<avars, rvars, reply, bud, gvars, supq, hvars>>

StopCall(p, a) ==                                       \* logged: stop.call
  /\ op[p].t = "idle"
  /\ op' = [op EXCEPT ![p] = [Idle EXCEPT !.t = "stop", !.st = "swap", !.a = a]]
  /\ bud' = [bud EXCEPT ![p].s = @ + 1]
  /\ UNCHANGED <<avars, rvars, reply, gvars, supq, hvars>>

\* self.stopping.swap(true)
StopSwap(p) ==
  LET a == op[p].a IN
  /\ op[p].t = "stop" /\ op[p].st = "swap"
  /\ IF stopping[a]
       THEN op' = [op EXCEPT ![p].st = "ret", ![p].res = "false"] /\ UNCHANGED stopping
       ELSE op' = [op EXCEPT ![p].st = "push"] /\ stopping' = [stopping EXCEPT ![a] = TRUE]
  /\ UNCHANGED <<phase, queue, stopq, rxopen, cur, exit, startmsg, aname, acap, asup, selfstop, rvars, reply, bud,
                 gvars, supq, hvars>>

\* self.stop.try_send(()).is_ok()
StopPush(p) ==
  LET a == op[p].a IN
  /\ op[p].t = "stop" /\ op[p].st = "push"
  /\ IF rxopen[a] /\ ~stopq[a]
       THEN op' = [op EXCEPT ![p].st = "ret", ![p].res = "true"] /\ stopq' = [stopq EXCEPT ![a] = TRUE]
       ELSE op' = [op EXCEPT ![p].st = "ret", ![p].res = "false"] /\ UNCHANGED stopq
  /\ UNCHANGED <<phase, queue, stopping, rxopen, cur, exit, startmsg, aname, acap, asup, selfstop, rvars, reply, bud,
                 gvars, supq, hvars>>

StopRet(p, res) ==                                      \* logged: stop.ret
  /\ op[p].t = "stop" /\ op[p].st = "ret" /\ op[p].res = res
  /\ op' = [op EXCEPT ![p] = Idle]
  /\ UNCHANGED <<avars, rvars, reply, bud, gvars, supq, hvars>>

LookupCall(p, nm) ==                                    \* logged: lookup.call
  /\ op[p].t = "idle"
  /\ op' = [op EXCEPT ![p] = [Idle EXCEPT !.t = "lookup", !.st = "do", !.name = nm]]
  /\ bud' = [bud EXCEPT ![p].l = @ + 1]
  /\ UNCHANGED <<avars, rvars, reply, gvars, supq, hvars>>

\* Registry::get under the registry mutex
LookupDo(p) ==
  /\ op[p].t = "lookup" /\ op[p].st = "do"
  /\ op' = [op EXCEPT ![p].st = "ret",
                      ![p].a = IF regActive[op[p].name] THEN regOwner[op[p].name] ELSE NoActor]
  /\ UNCHANGED <<avars, rvars, reply, bud, gvars, supq, hvars>>

LookupRet(p, found) ==                                  \* logged: lookup.ret
  /\ op[p].t = "lookup" /\ op[p].st = "ret" /\ op[p].a = found
  /\ op' = [op EXCEPT ![p] = Idle]
  /\ UNCHANGED <<avars, rvars, reply, bud, gvars, supq, hvars>>

\* ===========================================================================
\* process group (process_group/mod.rs)
\* ===========================================================================
GJoinCall(p, a, tok) ==                                 \* logged: gjoin.call
  /\ op[p].t = "idle"
  /\ op' = [op EXCEPT ![p] = [Idle EXCEPT !.t = "gjoin", !.st = "do", !.a = a, !.tok = tok]]
  /\ bud' = [bud EXCEPT ![p].j = @ + 1]
  /\ UNCHANGED <<avars, rvars, reply, gvars, supq, hvars>>

GJoinDo(p) ==
  /\ op[p].t = "gjoin" /\ op[p].st = "do" /\ glock = NoProc
  /\ members' = Append(members, [id |-> op[p].tok, a |-> op[p].a])
  /\ op' = [op EXCEPT ![p].st = "ret"]
  /\ UNCHANGED <<avars, rvars, reply, bud, cursor, glock, supq, hvars>>

GLeaveCall(p, tok) ==                                   \* logged: gleave.call
  /\ op[p].t = "idle"
  /\ op' = [op EXCEPT ![p] = [Idle EXCEPT !.t = "gleave", !.st = "do", !.tok = tok]]
  /\ UNCHANGED <<avars, rvars, reply, bud, gvars, supq, hvars>>

\* Membership::drop
GLeaveDo(p) ==
  /\ op[p].t = "gleave" /\ op[p].st = "do" /\ glock = NoProc
  /\ members' = IF \E i \in 1..Len(members) : members[i].id = op[p].tok
                  THEN RemoveAt(members, CHOOSE i \in 1..Len(members) : members[i].id = op[p].tok)
                  ELSE members
  /\ op' = [op EXCEPT ![p].st = "ret"]
  /\ UNCHANGED <<avars, rvars, reply, bud, cursor, glock, supq, hvars>>

GMemberRet(p) ==                                        \* logged: gjoin.ret / gleave.ret
  /\ op[p].t \in {"gjoin", "gleave"} /\ op[p].st = "ret"
  /\ op' = [op EXCEPT ![p] = Idle]
  /\ UNCHANGED <<avars, rvars, reply, bud, gvars, supq, hvars>>

GLenCall(p) ==                                          \* logged: glen.call
  /\ op[p].t = "idle"
  /\ op' = [op EXCEPT ![p] = [Idle EXCEPT !.t = "glen", !.st = "do"]]
  /\ bud' = [bud EXCEPT ![p].j = @ + 1]
  /\ UNCHANGED <<avars, rvars, reply, gvars, supq, hvars>>

\* ProcessGroup::len under the state mutex
GLenDo(p) ==
  /\ op[p].t = "glen" /\ op[p].st = "do" /\ glock = NoProc
  /\ op' = [op EXCEPT ![p].st = "ret", ![p].n = Len(members)]
  /\ UNCHANGED <<avars, rvars, reply, bud, gvars, supq, hvars>>

GLenRet(p, n) ==                                        \* logged: glen.ret
  /\ op[p].t = "glen" /\ op[p].st = "ret" /\ op[p].n = n
  /\ op' = [op EXCEPT ![p] = Idle]
  /\ UNCHANGED <<avars, rvars, reply, bud, gvars, supq, hvars>>

GSendCall(p, n, k) ==                                   \* logged: gsend.call
  /\ op[p].t = "idle"
  /\ op' = [op EXCEPT ![p] = [Idle EXCEPT !.t = "gsend", !.st = "glock", !.n = n, !.k = k]]
  /\ reply' = [reply EXCEPT ![p] = "none"]
  /\ bud' = [bud EXCEPT ![p].m = n]
  /\ UNCHANGED <<avars, rvars, gvars, supq, hvars>>

\* lock the group state; Strategy::select (round robin)
GSendLock(p) ==
  /\ op[p].t = "gsend" /\ op[p].st = "glock" /\ glock = NoProc
  /\ IF members = <<>>
       THEN /\ op' = [op EXCEPT ![p].st = "ret", ![p].res = "closed"]
            /\ UNCHANGED <<cursor, glock>>
       ELSE /\ op' = [op EXCEPT ![p].st = "gtry", ![p].idx = cursor % Len(members), ![p].atts = Len(members),
                                ![p].att = 0, ![p].sf = FALSE]
            /\ cursor' = cursor + 1
            /\ glock' = p
  /\ UNCHANGED <<avars, rvars, reply, bud, members, supq, hvars>>

\* loop head: while attempted < attempts && !members.is_empty()
GTry(p) ==
  /\ op[p].t = "gsend" /\ op[p].st = "gtry"
  /\ IF op[p].att < op[p].atts /\ members # <<>>
       THEN /\ op' = [op EXCEPT ![p].att = @ + 1, ![p].a = members[op[p].idx + 1].a, ![p].st = "check",
                                ![p].tried = @ \cup {members[op[p].idx + 1].id},
                                ![p].dup = @ \/ (members[op[p].idx + 1].id \in op[p].tried)]
            /\ UNCHANGED glock
       ELSE /\ op' = [op EXCEPT ![p].st = "ret", ![p].res = IF op[p].sf THEN "full" ELSE "closed",
                                \* ghost: handing back although a member of the group was never tried
                                ![p].dup = @ \/ (\E i \in 1..Len(members) : members[i].id \notin op[p].tried)]
            /\ glock' = NoProc
  /\ UNCHANGED <<avars, rvars, reply, bud, members, cursor, supq, hvars>>

\* match on the member's answer: Ok => return, Full => next member, Closed => evict
GAfter(p) ==
  /\ op[p].t = "gsend" /\ op[p].st = "gafter"
  /\ CASE op[p].res = "ok" ->
            /\ op' = [op EXCEPT ![p].st = "ret"]
            /\ glock' = NoProc
            /\ UNCHANGED members
       [] op[p].res = "full" ->
            /\ op' = [op EXCEPT ![p].st = "gtry", ![p].sf = TRUE, ![p].idx = (@ + 1) % Len(members)]
            /\ UNCHANGED <<members, glock>>
       [] op[p].res = "closed" ->
            /\ members' = RemoveAt(members, op[p].idx + 1)
            /\ op' = [op EXCEPT ![p].st = "gtry",
                                ![p].idx = IF Len(members) > 1 THEN @ % (Len(members) - 1) ELSE @]
            /\ UNCHANGED glock
  /\ UNCHANGED <<avars, rvars, reply, bud, cursor, supq, hvars>>

\* ===========================================================================
\* bounded Next for model checking
\* ===========================================================================
Reachable(a) == startmsg[a] = "ok"      \* the spawner got the mailbox / a lookup can find it

ActorStep(a) ==
  \/ \E ok \in {TRUE} \cup (IF PreMayFail THEN {FALSE} ELSE {}) : PreStart(a, ok)
  \/ ReleaseFailed(a) \/ ReportStartFail(a) \/ Activate(a) \/ StartedSend(a)
  \/ \E ok \in {TRUE} \cup (IF PostMayFail THEN {FALSE} ELSE {}) : PostStart(a, ok)
  \/ SupStarted(a) \/ RecvStop(a) \/ RecvMsg(a)
  \/ HandleBegin(a, cur[a]) \/ SelfStop(a) \/ ReplyStep(a)
  \/ HandleEnd(a, cur[a].k \notin FailKinds)
  \/ BeginStop(a)
  \/ \E ok \in {TRUE} \cup (IF StopHooksMayFail THEN {FALSE} ELSE {}) : PreStop(a, ok) \/ PostStop(a, ok)
  \/ CloseRx(a) \/ ReleaseName(a) \/ SupTerminal(a)

ProcInternal(p) ==
  \/ SpawnReserve(p) \/ SendCheck(p) \/ SendPush(p) \/ StopSwap(p) \/ StopPush(p) \/ LookupDo(p)
  \/ GJoinDo(p) \/ GLeaveDo(p) \/ GLenDo(p) \/ GSendLock(p) \/ GTry(p) \/ GAfter(p)

ProcRet(p) ==
  \/ \E res \in {"ok", "nametaken", "startfail"} : SpawnRet(p, res)
  \/ \E res \in {"ok", "full", "closed"} : SendRet(p, res)
  \/ \E res \in {"full", "closed", "reply", "noreply"} : CallRet(p, res)
  \/ \E res \in {"true", "false"} : StopRet(p, res)
  \/ \E a \in Actors \cup {NoActor} : LookupRet(p, a)
  \/ GMemberRet(p)
  \/ \E n \in 0..(2 * Cardinality(Actors)) : GLenRet(p, n)
  \/ SupHandleEnd(p)

ProcCall(p) ==
  \/ /\ p \in Spawners
     /\ \E a \in InitialActors, nm \in Names \cup {NoName}, c \in Caps, s \in SupChoices : SpawnCall(p, a, nm, c, s)
  \/ /\ p \in Senders /\ bud[p].m < MsgsPer
     /\ \E a \in Actors, k \in Kinds : Reachable(a) /\ SendCall(p, a, bud[p].m + 1, k)
  \/ /\ p \in Stoppers /\ bud[p].s < StopsPer
     /\ \E a \in Actors : Reachable(a) /\ StopCall(p, a)
  \/ /\ p \in Lookers /\ bud[p].l < LooksPer
     /\ \E nm \in Names : LookupCall(p, nm)
  \/ /\ p \in GSenders /\ bud[p].m < MsgsPer
     /\ \E k \in Kinds : GSendCall(p, bud[p].m + 1, k)
  \/ /\ p \in Joiners /\ bud[p].j < JoinsPer
     /\ \/ \E a \in Actors : Reachable(a) /\ GJoinCall(p, a, 10 * p + bud[p].j)
        \/ \E i \in 1..Len(members) : GLeaveCall(p, members[i].id)
        \/ GLenCall(p)
  \/ /\ p = SupProc
     /\ \/ \E ev \in {supq[i] : i \in 1..Len(supq)} : SupHandle(p, ev)
        \/ /\ op[p].t = "suphandle" /\ op[p].k \in {"failed", "terminated"}
           /\ \E b \in Replacements, c \in Caps :
                SupRespawnCall(p, b, aname[op[p].a], c, asup[op[p].a])

Next ==
  \/ \E a \in Actors : ActorStep(a)
  \/ \E p \in Procs : ProcInternal(p) \/ ProcRet(p) \/ ProcCall(p)

Spec == Init /\ [][Next]_vars

\* every started step of the code finishes: actor task, inner steps and returns of client calls
Fairness ==
  /\ \A a \in Actors : WF_vars(ActorStep(a))
  /\ \A p \in Procs : WF_vars(ProcInternal(p)) /\ WF_vars(ProcRet(p))

FairSpec == Spec /\ Fairness

\* ===========================================================================
\* properties
\* ===========================================================================
IsPrefix(s, t) == Len(s) <= Len(t) /\ \A i \in 1..Len(s) : s[i] = t[i]
NoDup(s) == \A i, j \in 1..Len(s) : i # j => s[i] # s[j]

TypeOK ==
  /\ \A a \in Actors : phase[a] \in Phases /\ Len(queue[a]) <= acap[a]
  /\ \A p \in Procs : reply[p] \in {"none", "value", "dropped"}

\* handled one at a time, in acceptance order, each at most once
SerialFifo ==
  \A a \in Actors :
    /\ IsPrefix(handled[a], accepted[a])
    /\ NoDup(handled[a])
    /\ active[a] <= 1
    /\ (active[a] = 1) = (phase[a] = "handling")

\* every accepted message is handled, still queued, or in the handler's hands
Conservation ==
  \A a \in Actors :
    (rxopen[a] \/ ~DrainOnClose) =>
    Len(accepted[a]) = Len(handled[a]) + Len(queue[a]) + (IF phase[a] = "gotmsg" THEN 1 ELSE 0)

\* nothing is handled before post_start succeeded or after the loop ended
HandlingOnlyWhileRunning ==
  \A a \in Actors : handled[a] # <<>> => Len(hooks[a]) >= 2 /\ hooks[a][2] = "post_start"

FullOrder == <<"pre_start", "post_start", "pre_stop", "post_stop">>
HookOrder ==
  \A a \in Actors :
    /\ IsPrefix(hooks[a], FullOrder)
    /\ phase[a] \in {"supterm", "done", "releasing"} => hooks[a] = FullOrder
    /\ phase[a] = "startfailed" => hooks[a] = <<"pre_start">>
    /\ phase[a] \in {"recv", "gotmsg", "handling", "supstart"} => hooks[a] = <<"pre_start", "post_start">>

\* a reply is only ever the answer of the handler that got this very call
CallSound ==
  \A p \in Procs :
    reply[p] = "value" =>
      /\ op[p].t \in {"send", "gsend"} /\ op[p].k = "call" /\ op[p].res = "ok"
      /\ \E a \in Actors : \E i \in 1..Len(handled[a]) : handled[a][i] = <<p, op[p].n>>

\* name -> at most one live actor; invisible before start-up succeeded; free after exit / failed start
RegistrySound ==
  /\ \A nm \in Names :
       /\ Cardinality({a \in Actors : aname[a] = nm /\ phase[a] \in LivePhases}) <= 1
       /\ regActive[nm] => regOwner[nm] # NoActor /\ phase[regOwner[nm]] \in ActivePhases
       /\ regOwner[nm] # NoActor => aname[regOwner[nm]] = nm /\ phase[regOwner[nm]] \in LivePhases
  /\ \A a \in Actors :
       /\ (aname[a] # NoName /\ phase[a] \in LivePhases) => regOwner[aname[a]] = a
       /\ (aname[a] # NoName /\ phase[a] \in {"prefail2", "startfailed", "supterm", "done", "rejected"}) => regOwner[aname[a]] # a
  /\ \A p \in Procs :
       (op[p].t = "lookup" /\ op[p].st = "ret" /\ op[p].a # NoActor) =>
          /\ aname[op[p].a] = op[p].name
          /\ Len(hooks[op[p].a]) >= 1 /\ phase[op[p].a] \notin {"dispatched", "prefail", "prefail2", "prestarted", "startfailed"}

\* once a start failure is reported (SpawnError::Start can be observed) the name is free again:
\* an immediate respawn under the same name cannot be refused because of the failed incarnation
FailedStartFreesName ==
  \A a \in Actors : (startmsg[a] = "err" /\ aname[a] # NoName) => regOwner[aname[a]] # a

\* the child's name is free before its terminal event is delivered, so a respawn from the event cannot collide
SupervisionSound ==
  /\ \A i \in 1..Len(supq) :
       supq[i].k \in {"terminated", "failed"} =>
         (aname[supq[i].a] # NoName => regOwner[aname[supq[i].a]] # supq[i].a) /\ phase[supq[i].a] \in {"supterm", "done"}
  /\ \A i, j \in 1..Len(supq) : (supq[i].a = supq[j].a /\ supq[i].k = "started" /\ i # j) => i < j

\* with the supervisor as the only respawner a replacement never finds the name taken
RespawnNeverCollides ==
  SupProc \in Procs => /\ ~(op[SupProc].t = "spawn" /\ op[SupProc].k = "sup" /\ op[SupProc].res = "nametaken")
                       /\ ~(op[SupProc].t = "suphandle" /\ op[SupProc].res = "nametaken")

Holders(p, n) == {a \in Actors : \E i \in 1..Len(accepted[a]) : accepted[a][i] = <<p, n>>}
\* a group send reaches exactly one member's mailbox, or none when it is handed back
GroupExactlyOne ==
  \A p \in Procs :
    op[p].t = "gsend" =>
      /\ Cardinality(Holders(p, op[p].n)) <= 1
      /\ (op[p].st = "ret" /\ op[p].res = "ok") => Cardinality(Holders(p, op[p].n)) = 1
      /\ (op[p].st = "ret" /\ op[p].res # "ok") => Holders(p, op[p].n) = {}
      /\ glock = p => op[p].st \in {"gtry", "check", "push", "gafter"}
GroupLockSound == glock # NoProc => op[glock].t = "gsend"
\* "tries each member once": no member is tried twice, and a message is only handed back after every
\* member that is still in the group was tried (so a live member with room cannot have been skipped)
GroupTriesEachOnce == \A p \in Procs : ~op[p].dup   \* dup: a member tried twice, or handed back with an untried member

Safety == TypeOK /\ SerialFifo /\ Conservation /\ HandlingOnlyWhileRunning /\ HookOrder /\ CallSound
          /\ RegistrySound /\ FailedStartFreesName /\ SupervisionSound /\ RespawnNeverCollides /\ GroupExactlyOne
          /\ GroupLockSound /\ GroupTriesEachOnce

\* --- liveness (on FairSpec) ---
Waiting(p) == op[p].t \in {"send", "gsend"} /\ op[p].k \in CallKinds /\ op[p].st = "ret" /\ op[p].res = "ok"
\* strict: a call never hangs (violated by the code as it is: CloseRxKeepsQueue)
Clients == Senders \cup GSenders      \* only these ever send messages in the bounded Next
CallNeverHangs == \A p \in Clients : Waiting(p) ~> ~Waiting(p)
\* as the code is: it returns unless its message is stuck in a closed mailbox (the recorded deviation)
CallReturnsOrStuck == \A p \in Clients : Waiting(p) ~> (~Waiting(p) \/ Stuck(p))
\* every accepted message is handled unless the actor stops or fails first
InQueue(a, p, n) == \E i \in 1..Len(queue[a]) : queue[a][i].p = p /\ queue[a][i].n = n
WasHandled(a, p, n) == \E i \in 1..Len(handled[a]) : handled[a][i] = <<p, n>>
AllHandledUnlessStopped ==
  \A a \in Actors : \A p \in Clients : \A n \in 1..MsgsPer :
    InQueue(a, p, n) ~> (WasHandled(a, p, n) \/ phase[a] \in GonePhases)
\* a started actor that is stopped or fails runs through the whole shutdown
StopCompletes == \A a \in Actors : (phase[a] = "finish") ~> (phase[a] = "done")
=============================================================================
