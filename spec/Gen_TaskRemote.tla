-------------------------- MODULE Gen_TaskRemote --------------------------
(* Schedule printer for TaskRemote: a behaviour is a program (commands of the four threads) plus an
   interleaving of their hook-to-hook steps. Every step records the thread, what it does (command
   name, or the hook site it is released from), the argument (poll outcome / joiner waker), the
   site the thread must arrive at next, and the sites of all threads before the step (used by the
   check to select a path set covering every observed (step, other thread's site) pair).
   Replayed by harness bin replay_remote with the schedule controller. *)
EXTENDS TaskRemote, Json

CONSTANT MaxLen
VARIABLE hist
gvars == <<vars, hist>>

PcOf(P, t) == IF t \in Th THEN P[t] ELSE "-"
Rec(t, k, a, arg) ==
  [th |-> t, k |-> k, a |-> a, arg |-> arg, next |-> pc'[t],
   pcs |-> [H |-> PcOf(pc, "H"), J |-> PcOf(pc, "J"), W1 |-> PcOf(pc, "W1"), W2 |-> PcOf(pc, "W2")]]
Log(t, k, a, arg) == hist' = Append(hist, Rec(t, k, a, arg))
StepOf(t, A) == A /\ Log(t, "step", pc[t], "")

GInit == Init /\ hist = <<>>
GNext ==
  /\ Len(hist) < MaxLen
  /\ \/ HCmdTick /\ Log("H", "cmd", "tick", "")
     \/ \E c \in {"clear", "execdrop"} : HCmdClear(c) /\ Log("H", "cmd", c, "")
     \/ \E t \in Wk : \/ WCmdWake(t) /\ Log(t, "cmd", "wake", "")
                      \/ WCmdDrop(t) /\ Log(t, "cmd", "wdrop", "")
     \/ \E jw \in 1..2 : JCmdPoll(jw) /\ Log("J", "cmd", "poll", ToString(jw))
     \/ \E c \in {"hdrop", "cancel"} : JCmdCancel(c) /\ Log("J", "cmd", c, "")
     \/ JCmdDetach /\ Log("J", "cmd", "detach", "")
     \/ \E o \in {"pend", "ready"} : HUnschedule(o) /\ Log("H", "step", pc["H"], o)
     \/ StepOf("H", HDrainLoad \/ HDrainPopped \/ HDrainSub \/ HFinishRunning \/ HWakeJoiner \/ HSetDropped
                    \/ HNullShared \/ HDropWaker \/ HWaitSched \/ HDec \/ HClearPop \/ HFreeShared)
     \/ StepOf("J", StepJ)
     \/ \E t \in Wk : StepOf(t, StepW(t))
GSpec == GInit /\ [][GNext]_gvars

Final == [polls |-> g.polls, fdrops |-> g.fdrops, rdrops |-> g.rdrops, rtaken |-> g.rtaken,
          deallocs |-> g.deallocs, jwoken |-> g.jwoken, jres |-> g.jres, produced |-> g.produced,
          err |-> g.err, known |-> g.known, dev |-> g.dev, freed |-> (shared = "freed"),
          parked |-> (JoinerParked /\ ~g.woken), leak |-> (alloc = "freed" /\ wslot # 0)]
Emit == (Len(hist) = MaxLen \/ ~ENABLED GNext) =>
          PrintT(<<"REPLAY", ToJson([setup |-> Setup, nw |-> NW, cap |-> SyncCap, steps |-> hist, fin |-> Final])>>)
=============================================================================
