CONSTANTS
  Driver = "poll"
  Shapes <- ShapesLiveQ
  MaxSteps = 0
  MaxCancel = 2
  MaxFeed = 2
  Eager = FALSE
  FixListen = FALSE
  FixFFStream = FALSE
  MutPersDropsCancel = FALSE
  MutNoDropCancel = FALSE
  MutNoWaker = FALSE
SPECIFICATION FairSpec
INVARIANTS TypeOK ExtInnermost RegSound CancelOnlyVisible BadPersOnlyVisible FailFastPrompt Fused TryTake DropCancels PanicOnlyKnown OwnResult
PROPERTIES CancelResolves CompletionSeen FailFastResolves
