\* schedules for the replay: simulation (seeded), up to 10 decisions per endpoint
CONSTANTS
  Backends = {"native", "rustls"}
  Shapes = {"t13", "t12"}
  Bufferings = {TRUE, FALSE}
  Payloads = {0, 1, 2}
  Inits = {"c", "s"}
  Limits = {0, 1, 2}
  U = 2
  MaxPend = 4
  MaxSched = 10
  FlushBeforeRead = TRUE
  PendingIsWouldBlock = TRUE
  MidResumes = TRUE
  FinalFlush = TRUE
  CloseFlushes = TRUE
  FixRustlsHsFlush = FALSE
SPECIFICATION GSpec
INVARIANTS Emit
