CONSTANTS
  Mode = "stream"
  Big = 71680
  DgBig = 9000
  MaxOps = 8
SPECIFICATION GSpec
INVARIANTS Emit
