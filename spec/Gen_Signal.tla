----------------------------- MODULE Gen_Signal -----------------------------
(* Behaviour generator for X01 (replayed by extra/harness/hx01 bin replay_signal).

   The fine-grained actions of Signal are scheduled so that every step of a behaviour is something
   the harness can cause and wait for, with a deterministic result:

     poll l      the home thread of listener l polls its future once (first poll = register)
     drop l      the home thread drops the future (unregister if it was registered)
     raise s on t [park at l]
                 thread t calls raise(s): the handler runs on top of t.  With "park at l" the
                 instrumented waker of l blocks inside wake(), i.e. INSIDE the read section of the
                 half-lock, until released: the handler stays active, t stays suspended
     release t   the handler parked on thread t continues and returns; a call that was blocked by it
                 (write_barrier spinning) then runs on

   The agent in front of `run` takes its fine steps until it returns, parks or blocks
   (no enabled step, or spinning in write_barrier on a slot a parked handler holds); then the next
   agent runs.  When `run` is empty the step is finished: the projection of the state (what the
   harness can observe) is appended to the history.  While a call is blocked only release is
   offered: a handler invoked then would race with the writer reaching its spin loop, which the
   harness cannot time.

   AutoPoll = TRUE (real compio runtimes own the listeners): a raise step also contains the polls
   the runtimes perform for the listeners that were woken (ascending listener order), no parking.

   Simulation (thorough tier): EmitAll = FALSE, no VIEW, TLC -simulate: random behaviours of exactly
   MaxSteps steps, seeded.

   Cover: VIEW CoverView hides the history, so TLC keeps one (shortest) behaviour per distinct
   (state, last step) and Emit prints each of them once: one replay per coarse transition. *)
EXTENDS Signal, Json

CONSTANTS MaxSteps, AutoPoll, AllowPark,
          EmitAll      \* TRUE: print at every finished step (cover); FALSE: only complete behaviours (simulation)

VARIABLES hist, run, cur, parkl, parked, blockedT

gvars == <<vars, hist, run, cur, parkl, parked, blockedT>>
NoStep == [a |-> "none"]

StName(l) ==
  IF \E t \in Threads : tl[t] = l /\ tpc[t] # "idle" THEN "busy" ELSE lst[l]

Proj == [st |-> [l \in Listeners |-> StName(l)],
         wk |-> [l \in Listeners |-> wakes[l]],
         fl |-> [l \in Listeners |-> failed[l]],
         dp |-> [s \in Sigs |-> disp[s]],
         lk |-> Cardinality({l \in Listeners : failed[l] /\ l \in OccL(ver[data])}),
         pk |-> {hon[h] : h \in parked},
         bt |-> blockedT]

GInit ==
  /\ Init /\ hist = <<>> /\ run = <<>> /\ cur = NoStep
  /\ parkl = [h \in Handlers |-> 0] /\ parked = {} /\ blockedT = 0

Spinning(t) == tpc[t] = "seen" /\ wslot = 0 /\ pass = 1 /\ \E i \in Slots : ~seen[i] /\ lock[i] > 0

NextHandler == CHOOSE h \in Handlers : hpc[h] = "idle" /\ \A g \in Handlers : g < h => hpc[g] # "idle"

(* ---------------------------- choosing a step ---------------------------- *)
Quiescent == run = <<>> /\ cur = NoStep /\ Len(hist) < MaxSteps

GPoll(l) ==
  /\ Quiescent /\ blockedT = 0
  /\ Poll(LHome[l], l)
  /\ run' = << <<"t", LHome[l]>> >>
  /\ cur' = [a |-> "poll", l |-> l]
  /\ UNCHANGED <<hist, parkl, parked, blockedT>>

GDrop(l) ==
  /\ Quiescent /\ blockedT = 0
  /\ Drop(LHome[l], l)
  /\ run' = << <<"t", LHome[l]>> >>
  /\ cur' = [a |-> "drop", l |-> l]
  /\ UNCHANGED <<hist, parkl, parked, blockedT>>

InCurrent(l) == l \in OccL(ver[data])

GRaise(s, on, pk) ==
  /\ Quiescent /\ blockedT = 0
  /\ \E h \in Handlers : hpc[h] = "idle"
  /\ (on \in Threads => tpc[on] = "idle")
  /\ pk # 0 => (AllowPark /\ ~AutoPoll /\ pk \in Listeners /\ LSig[pk] = s /\ wreg[pk] /\ InCurrent(pk))
  /\ Raise(NextHandler, s, on)
  /\ parkl' = [parkl EXCEPT ![NextHandler] = pk]
  /\ run' = << <<"h", NextHandler>> >>
  /\ cur' = [a |-> "raise", s |-> s, on |-> on, pk |-> pk]
  /\ UNCHANGED <<hist, parked, blockedT>>

GRelease(h) ==
  /\ run = <<>> /\ cur = NoStep /\ Len(hist) < MaxSteps
  /\ h \in parked
  /\ parked' = parked \ {h}
  /\ run' = << <<"h", h>> >> \o (IF blockedT # 0 THEN << <<"t", blockedT>> >> ELSE <<>>)
  /\ cur' = [a |-> "release", on |-> hon[h]]
  /\ UNCHANGED <<vars, hist, parkl, blockedT>>

(* ---------------------------- running agents ----------------------------- *)
WokenList == {l \in Listeners : wokenp[l] /\ lst[l] = "pend"}
SeqOfSet(S) ==      \* ascending sequence of a set of numbers
  LET RECURSIVE F(_)
      F(T) == IF T = {} THEN <<>> ELSE LET m == CHOOSE x \in T : \A y \in T : x <= y IN <<m>> \o F(T \ {m})
  IN F(S)

RunThread(t) ==
  IF ENABLED ThreadStep(t) /\ ~Spinning(t)
    THEN /\ ThreadStep(t)
         /\ UNCHANGED <<hist, run, cur, parkl, parked, blockedT>>
    ELSE /\ run' = Tail(run)
         /\ blockedT' = IF tpc[t] # "idle" THEN t ELSE (IF blockedT = t THEN 0 ELSE blockedT)
         /\ UNCHANGED <<vars, hist, cur, parkl, parked>>

WillPark(h) ==
  /\ hpc[h] = "wake" /\ parkl[h] # 0 /\ hptr[h] \in alive
  /\ ver[hptr[h]].ent[hpos[h]].l = parkl[h] /\ wreg[parkl[h]]

RunHandler(h) ==
  IF hpc[h] = "done"
    THEN /\ run' = Tail(run) \o (IF AutoPoll THEN [i \in 1..Cardinality(WokenList) |-> <<"p", SeqOfSet(WokenList)[i]>>] ELSE <<>>)
         /\ UNCHANGED <<vars, hist, cur, parkl, parked, blockedT>>
    ELSE IF WillPark(h)
      THEN /\ HandlerStep(h)
           /\ parked' = parked \cup {h}
           /\ parkl' = [parkl EXCEPT ![h] = 0]
           /\ run' = Tail(run)
           /\ UNCHANGED <<hist, cur, blockedT>>
      ELSE /\ HandlerStep(h)
           /\ UNCHANGED <<hist, run, cur, parkl, parked, blockedT>>

\* the runtime polls a woken listener
RunPoll(l) ==
  IF lst[l] = "pend" /\ wokenp[l] /\ tpc[LHome[l]] = "idle" /\ ~Suspended(LHome[l])
    THEN /\ Poll(LHome[l], l)
         /\ run' = << <<"t", LHome[l]>> >> \o Tail(run)
         /\ UNCHANGED <<hist, cur, parkl, parked, blockedT>>
    ELSE /\ run' = Tail(run)
         /\ UNCHANGED <<vars, hist, cur, parkl, parked, blockedT>>

RunAgent ==
  /\ run # <<>>
  /\ LET ag == Head(run) IN
       CASE ag[1] = "t" -> RunThread(ag[2])
         [] ag[1] = "h" -> RunHandler(ag[2])
         [] ag[1] = "p" -> RunPoll(ag[2])

Finish ==
  /\ run = <<>> /\ cur # NoStep
  /\ hist' = Append(hist, [c |-> cur, x |-> Proj])
  /\ cur' = NoStep
  /\ UNCHANGED <<vars, run, parkl, parked, blockedT>>

GNext ==
  \/ \E l \in Listeners : GPoll(l) \/ GDrop(l)
  \/ \E s \in Sigs, on \in RaiseOn, pk \in 0..MaxNL : GRaise(s, on, pk)
  \/ \E h \in Handlers : GRelease(h)
  \/ RunAgent
  \/ Finish

GSpec == GInit /\ [][GNext]_gvars

Last == IF hist = <<>> THEN <<>> ELSE hist[Len(hist)].c
CoverView == <<vars, run, cur, parkl, parked, blockedT, Last>>

GChoose == (\E l \in Listeners : GPoll(l) \/ GDrop(l))
           \/ (\E s \in Sigs, on \in RaiseOn, pk \in 0..MaxNL : GRaise(s, on, pk))
           \/ (\E h \in Handlers : GRelease(h))
\* simulation: a behaviour is complete when it has MaxSteps steps or nothing more can be done
Emit == (run = <<>> /\ cur = NoStep /\ Len(hist) >= 1 /\ (EmitAll \/ Len(hist) = MaxSteps \/ ~ENABLED GChoose)) =>
          PrintT(<<"REPLAY", ToJson([lay |-> lay, auto |-> AutoPoll, steps |-> hist])>>)
\* the generator never leaves the safe region of the model (otherwise expectations would be meaningless)
GenSafe == Safe /\ NoCross /\ Delivered /\ RegisteredImpliesHandler
=============================================================================
