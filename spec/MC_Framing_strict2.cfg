\* control with the pinned (unrepaired) poll_next: FixFramerError = FALSE must violate NoPanic (poll after a framer error)
CONSTANTS
  FixExtractOverflow = TRUE
  FixFramerError = FALSE
  Lfls = {8}
  HostLfls = {}
  Endians = {TRUE, FALSE}
  DelimKinds = {}
  HostDelimKinds = {}
  WithNoop = FALSE
  WithLim = TRUE
  Codecs = {"bytes"}
  PayAlpha = {1}
  MaxPay = 0
  MaxFrames = 0
  BigPays = {}
  WideFrom = 3
  WideMaxPay = 0
  WideMaxFrames = 0
  WideHostAlpha = {0, 255}
  WideHostExtra = 1
  Modes = {"hostlazy"}
  HostAlpha = {0, 255}
  HostExtra = 1
  ChunkMin = 1
  ChunkMax = 16
  WLimits = {16}
  ZeroReads = 0
  MaxErr = 0
  AfterDone = 0
SPECIFICATION Spec
INVARIANTS NoPanic
