CONSTANTS
  Threads = {1, 2}
  Layouts <- LayoutsGenThree
  Muts <- MutsNone
  Sigs = {"a", "b"}
  BadSigs = {"k"}
  MaxRaise = 2
  RaiseOn = {0, 1, 2}
  SpuriousPolls = TRUE
  FixLeak = FALSE
  MaxNL = 3
  MaxSteps = 6
  AutoPoll = FALSE
  AllowPark = TRUE
  EmitAll = TRUE
SPECIFICATION GSpec
INVARIANTS GenSafe Emit
VIEW CoverView
