--------------------------- MODULE Gen_IourDriver ---------------------------
(* Behaviour printer for IourDriver (Eager variant): each behaviour is a schedule of
   submitter commands and harness-caused kernel actions with the hook events the model
   expects in each step; replayed on the real io_uring driver by harness bin drv_replay. *)
EXTENDS IourDriver, Json

CONSTANTS o1, o2, o3, MaxLen
KindDef == (o1 :> "single") @@ (o2 :> "multi") @@ (o3 :> "blocking")
KindZ == (o1 :> "single") @@ (o2 :> "zc") @@ (o3 :> "blocking")
OpName(o) == IF o = o1 THEN "o1" ELSE IF o = o2 THEN "o2" ELSE "o3"

VARIABLE hist
gvars == <<vars, hist>>

EvJ(evs) == [i \in 1..Len(evs) |-> [ev |-> evs[i].ev, op |-> OpName(evs[i].op), a |-> evs[i].a]]
Step(a, o) == hist' = Append(hist, [act |-> a, op |-> OpName(o), evs |-> EvJ(last')])

GInit == Init /\ hist = <<>>
GNext ==
  /\ (Len(hist) < MaxLen \/ drv \in {"drained", "closed"} \/ (drv = "gone" /\ jobs = {} /\ chan # <<>>))
  /\ IF Len(hist) >= MaxLen /\ drv = "gone"
       THEN DropChan /\ Step("dropchan", o1)
       ELSE IF drv \in {"drained", "closed"}
       THEN \* Driver::drop is one call in the real code: its three phases are not interleaved with anything
            \/ DropClose /\ Step("dropdrv2", o1)
            \/ DropFree /\ Step("dropdrv3", o1)
       ELSE \/ \E o \in Ops :
                 \/ PushRing(o) /\ Step("push", o)
                 \/ PushRingOverflow(o) /\ Step("push", o)
                 \/ PushBlocking(o) /\ Step("push", o)
                 \/ PoolRun(o) /\ Step("poolrun", o)
                 \/ Pop(o) /\ Step("pop", o)
                 \/ Cancel(o) /\ Step("cancel", o)
                 \/ MakeToken(o) /\ Step("token", o)
                 \/ FireToken(o) /\ Step("fire", o)
                 \/ KeyDrop(o) /\ Step("keydrop", o)
                 \/ KFinal(o) /\ Step("kfinal", o)
                 \/ KMore(o) /\ Step("kmore", o)
            \/ Poll /\ Step("poll", o1)
            \/ DropDrain /\ Step("dropdrv", o1)
            \/ DropChan /\ Step("dropchan", o1)
            \/ End /\ Step("end", o1)
GSpec == GInit /\ [][GNext]_gvars

Done == (mon.ended \/ Len(hist) >= MaxLen) /\ drv \notin {"drained", "closed"} /\ ~(drv = "gone" /\ jobs = {} /\ chan # <<>>)
EmitInv == Done => PrintT(<<"REPLAY", ToJson([sqcap |-> SQCAP, kinds |-> [o1 |-> Kind[o1], o2 |-> Kind[o2], o3 |-> Kind[o3]],
                                              steps |-> hist])>>)
=============================================================================
