CONSTANTS
  N = 1
  Kind = "ring"
  Ops = {"o1", "o2"}
  FileOps = {}
  SrcType = "pipe"
  MaxPend = 2
  MaxH = 2
  ResetProvides = TRUE
  TakeEmptiesSlot = TRUE
  KeyRaceDev = TRUE
  DropReturnsQueued = TRUE
SPECIFICATION Spec
INVARIANTS Safe
