---------------------------- MODULE IoHelpersMem ----------------------------
(* C11 - the in-memory readers, writers and cursors of compio-io, one call per case, with
   positions up to and beyond the end:
     compio-io/src/read/mod.rs   AsyncRead for &[u8] (read, read_vectored),
                                 AsyncReadAt for [u8] / [u8; N] / Vec<u8> (read_at, read_vectored_at),
                                 AsyncRead for Cursor<A> (read, read_vectored)
     compio-io/src/write/mod.rs  AsyncWrite for Vec<u8> and &mut [u8] (write, write_vectored),
                                 AsyncWriteAt for [u8] / [u8; N] / Vec<u8> (write_at, write_vectored_at),
                                 AsyncWrite for Cursor<A>
     compio-io/src/util/internal.rs  slice_to_buf, slice_to_uninit
   Code-shaped result (operator Code) against the reference (operator MemRef); the loops of the
   helpers over these objects are covered by module IoHelpers (inner = "mem" / "vec" / "arr").
   Source bytes 1..L, payload bytes 1..n, existing destination content 11, 12, .., 0 = zero fill.
   Uses the variables of IoHelpers: op (case), loc.b / loc.vb (buffers handed in), sink (destination
   object after the call), rpos (cursor position / bytes left), res.                            *)
EXTENDS IoHelpers

MemHelpers == {"slice_read", "slice_read_vectored", "read_at", "read_vectored_at", "cursor_read",
               "cursor_read_vectored", "vec_write", "vec_write_vectored", "slice_write", "slice_write_vectored",
               "arr_write_at", "arr_write_vectored_at", "vec_write_at", "vec_write_vectored_at",
               "cursor_vec_write", "cursor_vec_write_vectored"}

Caps2 == [1..2 -> 0..2]
MemCases ==
  UNION {
    { [NoOp EXCEPT !.h = "slice_read", !.L = l, !.cap = c, !.pre = p] : l \in 0..MaxL, c \in 0..MaxCap, p \in 0..2 },
    { [NoOp EXCEPT !.h = "slice_read_vectored", !.L = l, !.caps = cs, !.lens = <<0, 0>>] : l \in 0..MaxL, cs \in Caps2 },
    { [NoOp EXCEPT !.h = "read_at", !.L = l, !.cap = c, !.pre = p, !.pos = q] :
        l \in 0..MaxL, c \in 0..MaxCap, p \in 0..1, q \in 0..(MaxL + 2) },
    { [NoOp EXCEPT !.h = hh, !.L = l, !.caps = cs, !.lens = <<0, 0>>, !.pos = q] :
        hh \in {"read_vectored_at", "cursor_read_vectored"}, l \in 0..MaxL, cs \in Caps2, q \in 0..(MaxL + 2) },
    { [NoOp EXCEPT !.h = "cursor_read", !.L = l, !.cap = c, !.pos = q] : l \in 0..MaxL, c \in 0..MaxCap, q \in 0..(MaxL + 2) },
    { [NoOp EXCEPT !.h = "vec_write", !.pre = p, !.n = m] : p \in 0..3, m \in 0..MaxL },
    { [NoOp EXCEPT !.h = "vec_write_vectored", !.pre = p, !.lens = ls] : p \in 0..3, ls \in Caps2 },
    { [NoOp EXCEPT !.h = "slice_write", !.lim = s, !.n = m] : s \in 0..MaxCap, m \in 0..MaxL },
    { [NoOp EXCEPT !.h = "slice_write_vectored", !.lim = s, !.lens = ls] : s \in 0..MaxCap, ls \in Caps2 },
    { [NoOp EXCEPT !.h = "arr_write_at", !.lim = s, !.n = m, !.pos = q] : s \in 0..MaxCap, m \in 0..MaxL, q \in 0..(MaxCap + 2) },
    { [NoOp EXCEPT !.h = "arr_write_vectored_at", !.lim = s, !.lens = ls, !.pos = q] :
        s \in 0..MaxCap, ls \in Caps2, q \in 0..(MaxCap + 2) },
    { [NoOp EXCEPT !.h = hh, !.pre = p, !.n = m, !.pos = q] :
        hh \in {"vec_write_at", "cursor_vec_write"}, p \in 0..3, m \in 0..MaxL, q \in 0..5 },
    { [NoOp EXCEPT !.h = hh, !.pre = p, !.lens = ls, !.pos = q] :
        hh \in {"vec_write_vectored_at", "cursor_vec_write_vectored"}, p \in 0..3, ls \in Caps2, q \in 0..5 }
  }

Data == Bytes(0, op.L)
Pre == Bytes(10, op.pre)
TotalPayload == SumSeq(op.lens, Len(op.lens))
Root == [begin |-> 0, idx |-> 1, off |-> 0]
\* Put with the zero extension of Vec::resize(pos, 0) even for an empty payload
PutZ(m, at, bs) == LET z == IF at > Len(m) THEN m \o [i \in 1..(at - Len(m)) |-> 0] ELSE m IN Put(z, at, bs)
Out(r, b, vb, dst, p) == [res |-> r, buf |-> b, vb |-> vb, sink |-> dst, rpos |-> p]
NoVb == <<>>

\* ---- the calls as the code is written --------------------------------------------------
Code ==
  LET vbuf == Vec(op.pre, op.cap, 10)
      mem == Members(op.caps, op.lens)
      tc == SumSeq(op.caps, Len(op.caps))
      a == IF Len(op.lens) = 2 THEN op.lens[1] ELSE 0
      b == IF Len(op.lens) = 2 THEN op.lens[2] ELSE 0
  IN
  CASE op.h = "slice_read" ->            \* len = slice_to_buf(self, buf); *self = &self[len..]
         LET n == Min(op.L, op.cap) IN Out(ROk(n), Content(SliceRead(vbuf, 0, -1, Bytes(0, n))), NoVb, <<>>, n)
    [] op.h = "slice_read_vectored" ->   \* fill iter_uninit_slice() in order, advance_vec_to(len)
         LET k == Min(op.L, tc) w == VNativeRead(mem, Root, Bytes(0, k))
         IN Out(ROk(k), <<>>, [j \in 1..2 |-> Content(w[j])], <<>>, k)
    [] op.h \in {"read_at", "cursor_read"} ->     \* pos = pos.min(len); slice_to_buf(&self[pos..], buf)
         LET p == Min(op.pos, op.L) n == Min(op.L - p, op.cap)
         IN Out(ROk(n), Content(SliceRead(vbuf, 0, -1, Bytes(p, n))), NoVb, <<>>,
                IF op.h = "cursor_read" THEN op.pos + n ELSE 0)
    [] op.h \in {"read_vectored_at", "cursor_read_vectored"} ->   \* slice = &self[pos as usize..]  (no clamping)
         \* fixed (read_vectored_at_clamp): pos = pos.min(len) first, like read_at
         IF op.pos > op.L /\ "read_vectored_at_clamp" \notin Fixed THEN Out(RPanic, <<>>, NoVb, <<>>, 0)
         ELSE LET q == Min(op.pos, op.L) k == Min(op.L - q, tc) w == VNativeRead(mem, Root, Bytes(q, k))
              IN Out(ROk(k), <<>>, [j \in 1..2 |-> Content(w[j])], <<>>,
                     IF op.h = "cursor_read_vectored" THEN op.pos + k ELSE 0)
    [] op.h = "vec_write" ->             \* extend_from_slice
         Out(ROk(op.n), <<>>, NoVb, Pre \o Bytes(0, op.n), 0)
    [] op.h = "vec_write_vectored" ->    \* self.reserve(len) (before the fix: len - self.len()); extend each
         IF op.pre > TotalPayload /\ "vec_write_vectored" \notin Fixed THEN Out(RPanic, <<>>, NoVb, Pre, 0)
         ELSE Out(ROk(TotalPayload), <<>>, NoVb, Pre \o Bytes(0, TotalPayload), 0)
    [] op.h = "slice_write" ->           \* std::io::Write for &mut [u8]
         LET k == Min(op.n, op.lim) IN Out(ROk(k), <<>>, NoVb, Bytes(0, k), op.lim - k)
    [] op.h = "slice_write_vectored" ->  \* per member: write; stop when the slice is used up
         LET n1 == Min(a, op.lim)
             n2 == IF op.lim - n1 = 0 THEN 0 ELSE Min(b, op.lim - n1)
         IN Out(ROk(n1 + n2), <<>>, NoVb, Bytes(0, n1) \o Bytes(a, n2), op.lim - n1 - n2)
    [] op.h = "arr_write_at" ->          \* pos = pos.min(len); n = min(buf, len - pos)
         LET p == Min(op.pos, op.lim) k == Min(op.n, op.lim - p)
         IN Out(ROk(k), <<>>, NoVb, Put(Bytes(10, op.lim), p, Bytes(0, k)), 0)
    [] op.h = "arr_write_vectored_at" -> \* per member: write_at(iter, pos + total)
         LET p1 == Min(op.pos, op.lim) n1 == Min(a, op.lim - p1)
             p2 == Min(op.pos + n1, op.lim)
             n2 == IF op.lim = 0 THEN 0 ELSE Min(b, op.lim - p2)
         IN Out(ROk(n1 + n2), <<>>, NoVb, Put(Put(Bytes(10, op.lim), p1, Bytes(0, n1)), p2, Bytes(a, n2)), 0)
    [] op.h \in {"vec_write_at", "cursor_vec_write"} ->    \* overwrite + extend, or resize(pos, 0) + extend
         Out(ROk(op.n), <<>>, NoVb, PutZ(Pre, op.pos, Bytes(0, op.n)), IF op.h = "cursor_vec_write" THEN op.pos + op.n ELSE 0)
    [] op.h \in {"vec_write_vectored_at", "cursor_vec_write_vectored"} ->
         \* if pos <= len { self.reserve(len_total.saturating_sub(self.len() - pos)) } ... (before the fix: plain -)
         IF op.pos <= op.pre /\ TotalPayload < op.pre - op.pos /\ "vec_write_vectored_at" \notin Fixed THEN Out(RPanic, <<>>, NoVb, Pre, 0)
         ELSE Out(ROk(TotalPayload), <<>>, NoVb, PutZ(Pre, op.pos, Bytes(0, TotalPayload)),
                  IF op.h = "cursor_vec_write_vectored" THEN op.pos + TotalPayload ELSE 0)

\* ---- the reference --------------------------------------------------------------------
\* a read delivers the bytes of the object from the position on (nothing beyond the end), as many as
\* fit, to the beginning of the buffer(s); a write stores the payload at the position (array: what
\* fits; Vec: grows, zero filled gap); the rest of the destination is preserved; never a panic.
FromPos(p) == Bytes(Min(p, op.L), Max(0, op.L - p))
RECURSIVE LayoutP(_, _, _)
LayoutP(caps, j, s) == IF j > Len(caps) THEN <<>>
                       ELSE <<FirstN(s, caps[j])>> \o LayoutP(caps, j + 1, SubSeq(s, Min(caps[j], Len(s)) + 1, Len(s)))
MemRef ==
  LET tc == SumSeq(op.caps, Len(op.caps))
      cursor == op.h \in {"cursor_read", "cursor_read_vectored", "cursor_vec_write", "cursor_vec_write_vectored"}
  IN
  CASE op.h \in {"slice_read", "read_at", "cursor_read"} ->
         LET s == FirstN(FromPos(op.pos), op.cap) IN
         Out(ROk(Len(s)), s \o Bytes(10 + Len(s), Max(0, op.pre - Len(s))), NoVb, <<>>,
             IF op.h = "slice_read" THEN Len(s) ELSE IF cursor THEN op.pos + Len(s) ELSE 0)
    [] op.h \in {"slice_read_vectored", "read_vectored_at", "cursor_read_vectored"} ->
         LET s == FirstN(FromPos(op.pos), tc) IN
         Out(ROk(Len(s)), <<>>, LayoutP(op.caps, 1, s), <<>>,
             IF op.h = "slice_read_vectored" THEN Len(s) ELSE IF cursor THEN op.pos + Len(s) ELSE 0)
    [] op.h \in {"vec_write", "vec_write_vectored"} ->
         LET n == IF op.h = "vec_write" THEN op.n ELSE TotalPayload IN Out(ROk(n), <<>>, NoVb, Pre \o Bytes(0, n), 0)
    [] op.h \in {"slice_write", "slice_write_vectored"} ->
         LET n == IF op.h = "slice_write" THEN op.n ELSE TotalPayload k == Min(n, op.lim)
         IN Out(ROk(k), <<>>, NoVb, Bytes(0, k), op.lim - k)
    [] op.h \in {"arr_write_at", "arr_write_vectored_at"} ->
         LET n == IF op.h = "arr_write_at" THEN op.n ELSE TotalPayload
             p == Min(op.pos, op.lim) k == Min(n, op.lim - p)
         IN Out(ROk(k), <<>>, NoVb, Put(Bytes(10, op.lim), p, Bytes(0, k)), 0)
    [] OTHER ->
         LET n == IF op.h \in {"vec_write_at", "cursor_vec_write"} THEN op.n ELSE TotalPayload
         IN Out(ROk(n), <<>>, NoVb, PutZ(Pre, op.pos, Bytes(0, n)), IF cursor THEN op.pos + n ELSE 0)
MemObs == Out(res, Content(loc.b), [j \in 1..Len(loc.vb) |-> Content(loc.vb[j])], sink, rpos)
MemAgrees == MemObs = MemRef

\* ---- named deviations --------------------------------------------------------------------
\* read_vectored_at of slices / arrays / Vec indexes &self[pos..] without clamping (read_at clamps)
DevReadVectoredAtBeyondEnd == "read_vectored_at_clamp" \notin Fixed /\ op.h \in {"read_vectored_at", "cursor_read_vectored"} /\ op.pos > op.L
\* Vec<u8>::write_vectored computes reserve(total - self.len()) and underflows on a longer vector
DevVecWriteVectoredUnderflow == "vec_write_vectored" \notin Fixed /\ op.h = "vec_write_vectored" /\ op.pre > TotalPayload
\* Vec<u8>::write_vectored_at computes reserve(total - (self.len() - pos)) and underflows when the
\* payload ends before the end of the vector
DevVecWriteVectoredAtUnderflow == /\ "vec_write_vectored_at" \notin Fixed
                                  /\ op.h \in {"vec_write_vectored_at", "cursor_vec_write_vectored"}
                                  /\ op.pos <= op.pre /\ TotalPayload < op.pre - op.pos
MemKnownDeviation == DevReadVectoredAtBeyondEnd \/ DevVecWriteVectoredUnderflow \/ DevVecWriteVectoredAtUnderflow

\* ---- the one-step machine ----------------------------------------------------------------
MemCaseOk(o) == o.h \in Helpers /\ (o.h \in {"slice_read", "read_at"} => o.pre <= o.cap)
MemInit == /\ op \in {o \in MemCases : MemCaseOk(o)}
           /\ loc = NoLoc /\ pc = "run" /\ rpos = 0 /\ sink = <<>> /\ intrLeft = 0 /\ faultLeft = 0
           /\ fault = NoFault /\ res = RNone /\ calls = 0 /\ sched = <<>> /\ wsched = <<>>
           /\ rcap = <<>> /\ wlen = <<>>
MemCall == /\ pc = "run"
           /\ LET c == Code IN
              /\ res' = c.res /\ sink' = c.sink /\ rpos' = c.rpos
              /\ loc' = [loc EXCEPT !.b = [len |-> Len(c.buf), cap |-> Len(c.buf), mem |-> c.buf],
                                    !.vb = [j \in 1..Len(c.vb) |-> [len |-> Len(c.vb[j]), cap |-> Len(c.vb[j]), mem |-> c.vb[j]]]]
           /\ pc' = "done" /\ calls' = 1
           /\ UNCHANGED <<op, intrLeft, faultLeft, fault, sched, wsched, rcap, wlen>>
MemSpec == MemInit /\ [][MemCall]_vars

MemConformsModuloKnown == Done /\ ~MemKnownDeviation => MemAgrees
MemNoPanic == Done /\ ~MemKnownDeviation => res.k = "ok"
MemStrict == Done => MemAgrees
=============================================================================
