\* control of the progress measure: a zero-width length field (accepted by set_length_field_len,
\* outside the property's quantifier 1..8) yields empty frames forever without consuming input
CONSTANTS
  Lfls = {0}
  HostLfls = {0}
  Endians = {TRUE}
  DelimKinds = {}
  HostDelimKinds = {}
  WithNoop = FALSE
  WithLim = FALSE
  Codecs = {"bytes"}
  PayAlpha = {1}
  MaxPay = 0
  MaxFrames = 0
  BigPays = {}
  WideFrom = 3
  WideMaxPay = 0
  WideMaxFrames = 0
  WideHostAlpha = {0, 255}
  WideHostExtra = 1
  Modes = {"hostlazy"}
  HostAlpha = {0}
  HostExtra = 1
  ChunkMin = 1
  ChunkMax = 16
  WLimits = {16}
  ZeroReads = 0
  MaxErr = 0
  AfterDone = 0
SPECIFICATION Spec
PROPERTIES Progress
