CONSTANTS
  o1 = o1
  o2 = o2
  o3 = o3
  Ops = {o1, o2, o3}
  Kind <- KindSSS
  FdOf <- FdSame
  Dir <- DirRW
  Fds = {1, 2}
  Eager = FALSE
SPECIFICATION Spec
VIEW View
INVARIANTS Safe ArmedIsFront QueuedAreAlive
