---------------------------- MODULE Trace_Actor ----------------------------
(* Trace validation for C19: a history recorded from the real compio-actor crate by
   harness/hactor record_actor (ndjson, one event per line, many runs separated by reset events)
   is accepted iff the actions of module Actor can produce it.

   Every logged event is bound to the Actor action of the same name with the logged fields as
   arguments.  Operations that are concurrent in real time are logged as call / return brackets;
   their internal steps (is_closed check, try_send, stopping.swap, registry lock, group lock ..)
   and the unlogged steps of the actor task (activate, started_tx, recv, begin_stop, drop(receiver),
   drop(reg), supervision casts) are silent steps that TLC places anywhere between the brackets:
   a history is rejected exactly when no placement explains it.

   Acceptance: register 1 holds the largest cursor reached; the POSTCONDITION prints
   TRACE_ACCEPTED when the whole trace was consumed and the first unexplained event otherwise. *)
EXTENDS Actor, Json, IOUtils

Rec == ndJsonDeserialize(IOEnv.TRACE)
N == Len(Rec)

VARIABLE l          \* cursor: next event to explain

tvars == <<vars, l>>

TInit == Init /\ l = 1 /\ TLCSet(1, 1)

ResetAll ==
  /\ phase' = [a \in Actors |-> "unspawned"]
  /\ queue' = [a \in Actors |-> <<>>]
  /\ stopq' = [a \in Actors |-> FALSE]
  /\ stopping' = [a \in Actors |-> FALSE]
  /\ rxopen' = [a \in Actors |-> TRUE]
  /\ cur' = [a \in Actors |-> NoMsg]
  /\ exit' = [a \in Actors |-> ""]
  /\ startmsg' = [a \in Actors |-> "none"]
  /\ aname' = [a \in Actors |-> NoName]
  /\ acap' = [a \in Actors |-> 1]
  /\ asup' = [a \in Actors |-> FALSE]
  /\ selfstop' = [a \in Actors |-> "none"]
  /\ regOwner' = [nm \in Names |-> NoActor]
  /\ regActive' = [nm \in Names |-> FALSE]
  /\ op' = [p \in Procs |-> Idle]
  /\ reply' = [p \in Procs |-> "none"]
  /\ bud' = [p \in Procs |-> [m |-> 0, s |-> 0, l |-> 0, j |-> 0]]
  /\ members' = <<>>
  /\ cursor' = 0
  /\ glock' = NoProc
  /\ supq' = <<>>
  /\ accepted' = [a \in Actors |-> <<>>]
  /\ handled' = [a \in Actors |-> <<>>]
  /\ hooks' = [a \in Actors |-> <<>>]
  /\ active' = [a \in Actors |-> 0]

HookStep(e) ==
  CASE e.h = "pre_start" -> PreStart(e.a, e.ok)
    [] e.h = "post_start" -> PostStart(e.a, e.ok)
    [] e.h = "pre_stop" -> PreStop(e.a, e.ok)
    [] e.h = "post_stop" -> PostStop(e.a, e.ok)
    [] OTHER -> FALSE

Event(e) ==
  CASE e.e = "reset" -> ResetAll
    [] e.e = "spawn.call" -> IF e.p = SupProc THEN SupRespawnCall(e.p, e.a, e.name, e.cap, e.sup)
                                              ELSE SpawnCall(e.p, e.a, e.name, e.cap, e.sup)
    [] e.e = "spawn.ret" -> SpawnRet(e.p, e.res)
    [] e.e = "start.enter" -> StartEnter(e.a)
    [] e.e = "hook" -> HookStep(e)
    [] e.e = "send.call" -> e.k \in AllKinds /\ SendCall(e.p, e.a, e.n, e.k)
    [] e.e = "gsend.call" -> e.k \in AllKinds /\ GSendCall(e.p, e.n, e.k)
    [] e.e = "send.ret" -> SendRet(e.p, e.res)
    [] e.e = "call.ret" -> /\ op[e.p].n = e.n
                           /\ e.v
                           /\ IF e.res = "hang" THEN CallHangs(e.p) ELSE CallRet(e.p, e.res)
    [] e.e = "handle.begin" -> HandleBegin(e.a, [p |-> e.p, n |-> e.n, k |-> e.k])
    [] e.e = "handle.end" -> /\ cur[e.a].p = e.p /\ cur[e.a].n = e.n
                             /\ (e.ss = "none") = (cur[e.a].k # "stopself")
                             /\ (e.ss = "true") => selfstop[e.a] = "t"
                             /\ (e.ss = "false") => selfstop[e.a] = "f"
                             /\ HandleEnd(e.a, e.ok)
    [] e.e = "stop.call" -> StopCall(e.p, e.a)
    [] e.e = "stop.ret" -> StopRet(e.p, e.res)
    [] e.e = "lookup.call" -> LookupCall(e.p, e.name)
    [] e.e = "lookup.ret" -> LookupRet(e.p, e.found)
    [] e.e = "gjoin.call" -> GJoinCall(e.p, e.a, e.tok)
    [] e.e = "gleave.call" -> GLeaveCall(e.p, e.tok)
    [] e.e \in {"gjoin.ret", "gleave.ret"} -> GMemberRet(e.p)
    [] e.e = "glen.call" -> GLenCall(e.p)
    [] e.e = "glen.ret" -> GLenRet(e.p, e.len)
    [] e.e = "sup.event" -> SupHandle(e.p, [k |-> e.k, a |-> e.a])
    [] e.e = "sup.done" -> SupHandleEnd(e.p)
    [] e.e = "exit" -> ExitObs(e.a, e.res)
    [] OTHER -> FALSE

Logged ==
  /\ l <= N
  /\ Event(Rec[l])
  /\ l' = l + 1
  /\ TLCSet(1, IF l + 1 > TLCGet(1) THEN l + 1 ELSE TLCGet(1))

ActorSilent(a) ==
  \/ ReleaseFailed(a) \/ ReportStartFail(a) \/ Activate(a) \/ StartedSend(a) \/ SupStarted(a)
  \/ RecvStop(a) \/ RecvMsg(a) \/ SelfStop(a) \/ ReplyStep(a)
  \/ BeginStop(a) \/ CloseRx(a) \/ ReleaseName(a) \/ SupTerminal(a)

Silent ==
  /\ l <= N
  /\ Rec[l].e # "reset"          \* nothing of the old run matters once its last event is explained
  /\ \/ \E a \in Actors : ActorSilent(a)
     \/ \E p \in Procs : ProcInternal(p)
  /\ UNCHANGED l

TNext == Logged \/ Silent

TSpec == TInit /\ [][TNext]_tvars

Accepted ==
  IF TLCGet(1) = N + 1
    THEN PrintT(<<"TRACE_ACCEPTED", N>>)
    ELSE PrintT(<<"TRACE", ToJson([rejected_at |-> TLCGet(1), event |-> Rec[TLCGet(1)]])>>)
=============================================================================
