---------------------------- MODULE CompatStream ----------------------------
(* C12 - the compat adapters of compio-io are lossless FIFO pipes.

   Transcribes, as the code is written,
     compio-io/src/buffer.rs              Buffer::{advance, reset, compact_to, need_flush, is_empty,
                                          all_done, with, flush_to}
     compio-io/src/compat/sync_stream.rs  SyncReadBuf::{fill_buf, consume, read, read_buf_uninit,
                                          fill_read_buf}, SyncWriteBuf::{write, flush_write_buf},
                                          Write::flush (no-op)
     compio-io/src/compat/async_stream.rs poll_read, poll_read_uninit, poll_fill_buf, consume,
                                          poll_write, poll_flush, poll_close, poll_read_impl,
                                          poll_flush_impl, poll_close_impl, poll_future!,
                                          poll_future_would_block!, replace_waker
     compio-io/src/compat/waker_array.rs  WakerArrayRef::{with, clone(to_owned), wake_by_ref}
   plus the growth rules of the Vec<u8> below the Buffer (try_reserve is amortised, compio's
   reserve_exact is a no-op when the spare room already suffices).

   One action per caller-visible method.  All methods take &mut self, so they are atomic with
   respect to each other; the only place where a method gives control back in the middle of its
   work is a Pending result of the inner stream, and that is modelled as the state of the boxed
   in-flight future (fut/ff/sf, lent, rdy, iw).  Helper operators carry the names of the
   functions they transcribe.

   The inner stream is an environment that answers every call with one outcome:
     k in Ks   Ok(min(k, what was offered))     short transfer
     EOF = 0   Ok(0)   (read: end of file; write: WriteZero)
     ERR       Err(other)
     PEND      Poll::Pending; the waker handed in is kept (cloned: the WakerArray snapshot), the
               environment action *Complete wakes it, the next poll of the future takes the
               next outcome.
   Source bytes are 1,2,3,...: R.src delivered so far, R.out handed to the caller so far;
   bytes accepted by write are numbered 1,2,3,...: W.acc accepted, W.sink received by the inner
   stream.  The ok flags record that every hand-over was the next bytes in order.           *)
EXTENDS Integers, Sequences, FiniteSets, TLC

CONSTANTS Cfgs,       \* set of <<base_capacity, max_buffer_size, mode>>, mode in {"sync", "async"}
          Side,       \* "r" or "w": which half is explored (the halves share no state)
          MaxSrc,     \* source bytes available to the read side (blocking-style configurations)
          MaxAcc,     \* bytes the caller offers to the write side (blocking-style configurations)
          MaxSrcA,    \* the same two bounds for the poll-style configurations (their state space is
          MaxAccA,    \* much larger because of the waker slots)
          Sizes,      \* caller buffer sizes for read / write
          Ks,         \* short-transfer sizes of the inner stream
          Fuel,       \* bound on the retry loop inside one poll (exceeding it = livelock)
          OldReadLimit, \* FALSE: the code as repaired by a1c242c (the slice handed to the inner read is clamped
                      \* to max_buffer_size); TRUE: the pinned code before the repair (all spare room
                      \* offered) - kept for the control run that must violate ReadLimitStrict
          WakeAll,    \* TRUE: as the code is (WakerArrayRef wakes every registered slot); FALSE: a
                      \* broken variant that wakes one slot only (negative control of the wake property)
          Detail      \* TRUE: the return register keeps sizes, bytes, outcomes and offered room
                      \* (behaviour generation); FALSE: only the kind of result (exhaustive runs)

EOF == 0
ERR == 0 - 1
PEND == 0 - 2

VARIABLES cfg,        \* [base, max, mode]
          R,          \* read half
          W,          \* write half
          last        \* what the last call returned (return register; also carries the
                      \* outcomes consumed and the room offered to the inner stream)
vars == <<cfg, R, W, last>>

Min(a, b) == IF a < b THEN a ELSE b
Max(a, b) == IF a > b THEN a ELSE b
Range(a, b) == [i \in 1..(b - a + 1) |-> a + i - 1]      \* <<a, a+1, .., b>>

\* waker_array.rs: the waker handed to the future wakes every slot that is Some at that moment
\* (clone = to_owned snapshots them)
Arr(x) == IF WakeAll THEN x.wk ELSE (IF x.wk = {} THEN {} ELSE {CHOOSE e \in x.wk : TRUE})

Res(k, n, d, os, sp) ==
  IF Detail THEN [k |-> k, n |-> n, d |-> d, os |-> os, sp |-> sp, wake |-> {}]
  ELSE [k |-> k, n |-> 0, d |-> <<>>, os |-> <<>>, wake |-> {},
        sp |-> IF \E i \in DOMAIN sp : sp[i] < 1 THEN <<0>> ELSE <<>>]

\* ---------------------------------------------------------------------------
\* buffer.rs: Buffer = Option<Slice<Vec<u8>>>; b = [beg: Slice::begin, cap: Vec capacity,
\* data: the Vec content (its length is Vec::len)]
\* ---------------------------------------------------------------------------
BLen(b) == Len(b.data)
View(b) == SubSeq(b.data, b.beg + 1, BLen(b))            \* Buffer::buffer / Slice deref
AllDone(b) == b.beg >= BLen(b)                            \* all_done: the sliced view is empty
BufIsEmpty(b) == BLen(b) = 0                              \* is_empty looks at the whole Vec
NeedFlush(b) == BLen(b) > (b.cap * 2) \div 3              \* need_flush
\* advance asserts begin + amount <= capacity and slice(pos..) asserts pos <= len
AdvancePanics(b, amt) == b.beg + amt > b.cap \/ b.beg + amt > BLen(b)
Advance(b, amt) == [b EXCEPT !.beg = @ + amt]
Reset(b) == [b EXCEPT !.beg = 0, !.data = <<>>]
CompactTo(b, capacity, maxcap) ==
  IF b.beg > 0 /\ b.beg < BLen(b)
    THEN [b EXCEPT !.data = SubSeq(b.data, b.beg + 1, BLen(b)), !.beg = 0]       \* copy_within + set_len
  ELSE IF b.beg >= BLen(b)
    THEN [b EXCEPT !.data = <<>>, !.beg = 0,                                      \* clear
                   !.cap = IF b.cap > maxcap THEN Min(b.cap, capacity) ELSE b.cap]   \* shrink_to
  ELSE b
\* Vec::try_reserve (amortised growth, MIN_NON_ZERO_CAP = 8 for u8)
GrowAmortized(b, n) == IF b.cap - BLen(b) >= n THEN b.cap ELSE Max(Max(2 * b.cap, BLen(b) + n), 8)
\* compio_buf reserve_exact for Vec: nothing if the spare room suffices, else exactly len + n
ReserveExact(b, n) == IF b.cap - BLen(b) >= n THEN b.cap ELSE BLen(b) + n

\* ---------------------------------------------------------------------------
\* sync_stream.rs, read side
\* ---------------------------------------------------------------------------
SFillBuf(r) == IF r.lent THEN "wb"                                \* available_read: buffer in use
               ELSE IF View(r.b) = <<>> /\ ~r.eof THEN "wb"       \* need to fill read buffer
               ELSE "ok"

SConsume(r, amt) ==
  LET b1 == Advance(r.b, amt)
      b2 == IF AllDone(b1) THEN CompactTo(b1, cfg.base, cfg.max) ELSE b1
      got == SubSeq(View(r.b), 1, amt)
  IN [r EXCEPT !.b = b2, !.out = @ + amt, !.ok = @ /\ (got = Range(r.out + 1, r.out + amt))]

\* read / read_buf_uninit with a caller buffer of n bytes
SRead(r, n) ==
  IF SFillBuf(r) = "wb" THEN [r |-> r, k |-> "wb", n |-> 0, d |-> <<>>]
  ELSE LET m == Min(Len(View(r.b)), n)
       IN [r |-> SConsume(r, m), k |-> "ok", n |-> m, d |-> SubSeq(View(r.b), 1, m)]

\* fill_read_buf up to the call of the inner stream
FillPrelude(r) ==
  IF r.eof THEN [r |-> r, st |-> "eof0"]
  ELSE LET b1 == CompactTo(r.b, cfg.base, cfg.max) IN
       IF BLen(b1) >= cfg.max THEN [r |-> [r EXCEPT !.b = b1], st |-> "oom"]
       ELSE LET avail == b1.cap - BLen(b1)
                b2 == IF avail < cfg.base
                        THEN [b1 EXCEPT !.cap = ReserveExact(b1, (BLen(b1) + cfg.base) - b1.cap)]
                        ELSE b1
            IN [r |-> [r EXCEPT !.b = b2], st |-> "call"]

\* the room offered to stream.read: inner.slice(len..min(capacity, max_buffer_size));
\* before the repair: inner.slice(len..)
Space(r) == (IF OldReadLimit THEN r.b.cap ELSE Min(r.b.cap, cfg.max)) - BLen(r.b)

SrcBound == IF cfg.mode = "sync" THEN MaxSrc ELSE MaxSrcA
AccBound == IF cfg.mode = "sync" THEN MaxAcc ELSE MaxAccA
ROuts(r) == {o \in Ks : r.src + Min(o, Space(r)) <= SrcBound} \cup {EOF, ERR}
            \cup (IF cfg.mode = "async" THEN {PEND} ELSE {})

\* the inner read returned outcome o (not PEND): the rest of fill_read_buf
InnerRead(r, o) ==
  IF o = ERR THEN [r |-> r, k |-> "err", n |-> 0]
  ELSE LET d == IF o = EOF THEN 0 ELSE Min(o, Space(r))
           r1 == [r EXCEPT !.b.data = @ \o Range(r.src + 1, r.src + d), !.src = @ + d]
       IN [r |-> IF d = 0 THEN [r1 EXCEPT !.eof = TRUE] ELSE r1, k |-> "ok", n |-> d]

\* ---------------------------------------------------------------------------
\* sync_stream.rs, write side
\* ---------------------------------------------------------------------------
Accept(w, m) == [w EXCEPT !.b.cap = GrowAmortized(w.b, m),               \* extend_from_slice
                          !.b.data = @ \o Range(w.acc + 1, w.acc + m),
                          !.acc = @ + m]

SWrite(w, n) ==
  IF w.lent THEN [w |-> w, k |-> "wb", n |-> 0]                            \* buffer in use
  ELSE IF NeedFlush(w.b) /\ ~BufIsEmpty(w.b) THEN [w |-> w, k |-> "wb", n |-> 0]
  ELSE LET vl == Len(View(w.b))                                            \* inner.buf_len() of the Slice
       IN IF vl + n > cfg.max
            THEN (IF cfg.max - vl = 0 THEN [w |-> w, k |-> "wb", n |-> 0]  \* write buffer full
                  ELSE [w |-> Accept(w, cfg.max - vl), k |-> "ok", n |-> cfg.max - vl])
            ELSE [w |-> Accept(w, n), k |-> "ok", n |-> n]

WOuts == Ks \cup {EOF, ERR} \cup (IF cfg.mode = "async" THEN {PEND} ELSE {})
SOuts == {1, ERR} \cup (IF cfg.mode = "async" THEN {PEND} ELSE {})

FinW(w) == [w EXCEPT !.ff = FALSE, !.lent = FALSE, !.rdy = FALSE]

\* flush_to succeeded: reset was done; compact_to, then stream.flush() (always Ok here)
FlushDone(w, os, sp) ==
  [w |-> FinW([w EXCEPT !.b = CompactTo(w.b, cfg.base, cfg.max)]), st |-> "ok", os |-> os, sp |-> sp]

RECURSIVE FlushLoop(_, _, _), FlushStep(_, _, _, _)
\* top of the loop in flush_to: self.with(|inner| writer.write(inner))
FlushLoop(w, os, sp) ==
  LET sp1 == Append(sp, Len(View(w.b))) IN
  UNION { IF o = PEND
            THEN {[w |-> [w EXCEPT !.ff = TRUE, !.lent = TRUE, !.rdy = FALSE, !.iw = Arr(w)],
                   st |-> "pending", os |-> Append(os, o), sp |-> sp1]}
            ELSE FlushStep(w, o, Append(os, o), sp1)
          : o \in WOuts }
\* writer.write returned outcome o (not PEND); the buffer is back in place
FlushStep(w, o, os, sp) ==
  IF o = ERR THEN {[w |-> FinW(w), st |-> "err", os |-> os, sp |-> sp]}
  ELSE IF o = EOF THEN {[w |-> FinW(w), st |-> "zero", os |-> os, sp |-> sp]}        \* WriteZero
  ELSE LET v == View(w.b)
           d == Min(o, Len(v))
           w1 == [w EXCEPT !.sink = @ + d,
                           !.ok = @ /\ (SubSeq(v, 1, d) = Range(w.sink + 1, w.sink + d)),
                           !.tot = IF cfg.mode = "sync" THEN @ + d ELSE 0,   \* poll_flush drops the count
                           !.b = Advance(w.b, d)]
       IN IF AllDone(w1.b) THEN {FlushDone([w1 EXCEPT !.b = Reset(w1.b)], os, sp)}
          ELSE FlushLoop([w1 EXCEPT !.lent = FALSE], os, sp)

\* one poll of the (possibly new) flush_write_buf future; in sync mode: the whole await
PollFlushImpl(w, os, sp) ==
  IF ~w.ff THEN LET w0 == [w EXCEPT !.tot = 0] IN
                IF AllDone(w0.b) THEN {FlushDone(w0, os, sp)}      \* flush_to: nothing to do, Ok(0)
                ELSE FlushLoop(w0, os, sp)
  ELSE IF ~w.rdy THEN {[w |-> [w EXCEPT !.iw = Arr(w)], st |-> "pending", os |-> os, sp |-> sp]}
  ELSE UNION { IF o = PEND
                 THEN {[w |-> [w EXCEPT !.rdy = FALSE, !.iw = Arr(w)], st |-> "pending",
                        os |-> Append(os, o), sp |-> sp]}
                 ELSE FlushStep(w, o, Append(os, o), sp)
               : o \in WOuts }

\* ---------------------------------------------------------------------------
\* async_stream.rs
\* ---------------------------------------------------------------------------
ResolveRead(r, o, os, sp) ==
  IF o = PEND
    THEN [r |-> [r EXCEPT !.fut = TRUE, !.lent = TRUE, !.rdy = FALSE, !.iw = Arr(r)],
          st |-> "pending", n |-> 0, os |-> Append(os, o), sp |-> sp]
    ELSE LET i == InnerRead(r, o)
         IN [r |-> [i.r EXCEPT !.fut = FALSE, !.lent = FALSE, !.rdy = FALSE],
             st |-> i.k, n |-> i.n, os |-> Append(os, o), sp |-> sp]

\* poll_read_impl: WakerArrayRef over the three slots, poll_future!(read_future, fill_read_buf())
PollReadImpl(r, os, sp) ==
  IF ~r.fut THEN
    LET p == FillPrelude(r) IN
      IF p.st = "eof0" THEN {[r |-> p.r, st |-> "ok", n |-> 0, os |-> os, sp |-> sp]}
      ELSE IF p.st = "oom" THEN {[r |-> p.r, st |-> "oom", n |-> 0, os |-> os, sp |-> sp]}
      ELSE {ResolveRead(p.r, o, os, Append(sp, Space(p.r))) : o \in ROuts(p.r)}
  ELSE IF ~r.rdy THEN {[r |-> [r EXCEPT !.iw = Arr(r)], st |-> "pending", n |-> 0, os |-> os, sp |-> sp]}
  ELSE {ResolveRead(r, o, os, sp) : o \in ROuts(r)}

\* the loop of poll_read / poll_read_uninit / poll_fill_buf (poll_future_would_block!)
RECURSIVE PollReadLoop(_, _, _, _, _, _)
PollReadLoop(r, e, n, os, sp, fuel) ==
  IF fuel = 0 THEN {[r |-> r, last |-> Res("livelock", 0, <<>>, os, sp)]}
  ELSE LET s == IF e = "fill"
                  THEN [r |-> r, k |-> SFillBuf(r), n |-> Len(View(r.b)), d |-> View(r.b)]
                  ELSE SRead(r, n)
       IN IF s.k = "ok"
            THEN {[r |-> [s.r EXCEPT !.wk = @ \ {e}], last |-> Res("ok", s.n, s.d, os, sp)]}
            ELSE UNION {
                   IF q.st = "pending"
                     THEN {[r |-> [q.r EXCEPT !.pk = @ \cup {e}], last |-> Res("pending", 0, <<>>, q.os, q.sp)]}
                   ELSE IF q.st = "ok" THEN PollReadLoop(q.r, e, n, q.os, q.sp, fuel - 1)
                   ELSE {[r |-> q.r, last |-> Res(q.st, 0, <<>>, q.os, q.sp)]}    \* ready!(..)?: slot not taken
                   : q \in PollReadImpl(r, os, sp) }

ShutResolve(w, o, os) ==
  IF o = PEND THEN [w |-> [w EXCEPT !.sf = TRUE, !.rdy = FALSE, !.iw = Arr(w)], st |-> "pending", os |-> os]
  ELSE IF o = ERR THEN [w |-> [w EXCEPT !.sf = FALSE, !.rdy = FALSE], st |-> "err", os |-> os]
  ELSE [w |-> [w EXCEPT !.sf = FALSE, !.rdy = FALSE, !.closed = TRUE, !.shut = @ + 1], st |-> "ok", os |-> os]

\* poll_close_impl
PollCloseImpl(w, os) ==
  IF w.closed THEN {[w |-> w, st |-> "ok", os |-> os]}
  ELSE IF w.sf /\ ~w.rdy THEN {[w |-> [w EXCEPT !.iw = Arr(w)], st |-> "pending", os |-> os]}
  ELSE {ShutResolve(w, o, Append(os, o)) : o \in SOuts}

RECURSIVE PollWriteLoop(_, _, _, _, _)
PollWriteLoop(w, n, os, sp, fuel) ==
  IF fuel = 0 THEN {[w |-> w, last |-> Res("livelock", 0, <<>>, os, sp)]}
  ELSE LET s == SWrite(w, n)
       IN IF s.k = "ok" THEN {[w |-> [s.w EXCEPT !.wk = @ \ {"write"}], last |-> Res("ok", s.n, <<>>, os, sp)]}
          ELSE UNION {
                 IF q.st = "pending"
                   THEN {[w |-> [q.w EXCEPT !.pk = @ \cup {"write"}], last |-> Res("pending", 0, <<>>, q.os, q.sp)]}
                 ELSE IF q.st = "ok" THEN PollWriteLoop(q.w, n, q.os, q.sp, fuel - 1)
                 ELSE {[w |-> q.w, last |-> Res(q.st, 0, <<>>, q.os, q.sp)]}
                 : q \in PollFlushImpl(w, os, sp) }

\* "if self.shutdown_future.is_some() { ready!(self.poll_close_impl())?; }" of poll_write / poll_flush;
\* returns the set of [w, st, os] with st = "go" when the method continues
ShutdownGate(w, e) ==
  IF ~w.sf THEN {[w |-> w, st |-> "go", os |-> <<>>]}
  ELSE {[w |-> IF c.st = "pending" THEN [c.w EXCEPT !.pk = @ \cup {e}] ELSE c.w,
         st |-> IF c.st = "ok" THEN "go" ELSE c.st, os |-> c.os] : c \in PollCloseImpl(w, <<>>)}

\* ---------------------------------------------------------------------------
Init == /\ cfg \in {[base |-> c[1], max |-> c[2], mode |-> c[3]] : c \in Cfgs}
        /\ R = [b |-> [beg |-> 0, cap |-> cfg.base, data |-> <<>>], lent |-> FALSE, eof |-> FALSE,
                src |-> 0, out |-> 0, ok |-> TRUE,
                fut |-> FALSE, rdy |-> FALSE, iw |-> {}, wk |-> {}, pk |-> {}]
        /\ W = [b |-> [beg |-> 0, cap |-> cfg.base, data |-> <<>>], lent |-> FALSE,
                acc |-> 0, sink |-> 0, ok |-> TRUE, tot |-> 0,
                ff |-> FALSE, sf |-> FALSE, closed |-> FALSE, shut |-> 0,
                rdy |-> FALSE, iw |-> {}, wk |-> {}, pk |-> {}]
        /\ last = Res("init", 0, <<>>, <<>>, <<>>)

\* ---- blocking-style adapter (SyncStream), read half
Read(n) == /\ cfg.mode = "sync" /\ Side = "r"
           /\ LET s == SRead(R, n) IN R' = s.r /\ last' = Res(s.k, s.n, s.d, <<>>, <<>>)
           /\ UNCHANGED <<cfg, W>>
FillBuf == /\ cfg.mode = "sync" /\ Side = "r"
           /\ last' = (IF SFillBuf(R) = "ok" THEN Res("ok", Len(View(R.b)), View(R.b), <<>>, <<>>)
                       ELSE Res("wb", 0, <<>>, <<>>, <<>>))
           /\ UNCHANGED <<cfg, R, W>>
\* BufRead::consume (both adapters); caller discipline: amt <= what fill_buf returned
Consume(k) == /\ Side = "r" /\ ~R.lent /\ k <= Len(View(R.b))
              /\ R' = SConsume(R, k) /\ last' = Res("ok", k, SubSeq(View(R.b), 1, k), <<>>, <<>>)
              /\ UNCHANGED <<cfg, W>>
FillReadBuf ==
  /\ cfg.mode = "sync" /\ Side = "r"
  /\ LET p == FillPrelude(R) IN
       CASE p.st = "eof0" -> R' = p.r /\ last' = Res("ok", 0, <<>>, <<>>, <<>>)
         [] p.st = "oom"  -> R' = p.r /\ last' = Res("oom", 0, <<>>, <<>>, <<>>)
         [] p.st = "call" -> \E o \in ROuts(p.r) :
                               LET i == InnerRead(p.r, o)
                               IN R' = i.r /\ last' = Res(i.k, i.n, <<>>, <<o>>, <<Space(p.r)>>)
  /\ UNCHANGED <<cfg, W>>

\* ---- blocking-style adapter, write half
Write(n) == /\ cfg.mode = "sync" /\ Side = "w" /\ W.acc + n <= AccBound
            /\ LET s == SWrite(W, n) IN W' = s.w /\ last' = Res(s.k, s.n, <<>>, <<>>, <<>>)
            /\ UNCHANGED <<cfg, R>>
Flush == /\ cfg.mode = "sync" /\ Side = "w"                   \* Write::flush: Ok(()) and nothing else
         /\ last' = Res("ok", 0, <<>>, <<>>, <<>>)
         /\ UNCHANGED <<cfg, R, W>>
FlushWriteBuf ==
  /\ cfg.mode = "sync" /\ Side = "w"
  /\ \E q \in PollFlushImpl(W, <<>>, <<>>) :
        W' = q.w /\ last' = Res(q.st, IF q.st = "ok" THEN q.w.tot ELSE 0, <<>>, q.os, q.sp)
  /\ UNCHANGED <<cfg, R>>

\* ---- poll-style adapter (AsyncStream), read half; e is the entry point = waker slot
PollRd(e, n) ==
  /\ cfg.mode = "async" /\ Side = "r"
  /\ \E x \in PollReadLoop([R EXCEPT !.wk = @ \cup {e}, !.pk = @ \ {e}], e, n, <<>>, <<>>, Fuel) :   \* replace_waker
        R' = x.r /\ last' = x.last
  /\ UNCHANGED <<cfg, W>>
PollRead(n) == PollRd("read", n)
PollReadUninit(n) == PollRd("uninit", n)
PollFillBuf == PollRd("fill", 0)
\* the inner read completes: the stream wakes the waker it was handed at the last Pending poll
RComplete == /\ Side = "r" /\ R.fut /\ ~R.rdy
             /\ R' = [R EXCEPT !.rdy = TRUE, !.pk = @ \ R.iw]
             /\ last' = [Res("wake", 0, <<>>, <<>>, <<>>) EXCEPT !.wake = IF Detail THEN R.iw ELSE {}]
             /\ UNCHANGED <<cfg, W>>

\* ---- poll-style adapter, write half
\* caller discipline: no poll_write / poll_flush after poll_close has returned Ok
PollWrite(n) ==
  /\ cfg.mode = "async" /\ Side = "w" /\ W.acc + n <= AccBound /\ ~W.closed
  /\ \E g \in ShutdownGate([W EXCEPT !.wk = @ \cup {"write"}, !.pk = @ \ {"write"}], "write") :
       IF g.st # "go" THEN W' = g.w /\ last' = Res(g.st, 0, <<>>, g.os, <<>>)
       ELSE \E x \in PollWriteLoop(g.w, n, g.os, <<>>, Fuel) : W' = x.w /\ last' = x.last
  /\ UNCHANGED <<cfg, R>>
PollFlush ==
  /\ cfg.mode = "async" /\ Side = "w" /\ ~W.closed
  /\ \E g \in ShutdownGate([W EXCEPT !.wk = @ \cup {"flush"}, !.pk = @ \ {"flush"}], "flush") :
       IF g.st # "go" THEN W' = g.w /\ last' = Res(g.st, 0, <<>>, g.os, <<>>)
       ELSE \E q \in PollFlushImpl(g.w, g.os, <<>>) :
              IF q.st = "pending"
                THEN W' = [q.w EXCEPT !.pk = @ \cup {"flush"}] /\ last' = Res("pending", 0, <<>>, q.os, q.sp)
                ELSE W' = [q.w EXCEPT !.wk = @ \ {"flush"}] /\ last' = Res(q.st, 0, <<>>, q.os, q.sp)
  /\ UNCHANGED <<cfg, R>>
PollClose ==
  /\ cfg.mode = "async" /\ Side = "w"
  /\ LET w0 == [W EXCEPT !.wk = @ \cup {"close"}, !.pk = @ \ {"close"}]
         \* if self.write_future.is_some() || self.inner.has_pending_write()
         pre == IF w0.ff \/ ~BufIsEmpty(w0.b) THEN PollFlushImpl(w0, <<>>, <<>>)
                ELSE {[w |-> w0, st |-> "ok", os |-> <<>>, sp |-> <<>>]}
     IN \E q \in pre :
          IF q.st = "pending"
            THEN W' = [q.w EXCEPT !.pk = @ \cup {"close"}] /\ last' = Res("pending", 0, <<>>, q.os, q.sp)
          ELSE IF q.st # "ok" THEN W' = q.w /\ last' = Res(q.st, 0, <<>>, q.os, q.sp)
          ELSE \E c \in PollCloseImpl(q.w, q.os) :
                 IF c.st = "pending"
                   THEN W' = [c.w EXCEPT !.pk = @ \cup {"close"}] /\ last' = Res("pending", 0, <<>>, c.os, q.sp)
                   ELSE W' = [c.w EXCEPT !.wk = @ \ {"close"}] /\ last' = Res(c.st, 0, <<>>, c.os, q.sp)
  /\ UNCHANGED <<cfg, R>>
WComplete == /\ Side = "w" /\ (W.ff \/ W.sf) /\ ~W.rdy
             /\ W' = [W EXCEPT !.rdy = TRUE, !.pk = @ \ W.iw]
             /\ last' = [Res("wake", 0, <<>>, <<>>, <<>>) EXCEPT !.wake = IF Detail THEN W.iw ELSE {}]
             /\ UNCHANGED <<cfg, R>>

Next == \/ \E n \in Sizes : Read(n) \/ PollRead(n) \/ PollReadUninit(n) \/ Write(n) \/ PollWrite(n)
        \/ \E k \in Sizes : Consume(k)
        \/ FillBuf \/ FillReadBuf \/ PollFillBuf \/ RComplete
        \/ Flush \/ FlushWriteBuf \/ PollFlush \/ PollClose \/ WComplete

Spec == Init /\ [][Next]_vars

\* configuration sets for the cfg files (the cfg syntax has no tuples): Cfgs <- one of these
Grid(bs, ms, modes) == {<<b, m, md>> : b \in bs, m \in ms, md \in modes}
CfgsSync == Grid({1, 2, 3}, {2, 3, 4}, {"sync"})
CfgsAsync == Grid({1, 2, 3}, {2, 3, 4}, {"async"})
CfgsAsyncDiag == {<<1, 2, "async">>, <<2, 3, "async">>, <<3, 4, "async">>}
CfgsAll == CfgsSync \cup CfgsAsync
CfgsAsyncTwo == {<<1, 2, "async">>, <<2, 3, "async">>}
CfgsQuick == CfgsSync \cup CfgsAsyncTwo
CfgsLive == {<<1, 2, "async">>, <<2, 3, "async">>}
CfgsControls == {<<2, 3, "sync">>, <<1, 2, "async">>}
\* the inner stream eventually completes what it has pending
FairSpec == Spec /\ WF_vars(RComplete) /\ WF_vars(WComplete)

\* ---------------------------------------------------------------------------
\* Contract of the property (C12)
\* ---------------------------------------------------------------------------
\* (a) what came out of read/consume was always the next delivered bytes, and everything
\*     delivered and not yet handed out is still in the buffer, in order: nothing lost,
\*     nothing duplicated
ReadFifo == R.ok /\ View(R.b) = Range(R.out + 1, R.src)
\* (b) the inner stream received the accepted bytes in order, and everything accepted and
\*     not yet received is still in the buffer (also after a failed flush)
WriteFifo == W.ok /\ View(W.b) = Range(W.sink + 1, W.acc)
\* (c) limits: neither the unsent nor the unread buffered bytes ever exceed max_buffer_size
WriteLimit == Len(View(W.b)) <= cfg.max
ReadLimitStrict == Len(View(R.b)) <= cfg.max
\* deviation of the pinned code before commit a1c242c (finding C12-read-limit-overshoot, fixed):
\* fill_read_buf checked len >= max before the read but offered the inner stream all spare room
\* (at least base_capacity), so a fill that started below the limit could end up to base-1 bytes
\* above it.  Only the control configuration (OldReadLimit = TRUE) still has it.
KnownReadOvershoot == OldReadLimit /\ cfg.base > 1 /\ BLen(R.b) <= cfg.max + cfg.base - 1
ReadLimit == ReadLimitStrict \/ KnownReadOvershoot
\* the limit is reported: a fill that starts at or above the limit fails with OutOfMemory and
\* never asks the inner stream (it keeps the data)
LimitReported == last.k = "oom" => (last.os = <<>> /\ Len(View(R.b)) >= cfg.max /\ ~R.fut)
\* (d) wake-ups, safety form: whoever was told Pending is covered by the waker the inner
\*     stream holds for the in-flight future
RWakeCover == R.pk # {} => (R.fut /\ ~R.rdy /\ R.pk \subseteq R.iw)
WWakeCover == W.pk # {} => ((W.ff \/ W.sf) /\ ~W.rdy /\ W.pk \subseteq W.iw)
\* structural sanity of the transcription (debug_asserts and slice bounds of the code)
Sane == /\ BLen(R.b) <= R.b.cap /\ BLen(W.b) <= W.b.cap
        /\ R.b.beg <= BLen(R.b) /\ W.b.beg <= BLen(W.b)
        /\ R.lent = R.fut /\ (W.lent => W.ff)
        /\ ~(W.ff /\ W.sf)                                   \* debug_assert in poll_write/poll_close
        /\ \A i \in DOMAIN last.sp : last.sp[i] >= 1          \* never a zero-room read (would read as EOF)
        /\ last.k # "livelock"
        /\ W.shut <= 1

\* (d) liveness form, checked on FairSpec: every parked entry point is eventually woken
REPS == {"read", "uninit", "fill"}
WEPS == {"write", "flush", "close"}
Woken == /\ \A e \in REPS : (e \in R.pk) ~> (e \notin R.pk)
         /\ \A e \in WEPS : (e \in W.pk) ~> (e \notin W.pk)
=============================================================================
