CONSTANTS
  Cfgs <- CfgsAll
  Side = "r"
  MaxSrc = 7
  MaxAcc = 7
  MaxSrcA = 6
  MaxAccA = 6
  Sizes = {0, 1, 2, 3}
  Ks = {1, 2, 3}
  Fuel = 3
  Detail = FALSE
  OldReadLimit = FALSE
  WakeAll = TRUE
SPECIFICATION Spec
INVARIANTS ReadFifo WriteFifo WriteLimit ReadLimitStrict LimitReported RWakeCover WWakeCover Sane

