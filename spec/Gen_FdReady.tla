---------------------------- MODULE Gen_FdReady ----------------------------
(* Behaviour printer for FdReady (Eager variant): the program is carried as a history variable; with
   VIEW = <<model state, last step>> TLC visits every reachable (state, incoming step) once and Emit prints the
   path that led there: one replayable behaviour per distinct pair (an edge cover of the eager state graph up to
   MaxSteps). Replayed by extra/harness/hx02 bin replay_fd. Each step carries the observation the model expects
   after it: the result of the poll, which wakers have fired since their owner's last poll, kernel readiness. *)
EXTENDS FdReady, Sequences, Json

CONSTANTS MaxSteps

VARIABLES hist

gvars == <<vars, hist>>

\* observation after a step (primed state)
Obs == [wk |-> {w \in W : woken'[w]}, rr |-> Ready("r")', rw |-> Ready("w")']

Step(a, w, k, t, res) == hist' = Append(hist, [a |-> a, w |-> w, k |-> k, t |-> t, res |-> res, x |-> Obs])

GInit == Init /\ hist = <<>>

GNext ==
  /\ Len(hist) < MaxSteps
  /\ \/ \E w \in W, k \in Kinds, t \in TokModes : Start(w, k, t) /\ Step("start", w, k, t, "")
     \/ \E w \in W : PollW(w) /\ Step("poll", w, fkind[w], ftok[w], PollRes(w))
     \/ \E w \in W : DropW(w) /\ Step("drop", w, "", "", "")
     \/ \E w \in W : CancelTok(w) /\ Step("cancel", w, "", "", "")
     \/ PeerWrite /\ Step("pwrite", "", "", "", "")
     \/ PeerShut /\ Step("shut", "", "", "", "")
     \/ Fill /\ Step("fill", "", "", "", "")
     \/ Drain /\ Step("drain", "", "", "", "")
     \/ DrvPoll /\ Step("drv", "", "", "", "")

GSpec == GInit /\ [][GNext]_gvars

Last == IF hist = <<>> THEN [a |-> "", w |-> "", k |-> "", t |-> "", res |-> ""]
        ELSE [a |-> hist[Len(hist)].a, w |-> hist[Len(hist)].w, k |-> hist[Len(hist)].k,
              t |-> hist[Len(hist)].t, res |-> hist[Len(hist)].res]
GView == <<vars, Last>>

Emit == hist # <<>> =>
          PrintT(<<"REPLAY", ToJson([fd |-> "pollfd", only |-> Driver, rw |-> RW, ww |-> WW, steps |-> hist])>>)
=============================================================================
