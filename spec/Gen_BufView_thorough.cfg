CONSTANTS
  Cap = 6
  InitLens = {0, 1, 3, 6}
  Kinds = {"exact", "grow", "fixed"}
  MaxDepth = 3
  MaxSteps = 6
SPECIFICATION GSpec
INVARIANTS Emit
