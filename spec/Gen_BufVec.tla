---------------------------- MODULE Gen_BufVec ----------------------------
(* Behaviour printer for BufVec; replayed by harness bin replay_bufvec. *)
EXTENDS BufVec, Json

VARIABLES hist, lens0
gvars == <<vars, hist, lens0>>

Proj == [p |-> Panics, parts |-> IF Panics THEN <<>> ELSE Parts, lens |-> lens,
         dev |-> KnownDeviation, ok |-> Contract, mem |-> mem, vk |-> view.k]

GInit == Init /\ hist = <<>> /\ lens0 = lens

GNext ==
 /\ UNCHANGED lens0
 /\ \/ \E b \in 0..(TotalCaps + 1) :
         \/ VSlice(b) /\ hist' = Append(hist, [a |-> "vslice", n |-> b, x |-> Proj'])
         \/ VSliceMut(b) /\ hist' = Append(hist, [a |-> "vslicemut", n |-> b, x |-> Proj'])
    \/ OwnedIter /\ hist' = Append(hist, [a |-> "iter", n |-> 0, x |-> Proj'])
    \/ IterNext /\ hist' = Append(hist, [a |-> "next", n |-> 0, x |-> Proj'])
    \/ IntoInner /\ hist' = Append(hist, [a |-> "inner", n |-> 0, x |-> Proj'])
    \/ \E k \in 0..TotalCaps : Fill(k) /\ hist' = Append(hist, [a |-> "fill", n |-> k, x |-> Proj'])

GSpec == GInit /\ [][GNext]_gvars

Emit == steps = MaxSteps =>
          PrintT(<<"REPLAY", ToJson([bufs |-> [j \in Members |-> [cap |-> caps[j], len |-> lens0[j]]], steps |-> hist])>>)
=============================================================================
