SPECIFICATION Spec
CONSTANTS
  MaxFeed = 3
  MaxWinch = 1
  MaxDrop = 1
  Eager = TRUE
  Mut = ""
VIEW View
INVARIANTS
  Emit
