SPECIFICATION Spec
CONSTANTS
  MaxCalls = 3
  MaxFlush = 3
  MaxIntr = 1
  AllowCancel = TRUE
  AllowLie = FALSE
  FixCancel = TRUE
VIEW View
INVARIANTS
  TypeOK
  Conservation
  ConservationStrict
  AfterOk
  WrittenInRange
