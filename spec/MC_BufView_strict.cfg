\* non-vacuity control: without the named deviation the contract must be violated by the model
CONSTANTS
  Cap = 4
  InitLens = {0, 2}
  Kinds = {"exact"}
  MaxDepth = 2
  MaxSteps = 3
SPECIFICATION Spec
INVARIANTS Contract
