\* mailbox / run loop / calls: one actor (spawned in the behaviour), capacity 1 or 2, 2 senders x 2 messages (cast, call, fail), 2 stop calls
CONSTANTS
  Actors = {1}
  Procs = {0, 1, 2}
  Names = {}
  Caps = {1, 2}
  Kinds = {"cast", "call", "fail"}
  Spawners = {0}
  Senders = {1, 2}
  Stoppers = {0}
  Lookers = {}
  GSenders = {}
  Joiners = {}
  Prestarted = {}
  Prejoined = FALSE
  InitialActors = {1}
  Replacements = {}
  MsgsPer = 2
  StopsPer = 2
  LooksPer = 0
  JoinsPer = 0
  SupChoices = {FALSE}
  SupProc = 99
  SupCap = 1
  PreMayFail = FALSE
  PostMayFail = FALSE
  StopHooksMayFail = FALSE
  DrainOnClose = FALSE
  ReportBeforeRelease = FALSE
  ReserveIgnoresStarting = FALSE
SPECIFICATION Spec
INVARIANTS TypeOK SerialFifo Conservation HandlingOnlyWhileRunning HookOrder CallSound RegistrySound FailedStartFreesName SupervisionSound GroupExactlyOne GroupLockSound GroupTriesEachOnce
