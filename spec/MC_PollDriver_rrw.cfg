CONSTANTS
  o1 = o1
  o2 = o2
  o3 = o3
  Ops = {o1, o2, o3}
  Kind <- KindSSS
  FdOf <- FdAll1
  Dir <- DirRRW
  Fds = {1}
  Eager = FALSE
SPECIFICATION Spec
VIEW View
INVARIANTS Safe ArmedIsFront QueuedAreAlive
