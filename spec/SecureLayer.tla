---------------------------- MODULE SecureLayer ----------------------------
(* C15 - the TLS layer of compio-tls over an arbitrary futures-io transport.

   Two endpoints ("c" connector, "s" acceptor).  Each endpoint is
     - an opaque ENGINE (OpenSSL behind native-tls, or a rustls session) that during the
       handshake alternates "has a flight to write" / "needs a flight to read" according to a
       script, afterwards produces application records and one close alert.  Record contents
       are opaque: a record is U transport units carrying the record id;
     - the WRAPPER rules as the code has them, one action per wrapper step, named after it:
         backend "native"  compio-tls/src/compat/common.rs  OpensslInner::{poll_read, poll_write,
                           poll_flush}, AllowStd::with_context (Pending -> WouldBlock)
                           compio-tls/src/compat/native.rs  StartedHandshakeFuture / MidHandshake
                           (resume on WouldBlock), handshake() = finish_handshake + flush,
                           TlsStream::{poll_read, poll_write, poll_flush, poll_close}
         backend "rustls"  compio-tls/src/adapter.rs + stream.rs delegate to futures-rustls 0.26
                           common/mod.rs Stream::{handshake, poll_read, poll_write, poll_flush,
                           poll_close}, common/handshake.rs MidHandshake::poll
     - an application program (the pinned echo test generalised): handshake; the initiator
       writes Payload records, flushes, reads to end of stream, closes; the responder reads
       Payload records, echoes them, flushes, closes, reads the end of stream.
   The TRANSPORT is an in-memory duplex.  Every transport call (poll_read / poll_write /
   poll_flush / poll_close of the inner stream) gets a nondeterministic decision: a per-call
   transfer limit from Limits (0 = all) and Ready or Pending (Pending at most MaxPend times in
   total; a scheduled Pending wakes the caller at once, a read on an empty pipe parks the caller
   until the peer delivers).  In the buffering variant written units are held back until a
   flush succeeds.

   The known deviation of the code (named, see DevRustlsHsFlushLost) sets the ghost variable dev;
   the properties are stated modulo dev and, in the strict configuration, without it (the strict
   run must fail: that is the finding at model level).  FixRustlsHsFlush models its repair.
   The former deviation DevNativeCloseFlushLost was repaired in /repo (commit 05a3075): it is
   now the switch CloseFlushes (TRUE = as the code is), kept FALSE in one control configuration
   that must fail.                                                                            *)
EXTENDS Integers, Sequences, FiniteSets, TLC

CONSTANTS Backends,            \* subset of {"native", "rustls"}
          Shapes,              \* subset of {"t13", "t12"}: who sends the last handshake flight
          Bufferings,          \* subset of BOOLEAN
          Payloads,            \* subset of 0..2: application records per direction
          Inits,               \* subset of {"c", "s"}: the endpoint that talks first
          Limits,              \* subset of {0, 1, 2}: per-call transfer limit in units, 0 = all
          U,                   \* transport units per record
          MaxPend,             \* how many transport calls may return a scheduled Pending
          \* design switches, TRUE = as the code is; FALSE = the breaking change of DESIGN 3/C15 D
          FlushBeforeRead,     \* OpensslInner::poll_read flushes what was written before reading
          PendingIsWouldBlock, \* AllowStd::with_context maps Pending to WouldBlock
          MidResumes,          \* MidHandshake::poll keeps the stream and returns Pending
          FinalFlush,          \* handshake() flushes after finish_handshake()
          CloseFlushes,        \* TlsStream::poll_close flushes the stream after SSL_shutdown (05a3075)
          \* repairs, FALSE = as the code is
          FixRustlsHsFlush     \* Stream::handshake remembers a flush that returned Pending

E == {"c", "s"}
Peer(e) == IF e = "c" THEN "s" ELSE "c"

\* record ids: handshake flights 11..14, application records 21.., close alert, session tickets
App(j) == 20 + j
Alert == 30
Tkt == 40
IsHs(id) == id \in 11..14

Script(sh, e) ==
  IF sh = "t13"
  THEN (IF e = "c" THEN << <<"W", 11>>, <<"R", 12>>, <<"W", 13>> >>
                   ELSE << <<"R", 11>>, <<"W", 12>>, <<"R", 13>>, <<"W", Tkt>> >>)
  ELSE (IF e = "c" THEN << <<"W", 11>>, <<"R", 12>>, <<"W", 13>>, <<"R", 14>> >>
                   ELSE << <<"R", 11>>, <<"W", 12>>, <<"R", 13>>, <<"W", 14>> >>)

Units(id) == [k \in 1..U |-> id]

VARIABLES backend, shape, buffering, payload, init,   \* chosen in Init, then constant
          pc,        \* [E -> application program counter]
          op,        \* [E -> micro state inside the current layer call]
          task,      \* [E -> "run" | "park" | "done"]  (park = returned Pending, not woken)
          sw,        \* [E -> BOOLEAN] wake flag set while the current poll is still running
          hsi,       \* [E -> index of the next handshake script step]
          out,       \* [E -> units the engine still has to hand to the transport]
          inn,       \* [E -> <<id, n>>: n units of record id received so far, <<0,0>> = none]
          sent,      \* [E -> application records fully accepted by the layer]
          written,   \* [E -> OpensslInner.written]
          handshaken,\* [E -> OpensslInner.handshaken]
          loc,       \* [E -> locals of futures-rustls Stream::handshake: nf, wwb, rwb, prog, pf]
          held,      \* [E -> units written by e that the transport holds until flushed]
          wire,      \* [E -> units written by e, readable by the peer]
          teof,      \* [E -> e closed its write side of the transport]
          recv,      \* [E -> sequence of application record numbers delivered to the program]
          eof,       \* [E -> the program saw a clean end of stream]
          budget,    \* scheduled Pendings left
          dev        \* "none" or the name of the known deviation that happened

cfgv == <<backend, shape, buffering, payload, init>>
vars == <<backend, shape, buffering, payload, init, pc, op, task, sw, hsi, out, inn, sent, written,
          handshaken, loc, held, wire, teof, recv, eof, budget, dev>>

Loc0 == [nf |-> FALSE, wwb |-> FALSE, rwb |-> FALSE, prog |-> FALSE, pf |-> FALSE]

\* ---------------------------------------------------------------------------------------
\* engine helpers
\* ---------------------------------------------------------------------------------------
Scr(e) == Script(shape, e)
Handshaking(e) == hsi[e] <= Len(Scr(e))
HeadIs(e, k) == Handshaking(e) /\ Scr(e)[hsi[e]][1] = k

\* rustls produces its output eagerly: all W steps at the head of the script become pending output
RECURSIVE Eager(_, _, _)
Eager(e, i, o) == IF i <= Len(Scr(e)) /\ Scr(e)[i][1] = "W"
                  THEN Eager(e, i + 1, o \o Units(Scr(e)[i][2]))
                  ELSE <<i, o>>

Initiator(e) == e = init
\* program order
NextPc(e, p) ==
  IF Initiator(e)
  THEN CASE p = "hs" -> "write" [] p = "write" -> "flush" [] p = "flush" -> "read"
         [] p = "read" -> "close" [] p = "close" -> "done" [] OTHER -> "done"
  ELSE CASE p = "hs" -> "read" [] p = "read" -> "write" [] p = "write" -> "flush"
         [] p = "flush" -> "close" [] p = "close" -> "readeof" [] p = "readeof" -> "done"
         [] OTHER -> "done"

FirstOp(e, p) == CASE p \in {"write", "close"} -> "idle"
                   [] p \in {"flush", "hsflush"} -> "flushW"
                   [] p \in {"read", "readeof"} -> "rd"
                   [] OTHER -> "idle"

\* ---------------------------------------------------------------------------------------
\* Init
\* ---------------------------------------------------------------------------------------
Init ==
  /\ backend \in Backends /\ shape \in Shapes /\ buffering \in Bufferings
  /\ payload \in Payloads /\ init \in Inits
  /\ pc = [e \in E |-> "hs"]
  /\ task = [e \in E |-> "run"]
  /\ sw = [e \in E |-> FALSE]
  /\ hsi = [e \in E |-> IF backend = "rustls" THEN Eager(e, 1, <<>>)[1] ELSE 1]
  /\ out = [e \in E |-> IF backend = "rustls" THEN Eager(e, 1, <<>>)[2] ELSE <<>>]
  /\ op = [e \in E |-> IF backend = "rustls" THEN "w_io" ELSE "eng"]
  /\ inn = [e \in E |-> <<0, 0>>]
  /\ sent = [e \in E |-> 0]
  /\ written = [e \in E |-> FALSE]
  /\ handshaken = [e \in E |-> FALSE]
  /\ loc = [e \in E |-> Loc0]
  /\ held = [e \in E |-> <<>>]
  /\ wire = [e \in E |-> <<>>]
  /\ teof = [e \in E |-> FALSE]
  /\ recv = [e \in E |-> <<>>]
  /\ eof = [e \in E |-> FALSE]
  /\ budget = MaxPend
  /\ dev = "none"

\* ---------------------------------------------------------------------------------------
\* transport primitives (fragments; each names every variable of the transport group)
\* ---------------------------------------------------------------------------------------
Cap(l, n) == IF l = 0 \/ l > n THEN n ELSE l
Woken(t, p) == [t EXCEPT ![p] = IF @ = "park" THEN "run" ELSE @]
\* the wake flag of the peer's executor slot; it only matters while the peer is inside a poll that
\* goes on after a Pending (Stream::handshake), so it is not tracked elsewhere
WakeFlag(p) == [sw EXCEPT ![p] = @ \/ (backend = "rustls" /\ pc[p] = "hs")]

\* inner.poll_write accepted n units of out[e]
TWrite(e, n) ==
  LET mv == SubSeq(out[e], 1, n) IN
  /\ out' = [out EXCEPT ![e] = SubSeq(@, n + 1, Len(@))]
  /\ IF buffering
     THEN /\ held' = [held EXCEPT ![e] = @ \o mv]
          /\ UNCHANGED <<wire, task, sw>>
     ELSE /\ wire' = [wire EXCEPT ![e] = @ \o mv]
          /\ task' = Woken(task, Peer(e))
          /\ sw' = WakeFlag(Peer(e))
          /\ UNCHANGED held

\* inner.poll_flush succeeded
TFlush(e) ==
  IF held[e] = <<>>
  THEN UNCHANGED <<wire, held, task, sw>>
  ELSE /\ wire' = [wire EXCEPT ![e] = @ \o held[e]]
       /\ held' = [held EXCEPT ![e] = <<>>]
       /\ task' = Woken(task, Peer(e))
       /\ sw' = WakeFlag(Peer(e))

CanPend(p) == p => budget > 0
Spend(p) == budget' = IF p THEN budget - 1 ELSE budget

\* what the engine does with a complete incoming record
Deliver(e, id) ==
  CASE IsHs(id) ->
         \* the flight the script is waiting for
         IF HeadIs(e, "R") /\ Scr(e)[hsi[e]][2] = id
         THEN (IF backend = "rustls"
               THEN /\ hsi' = [hsi EXCEPT ![e] = Eager(e, hsi[e] + 1, <<>>)[1]]
                    /\ out' = [out EXCEPT ![e] = @ \o Eager(e, hsi[e] + 1, <<>>)[2]]
               ELSE /\ hsi' = [hsi EXCEPT ![e] = @ + 1]
                    /\ UNCHANGED out)
              /\ UNCHANGED <<recv, eof>>
         ELSE FALSE
    [] id = Tkt -> UNCHANGED <<hsi, out, recv, eof>>
    [] id = Alert -> eof' = [eof EXCEPT ![e] = TRUE] /\ UNCHANGED <<hsi, out, recv>>
    [] OTHER -> recv' = [recv EXCEPT ![e] = Append(@, id - 20)] /\ UNCHANGED <<hsi, out, eof>>

\* inner.poll_read returned n units (never across a record boundary: the engines ask for what
\* the current record still needs; a smaller transfer is within what a transport may do)
TReadOk(e, l) ==
  LET w == wire[Peer(e)]
      id == Head(w)
      have == IF inn[e][1] = id THEN inn[e][2] ELSE 0
      n == Cap(l, IF U - have < Len(w) THEN U - have ELSE Len(w))
      got == have + n
  IN /\ w # <<>>
     /\ inn[e][1] \in {0, id}                        \* framing: units of a record are contiguous
     /\ \A k \in 1..n : w[k] = id
     /\ wire' = [wire EXCEPT ![Peer(e)] = SubSeq(w, n + 1, Len(w))]
     /\ IF got = U
        THEN inn' = [inn EXCEPT ![e] = <<0, 0>>] /\ Deliver(e, id)
        ELSE inn' = [inn EXCEPT ![e] = <<id, got>>] /\ UNCHANGED <<hsi, out, recv, eof>>

Complete(e, l) ==   \* would this read complete a record, and which
  LET w == wire[Peer(e)]
      id == Head(w)
      have == IF inn[e][1] = id THEN inn[e][2] ELSE 0
      n == Cap(l, IF U - have < Len(w) THEN U - have ELSE Len(w))
  IN IF w # <<>> /\ have + n = U THEN id ELSE 0

Fail(e) == /\ pc' = [pc EXCEPT ![e] = "failed"]
           /\ op' = [op EXCEPT ![e] = "idle"]
           /\ task' = [task EXCEPT ![e] = "done"]

Goto(e, p) == /\ pc' = [pc EXCEPT ![e] = p]
              /\ op' = [op EXCEPT ![e] = FirstOp(e, p)]

\* ---------------------------------------------------------------------------------------
\* backend "native": handshake (StartedHandshakeFuture::poll, then MidHandshake::poll re-entering
\* the OpenSSL state machine where it returned WouldBlock)
\* ---------------------------------------------------------------------------------------
Native(e) == backend = "native" /\ task[e] = "run"

\* the OpenSSL state machine picks its next BIO operation
SSL_do_handshake(e) ==
  /\ Native(e) /\ pc[e] = "hs" /\ op[e] = "eng" /\ Handshaking(e)
  /\ IF HeadIs(e, "W")
     THEN /\ out' = [out EXCEPT ![e] = Units(Scr(e)[hsi[e]][2])]
          /\ hsi' = [hsi EXCEPT ![e] = @ + 1]
          /\ op' = [op EXCEPT ![e] = "bio_write"]
     ELSE /\ op' = [op EXCEPT ![e] = "bio_read"]
          /\ UNCHANGED <<out, hsi>>
  /\ UNCHANGED <<cfgv, pc, task, sw, inn, sent, written, handshaken, loc, held, wire, teof, recv,
                 eof, budget, dev>>

\* AllowStd::write -> OpensslInner::poll_write (handshake flight, application record or alert)
OI_poll_write(e, l, p) ==
  /\ Native(e) /\ op[e] = "bio_write" /\ out[e] # <<>> /\ CanPend(p) /\ Spend(p)
  /\ IF p
     THEN \* AllowStd::with_context: Pending -> WouldBlock; the future returns Pending and is
          \* polled again (the transport woke it), OpenSSL resumes the same BIO write
          IF ~PendingIsWouldBlock \/ (pc[e] = "hs" /\ ~MidResumes)
          THEN Fail(e) /\ UNCHANGED <<out, held, wire, sw, written, sent>>
          ELSE UNCHANGED <<pc, op, task, sw, out, held, wire, written, sent>>
     ELSE /\ TWrite(e, Cap(l, Len(out[e])))
          /\ written' = [written EXCEPT ![e] = TRUE]
          /\ IF Len(out[e]) = Cap(l, Len(out[e]))
             THEN CASE pc[e] = "hs" -> op' = [op EXCEPT ![e] = "bio_flush"] /\ UNCHANGED <<pc, sent>>
                    [] pc[e] = "write" -> /\ op' = [op EXCEPT ![e] = "idle"]
                                          /\ sent' = [sent EXCEPT ![e] = @ + 1]
                                          /\ UNCHANGED pc
                    [] OTHER -> op' = [op EXCEPT ![e] = "shut_flush"] /\ UNCHANGED <<pc, sent>>
             ELSE UNCHANGED <<pc, op, sent>>
  /\ UNCHANGED <<cfgv, hsi, inn, handshaken, loc, teof, recv, eof, dev>>

\* AllowStd::flush -> OpensslInner::poll_flush while handshaking: does nothing (flush deferred)
OI_poll_flush_deferred(e) ==
  /\ Native(e) /\ pc[e] = "hs" /\ op[e] = "bio_flush" /\ ~handshaken[e]
  /\ op' = [op EXCEPT ![e] = "eng"]
  /\ UNCHANGED <<cfgv, pc, task, sw, hsi, out, inn, sent, written, handshaken, loc, held, wire, teof,
                 recv, eof, budget, dev>>

\* AllowStd::read -> OpensslInner::poll_read, first branch: flush what was written
OI_poll_read_flush(e, p) ==
  /\ Native(e) /\ pc[e] = "hs" /\ op[e] = "bio_read"
  /\ FlushBeforeRead /\ ~handshaken[e] /\ written[e]
  /\ CanPend(p) /\ Spend(p)
  /\ IF p
     THEN IF ~PendingIsWouldBlock \/ ~MidResumes
          THEN Fail(e) /\ UNCHANGED <<held, wire, sw, written>>
          ELSE UNCHANGED <<pc, op, task, sw, held, wire, written>>
     ELSE /\ TFlush(e)
          /\ written' = [written EXCEPT ![e] = FALSE]
          /\ UNCHANGED <<pc, op>>
  /\ UNCHANGED <<cfgv, hsi, out, inn, sent, handshaken, loc, teof, recv, eof, dev>>

\* OpensslInner::poll_read, second branch: read from the transport (handshake)
OI_poll_read_hs(e, l, p) ==
  /\ Native(e) /\ pc[e] = "hs" /\ op[e] = "bio_read"
  /\ ~(FlushBeforeRead /\ ~handshaken[e] /\ written[e])
  /\ CanPend(p) /\ Spend(p)
  /\ IF p
     THEN IF ~PendingIsWouldBlock \/ ~MidResumes
          THEN Fail(e) /\ UNCHANGED <<wire, inn, hsi, out, recv, eof, sw>>
          ELSE UNCHANGED <<pc, op, task, wire, inn, hsi, out, recv, eof, sw>>
     ELSE IF wire[Peer(e)] = <<>>
          THEN \* the transport registered the waker: WouldBlock, MidHandshake returns Pending
               /\ task' = [task EXCEPT ![e] = IF MidResumes THEN "park" ELSE "done"]
               /\ pc' = [pc EXCEPT ![e] = IF MidResumes THEN @ ELSE "failed"]
               /\ UNCHANGED <<op, wire, inn, hsi, out, recv, eof, sw>>
          ELSE /\ TReadOk(e, l)
               /\ op' = [op EXCEPT ![e] = IF IsHs(Complete(e, l)) THEN "eng" ELSE @]
               /\ UNCHANGED <<pc, task, sw>>
  /\ UNCHANGED <<cfgv, sent, written, handshaken, loc, held, teof, dev>>

\* MidHandshake resolved: handshake() calls finish_handshake() and then flushes the stream
Mid_Ready_finish_handshake(e) ==
  /\ Native(e) /\ pc[e] = "hs" /\ op[e] = "eng" /\ ~Handshaking(e)
  /\ handshaken' = [handshaken EXCEPT ![e] = TRUE]
  /\ IF FinalFlush THEN Goto(e, "hsflush") ELSE Goto(e, NextPc(e, "hs"))
  /\ UNCHANGED <<cfgv, task, sw, hsi, out, inn, sent, written, loc, held, wire, teof, recv, eof,
                 budget, dev>>

\* ---------------------------------------------------------------------------------------
\* both backends: flush (TlsStream::poll_flush; Stream::poll_flush first drains the session)
\* ---------------------------------------------------------------------------------------
AfterFlushPc(e) == IF pc[e] = "hsflush" THEN NextPc(e, "hs") ELSE NextPc(e, "flush")

Flush_write_io(e, l, p) ==
  /\ task[e] = "run" /\ pc[e] \in {"hsflush", "flush"} /\ op[e] = "flushW" /\ out[e] # <<>>
  /\ CanPend(p) /\ Spend(p)
  /\ IF p THEN UNCHANGED <<out, held, wire, task, sw>>
          ELSE TWrite(e, Cap(l, Len(out[e])))
  /\ UNCHANGED <<cfgv, pc, op, hsi, inn, sent, written, handshaken, loc, teof, recv, eof, dev>>

Flush_write_io_done(e) ==
  /\ task[e] = "run" /\ pc[e] \in {"hsflush", "flush"} /\ op[e] = "flushW" /\ out[e] = <<>>
  /\ op' = [op EXCEPT ![e] = "flushF"]
  /\ UNCHANGED <<cfgv, pc, task, sw, hsi, out, inn, sent, written, handshaken, loc, held, wire, teof,
                 recv, eof, budget, dev>>

Flush_inner_poll_flush(e, p) ==
  /\ task[e] = "run" /\ pc[e] \in {"hsflush", "flush"} /\ op[e] = "flushF"
  /\ CanPend(p) /\ Spend(p)
  /\ IF p THEN UNCHANGED <<pc, op, held, wire, task, sw>>
          ELSE TFlush(e) /\ Goto(e, AfterFlushPc(e))
  /\ UNCHANGED <<cfgv, hsi, out, inn, sent, written, handshaken, loc, teof, recv, eof, dev>>

\* ---------------------------------------------------------------------------------------
\* both backends: application reads (TlsStream::poll_read). After the handshake
\* OpensslInner::poll_read goes straight to the transport.
\* ---------------------------------------------------------------------------------------
ReadDone(e) ==   \* read_exact(0 bytes) of the responder returns without touching the layer
  /\ task[e] = "run" /\ pc[e] = "read" /\ op[e] = "rd" /\ ~Initiator(e) /\ Len(recv[e]) = payload
  /\ Goto(e, NextPc(e, "read"))
  /\ UNCHANGED <<cfgv, task, sw, hsi, out, inn, sent, written, handshaken, loc, held, wire, teof,
                 recv, eof, budget, dev>>

TS_poll_read(e, l, p) ==
  /\ task[e] = "run" /\ pc[e] \in {"read", "readeof"} /\ op[e] = "rd"
  /\ ~(pc[e] = "read" /\ ~Initiator(e) /\ Len(recv[e]) = payload)
  /\ CanPend(p) /\ Spend(p)
  /\ IF p
     THEN UNCHANGED <<pc, op, task, wire, inn, hsi, out, recv, eof, sw>>
     ELSE IF wire[Peer(e)] = <<>>
          THEN IF teof[Peer(e)]
               THEN Fail(e) /\ UNCHANGED <<wire, inn, hsi, out, recv, eof, sw>>   \* truncation
               ELSE /\ task' = [task EXCEPT ![e] = "park"]
                    /\ UNCHANGED <<pc, op, wire, inn, hsi, out, recv, eof, sw>>
          ELSE /\ TReadOk(e, l)
               /\ LET id == Complete(e, l) IN
                  CASE id = Alert ->
                         IF pc[e] = "readeof" \/ Initiator(e)
                         THEN Goto(e, NextPc(e, pc[e])) /\ UNCHANGED <<task, sw>>
                         ELSE Fail(e) /\ UNCHANGED sw               \* end of stream inside read_exact
                    [] id > 20 /\ id < 30 ->
                         IF pc[e] = "readeof"
                         THEN Fail(e) /\ UNCHANGED sw               \* data after the echo
                         ELSE IF ~Initiator(e) /\ Len(recv[e]) + 1 = payload
                              THEN Goto(e, NextPc(e, "read")) /\ UNCHANGED <<task, sw>>
                              ELSE UNCHANGED <<pc, op, task, sw>>
                    [] OTHER -> UNCHANGED <<pc, op, task, sw>>
  /\ UNCHANGED <<cfgv, sent, written, handshaken, loc, held, teof, dev>>

\* ---------------------------------------------------------------------------------------
\* backend "native": application write and close
\* ---------------------------------------------------------------------------------------
\* TlsStream::poll_write -> SSL_write encrypts one record (write_all loops over the records)
SSL_write(e) ==
  /\ Native(e) /\ pc[e] = "write" /\ op[e] = "idle"
  /\ IF sent[e] = payload
     THEN Goto(e, NextPc(e, "write")) /\ UNCHANGED out
     ELSE /\ out' = [out EXCEPT ![e] = Units(App(sent[e] + 1))]
          /\ op' = [op EXCEPT ![e] = "bio_write"]
          /\ UNCHANGED pc
  /\ UNCHANGED <<cfgv, task, sw, hsi, inn, sent, written, handshaken, loc, held, wire, teof, recv, eof,
                 budget, dev>>

\* TlsStream::poll_close -> SSL_shutdown queues the close alert
SSL_shutdown(e) ==
  /\ Native(e) /\ pc[e] = "close" /\ op[e] = "idle"
  /\ out' = [out EXCEPT ![e] = Units(Alert)]
  /\ op' = [op EXCEPT ![e] = "bio_write"]
  /\ UNCHANGED <<cfgv, pc, task, sw, hsi, inn, sent, written, handshaken, loc, held, wire, teof, recv,
                 eof, budget, dev>>

\* SSL_shutdown flushes the BIO after the alert and IGNORES the result (ssl3_dispatch_alert).
\* Before commit 05a3075 poll_close mapped the successful SSL_shutdown to Ready(Ok) and never
\* flushed again: a transport whose poll_flush returned Pending at that moment kept the close
\* alert, the peer never saw the end of the stream although close() reported success
\* (CloseFlushes = FALSE, control configuration). Since the repair poll_close remembers that the
\* alert is out and drives a flush of the stream to completion (TS_poll_close_flush).
DevNativeCloseFlushLost(e) == buffering /\ held[e] # <<>>

SSL_shutdown_BIO_flush(e, p) ==
  /\ Native(e) /\ pc[e] = "close" /\ op[e] = "shut_flush"
  /\ CanPend(p) /\ Spend(p)
  /\ IF p THEN UNCHANGED <<held, wire, task, sw>> ELSE TFlush(e)
  /\ IF CloseFlushes
     THEN op' = [op EXCEPT ![e] = "close_flush"] /\ UNCHANGED <<pc, dev>>
     ELSE /\ Goto(e, NextPc(e, "close"))
          /\ dev' = IF p /\ DevNativeCloseFlushLost(e) /\ dev = "none"
                    THEN "native_close_flush_lost" ELSE dev
  /\ UNCHANGED <<cfgv, hsi, out, inn, sent, written, handshaken, loc, teof, recv, eof>>

\* TlsStream::poll_close after the alert is out: with_context(|s| s.get_mut().flush()); a Pending
\* flush makes poll_close return Pending, the next poll skips SSL_shutdown and flushes again
TS_poll_close_flush(e, p) ==
  /\ Native(e) /\ pc[e] = "close" /\ op[e] = "close_flush"
  /\ CanPend(p) /\ Spend(p)
  /\ IF p THEN UNCHANGED <<pc, op, held, wire, task, sw>>
          ELSE TFlush(e) /\ Goto(e, NextPc(e, "close"))
  /\ UNCHANGED <<cfgv, hsi, out, inn, sent, written, handshaken, loc, teof, recv, eof, dev>>

\* ---------------------------------------------------------------------------------------
\* backend "rustls": futures-rustls Stream::handshake driven by MidHandshake::poll
\* ---------------------------------------------------------------------------------------
Rustls(e) == backend = "rustls" /\ task[e] = "run"
WantsRead(e) == Handshaking(e) /\ out[e] = <<>> /\ HeadIs(e, "R")
AfterWrite(e, nf) == IF nf THEN "h_flush" ELSE "r_io"

\* while session.wants_write() { write_io }
RS_hs_write_io(e, l, p) ==
  /\ Rustls(e) /\ pc[e] = "hs" /\ op[e] = "w_io" /\ out[e] # <<>>
  /\ CanPend(p) /\ Spend(p)
  /\ IF p
     THEN /\ loc' = [loc EXCEPT ![e].wwb = TRUE]
          /\ sw' = [sw EXCEPT ![e] = TRUE]
          /\ op' = [op EXCEPT ![e] = AfterWrite(e, loc[e].nf)]
          /\ UNCHANGED <<out, held, wire, task>>
     ELSE /\ TWrite(e, Cap(l, Len(out[e])))
          /\ loc' = [loc EXCEPT ![e].nf = TRUE, ![e].prog = TRUE]
          /\ UNCHANGED op
  /\ UNCHANGED <<cfgv, pc, hsi, inn, sent, written, handshaken, teof, recv, eof, dev>>

RS_hs_write_io_done(e) ==
  /\ Rustls(e) /\ pc[e] = "hs" /\ op[e] = "w_io" /\ out[e] = <<>>
  /\ op' = [op EXCEPT ![e] = AfterWrite(e, loc[e].nf)]
  /\ UNCHANGED <<cfgv, pc, task, sw, hsi, out, inn, sent, written, handshaken, loc, held, wire, teof,
                 recv, eof, budget, dev>>

\* if need_flush { io.poll_flush }   - Pending only sets write_would_block; need_flush is a local
RS_hs_flush(e, p) ==
  /\ Rustls(e) /\ pc[e] = "hs" /\ op[e] = "h_flush"
  /\ CanPend(p) /\ Spend(p)
  /\ IF p
     THEN /\ loc' = [loc EXCEPT ![e].wwb = TRUE, ![e].pf = TRUE]
          /\ sw' = [sw EXCEPT ![e] = TRUE]
          /\ UNCHANGED <<held, wire, task>>
     ELSE /\ TFlush(e)
          /\ loc' = [loc EXCEPT ![e].pf = FALSE]
  /\ op' = [op EXCEPT ![e] = "r_io"]
  /\ UNCHANGED <<cfgv, pc, hsi, out, inn, sent, written, handshaken, teof, recv, eof, dev>>

\* while !eof && session.wants_read() { read_io }
RS_hs_read_io(e, l, p) ==
  /\ Rustls(e) /\ pc[e] = "hs" /\ op[e] = "r_io" /\ WantsRead(e)
  /\ CanPend(p) /\ Spend(p)
  /\ IF p
     THEN /\ loc' = [loc EXCEPT ![e].rwb = TRUE]
          /\ sw' = [sw EXCEPT ![e] = TRUE]
          /\ op' = [op EXCEPT ![e] = "ret"]
          /\ UNCHANGED <<wire, inn, hsi, out, recv, eof, task>>
     ELSE IF wire[Peer(e)] = <<>>
          THEN /\ loc' = [loc EXCEPT ![e].rwb = TRUE]     \* waker registered by the transport
               /\ op' = [op EXCEPT ![e] = "ret"]
               /\ UNCHANGED <<wire, inn, hsi, out, recv, eof, sw, task>>
          ELSE /\ TReadOk(e, l)
               /\ loc' = [loc EXCEPT ![e].prog = TRUE]
               /\ UNCHANGED <<op, sw, task>>
  /\ UNCHANGED <<cfgv, pc, sent, written, handshaken, held, teof, dev>>

RS_hs_read_io_done(e) ==
  /\ Rustls(e) /\ pc[e] = "hs" /\ op[e] = "r_io" /\ ~WantsRead(e)
  /\ op' = [op EXCEPT ![e] = "ret"]
  /\ UNCHANGED <<cfgv, pc, task, sw, hsi, out, inn, sent, written, handshaken, loc, held, wire, teof,
                 recv, eof, budget, dev>>

\* KNOWN DEVIATION (futures-rustls 0.26.0 common/mod.rs Stream::handshake): need_flush is a local
\* of one call; when io.poll_flush returned Pending the next call does not flush again, so the
\* flight stays in a transport that holds data back until flushed, and both sides wait.
DevRustlsHsFlushLost(e) == loc[e].pf /\ buffering /\ held[e] # <<>>

\* the match at the end of Stream::handshake and the loop of MidHandshake::poll around it
RS_hs_return(e) ==
  /\ Rustls(e) /\ pc[e] = "hs" /\ op[e] = "ret"
  /\ LET L == loc[e]
         again == [Loc0 EXCEPT !.nf = (FixRustlsHsFlush /\ L.pf), !.pf = (FixRustlsHsFlush /\ L.pf)]
         lost == DevRustlsHsFlushLost(e) /\ ~FixRustlsHsFlush
     IN
     IF ~Handshaking(e)
     THEN \* (_, false) => Ready: MidHandshake::poll leaves its loop and flushes the stream
          /\ Goto(e, "hsflush")
          /\ loc' = [loc EXCEPT ![e] = Loc0]
          /\ sw' = [sw EXCEPT ![e] = FALSE]
          /\ UNCHANGED <<task, dev>>
     ELSE IF L.wwb \/ L.rwb
          THEN /\ dev' = IF lost /\ dev = "none" THEN "rustls_hs_flush_lost" ELSE dev
               /\ loc' = [loc EXCEPT ![e] = again]
               /\ op' = [op EXCEPT ![e] = "w_io"]
               /\ UNCHANGED pc
               /\ IF L.prog
                  THEN UNCHANGED <<task, sw>>          \* Ready(Ok(..)): called again in the same poll
                  ELSE /\ task' = [task EXCEPT ![e] = IF sw[e] THEN "run" ELSE "park"]   \* Pending
                       /\ sw' = [sw EXCEPT ![e] = FALSE]
          ELSE \* continue
               /\ loc' = [loc EXCEPT ![e].nf = FALSE, ![e].wwb = FALSE, ![e].rwb = FALSE]
               /\ op' = [op EXCEPT ![e] = "w_io"]
               /\ UNCHANGED <<pc, task, sw, dev>>
  /\ UNCHANGED <<cfgv, hsi, out, inn, sent, written, handshaken, held, wire, teof, recv, eof, budget>>

\* ---------------------------------------------------------------------------------------
\* backend "rustls": application write and close
\* ---------------------------------------------------------------------------------------
RECURSIVE AppUnits(_, _)
AppUnits(a, b) == IF a > b THEN <<>> ELSE Units(App(a)) \o AppUnits(a + 1, b)

\* Stream::poll_write: the session takes the whole buffer, then write_io while wants_write
RS_poll_write_accept(e) ==
  /\ Rustls(e) /\ pc[e] = "write" /\ op[e] = "idle"
  /\ IF sent[e] = payload
     THEN Goto(e, NextPc(e, "write")) /\ UNCHANGED <<out, sent>>
     ELSE /\ out' = [out EXCEPT ![e] = @ \o AppUnits(sent[e] + 1, payload)]
          /\ sent' = [sent EXCEPT ![e] = payload]
          /\ op' = [op EXCEPT ![e] = "w_io"]
          /\ UNCHANGED pc
  /\ UNCHANGED <<cfgv, task, sw, hsi, inn, written, handshaken, loc, held, wire, teof, recv, eof,
                 budget, dev>>

RS_poll_write_io(e, l, p) ==
  /\ Rustls(e) /\ pc[e] = "write" /\ op[e] = "w_io" /\ out[e] # <<>>
  /\ CanPend(p) /\ Spend(p)
  /\ IF p
     THEN \* (n, true) => Ready(Ok(n)): write_all is complete, the rest waits for flush
          Goto(e, NextPc(e, "write")) /\ UNCHANGED <<out, held, wire, task, sw>>
     ELSE TWrite(e, Cap(l, Len(out[e]))) /\ UNCHANGED <<pc, op>>
  /\ UNCHANGED <<cfgv, hsi, inn, sent, written, handshaken, loc, teof, recv, eof, dev>>

RS_poll_write_io_done(e) ==
  /\ Rustls(e) /\ pc[e] = "write" /\ op[e] = "w_io" /\ out[e] = <<>>
  /\ Goto(e, NextPc(e, "write"))
  /\ UNCHANGED <<cfgv, task, sw, hsi, out, inn, sent, written, handshaken, loc, held, wire, teof,
                 recv, eof, budget, dev>>

\* TlsStream::poll_close: send_close_notify, drain the session, io.poll_close
RS_send_close_notify(e) ==
  /\ Rustls(e) /\ pc[e] = "close" /\ op[e] = "idle"
  /\ out' = [out EXCEPT ![e] = @ \o Units(Alert)]
  /\ op' = [op EXCEPT ![e] = "w_io"]
  /\ UNCHANGED <<cfgv, pc, task, sw, hsi, inn, sent, written, handshaken, loc, held, wire, teof, recv,
                 eof, budget, dev>>

RS_close_write_io(e, l, p) ==
  /\ Rustls(e) /\ pc[e] = "close" /\ op[e] = "w_io" /\ out[e] # <<>>
  /\ CanPend(p) /\ Spend(p)
  /\ IF p THEN UNCHANGED <<out, held, wire, task, sw>>
          ELSE TWrite(e, Cap(l, Len(out[e])))
  /\ UNCHANGED <<cfgv, pc, op, hsi, inn, sent, written, handshaken, loc, teof, recv, eof, dev>>

RS_close_write_io_done(e) ==
  /\ Rustls(e) /\ pc[e] = "close" /\ op[e] = "w_io" /\ out[e] = <<>>
  /\ op' = [op EXCEPT ![e] = "io_close"]
  /\ UNCHANGED <<cfgv, pc, task, sw, hsi, out, inn, sent, written, handshaken, loc, held, wire, teof,
                 recv, eof, budget, dev>>

RS_io_poll_close(e, p) ==
  /\ Rustls(e) /\ pc[e] = "close" /\ op[e] = "io_close"
  /\ CanPend(p) /\ Spend(p)
  /\ IF p THEN UNCHANGED <<pc, op, held, wire, task, sw, teof>>
          ELSE \* the end of the stream is news for a parked reader as well
               /\ wire' = [wire EXCEPT ![e] = @ \o held[e]]
               /\ held' = [held EXCEPT ![e] = <<>>]
               /\ task' = Woken(task, Peer(e))
               /\ sw' = WakeFlag(Peer(e))
               /\ teof' = [teof EXCEPT ![e] = TRUE]
               /\ Goto(e, NextPc(e, "close"))
  /\ UNCHANGED <<cfgv, hsi, out, inn, sent, written, handshaken, loc, recv, eof, dev>>

\* ---------------------------------------------------------------------------------------
\* the program is finished
\* ---------------------------------------------------------------------------------------
Finish(e) ==
  /\ task[e] = "run" /\ pc[e] = "done"
  /\ task' = [task EXCEPT ![e] = "done"]
  /\ UNCHANGED <<cfgv, pc, op, sw, hsi, out, inn, sent, written, handshaken, loc, held, wire, teof,
                 recv, eof, budget, dev>>

\* ---------------------------------------------------------------------------------------
\* next-state relation: control steps and transport steps (with the decision of the transport)
\* ---------------------------------------------------------------------------------------
\* steps that read and write only the endpoint's own state
Local(e) == \/ SSL_do_handshake(e) \/ OI_poll_flush_deferred(e) \/ Mid_Ready_finish_handshake(e)
            \/ ReadDone(e) \/ SSL_write(e) \/ SSL_shutdown(e) \/ Flush_write_io_done(e)
            \/ RS_hs_write_io_done(e) \/ RS_hs_read_io_done(e)
            \/ RS_poll_write_accept(e) \/ RS_poll_write_io_done(e)
            \/ RS_send_close_notify(e) \/ RS_close_write_io_done(e)
            \/ Finish(e)
\* control step that reads the wake flag the peer may set
Ctl(e) == Local(e) \/ RS_hs_return(e)

\* transport calls that move data: the transport decides limit l and Pending p
TrSized(e, l, p) == \/ OI_poll_write(e, l, p)
                    \/ OI_poll_read_hs(e, l, p)
                    \/ Flush_write_io(e, l, p)
                    \/ TS_poll_read(e, l, p)
                    \/ RS_hs_write_io(e, l, p)
                    \/ RS_hs_read_io(e, l, p)
                    \/ RS_poll_write_io(e, l, p)
                    \/ RS_close_write_io(e, l, p)
\* poll_flush / poll_close of the transport: only Pending or Ready
TrFlush(e, p) == \/ OI_poll_read_flush(e, p)
                 \/ Flush_inner_poll_flush(e, p)
                 \/ SSL_shutdown_BIO_flush(e, p)
                 \/ TS_poll_close_flush(e, p)
                 \/ RS_hs_flush(e, p)
                 \/ RS_io_poll_close(e, p)

Step(e) == \/ Ctl(e)
           \/ \E l \in Limits, p \in BOOLEAN : TrSized(e, l, p)
           \/ \E p \in BOOLEAN : TrFlush(e, p)

AllDone == \A e \in E : task[e] = "done"
Stuck == ~AllDone /\ \A e \in E : task[e] # "run"
Terminal == AllDone \/ Stuck

Next == (\E e \in E : Step(e)) \/ (Terminal /\ UNCHANGED vars)


Spec == Init /\ [][Next]_vars
FairSpec == Spec /\ \A e \in E : WF_vars(Step(e))

\* ---------------------------------------------------------------------------------------
\* properties
\* ---------------------------------------------------------------------------------------
States == {"hs", "hsflush", "write", "flush", "read", "close", "readeof", "done", "failed"}
TypeOK ==
  /\ pc \in [E -> States] /\ task \in [E -> {"run", "park", "done"}]
  /\ budget \in 0..MaxPend /\ dev \in {"none", "native_close_flush_lost", "rustls_hs_flush_lost"}
  /\ \A e \in E : /\ Len(out[e]) <= 3 * U + 2 * U /\ sent[e] \in 0..payload
                  /\ inn[e][2] \in 0..(U - 1) /\ Len(recv[e]) <= payload

Known == dev # "none"

\* both sides wait (typically to read) and nobody will wake them - with or without unflushed data
NoDeadlock == Stuck => Known
NoDeadlockStrict == ~Stuck
\* the sharper form named in the property: waiting while data sits unflushed somewhere
NoWaitOnUnflushed == (Stuck /\ \E e \in E : held[e] # <<>> \/ out[e] # <<>>) => Known

NoFailure == \A e \in E : pc[e] # "failed"
\* since the repair of poll_close (05a3075) the native backend has no exempted deviation left
NativeClean == (backend = "native" /\ CloseFlushes) => dev = "none"

\* application data: in order, exactly once (a prefix of 1..payload at any time)
InOrderExactlyOnce == \A e \in E : recv[e] = [k \in 1..Len(recv[e]) |-> k]

\* a finished run delivered everything, both sides saw a clean end of stream, nothing is left
\* in the engine or in the transport
CleanClose ==
  AllDone => (Known \/ /\ \A e \in E : /\ pc[e] = "done" /\ eof[e] /\ Len(recv[e]) = payload
                                       /\ out[e] = <<>> /\ held[e] = <<>> /\ wire[e] = <<>>
                                       /\ inn[e] = <<0, 0>>)
CleanCloseStrict ==
  AllDone => \A e \in E : /\ pc[e] = "done" /\ eof[e] /\ Len(recv[e]) = payload
                          /\ out[e] = <<>> /\ held[e] = <<>> /\ wire[e] = <<>>

\* a program that went past close() reported success: the alert must not be dropped
NoBufferedDataDropped == \A e \in E : (pc[e] \in {"readeof", "done"} /\ held[e] # <<>>) => Known

\* the handshake is over for both => every flight was delivered and both shims are "handshaken"
HandshakeAgreement ==
  \A e \in E : pc[e] \notin {"hs", "failed"} => ~Handshaking(e)

\* ---- no livelock: every step strictly decreases a natural-valued measure -----------------
WSteps(e) == Cardinality({k \in hsi[e]..Len(Scr(e)) : Scr(e)[k][1] = "W"})
AlertTodo(e) == pc[e] \in {"hs", "hsflush", "write", "flush", "read"} \/ (pc[e] = "close" /\ op[e] = "idle")
AppTodo(e) == payload - sent[e] - (IF backend = "native" /\ pc[e] = "write" /\ op[e] = "bio_write" THEN 1 ELSE 0)
Unproduced(e) == U * (WSteps(e) + AppTodo(e) + (IF AlertTodo(e) THEN 1 ELSE 0))
\* units the peer will still consume count on their way: 4 not produced, 3 engine, 2 held, 1 wire
Work == LET S(f) == f["c"] + f["s"] IN
        4 * (Unproduced("c") + Unproduced("s")) + 3 * (Len(out["c"]) + Len(out["s"]))
        + 2 * (Len(held["c"]) + Len(held["s"])) + Len(wire["c"]) + Len(wire["s"])
PcRank(e) == CASE pc[e] = "hs" -> 8 [] pc[e] = "hsflush" -> 7
               [] pc[e] = "done" -> 0 [] pc[e] = "failed" -> 0
               [] Initiator(e) -> (CASE pc[e] = "write" -> 6 [] pc[e] = "flush" -> 5 [] pc[e] = "read" -> 4
                                     [] pc[e] = "close" -> 3 [] OTHER -> 1)
               [] OTHER -> (CASE pc[e] = "read" -> 6 [] pc[e] = "write" -> 5 [] pc[e] = "flush" -> 4
                              [] pc[e] = "close" -> 3 [] pc[e] = "readeof" -> 2 [] OTHER -> 1)
OpRank(e) == CASE op[e] = "eng" -> 3 [] op[e] = "bio_write" -> 2 [] op[e] = "bio_flush" -> 4
               [] op[e] = "bio_read" -> 2 [] op[e] = "shut_flush" -> 2 [] op[e] = "close_flush" -> 1
               [] op[e] = "idle" -> 9 [] op[e] = "flushW" -> 2 [] op[e] = "flushF" -> 1
               [] op[e] = "rd" -> 1 [] op[e] = "io_close" -> 1
               [] op[e] = "w_io" -> (IF out[e] = <<>> THEN 8 ELSE 2)
               [] op[e] = "h_flush" -> 7 [] op[e] = "r_io" -> 6
               [] op[e] = "ret" -> (IF out[e] = <<>> THEN 5 ELSE 4)
               [] OTHER -> 0
EffOp(e) == IF task[e] = "run" THEN OpRank(e) + 1 ELSE 0
Measure == 10000 * Work + 1000 * budget
           + 1000 * ((IF teof["c"] THEN 0 ELSE 1) + (IF teof["s"] THEN 0 ELSE 1))
           + 400 * ((IF sw["c"] THEN 1 ELSE 0) + (IF sw["s"] THEN 1 ELSE 0))
           + 50 * ((IF loc["c"].prog THEN 1 ELSE 0) + (IF loc["s"].prog THEN 1 ELSE 0))
           + 10 * (PcRank("c") + PcRank("s")) + EffOp("c") + EffOp("s")
           + 5 * ((IF written["c"] THEN 1 ELSE 0) + (IF written["s"] THEN 1 ELSE 0))
           + 20 * ((IF task["c"] = "done" THEN 0 ELSE 1) + (IF task["s"] = "done" THEN 0 ELSE 1))
Progress == [][Measure' < Measure]_vars

\* ---- liveness on the fair specification --------------------------------------------------
HandshakeCompletes == <>(Known \/ \A e \in E : pc[e] \notin {"hs", "hsflush"})
CloseCompletes == <>(Known \/ (AllDone /\ \A e \in E : pc[e] = "done"))
HandshakeCompletesStrict == <>(\A e \in E : pc[e] \notin {"hs", "hsflush"})
CloseCompletesStrict == <>(AllDone /\ \A e \in E : pc[e] = "done")
=============================================================================
