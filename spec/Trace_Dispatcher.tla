-------------------------- MODULE Trace_Dispatcher --------------------------
(* C18 - validation of histories recorded from the REAL compio Dispatcher
   (harness/hdisp/src/bin/record_dispatcher.rs) against the actions of Dispatcher.tla.

   The trace is ndjson, one event per line in the order of a global atomic sequence number
   taken at the logging point; many runs are concatenated, each starts with a `reset` event
   that carries the run's configuration.  Logged events (all written by the closures and the
   calling threads themselves, no hook in the code under test):

     reset  nw concurrent fault       new dispatcher
     dcall  id s k                    thread s is about to call dispatch (k = "async") or
                                      dispatch_blocking (k = "blocking") with closure id
     dret   id s r                    the call returned: r = "accepted" | "rejected"
     intact id                        the closure handed back by DispatchError is the one sent
     start  id w                      closure id was called; w = worker index (1..nw) of the
                                      calling thread, 0 = not a worker thread of this dispatcher
     finish id                        the body is about to return its value
     panic  id                        the body is about to panic
     recv   id r                      the caller's receiver resolved: r = "ok" | "canceled"
     rdrop  id                        the caller dropped the receiver unresolved (fire and forget)
     jcall / jret r                   join called / returned "ok" or resumed a "panic"
     wpanic w                         panic hook: worker thread w starts to unwind (not a body panic)
     wexit  w                         a thread-local destructor of worker w ran (thread is ending)

   Every event is one action of Dispatcher.tla (or a check on its state); everything the threads
   do unobserved in between (channel send, pop + spawn, await completion, loop end, leaving
   block_on, runtime drop / thread end, the joiner) is a silent step, taken any number of times
   between two events.  A dcall ... dret pair with the silent DispatchSend in between lets TLC
   choose the linearization point of the dispatch.  The history is accepted iff SOME interleaving
   of silent steps explains every event: register 1 holds the furthest cursor reached.

   Pool capacity is not validated here (C17): the limit is "unbounded" (cfg.pool = 99).         *)
EXTENDS Dispatcher, Json, IOUtils

Rec == ndJsonDeserialize(IOEnv.TRACE)
N   == Len(Rec)

VARIABLE l          \* cursor: index of the next event to explain

tvars == <<vars, l>>

Max2(a, b) == IF a > b THEN a ELSE b

SetAll(z) ==
  /\ cfg' = z.cfg /\ q' = z.q /\ txAlive' = z.txAlive /\ rx' = z.rx /\ st' = z.st /\ kind' = z.kind
  /\ owner' = z.owner /\ res' = z.res /\ bop' = z.bop /\ nstart' = z.nstart /\ rdrop' = z.rdrop
  /\ wpc' = z.wpc /\ cur' = z.cur /\ wpanic' = z.wpanic /\ spc' = z.spc /\ scur' = z.scur
  /\ sres' = z.sres /\ jpc' = z.jpc /\ jidx' = z.jidx /\ jvia' = z.jvia /\ jres' = z.jres
  /\ poolBusy' = z.poolBusy

TraceInit ==
  /\ l = 1
  /\ TLCSet(1, 1)
  /\ LET z == Init0([nw |-> 1, concurrent |-> TRUE, fault |-> "none", pool |-> 99]) IN
     /\ cfg = z.cfg /\ q = z.q /\ txAlive = z.txAlive /\ rx = z.rx /\ st = z.st /\ kind = z.kind
     /\ owner = z.owner /\ res = z.res /\ bop = z.bop /\ nstart = z.nstart /\ rdrop = z.rdrop
     /\ wpc = z.wpc /\ cur = z.cur /\ wpanic = z.wpanic /\ spc = z.spc /\ scur = z.scur
     /\ sres = z.sres /\ jpc = z.jpc /\ jidx = z.jidx /\ jvia = z.jvia /\ jres = z.jres
     /\ poolBusy = z.poolBusy

InRange(ev) ==
  /\ ("id" \in DOMAIN ev) => ev.id \in Tasks
  /\ ("s" \in DOMAIN ev) => ev.s \in Senders
  /\ ("w" \in DOMAIN ev) => ev.w \in Workers \cup {0}

Event(ev) ==
  \/ /\ ev.e = "reset"
     /\ SetAll(Init0([nw |-> ev.nw, concurrent |-> ev.concurrent, fault |-> ev.fault, pool |-> 99]))
  \/ /\ ev.e = "dcall"
     /\ DispatchCall(ev.s, ev.id, ev.k)
  \/ /\ ev.e = "dret"
     /\ scur[ev.s] = ev.id /\ sres[ev.s] = ev.r
     /\ DispatchRet(ev.s)
  \/ /\ ev.e = "intact"
     /\ st[ev.id] = "returned"
     /\ UNCHANGED vars
  \/ /\ ev.e = "start"
     /\ owner[ev.id] = ev.w
     /\ Start(ev.id)
  \/ /\ ev.e = "finish"
     /\ Finish(ev.id)
  \/ /\ ev.e = "panic"
     /\ BodyPanic(ev.id)
  \/ /\ ev.e = "recv"
     /\ Accepted(ev.id) /\ RecvOutcome(ev.id) = ev.r
     /\ UNCHANGED vars
  \/ /\ ev.e = "rdrop"        \* the caller dropped its receiver (fire and forget)
     /\ Accepted(ev.id) /\ \A s \in Senders : scur[s] # ev.id
     /\ \/ DropReceiver(ev.id)
        \/ Final(st[ev.id]) /\ UNCHANGED vars
  \/ /\ ev.e = "jcall"
     /\ JoinCall
  \/ /\ ev.e = "jret"
     /\ JoinRet /\ jres' = ev.r
  \/ /\ ev.e = "wpanic"       \* marker: the unwinding itself (WorkerBootPanic / WorkerPollPanic) follows
     /\ ev.w \in Workers /\ cfg.fault # "none"
     /\ wpc[ev.w] \in {"boot", "recv", "await"}
     /\ UNCHANGED vars
  \/ /\ ev.e = "wexit"
     /\ ev.w \in Workers
     /\ \/ WorkerExit(ev.w)
        \/ wpc[ev.w] = "exited" /\ UNCHANGED vars

EventStep ==
  /\ l <= N
  /\ InRange(Rec[l])
  /\ Event(Rec[l])
  /\ l' = l + 1
  /\ TLCSet(1, Max2(TLCGet(1), l + 1))

\* what the threads do between two logged events
Silent ==
  \/ \E s \in Senders : DispatchSend(s) \/ DispatchPoolAccept(s) \/ DispatchPoolReject(s)
  \/ \E w \in Workers :
        \/ WorkerBoot(w) \/ WorkerBootPanic(w) \/ WorkerRecv(w) \/ WorkerAwaitDone(w)
        \/ WorkerLoopEnd(w) \/ WorkerLeave(w) \/ WorkerPollPanic(w) \/ WorkerExit(w)
  \/ JoinSpawnOnPool \/ JoinSpawnOnThread \/ JoinThread

SilentStep ==
  /\ l <= N
  /\ Rec[l].e # "reset"          \* nothing of the old run matters any more
  /\ Silent
  /\ UNCHANGED l

TraceNext == EventStep \/ SilentStep

TraceSpec == TraceInit /\ [][TraceNext]_tvars

\* acceptance, evaluated once at the end of the exploration
Accept ==
  IF TLCGet(1) = N + 1
    THEN PrintT("TRACE_ACCEPTED")
    ELSE PrintT(<<"TRACE", ToJson([unmatched |-> TLCGet(1), event |-> Rec[TLCGet(1)]])>>)
=============================================================================
