\* non-vacuity control: without the named deviation ShortBufferAssert the model must violate NoPanic
CONSTANTS
  Caps = {8, 16}
  Sizes = {0}
  MaxMsgs = 1
  Hdr = 16
  Align = 8
SPECIFICATION Spec
INVARIANTS NoPanic
