\* control with the pinned (unrepaired) CMsgIter::new: FixIterShort = FALSE must violate IterNeverPanics
CONSTANTS
  FixIterShort = FALSE
  FixDataSlice = TRUE
  Caps = {16, 32}
  Sizes = {0}
  MaxMsgs = 1
  Hdr = 16
  Align = 8
SPECIFICATION Spec
INVARIANTS IterNeverPanics
