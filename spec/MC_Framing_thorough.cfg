\* thorough, round trip: every framer, two-letter payload alphabet, environment faults, liveness
CONSTANTS
  FixExtractOverflow = TRUE
  FixFramerError = TRUE
  Lfls = {1, 2, 3, 4, 5, 6, 7, 8}
  HostLfls = {}
  Endians = {TRUE, FALSE}
  DelimKinds = {"nl", "c1", "R3", "a12", "a11"}
  HostDelimKinds = {}
  WithNoop = TRUE
  WithLim = TRUE
  Codecs = {"bytes", "json"}
  PayAlpha = {1, 255}
  MaxPay = 2
  MaxFrames = 2
  BigPays = {}
  WideFrom = 9
  WideMaxPay = 0
  WideMaxFrames = 0
  WideHostAlpha = {}
  WideHostExtra = 0
  Modes = {"rt"}
  HostAlpha = {}
  HostExtra = 0
  ChunkMin = 1
  ChunkMax = 16
  WLimits = {1, 16}
  ZeroReads = 1
  MaxErr = 1
  AfterDone = 1
SPECIFICATION FairSpec
INVARIANTS SinkExact SinkPrefix RoundTrip InRange PosInside NoPanic MeasureNonNeg
PROPERTIES Progress WProgress Terminates
