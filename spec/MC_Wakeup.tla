---- MODULE MC_Wakeup ----
EXTENDS Wakeup
CONSTANTS w1, w2
TgtMT == (w1 :> "main") @@ (w2 :> "t1")
TgtTT == (w1 :> "t1") @@ (w2 :> "t1")
TgtMM == (w1 :> "main") @@ (w2 :> "main")
TgtT12 == (w1 :> "t1") @@ (w2 :> "t2")
====
