CONSTANTS
  Handles = {"h1"}
  Ops = {}
  InitLive = {"h1"}
  Variant = "sync"
  AllowClone = FALSE
  AllowTake2 = TRUE
  AllowCancel = FALSE
  AllowSpurious = FALSE
  FileLayer = FALSE
  SilentRelease = FALSE
  ForgetsHandle = FALSE
SPECIFICATION GSpec
INVARIANTS Emit
