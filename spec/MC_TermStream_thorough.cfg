SPECIFICATION Spec
CONSTANTS
  MaxFeed = 5
  MaxWinch = 2
  MaxDrop = 2
  Eager = FALSE
  Mut = ""
VIEW View
INVARIANTS
  TypeOK
  NoLostWake
  Registered
  TimerOnlyForEsc
  NoLostWinch
