CONSTANTS
  MaxL = 2
  MaxCap = 2
  MaxIntr = 1
  MaxFault = 1
  Helpers = {"read_exact", "read_exact_at", "read_to_end", "read_to_end_at", "read_vectored_exact", "read_vectored_exact_at", "append", "take", "bufreader", "bufreader_fill", "take_fill", "copy", "write_all", "write_all_at", "write_vectored_all", "write_vectored_all_at", "bufwriter"}
  Fixed = {"read_to_end_appends", "bufreader_cap0", "copy_cap0", "bufwriter_accept", "read_vectored_at_clamp", "vec_write_vectored", "vec_write_vectored_at"}
SPECIFICATION FairSpec
PROPERTY Termination
