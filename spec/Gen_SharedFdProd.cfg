CONSTANTS
  Drivers = {"iour", "poll"}
  Classes = {"accept", "imm", "multi"}
  MaxTrig = 2
  MaxPoll = 2
  FixDrvDrop = FALSE
SPECIFICATION GSpec
INVARIANTS Emit
