CONSTANTS
  Drivers = {"iour", "poll"}
  Classes = {"accept", "imm", "multi"}
  MaxTrig = 2
  MaxPoll = 2
  FixDrvDrop = TRUE
SPECIFICATION GSpec
INVARIANTS Emit
