---------------------------- MODULE MC_TermParseWfT ----------------------------
(* an input family of TermParse in a module of its own: TLC evaluates every constant definition of the modules it
   loads when it starts *)
EXTENDS MC_TermParse
PairsAll == {Tk[a] \o Tk[b] : a \in TokNames, b \in TokNames}
Triples == {Tk[a] \o Tk[b] \o Tk[c] : a \in CoreNames, b \in CoreNames, c \in {"a", "esc", "up", "paste_hi", "eacute"}}
InputsWfThorough == Singles \cup PairsAll \cup Triples
=============================================================================
