--------------------------- MODULE Gen_IoHelpers ---------------------------
(* Behaviour printer for IoHelpers: one JSON line per completed case = the case, the schedule of
   inner-call outcomes the environment chose, and what the code-shaped model produced.
   Replayed by harness bin replay_iohelpers on the real helpers over scripted streams.   *)
EXTENDS IoHelpers, Json

Emit == pc = "done" =>
          PrintT(<<"REPLAY", ToJson([op |-> op, sched |-> sched, wsched |-> wsched, rcap |-> rcap, wlen |-> wlen,
                                     x |-> [res |-> res, buf |-> Content(loc.b),
                                            vb |-> [j \in 1..Len(loc.vb) |-> Content(loc.vb[j])],
                                            got |-> loc.got, errs |-> loc.errs, sink |-> sink, rpos |-> rpos,
                                            dev |-> KnownDeviation, ok |-> Agrees]])>>)
=============================================================================
