CONSTANTS
  MaxTasks = 2
  MaxWorkers = 2
  MaxSenders = 1
  NWChoices = {1, 2}
  ModeChoices = {TRUE, FALSE}
  FaultChoices = {"none"}
  PoolChoices = {4}
  KindChoices = {"async"}
  BodyPanics = FALSE
  BodyUsesPool = FALSE
  JoinerOnPool = FALSE
  ReceiverDrops = TRUE
  SkipIfReceiverGone = TRUE
SPECIFICATION Spec
INVARIANTS AllStartedAtJoin
