CONSTANTS
  Driver = "poll"
  Shapes <- ShapesMCThorough
  MaxSteps = 7
  MaxCancel = 2
  MaxFeed = 2
  Eager = FALSE
  FixListen = FALSE
  FixFFStream = FALSE
  MutPersDropsCancel = FALSE
  MutNoDropCancel = FALSE
  MutNoWaker = FALSE
SPECIFICATION Spec
INVARIANTS TypeOK ExtInnermost RegSound CancelOnlyVisible BadPersOnlyVisible FailFastPrompt Fused TryTake DropCancels PanicOnlyKnown OwnResult
