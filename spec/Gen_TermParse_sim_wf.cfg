SPECIFICATION GSpec
CONSTANTS
  RawMode = TRUE
  Inputs = {}
  FixStaleTimer = FALSE
  AllowLongCsi = TRUE
  MaxTok = 24
  Mut = ""
  Fam = "wf"
  GenNames <- TokNames
  GenSigma <- SigmaSmall
  MinToks = 2
  MaxToks = 4
  MaxBytes = 0
  Modes = {"whole","bytes","tokens","split2"}
  FreeMax = 0
  TmoPolicy = "clean"
INVARIANTS
  Emit
  GNoPanic
  GCut
