CONSTANTS
  NS = 3
  Units = 3
  Lens = {1, 2, 3}
  Wins = {1, 3}
  ConnWin = 9
  MaxStreamss = {1, 2}
  NDg = 2
  DgCap = 1
  DgReaders = 1
  DgWakeAll = TRUE
  FinishWakes = TRUE
  AllowReset = TRUE
  AllowStop = TRUE
  AllowLoss = FALSE
  Extra = {}
  CloseKinds = {}
  Deviations = {}
  CMins = {0}
  Spices = {"plain", "plain2", "quiet", "reset", "stop"}
SPECIFICATION GSpec
INVARIANTS Emit
