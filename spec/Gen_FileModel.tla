--------------------------- MODULE Gen_FileModel ---------------------------
(* Behaviour printer for FileModel: carries the program as a history variable and prints one
   JSON line per maximal behaviour (MaxOps steps, or nothing enabled any more, or a named
   deviation took effect); replayed by harness/hfs/src/bin/replay_file.rs on compio-fs under the
   driver configuration drv and on std::fs / libc.                                          *)
EXTENDS FileModel, Json

VARIABLES hist, init0
gvars == <<vars, hist, init0>>

Node(s, p) == LET nd == s.ns[p] IN
  [k |-> nd.k, to |-> nd.to, ino |-> nd.ino, c |-> IF nd.k = "file" THEN s.data[nd.ino] ELSE <<>>,
   perm |-> IF nd.k = "file" THEN s.perm[nd.ino] ELSE 0]
Snap(s) == [ns |-> [p \in Paths |-> Node(s, p)],
            fd |-> [open |-> s.fd.open, rd |-> s.fd.rd, wr |-> s.fd.wr, app |-> s.fd.app],
            fc |-> IF s.fd.open THEN s.data[s.fd.ino] ELSE <<>>,       \* content behind the open handle
            pipe |-> [made |-> s.pipe.made, buf |-> IF s.pipe.rx THEN s.pipe.buf ELSE <<>>, tx |-> s.pipe.tx, rx |-> s.pipe.rx]]

GInit == Init /\ hist = <<>> /\ init0 = Snap(st)

GStep(p) == ForSomeOp(LAMBDA op :
               /\ Step(op, p)
               /\ hist' = Append(hist, [op |-> op, path |-> p, res |-> last'.res, ref |-> last'.ref,
                                        dev |-> last'.dev,
                                        fc |-> IF st'.fd.open THEN st'.data[st'.fd.ino] ELSE <<>>]))
GNext == /\ CanStep
         /\ UNCHANGED init0
         /\ \E p \in {"iour_entry", "poll_pool", "poll_ready", "blocking_fallback"} : GStep(p)
GSpec == GInit /\ [][GNext]_gvars

Emit == Dead => PrintT(<<"REPLAY", ToJson([grp |-> grp, drv |-> drv, init |-> init0, steps |-> hist, fin |-> Snap(st)])>>)
=============================================================================
