---------------------------- MODULE TaskRemote ----------------------------
(* C04, cross-thread part: one task of compio-executor whose JoinHandle lives on thread J and
   whose waker clones live on threads W1, W2, against the home thread H that ticks, clears
   and drops the executor.

   One action per hook point of the instrumented crate (cfg(compio_verif)): the program counter
   of a thread is the NAME OF THE HOOK SITE it is parked at (each hook is placed immediately
   before an atomic access), and an action performs that access plus the thread-private code
   up to the next site. Commands (tick, clear, execdrop / poll, hdrop, cancel, detach / wake,
   wdrop) start at pc = "idle"; they are chosen freely, so a behaviour is a program plus an
   interleaving, which the schedule controller of harness bin replay_remote replays.

   Transcribed: task/state.rs (every RMW), task/remote.rs (Remote::schedule, Remote::poll),
   task/mod.rs (Task::run, cancel, drop, Drop for Task, wait_for_scheduling), lib.rs
   (drain_sync, tick, clear, Drop for Executor), join_handle.rs.

   The four defects below were found with this model, reproduced on the pinned code by
   replay_remote and then REPAIRED in /repo (one "fix:" commit each). The constant Fix says which
   repairs are in the modelled code: the normal configurations use Fix = all four (= the code as it
   is now); the control configurations switch a repair off and must violate the invariant again.
   Named deviations (behaviour of the code before its repair):
     D10a  finish_scheduling clears the single SCHEDULING bit although another remote
           scheduler is still between start_scheduling and its own finish_scheduling
     D10b  a task that finishes inside tick is dropped WITHOUT wait_for_scheduling, so a remote
           scheduler that loaded the Shared pointer before Task::drop nulled it keeps using it
           after Executor::drop freed it
     D11   finish_running inside the joiner's SETTING_WAKER section skips the wake and the
           joiner discards the snapshot of finish_setting_waker: it parks forever
     D12   Task::drop inside the joiner's SETTING_WAKER section leaves the registered waker to the
           joiner ("it'll check the state afterwards and drop the waker"), but the joiner's
           has_result / cancelled exits (finish_setting_waker::<false>) never drop it: set_dropped
           has cleared HAS_WAKER, so the last reference does not drop it either: the waker leaks *)
EXTENDS Integers, Sequences, FiniteSets, TLC

CONSTANTS Setup,      \* "fresh": spawned, never polled | "cold": polled once, wakers stashed |
                      \* "hot": polled once, wakers stashed, self-woken
          NW,         \* number of remote waker threads (0..2); 0 with Setup = "fresh"
          SyncCap,    \* ExecutorConfig::sync_queue_size
          MaxTicks, MaxJPolls, MaxWakes,
          JCmds,      \* commands thread J may issue: subset of {"poll","hdrop","cancel","detach"}
          HCmds,      \* commands thread H may issue: subset of {"tick","clear","execdrop"}
          Spurious,   \* TRUE: J may poll again without having been woken (legal for a Future)
          Strict,     \* TRUE: the named deviations are NOT excused (control runs)
          Fix         \* subset of {"D10a","D10b","D11","D12"}: model of the proposed repairs

Wk == IF NW = 0 THEN {} ELSE IF NW = 1 THEN {"W1"} ELSE {"W1", "W2"}
Remote == {"J"} \cup Wk
Th == {"H"} \cup Remote

VARIABLES bits, rc, cell, wslot, sh, shared, syncq, pending, inmap, hot, alloc, scnt,
          pc, loc, hd, holds, n, g
vars == <<bits, rc, cell, wslot, sh, shared, syncq, pending, inmap, hot, alloc, scnt, pc, loc, hd, holds, n, g>>
\* scnt: number of remote schedulers inside start_scheduling..finish_scheduling; the code keeps only
\* the single bit SCHEDULING (bits); the repair "D10a" of Fix makes wait_for_scheduling wait for scnt = 0

\* g: ghosts.  err: property violations; known: violations explained by a named deviation
G0 == [polls |-> 0, fdrops |-> 0, rdrops |-> 0, rtaken |-> 0, deallocs |-> 0, jwoken |-> 0,
       woken |-> FALSE, jres |-> "none", inwin |-> {}, dev |-> {}, err |-> {}, known |-> {},
       pollby |-> {}, fdropby |-> {}, dw |-> 0, produced |-> FALSE]
L0 == [ctx |-> "", st |-> {}, cont |-> "", dropres |-> FALSE, after |-> "", fs |-> "", jw |-> 0,
       notified |-> FALSE, drained |-> 0, old |-> {}, then |-> ""]

Init ==
  /\ bits = {"NSW", "NC"} /\ cell = "future" /\ wslot = 0 /\ sh = TRUE /\ shared = "alive"
  /\ syncq = 0 /\ pending = 0 /\ inmap = TRUE /\ alloc = "live" /\ scnt = 0
  /\ rc = 2 + (IF Setup = "fresh" THEN 0 ELSE NW)
  /\ hot = (Setup # "cold")
  /\ pc = [t \in Th |-> "idle"] /\ loc = [t \in Th |-> L0]
  /\ hd = "held" /\ holds = [t \in Wk |-> TRUE]
  /\ n = [ticks |-> 0, jpolls |-> 0, wakes |-> [t \in Wk |-> 0]]
  /\ g = [G0 EXCEPT !.polls = IF Setup = "fresh" THEN 0 ELSE 1]

\* ---- helpers -----------------------------------------------------------------------------------
Go(t, p) == pc' = [pc EXCEPT ![t] = p]
GoL(t, p, l) == pc' = [pc EXCEPT ![t] = p] /\ loc' = [loc EXCEPT ![t] = l]
Err(G, e) == [G EXCEPT !.err = @ \cup {e}]
\* every access to the task allocation
Touch(G) == IF alloc # "live" THEN Err(G, "access-after-dealloc") ELSE G
\* every access of a remote scheduler to the Shared block
ShAcc(G) == IF shared = "alive" THEN G
            ELSE IF ~Strict /\ G.dev \cap {"D10a", "D10b"} # {}
                   THEN [G EXCEPT !.known = @ \cup {"shared-used-after-free"}]
                   ELSE Err(G, "shared-used-after-free")

\* Drop for Task executed by thread t: state.dec(); the last reference drops a present result and a
\* present waker and deallocates (drop_waker_last and dealloc are not scheduling points: nobody
\* else holds a reference)
DecOp(t, G) ==
  LET G1 == Touch(G)
      G2 == IF "HAS_RESULT" \in bits
              THEN (IF cell # "ok" THEN Err(G1, "drop_result-without-result") ELSE [G1 EXCEPT !.rdrops = @ + 1])
              ELSE G1
      G3 == IF ("COMPLETED" \notin bits /\ "NC" \in bits) \/ "NSW" \notin bits
              THEN Err(G2, "debug_assert-in-Task-drop") ELSE G2
  IN IF rc = 0 THEN /\ g' = Err(G1, "refcount-underflow") /\ UNCHANGED <<rc, cell, wslot, alloc>>
     ELSE IF rc > 1 THEN /\ g' = G1 /\ rc' = rc - 1 /\ UNCHANGED <<cell, wslot, alloc>>
     ELSE /\ g' = [G3 EXCEPT !.deallocs = @ + 1]
          /\ rc' = 0 /\ alloc' = "freed"
          /\ cell' = IF "HAS_RESULT" \in bits THEN "empty" ELSE cell
          /\ wslot' = IF "HAS_WAKER" \in bits THEN 0 ELSE wslot

\* where Remote::schedule starts: the repaired code first counts itself in header.schedulers
SchedEntry == IF "D10a" \in Fix THEN "exec.remote.enter" ELSE "exec.state.start_scheduling"
\* where Task::wait_for_scheduling starts: the repaired code spins on header.schedulers, the old
\* code on the SCHEDULING bit (state.load)
WaitPc == IF "D10a" \in Fix THEN "exec.task.wait_scheduling" ELSE "exec.state.load"
WaitPcs == {"exec.task.wait_scheduling", "exec.task.wait_spin", "exec.state.load"}

\* ---- thread H: Executor::tick ----------------------------------------------------------------
H == "H"
Alive == shared = "alive"
AtH(p) == pc[H] = p
LH == loc[H]

HCmdTick ==
  /\ AtH("idle") /\ Alive /\ "tick" \in HCmds /\ n.ticks < MaxTicks
  /\ GoL(H, "exec.drain.load", [L0 EXCEPT !.ctx = "tick"])
  /\ n' = [n EXCEPT !.ticks = @ + 1]
  /\ UNCHANGED <<bits, rc, cell, wslot, sh, shared, syncq, pending, inmap, hot, alloc, scnt, hd, holds, g>>

\* after drain_sync: queue.iter_hot().take(max_interval) over the one task; exec.tick.run is not a
\* scheduling point (the queue is private to H): make_cold, take, then Task::run
AfterDrain(nhot) == IF nhot /\ inmap THEN "exec.state.unschedule" ELSE "idle"

\* Shared::drain_sync: pending.load(); first sync.pop()
HDrainLoad ==
  /\ AtH("exec.drain.load")
  /\ IF pending = 0 \/ syncq = 0
       THEN /\ Go(H, AfterDrain(hot)) /\ hot' = (hot /\ ~(hot /\ inmap)) /\ UNCHANGED <<syncq, loc>>
       ELSE /\ syncq' = syncq - 1 /\ GoL(H, "exec.drain.popped", [LH EXCEPT !.drained = 1]) /\ hot' = hot
  /\ UNCHANGED <<bits, rc, cell, wslot, sh, shared, pending, inmap, alloc, scnt, hd, holds, n, g>>

\* body of the pop loop: queue.make_hot(id); next sync.pop()
HDrainPopped ==
  /\ AtH("exec.drain.popped")
  /\ hot' = (hot \/ inmap)
  /\ IF syncq > 0 THEN /\ syncq' = syncq - 1 /\ GoL(H, "exec.drain.popped", [LH EXCEPT !.drained = @ + 1])
                  ELSE /\ syncq' = syncq /\ Go(H, "exec.drain.sub") /\ loc' = loc
  /\ UNCHANGED <<bits, rc, cell, wslot, sh, shared, pending, inmap, alloc, scnt, hd, holds, n, g>>

\* pending.fetch_sub(drained); then the iteration starts
HDrainSub ==
  /\ AtH("exec.drain.sub")
  /\ pending' = pending - LH.drained
  /\ Go(H, AfterDrain(hot)) /\ hot' = (hot /\ ~(hot /\ inmap))
  /\ UNCHANGED <<bits, rc, cell, wslot, sh, shared, syncq, inmap, alloc, scnt, loc, hd, holds, n, g>>

\* Task::run: state.unschedule(); cancelled -> Ready without a poll; else poll the future (outcome o
\* is chosen by the program); Ready: drop the future, store the result
HUnschedule(o) ==
  /\ AtH("exec.state.unschedule") /\ o \in {"pend", "ready"}
  /\ bits' = bits \ {"SCHEDULED"}
  /\ IF "NC" \notin bits
       THEN /\ o = "pend" /\ Go(H, "exec.state.set_dropped") /\ g' = Touch(g) /\ cell' = cell
       ELSE LET G1 == Touch(g)
                G2 == IF cell # "future" THEN Err(G1, "poll-of-non-future") ELSE G1
                G3 == [G2 EXCEPT !.polls = @ + 1, !.pollby = @ \cup {H}]
            IN IF o = "pend" THEN /\ Go(H, "idle") /\ g' = G3 /\ cell' = cell
               ELSE /\ Go(H, "exec.state.finish_running")
                    /\ g' = [G3 EXCEPT !.fdrops = @ + 1, !.fdropby = @ \cup {H}, !.produced = TRUE] /\ cell' = "ok"
  /\ UNCHANGED <<rc, wslot, sh, shared, syncq, pending, inmap, hot, alloc, scnt, loc, hd, holds, n>>

\* state.finish_running(): COMPLETED | HAS_RESULT; wake iff has_waker && !is_setting_waker
HFinishRunning ==
  /\ AtH("exec.state.finish_running")
  /\ bits' = bits \cup {"COMPLETED", "HAS_RESULT"}
  /\ g' = IF "NSW" \notin bits THEN [g EXCEPT !.dev = @ \cup {"D11"}] ELSE g
  /\ Go(H, IF "HAS_WAKER" \in bits /\ "NSW" \in bits THEN "exec.task.wake_joiner" ELSE "exec.state.set_dropped")
  /\ UNCHANGED <<rc, cell, wslot, sh, shared, syncq, pending, inmap, hot, alloc, scnt, loc, hd, holds, n>>

\* the executor reads the waker slot and wakes the joiner
HWakeJoiner ==
  /\ AtH("exec.task.wake_joiner")
  /\ g' = LET G1 == IF wslot = 0 THEN Err(g, "wake-of-uninitialised-waker") ELSE g
              G2 == IF pc["J"] = "exec.remote.write_waker" THEN Err(G1, "waker-slot-race") ELSE G1
          IN [G2 EXCEPT !.jwoken = @ + 1, !.woken = TRUE]
  /\ Go(H, "exec.state.set_dropped")
  /\ UNCHANGED <<bits, rc, cell, wslot, sh, shared, syncq, pending, inmap, hot, alloc, scnt, loc, hd, holds, n>>

\* Task::drop (executor side, ctx = tick | clear | drop): state.set_dropped()
HSetDropped ==
  /\ AtH("exec.state.set_dropped")
  /\ bits' = bits \ {"HAS_WAKER", "NC"}
  /\ GoL(H, "exec.task.null_shared", [LH EXCEPT !.old = bits])
  /\ g' = IF "HAS_WAKER" \in bits /\ "NSW" \notin bits /\ loc["J"].fs \in {"retry", "cancel"} /\ "D12" \notin Fix
            THEN [Touch(g) EXCEPT !.dev = @ \cup {"D12"}] ELSE Touch(g)
  /\ UNCHANGED <<rc, cell, wslot, sh, shared, syncq, pending, inmap, hot, alloc, scnt, hd, holds, n>>

\* what follows Task::drop: tick: queue.remove(id) and the Task reference is dropped (NO
\* wait_for_scheduling: deviation D10b); clear: wait_for_scheduling, then the reference is dropped
AfterTaskDrop == IF LH.ctx = "tick" /\ "D10b" \notin Fix THEN "exec.state.dec" ELSE WaitPc
MarkD10b(G) == IF LH.ctx = "tick" /\ "D10b" \notin Fix /\ G.inwin # {} THEN [G EXCEPT !.dev = @ \cup {"D10b"}] ELSE G

\* header.shared.store(null); drop the future unless completed; then the waker unless the joiner is
\* inside SETTING_WAKER
HNullShared ==
  /\ AtH("exec.task.null_shared")
  /\ sh' = FALSE
  /\ LET dropf == "COMPLETED" \notin LH.old
         dropw == "HAS_WAKER" \in LH.old /\ "NSW" \in LH.old
         G1 == IF dropf THEN (IF cell # "future" THEN Err(g, "drop_future-without-future")
                              ELSE [g EXCEPT !.fdrops = @ + 1, !.fdropby = @ \cup {H}]) ELSE g
     IN /\ cell' = IF dropf THEN "empty" ELSE cell
        /\ IF dropw THEN /\ Go(H, "exec.task.drop_waker") /\ g' = G1 /\ UNCHANGED <<inmap, hot>>
           ELSE /\ Go(H, AfterTaskDrop) /\ g' = MarkD10b(G1)
                /\ inmap' = FALSE /\ hot' = FALSE
  /\ UNCHANGED <<bits, rc, wslot, shared, syncq, pending, alloc, scnt, loc, hd, holds, n>>

HDropWaker ==
  /\ AtH("exec.task.drop_waker")
  /\ wslot' = 0
  /\ g' = MarkD10b(IF pc["J"] = "exec.remote.write_waker" THEN Err(g, "waker-slot-race") ELSE g)
  /\ Go(H, AfterTaskDrop) /\ inmap' = FALSE /\ hot' = FALSE
  /\ UNCHANGED <<bits, rc, cell, sh, shared, syncq, pending, alloc, scnt, loc, hd, holds, n>>

\* Task::wait_for_scheduling: spins on state.load() while SCHEDULING is set (a failing load changes
\* nothing, so only the successful one is an action)
HWaitSched ==
  /\ \/ /\ AtH("exec.state.load") /\ "SCHEDULING" \notin bits /\ Go(H, "exec.state.dec")
     \/ /\ AtH("exec.task.wait_scheduling") /\ Go(H, IF scnt = 0 THEN "exec.state.dec" ELSE "exec.task.wait_spin")
     \/ /\ AtH("exec.task.wait_spin") /\ scnt = 0 /\ Go(H, "exec.state.dec")
  /\ g' = Touch(g)
  /\ UNCHANGED <<bits, rc, cell, wslot, sh, shared, syncq, pending, inmap, hot, alloc, scnt, loc, hd, holds, n>>

\* the executor's Task reference is dropped; tick then returns, clear goes on
HDec ==
  /\ AtH("exec.state.dec")
  /\ DecOp(H, g)
  /\ Go(H, IF LH.ctx = "drop" THEN "exec.free_shared" ELSE "idle")
  /\ UNCHANGED <<bits, sh, shared, syncq, pending, inmap, hot, scnt, loc, hd, holds, n>>

\* ---- thread H: Executor::clear and Drop for Executor --------------------------------------------
HCmdClear(c) ==
  /\ AtH("idle") /\ Alive /\ c \in HCmds \cap {"clear", "execdrop"}
  /\ GoL(H, "exec.clear", [L0 EXCEPT !.ctx = IF c = "clear" THEN "clear" ELSE "drop"])
  /\ UNCHANGED <<bits, rc, cell, wslot, sh, shared, syncq, pending, inmap, hot, alloc, scnt, hd, holds, n, g>>

\* clear(): pop the sync queue empty (pending is NOT adjusted); TaskQueue::clear(): drain the map
HClearPop ==
  /\ AtH("exec.clear")
  /\ syncq' = 0
  /\ IF inmap THEN /\ Go(H, "exec.state.set_dropped") /\ hot' = FALSE /\ inmap' = inmap
              ELSE /\ Go(H, IF LH.ctx = "drop" THEN "exec.free_shared" ELSE "idle") /\ UNCHANGED <<hot, inmap>>
  /\ UNCHANGED <<bits, rc, cell, wslot, sh, shared, pending, alloc, scnt, loc, hd, holds, n, g>>

\* Drop for Executor: the Shared block is freed
HFreeShared ==
  /\ AtH("exec.free_shared")
  /\ shared' = "freed"
  /\ g' = IF g.inwin # {} /\ (Strict \/ g.dev \cap {"D10a", "D10b"} = {})
            THEN Err(g, "shared-freed-under-remote-scheduler") ELSE g
  /\ Go(H, "idle")
  /\ UNCHANGED <<bits, rc, cell, wslot, sh, syncq, pending, inmap, hot, alloc, scnt, loc, hd, holds, n>>

\* ---- Remote::schedule, run by a waker thread (wake) or by J inside Task::cancel ------------------
At(t, p) == pc[t] = p
L(t) == loc[t]

\* header.schedulers.fetch_add(1) (repair of D10a): registered before the state word is touched
REnter(t) ==
  /\ At(t, "exec.remote.enter")
  /\ scnt' = scnt + 1
  /\ g' = Touch(g)
  /\ Go(t, "exec.state.start_scheduling")
  /\ UNCHANGED <<bits, rc, cell, wslot, sh, shared, syncq, pending, inmap, hot, alloc, loc, hd, holds, n>>

\* state.start_scheduling(): fetch_or(SCHEDULED | SCHEDULING)
RStartSched(t) ==
  /\ At(t, "exec.state.start_scheduling")
  /\ bits' = bits \cup {"SCHEDULED", "SCHEDULING"} /\ scnt' = IF "D10a" \in Fix THEN scnt ELSE scnt + 1
  /\ g' = Touch(g)
  /\ Go(t, IF "SCHEDULED" \in bits \/ "COMPLETED" \in bits \/ "NC" \notin bits
             THEN "exec.state.finish_scheduling" ELSE "exec.remote.load_shared")
  /\ UNCHANGED <<rc, cell, wslot, sh, shared, syncq, pending, inmap, hot, alloc, loc, hd, holds, n>>

\* header.shared.load(Acquire): null -> finish_scheduling; else the thread now holds a raw &Shared
RLoadShared(t) ==
  /\ At(t, "exec.remote.load_shared")
  /\ IF sh THEN /\ Go(t, "exec.remote.reserve") /\ g' = [Touch(g) EXCEPT !.inwin = @ \cup {t}]
           ELSE /\ Go(t, "exec.state.finish_scheduling") /\ g' = Touch(g)
  /\ UNCHANGED <<bits, rc, cell, wslot, sh, shared, syncq, pending, inmap, hot, alloc, scnt, loc, hd, holds, n>>

\* shared.pending.fetch_add(1)
RReserve(t) ==
  /\ At(t, "exec.remote.reserve")
  /\ pending' = pending + 1 /\ g' = ShAcc(g)
  /\ GoL(t, "exec.remote.push", [L(t) EXCEPT !.notified = FALSE])
  /\ UNCHANGED <<bits, rc, cell, wslot, sh, shared, syncq, inmap, hot, alloc, scnt, hd, holds, n>>

\* first shared.sync.push(id); queue full: wake the driver once, push again, then state.load()
RPush(t) ==
  /\ At(t, "exec.remote.push")
  /\ IF syncq < SyncCap
       THEN /\ syncq' = syncq + 1 /\ Go(t, "exec.remote.wake_driver") /\ g' = ShAcc(g) /\ loc' = loc
       ELSE /\ syncq' = syncq /\ g' = [ShAcc(g) EXCEPT !.dw = 1]
            /\ GoL(t, "exec.state.load", [L(t) EXCEPT !.notified = TRUE, !.ctx = "pushloop"])
  /\ UNCHANGED <<bits, rc, cell, wslot, sh, shared, pending, inmap, hot, alloc, scnt, hd, holds, n>>

\* inside the push loop: state.load().is_cancelled() -> bail out, else yield and retry
RPushLoad(t) ==
  /\ At(t, "exec.state.load") /\ L(t).ctx = "pushloop"
  /\ Go(t, IF "NC" \notin bits THEN "exec.remote.unreserve" ELSE "exec.remote.push_retry")
  /\ g' = Touch(g)
  /\ UNCHANGED <<bits, rc, cell, wslot, sh, shared, syncq, pending, inmap, hot, alloc, scnt, loc, hd, holds, n>>

RPushRetry(t) ==
  /\ At(t, "exec.remote.push_retry")
  /\ g' = ShAcc(g)
  /\ IF syncq < SyncCap THEN /\ syncq' = syncq + 1 /\ Go(t, "exec.remote.wake_driver")
                        ELSE /\ syncq' = syncq /\ Go(t, "exec.state.load")
  /\ UNCHANGED <<bits, rc, cell, wslot, sh, shared, pending, inmap, hot, alloc, scnt, loc, hd, holds, n>>

\* shared.pending.fetch_sub(1) on the bail-out path
RUnreserve(t) ==
  /\ At(t, "exec.remote.unreserve")
  /\ pending' = pending - 1 /\ g' = ShAcc(g)
  /\ Go(t, "exec.state.finish_scheduling")
  /\ UNCHANGED <<bits, rc, cell, wslot, sh, shared, syncq, inmap, hot, alloc, scnt, loc, hd, holds, n>>

\* shared.waker.wake_by_ref(), also when the driver was already notified while the queue was full
\* (fix a56074d)   (exec.remote.done is not a scheduling point)
RWakeDriver(t) ==
  /\ At(t, "exec.remote.wake_driver")
  /\ g' = [ShAcc(g) EXCEPT !.dw = 1]
  /\ Go(t, "exec.state.finish_scheduling")
  /\ UNCHANGED <<bits, rc, cell, wslot, sh, shared, syncq, pending, inmap, hot, alloc, scnt, loc, hd, holds, n>>

\* state.finish_scheduling(): fetch_and(!SCHEDULING) - clears the ONE bit whoever else is scheduling
RFinishSched(t) ==
  /\ At(t, "exec.state.finish_scheduling")
  /\ bits' = bits \ {"SCHEDULING"} /\ scnt' = IF "D10a" \in Fix THEN scnt ELSE scnt - 1
  /\ g' = LET G1 == [Touch(g) EXCEPT !.inwin = @ \ {t}]
          IN IF "D10a" \notin Fix /\ scnt > 1 THEN [G1 EXCEPT !.dev = @ \cup {"D10a"}] ELSE G1
  /\ Go(t, IF "D10a" \in Fix THEN "exec.remote.leave"
           ELSE IF L(t).cont = "cancel" THEN "exec.state.set_cancelled" ELSE "idle")
  /\ UNCHANGED <<rc, cell, wslot, sh, shared, syncq, pending, inmap, hot, alloc, loc, hd, holds, n>>

\* header.schedulers.fetch_sub(1) (repair of D10a): nothing of Shared is used after this
RLeave(t) ==
  /\ At(t, "exec.remote.leave")
  /\ scnt' = scnt - 1
  /\ g' = Touch(g)
  /\ Go(t, IF L(t).cont = "cancel" THEN "exec.state.set_cancelled" ELSE "idle")
  /\ UNCHANGED <<bits, rc, cell, wslot, sh, shared, syncq, pending, inmap, hot, alloc, loc, hd, holds, n>>

\* ---- waker threads ------------------------------------------------------------------------------
\* Waker::wake_by_ref from another thread: tracker.valid() is false -> Remote::schedule
WCmdWake(t) ==
  /\ t \in Wk /\ At(t, "idle") /\ holds[t] /\ n.wakes[t] < MaxWakes
  /\ GoL(t, SchedEntry, [L0 EXCEPT !.cont = "idle"])
  /\ n' = [n EXCEPT !.wakes[t] = @ + 1]
  /\ UNCHANGED <<bits, rc, cell, wslot, sh, shared, syncq, pending, inmap, hot, alloc, scnt, hd, holds, g>>

\* drop(Waker) on the waker thread
WCmdDrop(t) ==
  /\ t \in Wk /\ At(t, "idle") /\ holds[t]
  /\ GoL(t, "exec.state.dec", L0)
  /\ UNCHANGED <<bits, rc, cell, wslot, sh, shared, syncq, pending, inmap, hot, alloc, scnt, hd, holds, n, g>>

WDec(t) ==
  /\ t \in Wk /\ At(t, "exec.state.dec")
  /\ DecOp(t, g)
  /\ holds' = [holds EXCEPT ![t] = FALSE]
  /\ Go(t, "idle")
  /\ UNCHANGED <<bits, sh, shared, syncq, pending, inmap, hot, scnt, loc, hd, n>>

\* ---- thread J: the JoinHandle on another thread ---------------------------------------------------
J == "J"
LJ == loc[J]
JIdle == At(J, "idle") /\ hd = "held"

\* JoinHandle::poll with joiner waker jw -> Task::poll -> Remote::poll: state.load()
JCmdPoll(jw) ==
  /\ JIdle /\ "poll" \in JCmds /\ n.jpolls < MaxJPolls
  /\ (Spurious \/ g.jres = "none" \/ g.woken)
  /\ GoL(J, "exec.state.load", [L0 EXCEPT !.ctx = "jpoll", !.jw = jw])
  /\ n' = [n EXCEPT !.jpolls = @ + 1]
  /\ g' = [g EXCEPT !.woken = FALSE]
  /\ UNCHANGED <<bits, rc, cell, wslot, sh, shared, syncq, pending, inmap, hot, alloc, scnt, hd, holds>>

\* top of the loop in Remote::poll with snapshot st
LoopTop(st) == IF "HAS_RESULT" \in st THEN "exec.state.set_has_result"
               ELSE IF "NC" \notin st THEN "exec.state.dec"
               ELSE "exec.state.start_setting_waker"
LoopG(G, st) == IF "HAS_RESULT" \notin st /\ "NC" \notin st THEN [G EXCEPT !.jres = "cancelled"] ELSE G

JLoad ==
  /\ At(J, "exec.state.load") /\ LJ.ctx = "jpoll"
  /\ GoL(J, LoopTop(bits), [LJ EXCEPT !.ctx = "take"])
  /\ g' = LoopG(Touch(g), bits)
  /\ UNCHANGED <<bits, rc, cell, wslot, sh, shared, syncq, pending, inmap, hot, alloc, scnt, hd, holds, n>>

\* state.set_has_result(false): in poll the result is then copied out (Ready(Some)); in
\* Task::cancel(true) it is dropped on this thread
JSetHasResult ==
  /\ At(J, "exec.state.set_has_result")
  /\ bits' = bits \ {"HAS_RESULT"}
  /\ cell' = "empty"
  /\ LET G1 == IF cell # "ok" THEN Err(Touch(g), "result-access-without-result") ELSE Touch(g) IN
     IF LJ.ctx = "dropres"
       THEN /\ g' = [G1 EXCEPT !.rdrops = @ + 1]
            /\ Go(J, IF LJ.after = "poll" THEN "exec.state.load" ELSE "exec.state.dec")
            /\ loc' = [loc EXCEPT ![J].ctx = "jpoll"]
       ELSE /\ g' = [G1 EXCEPT !.rtaken = @ + 1, !.jres = "ok"]
            /\ Go(J, "exec.state.dec") /\ loc' = loc
  /\ UNCHANGED <<rc, wslot, sh, shared, syncq, pending, inmap, hot, alloc, scnt, hd, holds, n>>

\* state.start_setting_waker(): fetch_and(!NOT_SETTING_WAKER); re-check of the snapshot; will_wake
\* reads the waker slot inside the critical section
JStartSet ==
  /\ At(J, "exec.state.start_setting_waker")
  /\ bits' = bits \ {"NSW"}
  /\ LET fs == IF "HAS_RESULT" \in bits THEN "retry"
               ELSE IF "NC" \notin bits THEN "cancel"
               ELSE IF "HAS_WAKER" \in bits /\ wslot = LJ.jw THEN "keep" ELSE "write"
     IN /\ GoL(J, IF fs = "write" THEN "exec.remote.write_waker" ELSE "exec.state.finish_setting_waker",
               [LJ EXCEPT !.fs = fs, !.old = bits])
        /\ g' = IF "HAS_WAKER" \in bits /\ fs \in {"keep", "write"} /\ pc[H] \in {"exec.task.wake_joiner", "exec.task.drop_waker"}
                  THEN Err(Touch(g), "waker-slot-race") ELSE Touch(g)
  /\ UNCHANGED <<rc, cell, wslot, sh, shared, syncq, pending, inmap, hot, alloc, scnt, hd, holds, n>>

\* drop the old waker if there was one, write the clone of the new one
JWriteWaker ==
  /\ At(J, "exec.remote.write_waker")
  /\ wslot' = LJ.jw
  /\ g' = IF pc[H] \in {"exec.task.wake_joiner", "exec.task.drop_waker"} THEN Err(g, "waker-slot-race") ELSE g
  /\ GoL(J, "exec.state.finish_setting_waker", [LJ EXCEPT !.fs = "set"])
  /\ UNCHANGED <<bits, rc, cell, sh, shared, syncq, pending, inmap, hot, alloc, scnt, hd, holds, n>>

\* state.finish_setting_waker::<SUCCESS>(): retry / cancel -> <false>; keep / set -> <true> and the
\* returned snapshot is DISCARDED, poll returns Pending (deviation D11 when the task completed or
\* was dropped inside the critical section); the repair re-examines the snapshot
\* repair of D12: the executor dropped the task inside our section and left the old waker to us
LeftToUs == "D12" \in Fix /\ "HAS_WAKER" \in LJ.old /\ "HAS_WAKER" \notin bits
JFinishSet ==
  /\ At(J, "exec.state.finish_setting_waker")
  /\ LET fs == LJ.fs IN
     CASE fs = "retry" ->
            /\ bits' = bits \cup {"NSW"} /\ wslot' = wslot
            /\ GoL(J, IF LeftToUs THEN "exec.remote.drop_stale_waker" ELSE LoopTop(bits),
                   [LJ EXCEPT !.ctx = "take", !.then = LoopTop(bits)])
            /\ g' = LoopG(Touch(g), bits)
       [] fs = "cancel" ->
            /\ bits' = bits \cup {"NSW"} /\ wslot' = wslot
            /\ GoL(J, IF LeftToUs THEN "exec.remote.drop_stale_waker" ELSE "exec.state.dec", [LJ EXCEPT !.then = "exec.state.dec"])
            /\ g' = [Touch(g) EXCEPT !.jres = "cancelled"]
       [] fs \in {"keep", "set"} ->
            /\ bits' = bits \cup {"NSW", "HAS_WAKER"} /\ wslot' = wslot
            /\ IF "D11" \in Fix /\ ("HAS_RESULT" \in bits \/ "NC" \notin bits)
                 THEN /\ GoL(J, LoopTop(bits), [LJ EXCEPT !.ctx = "take"]) /\ g' = LoopG(Touch(g), bits)
                 ELSE /\ Go(J, "idle") /\ loc' = loc /\ g' = [Touch(g) EXCEPT !.jres = "pending"]
  /\ UNCHANGED <<rc, cell, sh, shared, syncq, pending, inmap, hot, alloc, scnt, hd, holds, n>>

\* repair of D12: the joiner drops the waker the executor left in the slot
JDropStale ==
  /\ At(J, "exec.remote.drop_stale_waker")
  /\ wslot' = 0
  /\ g' = IF pc[H] \in {"exec.task.wake_joiner", "exec.task.drop_waker"} THEN Err(g, "waker-slot-race") ELSE g
  /\ Go(J, LJ.then)
  /\ UNCHANGED <<bits, rc, cell, sh, shared, syncq, pending, inmap, hot, alloc, scnt, loc, hd, holds, n>>

\* the JoinHandle's Task reference is dropped (poll returned Ready, handle dropped or detached)
JDec ==
  /\ At(J, "exec.state.dec")
  /\ DecOp(J, g)
  /\ hd' = "gone"
  /\ Go(J, "idle")
  /\ UNCHANGED <<bits, sh, shared, syncq, pending, inmap, hot, scnt, loc, holds, n>>

\* Drop for JoinHandle (cancel(true)) / JoinHandle::cancel().await (cancel(false), then poll):
\* Task::cancel = schedule() [Remote::schedule on this thread]; set_cancelled(); maybe drop the result
JCmdCancel(c) ==
  /\ JIdle /\ c \in JCmds \cap {"hdrop", "cancel"}
  /\ GoL(J, SchedEntry,
         [L0 EXCEPT !.cont = "cancel", !.dropres = (c = "hdrop"), !.after = IF c = "hdrop" THEN "dec" ELSE "poll", !.jw = 1])
  /\ g' = [g EXCEPT !.woken = FALSE]
  /\ UNCHANGED <<bits, rc, cell, wslot, sh, shared, syncq, pending, inmap, hot, alloc, scnt, hd, holds, n>>

JSetCancelled ==
  /\ At(J, "exec.state.set_cancelled")
  /\ bits' = bits \ {"NC"}
  /\ g' = Touch(g)
  /\ IF LJ.dropres /\ "HAS_RESULT" \in bits
       THEN GoL(J, "exec.state.set_has_result", [LJ EXCEPT !.ctx = "dropres"])
       ELSE GoL(J, IF LJ.after = "poll" THEN "exec.state.load" ELSE "exec.state.dec", [LJ EXCEPT !.ctx = "jpoll"])
  /\ UNCHANGED <<rc, cell, wslot, sh, shared, syncq, pending, inmap, hot, alloc, scnt, hd, holds, n>>

\* JoinHandle::detach on thread J
JCmdDetach ==
  /\ JIdle /\ "detach" \in JCmds
  /\ GoL(J, "exec.state.dec", L0)
  /\ UNCHANGED <<bits, rc, cell, wslot, sh, shared, syncq, pending, inmap, hot, alloc, scnt, hd, holds, n, g>>

\* ---- next-state relation ------------------------------------------------------------------------
Cmd == \/ HCmdTick \/ \E c \in {"clear", "execdrop"} : HCmdClear(c)
       \/ \E t \in Wk : WCmdWake(t) \/ WCmdDrop(t)
       \/ \E jw \in 1..2 : JCmdPoll(jw)
       \/ \E c \in {"hdrop", "cancel"} : JCmdCancel(c)
       \/ JCmdDetach
StepH == \/ HDrainLoad \/ HDrainPopped \/ HDrainSub \/ \E o \in {"pend", "ready"} : HUnschedule(o)
         \/ HFinishRunning \/ HWakeJoiner \/ HSetDropped \/ HNullShared \/ HDropWaker \/ HWaitSched
         \/ HDec \/ HClearPop \/ HFreeShared
StepR(t) == \/ REnter(t) \/ RLeave(t) \/ RStartSched(t) \/ RLoadShared(t) \/ RReserve(t) \/ RPush(t) \/ RPushLoad(t)
            \/ RPushRetry(t) \/ RUnreserve(t) \/ RWakeDriver(t) \/ RFinishSched(t)
StepW(t) == StepR(t) \/ WDec(t)
StepJ == \/ StepR(J) \/ JLoad \/ JSetHasResult \/ JStartSet \/ JWriteWaker \/ JFinishSet \/ JDropStale \/ JDec \/ JSetCancelled
Next == Cmd \/ StepH \/ StepJ \/ \E t \in Wk : StepW(t)
Spec == Init /\ [][Next]_vars

\* ---- what TLC checks ----------------------------------------------------------------------------
\* no access after dealloc, no double drop of the cell, no poll of a non-future, no debug_assert, no
\* refcount underflow, no concurrent access to the waker slot, and the Shared block is never freed
\* while a remote scheduler is between loading it and its finish_scheduling, nor used after it is
\* freed (modulo the named deviations D10a / D10b unless Strict)
NoErr == g.err = {}

\* the future is polled and dropped only on the home thread
HomeOnly == g.pollby \subseteq {H} /\ g.fdropby \subseteq {H}

\* future dropped at most once / exactly once when the task is gone; the result taken or dropped
\* exactly once across all threads
ExactlyOnce ==
  /\ g.fdrops <= 1 /\ g.rtaken + g.rdrops <= 1 /\ g.deallocs <= 1
  /\ (alloc = "freed" => /\ g.fdrops = 1 /\ g.deallocs = 1
                         /\ g.rtaken + g.rdrops = (IF g.produced THEN 1 ELSE 0))
  /\ (g.jres = "ok" <=> g.rtaken = 1)
  /\ (g.rtaken + g.rdrops >= 1 => g.produced)

\* the joiner's waker is dropped by the time the task is gone (modulo D12)
NoWakerLeak == alloc = "freed" => (wslot = 0 \/ (~Strict /\ "D12" \in g.dev))

ERef == IF inmap \/ pc[H] \in WaitPcs \cup {"exec.state.dec"} THEN 1 ELSE 0
RcMatches ==
  /\ (alloc = "live" => rc = ERef + (IF hd = "held" THEN 1 ELSE 0) + Cardinality({t \in Wk : holds[t]}))
  /\ (alloc = "freed" => rc = 0 /\ ERef = 0 /\ hd = "gone" /\ \A t \in Wk : ~holds[t])

\* candidate 11: once the task has completed and the executor is past its wake decision, a joiner
\* that is parked on Pending has been woken (else nobody will ever wake it)
JoinerParked == "COMPLETED" \in bits /\ pc[H] # "exec.task.wake_joiner" /\ pc[J] = "idle" /\ hd = "held" /\ g.jres = "pending"
NoLostJoinWake == JoinerParked => (g.woken \/ (~Strict /\ "D11" \in g.dev))

PendingBound == pending >= syncq
ScntOk == scnt = Cardinality({t \in Remote : pc[t] \in {"exec.state.finish_scheduling", "exec.remote.leave", "exec.remote.load_shared",
                "exec.remote.reserve", "exec.remote.push", "exec.remote.push_retry", "exec.remote.unreserve",
                "exec.remote.wake_driver"} \/ (pc[t] = "exec.state.load" /\ loc[t].ctx = "pushloop")
                \/ (pc[t] = "exec.state.start_scheduling" /\ "D10a" \in Fix)})

\* ---- liveness ---------------------------------------------------------------------------------------
\* every started call makes progress (threads are scheduled fairly); commands are not fair, except
\* that an awaiting joiner polls once and polls again whenever it has been woken
JAwait == \E jw \in 1..2 : JCmdPoll(jw) /\ jw = 1
Fair == /\ WF_vars(StepH) /\ WF_vars(StepJ) /\ \A t \in Wk : WF_vars(StepW(t))
LiveSpec == Spec /\ Fair /\ WF_vars(JAwait)
\* wait_for_scheduling always ends (the executor is never stuck on a remote scheduler)
WaitTerminates == (pc[H] \in WaitPcs) ~> (pc[H] \notin WaitPcs)
\* completion reaches an awaiting joiner: woken or observed by its own poll, then taken (candidate 11)
JoinCompletes == ("COMPLETED" \in bits /\ hd = "held") ~> (g.jres = "ok" \/ hd = "gone")
=============================================================================
