---------------------------- MODULE Gen_BufView ----------------------------
(* Behaviour printer for BufView: carries the program as a history variable and
   prints one JSON line per maximal behaviour; replayed by harness bin replay_bufview. *)
EXTENDS BufView, Json

VARIABLES hist, len0
gvars == <<vars, hist, len0>>

Proj == [io |-> TopInit[1], il |-> TopInit[2], uo |-> TopUn[1], ul |-> TopUn[2], rl |-> rlen,
         dev |-> KnownDeviation, p |-> Panics, ok |-> Contract,
         mem |-> [i \in 1..Cap |-> mem[i - 1]]]

GInit == Init /\ hist = <<>> /\ len0 = rlen

GNext ==
 /\ UNCHANGED len0
 /\
  \/ \E b \in 0..Cap, e \in (0..Cap) \cup {NoEnd} :
        WrapSlice(b, e) /\ hist' = Append(hist, [a |-> "slice", b |-> b, e |-> e, x |-> Proj'])
  \/ WrapUninit /\ hist' = Append(hist, [a |-> "uninit", b |-> 0, e |-> 0, x |-> Proj'])
  \/ Unwrap /\ hist' = Append(hist, [a |-> "unwrap", b |-> 0, e |-> 0, x |-> Proj'])
  \/ \E k \in 0..Cap : Fill(k) /\ hist' = Append(hist, [a |-> "fill", b |-> k, e |-> 0, x |-> Proj'])

GSpec == GInit /\ [][GNext]_gvars

Emit == steps = MaxSteps =>
          PrintT(<<"REPLAY", ToJson([kind |-> kind, cap |-> Cap, len0 |-> len0, steps |-> hist])>>)
=============================================================================
