CONSTANTS
  NS = 1
  Units = 1
  Lens = {1}
  Wins = {1}
  ConnWin = 1
  MaxStreamss = {1}
  NDg = 0
  DgCap = 1
  DgReaders = 1
  DgWakeAll = TRUE
  FinishWakes = FALSE
  AllowReset = FALSE
  AllowStop = FALSE
  AllowLoss = FALSE
  Extra = {}
  CloseKinds = {}
  Deviations = {}
SPECIFICATION Spec
INVARIANTS TypeOK InOrderExactlyOnce FinAfterLastByte FlowControl NoStrandedFutureStrict NoLostWakeup ClosedTablesEmpty ClosedNobodyPending AbsInv
PROPERTIES ErrorAfterClose Independence AbsRefines
