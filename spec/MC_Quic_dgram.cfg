CONSTANTS
  NS = 0
  Units = 1
  Lens = {1}
  Wins = {1}
  ConnWin = 1
  MaxStreamss = {1}
  NDg = 2
  DgCap = 1
  DgReaders = 2
  DgWakeAll = TRUE
  FinishWakes = TRUE
  AllowReset = FALSE
  AllowStop = FALSE
  AllowLoss = TRUE
  Extra = {}
  CloseKinds = {"localA", "localB", "endpointA"}
  Deviations = {}
SPECIFICATION Spec
INVARIANTS TypeOK InOrderExactlyOnce FinAfterLastByte FlowControl NoStrandedFutureStrict NoLostWakeup ClosedTablesEmpty ClosedNobodyPending AbsInv
PROPERTIES ErrorAfterClose Independence AbsRefines
