CONSTANTS
  NS = 0
  Units = 1
  Lens = {1}
  Wins = {1}
  ConnWin = 1
  MaxStreamss = {1}
  NDg = 0
  DgCap = 1
  AllowReset = FALSE
  AllowStop = FALSE
  AllowLoss = FALSE
  Extra = {"CN", "HD", "Z1", "WI"}
  CloseKinds = {"localB", "endpointA", "endpointB"}
  Deviations = {}
SPECIFICATION Spec
INVARIANTS TypeOK InOrderExactlyOnce FinAfterLastByte FlowControl NoStrandedFutureStrict NoLostWakeup ClosedTablesEmpty ClosedNobodyPending AbsInv
PROPERTIES ErrorAfterClose Independence AbsRefines
