SPECIFICATION Spec
CONSTANTS
  MaxFeed = 1
  MaxWinch = 2
  MaxDrop = 0
  Eager = FALSE
  Mut = "no_resize_repoll"
VIEW View
INVARIANTS
  NoLostWinch
