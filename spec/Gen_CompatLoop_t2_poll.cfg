CONSTANTS
  w1 = w1
  w2 = w2
  Wakers = {w1}
  Target <- TgtW1Main
  Tasks = {}
  QCap = 2
  Mode = "external"
  Driver = "poll"
  Eager = TRUE
  ArmInFlush = TRUE
  WakeAfterPush = TRUE
  Overflow = FALSE
  Hosts = {"tokio","futures"}
  Muts = {"none"}
  Ops = {"o1"}
  Timers = {}
  Jobs = {"j1"}
  Owner <- OwnP4
  AnyTurn = FALSE
  MaxLen = 400
  JobLast = FALSE
  JobAt = {"flush","pollMain"}
  OpAt = {"flush","pollMain","clear"}
  WakeAt = {}
SPECIFICATION GSpec
INVARIANTS EmitInv
