\* quick: environment faults (one spurious empty read, one read error, one poll after the end),
\* the JSON payload set, and termination as a liveness property of the fair specification
CONSTANTS
  FixExtractOverflow = TRUE
  FixFramerError = TRUE
  Lfls = {2}
  HostLfls = {2}
  Endians = {TRUE}
  DelimKinds = {"nl"}
  HostDelimKinds = {"a12"}
  WithNoop = TRUE
  WithLim = TRUE
  Codecs = {"bytes", "json"}
  PayAlpha = {1}
  MaxPay = 1
  MaxFrames = 2
  BigPays = {}
  WideFrom = 9
  WideMaxPay = 1
  WideMaxFrames = 2
  WideHostAlpha = {0, 255}
  WideHostExtra = 1
  Modes = {"rt", "hostlazy"}
  HostAlpha = {0, 1, 255}
  HostExtra = 1
  ChunkMin = 1
  ChunkMax = 16
  WLimits = {16}
  ZeroReads = 1
  MaxErr = 1
  AfterDone = 1
SPECIFICATION FairSpec
INVARIANTS SinkExact SinkPrefix RoundTrip InRange PosInside NoPanic ErrorOnlyWhenRefused MeasureNonNeg
PROPERTIES Progress WProgress Terminates
