CONSTANTS
  Drivers = {"iour", "poll"}
  Classes = {"accept", "imm", "multi"}
  MaxTrig = 3
  MaxPoll = 3
  FixDrvDrop = TRUE
SPECIFICATION GSpec
INVARIANTS Emit
