CONSTANTS
  Drivers = {"iour", "poll"}
  Classes = {"accept", "imm", "multi"}
  MaxTrig = 3
  MaxPoll = 3
  FixDrvDrop = FALSE
SPECIFICATION GSpec
INVARIANTS Emit
