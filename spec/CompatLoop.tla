----------------------------- MODULE CompatLoop -----------------------------
(* C03 / C02, external-event-loop clause (first built as extension check X03) - compio-compat: a runtime driven
   by a foreign event loop loses nothing while the host sleeps.

   Implementation-shaped model of  RuntimeCompat::drive  (compio-compat/src/lib.rs) with the two unix
   adapters (sys/unix/{mod,tokio,futures}.rs) ON TOP OF the runtime model of Wakeup.tla (Mode = "external"):
   the waking threads, the kernel's notifier completions, the cross-thread queue, the main poll, the tick,
   Proactor::flush and Proactor::poll are Wakeup's actions, used unchanged; this module adds

     - what the futures of a program wait for besides cross-thread wakes: I/O operations (submission queue
       entry -> kernel -> completion entry -> poll_entries -> local wake), timers (wheel -> due -> wake() at
       the end of poll_with -> local wake) and blocking jobs (pool thread: completed.send, Notify::wake;
       runtime: poll_blocking / poll_completed at the start of Proactor::poll; flush() reports a non-empty
       completed channel),
     - the local wake (Local::schedule: make_hot + the driver's waker on the runtime thread) and the wake
       of the JoinHandle when a task finishes,
     - the adapter loop, one action per step of drive():
         [x.main]  poll the future       (Wakeup!RPollMain + XPollEffects)
         [x.task]  run()                 (Wakeup!RDrainLoad .. RRunTask + XPollEffects)
         [drv.flush] remaining |= flush()(Wakeup!RFlushArm, RFlush, RFlushLeave, RFlushReset)
         ADecide   timeout = remaining ? ZERO : current_timeout()
         [x.wait.enter] AWaitPoll, AWake*  Adapter::wait(timeout) on the registered eventfd (io_uring) or on
                                         the poller's descriptor (polling): tokio = AsyncFd readiness, an
                                         edge-triggered cache cleared by clear_ready; futures = async-io,
                                         level-triggered
         [x.clear] AClear                Adapter::clear(): read the registered eventfd
         [drv.poll] poll_with(ZERO)      (XPollBlocking, Wakeup!RReset .. RAwake2, XLeaveTimedOut, XEntries)
         XTimers                         timer_runtime.wake()
     - the kernel's side of the registered eventfd: it is signalled for EVERY completion entry posted
       (notifier, operation), and the host's reactor (HTurn).

   Deviations from what a reader would expect are named: XLeaveTimedOut (a zero-timeout poll that finds the
   completion queue empty returns before set_awake).  `mut` switches realistic breaking changes of drive()
   on (control configurations: every one of them must violate), among them the two repaired defects of the
   driver: "oldFlush" (flush() looked only at the AwakeFlag, fixed finding C03-compat-blocking-completion-wake-wiped)
   and "oldPollBlocking" (io_uring poll returned after poll_blocking without reset / submit / drain, fixed finding
   C03-compat-iour-poll-blocking-skips-drain); "old" = both, the driver as it was.                          *)
EXTENDS Wakeup

CONSTANTS Hosts,       \* subset of {"tokio", "futures"}; the host is chosen in the initial state
          Ops,         \* I/O operations   (names)
          Timers,      \* timers           (names)
          Jobs,        \* blocking jobs    (names)
          Owner,       \* [Ops \cup Timers \cup Jobs -> {"main"} \cup Tasks \cup {"none"}]; "none" = nobody waits for it any more
          Muts,        \* subset of {"none", "clearAfterPoll", "ignoreFlush", "noTimeout", "noFlush",
                       \*            "oldFlush", "oldPollBlocking", "old"}   ("none" = the code as it is)
          AnyTurn      \* TRUE: the host's reactor may run at any time (reactor on another thread);
                       \* FALSE: only while the loop is parked in the host (current-thread host)

ASSUME Mode = "external" /\ ~Overflow

VARIABLES host, mut,
          xpc,         \* where the adapter loop is when it is not inside one of Wakeup's segments
          opSt,        \* [Ops -> "new" | "sq" | "kernel" | "cqe" | "done"]
          opBatch,     \* operations in the snapshot poll_entries (io_uring) / the event list (polling) is iterating over
          tmSt,        \* [Timers -> "new" | "armed" | "due" | "fired"]
          jobSt,       \* [Jobs -> "new" | "running" | "sent" | "write" | "woke"]  (the pool thread)
          jobTaken,    \* [Jobs -> BOOLEAN] the runtime received the entry from the completed channel
          got,         \* [Srcs -> BOOLEAN] the owner observed the result in one of its polls
          regSig,      \* io_uring: the eventfd registered with the ring is readable
          hEdge,       \* an edge notification for the waited descriptor is queued in the host's poller
          hReady,      \* tokio: cached readiness of the AsyncFd
          tmo,         \* timeout handed to Adapter::wait: "zero" | "timer" | "none"
          wres,        \* what the last wait returned: "ready" | "timedout" | "none"
          fin,         \* [Tasks -> BOOLEAN] task finished
          done,        \* the future given to execute() is ready
          skipped,     \* the last Proactor::poll returned after poll_blocking and left completions undrained (old behaviour only)
          hasC         \* what the runtime thread last saw of the completed channel: flush(): !completed_rx.is_empty();
                       \* poll(): has_completed (polling driver) / the result of poll_blocking (io_uring)

xvars == <<host, mut, xpc, opSt, opBatch, tmSt, jobSt, jobTaken, got, regSig, hEdge, hReady, tmo, wres, fin, done, skipped, hasC>>
allvars == <<vars, xvars>>

Srcs == Ops \cup Timers \cup Jobs
\* the two repairs of the driver (the code as it is; the controls "oldFlush" / "oldPollBlocking" / "old" switch them off):
\* flush() also reports an entry waiting in the completed channel; io_uring poll goes on (without waiting) to reset,
\* submit and drain the completion queue after poll_blocking delivered entries
FlushSeesCompleted == mut \notin {"oldFlush", "old"}
DrainAfterBlocking == mut \notin {"oldPollBlocking", "old"}
\* entries in the completed channel
SentUntaken == {j \in Jobs : jobSt[j] \in {"sent", "write", "woke"} /\ ~jobTaken[j]}
Targets == {"main"} \cup Tasks
InSeq(s, x) == \E i \in 1..Len(s) : s[i] = x

\* is the descriptor the host waits for readable?  io_uring: the registered eventfd; polling: the poller's own
\* epoll descriptor, readable while an event (its notifier, a registered descriptor) is pending in it
Level == IF Driver = "iour" THEN regSig ELSE (cq > 0 \/ \E o \in Ops : opSt[o] = "cqe")

XInit == /\ Init
         /\ host \in Hosts /\ mut \in Muts /\ xpc = "run"
         /\ opSt = [o \in Ops |-> "new"] /\ opBatch = {}
         /\ tmSt = [t \in Timers |-> "new"]
         /\ jobSt = [j \in Jobs |-> "new"]
         /\ jobTaken = [j \in Jobs |-> FALSE]
         /\ got = [s \in Srcs |-> FALSE]
         /\ regSig = FALSE /\ hEdge = FALSE /\ hReady = FALSE /\ tmo = "none" /\ wres = "none"
         /\ fin = [t \in Tasks |-> FALSE] /\ done = FALSE /\ skipped = FALSE /\ hasC = FALSE

\* ------------------------------------------------------------------ lifting Wakeup's actions
\* every completion entry posted (Wakeup counts the notifier's in cq) signals the registered eventfd and is an
\* edge for the host
SigCq == /\ regSig' = (regSig \/ (Driver = "iour" /\ cq' > cq))
         /\ hEdge' = (hEdge \/ cq' > cq)
XRestE == <<host, mut, xpc, opSt, opBatch, tmSt, jobSt, jobTaken, got, hReady, tmo, wres, fin, done, skipped, hasC>>
\* an action of another thread / of the kernel
LiftE(A) == A /\ SigCq /\ UNCHANGED XRestE
\* a segment of the runtime thread that touches nothing of this module
LiftR(A) == xpc = "run" /\ A /\ SigCq /\ UNCHANGED XRestE

\* everything of Wakeup except flag, efd, cq, owed, hot, pcR
WRest == <<armed, sqNotif, needPush, batch, syncq, pending, sched, scheduling, reg, cond, seen, pcW, wNotified,
           needWait, drained, inKernel, lastPopped, extNotified, lastOv>>

\* the driver's waker called on the runtime thread (Notify::wake_by_ref: fetch_or, write iff the flag was IDLE)
LocalWake(yes) ==
  IF yes THEN /\ flag' = OrN(flag)
              /\ (IF flag = IDLE THEN WriteEffects ELSE UNCHANGED <<efd, cq, owed>>)
         ELSE UNCHANGED <<flag, efd, cq, owed>>

\* wakers of the owners in S are invoked on the runtime thread: a live task becomes hot (Local::schedule) and the
\* driver's waker is called; the main future's waker IS the driver's waker; a finished task's waker does nothing
Live(S) == {T \in S : T = "main" \/ (T \in Tasks /\ ~fin[T])}
HotAdd(h, T, S) == IF T \in Tasks /\ T \in Live(S) /\ ~InSeq(h, T) THEN Append(h, T) ELSE h
WakeOwners(S) == /\ hot' = HotAdd(HotAdd(hot, "t1", S), "t2", S)
                 /\ LocalWake(Live(S) # {})

\* ------------------------------------------------------------------ what a poll of target T does
Completed(s) == IF s \in Ops THEN opSt[s] = "done" ELSE IF s \in Timers THEN tmSt[s] = "fired" ELSE jobTaken[s]
XPollEffects(T) ==
  /\ opSt' = [o \in Ops |-> IF Owner[o] = T /\ opSt[o] = "new" THEN (IF Driver = "iour" THEN "sq" ELSE "kernel") ELSE opSt[o]]
  /\ tmSt' = [t \in Timers |-> IF Owner[t] = T /\ tmSt[t] = "new" THEN "armed" ELSE tmSt[t]]
  \* (a job nobody waits for: the main future dispatches it in its first poll and lets go of it)
  /\ jobSt' = [j \in Jobs |-> IF (Owner[j] = T \/ (T = "main" /\ Owner[j] = "none")) /\ jobSt[j] = "new"
                                 THEN "running" ELSE jobSt[j]]
  /\ got' = [s \in Srcs |-> got[s] \/ (Owner[s] = T /\ Completed(s))]
\* T has everything it waits for (evaluated on the primed state of a poll)
TReady(T) == /\ \A s \in Srcs : Owner[s] = T => got'[s]
             /\ \A w \in Wakers : Target[w] = T => seen'[w]
             /\ (T = "main" => \A t \in Tasks : fin[t])

\* [x.main] poll the future given to execute()
XPollMain ==
  /\ xpc = "run" /\ ~done /\ RPollMain /\ SigCq
  /\ XPollEffects("main")
  /\ done' = TReady("main")
  /\ UNCHANGED <<host, mut, xpc, opBatch, jobTaken, hReady, tmo, wres, fin, skipped, hasC>>

\* [x.task] Task::run of the head of the hot queue; a finished task is not polled any more
XRunTask ==
  /\ xpc = "run" /\ RRunTask /\ SigCq
  /\ LET t == Head(hot) IN
       IF fin[t]
         THEN UNCHANGED <<opSt, tmSt, jobSt, got, fin, xpc>>
         ELSE /\ XPollEffects(t)
              /\ fin' = [fin EXCEPT ![t] = TReady(t)]
              /\ xpc' = IF TReady(t) THEN "joinwake" ELSE "run"
  /\ UNCHANGED <<host, mut, opBatch, jobTaken, hReady, tmo, wres, done, skipped, hasC>>

\* the finished task wakes its JoinHandle, which the main future holds: the driver's waker
XJoinWake ==
  /\ xpc = "joinwake"
  /\ LocalWake(TRUE) /\ SigCq
  /\ xpc' = "run"
  /\ UNCHANGED <<hot, pcR>> /\ UNCHANGED WRest
  /\ UNCHANGED <<host, mut, opSt, opBatch, tmSt, jobSt, jobTaken, got, hReady, tmo, wres, fin, done, skipped, hasC>>

\* ------------------------------------------------------------------ run(): the rest of the tick is Wakeup's
SubmitOps == opSt' = [o \in Ops |-> IF opSt[o] = "sq" THEN "kernel" ELSE opSt[o]]
XRestSub == <<host, mut, xpc, opBatch, tmSt, jobSt, jobTaken, got, hReady, tmo, wres, fin, done, skipped, hasC>>

\* ------------------------------------------------------------------ [drv.flush] remaining_tasks |= flush()
Flushing == mut # "noFlush" /\ ~done
XFlushArm   == pcR = "flush" /\ Flushing /\ LiftR(RFlushArm)
XFlush      == /\ (pcR = "flush" => Flushing) /\ xpc = "run" /\ RFlush /\ SigCq /\ SubmitOps /\ UNCHANGED XRestSub
XFlushLeave == LiftR(RFlushLeave)
\* [awake.reset] inside flush, then (same segment) `| !self.completed_rx.is_empty()`; the loop goes on to choose the timeout
XFlushReset == /\ (pcR = "flush" => Flushing) /\ xpc = "run" /\ RFlushReset /\ SigCq
               /\ xpc' = "decide"
               /\ hasC' = (FlushSeesCompleted /\ SentUntaken # {})
               /\ UNCHANGED <<host, mut, opSt, opBatch, tmSt, jobSt, jobTaken, got, hReady, tmo, wres, fin, done, skipped>>
\* control "noFlush": drive() does not call flush at all
XNoFlush == /\ xpc = "run" /\ pcR = "flush" /\ mut = "noFlush" /\ ~done
            /\ pcR' = "extWait" /\ extNotified' = FALSE /\ xpc' = "decide" /\ hasC' = FALSE
            /\ UNCHANGED <<flag, efd, armed, sqNotif, needPush, cq, batch, owed, syncq, pending, sched, scheduling, hot, reg,
                           cond, seen, pcW, wNotified, needWait, drained, inKernel, lastPopped, lastOv>>
            /\ UNCHANGED <<host, mut, opSt, opBatch, tmSt, jobSt, jobTaken, got, regSig, hEdge, hReady, tmo, wres, fin, done, skipped>>

\* ------------------------------------------------------------------ the adapter
AU == <<flag, efd, armed, sqNotif, needPush, cq, batch, owed, syncq, pending, sched, scheduling, hot, reg,
        cond, seen, pcW, wNotified, needWait, drained, inKernel, lastPopped, extNotified, lastOv>>   \* vars without pcR

\* timeout = if remaining_tasks { ZERO } else { current_timeout() }
ADecide ==
  /\ xpc = "decide" /\ pcR = "extWait"
  /\ tmo' = IF hot # <<>> \/ ((extNotified \/ hasC) /\ mut # "ignoreFlush") THEN "zero"
            ELSE IF mut # "noTimeout" /\ \E t \in Timers : tmSt[t] \in {"armed", "due"} THEN "timer"
            ELSE "none"
  /\ xpc' = "wait"
  /\ UNCHANGED pcR /\ UNCHANGED AU
  /\ UNCHANGED <<host, mut, opSt, opBatch, tmSt, jobSt, jobTaken, got, regSig, hEdge, hReady, wres, fin, done, skipped, hasC>>

\* [x.wait.enter] first poll of Adapter::wait(timeout).
\*   tokio:   AsyncFd::readable() is ready iff the cached readiness is set; clear_ready follows at once (the tick
\*            stored in the guard keeps a newer event alive, so "observe and clear" is one step); otherwise the task
\*            yields to the host - also with a ZERO timeout: tokio's Sleep rounds up to its next millisecond tick,
\*            the reactor runs before it fires (measured: 2 ms for a zero timeout on an idle descriptor).
\*   futures: the first poll of Async::readable() registers the interest and is Pending; Timer::after(ZERO) is ready
\*            at its first poll: TimedOut without yielding.
AWaitPoll ==
  /\ xpc = "wait"
  /\ IF host = "tokio" /\ hReady
       THEN hReady' = FALSE /\ wres' = "ready" /\ xpc' = "clear"
       ELSE IF host = "futures" /\ tmo = "zero"
         THEN wres' = "timedout" /\ xpc' = "clear" /\ UNCHANGED hReady
         ELSE xpc' = "parked" /\ UNCHANGED <<hReady, wres>>
  /\ UNCHANGED pcR /\ UNCHANGED AU
  /\ UNCHANGED <<host, mut, opSt, opBatch, tmSt, jobSt, jobTaken, got, regSig, hEdge, tmo, fin, done, skipped, hasC>>

\* the host's reactor harvests its poller.  tokio registers edge-triggered: the kernel reports the queued
\* notification only if the descriptor is still readable when the reactor looks (ep_item_poll)
HTurn ==
  /\ host = "tokio" /\ hEdge
  /\ (AnyTurn \/ xpc = "parked")
  /\ hEdge' = FALSE /\ hReady' = (hReady \/ Level)
  /\ UNCHANGED vars
  /\ UNCHANGED <<host, mut, xpc, opSt, opBatch, tmSt, jobSt, jobTaken, got, regSig, tmo, wres, fin, done, skipped, hasC>>

\* the parked wait returns: readiness (tokio: cached bit, futures: the reactor sees the descriptor readable) ...
AWakeReady ==
  /\ xpc = "parked"
  /\ IF host = "tokio" THEN hReady ELSE Level
  /\ hReady' = FALSE /\ wres' = "ready" /\ xpc' = "clear"
  /\ UNCHANGED pcR /\ UNCHANGED AU
  /\ UNCHANGED <<host, mut, opSt, opBatch, tmSt, jobSt, jobTaken, got, regSig, hEdge, tmo, fin, done, skipped, hasC>>
\* ... or the host's timer (armed with current_timeout(), the earliest deadline of the wheel)
TimeoutNow == tmo = "zero" \/ (tmo = "timer" /\ \E t \in Timers : tmSt[t] = "due")
AWakeTimeout ==
  /\ xpc = "parked" /\ TimeoutNow
  /\ wres' = "timedout" /\ xpc' = "clear"
  /\ UNCHANGED pcR /\ UNCHANGED AU
  /\ UNCHANGED <<host, mut, opSt, opBatch, tmSt, jobSt, jobTaken, got, regSig, hEdge, hReady, tmo, fin, done, skipped, hasC>>

\* [x.clear] Adapter::clear(): read the registered eventfd (nothing to do on the polling driver); then poll_with(ZERO)
AClear ==
  /\ xpc = "clear" /\ pcR = "extWait"
  /\ regSig' = (regSig /\ mut = "clearAfterPoll")
  /\ pcR' = "reset" /\ xpc' = "pollb"
  /\ UNCHANGED AU
  /\ UNCHANGED <<host, mut, opSt, opBatch, tmSt, jobSt, jobTaken, got, hEdge, hReady, tmo, wres, fin, done, skipped, hasC>>

\* ------------------------------------------------------------------ [drv.poll] poll_with(ZERO) = Proactor::poll(ZERO) + timers
JobOwners(S) == {Owner[j] : j \in S}

\* io_uring: `let has_blocking = self.poll_blocking()` - the entries of the completed channel are delivered
\* (set_result wakes the owner); poll then goes on with need_wait = !reset() && !has_blocking: reset, arm, submit without
\* waiting, set_awake, poll_entries, set_awake.
\* As it was (control "oldPollBlocking"): `if self.poll_blocking() { return Ok(()) }` - no reset, no submit, no
\* set_awake, the completion queue is NOT drained
XPollBlocking ==
  /\ xpc = "pollb" /\ pcR = "reset" /\ Driver = "iour" /\ SentUntaken # {}
  /\ jobTaken' = [j \in Jobs |-> jobTaken[j] \/ j \in SentUntaken]
  /\ WakeOwners(JobOwners(SentUntaken)) /\ SigCq
  /\ IF DrainAfterBlocking THEN pcR' = pcR /\ xpc' = "run" /\ hasC' = TRUE
                           ELSE pcR' = "pollMain" /\ xpc' = "timers" /\ hasC' = FALSE
  /\ skipped' = (~DrainAfterBlocking /\ (cq' > 0 \/ \E o \in Ops : opSt[o] = "cqe"))
  /\ UNCHANGED WRest
  /\ UNCHANGED <<host, mut, opSt, opBatch, tmSt, jobSt, got, hReady, tmo, wres, fin, done>>

\* nothing in the completed channel (io_uring) / polling driver: has_completed is read here, before the reset
XPollNoBlocking ==
  /\ xpc = "pollb" /\ pcR = "reset" /\ (Driver = "iour" => SentUntaken = {})
  /\ hasC' = (Driver = "poll" /\ SentUntaken # {})
  /\ xpc' = "run"
  /\ UNCHANGED vars
  /\ UNCHANGED <<host, mut, opSt, opBatch, tmSt, jobSt, jobTaken, got, regSig, hEdge, hReady, tmo, wres, fin, done, skipped>>
\* [awake.reset]
XReset == LiftR(RReset)
XArm   == LiftR(RArm)
XEnter == xpc = "run" /\ REnter /\ SigCq /\ SubmitOps /\ UNCHANGED XRestSub

\* io_uring, submit_auto(ZERO, need_wait): with need_wait the call asks for one completion; none there = TimedOut,
\* and `?` leaves poll before set_awake / poll_entries / set_awake.  need_wait = !reset() && !has_blocking
TimedOutCase == Driver = "iour" /\ needWait /\ ~hasC /\ cq = 0 /\ \A o \in Ops : opSt[o] # "cqe"
XLeaveTimedOut ==
  /\ xpc = "run" /\ pcR = "leave" /\ TimedOutCase
  /\ pcR' = "pollMain" /\ xpc' = "timers"
  /\ UNCHANGED AU
  /\ UNCHANGED <<host, mut, opSt, opBatch, tmSt, jobSt, jobTaken, got, regSig, hEdge, hReady, tmo, wres, fin, done, hasC>>
  /\ skipped' = FALSE
\* [drv.wait.leave]; polling driver: Poller::wait returned the pending events
XLeave ==
  /\ xpc = "run" /\ ~TimedOutCase /\ RLeave /\ SigCq
  /\ opBatch' = IF Driver = "poll" THEN {o \in Ops : opSt[o] = "cqe"} ELSE opBatch
  /\ UNCHANGED <<host, mut, xpc, opSt, tmSt, jobSt, jobTaken, got, hReady, tmo, wres, fin, done, skipped, hasC>>
\* [awake.set] first; io_uring: poll_entries starts iterating a snapshot of the completion queue;
\* polling driver (external mode): Wakeup returns to the loop from here - the events are handled first
XAwake1 ==
  /\ xpc = "run" /\ RAwake1 /\ SigCq
  /\ opBatch' = IF Driver = "iour" THEN {o \in Ops : opSt[o] = "cqe"} ELSE opBatch
  /\ xpc' = IF Driver = "poll" THEN (IF opBatch # {} \/ SentUntaken # {} THEN "entries" ELSE "timers") ELSE "run"
  /\ UNCHANGED <<host, mut, opSt, tmSt, jobSt, jobTaken, got, hReady, tmo, wres, fin, done, hasC>>
  /\ skipped' = FALSE
XClearN == LiftR(RClear)
\* the operation entries of the snapshot: Entry::notify -> set_result -> the owner's waker.
\* polling driver: no event = poll_completed (everything in the channel now) and return; events = poll_completed only
\* if has_completed was set at the start, the events, then a second set_awake (with_events)
EntriesHere == \/ (Driver = "iour" /\ xpc = "run" /\ pcR = "awake2" /\ opBatch # {})
               \/ (Driver = "poll" /\ xpc = "entries")
XEntries ==
  /\ EntriesHere
  /\ LET js == IF Driver = "poll" /\ (opBatch = {} \/ hasC) THEN SentUntaken ELSE {} IN
       /\ opSt' = [o \in Ops |-> IF o \in opBatch THEN "done" ELSE opSt[o]]
       /\ jobTaken' = [j \in Jobs |-> jobTaken[j] \/ j \in js]
       /\ WakeOwners({Owner[o] : o \in opBatch} \cup JobOwners(js)) /\ SigCq
  /\ opBatch' = {}
  /\ xpc' = IF Driver = "poll" THEN (IF opBatch # {} THEN "pset2" ELSE "timers") ELSE "run"
  /\ UNCHANGED pcR /\ UNCHANGED WRest
  /\ UNCHANGED <<host, mut, tmSt, jobSt, got, hReady, tmo, wres, fin, done, skipped, hasC>>
\* polling driver, [awake.set] second: with_events "clears the notification state to avoid empty loops"
XPollSet2 ==
  /\ xpc = "pset2"
  /\ flag' = AWAKE /\ xpc' = "timers"
  /\ UNCHANGED <<efd, cq, owed, hot, pcR>> /\ UNCHANGED WRest
  /\ UNCHANGED <<host, mut, opSt, opBatch, tmSt, jobSt, jobTaken, got, regSig, hEdge, hReady, tmo, wres, fin, done, skipped, hasC>>
\* [awake.set] second, end of Proactor::poll
XAwake2 ==
  /\ xpc = "run" /\ opBatch = {} /\ RAwake2 /\ SigCq
  /\ xpc' = "timers"
  /\ UNCHANGED <<host, mut, opSt, opBatch, tmSt, jobSt, jobTaken, got, hReady, tmo, wres, fin, done, skipped, hasC>>
\* timer_runtime.wake(): every entry of the wheel whose deadline has passed is removed and its waker invoked.
\* control "clearAfterPoll": the adapter's clear() comes here instead of before poll_with
XTimers ==
  /\ xpc = "timers" /\ pcR = "pollMain"
  /\ LET due == {t \in Timers : tmSt[t] = "due"} IN
       /\ tmSt' = [t \in Timers |-> IF t \in due THEN "fired" ELSE tmSt[t]]
       /\ WakeOwners({Owner[t] : t \in due})
  /\ hEdge' = (hEdge \/ cq' > cq)
  /\ regSig' = IF mut = "clearAfterPoll" THEN FALSE ELSE (regSig \/ (Driver = "iour" /\ cq' > cq))
  /\ xpc' = "run"
  /\ UNCHANGED pcR /\ UNCHANGED WRest
  /\ UNCHANGED <<host, mut, opSt, opBatch, jobSt, jobTaken, got, hReady, tmo, wres, fin, done, skipped, hasC>>

\* ------------------------------------------------------------------ environment
\* the descriptor of an operation becomes ready: the kernel posts its completion entry (io_uring: the registered
\* eventfd is signalled) / the poller queues an event
KOpReady(o) ==
  /\ opSt[o] = "kernel"
  /\ opSt' = [opSt EXCEPT ![o] = "cqe"]
  /\ regSig' = (regSig \/ Driver = "iour") /\ hEdge' = TRUE
  /\ UNCHANGED vars
  /\ UNCHANGED <<host, mut, xpc, opBatch, tmSt, jobSt, jobTaken, got, hReady, tmo, wres, fin, done, skipped, hasC>>
\* a deadline passes
TimeDue(t) ==
  /\ tmSt[t] = "armed"
  /\ tmSt' = [tmSt EXCEPT ![t] = "due"]
  /\ UNCHANGED vars
  /\ UNCHANGED <<host, mut, xpc, opSt, opBatch, jobSt, jobTaken, got, regSig, hEdge, hReady, tmo, wres, fin, done, skipped, hasC>>
\* pool thread (push_blocking's closure): completed.send(entry) ...
JSend(j) ==
  /\ jobSt[j] = "running"
  /\ jobSt' = [jobSt EXCEPT ![j] = "sent"]
  /\ UNCHANGED vars
  /\ UNCHANGED <<host, mut, xpc, opSt, opBatch, tmSt, jobTaken, got, regSig, hEdge, hReady, tmo, wres, fin, done, skipped, hasC>>
\* ... waker.wake(): [awake.wake] fetch_or(NOTIFIED) ...
JFetchOr(j) ==
  /\ jobSt[j] = "sent"
  /\ flag' = OrN(flag)
  /\ jobSt' = [jobSt EXCEPT ![j] = IF flag = IDLE THEN "write" ELSE "woke"]
  /\ UNCHANGED <<efd, cq, owed, hot, pcR>> /\ UNCHANGED WRest
  /\ UNCHANGED <<host, mut, xpc, opSt, opBatch, tmSt, jobTaken, got, regSig, hEdge, hReady, tmo, wres, fin, done, skipped, hasC>>
\* ... [notify.write] iff the flag was IDLE
JWrite(j) ==
  /\ jobSt[j] = "write"
  /\ WriteEffects /\ SigCq
  /\ jobSt' = [jobSt EXCEPT ![j] = "woke"]
  /\ UNCHANGED <<flag, hot, pcR>> /\ UNCHANGED WRest
  /\ UNCHANGED <<host, mut, xpc, opSt, opBatch, tmSt, jobTaken, got, hReady, tmo, wres, fin, done, skipped, hasC>>
JStep(j) == JSend(j) \/ JFetchOr(j) \/ JWrite(j)

\* ------------------------------------------------------------------ the whole
Finished == done /\ pcR = "flush" /\ xpc = "run"
Terminated == Finished /\ UNCHANGED allvars

XRStep == \/ XPollMain \/ LiftR(RDrainLoad) \/ LiftR(RPopped) \/ LiftR(RDrainSub) \/ XRunTask \/ XJoinWake
          \/ XFlushArm \/ XFlush \/ XFlushLeave \/ XFlushReset \/ XNoFlush
          \/ ADecide \/ AWaitPoll \/ AWakeReady \/ AWakeTimeout \/ AClear
          \/ XPollBlocking \/ XPollNoBlocking \/ XReset \/ XArm \/ XEnter \/ XLeaveTimedOut \/ XLeave \/ XAwake1 \/ XClearN \/ XEntries
          \/ XAwake2 \/ XPollSet2 \/ XTimers
XWStep(w) == LiftE(WStep(w))
XKPost == LiftE(KPost)
XEnv == \/ XKPost \/ HTurn
        \/ \E w \in Wakers : XWStep(w)
        \/ \E o \in Ops : KOpReady(o)
        \/ \E t \in Timers : TimeDue(t)
        \/ \E j \in Jobs : JStep(j)
XNext == XRStep \/ XEnv \/ Terminated

XSpec == XInit /\ [][XNext]_allvars
XFairSpec == /\ XSpec
             /\ WF_allvars(XRStep) /\ WF_allvars(XKPost) /\ WF_allvars(HTurn)
             /\ \A w \in Wakers : WF_allvars(XWStep(w))
             /\ \A o \in Ops : WF_allvars(KOpReady(o))
             /\ \A t \in Timers : WF_allvars(TimeDue(t))
             /\ \A j \in Jobs : WF_allvars(JStep(j))

\* ------------------------------------------------------------------ properties
XTypeOK == /\ xpc \in {"run", "joinwake", "decide", "wait", "parked", "clear", "pollb", "entries", "pset2", "timers"}
           /\ tmo \in {"zero", "timer", "none"} /\ wres \in {"ready", "timedout", "none"}
           /\ opBatch \subseteq Ops
Real == mut = "none"
Parked == xpc = "parked"

\* the host is never allowed to sleep while something the program submitted has not reached the kernel, or while a
\* cross-thread wake could not make the waited descriptor readable (notifier not armed)
Submitted == Parked => /\ \A o \in Ops : opSt[o] # "sq"
                       /\ (Driver = "iour" => armed /\ ~sqNotif)
\* a pending timer bounds the sleep
TimerCovered == (Parked /\ \E t \in Timers : tmSt[t] \in {"armed", "due"}) => tmo \in {"timer", "zero"}
\* will the parked wait return without anything new happening?
WillWake == IF host = "tokio" THEN (hReady \/ (hEdge /\ Level)) ELSE Level
\* NO COMPLETION IS LOST: the host does not sleep without bound over a completion that sits unprocessed in the
\* completion queue / the poller / the completed channel unless the waited descriptor will report it
\* (a notifier completion carries nothing itself: the wake-up it stands for is the subject of NeverStuckX)
UnprocessedCompletion == \/ \E o \in Ops : opSt[o] = "cqe"
                         \/ \E j \in Jobs : jobSt[j] = "woke" /\ ~jobTaken[j]
\* (a thread that is in the middle of a wake-up will end the sleep: flag IDLE -> eventfd write -> completion)
SigInFlight == \/ owed > 0 \/ \E w \in Wakers : pcW[w] \notin {"begin", "done"}
               \/ \E j \in Jobs : jobSt[j] \in {"sent", "write"}
NoStrandedCompletion == (Parked /\ tmo = "none" /\ UnprocessedCompletion /\ ~SigInFlight) => WillWake
\* NO WAKE-UP IS LOST (Wakeup!Stuck carried over to the adapter's wait): parked without bound, nothing in flight
\* anywhere, the wait will not return, and somebody has not been polled since its condition was set
Quiet == /\ \A w \in Wakers : pcW[w] = "done"
         /\ owed = 0
         /\ \A o \in Ops : opSt[o] # "kernel"
         /\ \A j \in Jobs : jobSt[j] \in {"new", "woke"}
         /\ \A t \in Timers : tmSt[t] # "armed"
XStuck == Parked /\ ~WillWake /\ Quiet /\ ~TimeoutNow
NeverStuckX == ~XStuck

\* REPAIRED (fixed finding C03-compat-blocking-completion-wake-wiped, control "oldFlush"): an entry of the completed
\* channel whose Notify::wake fell between the two set_awake of Proactor::poll (io_uring: around poll_entries; polling:
\* around the event loop of with_events) was invisible to flush(): the second set_awake wipes NOTIFIED and the host
\* slept over the entry.  The predicate names the state the old behaviour strands (no checked property refers to it any
\* more; Gen_CompatLoop marks the schedules in which flush's look at the channel is decisive: hit1)
BlockingDeviation == \E j \in Jobs : jobSt[j] = "woke" /\ ~jobTaken[j]
\* REPAIRED (fixed finding C03-compat-iour-poll-blocking-skips-drain, control "oldPollBlocking"): poll returned after
\* poll_blocking although the adapter had already consumed the eventfd signal of completions that are still in the
\* queue (needs an entry whose set_result wakes nobody, otherwise the owner's wake rescues the round)
SkippedDeviation == Driver = "iour" /\ skipped
Strict == Submitted /\ TimerCovered /\ NoStrandedCompletion /\ NeverStuckX
\* the code as it is: the strict property, no allowance
RealSafe == Real => Strict
\* one invariant per control: the mutated loop must break it
CtlClearAfterPoll == mut = "clearAfterPoll" => (NoStrandedCompletion /\ NeverStuckX)
CtlIgnoreFlush    == mut = "ignoreFlush" => NeverStuckX
CtlNoTimeout      == mut = "noTimeout" => TimerCovered
CtlNoFlush        == mut = "noFlush" => (Submitted /\ NeverStuckX)
\* the repaired defects switched back on: each alone (and both) must break the strict property
CtlOldFlush        == mut = "oldFlush" => Strict
CtlOldPollBlocking == mut = "oldPollBlocking" => Strict
CtlOld             == mut = "old" => Strict

\* liveness (fair specification, no state constraint): the future given to execute() completes - which needs every
\* wake-up, completion and timer of the program to be delivered
Completes == <>(~Real \/ Finished)
WakeSeen == \A w \in Wakers : (Real /\ cond[w]) ~> seen[w]
OpSeen == \A o \in Ops : (Real /\ Owner[o] # "none" /\ opSt[o] = "kernel") ~> got[o]
TimerSeen == \A t \in Timers : (Real /\ tmSt[t] = "armed") ~> got[t]
JobSeen == \A j \in Jobs : (Real /\ Owner[j] # "none" /\ jobSt[j] = "running") ~> got[j]
=============================================================================
