CONSTANTS
  Handles = {"h1"}
  Ops = {}
  InitLive = {"h1"}
  Variant = "sync"
  AllowClone = FALSE
  AllowTake2 = FALSE
  AllowCancel = FALSE
  AllowSpurious = FALSE
  FileLayer = FALSE
  SilentRelease = FALSE
  ForgetsHandle = FALSE
  MaxMigrate = 1
  RegisterOnce = FALSE
SPECIFICATION GSpec
INVARIANTS Emit
