CONSTANTS
  Ops = {"o1", "o2", "o3", "o4"}
SPECIFICATION TSpec
INVARIANTS Report
POSTCONDITION Accepted
CHECK_DEADLOCK FALSE
