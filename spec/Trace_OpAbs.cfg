CONSTANTS
  Ops = {"o1", "o2", "o3", "o4", "o5", "o6", "o7", "o8"}
SPECIFICATION TSpec
INVARIANTS Report
POSTCONDITION Accepted
CHECK_DEADLOCK FALSE
