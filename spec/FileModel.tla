------------------------------ MODULE FileModel ------------------------------
(* C08 - File and pipe I/O matches the OS, identically on every driver.

   Reference model of the OS semantics that compio-fs promises (files as byte
   sequences, positional / cursor / vectored reads and writes, buffer shapes,
   append, truncate, open options, a tiny namespace for the directory
   utilities, anonymous pipes) together with an implementation-shaped part:
   every API operation is executed through one of the driver paths the code
   has for it,

     IourEntry         io_uring submission entry      (op/general/iour.rs, op/fs/iour.rs)
     PollPool          polling driver, Decision::Blocking -> thread pool (files; no aio on linux)
     PollReady         polling driver, wait for readiness then operate   (pipes)
     BlockingFallback  call_blocking of the io_uring OpCode             (op/unix.rs call())

   and the parameters every path hands to the kernel are derived the way the
   code derives them (pointer/length pairs from the buffer traits, offset as
   written).  Each step records the result obtained through the path (res) and
   the result of the OS's own synchronous call for the same request (ref); the
   invariant PathsAgree says they are equal.  Four deviations of the pinned
   tree (d4dae75) were found with this model and repaired in /repo; they are
   kept as switches (constant Devs, empty for the current tree) so that the
   control configuration MC_FileModel_old.cfg with the old behaviour must
   violate PathsAgree:

     DevIourReadvAtInitLens   io_uring ReadVectoredAt::init uses sys_slices() (initialized lengths)
     DevReadvInitLens         ReadVectored::init uses sys_slices() on both drivers (pipes)
     DevIourOffsetMaxIsCursor offset u64::MAX on io_uring means "current file position"
     DevOpenFallbackFd0       OpenFile through call_blocking hands out descriptor 0

   After a deviation took effect (res # ref) the behaviour ends: the state of
   the OS reference and of the implementation are no longer the same.        *)
EXTENDS Integers, Sequences, FiniteSets, TLC

CONSTANTS Devs,        \* deviations switched on: subset of AllDevs (empty = the repaired tree)
          Groups,      \* subset of {"data","open","ns","pipe"}
          Drivers,     \* subset of {"iour","poll","iour_blk"}
          MaxOps,
          InitFiles,   \* initial contents of file "f" (data group)
          Offsets,     \* offsets of positional ops; MAXOFF stands for u64::MAX
          RBufs,       \* scalar destination buffers  [len, cap]
          WBufs,       \* scalar source buffers       [n, cap]   (n initialized bytes)
          VRBufs,      \* vectored destinations: sequences of [len, cap]
          VWBufs,      \* vectored sources: sequences of [n, cap]
          VOffsets,    \* offsets of the vectored positional ops
          SetLens,
          PlainData,   \* subset of {"sync_all","sync_data","metadata"}
          CurBufs,     \* buffers of the cursor-style reads ([len,cap])
          CurWBufs,    \* buffers of the cursor-style writes ([n,cap])
          AppendModes, \* subset of BOOLEAN: data-group handle opened with O_APPEND
          OpenOpts,    \* records [r,w,t,c,cn,app]
          OpenPaths,
          OpenData,    \* subset of data op names allowed in the open group
          NsInits,     \* subset of {"f","fd"}: initial namespaces of the ns group
          NsOps,       \* set of ns op records (see NsEff)
          PWBufs, PRBufs, PVWBufs, PVRBufs

MAXOFF == -1
AllDevs == {"DevIourReadvAtInitLens", "DevReadvInitLens", "DevIourOffsetMaxIsCursor", "DevOpenFallbackFd0"}

VARIABLES grp, drv, st, last, steps
vars == <<grp, drv, st, last, steps>>

Min(a, b) == IF a < b THEN a ELSE b
Max(a, b) == IF a > b THEN a ELSE b
Zeros(k) == [i \in 1..k |-> 0]
RECURSIVE SumTo(_, _)
SumTo(s, k) == IF k <= 0 THEN 0 ELSE s[k] + SumTo(s, k - 1)
Sum(s) == SumTo(s, Len(s))
Sub(s, a, b) == IF b < a THEN <<>> ELSE SubSeq(s, a, b)
Drop(s, k) == Sub(s, k + 1, Len(s))
RECURSIVE Concat(_, _)
Concat(ss, k) == IF k <= 0 THEN <<>> ELSE Concat(ss, k - 1) \o ss[k]

\* ---------------------------------------------------------------------------
\* kernel primitives on a byte sequence
\* ---------------------------------------------------------------------------
KAvail(c, off) == IF off >= Len(c) THEN 0 ELSE Len(c) - off
KWrite(c, off, bytes) ==
  IF Len(bytes) = 0 THEN c
  ELSE LET pad == IF off > Len(c) THEN c \o Zeros(off - Len(c)) ELSE c
           end == off + Len(bytes)
       IN Sub(pad, 1, off) \o bytes \o Sub(pad, end + 1, Len(pad))
KTrunc(c, n) == IF n <= Len(c) THEN Sub(c, 1, n) ELSE c \o Zeros(n - Len(c))

\* iovec filling: lens = the lengths handed to the kernel, n = bytes transferred
Pre(lens, i) == SumTo(lens, i - 1)
Got(lens, n, i) == Min(lens[i], Max(0, n - Pre(lens, i)))

CapLens(bufs) == [i \in 1..Len(bufs) |-> bufs[i].cap]
InitLens(bufs) == [i \in 1..Len(bufs) |-> bufs[i].len]
SrcLens(bufs) == [i \in 1..Len(bufs) |-> bufs[i].n]

\* SetLenExt::advance_vec_to(n) + default_set_len (compio-buf/src/io_buf.rs) as written
AdvanceVec(bufs, n) ==
  IF n > Sum(InitLens(bufs))
  THEN [i \in 1..Len(bufs) |->
          LET rem == n - Pre(CapLens(bufs), i)
          IN IF rem > 0 THEN Min(bufs[i].cap, rem) ELSE bufs[i].len]
  ELSE InitLens(bufs)

\* results: e = "" or error kind, n = count, d = bytes delivered per member, bl = new member lengths
R(e, n, d, bl) == [e |-> e, n |-> n, d |-> d, bl |-> bl]
Ok(n) == R("", n, <<>>, <<>>)
Err(k) == R(k, 0, <<>>, <<>>)

\* a read of the byte sequence c at off into bufs with kernel lengths lens
ReadRes(c, off, bufs, lens, vec) ==
  LET n == Min(Sum(lens), KAvail(c, off))
      d == [i \in 1..Len(bufs) |->
              LET g == Got(lens, n, i) p == Pre(lens, i) IN Sub(c, off + p + 1, off + p + g)]
      bl == IF vec THEN AdvanceVec(bufs, n)
            ELSE <<IF n > bufs[1].len THEN n ELSE bufs[1].len>>     \* advance_to
  IN R("", n, d, bl)

\* bytes written at step s: distinguishable tags
Tag(total) == [k \in 1..total |-> 10 * (steps + 1) + k - 1]

\* ---------------------------------------------------------------------------
\* namespace
\* ---------------------------------------------------------------------------
Paths == {"f", "g", "d", "d/f", "d/e", "l"}
Parent(p) == IF p \in {"d/f", "d/e"} THEN "d" ELSE ""
Children(p) == {q \in Paths : Parent(q) = p}
NoneN == [k |-> "none", ino |-> 0, to |-> ""]
FileN(i) == [k |-> "file", ino |-> i, to |-> ""]
DirN == [k |-> "dir", ino |-> 0, to |-> ""]
SymN(t) == [k |-> "sym", ino |-> 0, to |-> t]
Inos == 1..(MaxOps + 4)

\* one level of symlink following (the generator keeps symlinks at "l" with plain targets)
Resolve(n, p) == IF n[p].k = "sym" THEN n[p].to ELSE p
ParentErr(n, p) == IF Parent(p) = "" THEN ""
                   ELSE IF n[Parent(p)].k = "none" THEN "NotFound"
                   ELSE IF n[Parent(p)].k # "dir" THEN "NotADirectory" ELSE ""
EmptyDir(n, p) == \A q \in Children(p) : n[q].k = "none"

NoFd == [open |-> FALSE, ino |-> 0, rd |-> FALSE, wr |-> FALSE, app |-> FALSE, pos |-> 0]
NoPipe == [made |-> FALSE, buf |-> <<>>, tx |-> FALSE, rx |-> FALSE, pw |-> <<>>, pr |-> <<>>]

EmptyNs == [p \in Paths |-> NoneN]
\* permission bits (st_mode & 07777, decimal).  The harness fixes the umask to 022 (libc::umask) and builds
\* the initial files with std::fs::write (0666 & ~022 = 0644).
DefaultMode == 438                     \* 0666, OpenOptions' default
InitPerm == 420                        \* 0644
ClearW(d) == IF (d \div 2) % 2 = 1 THEN d - 2 ELSE d
Masked(m) == (m \div 64) * 64 + ClearW((m \div 8) % 8) * 8 + ClearW(m % 8)      \* m & ~022
St0 == [ns |-> EmptyNs, data |-> [i \in Inos |-> <<>>], hi |-> [i \in Inos |-> 0], perm |-> [i \in Inos |-> 0], next |-> 1,
        fd |-> NoFd, cur |-> 0, pipe |-> NoPipe]

\* initial states per group
DataInit(c, app) == [St0 EXCEPT !.ns["f"] = FileN(1), !.data[1] = c, !.hi[1] = Len(c), !.perm[1] = InitPerm, !.next = 2,
                                !.fd = [open |-> TRUE, ino |-> 1, rd |-> TRUE, wr |-> TRUE, app |-> app, pos |-> 0]]
OpenInit(c) == IF c = <<>> THEN [St0 EXCEPT !.ns["d"] = DirN]       \* "f" absent
               ELSE [St0 EXCEPT !.ns["f"] = FileN(1), !.data[1] = c, !.hi[1] = Len(c), !.perm[1] = InitPerm, !.next = 2,
                                !.ns["d"] = DirN]
NsInit(k) == IF k = "f" THEN [St0 EXCEPT !.ns["f"] = FileN(1), !.data[1] = <<1, 2>>, !.hi[1] = 2, !.perm[1] = InitPerm, !.next = 2]
             ELSE [St0 EXCEPT !.ns["f"] = FileN(1), !.data[1] = <<1, 2>>, !.hi[1] = 2, !.perm[1] = InitPerm,
                              !.ns["d"] = DirN, !.ns["d/f"] = FileN(2), !.data[2] = <<3>>, !.hi[2] = 1, !.perm[2] = InitPerm,
                              !.next = 3]

NoLast == [o |-> "", path |-> "", res |-> Ok(0), ref |-> Ok(0), dev |-> FALSE]

Init == /\ grp \in Groups /\ drv \in Drivers
        /\ st \in (CASE grp = "data" -> {DataInit(c, a) : c \in InitFiles, a \in AppendModes}
                     [] grp = "open" -> {OpenInit(c) : c \in {<<>>, <<1, 2>>}}
                     [] grp = "ns"   -> {NsInit(k) : k \in NsInits}
                     [] grp = "pipe" -> {St0})
        /\ last = NoLast /\ steps = 0

\* ---------------------------------------------------------------------------
\* effects: [st, res, ref, dev]
\* ---------------------------------------------------------------------------
E(s, res, ref, dev) == [st |-> s, res |-> res, ref |-> ref, dev |-> dev]
Same(res) == E(st, res, res, FALSE)

\* op = [o: "read_at"|"readv_at"|"cread", off, bufs]
ReadEff(op, p) ==
  LET f == st.fd
      c == st.data[f.ino]
      vec == op.o = "readv_at"
      cursor == op.o = "cread"
      isMax == (~cursor) /\ op.off = MAXOFF
      offU == IF cursor THEN st.cur ELSE op.off
      \* DevIourOffsetMaxIsCursor: the entry passes the offset through; -1 = use and advance f_pos
      useFpos == isMax /\ p = "iour_entry" /\ "DevIourOffsetMaxIsCursor" \in Devs
      eoff == IF useFpos THEN f.pos ELSE offU
      caps == CapLens(op.bufs)
      initSl == vec /\ p = "iour_entry" /\ "DevIourReadvAtInitLens" \in Devs
      \* DevIourReadvAtInitLens: ctrl.slices = self.buffer.sys_slices()   (general/iour.rs)
      \* the polling driver uses init_vec_mut -> sys_slices_mut()        (general/poll.rs)
      sysl == IF initSl THEN InitLens(op.bufs) ELSE caps
      dev == (initSl /\ InitLens(op.bufs) # caps) \/ useFpos
      ref == IF isMax THEN Err("InvalidInput")
             ELSE IF ~f.rd THEN Err("BadFd") ELSE ReadRes(c, offU, op.bufs, caps, vec)
      res == IF isMax /\ ~useFpos THEN Err("InvalidInput")
             ELSE IF ~f.rd THEN Err("BadFd") ELSE ReadRes(c, eoff, op.bufs, sysl, vec)
      s1 == IF res.e = ""
            THEN [st EXCEPT !.fd.pos = IF useFpos THEN eoff + res.n ELSE @,
                            !.cur = IF cursor THEN @ + res.n ELSE @]
            ELSE st
  IN E(s1, res, ref, dev)

\* op = [o: "write_at"|"writev_at"|"cwrite", off, bufs]   (bufs: [n, cap]; the initialized part is sent)
WriteEff(op, p) ==
  LET f == st.fd
      c == st.data[f.ino]
      cursor == op.o = "cwrite"
      isMax == (~cursor) /\ op.off = MAXOFF
      offU == IF cursor THEN st.cur ELSE op.off
      useFpos == isMax /\ p = "iour_entry" /\ "DevIourOffsetMaxIsCursor" \in Devs
      total == Sum(SrcLens(op.bufs))
      bytes == Tag(total)
      eoff == IF f.app THEN Len(c) ELSE IF useFpos THEN f.pos ELSE offU     \* O_APPEND ignores the offset
      ref == IF isMax THEN Err("InvalidInput") ELSE IF ~f.wr THEN Err("BadFd") ELSE Ok(total)
      res == IF isMax /\ ~useFpos THEN Err("InvalidInput") ELSE IF ~f.wr THEN Err("BadFd") ELSE Ok(total)
      s1 == IF res.e = ""
            THEN [st EXCEPT !.data[f.ino] = KWrite(c, eoff, bytes),
                            !.hi[f.ino] = IF total > 0 THEN Max(@, eoff + total) ELSE @,
                            !.fd.pos = IF useFpos THEN eoff + total ELSE @,
                            !.cur = IF cursor THEN @ + total ELSE @]
            ELSE st
  IN E(s1, res, ref, useFpos)

SetLenEff(op) ==
  LET f == st.fd IN
  IF ~f.wr THEN Same(Err("InvalidInput"))
  ELSE LET s1 == [st EXCEPT !.data[f.ino] = KTrunc(@, op.n), !.hi[f.ino] = op.n] IN E(s1, Ok(0), Ok(0), FALSE)

SyncEff == Same(Ok(0))
MetaEff == Same(Ok(Len(st.data[st.fd.ino])))
CloseEff == E([st EXCEPT !.fd = NoFd, !.cur = 0], Ok(0), Ok(0), FALSE)

\* op = [o: "open", path, opt: [r,w,t,c,cn,app,tmp,mode]]
\* compio-fs/src/open_options/unix.rs get_access_mode / get_creation_mode | custom_flags (O_APPEND, O_TMPFILE),
\* mode, then openat.  A successful open reports the permission bits of the inode behind the descriptor.
\* DevOpenFallbackFd0: OpenFile::call (blocking fallback) stores the descriptor itself and returns
\* Ok(0); the io_uring OpCode's set_result then takes that 0 for the new descriptor, drops (closes)
\* the real one and hands out descriptor 0.  The file system effects (create, truncate) happened.
\*
\* The mode argument reaches the kernel on every path: IourEntry puts it into the SQE
\* (opcode::OpenAt .mode(self.mode.bits())), PollPool and BlockingFallback go through
\* OpenFile::call -> openat(dirfd, path, flags | CLOEXEC, self.mode).  The kernel uses it whenever an
\* inode is created: O_CREAT and O_TMPFILE (which has no O_CREAT).
\* MutOpenCallModeOnlyOnCreate (a mutation, control config MC_FileModel_mut_mode.cfg): OpenFile::call
\* passing the mode only together with O_CREAT.
KMode(o, pth) == IF "MutOpenCallModeOnlyOnCreate" \in Devs /\ pth \in {"poll_pool", "blocking_fallback"}
                    /\ ~(o.c \/ o.cn)
                 THEN 0 ELSE o.mode
OpenEff(op, pth) ==
  LET o == op.opt
      n == st.ns
      invalid == (~o.r /\ ~o.w) \/ (~o.w /\ (o.t \/ o.c \/ o.cn))
      pe == ParentErr(n, op.path)
      tp == IF o.cn THEN op.path ELSE Resolve(n, op.path)      \* O_EXCL does not follow a symlink
      node == n[tp]
      opened(s, i) == [s EXCEPT !.fd = [open |-> TRUE, ino |-> i, rd |-> o.r, wr |-> o.w, app |-> o.app, pos |-> 0],
                                !.cur = 0]
      \* res follows the path's mode argument, ref the OS's own call with the mode as given
      Opened(s, i, created) ==
        LET sres == IF created THEN [s EXCEPT !.perm[i] = Masked(KMode(o, pth))] ELSE s
            pres == sres.perm[i]
            pref == IF created THEN Masked(o.mode) ELSE s.perm[i]
        IN IF pth = "blocking_fallback" /\ "DevOpenFallbackFd0" \in Devs
           THEN E([sres EXCEPT !.fd = NoFd, !.cur = 0], Err("WrongDescriptor"), Ok(pref), TRUE)
           ELSE E(sres, Ok(pres), Ok(pref), FALSE)
      newfile == opened([st EXCEPT !.ns[tp] = FileN(st.next), !.next = @ + 1], st.next)
      \* O_TMPFILE: an anonymous inode in the directory tp, not linked into the namespace
      anon == opened([st EXCEPT !.next = @ + 1], st.next)
  IN IF invalid THEN Same(Err("InvalidInput"))
     ELSE IF o.tmp THEN
          \* build_open_flags: O_TMPFILE with O_CREAT, or without write access, is EINVAL before any lookup
          (IF o.c \/ o.cn \/ ~o.w THEN Same(Err("InvalidInput"))
           ELSE IF pe # "" THEN Same(Err(pe))
           ELSE IF node.k = "none" THEN Same(Err("NotFound"))
           ELSE IF node.k # "dir" THEN Same(Err("NotADirectory"))
           ELSE Opened(anon, st.next, TRUE))
     ELSE IF pe # "" THEN Same(Err(pe))
     ELSE IF o.cn THEN (IF node.k # "none" THEN Same(Err("AlreadyExists")) ELSE Opened(newfile, st.next, TRUE))
     ELSE IF node.k = "none" THEN (IF o.c THEN Opened(newfile, st.next, TRUE) ELSE Same(Err("NotFound")))
     ELSE IF node.k = "dir" THEN Same(Err("IsADirectory"))       \* only generated with write access
     ELSE LET s1 == IF o.t THEN [st EXCEPT !.data[node.ino] = <<>>, !.hi[node.ino] = 0] ELSE st
          IN Opened(opened(s1, node.ino), node.ino, FALSE)

\* ---------------------------------------------------------------------------
\* directory utilities (compio-fs/src/utils)
\* ---------------------------------------------------------------------------
MkdirErr(n, p) == IF ParentErr(n, p) # "" THEN ParentErr(n, p)
                  ELSE IF n[p].k # "none" THEN "AlreadyExists" ELSE ""
IsDirF(n, p) == n[Resolve(n, p)].k = "dir"               \* metadata(path).is_dir() follows symlinks

\* DirBuilder::create_dir_all as written (utils/mod.rs); returns [ns, e]
RECURSIVE CDA(_, _)
CDA(n, p) ==
  IF p = "" THEN [ns |-> n, e |-> ""]
  ELSE LET e1 == MkdirErr(n, p) IN
       IF e1 = "" THEN [ns |-> [n EXCEPT ![p] = DirN], e |-> ""]
       ELSE IF e1 # "NotFound" THEN (IF IsDirF(n, p) THEN [ns |-> n, e |-> ""] ELSE [ns |-> n, e |-> e1])
       ELSE LET r == CDA(n, Parent(p)) IN
            IF r.e # "" THEN r
            ELSE LET e2 == MkdirErr(r.ns, p) IN
                 IF e2 = "" THEN [ns |-> [r.ns EXCEPT ![p] = DirN], e |-> ""]
                 ELSE IF IsDirF(r.ns, p) THEN [ns |-> r.ns, e |-> ""] ELSE [ns |-> r.ns, e |-> e2]

NsRes(n1, e) == IF e = "" THEN E([st EXCEPT !.ns = n1], Ok(0), Ok(0), FALSE) ELSE Same(Err(e))

RenameEff(p, q) ==
  LET n == st.ns IN
  IF ParentErr(n, p) # "" THEN Same(Err(ParentErr(n, p)))
  ELSE IF ParentErr(n, q) # "" THEN Same(Err(ParentErr(n, q)))
  ELSE IF n[p].k = "none" THEN Same(Err("NotFound"))
  ELSE IF p = q THEN Same(Ok(0))
  ELSE IF Parent(q) = p THEN Same(Err("InvalidInput"))            \* directory into itself
  ELSE IF Parent(p) = q THEN Same(Err("DirectoryNotEmpty"))       \* target is an ancestor of the source
  ELSE IF n[p].k = "dir"
       THEN (IF n[q].k = "none" THEN NsRes([n EXCEPT ![q] = n[p], ![p] = NoneN], "")
             ELSE IF n[q].k # "dir" THEN Same(Err("NotADirectory"))
             ELSE IF ~EmptyDir(n, q) THEN Same(Err("DirectoryNotEmpty"))
             ELSE NsRes([n EXCEPT ![q] = n[p], ![p] = NoneN], ""))
  ELSE IF n[q].k = "dir" THEN Same(Err("IsADirectory"))
  ELSE IF n[q].k = "file" /\ n[p].k = "file" /\ n[q].ino = n[p].ino THEN Same(Ok(0))   \* same inode: no-op
  ELSE NsRes([n EXCEPT ![q] = n[p], ![p] = NoneN], "")

\* op = [o, p, q, n]
NsEff(op) ==
  LET n == st.ns p == op.p q == op.q IN
  CASE op.o = "create_dir" -> NsRes([n EXCEPT ![p] = DirN], MkdirErr(n, p))
    [] op.o = "create_dir_all" -> LET r == CDA(n, p) IN NsRes(r.ns, r.e)
    [] op.o = "remove_file" ->
         NsRes([n EXCEPT ![p] = NoneN],
               IF ParentErr(n, p) # "" THEN ParentErr(n, p) ELSE IF n[p].k = "none" THEN "NotFound"
               ELSE IF n[p].k = "dir" THEN "IsADirectory" ELSE "")
    [] op.o = "remove_dir" ->
         NsRes([n EXCEPT ![p] = NoneN],
               IF ParentErr(n, p) # "" THEN ParentErr(n, p) ELSE IF n[p].k = "none" THEN "NotFound"
               ELSE IF n[p].k # "dir" THEN "NotADirectory"
               ELSE IF ~EmptyDir(n, p) THEN "DirectoryNotEmpty" ELSE "")
    [] op.o = "rename" -> RenameEff(p, q)
    [] op.o = "hard_link" ->
         NsRes([n EXCEPT ![q] = n[p]],
               IF ParentErr(n, p) # "" THEN ParentErr(n, p) ELSE IF n[p].k = "none" THEN "NotFound"
               ELSE IF ParentErr(n, q) # "" THEN ParentErr(n, q)
               ELSE IF n[q].k # "none" THEN "AlreadyExists"
               ELSE IF n[p].k = "dir" THEN "PermissionDenied" ELSE "")
    [] op.o = "symlink" ->      \* link q pointing to p
         NsRes([n EXCEPT ![q] = SymN(p)],
               IF ParentErr(n, q) # "" THEN ParentErr(n, q) ELSE IF n[q].k # "none" THEN "AlreadyExists" ELSE "")
    [] op.o = "fs_read" ->
         LET tp == Resolve(n, p) IN
         IF ParentErr(n, p) # "" THEN Same(Err(ParentErr(n, p)))
         ELSE IF n[tp].k = "none" THEN Same(Err("NotFound"))
         ELSE IF n[tp].k = "dir" THEN Same(Err("IsADirectory"))
         ELSE LET c == st.data[n[tp].ino] IN Same(R("", Len(c), <<c>>, <<>>))
    [] op.o = "fs_write" ->     \* File::create + write_all_at(buf, 0)
         LET tp == Resolve(n, p) bytes == Tag(op.n) IN
         IF ParentErr(n, p) # "" THEN Same(Err(ParentErr(n, p)))
         ELSE IF n[tp].k = "dir" THEN Same(Err("IsADirectory"))
         ELSE IF n[tp].k = "none"
              THEN E([st EXCEPT !.ns[tp] = FileN(st.next), !.data[st.next] = bytes, !.hi[st.next] = op.n,
                                !.perm[st.next] = Masked(DefaultMode), !.next = @ + 1], Ok(0), Ok(0), FALSE)
              ELSE E([st EXCEPT !.data[n[tp].ino] = bytes, !.hi[n[tp].ino] = op.n], Ok(0), Ok(0), FALSE)
    [] op.o \in {"path_meta", "path_lmeta"} ->     \* metadata / symlink_metadata: n = len | -1 dir | -2 symlink
         LET tp == IF op.o = "path_meta" THEN Resolve(n, p) ELSE p IN
         IF ParentErr(n, p) # "" THEN Same(Err(ParentErr(n, p)))
         ELSE IF n[tp].k = "none" THEN Same(Err("NotFound"))
         ELSE Same(Ok(CASE n[tp].k = "dir" -> -1 [] n[tp].k = "sym" -> -2 [] OTHER -> Len(st.data[n[tp].ino])))

\* ---------------------------------------------------------------------------
\* anonymous pipes (compio-fs/src/pipe/mod.rs over AsyncFd read/write)
\* ---------------------------------------------------------------------------
PipeCreateEff == E([st EXCEPT !.pipe = [NoPipe EXCEPT !.made = TRUE, !.tx = TRUE, !.rx = TRUE]], Ok(0), Ok(0), FALSE)

\* op = [o: "pwrite"|"pwritev", bufs]
PWriteEff(op) ==
  LET total == Sum(SrcLens(op.bufs)) bytes == Tag(total) IN
  IF total = 0 THEN Same(Ok(0))                     \* a zero-length write returns before the reader check
  ELSE IF ~st.pipe.rx THEN Same(Err("BrokenPipe"))
  ELSE E([st EXCEPT !.pipe.buf = @ \o bytes, !.pipe.pw = @ \o bytes], Ok(total), Ok(total), FALSE)

\* op = [o: "pread"|"preadv", bufs]
PReadEff(op) ==
  LET vec == op.o = "preadv"
      caps == CapLens(op.bufs)
      \* DevReadvInitLens: ReadVectored::init uses sys_slices() in general/iour.rs AND general/poll.rs
      initSl == vec /\ "DevReadvInitLens" \in Devs
      sysl == IF initSl THEN InitLens(op.bufs) ELSE caps
      ref == ReadRes(st.pipe.buf, 0, op.bufs, caps, vec)
      res == ReadRes(st.pipe.buf, 0, op.bufs, sysl, vec)
      s1 == [st EXCEPT !.pipe.buf = Drop(@, res.n), !.pipe.pr = @ \o Sub(st.pipe.buf, 1, res.n)]
  IN E(s1, res, ref, initSl /\ InitLens(op.bufs) # caps)

\* ---------------------------------------------------------------------------
\* operations (uniform record so that sets of them are comparable)
\* ---------------------------------------------------------------------------
NoOpt == [r |-> FALSE, w |-> FALSE, t |-> FALSE, c |-> FALSE, cn |-> FALSE, app |-> FALSE, tmp |-> FALSE, mode |-> 438]
Op(o, off, bufs, n, p, q, opt) == [o |-> o, off |-> off, bufs |-> bufs, n |-> n, p |-> p, q |-> q, opt |-> opt]
BufOp(o, off, bufs) == Op(o, off, bufs, 0, "", "", NoOpt)
PlainOp(o) == Op(o, 0, <<>>, 0, "", "", NoOpt)
NsOp(o, p, q, n) == Op(o, 0, <<>>, n, p, q, NoOpt)

\* ForSomeOp(P): some operation of the current group satisfies P.  Written as nested quantifiers
\* over the small parameter sets (TLC would rebuild and normalise one big union per evaluation).
OpenDataOps ==
  {x \in {BufOp("read_at", 0, <<[len |-> 0, cap |-> 3]>>), BufOp("write_at", 0, <<[n |-> 2, cap |-> 2]>>),
          BufOp("write_at", 1, <<[n |-> 1, cap |-> 3]>>), PlainOp("metadata"),
          Op("set_len", 0, <<>>, 1, "", "", NoOpt)} : x.o \in OpenData}
ForSomeOp(P(_)) ==
  \/ /\ grp = "data"
     /\ \/ \E off \in Offsets, b \in RBufs : P(BufOp("read_at", off, <<b>>))
        \/ \E off \in Offsets, b \in WBufs : P(BufOp("write_at", off, <<b>>))
        \/ \E off \in VOffsets, bs \in VRBufs : P(BufOp("readv_at", off, bs))
        \/ \E off \in VOffsets, bs \in VWBufs : P(BufOp("writev_at", off, bs))
        \/ \E b \in CurBufs : P(BufOp("cread", 0, <<b>>))
        \/ \E b \in CurWBufs : P(BufOp("cwrite", 0, <<b>>))
        \/ \E n \in SetLens : P(Op("set_len", 0, <<>>, n, "", "", NoOpt))
        \/ \E o \in PlainData : P(PlainOp(o))
  \/ /\ grp = "open"
     /\ \/ \E p \in OpenPaths, o \in OpenOpts : P(Op("open", 0, <<>>, 0, p, "", o))
        \/ P(PlainOp("close"))
        \/ \E x \in OpenDataOps : P(x)
  \/ /\ grp = "ns"
     /\ \E x \in NsOps : P(x)
  \/ /\ grp = "pipe"
     /\ \/ \E o \in {"pipe_create", "close_tx", "close_rx"} : P(PlainOp(o))
        \/ \E b \in PWBufs : P(BufOp("pwrite", 0, <<b>>))
        \/ \E bs \in PVWBufs : P(BufOp("pwritev", 0, bs))
        \/ \E b \in PRBufs : P(BufOp("pread", 0, <<b>>))
        \/ \E bs \in PVRBufs : P(BufOp("preadv", 0, bs))

FileRW == {"read_at", "write_at", "readv_at", "writev_at", "cread", "cwrite", "sync_all", "sync_data"}
FileReads == {"read_at", "readv_at", "cread"}
PipeRW == {"pread", "preadv", "pwrite", "pwritev"}
\* ops whose io_uring OpCode defines call_blocking (op/fs/iour.rs, op/general/iour.rs Pipe)
HasFallback == {"open", "set_len", "metadata", "create_dir", "remove_file", "remove_dir", "rename",
                "hard_link", "symlink", "path_meta", "path_lmeta", "pipe_create"}
NsNames == {"create_dir", "create_dir_all", "remove_file", "remove_dir", "rename", "hard_link", "symlink",
            "fs_read", "fs_write", "path_meta", "path_lmeta"}

PathOf(d, o) == CASE d = "poll" -> (IF o \in PipeRW THEN "poll_ready" ELSE "poll_pool")
                  [] d = "iour" -> "iour_entry"
                  [] d = "iour_blk" -> (IF o \in HasFallback THEN "blocking_fallback" ELSE "iour_entry")

Diverged == last.res # last.ref

OpEnabled(op) ==
  /\ ~Diverged
  /\ CASE op.o \in FileRW \cup {"set_len", "metadata", "close"} -> st.fd.open
       [] op.o = "open" ->
            /\ ~st.fd.open
            \* a directory is never opened read-only here (reading a directory fd is outside the model)
            /\ (st.ns[Resolve(st.ns, op.p)].k = "dir" => (op.opt.w \/ ~op.opt.r \/ op.opt.tmp))
       [] op.o = "rename" -> (st.ns[op.p].k = "dir" => EmptyDir(st.ns, op.p))   \* children do not move in this model
       [] op.o \in NsNames -> TRUE
       [] op.o = "pipe_create" -> ~st.pipe.made
       [] op.o \in {"pwrite", "pwritev", "close_tx"} -> st.pipe.made /\ st.pipe.tx
       [] op.o \in {"pread", "preadv"} ->      \* never a read that would block
            st.pipe.made /\ st.pipe.rx /\ (st.pipe.buf # <<>> \/ ~st.pipe.tx)
       [] op.o = "close_rx" -> st.pipe.made /\ st.pipe.rx

Eff(op, p) ==
  CASE op.o \in {"read_at", "readv_at", "cread"} -> ReadEff(op, p)
    [] op.o \in {"write_at", "writev_at", "cwrite"} -> WriteEff(op, p)
    [] op.o = "set_len" -> SetLenEff(op)
    [] op.o \in {"sync_all", "sync_data"} -> SyncEff
    [] op.o = "metadata" -> MetaEff
    [] op.o = "close" -> CloseEff
    [] op.o = "open" -> OpenEff([path |-> op.p, opt |-> op.opt], p)
    [] op.o \in NsNames -> NsEff(op)
    [] op.o = "pipe_create" -> PipeCreateEff
    [] op.o \in {"pwrite", "pwritev"} -> PWriteEff(op)
    [] op.o \in {"pread", "preadv"} -> PReadEff(op)
    [] op.o = "close_tx" -> E([st EXCEPT !.pipe.tx = FALSE], Ok(0), Ok(0), FALSE)
    [] op.o = "close_rx" -> E([st EXCEPT !.pipe.rx = FALSE], Ok(0), Ok(0), FALSE)

\* the pipe group spends its first step on creating the pipe
MaxOpsOf(g) == IF g = "pipe" THEN MaxOps + 1 ELSE MaxOps
Step(op, p) ==
  /\ steps < MaxOpsOf(grp)
  /\ PathOf(drv, op.o) = p
  /\ OpEnabled(op)
  /\ \E e \in {Eff(op, p)} :         \* bound once (TLC re-evaluates LET bodies on every use)
       /\ st' = e.st
       /\ last' = [o |-> op.o, path |-> p, res |-> e.res, ref |-> e.ref, dev |-> e.dev]
  /\ steps' = steps + 1
  /\ UNCHANGED <<grp, drv>>

\* the driver-specific paths, one action each
CanStep == steps < MaxOpsOf(grp) /\ ~Diverged      \* cheap guards first: most states are leaves
IourEntry == CanStep /\ drv # "poll" /\ ForSomeOp(LAMBDA op : Step(op, "iour_entry"))
PollPool == CanStep /\ drv = "poll" /\ ForSomeOp(LAMBDA op : Step(op, "poll_pool"))
PollReady == CanStep /\ drv = "poll" /\ grp = "pipe" /\ ForSomeOp(LAMBDA op : Step(op, "poll_ready"))
BlockingFallback == CanStep /\ drv = "iour_blk" /\ ForSomeOp(LAMBDA op : Step(op, "blocking_fallback"))

Next == IourEntry \/ PollPool \/ PollReady \/ BlockingFallback
Spec == Init /\ [][Next]_vars

Dead == steps = MaxOpsOf(grp) \/ Diverged \/ ~ForSomeOp(LAMBDA op : OpEnabled(op))

\* ---------------------------------------------------------------------------
\* what TLC checks
\* ---------------------------------------------------------------------------
\* every driver path gives the result of the OS's own call
PathsAgree == last.res = last.ref
\* with deviations switched on: equal except where one is named
PathsAgreeModuloKnown == last.dev \/ last.res = last.ref
\* a deviation flag is raised only on the paths that have one
DevOnlyWhereNamed == last.dev => \/ last.o \in {"readv_at", "preadv"}
                                 \/ (last.path = "iour_entry" /\ last.o \in FileRW)
                                 \/ (last.path = "blocking_fallback" /\ last.o = "open")

\* sanity of the reference model itself
LenIsMaxWrittenEnd == \A i \in Inos : Len(st.data[i]) = st.hi[i]
ReadsAreSubstrings ==
  (last.o \in FileReads /\ last.res.e = "" /\ st.fd.open) =>
     LET c == st.data[st.fd.ino] x == Concat(last.res.d, Len(last.res.d)) IN
       /\ Len(x) = last.res.n
       /\ \E a \in 0..Len(c) : Sub(c, a + 1, a + Len(x)) = x
PipeFifo == st.pipe.pr \o st.pipe.buf = st.pipe.pw
NodesValid == \A p \in Paths : (st.ns[p].k = "file" => st.ns[p].ino \in 1..(st.next - 1))
              /\ (st.fd.open => st.fd.ino \in 1..(st.next - 1))
ResultShape == last.res.e # "" => (last.res.n = 0 /\ last.res.d = <<>>)
Sanity == LenIsMaxWrittenEnd /\ ReadsAreSubstrings /\ PipeFifo /\ NodesValid /\ ResultShape

\* ---------------------------------------------------------------------------
\* constant sets used by the configurations (cfg:  RBufs <- RB_Wide ...)
\* ---------------------------------------------------------------------------
B(l, c) == [len |-> l, cap |-> c]
W(n, c) == [n |-> n, cap |-> c]
OptM(r, w, t, c, cn, a, tmp, m) == [r |-> r, w |-> w, t |-> t, c |-> c, cn |-> cn, app |-> a, tmp |-> tmp, mode |-> m]
Opt(r, w, t, c, cn, a) == OptM(r, w, t, c, cn, a, FALSE, 438)

Off_Wide == {0, 1, 3, 5, MAXOFF}
Off_Narrow == {0, 2, MAXOFF}
VOff_Wide == {0, 2, 5}
RB_Wide == {B(0, 0), B(1, 1), B(3, 3), B(0, 1), B(0, 3), B(1, 3)}
RB_Narrow == {B(0, 3), B(2, 2)}
WB_Wide == {W(0, 0), W(1, 1), W(3, 3), W(0, 2), W(1, 3), W(3, 5)}
WB_Narrow == {W(2, 2), W(1, 3)}
VRB_Wide == {<<B(2, 2)>>, <<B(0, 2)>>, <<B(1, 1), B(2, 2)>>, <<B(0, 1), B(0, 2)>>, <<B(1, 1), B(0, 2)>>,
             <<B(0, 0), B(2, 2)>>, <<B(0, 0), B(0, 2)>>, <<B(2, 2), B(0, 0)>>, <<B(0, 2), B(0, 0)>>,
             <<B(2, 2), B(0, 1)>>}
VRB_Narrow == {<<B(1, 1), B(2, 2)>>, <<B(0, 1), B(0, 2)>>}
VWB_Wide == {<<W(1, 1)>>, <<W(1, 3)>>, <<W(1, 1), W(2, 2)>>, <<W(1, 3), W(2, 4)>>, <<W(0, 0), W(2, 2)>>,
             <<W(0, 2), W(2, 4)>>, <<W(2, 2), W(0, 0)>>}
VWB_Narrow == {<<W(1, 3), W(2, 2)>>}
Init_Wide == {<<>>, <<1>>, <<1, 2, 3>>, <<1, 2, 3, 4>>}
Init_Narrow == {<<>>, <<1, 2, 3>>}
\* modes: 0666 = 438 (default), 0640 = 416, 0600 = 384, 0444 = 292, 0660 = 432 (the umask takes the group w bit)
AllOpts == {OptM(r, w, t, c, cn, a, tmp, m) : r \in BOOLEAN, w \in BOOLEAN, t \in BOOLEAN, c \in BOOLEAN,
                                              cn \in BOOLEAN, a \in BOOLEAN, tmp \in BOOLEAN, m \in {438, 416}}
           \cup {OptM(r, TRUE, FALSE, c, cn, FALSE, tmp, m) : r \in BOOLEAN, c \in BOOLEAN, cn \in BOOLEAN,
                                                             tmp \in BOOLEAN, m \in {384, 292, 432}}
Opts_Narrow == {Opt(TRUE, FALSE, FALSE, FALSE, FALSE, FALSE), Opt(TRUE, TRUE, FALSE, TRUE, FALSE, FALSE),
                Opt(FALSE, TRUE, TRUE, TRUE, FALSE, FALSE), Opt(FALSE, TRUE, FALSE, FALSE, TRUE, FALSE),
                Opt(TRUE, TRUE, FALSE, FALSE, FALSE, TRUE), Opt(FALSE, TRUE, FALSE, TRUE, FALSE, TRUE)}
Ns_Wide ==
  {NsOp("create_dir", p, "", 0) : p \in {"d", "d/e", "f", "l"}}
  \cup {NsOp("create_dir_all", p, "", 0) : p \in {"d", "d/e", "f", "d/f"}}
  \cup {NsOp("remove_file", p, "", 0) : p \in {"f", "d", "l", "d/f", "g"}}
  \cup {NsOp("remove_dir", p, "", 0) : p \in {"d", "f", "d/e", "l"}}
  \cup {NsOp("rename", pq[1], pq[2], 0) : pq \in {<<"f", "g">>, <<"f", "d/f">>, <<"f", "d">>, <<"d", "f">>, <<"d", "g">>,
                                                    <<"d/f", "d">>, <<"d", "d/e">>, <<"g", "f">>, <<"f", "f">>, <<"d/f", "f">>,
                                                    <<"f", "l">>, <<"d/e", "d/f">>}}
  \cup {NsOp("hard_link", pq[1], pq[2], 0) : pq \in {<<"f", "g">>, <<"d", "g">>, <<"f", "d/f">>, <<"g", "f">>, <<"f", "d/e">>}}
  \cup {NsOp("symlink", p, "l", 0) : p \in {"f", "g"}}
  \cup {NsOp("fs_read", p, "", 0) : p \in {"f", "g", "l", "d", "d/f"}}
  \cup {NsOp("fs_write", p, "", n) : p \in {"f", "l", "d", "d/f"}, n \in {0, 3}}
  \cup {NsOp("path_meta", p, "", 0) : p \in {"f", "d", "l", "d/e"}} \cup {NsOp("path_lmeta", "l", "", 0)}
Ns_Narrow ==
  {NsOp("create_dir_all", "d/e", "", 0), NsOp("remove_file", "f", "", 0), NsOp("remove_dir", "d", "", 0),
   NsOp("rename", "f", "g", 0), NsOp("rename", "f", "d/f", 0), NsOp("hard_link", "f", "g", 0),
   NsOp("symlink", "g", "l", 0), NsOp("fs_read", "g", "", 0), NsOp("fs_read", "l", "", 0),
   NsOp("fs_write", "l", "", 3), NsOp("fs_write", "f", "", 1), NsOp("remove_dir", "d/e", "", 0)}
PW_Wide == {W(0, 0), W(1, 1), W(3, 3), W(2, 4)}
PR_Wide == {B(0, 0), B(1, 1), B(3, 3), B(0, 2), B(1, 3)}
PVW_Wide == {<<W(1, 1), W(2, 2)>>, <<W(0, 2), W(2, 4)>>, <<W(1, 3)>>}
PVR_Wide == {<<B(2, 2)>>, <<B(0, 2)>>, <<B(1, 1), B(2, 2)>>, <<B(0, 1), B(0, 2)>>, <<B(1, 1), B(0, 2)>>, <<B(0, 0), B(2, 2)>>}
\* sets of the deep (narrow alphabet) generation configurations
Init_One == {<<1, 2, 3>>}
RB_One == {B(0, 3)}
RB_Cur == {B(2, 2)}
WB_One == {W(1, 3)}
WB_Cur == {W(2, 2)}
VRB_One == {<<B(0, 1), B(0, 2)>>}
Off_App == {0, 3, MAXOFF}
PW_Narrow == {W(1, 1), W(2, 4), W(0, 0)}
PVW_Narrow == {<<W(1, 3), W(2, 2)>>}
PR_Narrow == {B(0, 2), B(1, 1), B(0, 0)}
PVR_Narrow == {<<B(0, 1), B(0, 2)>>, <<B(1, 1), B(0, 2)>>, <<B(2, 2)>>}
Opts_Mid == Opts_Narrow \cup {OptM(TRUE, TRUE, FALSE, FALSE, FALSE, FALSE, TRUE, 416),
                              OptM(FALSE, TRUE, FALSE, FALSE, FALSE, FALSE, TRUE, 292),
                              OptM(TRUE, TRUE, FALSE, TRUE, FALSE, FALSE, FALSE, 432),
                              OptM(TRUE, TRUE, FALSE, FALSE, FALSE, FALSE, FALSE, 384),
                              Opt(FALSE, TRUE, TRUE, FALSE, FALSE, FALSE), Opt(TRUE, TRUE, FALSE, FALSE, TRUE, FALSE),
                              Opt(TRUE, FALSE, FALSE, FALSE, FALSE, TRUE)}
\* open options of the deep generation configs (two paths, so keep the set small)
Opts_Deep == Opts_Narrow \cup {OptM(TRUE, TRUE, FALSE, FALSE, FALSE, FALSE, TRUE, 416),
                               OptM(TRUE, TRUE, FALSE, TRUE, FALSE, FALSE, FALSE, 432)}
=============================================================================
