CONSTANTS
  N = 4
  Kind = "fallback"
  Ops = {"o1", "o2", "o3"}
  FileOps = {"o3"}
  SrcType = "pipe"
  MaxPend = 3
  MaxH = 5
  ResetProvides = TRUE
  TakeEmptiesSlot = TRUE
  KeyRaceDev = TRUE
  DropReturnsQueued = TRUE
  MaxLen = 16
  AllowClose = TRUE
SPECIFICATION GSpec
INVARIANTS EmitInv
