\* quick: every backend / handshake shape / buffering / role, payload 0 or 2 records, one scheduled Pending
CONSTANTS
  Backends = {"native", "rustls"}
  Shapes = {"t13", "t12"}
  Bufferings = {TRUE, FALSE}
  Payloads = {0, 2}
  Inits = {"c", "s"}
  Limits = {0, 1}
  U = 2
  MaxPend = 1
  FlushBeforeRead = TRUE
  PendingIsWouldBlock = TRUE
  MidResumes = TRUE
  FinalFlush = TRUE
  CloseFlushes = TRUE
  FixRustlsHsFlush = FALSE
SPECIFICATION Spec
INVARIANTS TypeOK NativeClean NoDeadlock NoWaitOnUnflushed NoFailure InOrderExactlyOnce CleanClose NoBufferedDataDropped HandshakeAgreement
PROPERTIES Progress
