\* control: without the exemption the rustls handshake-flush deviation must be found (expected to FAIL)
CONSTANTS
  Backends = {"rustls"}
  Shapes = {"t13"}
  Bufferings = {TRUE, FALSE}
  Payloads = {1}
  Inits = {"c"}
  Limits = {0, 1}
  U = 2
  MaxPend = 1
  FlushBeforeRead = TRUE
  PendingIsWouldBlock = TRUE
  MidResumes = TRUE
  FinalFlush = TRUE
  CloseFlushes = TRUE
  FixRustlsHsFlush = FALSE
SPECIFICATION Spec
INVARIANTS NoDeadlockStrict
