-------------------------- MODULE Gen_SharedFdSync --------------------------
(* Schedule printer for the multi-threaded (feature sync) SharedFd protocol: every holder
   exists in the initial state and lives on its own thread; the history records every atomic
   step as (role, hook site) with the projected state after it. One JSON line per maximal
   interleaving (the closer's re-polls are "repoll" = same waker after a wake-up, "migrate" =
   the future is polled with the other waker); replayed through the schedule controller by harness bin fd_sched_sync. *)
EXTENDS SharedFd, Json

VARIABLE hist
gvars == <<vars, hist>>

Proj == [count |-> count, waits |-> waits, closed |-> closed, c |-> pcC, woken |-> (wk \in woken),
         wok |-> [i \in Wakers |-> i \in woken], wk |-> wk, slot |-> slot]

Rec(who, site) == hist' = Append(hist, [r |-> who, s |-> site, x |-> Proj'])

GInit == Init /\ hist = <<>>

GNext ==
  \/ \E h \in Handles : DropCheck(h) /\ Rec(h, "fd.drop.check")
  \/ \E h \in Handles : DropWake(h) /\ Rec(h, "fd.drop.wake")
  \/ \E h \in Handles : DropDec(h) /\ Rec(h, "fd.drop.dec")
  \/ \E h \in Handles : T2Swap(h) /\ Rec(h, "fd.take.swap")
  \/ \E h \in Handles : T2None(h) /\ Rec(h, "fd.take.none")
  \/ \E h \in Handles : T2Release(h) /\ Rec(h, "fd.take.none")
  \/ CSwap /\ Rec("C", "fd.take.swap")
  \/ CUnwrap1 /\ Rec("C", "fd.take.unwrap1")
  \/ CRegister /\ Rec("C", "fd.take.register")
  \/ CUnwrap2 /\ Rec("C", "fd.take.unwrap2")
  \/ CRepoll /\ Rec("C", "repoll")
  \/ CMigrate /\ Rec("C", "migrate")

GSpec == GInit /\ [][GNext]_gvars

Terminal == /\ \A h \in Handles : hs[h] = "gone"
            /\ pcC \in {"done", "pending"} /\ wk \notin woken

Emit == Terminal =>
          PrintT(<<"REPLAY", ToJson([variant |-> Variant, ops |-> Ops, n |-> Cardinality(Handles),
                                     strand |-> (pcC = "pending"), steps |-> hist])>>)
=============================================================================
