CONSTANTS
  Threads = {1, 2}
  NL = 2
  LSig <- LSig_aa
  LHome <- LHome_12
  Sigs = {"a", "b"}
  BadSigs = {"k"}
  MaxRaise = 2
  SpuriousPolls = FALSE
  FixLeak = FALSE
  MutNoFilter = FALSE
  MutFirstOnly = FALSE
  MutNoRecheck = FALSE
  MutDflAlways = FALSE
  MutNoBarrier = FALSE
  MutNoDfl = FALSE
SPECIFICATION Spec
INVARIANTS Safe CurrentAlive NoCross Delivered NoSpurious WakeBound RegisteredImpliesHandler DispConsistent SlabExactModuloKnown KeysRight LockBalanced MutexOwned HandlerWaitFree AliveBound
