CONSTANTS
  FixIterShort = TRUE
  FixDataSlice = TRUE
  Caps = {0, 8, 15, 16, 17, 24, 31, 32, 40, 47, 48, 64, 80}
  Sizes = {0, 1, 4, 8, 9, 17}
  MaxMsgs = 3
  Hdr = 16
  Align = 8
SPECIFICATION GSpec
INVARIANTS Emit
