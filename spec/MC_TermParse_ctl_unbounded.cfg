SPECIFICATION Spec
CONSTANTS
  RawMode = TRUE
  Inputs <- LongCsi
  FixStaleTimer = FALSE
  AllowLongCsi = FALSE
  MaxTok = 24
  Mut = ""
INVARIANTS
  BufferBounded
PROPERTIES
  Progress
