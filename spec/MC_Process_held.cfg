CONSTANTS
  K = 2
  EchoBuf = 1
  NIns = {0}
  NOuts = {0}
  NErrs = {0}
  WChunks = {0}
  RChunks = {0}
  IoStatuses = {"c0"}
  Codes = {"c0"}
  Sigs = {"s9"}
  Drivers = {"iour"}
  Impls = {"pidfd"}
  Families = {"held"}
  BlockingChildPipes = FALSE
SPECIFICATION Spec
INVARIANTS TypeOK HeldStdinNeverStuck
