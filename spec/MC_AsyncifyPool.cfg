\* raw pool API, two dispatching threads share the pool, one panicking job that unwinds through the worker
CONSTANTS
  Limit = 1
  Jobs = {"j1", "j2", "j3"}
  Disp = {"D1", "D2"}
  NW = 3
  PanicJobs = {"j2"}
  Caught = FALSE
  DriverLoop = FALSE
  Fix = TRUE
  TimedFifo = FALSE
SPECIFICATION Spec
INVARIANTS Safety Bounded ThreadsBounded NoDeviation
