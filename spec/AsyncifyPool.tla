--------------------------- MODULE AsyncifyPool ---------------------------
(* C17 - the blocking pool is bounded and loses nothing.

   Implementation-shaped model of compio-driver/src/asyncify.rs (AsyncifyPool::dispatch, worker,
   CounterGuard) on top of the flume rendezvous channel bounded(0), one action per atomic step /
   hook site, plus the driver-level retry loop of push_blocking (DriverLoop).

   hook site        state of the role when parked there        action that leaves it
   pool.d.try       pcD = "try"    before sender.try_send       DTry
   pool.d.load      pcD = "load"   try_send said Full, before counter.load   DLoadReject / DLoadPass / DLoadPassLagged
   pool.d.spawn     pcD = "spawn"  before thread::spawn         DSpawn
   pool.d.send      pcD = "send"   before the blocking sender.send           DSend
   (in the channel) pcD = "sending" blocked in send until a receiver takes the job
   pool.w.inc       pcW = "spawned" before counter.fetch_add    WInc
   pool.w.recv/done pcW = "recv"   before receiver.recv_timeout WRecv
   (in the channel) pcW = "waiting" parked in recv_timeout      DTry/DSend hand-off, WTimeout
   pool.w.run       pcW = "got"    has a job, before f.run()    WRun
   (in the job)     pcW = "run"                                 WDone
   pool.w.exit      pcW = "exit"   CounterGuard::drop before fetch_sub       WExit

   flume bounded(0): a send (try or blocking) succeeds at once iff a receiver is parked (the
   longest parked one gets the message); a blocking send otherwise queues the sender; a receiver
   entering recv takes the oldest queued sender's message at once, else parks.

   The tree carries the repair (fix commit, see notes/C17.md): Fix = TRUE is the code, Fix = FALSE the
   behaviour before the repair, kept for the control configs that must violate Bounded / SendCompletes.
   Hook sites with Fix = TRUE: pool.d.try, pool.d.load (before counter.fetch_update), pool.d.spawn,
   pool.w.run (first hook of a new thread: it owns its first job), pool.w.done, pool.w.exit.

   Named deviations of the old behaviour (genuine defects, repaired):
     DLoadPassLagged    the limit test reads a counter that the spawned worker increments itself, so
                        it passes although Limit threads are already committed  (limit exceeded)
     OrphanedBy         the only receiver that could take the blocking send retires (recv_timeout, or
                        a panicking raw job) between the dispatcher's spawn and its send  (send hangs)
   Fix = TRUE is the repaired design (dispatcher reserves the slot with a CAS and hands the job to the
   new thread directly): no deviation is reachable, the strict properties hold. *)
EXTENDS Naturals, FiniteSets, Sequences, TLC

CONSTANTS
  Limit,       \* thread_limit >= 1
  Jobs,        \* set of job names (strings)
  Disp,        \* set of dispatching threads (strings), runtimes sharing one pool
  NW,          \* number of worker threads that may ever be spawned (|Jobs| suffices, checked)
  PanicJobs,   \* jobs that panic
  Caught,      \* TRUE: the closure catches the panic itself (push_blocking: catch_unwind_io), worker survives
  DriverLoop,  \* TRUE: push_blocking: a rejected dispatch is retried by the same thread with the same job
  Fix,         \* TRUE: repaired design
  TimedFifo    \* TRUE: receivers time out in the order they parked (same recv_timeout for all: real time)

NoJob == "none"
Workers == 1..NW

VARIABLES
  counter,   \* AsyncifyPool::counter
  pcD,       \* [Disp -> {"idle","try","load","spawn","send","sending"}]
  cur,       \* [Disp -> Jobs \cup {NoJob}]  the job the dispatcher holds
  todo,      \* jobs not (yet) accepted: never submitted or handed back
  pcW,       \* [Workers -> {"unborn","spawned","recv","waiting","got","run","exit","dead"}]
  wjob,      \* [Workers -> Jobs \cup {NoJob}]
  waiting,   \* Seq(Workers) receivers parked in recv_timeout, oldest first
  sending,   \* Seq(Disp) senders blocked in send, oldest first
  ran,       \* [Jobs -> Nat] how often the job was started
  fin,       \* [Jobs -> {"no","ok","panic"}] outcome of the job
  over,      \* ghost: number of lagged passes of the limit test (named deviation)
  orphan     \* ghost: [Disp -> BOOLEAN] the receiver this dispatcher's send relies on has retired

vars == <<counter, pcD, cur, todo, pcW, wjob, waiting, sending, ran, fin, over, orphan>>

Alive == {w \in Workers : pcW[w] \notin {"unborn", "dead"}}
Running == {w \in Workers : pcW[w] = "run"}
Unborn == {w \in Workers : pcW[w] = "unborn"}
NextUnborn == CHOOSE w \in Unborn : \A v \in Unborn : w <= v
Committed == Cardinality(Alive) + Cardinality({d \in Disp : pcD[d] = "spawn"})
Counted == {w \in Workers : pcW[w] \in {"recv", "waiting", "got", "run", "exit"}}
RemoveW(s, w) == SelectSeq(s, LAMBDA x : x # w)

TypeOK ==
  /\ counter \in Nat
  /\ pcD \in [Disp -> {"idle", "try", "load", "spawn", "send", "sending"}]
  /\ cur \in [Disp -> Jobs \cup {NoJob}]
  /\ todo \subseteq Jobs
  /\ pcW \in [Workers -> {"unborn", "spawned", "recv", "waiting", "got", "run", "exit", "dead"}]
  /\ wjob \in [Workers -> Jobs \cup {NoJob}]
  /\ waiting \in Seq(Workers) /\ sending \in Seq(Disp)
  /\ ran \in [Jobs -> Nat]
  /\ fin \in [Jobs -> {"no", "ok", "panic"}]
  /\ over \in Nat
  /\ orphan \in [Disp -> BOOLEAN]

Init ==
  /\ counter = 0
  /\ pcD = [d \in Disp |-> "idle"]
  /\ cur = [d \in Disp |-> NoJob]
  /\ todo = Jobs
  /\ pcW = [w \in Workers |-> "unborn"]
  /\ wjob = [w \in Workers |-> NoJob]
  /\ waiting = <<>> /\ sending = <<>>
  /\ ran = [j \in Jobs |-> 0]
  /\ fin = [j \in Jobs |-> "no"]
  /\ over = 0
  /\ orphan = [d \in Disp |-> FALSE]

(* ------------------------------ dispatcher ------------------------------ *)

\* the harness (or push_blocking) calls dispatch(j): the thread arrives at pool.d.try
DCall(d, j) ==
  /\ pcD[d] = "idle" /\ j \in todo
  /\ todo' = todo \ {j}
  /\ cur' = [cur EXCEPT ![d] = j]
  /\ pcD' = [pcD EXCEPT ![d] = "try"]
  /\ UNCHANGED <<counter, pcW, wjob, waiting, sending, ran, fin, over, orphan>>

\* a send that finds a parked receiver: the oldest one gets the job, the dispatch is accepted
HandOff(d) ==
  LET w == Head(waiting) IN
  /\ waiting' = Tail(waiting)
  /\ pcW' = [pcW EXCEPT ![w] = "got"]
  /\ wjob' = [wjob EXCEPT ![w] = cur[d]]
  /\ pcD' = [pcD EXCEPT ![d] = "idle"]
  /\ cur' = [cur EXCEPT ![d] = NoJob]
  /\ orphan' = [orphan EXCEPT ![d] = FALSE]

\* sender.try_send
DTry(d) ==
  /\ pcD[d] = "try"
  /\ IF waiting # <<>>
       THEN HandOff(d)
       ELSE /\ pcD' = [pcD EXCEPT ![d] = "load"]
            /\ UNCHANGED <<cur, pcW, wjob, waiting, orphan>>
  /\ UNCHANGED <<counter, todo, sending, ran, fin, over>>

\* the job goes back to the caller: push_blocking retries with the same closure, a raw caller gets it back
Reject(d) ==
  IF DriverLoop
    THEN /\ pcD' = [pcD EXCEPT ![d] = "try"]
         /\ UNCHANGED <<cur, todo>>
    ELSE /\ pcD' = [pcD EXCEPT ![d] = "idle"]
         /\ todo' = todo \cup {cur[d]}
         /\ cur' = [cur EXCEPT ![d] = NoJob]

\* counter.load(Acquire) >= thread_limit : Err(DispatchError(f))
DLoadReject(d) ==
  /\ ~Fix
  /\ pcD[d] = "load" /\ counter >= Limit
  /\ Reject(d)
  /\ UNCHANGED <<counter, pcW, wjob, waiting, sending, ran, fin, over, orphan>>

\* counter < thread_limit and fewer than Limit threads are committed: spawn
DLoadPass(d) ==
  /\ ~Fix
  /\ pcD[d] = "load" /\ counter < Limit /\ Committed < Limit
  /\ pcD' = [pcD EXCEPT ![d] = "spawn"]
  /\ UNCHANGED <<counter, cur, todo, pcW, wjob, waiting, sending, ran, fin, over, orphan>>

\* NAMED DEVIATION: counter < thread_limit although Limit threads are already committed (a spawned worker
\* has not executed its fetch_add yet, or another dispatcher is between its load and its spawn)
DLoadPassLagged(d) ==
  /\ ~Fix
  /\ pcD[d] = "load" /\ counter < Limit /\ Committed >= Limit
  /\ pcD' = [pcD EXCEPT ![d] = "spawn"]
  /\ over' = over + 1
  /\ UNCHANGED <<counter, cur, todo, pcW, wjob, waiting, sending, ran, fin, orphan>>

\* repaired: fetch_update(|c| (c < limit).then_some(c + 1)) - test and reservation are one atomic step
DReserve(d) ==
  /\ Fix
  /\ pcD[d] = "load"
  /\ IF counter < Limit
       THEN /\ counter' = counter + 1
            /\ pcD' = [pcD EXCEPT ![d] = "spawn"]
            /\ UNCHANGED <<cur, todo>>
       ELSE Reject(d) /\ UNCHANGED counter
  /\ UNCHANGED <<pcW, wjob, waiting, sending, ran, fin, over, orphan>>

\* std::thread::spawn(worker(..)); the new thread runs up to its first hook
DSpawn(d) ==
  /\ pcD[d] = "spawn" /\ Unborn # {}
  /\ LET w == NextUnborn IN
     IF Fix
       THEN \* repaired: the new thread owns the job (and the reserved slot) from the start
            /\ pcW' = [pcW EXCEPT ![w] = "got"]
            /\ wjob' = [wjob EXCEPT ![w] = cur[d]]
            /\ pcD' = [pcD EXCEPT ![d] = "idle"]
            /\ cur' = [cur EXCEPT ![d] = NoJob]
       ELSE /\ pcW' = [pcW EXCEPT ![w] = "spawned"]
            /\ pcD' = [pcD EXCEPT ![d] = "send"]
            /\ UNCHANGED <<wjob, cur>>
  /\ UNCHANGED <<counter, todo, waiting, sending, ran, fin, over, orphan>>

\* self.sender.send(f): blocking
DSend(d) ==
  /\ pcD[d] = "send"
  /\ IF waiting # <<>>
       THEN HandOff(d) /\ UNCHANGED sending
       ELSE /\ sending' = Append(sending, d)
            /\ pcD' = [pcD EXCEPT ![d] = "sending"]
            /\ UNCHANGED <<cur, pcW, wjob, waiting, orphan>>
  /\ UNCHANGED <<counter, todo, ran, fin, over>>

(* -------------------------------- worker -------------------------------- *)

\* counter.fetch_add(1)
WInc(w) ==
  /\ pcW[w] = "spawned"
  /\ counter' = counter + 1
  /\ pcW' = [pcW EXCEPT ![w] = "recv"]
  /\ UNCHANGED <<pcD, cur, todo, wjob, waiting, sending, ran, fin, over, orphan>>

\* receiver.recv_timeout(timeout): takes the oldest blocked sender's job at once, else parks
WRecv(w) ==
  /\ pcW[w] = "recv"
  /\ IF sending # <<>>
       THEN LET d == Head(sending) IN
            /\ sending' = Tail(sending)
            /\ pcW' = [pcW EXCEPT ![w] = "got"]
            /\ wjob' = [wjob EXCEPT ![w] = cur[d]]
            /\ pcD' = [pcD EXCEPT ![d] = "idle"]
            /\ cur' = [cur EXCEPT ![d] = NoJob]
            /\ orphan' = [orphan EXCEPT ![d] = FALSE]
            /\ UNCHANGED waiting
       ELSE /\ waiting' = Append(waiting, w)
            /\ pcW' = [pcW EXCEPT ![w] = "waiting"]
            /\ UNCHANGED <<sending, wjob, pcD, cur, orphan>>
  /\ UNCHANGED <<counter, todo, ran, fin, over>>

\* f.run() starts
WRun(w) ==
  /\ pcW[w] = "got"
  /\ pcW' = [pcW EXCEPT ![w] = "run"]
  /\ ran' = [ran EXCEPT ![wjob[w]] = @ + 1]
  /\ UNCHANGED <<counter, pcD, cur, todo, wjob, waiting, sending, fin, over, orphan>>

\* dispatchers whose pending blocking send loses its last possible receiver when w retires
\* (a timeout can only meet "send": a parked receiver and a queued sender never coexist; a worker
\* killed by a panicking raw job can also leave an already queued sender behind)
OrphanedBy(w) ==
  IF \A v \in Workers \ {w} : pcW[v] \in {"unborn", "exit", "dead"}
    THEN {d \in Disp : pcD[d] \in {"send", "sending"}} ELSE {}

\* the job returns, or panics: a raw Dispatchable unwinds through the worker (CounterGuard still
\* decrements), a push_blocking closure has caught it (catch_unwind_io) and the worker survives
WDone(w) ==
  /\ pcW[w] = "run"
  /\ LET j == wjob[w]
         dies == j \in PanicJobs /\ ~Caught IN
     /\ fin' = [fin EXCEPT ![j] = IF j \in PanicJobs THEN "panic" ELSE "ok"]
     /\ pcW' = [pcW EXCEPT ![w] = IF dies THEN "exit" ELSE "recv"]
     /\ orphan' = [d \in Disp |-> orphan[d] \/ (dies /\ d \in OrphanedBy(w))]
  /\ wjob' = [wjob EXCEPT ![w] = NoJob]
  /\ UNCHANGED <<counter, pcD, cur, todo, waiting, sending, ran, over>>

\* recv_timeout elapses: Err(Timeout), the loop ends, the guard is about to be dropped.
\* (contains the NAMED DEVIATION OrphanedBy: see the liveness properties)
WTimeout(w) ==
  /\ pcW[w] = "waiting"
  /\ TimedFifo => w = Head(waiting)
  /\ waiting' = RemoveW(waiting, w)
  /\ pcW' = [pcW EXCEPT ![w] = "exit"]
  /\ orphan' = [d \in Disp |-> orphan[d] \/ d \in OrphanedBy(w)]
  /\ UNCHANGED <<counter, pcD, cur, todo, wjob, sending, ran, fin, over>>

\* CounterGuard::drop: counter.fetch_sub(1); the thread ends
WExit(w) ==
  /\ pcW[w] = "exit"
  /\ counter' = counter - 1
  /\ pcW' = [pcW EXCEPT ![w] = "dead"]
  /\ UNCHANGED <<pcD, cur, todo, wjob, waiting, sending, ran, fin, over, orphan>>

Next ==
  \/ \E d \in Disp : \E j \in Jobs : DCall(d, j)
  \/ \E d \in Disp : DTry(d) \/ DLoadReject(d) \/ DLoadPass(d) \/ DLoadPassLagged(d) \/ DReserve(d)
                       \/ DSpawn(d) \/ DSend(d)
  \/ \E w \in Workers : WInc(w) \/ WRecv(w) \/ WRun(w) \/ WDone(w) \/ WTimeout(w) \/ WExit(w)

Spec == Init /\ [][Next]_vars

\* every step is fair except the timeout (a receiver may stay parked) - jobs terminate
Fairness ==
  /\ \A d \in Disp : /\ WF_vars(\E j \in Jobs : DCall(d, j))
                     /\ WF_vars(DTry(d)) /\ WF_vars(DLoadReject(d)) /\ WF_vars(DLoadPass(d))
                     /\ WF_vars(DLoadPassLagged(d)) /\ WF_vars(DReserve(d))
                     /\ WF_vars(DSpawn(d)) /\ WF_vars(DSend(d))
  /\ \A w \in Workers : /\ WF_vars(WInc(w)) /\ WF_vars(WRecv(w)) /\ WF_vars(WRun(w))
                        /\ WF_vars(WDone(w)) /\ WF_vars(WExit(w))
FairSpec == Spec /\ Fairness

(* ------------------------------ properties ------------------------------ *)

\* the number of pool threads running jobs at once never exceeds the limit ...
Bounded == Cardinality(Running) <= Limit
ThreadsBounded == Cardinality(Alive) <= Limit
\* ... except by the number of times the named deviation fired
BoundedModuloKnown == Cardinality(Running) <= Limit + over
ThreadsBoundedModuloKnown == Cardinality(Alive) <= Limit + over

\* every job is started at most once
Once == \A j \in Jobs : ran[j] <= 1

\* nothing is lost or duplicated: a job is in exactly one place
Places(j) == (IF j \in todo THEN 1 ELSE 0)
             + Cardinality({d \in Disp : cur[d] = j})
             + Cardinality({w \in Workers : wjob[w] = j})
             + (IF fin[j] # "no" THEN 1 ELSE 0)
NoLoss == \A j \in Jobs : Places(j) = 1
StartedIffTaken == \A j \in Jobs : ran[j] = 1 <=> (fin[j] # "no" \/ \E w \in Workers : wjob[w] = j /\ pcW[w] = "run")

\* the counter is the number of threads between their fetch_add and their fetch_sub (never negative: Nat)
CounterOK == counter = Cardinality(Counted) + (IF Fix THEN Cardinality({d \in Disp : pcD[d] = "spawn"}) ELSE 0)
\* after all workers retired a new dispatch finds counter = 0 < Limit and spawns
RespawnAfterRetire == (Alive = {} /\ (\A d \in Disp : pcD[d] # "spawn")) => counter = 0

\* rendezvous: never a parked receiver and a blocked sender at once
ChannelOK == ~(waiting # <<>> /\ sending # <<>>)
\* NW is large enough: a spawn never lacks a fresh thread id
EnoughWorkers == (\E d \in Disp : pcD[d] = "spawn") => Unborn # {}
\* the panic outcome is recorded for panicking jobs only
PanicReturned == \A j \in Jobs : fin[j] = "panic" => j \in PanicJobs

Safety == TypeOK /\ Once /\ NoLoss /\ StartedIffTaken /\ CounterOK /\ RespawnAfterRetire /\ ChannelOK
          /\ EnoughWorkers /\ PanicReturned

\* liveness (FairSpec)
SendCompletes == \A d \in Disp : (pcD[d] \in {"send", "sending"}) ~> (pcD[d] = "idle")
SendCompletesModuloKnown == \A d \in Disp : (pcD[d] \in {"send", "sending"}) ~> (pcD[d] = "idle" \/ orphan[d])
AcceptedRuns == \A j \in Jobs : (\E w \in Workers : wjob[w] = j) ~> (fin[j] # "no")
AllRun == <>(\A j \in Jobs : fin[j] # "no")
AllRunModuloKnown == (<>[](\E d \in Disp : orphan[d])) \/ <>(\A j \in Jobs : fin[j] # "no")
\* every dispatch call comes back (accepted, or handed back / retried until accepted): the dispatcher never blocks
DispatchReturns == \A d \in Disp : (pcD[d] # "idle") ~> (pcD[d] = "idle")
\* a deviation flag is never raised in the repaired design
NoDeviation == over = 0 /\ \A d \in Disp : ~orphan[d]
=============================================================================
