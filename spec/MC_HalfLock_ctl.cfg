CONSTANTS
  Readers = {r1, r2}
  Writers = {w1, w2}
  MaxWrites = 3
  MaxReads = 2
  Perpetual = FALSE
  Muts <- MutsAll
SPECIFICATION CtlSpec
INVARIANTS CtlSeen
CONSTRAINT CtlCons
