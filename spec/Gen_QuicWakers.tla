--------------------------- MODULE Gen_QuicWakers ---------------------------
(* C16, binding (b): which futures are blocked at the moment of a close.

   For every close kind and every subset of the blocked-future kinds the harness can construct
   on a real connection, this module computes - with the waker-table operators of Quic.tla
   (KindTable, RegIn with the single on_connected slot, TerminateOf) - what the close wakes and
   what each future resolves to, and prints the case.  harness/hquic/src/wakers.rs builds exactly
   that combination on real loopback connections (poll once with a counting waker: Pending and
   registered), performs the close and requires the predicted outcome: woken and resolved to an
   error (None for wait_incoming, the reason for closed()); "stranded" is predicted only for the
   named deviations of the pinned code.                                                        *)
EXTENDS Quic, Json

CONSTANT Tier           \* "quick" | "thorough": which (scenario, close kind) pairs are enumerated

\* scenario: "conn"    all connection-level kinds (+ endpoint-level kinds for endpoint close)
\*           "mix"     a smaller kind set for the close kinds the quick tier does not enumerate fully
\*           "zrtt"    two accepted_0rtt() waiters               (deviation 1)
\*           "drop"    a dropped closed() future before the others block   (deviation 2)
\*           "closed2" a second closed() waiter                   (deviation 2)
Scenarios == {"conn", "mix", "zrtt", "drop", "closed2"}
CloseFor(sc) ==
  CASE sc = "conn"    -> (IF Tier = "quick" THEN {"local"} ELSE {"local", "peer", "endpoint"})
    [] sc = "mix"     -> (IF Tier = "quick" THEN {"peer", "endpoint"} ELSE {})
    [] sc = "zrtt"    -> {"local"}
    [] sc = "drop"    -> {"local", "peer", "endpoint"}
    [] sc = "closed2" -> {"local", "peer"}

\* harness kinds in the order the harness polls them, and the model kind they are an instance of
ConnKinds == <<"open_uni", "open_bi", "accept_uni", "accept_bi", "read", "write", "stopped",
               "received_reset", "recv_datagram", "send_datagram", "closed">>
EpKinds   == <<"connecting", "handshake_data", "wait_incoming">>
ZrttKinds == <<"accepted_0rtt_a", "accepted_0rtt_b">>
ModelKind(h) ==
  CASE h \in {"open_uni", "open_bi"}     -> "open"
    [] h \in {"accept_uni", "accept_bi"} -> "accept"
    [] h \in {"read", "received_reset"}  -> "read"        \* both wait in `readable` (own stream each)
    [] h \in {"accepted_0rtt_a", "accepted_0rtt_b"} -> "accepted_0rtt"
    [] h \in {"closed", "closed_b"}      -> "closed"
    [] h = "recv_datagram_b"             -> "recv_datagram"   \* a second task parked in recv_datagram
    [] OTHER -> h
ToSet(q) == {q[i] : i \in 1..Len(q)}

VARIABLES Scenario, ck, blocked, out, phase
gwvars == <<Scenario, ck, blocked, out, phase>>

KindsFor(c) ==
  CASE Scenario = "conn" -> (IF c = "endpoint" THEN ConnKinds \o EpKinds ELSE ConnKinds)
    [] Scenario = "mix"  -> (<<"open_uni", "accept_bi", "read", "recv_datagram", "recv_datagram_b", "closed">>
                              \o (IF c = "endpoint" THEN EpKinds ELSE <<>>))
    [] Scenario = "zrtt" -> ZrttKinds
    [] Scenario = "drop" -> <<"accept_uni", "read", "write">>
    [] Scenario = "closed2" -> <<"closed", "closed_b", "read">>
Sub(q, B) == SelectSeq(q, LAMBDA h : h \in B)

GWInit == /\ Init                               \* the variables of Quic are not used
          /\ Scenario \in Scenarios
          /\ ck \in CloseFor(Scenario)
          /\ \E B \in SUBSET ToSet(KindsFor(ck)) :
               /\ (Scenario = "closed2") => {"closed", "closed_b"} \subseteq B
               /\ (Scenario \in {"zrtt", "drop"}) => B # {}
               /\ blocked = Sub(KindsFor(ck), B)
          /\ out = <<>> /\ phase = "start"

\* DEVIATION (known finding): closed() takes the driver's JoinHandle; dropping that future cancels
\* the driver, and a second closed() finds no handle and unwraps the error of an open connection
DriverGone == Scenario = "drop"
Panics(h) == h = "closed_b"

RECURSIVE RegAll(_, _, _)
RegAll(T, q, i) == IF i > Len(q) THEN T
                   ELSE RegAll(IF Panics(q[i]) THEN T ELSE RegIn(T, KindTable(ModelKind(q[i])), q[i]), q, i + 1)
Empty == [t \in Tables |-> {}]
Registered0 == RegAll(Empty, blocked, 1)

\* what the close wakes
WokenBy(T) ==
  LET term == UNION {TerminateOf(T)[t] : t \in Tables} IN
  CASE ck = "local"    -> term \cup (IF DriverGone THEN {} ELSE T["closed_join"])
    [] ck = "peer"     -> IF DriverGone THEN {} ELSE term \cup T["closed_join"]
    [] ck = "endpoint" -> T["incoming"] \cup (IF DriverGone THEN {} ELSE term \cup T["closed_join"])

Result(h, woken) ==
  IF Panics(h) THEN "panic"
  ELSE IF h \notin woken THEN "stranded"
  ELSE IF h = "wait_incoming" THEN "none"
  ELSE IF ModelKind(h) = "closed" THEN "closed"
  ELSE "err"

GWNext == /\ phase = "start"
          /\ LET T == Registered0
                 w == WokenBy(T) IN
             out' = [i \in 1..Len(blocked) |-> <<blocked[i], Result(blocked[i], w)>>]
          /\ phase' = "done"
          /\ UNCHANGED <<vars, Scenario, ck, blocked>>

GWSpec == GWInit /\ [][GWNext]_<<vars, gwvars>>

Dev == IF \E i \in 1..Len(out) : out[i][2] = "stranded" /\ Scenario = "zrtt" THEN "on_connected_single_slot"
       ELSE IF \E i \in 1..Len(out) : out[i][2] \in {"stranded", "panic"} THEN "closed_takes_worker"
       ELSE "none"
Emit == phase = "done" =>
          PrintT(<<"REPLAY", ToJson([close |-> ck, scenario |-> Scenario, blocked |-> blocked,
                                     expect |-> out, dev |-> Dev])>>)
\* the model's own claim, checked while generating: without a named deviation nobody is stranded
NoStrandedWithoutDeviation ==
  (phase = "done" /\ Scenario \in {"conn", "mix"}) => \A i \in 1..Len(out) : out[i][2] \in {"err", "none", "closed"}
=============================================================================
