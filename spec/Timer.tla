------------------------------- MODULE Timer -------------------------------
(* C09 - timers never fire early and always fire.

   Transcription of
     compio-runtime/src/time/runtime.rs   TimerRuntime::{insert, update_waker, cancel,
                                          min_timeout, wake, poll_timer}, TimerKey ordering
     compio-runtime/src/time/future.rs    TimerFuture (Drop = cancel), Sleep(Option<TimerFuture>),
                                          Timeout (inner first, then sleep), Interval::tick
     compio-runtime/src/lib.rs            Runtime::{current_timeout, poll, poll_with}:
                                          driver wait bounded by min_timeout, then wake
   as the code is written, one action per call of the public API / per critical section.

   Time is the model variable now, advanced by Tick.  A deadline d has passed when d <= now.
   (The replay harness sits in the middle of a real tick, so d <= now in the model is
   "d * tick lies before Instant::now" in the implementation.)

   wheel  : the BTreeMap, a function  key -> waker  with key = <<deadline, generation>>,
            ordered lexicographically as the derived Ord of TimerKey
   obj    : the future objects of the program (Sleep / Timeout / Interval with its tick future)
   fk, wk, justWoke : ghost (which keys were fired by wake, which objects were woken and
            not polled since, whether the last action was a wake)                          *)
EXTENDS Integers, FiniteSets, TLC

CONSTANTS N,          \* number of future objects a program may create
          Deadlines,  \* deadlines / interval starts a program may ask for (absolute ticks)
          Periods,    \* interval periods
          Kinds,      \* subset of {"sleep", "timeout", "interval"}
          NW,         \* distinct wakers per object
          MaxNow,     \* the clock stops here (keeps the model finite)
          MaxGen,     \* a program creates at most MaxGen timers in total (interval ticks included)
          Mut         \* "none", or the name of a seeded mutation (non-vacuity controls)

Objs   == 1..N
NoKey  == <<-1, -1>>
NoWaker == <<0, 0>>
NoneT  == -1                 \* Option::None of min_timeout
GenMax == 1000               \* stands for u64::MAX
Inf    == MaxNow + 100       \* driver wait without timeout

VARIABLES now,        \* the clock
          gen,        \* TimerRuntime::generation
          wheel,      \* TimerRuntime::wheel
          obj,        \* future objects
          fk,         \* ghost: the current key of object i was removed by wake
          wk,         \* ghost: a waker of object i was invoked and i was not polled since
          phase,      \* "user" (code of the thread runs) | "waiting" (inside driver.poll(timeout))
          wakeAt,     \* when the driver wait times out
          justWoke    \* ghost: the last action ended with TimerRuntime::wake

vars == <<now, gen, wheel, obj, fk, wk, phase, wakeAt, justWoke>>

Keys == DOMAIN wheel
MinS(S) == CHOOSE x \in S : \A y \in S : x <= y
Max(a, b) == IF a > b THEN a ELSE b

\* derived Ord of TimerKey { deadline, generation }
KeyLess(a, b) == a[1] < b[1] \/ (a[1] = b[1] /\ a[2] < b[2])
FirstKey == CHOOSE k \in Keys : \A j \in Keys : j = k \/ KeyLess(k, j)
LastKey == CHOOSE k \in Keys : \A j \in Keys : j = k \/ KeyLess(j, k)

WheelPut(wh, k, v) == [x \in (DOMAIN wh) \cup {k} |-> IF x = k THEN v ELSE wh[x]]
WheelDel(wh, k) == [x \in (DOMAIN wh) \ {k} |-> wh[x]]

Blank == [kind |-> "none", st |-> "unused", sl |-> "absent", key |-> NoKey, dl |-> -1,
          inner |-> "na", first |-> FALSE, start |-> -1, period |-> 0, res |-> "na", val |-> -1]

\* ---------------------------------------------------------------------------
\* TimerRuntime
\* ---------------------------------------------------------------------------
\* insert: if deadline <= Instant::now() { return None }
InsertRefuses(d) == d <= now

\* Sleep::new(d) = Sleep(TimerFuture::try_new(d)); result [sl, key, wheel, gen]
NewSleep(d) ==
  IF InsertRefuses(d)
  THEN [sl |-> "none", key |-> NoKey, wheel |-> wheel, gen |-> gen]
  ELSE [sl |-> "some", key |-> <<d, gen>>, wheel |-> WheelPut(wheel, <<d, gen>>, NoWaker), gen |-> gen + 1]

\* cancel: wheel.remove(key)
Cancel(wh, k) == IF Mut = "cancel_noop" THEN wh ELSE WheelDel(wh, k)

\* min_timeout: first_key_value().map(|k| k.deadline.saturating_duration_since(now))
MinTimeoutOf(wh, t) ==
  IF DOMAIN wh = {} THEN NoneT
  ELSE LET ks == DOMAIN wh
           first == CHOOSE k \in ks : \A j \in ks : j = k \/ KeyLess(k, j)
           last  == CHOOSE k \in ks : \A j \in ks : j = k \/ KeyLess(j, k)
           k == IF Mut = "min_latest" THEN last ELSE first
       IN Max(0, k[1] - t)
MinTimeoutV == MinTimeoutOf(wheel, now)

\* wake: pending = wheel.split_off(&TimerKey { deadline: now, generation: u64::MAX })
SplitKey == CASE Mut = "wake_strict" -> <<now, 0>>
              [] Mut = "wake_early"  -> <<now + 1, GenMax>>
              [] OTHER               -> <<now, GenMax>>
Expired == {k \in Keys : KeyLess(k, SplitKey)}

WakeEffect ==
  /\ wheel' = [k \in Keys \ Expired |-> wheel[k]]
  /\ fk' = [i \in Objs |-> fk[i] \/ (obj[i].sl = "some" /\ obj[i].key \in Expired)]
  \* (the waker of a Timeout that already yielded Ok may still be invoked: nothing is polled again then)
  /\ wk' = [i \in Objs |-> wk[i] \/ (obj[i].st = "live" /\ \E k \in Expired : wheel[k] # NoWaker /\ wheel[k][1] = i)]
  /\ justWoke' = TRUE

\* ---------------------------------------------------------------------------
\* the program (runs between two driver polls: phase = "user")
\* ---------------------------------------------------------------------------
User == phase = "user"
Unused == {i \in Objs : obj[i].st = "unused"}
FirstUnused == IF Unused = {} THEN 0 ELSE MinS(Unused)      \* symmetry: objects are created in index order

Quiet == /\ justWoke' = FALSE /\ UNCHANGED <<now, phase, wakeAt>>

\* sleep_until(d)
CreateSleep(i, d) ==
  /\ User /\ i = FirstUnused /\ "sleep" \in Kinds /\ gen < MaxGen
  /\ LET s == NewSleep(d) IN
       /\ obj' = [obj EXCEPT ![i] = [Blank EXCEPT !.kind = "sleep", !.st = "live", !.sl = s.sl, !.key = s.key, !.dl = d]]
       /\ wheel' = s.wheel /\ gen' = s.gen
  /\ UNCHANGED <<fk, wk>> /\ Quiet

\* timeout_at(d, inner)
CreateTimeout(i, d) ==
  /\ User /\ i = FirstUnused /\ "timeout" \in Kinds /\ gen < MaxGen
  /\ LET s == NewSleep(d) IN
       /\ obj' = [obj EXCEPT ![i] = [Blank EXCEPT !.kind = "timeout", !.st = "live", !.sl = s.sl, !.key = s.key,
                                                  !.dl = d, !.inner = "pending"]]
       /\ wheel' = s.wheel /\ gen' = s.gen
  /\ UNCHANGED <<fk, wk>> /\ Quiet

\* interval_at(s, p): no timer yet, the first tick() future creates it
CreateInterval(i, s, p) ==
  /\ User /\ i = FirstUnused /\ "interval" \in Kinds
  /\ obj' = [obj EXCEPT ![i] = [Blank EXCEPT !.kind = "interval", !.st = "live", !.start = s, !.period = p]]
  /\ UNCHANGED <<wheel, gen, fk, wk>> /\ Quiet

\* Sleep::poll: None => Ready; Some(t) => poll_timer: is_completed(key) ? Ready : (update_waker; Pending)
SleepReady(o) == o.sl = "none" \/ (o.sl = "some" /\ o.key \notin Keys)

PollSleepObj(i, wv) ==
  LET o == obj[i] IN
  /\ (IF SleepReady(o)
      THEN /\ obj' = [obj EXCEPT ![i].st = "done", ![i].res = "ready"]
           /\ wheel' = wheel
      ELSE /\ obj' = [obj EXCEPT ![i].res = "pending"]
           /\ wheel' = [wheel EXCEPT ![o.key] = wv])
  /\ gen' = gen /\ fk' = fk

\* Timeout::poll: inner first; only if it is pending the sleep is polled
PollTimeoutObj(i, wv) ==
  LET o == obj[i]
      innerFirst == Mut # "timeout_prefers_timer"
  IN
  /\ (IF innerFirst /\ o.inner = "ready"
      THEN obj' = [obj EXCEPT ![i].st = "done", ![i].res = "ok"] /\ wheel' = wheel
      ELSE IF SleepReady(o)
      THEN obj' = [obj EXCEPT ![i].st = "done", ![i].res = "elapsed"] /\ wheel' = wheel
      ELSE IF o.inner = "ready"
      THEN obj' = [obj EXCEPT ![i].st = "done", ![i].res = "ok"] /\ wheel' = [wheel EXCEPT ![o.key] = wv]
      ELSE obj' = [obj EXCEPT ![i].res = "pending"] /\ wheel' = [wheel EXCEPT ![o.key] = wv])
  /\ gen' = gen /\ fk' = fk

\* Interval::tick (async fn: the body starts at the first poll of the tick future)
\*   first tick : sleep_until(start); first_ticked = true; return start
\*   later ticks: now = Instant::now(); next = now + period - ((now - start) % period);
\*                sleep_until(next); return next
TickTarget(o) == IF ~o.first THEN o.start
                 ELSE IF Mut = "interval_drift" THEN now + o.period
                 ELSE now + o.period - ((now - o.start) % o.period)

PollIntervalObj(i, wv) ==
  LET o == obj[i]
      starting == o.sl = "absent"
      s == IF starting THEN NewSleep(TickTarget(o)) ELSE [sl |-> o.sl, key |-> o.key, wheel |-> wheel, gen |-> gen]
      tgt == IF starting THEN TickTarget(o) ELSE o.dl
      ready == s.sl = "none" \/ s.key \notin DOMAIN s.wheel
  IN
  /\ (starting => (tgt <= MaxNow /\ gen < MaxGen))   \* the program does not ask for ticks beyond the horizon
  /\ (IF ready
      THEN \* the tick future completes; its Sleep is dropped (cancel of an absent key)
           /\ obj' = [obj EXCEPT ![i] = [o EXCEPT !.sl = "absent", !.key = NoKey, !.dl = -1, !.first = TRUE,
                                                  !.res = "tick", !.val = tgt]]
           /\ wheel' = s.wheel
      ELSE /\ obj' = [obj EXCEPT ![i] = [o EXCEPT !.sl = "some", !.key = s.key, !.dl = tgt, !.res = "pending"]]
           /\ wheel' = [s.wheel EXCEPT ![s.key] = wv])
  /\ gen' = s.gen
  /\ fk' = [fk EXCEPT ![i] = IF starting \/ ready THEN FALSE ELSE fk[i]]

\* poll object i with its waker number w
Poll(i, w) ==
  /\ User /\ obj[i].st = "live"
  /\ (CASE obj[i].kind = "sleep"    -> PollSleepObj(i, <<i, w>>)
        [] obj[i].kind = "timeout"  -> PollTimeoutObj(i, <<i, w>>)
        [] obj[i].kind = "interval" -> PollIntervalObj(i, <<i, w>>))
  /\ wk' = [wk EXCEPT ![i] = FALSE]
  /\ Quiet

\* the inner future of a Timeout becomes ready (the next poll of the Timeout will see it)
FinishInner(i) ==
  /\ User /\ obj[i].st = "live" /\ obj[i].kind = "timeout" /\ obj[i].inner = "pending"
  /\ obj' = [obj EXCEPT ![i].inner = "ready"]
  /\ UNCHANGED <<wheel, gen, fk, wk>> /\ Quiet

\* drop of the future: impl Drop for TimerFuture = cancel(key) (also after completion)
Drop(i) ==
  /\ User /\ obj[i].st \in {"live", "done"}
  /\ wheel' = IF obj[i].sl = "some" THEN Cancel(wheel, obj[i].key) ELSE wheel
  /\ obj' = [obj EXCEPT ![i] = [Blank EXCEPT !.st = "dropped", !.kind = obj[i].kind]]
  /\ fk' = [fk EXCEPT ![i] = FALSE] /\ wk' = [wk EXCEPT ![i] = FALSE]
  /\ gen' = gen /\ Quiet

\* drop of a pending tick() future of an interval that stays alive
DropTick(i) ==
  /\ User /\ obj[i].st = "live" /\ obj[i].kind = "interval" /\ obj[i].sl # "absent"
  /\ wheel' = IF obj[i].sl = "some" THEN Cancel(wheel, obj[i].key) ELSE wheel
  /\ obj' = [obj EXCEPT ![i].sl = "absent", ![i].key = NoKey, ![i].dl = -1, ![i].res = "na"]
  /\ fk' = [fk EXCEPT ![i] = FALSE] /\ wk' = [wk EXCEPT ![i] = FALSE]
  /\ gen' = gen /\ Quiet

\* ---------------------------------------------------------------------------
\* time and the runtime
\* ---------------------------------------------------------------------------
Tick == /\ now < MaxNow /\ now' = now + 1
        /\ justWoke' = FALSE
        /\ UNCHANGED <<gen, wheel, obj, fk, wk, phase, wakeAt>>

\* Runtime::poll_with(Some(ZERO)): the driver returns at once, then timer_runtime.wake()
PollZero == /\ User /\ WakeEffect
            /\ UNCHANGED <<now, gen, obj, phase, wakeAt>>

\* Runtime::poll(): timeout = current_timeout(); driver.poll(timeout) ...
\* (block_on polls without a zero timeout only when no task is runnable)
PollBegin == /\ User /\ \A i \in Objs : ~wk[i]
             /\ phase' = "waiting"
             /\ wakeAt' = IF MinTimeoutV = NoneT THEN Inf ELSE now + MinTimeoutV
             /\ justWoke' = FALSE
             /\ UNCHANGED <<now, gen, wheel, obj, fk, wk>>

\* ... the wait times out, then timer_runtime.wake()
PollEndTimeout == /\ phase = "waiting" /\ now >= wakeAt
                  /\ WakeEffect /\ phase' = "user" /\ wakeAt' = 0
                  /\ UNCHANGED <<now, gen, obj>>

\* ... or an I/O completion / a wake-up from another thread ends the wait earlier
PollEndIo == /\ phase = "waiting" /\ now < wakeAt
             /\ WakeEffect /\ phase' = "user" /\ wakeAt' = 0
             /\ UNCHANGED <<now, gen, obj>>

Init == /\ now = 0 /\ gen = 0 /\ wheel = <<>>
        /\ obj = [i \in Objs |-> Blank]
        /\ fk = [i \in Objs |-> FALSE] /\ wk = [i \in Objs |-> FALSE]
        /\ phase = "user" /\ wakeAt = 0 /\ justWoke = FALSE

Next == \/ \E i \in Objs, d \in Deadlines : CreateSleep(i, d) \/ CreateTimeout(i, d)
        \/ \E i \in Objs, s \in Deadlines, p \in Periods : CreateInterval(i, s, p)
        \/ \E i \in Objs, w \in 1..NW : Poll(i, w)
        \/ \E i \in Objs : FinishInner(i) \/ Drop(i) \/ DropTick(i)
        \/ Tick \/ PollZero \/ PollBegin \/ PollEndTimeout \/ PollEndIo

Spec == Init /\ [][Next]_vars

\* a woken future is polled again; time passes; the thread keeps polling the runtime
RePoll(i) == wk[i] /\ \E w \in 1..NW : Poll(i, w)
FairSpec == /\ Spec
            /\ WF_vars(Tick) /\ WF_vars(PollBegin) /\ WF_vars(PollEndTimeout)
            /\ \A i \in Objs : WF_vars(RePoll(i))

\* ---------------------------------------------------------------------------
\* what C09 demands
\* ---------------------------------------------------------------------------
TypeOK == /\ now \in 0..MaxNow /\ gen \in 0..GenMax
          /\ \A k \in Keys : k[1] \in 0..MaxNow /\ k[2] \in 0..(gen - 1)
          /\ phase \in {"user", "waiting"}

\* the pending timers the program owns (spec-level notion, not read from the wheel); a Timeout that
\* completed with the inner result keeps its Sleep until it is dropped
Exists(i) == obj[i].st \in {"live", "done"}       \* created and not dropped yet
LivePending == {i \in Objs : Exists(i) /\ obj[i].sl = "some" /\ ~fk[i]}

\* dropping removes the entry; the wheel is exactly the set of live pending timers; keys are never reused
WheelExact == /\ Keys = {obj[i].key : i \in LivePending}
              /\ \A i, j \in LivePending : i # j => obj[i].key # obj[j].key
              /\ \A i \in LivePending : obj[i].key[1] = obj[i].dl

\* a registered waker belongs to the live future that owns the entry (no stale waker can be invoked)
WakerOwner == \A k \in Keys : wheel[k] # NoWaker =>
                LET i == wheel[k][1] IN Exists(i) /\ obj[i].sl = "some" /\ obj[i].key = k

\* never early: an entry leaves the wheel by wake only when its deadline has passed, and a future
\* reports completion only then
NeverEarly == /\ \A i \in Objs : fk[i] => obj[i].dl <= now
              /\ \A i \in Objs : obj[i].res \in {"ready", "elapsed"} => obj[i].dl <= now
              /\ \A i \in Objs : obj[i].res = "tick" => obj[i].val <= now

\* always fires: after wake() no live entry with a passed deadline remains
AlwaysFires == justWoke => \A k \in Keys : k[1] > now

\* a future whose deadline was already reached when it was created is ready without the runtime,
\* and a fired future is ready at its next poll
ReadyWhenDue == \A i \in Objs : (obj[i].st = "live" /\ obj[i].res = "pending") =>
                                   (obj[i].sl = "some" /\ (fk[i] \/ obj[i].key \in Keys))

\* an idle runtime sleeps no longer than the nearest deadline
MinTimeoutCorrect ==
  MinTimeoutV = IF LivePending = {} THEN NoneT ELSE Max(0, MinS({obj[i].dl : i \in LivePending}) - now)
IdleSleepBound == (phase = "waiting" /\ now < wakeAt) => \A i \in LivePending : wakeAt <= obj[i].dl

\* Timeout yields the inner result exactly when the inner future had finished at that poll
TimeoutExact == \A i \in Objs : (obj[i].kind = "timeout" /\ obj[i].st = "done") =>
                  /\ (obj[i].res = "ok" <=> obj[i].inner = "ready")
                  /\ (obj[i].res = "elapsed" <=> obj[i].inner = "pending")

\* interval ticks stay on start + k * period, increase strictly and are never early
IntervalAligned == \A i \in Objs : obj[i].kind = "interval" /\ obj[i].st = "live" =>
                     /\ (obj[i].res = "tick" =>
                           (obj[i].val >= obj[i].start /\ (obj[i].val - obj[i].start) % obj[i].period = 0))
                     /\ (obj[i].sl = "some" =>
                           /\ (obj[i].dl - obj[i].start) % obj[i].period = 0
                           /\ obj[i].dl > obj[i].val
                           /\ (obj[i].first => obj[i].dl - obj[i].period <= now))   \* the next tick, not a later one
                     /\ (~obj[i].first => obj[i].val = -1)

Safety == /\ TypeOK /\ WheelExact /\ WakerOwner /\ NeverEarly /\ AlwaysFires /\ ReadyWhenDue
          /\ MinTimeoutCorrect /\ IdleSleepBound /\ TimeoutExact /\ IntervalAligned

\* liveness (FairSpec): every future that reported Pending eventually completes (or is dropped)
Completes == \A i \in Objs : (obj[i].st = "live" /\ obj[i].res = "pending") ~>
                               ~(obj[i].st = "live" /\ obj[i].res = "pending")
\* and every entry whose deadline passed leaves the wheel
Fires == \A d \in 0..MaxNow : (\E k \in Keys : k[1] = d) ~> (\A k \in Keys : k[1] # d)
=============================================================================
