CONSTANTS
  N = 2
  Kind = "ring"
  Ops = {"o1", "o2"}
  FileOps = {}
  SrcType = "pipe"
  MaxPend = 2
  MaxH = 3
  ResetProvides = TRUE
  TakeEmptiesSlot = TRUE
  KeyRaceDev = TRUE
  DropReturnsQueued = FALSE
SPECIFICATION Spec
INVARIANTS Safe
