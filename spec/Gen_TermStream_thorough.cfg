SPECIFICATION Spec
CONSTANTS
  MaxFeed = 4
  MaxWinch = 2
  MaxDrop = 1
  Eager = TRUE
  Mut = ""
VIEW View
INVARIANTS
  Emit
