CONSTANTS
  Threads = {1, 2}
  Layouts <- LayoutsOne
  Muts <- MutsNoRecheck
  Sigs = {"a", "b"}
  BadSigs = {"k"}
  MaxRaise = 1
  RaiseOn = {0}
  SpuriousPolls = FALSE
  FixLeak = FALSE
  MaxNL = 3
SPECIFICATION FairSpec
PROPERTIES EventuallyCompletes
