CONSTANTS
  N = 3
  L = 2
  Modes = {"local", "remote"}
  MaxSignals = 2
SPECIFICATION CtlSpec
INVARIANTS RemoteWellFormed CtlSeen
CONSTRAINT CtlCons
