----------------------------- MODULE Gen_Wakeup -----------------------------
(* Schedule printer for Wakeup (Eager variant): a behaviour is the sequence of (role, hook site)
   turns the schedule controller of harness bin wake_replay grants to the real threads. *)
EXTENDS Wakeup, Json

CONSTANTS w1, w2, MaxLen,
          W2Window,    \* w2 starts only while the runtime thread is at one of these program counters ({} = no restriction)
          LateRounds   \* w2 starts only after the runtime has completed that many loop rounds (flag = AWAKE windows)
TgtMT == (w1 :> "main") @@ (w2 :> "t1")
TgtTT == (w1 :> "t1") @@ (w2 :> "t1")
TgtMM == (w1 :> "main") @@ (w2 :> "main")
TgtT12 == (w1 :> "t1") @@ (w2 :> "t2")
WName(w) == IF w = w1 THEN "w1" ELSE "w2"

VARIABLES hist, rounds
gvars == <<vars, hist, rounds>>

Step(role, act, site, blk) == hist' = Append(hist, [role |-> role, act |-> act, site |-> site, blocks |-> blk])

\* a push attempt that follows a wake inside the same segment of the real code is not a turn of its own
Internal == \E w \in Wakers : pcW[w] = "pushAfterWake"

AllSeen == \A w \in Wakers : seen[w] /\ pcW[w] = "done"
GInit == Init /\ hist = <<>> /\ rounds = 0
GNext ==
  /\ Len(hist) < MaxLen /\ ~(AllSeen /\ ~Internal)
  /\ IF Internal
       THEN \E w \in Wakers : WPushAfterWake(w) /\ UNCHANGED hist
       ELSE \/ \E w \in Wakers :
                 \/ (w = w2 => (rounds >= LateRounds /\ (W2Window = {} \/ pcR \in W2Window))) /\ WBegin(w) /\ Step(WName(w), "WBegin", "w.begin", FALSE)
                 \/ WStartSched(w) /\ Step(WName(w), "WStartSched", "exec.state.start_scheduling", FALSE)
                 \/ WReserve(w) /\ Step(WName(w), "WReserve", "exec.remote.reserve", FALSE)
                 \/ (pcW[w] = "push" /\ WPush(w) /\ Step(WName(w), "WPush", "exec.remote.push", FALSE))
                 \/ (pcW[w] = "pushRetry" /\ WPush(w) /\ Step(WName(w), "WPushRetry", "exec.remote.push_retry", FALSE))
                 \/ WFetchOr(w) /\ Step(WName(w), "WFetchOr", "awake.wake", FALSE)
                 \/ WWrite(w) /\ Step(WName(w), "WWrite", "notify.write", FALSE)
                 \/ WFinish(w) /\ Step(WName(w), "WFinish", "exec.state.finish_scheduling", FALSE)
            \/ RPollMain /\ Step("R", "RPollMain", "rt.poll_main", FALSE)
            \/ RDrainLoad /\ Step("R", "RDrainLoad", "exec.drain.load", FALSE)
            \/ RPopped /\ Step("R", "RPopped", "exec.drain.popped", FALSE)
            \/ RDrainSub /\ Step("R", "RDrainSub", "exec.drain.sub", FALSE)
            \/ RRunTask /\ Step("R", IF lastOv' THEN "RRunTaskOv" ELSE "RRunTask", "exec.state.unschedule", FALSE)
            \/ ROvEnter /\ Step("R", "ROvEnter", "drv.wait.enter", FALSE)
            \/ ROvLeave /\ Step("R", "ROvLeave", "drv.wait.leave", FALSE)
            \/ ROvClear /\ Step("R", "ROvClear", "notify.clear", FALSE)
            \/ RReset /\ Step("R", "RReset", "awake.reset", FALSE)
            \/ RArm /\ Step("R", "RArm", "iour.arm_notifier", FALSE)
            \/ REnter /\ Step("R", "REnter", "drv.wait.enter", inKernel')
            \/ RLeave /\ Step("R", "RLeave", "drv.wait.leave", FALSE)
            \/ RAwake1 /\ Step("R", "RAwake1", "awake.set", FALSE)
            \/ RClear /\ Step("R", "RClear", "notify.clear", FALSE)
            \/ RAwake2 /\ Step("R", "RAwake2", "awake.set", FALSE)
            \/ RFlushArm /\ Step("R", "RFlushArm", "iour.arm_notifier", FALSE)
            \/ RFlush /\ Step("R", "RFlush", "drv.wait.enter", FALSE)
            \/ RFlushLeave /\ Step("R", "RFlushLeave", "drv.wait.leave", FALSE)
            \/ RFlushReset /\ Step("R", "RFlushReset", "awake.reset", FALSE)
            \/ RExtWait /\ Step("R", "RExtWait", "ext.wait", FALSE)
  /\ rounds' = IF pcR = "awake2" /\ pcR' = "pollMain" THEN rounds + 1 ELSE rounds
GSpec == GInit /\ [][GNext]_gvars

Done == (AllSeen \/ Len(hist) >= MaxLen \/ Stuck) /\ ~Internal
EmitInv == Done => PrintT(<<"REPLAY", ToJson([driver |-> Driver, mode |-> Mode, qcap |-> QCap,
                                              targets |-> [w1 |-> Target[w1], w2 |-> Target[w2]],
                                              tasks |-> TaskSeq, overflow |-> Overflow, complete |-> AllSeen, stuck |-> Stuck, steps |-> hist])>>)
=============================================================================
