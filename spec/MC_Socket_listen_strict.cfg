CONSTANTS
  Drvs = {"iour", "poll"}
  PoolBuf = 2
  MaxDgram = 3
  DevMultiDrop = TRUE
  DevIncomingDrop = TRUE
  DevManagedEmpty = TRUE
  DevPollMultiLen = FALSE
  Part = "listen"
  Feat = {}
  Sizes = {0, 1}
  Caps = {1}
  SockBuf = 2
  MaxOff = 2
  Dirs = {1}
  Conns = {1, 2, 3}
  DgSocks = {"a", "b"}
  MaxDg = 2
SPECIFICATION SpecListen
VIEW mcview
INVARIANTS NoLostConnection
