SPECIFICATION Spec
CONSTANTS
  MaxCalls = 2
  MaxFlush = 2
  MaxIntr = 0
  AllowCancel = TRUE
  AllowLie = FALSE
  FixCancel = FALSE
VIEW View
INVARIANTS
  WrittenInRange
