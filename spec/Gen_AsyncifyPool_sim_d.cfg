CONSTANTS
  Limit = 2
  Jobs = {"j1", "j2", "j3"}
  Disp = {"D1", "D2"}
  NW = 3
  PanicJobs = {"j3"}
  Caught = FALSE
  DriverLoop = FALSE
  Fix = TRUE
  TimedFifo = TRUE
  MaxLen = 40
  NoTimeout = FALSE
SPECIFICATION GSpec
INVARIANTS Emit
