CONSTANTS
  Drivers = {"iour", "poll"}
  Classes = {"accept", "imm", "multi"}
  MaxTrig = 2
  MaxPoll = 3
  FixDrvDrop = TRUE
SPECIFICATION FairSpec
INVARIANTS Safe NeverLeaked
PROPERTIES Delivered
