---------------------------- MODULE Gen_Framing ----------------------------
(* Behaviour printer for Framing: carries the I/O-visible event trace as a history
   variable and prints one JSON line per finished behaviour; replayed by the
   harness binary replay_framing on the real Framed / framers.

   Events (uniform records [e, n, p]):
     "w"  n     the writer accepted n bytes in one write call
     "sh"       the writer was shut down (a "fl" event, flush of the writer, never occurs: see WriteDone)
     "r"  n     one read call delivered n bytes (0 = empty read, -1 = error)
     "it" p     poll_next returned Some(Ok(payload p))
     "er"       poll_next returned Some(Err)
     "end"      poll_next returned None
     "pan"      poll_next panicked (only where the model has the named deviation)

   The fragmentation of the reads is restricted by fmode so that the number of
   printed behaviours stays bounded:  "any" (every composition, only for wires of
   at most AnyMax bytes), "ones", "whole", "split" (first read arbitrary, then whole). *)
EXTENDS Framing, Json

CONSTANTS AnyMax,        \* rt: longest wire for which every fragmentation is printed
          LongModes,     \* rt: modes used for longer wires, subset of {"ones", "whole", "split", "any"}
          HostAnyMax,    \* same for hostile strings
          HostModes, WideHostModes

VARIABLES hist, fmode, nreads, wire0, wl0
gvars == <<vars, hist, fmode, nreads, wire0, wl0>>

Ev(e, n, p) == [e |-> e, n |-> n, p |-> p]

WireLen == IF mode = "hostile" THEN Len(wire)
           ELSE IF mode = "hostlazy" THEN lazy
           ELSE Len(Flat([i \in 1..Len(frames) |-> Enclose(fr, frames[i])]))

GInit == /\ Init
         /\ hist = <<>> /\ nreads = 0
         /\ wire0 = wire /\ wl0 = wlimit
         /\ fmode \in (IF WireLen <= 1 THEN {"whole"}
                       ELSE IF mode = "rt" THEN (IF WireLen <= AnyMax THEN {"any"} ELSE LongModes)
                       ELSE IF WireLen <= HostAnyMax THEN {"any"}
                       ELSE IF Wide(fr) THEN WideHostModes ELSE HostModes)

ChunkOK(n) == CASE fmode = "any"   -> TRUE
                [] fmode = "ones"  -> n = 1
                [] fmode = "whole" -> n = Min(ChunkMax, Len(wire))
                [] OTHER           -> (IF nreads = 0 THEN n < Len(wire) ELSE n = Min(ChunkMax, Len(wire)))

GNext ==
  /\ UNCHANGED <<fmode, wl0>>
  /\ \/ StartSend /\ UNCHANGED <<hist, nreads, wire0>>
     \/ \E n \in {Min(wlimit, Len(wbuf) - needle)} :      \* the scripted writer takes all it may
          WriteSome(n) /\ hist' = Append(hist, Ev("w", n, <<>>)) /\ UNCHANGED <<nreads, wire0>>
     \/ WriteDone /\ UNCHANGED <<hist, nreads, wire0>>
     \/ Close /\ hist' = (IF WriterShutDown THEN Append(hist, Ev("sh", 0, <<>>)) ELSE hist)
              /\ wire0' = sink /\ UNCHANGED nreads
     \/ IdleExtractFrame /\ hist' = Append(hist, Ev("it", 0, out'[Len(out')])) /\ UNCHANGED <<nreads, wire0>>
     \/ IdleNeedMore /\ UNCHANGED <<hist, nreads, wire0>>
     \/ IdleExtractPanics /\ hist' = Append(hist, Ev("pan", 0, <<>>)) /\ UNCHANGED <<nreads, wire0>>
     \/ IdleExtractErr /\ hist' = Append(hist, Ev("er", 0, <<>>)) /\ UNCHANGED <<nreads, wire0>>
     \/ PollPoisoned /\ hist' = Append(hist, Ev("pan", 0, <<>>)) /\ UNCHANGED <<nreads, wire0>>
     \/ PollErrored /\ hist' = Append(hist, Ev("end", 0, <<>>)) /\ UNCHANGED <<nreads, wire0>>
     \/ PollAfterFailed /\ hist' = Append(hist, Ev("end", 0, <<>>)) /\ UNCHANGED <<nreads, wire0>>
     \/ \E n \in 1..Min(ChunkMax, Len(wire)) :
          ChunkOK(n) /\ ReadData(n) /\ hist' = Append(hist, Ev("r", n, <<>>)) /\ nreads' = nreads + 1
          /\ UNCHANGED wire0
     \* hostlazy (simulation only): the bytes the peer chose are appended to the recorded wire
     \/ \E n \in 1..ChunkMax :
          ReadDataLazy(n) /\ hist' = Append(hist, Ev("r", n, <<>>)) /\ nreads' = nreads + 1
          /\ wire0' = wire0 \o SubSeq(rbuf', Len(rbuf) + 1, Len(rbuf'))
     \/ ReadZero /\ nreads' = nreads + 1 /\ UNCHANGED wire0
        /\ hist' = (IF st' = "done" THEN hist \o <<Ev("r", 0, <<>>), Ev("end", 0, <<>>)>>
                                    ELSE Append(hist, Ev("r", 0, <<>>)))
     \/ ReadErr /\ nreads' = nreads + 1 /\ UNCHANGED wire0
        /\ hist' = hist \o <<Ev("r", -1, <<>>), Ev("er", 0, <<>>)>>
     \/ PollAfterDone /\ UNCHANGED <<hist, nreads, wire0>>

GSpec == GInit /\ [][GNext]_gvars

\* Extract on the complete wire (binding of Framer::extract called directly)
X0 == Extract(fr, wire0)

Emit == Finished =>
  PrintT(<<"REPLAY", ToJson([mode |-> (IF mode = "hostlazy" THEN "hostile" ELSE mode), k |-> fr.k, lfl |-> fr.lfl, be |-> fr.be, dk |-> fr.dk,
                             codec |-> codec, frames |-> frames, wl |-> wl0, fmode |-> fmode,
                             wire |-> wire0,
                             enc |-> [i \in 1..Len(frames) |-> Enclose(fr, frames[i])],
                             trunc |-> SomeTruncated,
                             x0 |-> X0,
                             pan |-> (st \in {"panic", "poisonpanic"}), limit |-> LimLimit,
                             ev |-> hist])>>)
=============================================================================
