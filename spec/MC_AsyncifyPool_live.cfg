CONSTANTS
  Limit = 1
  Jobs = {"j1", "j2", "j3"}
  Disp = {"D1", "D2"}
  NW = 3
  PanicJobs = {"j2"}
  Caught = FALSE
  DriverLoop = FALSE
  Fix = TRUE
  TimedFifo = FALSE
SPECIFICATION FairSpec
PROPERTIES DispatchReturns SendCompletes AcceptedRuns AllRun
