CONSTANTS
  Drivers = {"iour", "poll"}
  Classes = {"accept", "imm", "multi"}
  MaxTrig = 2
  MaxPoll = 3
  FixDrvDrop = FALSE
SPECIFICATION FairSpec
INVARIANTS Safe
PROPERTIES Delivered
