---------------------------- MODULE SharedFdProd ----------------------------
(* C06, part 2: descriptors created by operations (accept, open, socket, pipe, multishot
   accept) are either delivered to the caller or closed - for every moment at which the
   operation is cancelled, its key dropped or the driver dropped.

   One operation o pushed through the raw Proactor API (compio-driver/src/lib.rs push / poll /
   pop / pop_multishot / cancel, Key drop, Proactor drop). The steps of the SUBMITTER are the
   program; the kernel / thread pool is eager (it completes what it can as soon as it can,
   DESIGN 2.3), which is what the harness enforces by waiting for the effect.

     Driver = "iour"  io_uring: the SQE sits in the submission queue until a poll submits it;
                      the kernel posts CQEs; poll_entries reaps them: set_result adopts the
                      descriptor into the op (accepted_fd / opened_fd / multishot queue).
     Driver = "poll"  readiness driver: accept is tried in push (decide) and in poll (operate)
                      and stores an owned socket at once; open / socket / pipe run on the
                      thread pool (Decision::Blocking), the finished entry waits in the
                      completed channel and holds the driver's key.
     Class  = "accept" one descriptor, produced when a peer has connected (Trigger)
              "imm"    open / socket / pipe: produced as soon as the kernel / pool sees the op
              "multi"  multishot accept: one descriptor per connection, CQEs flagged MORE

   own[i] is who owns descriptor i:  "none" (not produced) "cqe" (only a number in a
   completion the driver has not looked at) "op" (owned field of the operation)
   "caller" (handed out) "closed" "leaked".

   Named deviation (genuine, reproduced by harness bin fd_prod), REPAIRED in /repo - the switch
   FixDrvDrop = FALSE is the old code, kept for the control configs:
     DrvDropDiscardsCqe   io_uring Driver::drop drained the completion queue and dropped the
                          keys WITHOUT set_result / push_multishot: a descriptor that only
                          existed as the number in such a CQE was never closed. Now every drained
                          completion is handed to its operation first. *)
EXTENDS Naturals, Sequences, FiniteSets, TLC

CONSTANTS
  Drivers,    \* subset of {"iour", "poll"}: chosen in the initial state (variable Driver)
  Classes,    \* subset of {"accept", "imm", "multi"}: chosen in the initial state (variable Class)
  MaxTrig,    \* connections the harness may make to a multishot listener (one otherwise)
  MaxPoll,    \* polls per program
  FixDrvDrop  \* TRUE: Driver::drop adopts drained completions (repaired code); FALSE: the old code

NFd == IF MaxTrig > 1 THEN MaxTrig ELSE 1
TrigBound(c) == IF c = "multi" THEN MaxTrig ELSE 1

VARIABLES
  Driver, Class,   \* fixed in the initial state
  kst,      \* kernel / pool side of the op: "none" "sq" "armed" "done"
  cq,       \* completions not yet reaped: sequence of [fd, more]; fd = 0: error / cancelled
  conns,    \* connections waiting in the listener backlog
  ntrig, npoll,
  nfd,      \* descriptors produced so far
  own,      \* own[i], i in 1..NFd
  hasres,   \* the final result is stored in the op (Key::has_result)
  ukey,     \* the submitter holds the Key
  dkey,     \* the driver (in_flight set / completed entry / pool closure) holds the key
  cancq,    \* an AsyncCancel is queued (iour) or the op has been cancelled (poll)
  drv,      \* "up" | "down"
  opfree,   \* the operation struct has been dropped
  devhit    \* ghost: the deviation DrvDropDiscardsCqe was exercised
vars == <<Driver, Class, kst, cq, conns, ntrig, npoll, nfd, own, hasres, ukey, dkey, cancq, drv, opfree, devhit>>

Own == {"none", "cqe", "op", "caller", "closed", "leaked"}
TypeOK ==
  /\ Driver \in Drivers /\ Class \in Classes
  /\ kst \in {"none", "sq", "armed", "done"}
  /\ cq \in Seq([fd : 0..NFd, more : BOOLEAN])
  /\ conns \in 0..MaxTrig /\ ntrig \in 0..MaxTrig /\ npoll \in 0..MaxPoll /\ nfd \in 0..NFd
  /\ own \in [1..NFd -> Own]
  /\ hasres \in BOOLEAN /\ ukey \in BOOLEAN /\ dkey \in BOOLEAN /\ cancq \in BOOLEAN
  /\ drv \in {"up", "down"} /\ opfree \in BOOLEAN /\ devhit \in BOOLEAN

Init ==
  /\ Driver \in Drivers /\ Class \in Classes
  /\ ~(Driver = "poll" /\ Class = "multi")   \* AcceptMulti of the readiness driver is a plain accept
  /\ kst = "none" /\ cq = <<>> /\ conns = 0 /\ ntrig = 0 /\ npoll = 0 /\ nfd = 0
  /\ own = [i \in 1..NFd |-> "none"]
  /\ hasres = FALSE /\ ukey = FALSE /\ dkey = FALSE /\ cancq = FALSE
  /\ drv = "up" /\ opfree = FALSE /\ devhit = FALSE

-----------------------------------------------------------------------------
(* helpers on "state records" so that several effects can be chained inside one action *)
S0 == [kst |-> kst, cq |-> cq, conns |-> conns, nfd |-> nfd, own |-> own, hasres |-> hasres,
       ukey |-> ukey, dkey |-> dkey, cancq |-> cancq, opfree |-> opfree, devhit |-> devhit]

(* the op struct is dropped when the last key reference goes: owned fields are closed *)
FreeIfUnreferenced(s) ==
  IF ~s.ukey /\ ~s.dkey /\ ~s.opfree
    THEN [s EXCEPT !.opfree = TRUE,
                   !.own = [i \in 1..NFd |-> IF s.own[i] = "op" THEN "closed" ELSE s.own[i]]]
    ELSE s

(* the kernel / pool produces a descriptor: a CQE carrying its number (iour), or an owned
   value stored by call() on the pool thread / in operate (poll driver) *)
Produce(s, more) ==
  LET i == s.nfd + 1 IN
  IF Driver = "iour"
    THEN [s EXCEPT !.nfd = i, !.own[i] = "cqe", !.cq = Append(s.cq, [fd |-> i, more |-> more])]
    ELSE [s EXCEPT !.nfd = i, !.own[i] = "op"]

(* eager kernel: what happens to an op the kernel knows about *)
KernelRun(s) ==
  IF s.kst # "armed" THEN s
  ELSE IF Class = "imm" THEN
         (IF Driver = "iour" THEN [Produce(s, FALSE) EXCEPT !.kst = "done"]
          ELSE [Produce(s, FALSE) EXCEPT !.kst = "done",   \* pool job: entry in the completed channel
                                         !.cq = Append(s.cq, [fd |-> 0, more |-> FALSE])])
  ELSE IF Class = "accept" /\ Driver = "iour" /\ s.conns > 0 THEN
         [Produce([s EXCEPT !.conns = s.conns - 1], FALSE) EXCEPT !.kst = "done"]
  ELSE IF Class = "multi" /\ Driver = "iour" /\ s.conns > 0 THEN
         Produce([s EXCEPT !.conns = s.conns - 1], TRUE)
  ELSE s
(* multishot: one CQE per waiting connection *)
KernelRunAll(s) == LET a == KernelRun(s) b == KernelRun(a) IN KernelRun(b)

(* the kernel sees the AsyncCancel: an op still armed completes with ECANCELED *)
KernelCancel(s) ==
  IF s.cancq /\ s.kst = "armed" /\ Driver = "iour"
    THEN [s EXCEPT !.kst = "done", !.cq = Append(s.cq, [fd |-> 0, more |-> FALSE])]
    ELSE s

(* poll_entries / completed channel: adopt every completion *)
RECURSIVE Reap(_)
Reap(s) ==
  IF s.cq = <<>> THEN s
  ELSE LET e == Head(s.cq)
           t == [s EXCEPT !.cq = Tail(s.cq),
                          !.own = IF e.fd > 0 THEN [s.own EXCEPT ![e.fd] = "op"] ELSE s.own,
                          !.hasres = s.hasres \/ ~e.more,
                          !.dkey = s.dkey /\ e.more]
       IN Reap(t)

Set(s) ==
  /\ UNCHANGED <<Driver, Class>>
  /\ kst' = s.kst /\ cq' = s.cq /\ conns' = s.conns /\ nfd' = s.nfd /\ own' = s.own
  /\ hasres' = s.hasres /\ ukey' = s.ukey /\ dkey' = s.dkey /\ cancq' = s.cancq
  /\ opfree' = s.opfree /\ devhit' = s.devhit

-----------------------------------------------------------------------------
(* Proactor::push. iour: the entry goes to the submission queue.
   poll: accept is tried at once (decide): with a connection waiting it completes in push and
   the result is returned (PushEntry::Ready); blocking ops are dispatched to the pool. *)
Push ==
  /\ drv = "up" /\ kst = "none" /\ ~opfree
  /\ UNCHANGED <<ntrig, npoll, drv>>
  /\ IF Driver = "iour" THEN
       Set([S0 EXCEPT !.kst = "sq", !.ukey = TRUE, !.dkey = TRUE])
     ELSE IF Class = "imm" THEN
       Set(KernelRun([S0 EXCEPT !.kst = "armed", !.ukey = TRUE, !.dkey = TRUE]))
     ELSE IF conns > 0 THEN      \* Ready: the caller owns the returned op
       Set([Produce([S0 EXCEPT !.conns = conns - 1], FALSE)
              EXCEPT !.kst = "done", !.hasres = TRUE, !.own[1] = "caller", !.opfree = TRUE])
     ELSE Set([S0 EXCEPT !.kst = "armed", !.ukey = TRUE, !.dkey = TRUE])

(* the harness connects a client to the listener *)
Trigger ==
  /\ Class \in {"accept", "multi"} /\ ntrig < TrigBound(Class)
  /\ ntrig' = ntrig + 1
  /\ UNCHANGED <<npoll, drv>>
  /\ Set(KernelRunAll([S0 EXCEPT !.conns = conns + 1]))

(* Proactor::poll(Some(ZERO)): submit, the kernel runs, completions are reaped *)
Poll ==
  /\ drv = "up" /\ npoll < MaxPoll
  /\ npoll' = npoll + 1
  /\ UNCHANGED <<ntrig, drv>>
  /\ LET a == IF kst = "sq" THEN [S0 EXCEPT !.kst = "armed"] ELSE S0
         b == KernelCancel(KernelRunAll(a))
         (* readiness driver: operate() runs accept when the listener is readable *)
         c == IF Driver = "poll" /\ Class # "imm" /\ b.kst = "armed" /\ b.conns > 0 /\ ~b.cancq
                THEN [Produce([b EXCEPT !.conns = b.conns - 1], FALSE)
                        EXCEPT !.kst = "done", !.hasres = TRUE, !.dkey = FALSE]
                ELSE b
     IN Set(FreeIfUnreferenced(Reap(c)))

(* Proactor::cancel(key): a unique key with a result is handed back, otherwise the driver is
   asked to cancel and the submitter's key is gone *)
Cancel ==
  /\ drv = "up" /\ ukey
  /\ UNCHANGED <<ntrig, npoll, drv>>
  /\ IF hasres /\ ~dkey
       THEN Set([S0 EXCEPT !.ukey = FALSE, !.opfree = TRUE,
                           !.own = [i \in 1..NFd |-> IF own[i] = "op" THEN "caller" ELSE own[i]]])
       ELSE LET a == [S0 EXCEPT !.ukey = FALSE, !.cancq = TRUE]
                (* readiness driver: the op is taken out of the fd queue and completed now *)
                b == IF Driver = "poll" /\ Class # "imm" /\ a.kst = "armed"
                       THEN [a EXCEPT !.kst = "done", !.dkey = FALSE] ELSE a
            IN Set(FreeIfUnreferenced(b))

(* Proactor::pop(key) with a stored result: the op goes to the caller *)
Pop ==
  /\ drv = "up" /\ ukey /\ hasres
  /\ UNCHANGED <<ntrig, npoll, drv>>
  /\ Set([S0 EXCEPT !.ukey = FALSE, !.opfree = TRUE,
                    !.own = [i \in 1..NFd |-> IF own[i] = "op" THEN "caller" ELSE own[i]]])

(* Proactor::pop_multishot(&key): the oldest queued descriptor goes to the caller *)
PopMulti ==
  /\ Class = "multi" /\ drv = "up" /\ ukey
  /\ \E i \in 1..NFd :
       /\ own[i] = "op" /\ \A j \in 1..NFd : own[j] = "op" => i <= j
       /\ own' = [own EXCEPT ![i] = "caller"]
  /\ UNCHANGED <<Driver, Class, kst, cq, conns, ntrig, npoll, nfd, hasres, ukey, dkey, cancq, drv, opfree, devhit>>

(* the submitter drops its Key without cancelling *)
DropKey ==
  /\ ukey
  /\ UNCHANGED <<ntrig, npoll, drv>>
  /\ Set(FreeIfUnreferenced([S0 EXCEPT !.ukey = FALSE]))

(* Proactor dropped. iour: Driver::drop drains the CQ, closes the ring (which cancels what is
   armed and never submits what is only queued) and frees the in_flight keys.
   Deviation DrvDropDiscardsCqe: drained completions are not adopted.
   poll: the completed channel and the pool closures drop their entries (owned values). *)
DropDrv ==
  /\ drv = "up"
  /\ drv' = "down"
  /\ UNCHANGED <<ntrig, npoll>>
  /\ LET lost == {i \in 1..NFd : own[i] = "cqe"}
         a == IF Driver = "iour" /\ ~FixDrvDrop
                THEN [S0 EXCEPT !.own = [i \in 1..NFd |-> IF i \in lost THEN "leaked" ELSE own[i]],
                                !.cq = <<>>, !.devhit = devhit \/ lost # {}]
                ELSE Reap(S0)
         b == [a EXCEPT !.dkey = FALSE, !.kst = IF a.kst = "none" THEN "none" ELSE "done"]
     IN Set(FreeIfUnreferenced(b))

(* whatever the caller received is an owned value: dropping it closes *)
CallerDrop ==
  /\ \E i \in 1..NFd : own[i] = "caller"
  /\ own' = [i \in 1..NFd |-> IF own[i] = "caller" THEN "closed" ELSE own[i]]
  /\ UNCHANGED <<Driver, Class, kst, cq, conns, ntrig, npoll, nfd, hasres, ukey, dkey, cancq, drv, opfree, devhit>>

Next == Push \/ Trigger \/ Poll \/ Cancel \/ Pop \/ PopMulti \/ DropKey \/ DropDrv \/ CallerDrop

Spec == Init /\ [][Next]_vars
(* the program ends: every owner lets go *)
FairSpec == Spec /\ WF_vars(DropKey) /\ WF_vars(DropDrv) /\ WF_vars(CallerDrop)

-----------------------------------------------------------------------------
Accounted(i) == own[i] \in {"caller", "closed"}
(* at most one owner: an owned field exists only while the op struct does *)
OwnedByLiveOp == \A i \in 1..NFd : own[i] = "op" => ~opfree
CqeMeansPending == \A i \in 1..NFd : own[i] = "cqe" => \E k \in 1..Len(cq) : cq[k].fd = i
NeverLeaked == \A i \in 1..NFd : own[i] # "leaked"
LeakOnlyByDeviation == (\E i \in 1..NFd : own[i] = "leaked") => devhit
Safe == TypeOK /\ OwnedByLiveOp /\ CqeMeansPending /\ LeakOnlyByDeviation

(* the property: produced ~> delivered or closed *)
Delivered == \A i \in 1..NFd : (own[i] \in {"cqe", "op"}) ~> Accounted(i)
DeliveredModuloKnown == \A i \in 1..NFd : (own[i] \in {"cqe", "op"}) ~> (Accounted(i) \/ own[i] = "leaked")
Done == drv = "down" /\ ~ukey /\ \A i \in 1..NFd : own[i] # "caller"
=============================================================================
