SPECIFICATION Spec
CONSTANTS
  RawMode = TRUE
  Inputs <- InputsCtl
  FixStaleTimer = FALSE
  AllowLongCsi = TRUE
  MaxTok = 24
  Mut = "keep_after_event"
INVARIANTS
  CutIsNeedMore
PROPERTIES
  Progress
