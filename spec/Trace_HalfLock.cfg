CONSTANTS
  Readers = {1, 2, 3}
  Writers = {1, 2}
  MaxWrites = 100000
  MaxReads = 0
  Perpetual = TRUE
  Muts <- MutsNone
SPECIFICATION TSpec
POSTCONDITION Accepted
