CONSTANTS
  RW = {"a", "c"}
  WW = {"b", "d"}
  MaxPW = 2
  MaxFill = 1
  AllowShut = TRUE
  Eager = FALSE
  Strict = FALSE
  Mut = "none"
SPECIFICATION Spec
INVARIANTS TypeOK NoErr ExactlyOnce Covered
