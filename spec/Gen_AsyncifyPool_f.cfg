CONSTANTS
  Limit = 2
  Jobs = {"j1", "j2", "j3", "j4"}
  Disp = {"D1"}
  NW = 4
  PanicJobs = {}
  Caught = TRUE
  DriverLoop = TRUE
  Fix = TRUE
  TimedFifo = TRUE
  MaxLen = 40
  NoTimeout = FALSE
SPECIFICATION ESpec
