------------------------------- MODULE Signal -------------------------------
(* X01, part 2: signal delivery of compio-signal (unix), implementation-shaped.

   Code                                                   actions
   ----------------------------------------------------   ------------------------------------------
   compio-signal/src/unix/mod.rs
     signal(sig) first poll = SignalListener::new           PollCall (listener "new")
       register: HANDLER.write(), Slab::clone + insert      RLock
                 guard.store(new)                           WSwap WSeen WGenInc WFree  (half_lock.rs)
                 signal::signal(sig, Handler(..))           RSigaction   (fails for SIGKILL/SIGSTOP: RegFailed)
                 guard dropped                              RUnlock
     event.wait() = synchrony AsyncFlag::poll               PChk1 PReg PChk2   (flag, AtomicWaker register, flag)
     SignalListener::drop = unregister                      ULock (clone + remove + need_uninit)
                 signal::signal(sig, SigDfl)                UDfl         (before the store, as in the code)
                 handler.store(new)                         WSwap WSeen WGenInc WFree
                 guard dropped                              UUnlock
     extern "C" fn signal_handler                           HStart (the kernel invokes it on thread `on`)
       HANDLER.read()                                       HLoadGen HLockInc HLoadData
       for (sig == *s) handler.clone().notify()             HIter (flag.swap(true))  HWake (AtomicWaker take + wake)
       ReadGuard dropped                                    HUnlock

   A handler runs ON TOP of a thread: while handler h with hon[h] = t is active, thread t does not
   move (Suspended).  Thread 0 is a thread that owns no listener.  Keys follow slab::Slab exactly
   (LIFO free list), because the iteration order of the handler is the key order.

   Deviation of the pinned tree kept as a named action: RegFailed leaves the entry it inserted in the
   table when sigaction fails (FixLeak = FALSE): SlabExact is violated, SlabExactModuloKnown holds.

   Mut* constants are model mutations for control configurations. *)
EXTENDS Naturals, Sequences, FiniteSets, TLC

CONSTANTS Threads,          \* threads that own listeners (subset of Nat \ {0})
          Layouts,          \* set of listener layouts [sig |-> <<..>>, home |-> <<..>>]; one is chosen in Init
          Muts,             \* set of model mutations; one is chosen in Init ("none" = the code as it is)
          Sigs,             \* catchable signals
          BadSigs,          \* signals for which sigaction fails (SIGKILL, SIGSTOP)
          MaxRaise,         \* number of handler invocations
          RaiseOn,          \* threads a handler may be invoked on (subset of Threads \cup {0})
          SpuriousPolls,    \* TRUE: a pending listener may be polled without having been woken
          FixLeak,
          MaxNL             \* largest number of listeners of any layout (for the fairness quantifier)

\* listener layouts and mutation sets used by the configurations (cfg files cannot hold tuples)
L(sg, hm) == [sig |-> sg, home |-> hm]
LayoutsQuick == {L(<<"a", "a">>, <<1, 2>>), L(<<"a", "b">>, <<1, 1>>), L(<<"a", "k">>, <<1, 2>>)}
LayoutsTwoRaise == {L(<<"a", "a">>, <<1, 2>>), L(<<"a", "b">>, <<1, 2>>)}
LayoutsThree == {L(<<"a", "a", "b">>, <<1, 2, 2>>), L(<<"a", "a", "a">>, <<1, 2, 1>>), L(<<"a", "k", "a">>, <<1, 1, 2>>)}
LayoutsLive == {L(<<"a", "a">>, <<1, 2>>), L(<<"a", "b">>, <<1, 1>>)}
LayoutsCtl == {L(<<"a", "a">>, <<1, 2>>), L(<<"a", "b">>, <<1, 2>>)}
LayoutsBad == {L(<<"a", "k">>, <<1, 2>>)}
LayoutsLiveQ == {L(<<"a">>, <<1>>), L(<<"a", "a">>, <<1, 2>>)}
LayoutsTwoA == {L(<<"a", "a">>, <<1, 2>>)}
LayoutsThreeB == {L(<<"a", "a", "b">>, <<1, 2, 2>>), L(<<"a", "k", "a">>, <<1, 1, 2>>)}
MutsNone == {"none"}
LayoutsGenQuick == {L(<<"a", "a">>, <<1, 2>>), L(<<"a", "b">>, <<1, 1>>), L(<<"a", "k">>, <<2, 1>>)}
LayoutsGenRt == {L(<<"a", "a">>, <<1, 2>>), L(<<"a", "b">>, <<1, 2>>), L(<<"a", "a", "b">>, <<1, 1, 2>>)}
LayoutsGenThree == {L(<<"a", "a", "b">>, <<1, 2, 2>>), L(<<"a", "a", "a">>, <<1, 2, 1>>), L(<<"a", "k", "a">>, <<1, 1, 2>>),
                    L(<<"a", "b", "a">>, <<1, 1, 1>>)}
MutsNoRecheck == {"norecheck"}
LayoutsOne == {L(<<"a">>, <<1>>)}
MutsAll == {"nofilter", "firstonly", "dflalways", "nobarrier", "nodfl"}

VARIABLES lay, mut
NL == Len(lay.sig)
LSig == lay.sig
LHome == lay.home
MutNoFilter == mut = "nofilter"
MutFirstOnly == mut = "firstonly"
MutNoRecheck == mut = "norecheck"
MutDflAlways == mut = "dflalways"
MutNoBarrier == mut = "nobarrier"
MutNoDfl == mut = "nodfl"

Listeners == 1..NL
Handlers == 1..MaxRaise
AllThreads == Threads \cup {0}
Slots == {0, 1}
VerIds == 0..2

VARIABLES
  ver, data, alive, gen, lock, mutex, seen, pass, wslot,   \* the half-lock and the slab versions
  disp,                                                    \* sigaction: handler installed?
  lst, flag, wreg, wakes, wokenp, key, cancelled, failed,  \* per listener
  tpc, tl, top, wctx, wnew, wold,                          \* per thread
  hpc, hsig, hon, hslot, hptr, hpos,                       \* per handler invocation
  must, xsig                                               \* ghosts for the properties

hl == <<ver, data, alive, gen, lock, mutex, seen, pass, wslot>>
lv == <<lst, flag, wreg, wakes, wokenp, key, cancelled, failed>>
tv == <<tpc, tl, top, wctx, wnew, wold>>
hv == <<hpc, hsig, hon, hslot, hptr, hpos>>
gv == <<must, xsig>>
vars == <<lay, mut, hl, disp, lv, tv, hv, gv>>

(* ------------------------------- slab::Slab ------------------------------ *)
Occ(l, s) == [l |-> l, s |-> s, n |-> 0]
Vac(n) == [l |-> 0, s |-> "", n |-> n]
EmptySlab == [ent |-> <<>>, next |-> 0]
Insert(sl, l, s) ==
  IF sl.next = Len(sl.ent)
    THEN [ent |-> Append(sl.ent, Occ(l, s)), next |-> sl.next + 1]
    ELSE [ent |-> [sl.ent EXCEPT ![sl.next + 1] = Occ(l, s)], next |-> sl.ent[sl.next + 1].n]
Remove(sl, k) == [ent |-> [sl.ent EXCEPT ![k + 1] = Vac(sl.next)], next |-> k]
OccL(sl) == {sl.ent[i].l : i \in {j \in 1..Len(sl.ent) : sl.ent[j].l # 0}}
HasSig(sl, s) == \E i \in 1..Len(sl.ent) : sl.ent[i].l # 0 /\ sl.ent[i].s = s
DeadSlab == [ent |-> <<>>, next |-> 99]

NoL == 0
Active(h) == hpc[h] \notin {"idle", "done"}
Suspended(t) == \E h \in Handlers : Active(h) /\ hon[h] = t

Init ==
  /\ lay \in Layouts /\ mut \in Muts
  /\ ver = [v \in VerIds |-> IF v = 0 THEN EmptySlab ELSE DeadSlab]
  /\ data = 0 /\ alive = {0} /\ gen = 0 /\ lock = [i \in Slots |-> 0] /\ mutex = 0
  /\ seen = [i \in Slots |-> FALSE] /\ pass = 0 /\ wslot = 0
  /\ disp = [s \in Sigs |-> FALSE]
  /\ lst = [l \in Listeners |-> "new"] /\ flag = [l \in Listeners |-> FALSE]
  /\ wreg = [l \in Listeners |-> FALSE] /\ wakes = [l \in Listeners |-> 0]
  /\ wokenp = [l \in Listeners |-> FALSE] /\ key = [l \in Listeners |-> 0]
  /\ cancelled = [l \in Listeners |-> FALSE] /\ failed = [l \in Listeners |-> FALSE]
  /\ tpc = [t \in Threads |-> "idle"] /\ tl = [t \in Threads |-> NoL] /\ top = [t \in Threads |-> ""]
  /\ wnew = [t \in Threads |-> EmptySlab] /\ wold = [t \in Threads |-> 0] /\ wctx = [t \in Threads |-> ""]
  /\ hpc = [h \in Handlers |-> "idle"] /\ hsig = [h \in Handlers |-> ""] /\ hon = [h \in Handlers |-> 0]
  /\ hslot = [h \in Handlers |-> 0] /\ hptr = [h \in Handlers |-> 0] /\ hpos = [h \in Handlers |-> 0]
  /\ must = [h \in Handlers |-> {}] /\ xsig = [l \in Listeners |-> {}]

(* --------------------- threads: poll / drop of a listener ----------------- *)
\* first poll of signal(sig): SignalListener::new -> register; later polls: AsyncFlag::poll
PollCall(t, l) ==
  /\ tpc[t] = "idle" /\ ~Suspended(t) /\ LHome[l] = t
  /\ lst[l] \in {"new", "pend"}
  /\ SpuriousPolls \/ lst[l] = "new" \/ wokenp[l]
  /\ tpc' = [tpc EXCEPT ![t] = IF lst[l] = "new" THEN "r_lock" ELSE "p_chk1"]
  /\ tl' = [tl EXCEPT ![t] = l] /\ top' = [top EXCEPT ![t] = "poll"]
  /\ wokenp' = [wokenp EXCEPT ![l] = FALSE]
  /\ UNCHANGED <<hl, disp, lst, flag, wreg, wakes, key, cancelled, failed, wctx, wnew, wold, hv, gv>>

\* dropping the future: nothing to undo before the first poll, unregister afterwards
DropCall(t, l) ==
  /\ tpc[t] = "idle" /\ ~Suspended(t) /\ LHome[l] = t
  /\ lst[l] \in {"new", "pend"}
  /\ cancelled' = [cancelled EXCEPT ![l] = TRUE]
  /\ (IF lst[l] = "new"
        THEN lst' = [lst EXCEPT ![l] = "done"] /\ UNCHANGED <<tpc, tl, top>>
        ELSE /\ tpc' = [tpc EXCEPT ![t] = "u_lock"]
             /\ tl' = [tl EXCEPT ![t] = l] /\ top' = [top EXCEPT ![t] = "drop"]
             /\ UNCHANGED lst)
  /\ UNCHANGED <<hl, disp, flag, wreg, wakes, wokenp, key, failed, wctx, wnew, wold, hv, gv>>

\* register: HANDLER.write() + Slab::clone + insert
RLock(t) ==
  /\ tpc[t] = "r_lock" /\ ~Suspended(t) /\ mutex = 0
  /\ mutex' = t
  /\ wnew' = [wnew EXCEPT ![t] = Insert(ver[data], tl[t], LSig[tl[t]])]
  /\ key' = [key EXCEPT ![tl[t]] = ver[data].next]
  /\ wctx' = [wctx EXCEPT ![t] = "r"]
  /\ tpc' = [tpc EXCEPT ![t] = "swap"]
  /\ UNCHANGED <<ver, data, alive, gen, lock, seen, pass, wslot, disp, lst, flag, wreg, wakes, wokenp,
                 cancelled, failed, tl, top, wold, hv, gv>>

\* unregister: HANDLER.write() + Slab::clone + remove + need_uninit
NeedUninit(sl, s) == MutDflAlways \/ ~HasSig(sl, s)
ULock(t) ==
  /\ tpc[t] = "u_lock" /\ ~Suspended(t) /\ mutex = 0
  /\ mutex' = t
  /\ LET new == Remove(ver[data], key[tl[t]]) IN
       /\ wnew' = [wnew EXCEPT ![t] = new]
       /\ tpc' = [tpc EXCEPT ![t] = IF NeedUninit(new, LSig[tl[t]]) /\ ~MutNoDfl /\ LSig[tl[t]] \in Sigs THEN "u_dfl" ELSE "swap"]
  /\ wctx' = [wctx EXCEPT ![t] = "u"]
  /\ UNCHANGED <<ver, data, alive, gen, lock, seen, pass, wslot, disp, lv, tl, top, wold, hv, gv>>

\* signal::signal(sig, SigDfl), BEFORE the new table is stored
UDfl(t) ==
  /\ tpc[t] = "u_dfl" /\ ~Suspended(t)
  /\ disp' = [disp EXCEPT ![LSig[tl[t]]] = FALSE]
  /\ tpc' = [tpc EXCEPT ![t] = "swap"]
  /\ UNCHANGED <<hl, lv, tl, top, wctx, wnew, wold, hv, gv>>

\* WriteGuard::store: data.swap(new)
FreeId == CHOOSE v \in VerIds : v \notin alive /\ \A w \in VerIds : (w \notin alive) => v <= w
WSwap(t) ==
  /\ tpc[t] = "swap" /\ ~Suspended(t)
  /\ ver' = [ver EXCEPT ![FreeId] = wnew[t]]
  /\ data' = FreeId
  /\ alive' = alive \cup {FreeId}
  /\ wold' = [wold EXCEPT ![t] = data]
  /\ seen' = [i \in Slots |-> FALSE] /\ pass' = 0 /\ wslot' = 0
  /\ tpc' = [tpc EXCEPT ![t] = IF MutNoBarrier THEN "free" ELSE "seen"]
  /\ UNCHANGED <<gen, lock, mutex, disp, lv, tl, top, wctx, wnew, hv, gv>>

\* write_barrier: update_seen, one load per slot; after the load of slot 1 the loop condition
\* `!seen_zero.all()` is evaluated (first round: the generation switch comes first)
WSeen(t) ==
  /\ tpc[t] = "seen" /\ ~Suspended(t)
  /\ LET s2 == [seen EXCEPT ![wslot] = @ \/ lock[wslot] = 0] IN
       /\ seen' = s2
       /\ (IF wslot = 0
             THEN wslot' = 1 /\ UNCHANGED <<tpc, pass>>
             ELSE /\ wslot' = 0 /\ pass' = 1
                  /\ tpc' = [tpc EXCEPT ![t] = IF pass = 0 THEN "geninc"
                                                ELSE IF s2[0] /\ s2[1] THEN "free" ELSE "seen"])
  /\ UNCHANGED <<ver, data, alive, gen, lock, mutex, disp, lv, tl, top, wctx, wnew, wold, hv, gv>>

WGenInc(t) ==
  /\ tpc[t] = "geninc" /\ ~Suspended(t)
  /\ gen' = 1 - gen
  /\ tpc' = [tpc EXCEPT ![t] = IF seen[0] /\ seen[1] THEN "free" ELSE "seen"]
  /\ UNCHANGED <<ver, data, alive, lock, mutex, seen, pass, wslot, disp, lv, tl, top, wctx, wnew, wold, hv, gv>>

\* drop(Box::from_raw(old))
WFree(t) ==
  /\ tpc[t] = "free" /\ ~Suspended(t)
  /\ alive' = alive \ {wold[t]}
  /\ ver' = [ver EXCEPT ![wold[t]] = DeadSlab]
  /\ tpc' = [tpc EXCEPT ![t] = IF wctx[t] = "r" THEN "r_sig" ELSE "u_unlock"]
  /\ UNCHANGED <<data, gen, lock, mutex, seen, pass, wslot, disp, lv, tl, top, wctx, wnew, wold, hv, gv>>

\* register: signal::signal(sig, Handler(signal_handler))
RSigaction(t) ==
  /\ tpc[t] = "r_sig" /\ ~Suspended(t)
  /\ LSig[tl[t]] \in Sigs
  /\ disp' = [disp EXCEPT ![LSig[tl[t]]] = TRUE]
  /\ tpc' = [tpc EXCEPT ![t] = "r_unlock"]
  /\ UNCHANGED <<hl, lv, tl, top, wctx, wnew, wold, hv, gv>>

\* ... which fails with EINVAL for SIGKILL / SIGSTOP: `?` returns, the entry inserted above stays
\* (no SignalListener exists, so nothing will ever remove it).  FixLeak = TRUE models the repair
\* (install the handler before inserting, or remove the entry on the error path).
RegFailed(t) ==
  /\ tpc[t] = "r_sig" /\ ~Suspended(t)
  /\ LSig[tl[t]] \in BadSigs
  /\ failed' = [failed EXCEPT ![tl[t]] = TRUE]
  /\ tpc' = [tpc EXCEPT ![t] = IF FixLeak THEN "u_lock" ELSE "r_unlock"]
  /\ mutex' = IF FixLeak THEN 0 ELSE mutex
  /\ UNCHANGED <<ver, data, alive, gen, lock, seen, pass, wslot, disp, lst, flag, wreg, wakes, wokenp, key,
                 cancelled, tl, top, wctx, wnew, wold, hv, gv>>

RUnlock(t) ==
  /\ tpc[t] = "r_unlock" /\ ~Suspended(t)
  /\ mutex' = 0
  /\ (IF failed[tl[t]]
        THEN /\ lst' = [lst EXCEPT ![tl[t]] = "done"]      \* the future completes with Err(EINVAL)
             /\ tpc' = [tpc EXCEPT ![t] = "idle"]
        ELSE /\ tpc' = [tpc EXCEPT ![t] = "p_chk1"] /\ UNCHANGED lst)
  /\ UNCHANGED <<ver, data, alive, gen, lock, seen, pass, wslot, disp, flag, wreg, wakes, wokenp, key,
                 cancelled, failed, tl, top, wctx, wnew, wold, hv, gv>>

\* AsyncFlag::poll: flag.get(); waker.register(cx.waker()); flag.get()
PChk1(t) ==
  /\ tpc[t] = "p_chk1" /\ ~Suspended(t)
  /\ tpc' = [tpc EXCEPT ![t] = IF flag[tl[t]] THEN "u_lock" ELSE "p_reg"]
  /\ UNCHANGED <<hl, disp, lv, tl, top, wctx, wnew, wold, hv, gv>>

PReg(t) ==
  /\ tpc[t] = "p_reg" /\ ~Suspended(t)
  /\ wreg' = [wreg EXCEPT ![tl[t]] = TRUE]
  /\ tpc' = [tpc EXCEPT ![t] = "p_chk2"]
  /\ UNCHANGED <<hl, disp, lst, flag, wakes, wokenp, key, cancelled, failed, tl, top, wctx, wnew, wold, hv, gv>>

PChk2(t) ==
  /\ tpc[t] = "p_chk2" /\ ~Suspended(t)
  /\ (IF flag[tl[t]] /\ ~MutNoRecheck
        THEN tpc' = [tpc EXCEPT ![t] = "u_lock"] /\ UNCHANGED lst
        ELSE tpc' = [tpc EXCEPT ![t] = "idle"] /\ lst' = [lst EXCEPT ![tl[t]] = "pend"])   \* Poll::Pending
  /\ UNCHANGED <<hl, disp, flag, wreg, wakes, wokenp, key, cancelled, failed, tl, top, wctx, wnew, wold, hv, gv>>

\* unregister done, guard dropped: the listener is gone (the future returned Ready(Ok) or was dropped)
UUnlock(t) ==
  /\ tpc[t] = "u_unlock" /\ ~Suspended(t)
  /\ mutex' = 0
  /\ lst' = [lst EXCEPT ![tl[t]] = "done"]
  /\ tpc' = [tpc EXCEPT ![t] = "idle"]
  /\ UNCHANGED <<ver, data, alive, gen, lock, seen, pass, wslot, disp, flag, wreg, wakes, wokenp, key,
                 cancelled, failed, tl, top, wctx, wnew, wold, hv, gv>>

Const == UNCHANGED <<lay, mut>>
ThreadStep(t) ==
  /\ Const
  /\ \/ RLock(t) \/ ULock(t) \/ UDfl(t) \/ WSwap(t) \/ WSeen(t) \/ WGenInc(t) \/ WFree(t)
     \/ RSigaction(t) \/ RegFailed(t) \/ RUnlock(t) \/ PChk1(t) \/ PReg(t) \/ PChk2(t) \/ UUnlock(t)
Poll(t, l) == Const /\ PollCall(t, l)
Drop(t, l) == Const /\ DropCall(t, l)

(* ------------------------- the signal handler ---------------------------- *)
\* The kernel runs signal_handler(sig) on thread `on` (any thread that does not block the signal;
\* the harness chooses it with raise() on that thread).  Only possible while the disposition is the
\* handler; with SIG_DFL the process would be killed (RegisteredImpliesHandler excludes that for
\* every registered listener).  One handler per thread at a time (no nesting in this model).
Registered(l) == lst[l] = "pend" /\ ~cancelled[l] /\ ~(\E t \in Threads : tl[t] = l /\ tpc[t] # "idle")

HStart(h, s, on) ==
  /\ hpc[h] = "idle"
  /\ \A g \in Handlers : g < h => hpc[g] # "idle"          \* invocations are used in order
  /\ disp[s]
  /\ ~Suspended(on)
  /\ hpc' = [hpc EXCEPT ![h] = "gen"]
  /\ hsig' = [hsig EXCEPT ![h] = s] /\ hon' = [hon EXCEPT ![h] = on]
  /\ must' = [must EXCEPT ![h] = {l \in Listeners : LSig[l] = s /\ Registered(l)}]
  /\ UNCHANGED <<hl, disp, lv, tv, hslot, hptr, hpos, xsig>>

HLoadGen(h) ==
  /\ hpc[h] = "gen"
  /\ hslot' = [hslot EXCEPT ![h] = gen]
  /\ hpc' = [hpc EXCEPT ![h] = "inc"]
  /\ UNCHANGED <<hl, disp, lv, tv, hsig, hon, hptr, hpos, gv>>

HLockInc(h) ==
  /\ hpc[h] = "inc"
  /\ lock' = [lock EXCEPT ![hslot[h]] = @ + 1]
  /\ hpc' = [hpc EXCEPT ![h] = "ptr"]
  /\ UNCHANGED <<ver, data, alive, gen, mutex, seen, pass, wslot, disp, lv, tv, hsig, hon, hslot, hptr, hpos, gv>>

HLoadData(h) ==
  /\ hpc[h] = "ptr"
  /\ hptr' = [hptr EXCEPT ![h] = data]
  /\ hpos' = [hpos EXCEPT ![h] = 1]
  /\ hpc' = [hpc EXCEPT ![h] = "iter"]
  /\ UNCHANGED <<hl, disp, lv, tv, hsig, hon, hslot, gv>>

\* one step of the iteration over the table the guard points to: skip, or flag.swap(true)
HIter(h) ==
  /\ hpc[h] = "iter"
  /\ hptr[h] \in alive          \* otherwise use after free (Safe is violated in this state): undefined
  /\ LET sl == ver[hptr[h]] IN
       IF hpos[h] > Len(sl.ent)
         THEN /\ hpc' = [hpc EXCEPT ![h] = "dec"]
              /\ UNCHANGED <<flag, hpos, xsig>>
         ELSE LET e == sl.ent[hpos[h]] IN
              IF e.l # 0 /\ (e.s = hsig[h] \/ MutNoFilter)
                THEN /\ flag' = [flag EXCEPT ![e.l] = TRUE]
                     /\ xsig' = [xsig EXCEPT ![e.l] = @ \cup {hsig[h]}]
                     /\ hpc' = [hpc EXCEPT ![h] = "wake"]
                     /\ UNCHANGED hpos
                ELSE /\ hpos' = [hpos EXCEPT ![h] = @ + 1]
                     /\ UNCHANGED <<flag, hpc, xsig>>
  /\ UNCHANGED <<hl, disp, lst, wreg, wakes, wokenp, key, cancelled, failed, tv, hsig, hon, hslot, hptr, must>>

\* AtomicWaker::take + Waker::wake (the waker of the task that polled last, if it is still there)
HWake(h) ==
  /\ hpc[h] = "wake"
  /\ hptr[h] \in alive
  /\ LET l == ver[hptr[h]].ent[hpos[h]].l IN
       /\ wreg' = [wreg EXCEPT ![l] = FALSE]
       /\ wakes' = [wakes EXCEPT ![l] = IF wreg[l] THEN @ + 1 ELSE @]
       /\ wokenp' = [wokenp EXCEPT ![l] = @ \/ wreg[l]]
  /\ hpos' = [hpos EXCEPT ![h] = @ + 1]
  /\ hpc' = [hpc EXCEPT ![h] = IF MutFirstOnly THEN "dec" ELSE "iter"]
  /\ UNCHANGED <<hl, disp, lst, flag, key, cancelled, failed, tv, hsig, hon, hslot, hptr, gv>>

HUnlock(h) ==
  /\ hpc[h] = "dec"
  /\ lock' = [lock EXCEPT ![hslot[h]] = @ - 1]
  /\ hpc' = [hpc EXCEPT ![h] = "done"]
  /\ UNCHANGED <<ver, data, alive, gen, mutex, seen, pass, wslot, disp, lv, tv, hsig, hon, hslot, hptr, hpos, gv>>

HandlerStep(h) ==
  /\ Const
  /\ (HLoadGen(h) \/ HLockInc(h) \/ HLoadData(h) \/ HIter(h) \/ HWake(h) \/ HUnlock(h))
Raise(h, s, on) == Const /\ HStart(h, s, on)

Next ==
  \/ \E t \in Threads, l \in Listeners : Poll(t, l) \/ Drop(t, l)
  \/ \E t \in Threads : ThreadStep(t)
  \/ \E h \in Handlers, s \in Sigs, on \in RaiseOn : Raise(h, s, on)
  \/ \E h \in Handlers : HandlerStep(h)

Spec == Init /\ [][Next]_vars

\* every started call continues; a woken listener is polled again by its runtime; handlers return
Fair ==
  /\ \A t \in Threads : WF_vars(ThreadStep(t))
  /\ \A h \in Handlers : WF_vars(HandlerStep(h))
  /\ \A l \in 1..MaxNL : WF_vars(l \in Listeners /\ wokenp[l] /\ Poll(LHome[l], l))
FairSpec == Spec /\ Fair

(* ------------------------------ properties ------------------------------- *)
\* the table a handler iterates is not freed under it
Safe == \A h \in Handlers : hpc[h] \in {"iter", "wake"} => hptr[h] \in alive
CurrentAlive == data \in alive
\* never a listener of another signal
NoCross == \A l \in Listeners : xsig[l] \subseteq {LSig[l]}
\* every delivered signal reaches every listener that was registered when the handler was invoked
\* (unless that listener is dropped meanwhile)
Delivered == \A h \in Handlers : hpc[h] = "done" => \A l \in must[h] : flag[l] \/ cancelled[l]
\* a listener completes only after its signal was delivered
NoSpurious == \A l \in Listeners : (lst[l] = "done" /\ ~cancelled[l] /\ ~failed[l]) => (flag[l] /\ xsig[l] # {})
\* a wake needs a registered waker: at most one wake per poll that returned Pending
WakeBound == \A l \in Listeners : wakes[l] <= MaxRaise /\ (wokenp[l] => flag[l])
\* while a listener is registered its signal does not have the default disposition
RegisteredImpliesHandler == \A l \in Listeners : (Registered(l) /\ LSig[l] \in Sigs) => disp[LSig[l]]
\* between critical sections the disposition says exactly whether the table has an entry for the signal
DispConsistent == (mutex = 0) => \A s \in Sigs : disp[s] <=> HasSig(ver[data], s)
\* between critical sections the table holds exactly the listeners that are registered
Quiet == \A t \in Threads : tpc[t] = "idle"
InTable == {l \in Listeners : lst[l] = "pend"}
SlabExact == Quiet => OccL(ver[data]) = InTable
SlabExactModuloKnown == Quiet => OccL(ver[data]) = InTable \cup {l \in Listeners : failed[l] /\ ~FixLeak}
KeysRight == Quiet => \A l \in InTable : ver[data].ent[key[l] + 1].l = l
LockBalanced ==
  \A i \in Slots : lock[i] = Cardinality({h \in Handlers : hslot[h] = i /\ hpc[h] \in {"ptr", "iter", "wake", "dec"}})
MutexOwned == \A t \in Threads : (mutex = t) <=>
                 tpc[t] \in {"swap", "seen", "geninc", "free", "r_sig", "r_unlock", "u_dfl", "u_unlock"}
\* a handler never waits (it may run on top of the thread that holds the write mutex)
HandlerWaitFree == \A h \in Handlers : (Active(h) /\ Safe) => ENABLED HandlerStep(h)
AliveBound == Cardinality(alive) <= 2

\* control configuration (MC_Signal_ctl.cfg, one TLC run, -workers 1): each model mutation must violate the
\* property it attacks.  CtlSeen is always TRUE; it prints the name of a mutation the first time a state
\* violating its target is reached (register 20 + index); the check requires all names.
CtlBroken ==
  CASE mut = "nofilter" -> ~NoCross
    [] mut = "firstonly" -> ~Delivered
    [] mut = "dflalways" -> ~RegisteredImpliesHandler
    [] mut = "nobarrier" -> ~Safe
    [] mut = "nodfl" -> ~DispConsistent
    [] mut = "norecheck" -> FALSE
    [] OTHER -> FALSE
CtlIdx == CASE mut = "nofilter" -> 21 [] mut = "firstonly" -> 22 [] mut = "dflalways" -> 23
            [] mut = "nobarrier" -> 24 [] mut = "nodfl" -> 25 [] OTHER -> 26
CtlInit == \A i \in 21..26 : TLCSet(i, 0)
CtlSeen == (CtlBroken /\ TLCGet(CtlIdx) = 0) => (TLCSet(CtlIdx, 1) /\ PrintT(<<"CTL", mut>>))
\* states of a mutation whose violation has been seen are not explored any further
CtlCons == TLCGet(CtlIdx) = 0
CtlSpec == CtlInit /\ Init /\ [][Next]_vars

CallsReturn == \A t \in Threads : (tpc[t] # "idle") ~> (tpc[t] = "idle")
HandlersReturn == \A h \in Handlers : Active(h) ~> (hpc[h] = "done")
\* every delivered signal eventually completes every listener it found registered
EventuallyCompletes ==
  \A l \in 1..MaxNL : (l \in Listeners /\ flag[l] /\ lst[l] = "pend" /\ ~cancelled[l]) ~> (l \notin Listeners \/ lst[l] = "done")
=============================================================================
