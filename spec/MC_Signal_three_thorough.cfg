CONSTANTS
  Threads = {1, 2}
  Layouts <- LayoutsThreeB
  Muts <- MutsNone
  Sigs = {"a", "b"}
  BadSigs = {"k"}
  MaxRaise = 1
  RaiseOn = {0, 1}
  SpuriousPolls = TRUE
  FixLeak = FALSE
  MaxNL = 3
SPECIFICATION Spec
INVARIANTS Safe CurrentAlive NoCross Delivered NoSpurious WakeBound RegisteredImpliesHandler DispConsistent SlabExactModuloKnown KeysRight LockBalanced MutexOwned HandlerWaitFree AliveBound
