\* thorough liveness: all kinds
CONSTANTS
  N = 2
  Deadlines = {0, 1, 2}
  Periods = {2}
  Kinds = {"sleep", "timeout", "interval"}
  NW = 1
  MaxNow = 3
  MaxGen = 3
  Mut = "none"
SPECIFICATION FairSpec
PROPERTIES Completes Fires
