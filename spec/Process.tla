------------------------------ MODULE Process ------------------------------
(* C20 - child processes of compio-process: complete stdio and the real exit status.

   Implementation-shaped model of
     compio-process/src/lib.rs    Command::spawn (take the three std handles, wrap each in an
                                  Attacher = SharedFd), Child::wait(self), Child::wait_with_output(self)
     compio-process/src/unix.rs   ChildStdout/ChildStderr::read = one driver Read op,
                                  ChildStdin::write = one driver Write op, child_wait =
                                  spawn_blocking(child.wait())            (default build)
     compio-process/src/linux.rs  child_wait with feature linux_pidfd: PollOnce(pidfd, Readable),
                                  SharedFd::take, child.wait()            (nightly build)
     compio-driver/src/sys/op/general/iour.rs   Read / Write / PollAdd submission entries
     compio-driver/src/sys/op/general/poll.rs   wait_readable / wait_writable then read(2) / write(2)
     compio-io read_to_end / write_all loops that the parent tasks run on top.

   Data are abstract blocks (one block = 32 KiB in the replay).  Every stream carries the
   consecutive block ids base+1, base+2, ... so that loss, duplication, reordering and swapped
   handles are visible.  A pipe is a FIFO of at most K blocks.

   The program (what the parent does, which helper child runs) is chosen in Init and constant
   afterwards; the actions are the steps of the parent tasks, of the child and of the kernel.

   Repaired defect kept as a switch (BlockingChildPipes = TRUE is the code before the fix
   "child stdio pipes put the polling driver's runtime thread to sleep", see notes/C20.md):
     PollWriteBlocksThread  - the child's pipes were left in blocking mode, so on the polling
       driver the write(2) issued after POLLOUT did not return a short count but blocked the
       whole runtime thread until the complete buffer was accepted; with an echoing child and a
       buffer larger than what both pipes and the child can absorb this is a deadlock although
       reader and writer run as concurrent tasks.  The control config MC_Process_pollstrict.cfg
       sets the switch and must show that deadlock; everywhere else the switch is FALSE.
   Named, expected scenarios that are not defects of compio:
     the classic sequential deadlocks (write everything then read; wait first then read) and
     WaitHoldsStdin (Child::wait / wait_with_output keep a piped stdin that was not taken
     open until they return, so a child that waits for end of input never exits; std closes it).
*)
EXTENDS Naturals, Sequences, FiniteSets, TLC

CONSTANTS K,           \* pipe capacity in blocks
          EchoBuf,     \* blocks the echo / consumer child reads at once
          NIns,        \* stdin payloads (blocks)
          NOuts,       \* producer payloads on stdout (blocks)
          NErrs,       \* producer payloads on stderr (blocks)
          WChunks,     \* piece size of the writer: 0 = whole payload in one write_all, c = pieces of c
          RChunks,     \* read size: 0 = read_to_end (all that is available), c = at most c blocks
          IoStatuses,  \* exit status of echo / consumer / producer programs in the I/O families
          Codes, Sigs, \* exit codes / signals for the status families
          Drivers,     \* subset of {"iour", "poll"}
          Impls,       \* subset of {"blocking", "pidfd"} - the two child_wait paths
          Families,    \* which program families to include
          BlockingChildPipes \* TRUE = compio-process before the repair: the parent's pipe ends stay blocking

Min(a, b) == IF a < b THEN a ELSE b
Ids(base, from, n) == [i \in 1..n |-> base + from + i]
Take(s, n) == SubSeq(s, 1, n)
Drop(s, n) == SubSeq(s, n + 1, Len(s))
ErrBase == 100
NoStatus == "none"

\* ---------------------------------------------------------------------------
\* programs
\* ---------------------------------------------------------------------------
Base == [kind |-> "exit", nin |-> 0, nout |-> 0, nerr |-> 0, wchunk |-> 0, rchunk |-> 0,
         mode |-> "conc", hold |-> FALSE, gate |-> FALSE, pipein |-> FALSE, take |-> TRUE,
         status |-> "c0", driver |-> "iour", impl |-> "blocking"]

DI == Drivers \X Impls
WOk(n, w) == w = 0 \/ w < n

\* (mode, hold) pairs of programs that own their stdin
ConcSeq == {<<"conc", FALSE>>, <<"conc", TRUE>>, <<"seq", FALSE>>}

EchoProgs ==
  { [Base EXCEPT !.kind = "echo", !.nin = t[1], !.wchunk = t[2], !.rchunk = t[3], !.mode = t[4][1],
                 !.hold = t[4][2], !.status = t[5], !.driver = t[6][1], !.impl = t[6][2]] :
      t \in { u \in NIns \X WChunks \X RChunks \X ConcSeq \X IoStatuses \X DI : WOk(u[1], u[2]) } }
  \cup
  \* wait_with_output after the parent took stdin, wrote everything and dropped it
  { [Base EXCEPT !.kind = "echo", !.nin = t[1], !.mode = "wwo", !.status = t[2],
                 !.driver = t[3][1], !.impl = t[3][2]] : t \in NIns \X IoStatuses \X DI }

ConsumerProgs ==
  { [Base EXCEPT !.kind = "consumer", !.nin = t[1], !.wchunk = t[2], !.mode = t[3][1], !.hold = t[3][2],
                 !.status = t[4], !.driver = t[5][1], !.impl = t[5][2]] :
      t \in { u \in NIns \X WChunks \X ConcSeq \X IoStatuses \X DI : WOk(u[1], u[2]) } }

ProducerProgs ==
  { [Base EXCEPT !.kind = "producer", !.nout = t[1], !.nerr = t[2], !.rchunk = t[3], !.mode = t[4],
                 !.status = t[5], !.driver = t[6][1], !.impl = t[6][2]] :
      t \in NOuts \X NErrs \X RChunks \X {"conc", "seq", "seqerr", "waitfirst", "wwo"} \X IoStatuses \X DI }
  \cup
  \* gated producer: after its output it waits for end of input; the parent holds stdin, then releases
  { [Base EXCEPT !.kind = "producer", !.nout = t[1], !.nerr = t[2], !.gate = TRUE, !.hold = TRUE,
                 !.status = t[3], !.driver = t[4][1], !.impl = t[4][2]] :
      t \in NOuts \X NErrs \X IoStatuses \X DI }

StatusOf(k) == IF k = "exit" THEN Codes ELSE Sigs
ExitProgs ==
  UNION { { [Base EXCEPT !.kind = k, !.status = t[1], !.mode = t[2][1], !.gate = t[2][2], !.hold = t[2][3],
                         !.driver = t[3][1], !.impl = t[3][2]] :
              t \in StatusOf(k) \X {<<"conc", FALSE, FALSE>>, <<"conc", TRUE, TRUE>>, <<"wwo", FALSE, FALSE>>} \X DI }
          : k \in {"exit", "killed"} }

\* every I/O kind with every exit status
StatusProgs ==
  { [Base EXCEPT !.kind = t[1], !.nin = IF t[1] = "producer" THEN 0 ELSE 1,
                 !.nout = IF t[1] = "producer" THEN 1 ELSE 0, !.nerr = IF t[1] = "producer" THEN 1 ELSE 0,
                 !.status = t[2], !.driver = t[3][1], !.impl = t[3][2]] :
      t \in {"echo", "consumer", "producer"} \X (Codes \cup Sigs) \X DI }

\* Child::wait / wait_with_output called while a piped stdin is still inside the Child
HeldProgs ==
  { [Base EXCEPT !.kind = t[1], !.gate = (t[1] \in {"exit", "killed", "producer"}), !.take = FALSE, !.mode = t[2],
                 !.status = IF t[1] = "killed" THEN CHOOSE s \in Sigs : TRUE ELSE "c0",
                 !.driver = t[3][1], !.impl = t[3][2]] :
      t \in {"echo", "consumer", "exit", "killed"} \X {"wwo", "waithold"} \X DI }
  \cup
  \* the same call pattern with a child that ignores its (piped) stdin: completes
  { [Base EXCEPT !.kind = "exit", !.pipein = TRUE, !.take = FALSE, !.mode = t[1], !.status = t[2],
                 !.driver = t[3][1], !.impl = t[3][2]] : t \in {"wwo", "waithold"} \X Codes \X DI }

ProgSet == (IF "echo" \in Families THEN EchoProgs ELSE {})
      \cup (IF "consumer" \in Families THEN ConsumerProgs ELSE {})
      \cup (IF "producer" \in Families THEN ProducerProgs ELSE {})
      \cup (IF "exit" \in Families THEN ExitProgs ELSE {})
      \cup (IF "status" \in Families THEN StatusProgs ELSE {})
      \cup (IF "held" \in Families THEN HeldProgs ELSE {})

StdinPiped(p) == p.kind \in {"echo", "consumer"} \/ p.gate \/ p.pipein
HeldStdin(p) == StdinPiped(p) /\ ~p.take
NeedsEof(p) == p.kind \in {"echo", "consumer"} \/ p.gate      \* the child exits only after end of input

\* ---------------------------------------------------------------------------
\* state
\* ---------------------------------------------------------------------------
VARIABLES prog,
          pin, pout, perr,   \* pipe contents (FIFO of block ids)
          inW,               \* the parent's write end of stdin is open (ChildStdin not dropped)
          ch,                \* "run" | "zombie" (exited, not reaped) | "reaped"
          cpc,               \* child program counter: "io" | "gate" | "exit"
          cbuf,              \* echo child: blocks read and not yet written
          cin,               \* ghost: everything the child read from stdin
          po, pe,            \* producer: blocks written so far to stdout / stderr
          wpc,               \* writer task: "off" | "run" | "done"
          wleft,             \* blocks not yet handed to a write_all call
          wpiece,            \* blocks of the current write_all call not yet accepted
          wsent,             \* blocks accepted by the pipe so far
          blk,               \* deviation: the runtime thread sits in a blocking write(2)
          ropc, gotO,        \* stdout reader: "run" | "eof";  what it has read
          repc, gotE,        \* stderr reader
          tpc,               \* wait task: "off" | "inwait" | "reaped" | "polling" | "ready" | "taken" | "done"
          tres,              \* status obtained by the pool thread (blocking path)
          wres,              \* status returned by wait to the caller
          reaps              \* how often the child was reaped

vars == <<prog, pin, pout, perr, inW, ch, cpc, cbuf, cin, po, pe, wpc, wleft, wpiece, wsent, blk,
          ropc, gotO, repc, gotE, tpc, tres, wres, reaps>>

FirstPiece(n, w) == IF w = 0 THEN n ELSE Min(w, n)

Init ==
  /\ prog \in ProgSet
  /\ pin = <<>> /\ pout = <<>> /\ perr = <<>>
  /\ inW = StdinPiped(prog)
  /\ ch = "run"
  /\ cpc = IF prog.kind \in {"exit", "killed"} THEN (IF prog.gate THEN "gate" ELSE "exit") ELSE "io"
  /\ cbuf = <<>> /\ cin = <<>> /\ po = 0 /\ pe = 0
  /\ wpc = IF StdinPiped(prog) /\ prog.take THEN "run" ELSE "off"
  /\ wpiece = FirstPiece(prog.nin, prog.wchunk)
  /\ wleft = prog.nin - FirstPiece(prog.nin, prog.wchunk)
  /\ wsent = 0
  /\ blk = FALSE
  /\ ropc = "run" /\ gotO = <<>> /\ repc = "run" /\ gotE = <<>>
  /\ tpc = "off" /\ tres = NoStatus /\ wres = NoStatus /\ reaps = 0

\* ---------------------------------------------------------------------------
\* order of the parent's activities (what the main task awaits before starting the next)
\* ---------------------------------------------------------------------------
WFin == wpc \in {"off", "done"}
RoStarted == CASE prog.mode \in {"conc", "waithold"} -> TRUE
               [] prog.mode = "seq" -> WFin
               [] prog.mode = "seqerr" -> WFin /\ repc = "eof"
               [] prog.mode = "waitfirst" -> tpc = "done"
               [] prog.mode = "wwo" -> WFin
ReStarted == CASE prog.mode \in {"conc", "waithold"} -> TRUE
               [] prog.mode = "seq" -> WFin /\ ropc = "eof"
               [] prog.mode = "seqerr" -> WFin
               [] prog.mode = "waitfirst" -> tpc = "done" /\ ropc = "eof"
               [] prog.mode = "wwo" -> WFin
WtStarted == CASE prog.mode \in {"conc", "waithold"} -> TRUE
               [] prog.mode \in {"seq", "seqerr"} -> WFin /\ ropc = "eof" /\ repc = "eof"
               [] prog.mode = "waitfirst" -> WFin
               [] prog.mode = "wwo" -> WFin

\* ---------------------------------------------------------------------------
\* child
\* ---------------------------------------------------------------------------
UCh == <<prog, inW, wpc, wleft, wpiece, wsent, blk, ropc, gotO, repc, gotE, tpc, tres, wres, reaps>>

\* echo / consumer: read(0, buf) returns what is there, at most the buffer
ChildReadIn ==
  /\ ch = "run" /\ cpc = "io" /\ prog.kind \in {"echo", "consumer"} /\ cbuf = <<>> /\ pin # <<>>
  /\ LET n == Min(EchoBuf, Len(pin)) IN
       /\ cin' = cin \o Take(pin, n)
       /\ cbuf' = IF prog.kind = "echo" THEN Take(pin, n) ELSE <<>>
       /\ pin' = Drop(pin, n)
  /\ UNCHANGED <<pout, perr, ch, cpc, po, pe>> /\ UNCHANGED UCh

\* echo: blocking write(1) - block after block as space appears
ChildEchoOut ==
  /\ ch = "run" /\ cpc = "io" /\ cbuf # <<>> /\ Len(pout) < K
  /\ pout' = Append(pout, Head(cbuf)) /\ cbuf' = Tail(cbuf)
  /\ UNCHANGED <<pin, perr, ch, cpc, cin, po, pe>> /\ UNCHANGED UCh

\* read(0) = 0: every write end of stdin is closed and the pipe is drained
ChildSeesEof ==
  /\ ch = "run" /\ cbuf = <<>> /\ pin = <<>> /\ ~inW
  /\ \/ cpc = "io" /\ prog.kind \in {"echo", "consumer"}
     \/ cpc = "gate"
  /\ cpc' = "exit"
  /\ UNCHANGED <<pin, pout, perr, ch, cbuf, cin, po, pe>> /\ UNCHANGED UCh

ChildProduceOut ==
  /\ ch = "run" /\ cpc = "io" /\ prog.kind = "producer" /\ po < prog.nout /\ Len(pout) < K
  /\ pout' = Append(pout, po + 1) /\ po' = po + 1
  /\ UNCHANGED <<pin, perr, ch, cpc, cbuf, cin, pe>> /\ UNCHANGED UCh

\* the helper writes its stdout completely before it starts on stderr
ChildProduceErr ==
  /\ ch = "run" /\ cpc = "io" /\ prog.kind = "producer" /\ po = prog.nout /\ pe < prog.nerr /\ Len(perr) < K
  /\ perr' = Append(perr, ErrBase + pe + 1) /\ pe' = pe + 1
  /\ UNCHANGED <<pin, pout, ch, cpc, cbuf, cin, po>> /\ UNCHANGED UCh

ChildProduceDone ==
  /\ ch = "run" /\ cpc = "io" /\ prog.kind = "producer" /\ po = prog.nout /\ pe = prog.nerr
  /\ cpc' = IF prog.gate THEN "gate" ELSE "exit"
  /\ UNCHANGED <<pin, pout, perr, ch, cbuf, cin, po, pe>> /\ UNCHANGED UCh

\* exit(code) or kill(self, sig): the process becomes a zombie, its pipe ends close
ChildExit ==
  /\ ch = "run" /\ cpc = "exit"
  /\ ch' = "zombie"
  /\ pin' = <<>>
  /\ UNCHANGED <<pout, perr, cpc, cbuf, cin, po, pe>> /\ UNCHANGED UCh

ChildStep == ChildReadIn \/ ChildEchoOut \/ ChildSeesEof \/ ChildProduceOut \/ ChildProduceErr
             \/ ChildProduceDone \/ ChildExit

\* ---------------------------------------------------------------------------
\* parent: writer task  (for each piece: write_all(piece) = loop { write(rest) })
\* ---------------------------------------------------------------------------
UW == <<prog, pout, perr, ch, cpc, cbuf, cin, po, pe, ropc, gotO, repc, gotE, tpc, tres, wres, reaps>>

Free == K - Len(pin)

\* bookkeeping after n blocks of the current piece were accepted
Accepted(n) ==
  /\ pin' = pin \o Ids(0, wsent, n)
  /\ wsent' = wsent + n
  /\ IF wpiece - n > 0
       THEN wpiece' = wpiece - n /\ wleft' = wleft
       ELSE LET nx == FirstPiece(wleft, prog.wchunk) IN wpiece' = nx /\ wleft' = wleft - nx

\* ChildStdin::write -> Write op completes with what the pipe accepts (short count possible)
WriteCall ==
  /\ wpc = "run" /\ ~blk /\ wpiece > 0 /\ ch = "run" /\ Free > 0
  /\ (prog.driver = "iour" \/ ~BlockingChildPipes \/ Free >= wpiece)
  /\ Accepted(Min(wpiece, Free))
  /\ UNCHANGED <<inW, wpc, blk>> /\ UNCHANGED UW

\* OLD BEHAVIOUR (polling driver, blocking pipe): POLLOUT was reported because the pipe is not
\* full, then the blocking write(2) takes what fits and sleeps inside the kernel with the rest.
PollWriteBlocksThread ==
  /\ BlockingChildPipes
  /\ wpc = "run" /\ ~blk /\ wpiece > 0 /\ ch = "run" /\ Free > 0
  /\ prog.driver = "poll" /\ Free < wpiece
  /\ Accepted(Free)
  /\ blk' = TRUE
  /\ UNCHANGED <<inW, wpc>> /\ UNCHANGED UW

\* kernel: the sleeping write(2) continues as the child makes room; it returns when the
\* buffer of this call is accepted completely
BlockedWriteProgress ==
  /\ blk /\ ch = "run" /\ Free > 0
  /\ LET n == Min(wpiece, Free) IN
       /\ pin' = pin \o Ids(0, wsent, n)
       /\ wsent' = wsent + n
       /\ IF wpiece - n > 0
            THEN wpiece' = wpiece - n /\ wleft' = wleft /\ blk' = TRUE
            ELSE LET nx == FirstPiece(wleft, prog.wchunk) IN
                   wpiece' = nx /\ wleft' = wleft - nx /\ blk' = FALSE
  /\ UNCHANGED <<inW, wpc>> /\ UNCHANGED UW

\* everything written: the writer task ends; ChildStdin is dropped (closed) unless the
\* harness holds it to keep the child alive
WriteDone ==
  /\ wpc = "run" /\ ~blk /\ wpiece = 0 /\ wleft = 0
  /\ wpc' = "done"
  /\ inW' = prog.hold
  /\ UNCHANGED <<pin, wleft, wpiece, wsent, blk>> /\ UNCHANGED UW

\* the harness drops the held ChildStdin (after it saw the wait still pending)
Release ==
  /\ wpc = "done" /\ inW /\ prog.hold /\ ~blk
  /\ inW' = FALSE
  /\ UNCHANGED <<pin, wpc, wleft, wpiece, wsent, blk>> /\ UNCHANGED UW

\* wait()/wait_with_output() return and only then drop the stdin that was left in the Child
HelperDropsStdin ==
  /\ HeldStdin(prog) /\ inW /\ tpc = "done" /\ ropc = "eof" /\ repc = "eof"
  /\ inW' = FALSE
  /\ UNCHANGED <<pin, wpc, wleft, wpiece, wsent, blk>> /\ UNCHANGED UW

WriterStep == WriteCall \/ PollWriteBlocksThread \/ BlockedWriteProgress \/ WriteDone
              \/ Release \/ HelperDropsStdin

\* ---------------------------------------------------------------------------
\* parent: reader tasks (ChildStdout / ChildStderr::read = one Read op)
\* ---------------------------------------------------------------------------
RSize(avail) == IF prog.rchunk = 0 THEN avail ELSE Min(prog.rchunk, avail)

ReadOut ==
  /\ ropc = "run" /\ RoStarted /\ ~blk /\ pout # <<>>
  /\ gotO' = gotO \o Take(pout, RSize(Len(pout)))
  /\ pout' = Drop(pout, RSize(Len(pout)))
  /\ UNCHANGED <<prog, pin, perr, inW, ch, cpc, cbuf, cin, po, pe, wpc, wleft, wpiece, wsent, blk,
                 ropc, repc, gotE, tpc, tres, wres, reaps>>

\* Ok(0): no writer left and nothing buffered
ReadOutEof ==
  /\ ropc = "run" /\ RoStarted /\ ~blk /\ pout = <<>> /\ ch # "run"
  /\ ropc' = "eof"
  /\ UNCHANGED <<prog, pin, pout, perr, inW, ch, cpc, cbuf, cin, po, pe, wpc, wleft, wpiece, wsent, blk,
                 gotO, repc, gotE, tpc, tres, wres, reaps>>

ReadErr ==
  /\ repc = "run" /\ ReStarted /\ ~blk /\ perr # <<>>
  /\ gotE' = gotE \o Take(perr, RSize(Len(perr)))
  /\ perr' = Drop(perr, RSize(Len(perr)))
  /\ UNCHANGED <<prog, pin, pout, inW, ch, cpc, cbuf, cin, po, pe, wpc, wleft, wpiece, wsent, blk,
                 ropc, gotO, repc, tpc, tres, wres, reaps>>

ReadErrEof ==
  /\ repc = "run" /\ ReStarted /\ ~blk /\ perr = <<>> /\ ch # "run"
  /\ repc' = "eof"
  /\ UNCHANGED <<prog, pin, pout, perr, inW, ch, cpc, cbuf, cin, po, pe, wpc, wleft, wpiece, wsent, blk,
                 ropc, gotO, gotE, tpc, tres, wres, reaps>>

ReaderStep == ReadOut \/ ReadOutEof \/ ReadErr \/ ReadErrEof

\* ---------------------------------------------------------------------------
\* parent: wait  (sys::child_wait)
\* ---------------------------------------------------------------------------
UT == <<prog, pin, pout, perr, inW, cpc, cbuf, cin, po, pe, wpc, wleft, wpiece, wsent, blk,
        ropc, gotO, repc, gotE>>

\* unix.rs: spawn_blocking(move || child.wait())
WaitSpawnBlocking ==
  /\ tpc = "off" /\ WtStarted /\ ~blk /\ prog.impl = "blocking"
  /\ tpc' = "inwait"
  /\ UNCHANGED <<ch, tres, wres, reaps>> /\ UNCHANGED UT

\* pool thread: waitpid returns once the child is a zombie and reaps it
WaitpidReturns ==
  /\ tpc = "inwait" /\ ch = "zombie"
  /\ ch' = "reaped" /\ reaps' = reaps + 1 /\ tres' = prog.status /\ tpc' = "reaped"
  /\ UNCHANGED wres /\ UNCHANGED UT

\* the JoinHandle of the blocking task resolves on the runtime thread
WaitDeliver ==
  /\ tpc = "reaped" /\ ~blk
  /\ tpc' = "done" /\ wres' = tres
  /\ UNCHANGED <<ch, tres, reaps>> /\ UNCHANGED UT

\* linux.rs: submit(PollOnce::new(pidfd, Readable))
WaitSubmitPollOnce ==
  /\ tpc = "off" /\ WtStarted /\ ~blk /\ prog.impl = "pidfd"
  /\ tpc' = "polling"
  /\ UNCHANGED <<ch, tres, wres, reaps>> /\ UNCHANGED UT

\* the pidfd becomes readable when the process has terminated; the op completes
PidfdReadable ==
  /\ tpc = "polling" /\ ~blk /\ ch # "run"
  /\ tpc' = "ready"
  /\ UNCHANGED <<ch, tres, wres, reaps>> /\ UNCHANGED UT

\* fd.take().await - the wrapper with the std Child comes back
WaitTakeFd ==
  /\ tpc = "ready" /\ ~blk
  /\ tpc' = "taken"
  /\ UNCHANGED <<ch, tres, wres, reaps>> /\ UNCHANGED UT

\* fd.child.wait(): waitid on the runtime thread; returns at once because the child is a zombie
WaitReap ==
  /\ tpc = "taken" /\ ~blk /\ ch = "zombie"
  /\ ch' = "reaped" /\ reaps' = reaps + 1 /\ wres' = prog.status /\ tpc' = "done"
  /\ UNCHANGED tres /\ UNCHANGED UT

WaitStep == WaitSpawnBlocking \/ WaitpidReturns \/ WaitDeliver \/ WaitSubmitPollOnce \/ PidfdReadable
            \/ WaitTakeFd \/ WaitReap

Next == ChildStep \/ WriterStep \/ ReaderStep \/ WaitStep

Spec == Init /\ [][Next]_vars
FairSpec == Spec /\ WF_vars(ChildStep) /\ WF_vars(WriterStep) /\ WF_vars(ReaderStep) /\ WF_vars(WaitStep)

\* ---------------------------------------------------------------------------
\* properties
\* ---------------------------------------------------------------------------
Counting(s, base) == s = [i \in 1..Len(s) |-> base + i]

TypeOK ==
  /\ Len(pin) <= K /\ Len(pout) <= K /\ Len(perr) <= K
  /\ ch \in {"run", "zombie", "reaped"} /\ cpc \in {"io", "gate", "exit"}
  /\ wpc \in {"off", "run", "done"} /\ ropc \in {"run", "eof"} /\ repc \in {"run", "eof"}
  /\ tpc \in {"off", "inwait", "reaped", "polling", "ready", "taken", "done"}
  /\ blk \in BOOLEAN /\ inW \in BOOLEAN /\ Len(cbuf) <= EchoBuf

\* what was read so far is exactly the beginning of what was produced, in order
InOrder == Counting(gotO, 0) /\ Counting(gotE, ErrBase) /\ Counting(cin, 0)

\* nothing is lost or duplicated on the way: read part + buffered parts = everything sent
Conservation ==
  /\ (prog.kind = "producer" => Counting(gotO \o pout, 0) /\ Len(gotO \o pout) = po)
  /\ (prog.kind = "producer" => Counting(gotE \o perr, ErrBase) /\ Len(gotE \o perr) = pe)
  /\ (prog.kind = "echo" /\ ch = "run" => Counting(gotO \o pout \o cbuf \o pin, 0)
                                          /\ Len(gotO \o pout \o cbuf \o pin) = wsent)
  /\ (prog.kind = "consumer" /\ ch = "run" => Counting(cin \o pin, 0) /\ Len(cin \o pin) = wsent)

\* wait returns the real status, the child is reaped exactly once, never before it exited
WaitSafe ==
  /\ reaps <= 1
  /\ (wres # NoStatus => wres = prog.status /\ ch = "reaped" /\ reaps = 1 /\ tpc = "done")
  /\ (tpc = "done" => wres = prog.status)
  /\ (ch = "reaped" => reaps = 1)

AllDone == wpc \in {"off", "done"} /\ ropc = "eof" /\ repc = "eof" /\ tpc = "done" /\ ~inW

CompleteAtEnd ==
  AllDone => /\ Len(gotO) = (IF prog.kind = "echo" THEN prog.nin ELSE prog.nout)
             /\ Len(gotE) = prog.nerr
             /\ (prog.kind \in {"echo", "consumer"} => Len(cin) = prog.nin)
             /\ wsent = (IF wpc = "off" THEN 0 ELSE prog.nin)

Terminal == ~ENABLED Next

MaxVol(p) == IF p.nin >= p.nout /\ p.nin >= p.nerr THEN p.nin ELSE IF p.nout >= p.nerr THEN p.nout ELSE p.nerr

\* the programs that have to complete whatever the timing is: all parent activities run as
\* concurrent tasks, or nothing can fill a pipe; not the ones that keep stdin inside the Child
MustComplete(p) ==
  /\ ~(HeldStdin(p) /\ NeedsEof(p))
  /\ \/ p.mode = "conc"
     \/ p.mode = "wwo" /\ p.nin <= K
     \/ MaxVol(p) <= K

\* only reachable with BlockingChildPipes = TRUE (the code before the repair)
KnownPollBlock == prog.driver = "poll" /\ blk

NoDeadlockStrict == Terminal /\ MustComplete(prog) => AllDone
NoDeadlock == Terminal /\ MustComplete(prog) => AllDone \/ KnownPollBlock

\* expected scenarios (these "invariants" are violated on purpose by dedicated configs)
SequentialNeverStuck == Terminal /\ ~(HeldStdin(prog) /\ NeedsEof(prog)) => AllDone \/ KnownPollBlock
HeldStdinNeverStuck == Terminal /\ HeldStdin(prog) => AllDone

\* a terminal state in which the child is gone has delivered the status
LiveAtTerminal == Terminal /\ ch # "run" => tpc = "done" /\ wres = prog.status

\* liveness on the fair specification
ExitLeadsToWait == (ch # "run") ~> (tpc = "done")
MustCompleteCompletes == (MustComplete(prog) /\ ~KnownPollBlock) ~> (AllDone \/ KnownPollBlock)
=============================================================================
