CONSTANTS
  Handles = {"h1", "o1"}
  Ops = {"o1"}
  InitLive = {}
  Variant = "unsync"
  AllowClone = TRUE
  AllowTake2 = TRUE
  AllowCancel = TRUE
  AllowSpurious = TRUE
  FileLayer = TRUE
  SilentRelease = FALSE
  ForgetsHandle = FALSE
  MaxMigrate = 1
  RegisterOnce = FALSE
  MaxLen = 6
SPECIFICATION GSpec
INVARIANTS Emit
