CONSTANTS
  Handles = {"h1", "h2", "o1"}
  Ops = {"o1"}
  InitLive = {"h1", "h2", "o1"}
  Variant = "sync"
  AllowClone = FALSE
  AllowTake2 = FALSE
  AllowCancel = FALSE
  AllowSpurious = FALSE
  FileLayer = FALSE
  SilentRelease = FALSE
  ForgetsHandle = FALSE
  MaxMigrate = 0
  RegisterOnce = FALSE
SPECIFICATION GSpec
INVARIANTS Emit
