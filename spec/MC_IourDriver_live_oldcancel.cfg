CONSTANTS
  o1 = o1
  o2 = o2
  o3 = o3
  Ops = {o1, o2}
  Kind <- KindSM
  SQCAP = 1
  MaxMore = 1
  Eager = FALSE
  FixCancelPush = FALSE
  FixDrainMore = TRUE
SPECIFICATION FairSpec
PROPERTIES CancelPrompt
