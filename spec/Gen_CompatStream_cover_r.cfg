CONSTANTS
  Cfgs <- CfgsQuick
  Side = "r"
  MaxSrc = 6
  MaxAcc = 5
  MaxSrcA = 4
  MaxAccA = 5
  Sizes = {0, 1, 3}
  Ks = {1, 2, 3}
  Fuel = 3
  Detail = TRUE
  OldReadLimit = FALSE
  WakeAll = TRUE
  MaxSteps = 40
  Cover = TRUE
  UninitSizes = {3}
SPECIFICATION GSpec
INVARIANTS ReadFifo WriteFifo WriteLimit ReadLimitStrict LimitReported RWakeCover WWakeCover Sane Emit
VIEW CoverView
