CONSTANTS
  Cfgs <- CfgsAsyncDiag
  Side = "w"
  MaxSrc = 9
  MaxAcc = 9
  MaxSrcA = 9
  MaxAccA = 9
  Sizes = {0, 1, 2, 3}
  Ks = {1, 2, 3}
  Fuel = 3
  Detail = TRUE
  OldReadLimit = FALSE
  WakeAll = TRUE
  MaxSteps = 3
  Cover = FALSE
  UninitSizes = {0, 1, 2, 3}
SPECIFICATION GSpec
INVARIANTS ReadFifo WriteFifo WriteLimit ReadLimitStrict LimitReported RWakeCover WWakeCover Sane Emit

