-------------------------- MODULE Gen_IoHelpersMem --------------------------
(* Behaviour printer for IoHelpersMem: one JSON line per case = the call and what the code-shaped
   transcription returns; replayed by harness bin replay_iohelpers on the real in-memory objects. *)
EXTENDS IoHelpersMem, Json

MemEmit == pc = "done" =>
             PrintT(<<"REPLAY", ToJson([op |-> op, sched |-> sched, wsched |-> wsched, rcap |-> rcap, wlen |-> wlen,
                                        x |-> [res |-> res, buf |-> Content(loc.b),
                                               vb |-> [j \in 1..Len(loc.vb) |-> Content(loc.vb[j])],
                                               got |-> <<>>, errs |-> <<>>, sink |-> sink, rpos |-> rpos,
                                               dev |-> MemKnownDeviation, ok |-> MemAgrees]])>>)
=============================================================================
