------------------------- MODULE Gen_CompatStream -------------------------
(* Behaviour printer for CompatStream: carries the call sequence as a history variable; replayed by
   harness bin replay_compat on the real SyncStream / AsyncStream.  Two uses:
     Cover = FALSE  every call sequence of exactly MaxSteps calls is printed (every shorter one is a
                    prefix of one of them);
     Cover = TRUE   together with VIEW CoverView in the cfg: TLC keeps one history per distinct model
                    state (state = adapter state + the call that led to it with its outcomes and
                    results) and a behaviour is printed for every such state, so every reachable
                    (state, incoming call) pair of the bounded model is executed on the real code,
                    whatever its depth.                                                            *)
EXTENDS CompatStream, Json

CONSTANTS MaxSteps, Cover,
          UninitSizes   \* caller sizes tried for poll_read_uninit (same code path as poll_read, own waker slot)
VARIABLES hist,     \* the calls so far with the expected observation after each
          vk        \* how many bytes the caller may consume: what the last fill_buf / poll_fill_buf showed,
                    \* minus what was consumed since (a caller only consumes what it was shown)
gvars == <<vars, hist, vk>>

\* what the harness can observe after a call (compared field by field)
Proj == [k |-> last.k, n |-> last.n, d |-> last.d, os |-> last.os, sp |-> last.sp, wake |-> last.wake,
         eof |-> R.eof, src |-> R.src, out |-> R.out, acc |-> W.acc, sink |-> W.sink,
         hpw |-> ~BufIsEmpty(W.b), shut |-> W.shut,
         dev |-> ~ReadLimitStrict,                      \* the recorded deviation is predicted here
         pk |-> IF Side = "r" THEN R.pk ELSE W.pk]

Step(a, n) == /\ hist' = Append(hist, [a |-> a, n |-> n, x |-> Proj'])
              /\ vk' = (IF a \in {"fill_buf", "pfill"} THEN (IF last'.k = "ok" THEN last'.n ELSE 0)
                        ELSE IF a = "consume" THEN vk - n
                        ELSE IF a = "complete" THEN vk
                        ELSE 0)
LastAct == IF hist = <<>> THEN "none" ELSE hist[Len(hist)].a

GInit == Init /\ hist = <<>> /\ vk = 0

GNext ==
  /\ Len(hist) < MaxSteps
  /\ \/ \E n \in Sizes : \/ Read(n) /\ Step("read", n)
                         \/ PollRead(n) /\ Step("pread", n)
                         \/ n \in UninitSizes /\ PollReadUninit(n) /\ Step("puninit", n)
                         \/ Write(n) /\ Step("write", n)
                         \/ PollWrite(n) /\ Step("pwrite", n)
                         \/ n <= vk /\ Consume(n) /\ Step("consume", n)
     \/ FillBuf /\ Step("fill_buf", 0)
     \/ FillReadBuf /\ Step("fill_read_buf", 0)
     \/ PollFillBuf /\ Step("pfill", 0)
     \/ RComplete /\ Step("complete", 0)
     \/ (LastAct = "write" /\ Flush /\ Step("flush", 0))       \* Write::flush is a no-op: once after a write
     \/ FlushWriteBuf /\ Step("flush_write_buf", 0)
     \/ PollFlush /\ Step("pflush", 0)
     \/ PollClose /\ Step("pclose", 0)
     \/ WComplete /\ Step("complete", 0)

GSpec == GInit /\ [][GNext]_gvars

CoverView == <<vars, vk, IF hist = <<>> THEN <<>> ELSE <<hist[Len(hist)].a, hist[Len(hist)].n>> >>

Emit == ((IF Cover THEN Len(hist) >= 1 ELSE Len(hist) = MaxSteps)) =>
          PrintT(<<"REPLAY", ToJson([mode |-> cfg.mode, side |-> Side, base |-> cfg.base, max |-> cfg.max,
                                     steps |-> hist])>>)
=============================================================================
