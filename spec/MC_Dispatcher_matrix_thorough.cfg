CONSTANTS
  MaxTasks = 2
  MaxWorkers = 2
  MaxSenders = 2
  NWChoices = {1, 2}
  ModeChoices = {TRUE, FALSE}
  FaultChoices = {"none", "boot", "poll"}
  PoolChoices = {1, 3}
  KindChoices = {"async", "blocking"}
  BodyPanics = TRUE
  BodyUsesPool = FALSE
  JoinerOnPool = FALSE
  ReceiverDrops = TRUE
  SkipIfReceiverGone = FALSE
SPECIFICATION Spec
INVARIANTS TypeOK ExactlyOnce ResultDelivery JoinedFirst SeqNoOverlap SeqAllFinished AllStartedAtJoin ConcNothingLeft JoinAfterExit
