---------------------------- MODULE Trace_Socket ----------------------------
(* C14 trace validation: is a history recorded from the real sockets (harness bin record_socket,
   flattened by lib/checks/c14.py into one record per line) a behaviour of Socket?

   One step consumes one record (cursor l) and takes the Socket action the record stands for with
   the logged arguments; the result the action computes (Socket!ret) must be the logged result.
   What the interface cannot show is composed silently (cursor unchanged): the kernel completing
   into an armed multishot operation, the zero-copy notification, the handshake entering the
   backlog. Linearization: a send takes effect at its call record, a receive at its return
   record (for a FIFO with partial receives this choice explains every explainable history); two
   sockets sending datagrams to one socket concurrently may be ordered either way, so a datagram
   send may be deferred at its call record and takes effect at any later point up to its return
   record - TLC picks.

   Acceptance: POSTCONDITION Accepted - the cursor reached the end of the trace (register 1 holds
   the furthest record consumed); otherwise the first record that could not be consumed is
   printed. *)
EXTENDS Socket, Json, IOUtils

Rec == ndJsonDeserialize(IOEnv.TRACE)

VARIABLES l,        \* next record
          pend,     \* datagram sends that were called and deferred: records [id, s, t, uid, n]
          open      \* datagram sends called and not yet returned: <<id, sender, target>>

tvars == <<l, pend, open>>
allvars == <<vars, tvars>>

r == Rec[l]
Max(a, b) == IF a >= b THEN a ELSE b
Eat == l' = l + 1 /\ TLCSet(1, Max(TLCGet(1), l + 1))
Silent == UNCHANGED l
KeepT == UNCHANGED <<pend, open>>
Is(e) == l <= Len(Rec) /\ r.ev = e
ModelSame == UNCHANGED vars

-----------------------------------------------------------------------------
TReset ==
  /\ Is("reset")
  /\ Reset(r.drv)
  /\ pend' = {} /\ open' = {}
  /\ Eat

(* ---------------------------------- stream --------------------------------- *)
TSend ==
  /\ Is("send") /\ KeepT /\ Eat
  /\ r.base = wnext[r.d]
  /\ IF r.res = "unsupported"
       THEN ZcUnsupported(r.d, r.n1 + r.n2)
       ELSE /\ r.res = "ok"
            /\ CASE r.op \in {"send", "msg"}   -> SendPlain(r.d, r.n1, r.k) /\ r.back
                 [] r.op \in {"sendv", "msgv"} -> SendVectored(r.d, r.n1, r.n2, r.k) /\ r.back
                 [] r.op \in {"zc", "zcmsg"}   -> ZcSend(r.d, r.n1, r.k)
                 [] r.op = "zcv"               -> ZcSendVectored(r.d, r.n1, r.n2, r.k)
            /\ ret'.k = r.k

TZcWait ==
  /\ Is("zcwait") /\ KeepT
  /\ IF zc[r.d] = "lent"
       THEN ZcNotify(r.d) /\ Silent
       ELSE ZcReturn(r.d) /\ r.back /\ Eat

TShutdown == Is("shutdown") /\ KeepT /\ Eat /\ Shutdown(r.d)

TRecv ==
  /\ Is("recv") /\ KeepT /\ Eat
  /\ CASE r.op = "recv"  -> RecvPlain(r.d, r.n1, r.k)
       [] r.op = "recvv" -> RecvVectored(r.d, r.n1, r.n2, r.k) /\ ret'.lens = <<r.l1, r.l2>>
       [] r.op = "msg"   -> RecvMsg(r.d, r.n1, 0, r.k) /\ r.flag = 0
       [] r.op = "msgv"  -> RecvMsg(r.d, r.n1, r.n2, r.k) /\ r.flag = 0 /\ ret'.lens = <<r.l1, r.l2>>
       [] r.op \in {"managed", "msgmanaged"} -> RecvManaged(r.d, r.n1, r.k) /\ ret'.none = r.none
  /\ ret'.runs = r.runs /\ ret'.len = r.blen /\ r.back

TNoBufs == Is("nobufs") /\ KeepT /\ Eat /\ RecvNoBufs(r.d)

TMultiOpen == Is("mopen") /\ KeepT /\ Eat /\ MultiOpen(r.d, r.cap, r.anc)

(* an item: on io_uring the kernel completed it (silently) before the stream yields it *)
TMultiItem ==
  /\ Is("mitem") /\ KeepT
  /\ IF drv = "iour" /\ mq[r.d] = <<>>
       THEN /\ Silent
            /\ IF marm[r.d] = "term" THEN MultiResubmit(r.d)
               ELSE IF r.k > 0 THEN KernelPrefetch(r.d, r.k) ELSE KernelTerminate(r.d, TRUE)
       ELSE /\ Eat
            /\ MultiNext(r.d, IF r.lost > 0 THEN r.lost ELSE r.k, r.lost > 0)
            /\ ret'.k = r.k /\ ret'.runs = r.runs /\ ret'.end = r.end

(* the multishot terminated because the pool had no buffer; it is submitted again later *)
TMultiNoBufs ==
  /\ Is("mnobufs") /\ KeepT
  /\ IF drv = "iour" /\ marm[r.d] = "term"
       THEN MultiResubmit(r.d) /\ Silent
       ELSE IF drv = "iour" THEN KernelTerminate(r.d, FALSE) /\ Eat
            ELSE ModelSame /\ Eat

(* the stream is dropped; r.lost bytes had completed into the operation and are gone with it *)
TMultiDrop ==
  /\ Is("mdrop") /\ KeepT
  /\ LET have == RLen(Flat(mq[r.d])) IN
     IF drv = "iour" /\ have < r.lost
       THEN /\ Silent
            /\ IF marm[r.d] = "term" THEN MultiResubmit(r.d)
               ELSE KernelPrefetch(r.d, Min(mlen[r.d], r.lost - have))
       ELSE /\ Eat
            /\ MultiDrop(r.d)
            /\ ret'.lost = r.lost

TSplit ==
  /\ Is("split") /\ KeepT /\ Eat
  /\ IF r.op = "owned" THEN SplitOwned(r.p) ELSE ModelSame

TDropHalf ==
  /\ Is("drophalf") /\ KeepT /\ Eat
  /\ IF r.op = "owned" THEN DropHalf(r.p) ELSE (hnd[r.p] > 0 /\ ModelSame)

TFdCheck == Is("fdcheck") /\ KeepT /\ Eat /\ r.back = (hnd[r.p] > 0) /\ ModelSame

(* --------------------------------- listener -------------------------------- *)
InSeq(x, s) == \E i \in 1..Len(s) : s[i] = x

TConnect == Is("connect") /\ KeepT /\ Eat /\ Connect(r.conn)

TIncOpen == Is("incopen") /\ KeepT /\ Eat /\ IncomingOpen

TAccept ==
  /\ Is("accept") /\ KeepT
  /\ IF ~InSeq(r.conn, backlog) /\ ~InSeq(r.conn, aq)
       THEN Establish(r.conn) /\ Silent
       ELSE IF r.op = "single"
              THEN AcceptSingle /\ ret'.conn = r.conn /\ Eat
              ELSE IF drv = "iour" /\ aq = <<>>
                     THEN KernelAccept /\ Silent
                     ELSE IncomingNext /\ ret'.conn = r.conn /\ Eat

(* the incoming stream is dropped; the connections in r.lostc were taken by the multishot accept
   and are closed with it *)
TIncDrop ==
  /\ Is("incdrop") /\ KeepT
  /\ LET missing == {c \in {r.lostc[i] : i \in 1..Len(r.lostc)} : ~InSeq(c, aq)} IN
     IF missing # {}
       THEN /\ Silent
            /\ IF backlog # <<>> THEN KernelAccept
               ELSE Establish(CHOOSE c \in missing : TRUE)
       ELSE /\ Eat
            /\ IncomingDrop
            /\ ret'.lost = Len(r.lostc)

(* --------------------------------- datagram -------------------------------- *)
Others(id, s, t) == {o \in open : o[1] # id /\ o[2] # s /\ o[3] = t}

TDgSend ==
  /\ Is("dgsend") /\ Eat
  /\ IF r.res = "toobig"
       THEN DgSendTooBig(r.p, r.n1) /\ KeepT
       ELSE /\ r.res = "ok"
            /\ open' = open \cup {<<r.id, r.p, r.to>>}
            /\ \/ DgSend(r.p, r.to, r.uid, r.n1) /\ UNCHANGED pend
               \/ /\ Others(r.id, r.p, r.to) # {}       \* another socket is sending to the same target now
                  /\ pend' = pend \cup {[id |-> r.id, s |-> r.p, t |-> r.to, uid |-> r.uid, n |-> r.n1]}
                  /\ ModelSame

TDgFlush ==
  /\ l <= Len(Rec)
  /\ \E x \in pend :
       /\ DgSend(x.s, x.t, x.uid, x.n)
       /\ pend' = pend \ {x}
  /\ UNCHANGED open /\ Silent

TDgSendRet ==
  /\ Is("dgsendret") /\ Eat
  /\ \A x \in pend : x.id # r.id
  /\ open' = {o \in open : o[1] # r.id}
  /\ UNCHANGED pend /\ ModelSame

DgSame ==
  /\ ret'.k = r.k
  /\ (r.k > 0 => ret'.uid = r.uid)
  /\ ret'.src = r.src
  /\ ret'.trunc = r.flag

TDgRecv ==
  /\ Is("dgrecv") /\ KeepT /\ Eat
  /\ IF r.op \in {"managed", "fmanaged", "mmanaged"}
       THEN DgRecvManaged(r.p, r.n1, r.wsrc, r.wfl)
       ELSE DgRecv(r.p, r.cap, r.wsrc, r.wfl)
  /\ DgSame /\ ret'.none = r.none /\ r.back

TDgMultiOpen == Is("dgmopen") /\ KeepT /\ Eat /\ DgMultiOpen(r.p)

TDgMultiItem ==
  /\ Is("dgmitem") /\ KeepT
  /\ IF drv = "iour" /\ dmq[r.p] = <<>>
       THEN DgKernelPrefetch(r.p) /\ Silent
       ELSE /\ Eat
            /\ \E ll \in BOOLEAN : DgMultiNext(r.p, r.cap, r.wsrc, r.wfl, r.own, ll)
            /\ DgSame /\ ret'.end = r.end

(* the stream is dropped; how many datagrams had completed into the operation and are gone with it
   is not visible (an empty datagram has no identity): TLC picks *)
TDgMultiDrop ==
  /\ Is("dgmdrop") /\ KeepT
  /\ \/ drv = "iour" /\ DgKernelPrefetch(r.p) /\ Silent
     \/ DgMultiDrop(r.p) /\ Eat

-----------------------------------------------------------------------------
TInit ==
  /\ InitVars("iour")
  /\ l = 1 /\ pend = {} /\ open = {}
  /\ TLCSet(1, 1)

TNext ==
  \/ TReset
  \/ TSend \/ TZcWait \/ TShutdown \/ TRecv \/ TNoBufs
  \/ TMultiOpen \/ TMultiItem \/ TMultiNoBufs \/ TMultiDrop
  \/ TSplit \/ TDropHalf \/ TFdCheck
  \/ TConnect \/ TIncOpen \/ TAccept \/ TIncDrop
  \/ TDgSend \/ TDgFlush \/ TDgSendRet \/ TDgRecv \/ TDgMultiOpen \/ TDgMultiItem \/ TDgMultiDrop

TSpec == TInit /\ [][TNext]_allvars

Accepted ==
  IF TLCGet(1) = Len(Rec) + 1
    THEN PrintT(<<"TRACE_ACCEPTED", Len(Rec)>>)
    ELSE PrintT(<<"TRACE", ToJson([at |-> TLCGet(1), unmatched |-> Rec[TLCGet(1)]])>>)
=============================================================================
