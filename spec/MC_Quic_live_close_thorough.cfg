CONSTANTS
  NS = 1
  Units = 2
  Lens = {2}
  Wins = {1}
  ConnWin = 2
  MaxStreamss = {1}
  NDg = 0
  DgCap = 1
  DgReaders = 1
  DgWakeAll = TRUE
  FinishWakes = TRUE
  AllowReset = FALSE
  AllowStop = TRUE
  AllowLoss = FALSE
  Extra = {}
  CloseKinds = {"localA", "localB"}
  Deviations = {}
SPECIFICATION FairSpec
INVARIANTS TypeOK
PROPERTIES Termination EofArrives BlockedWriterProceeds CloseCompletes
