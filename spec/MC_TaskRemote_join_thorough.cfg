CONSTANTS
  Setup = "fresh"
  NW = 0
  SyncCap = 1
  MaxTicks = 2
  MaxJPolls = 3
  MaxWakes = 1
  JCmds = {"poll", "hdrop", "cancel", "detach"}
  HCmds = {"tick", "clear", "execdrop"}
  Spurious = TRUE
  Strict = FALSE
  Fix = {}
SPECIFICATION Spec
INVARIANTS NoErr HomeOnly ExactlyOnce NoWakerLeak RcMatches NoLostJoinWake PendingBound ScntOk
