CONSTANTS
  RW = {"a"}
  WW = {"b"}
  Kinds = {"ready", "io"}
  TokModes = {"no"}
  MaxPW = 1
  MaxFill = 1
  AllowShut = TRUE
  Eager = FALSE
  Strict = FALSE
  Mut = "none"
  Driver = "iour"
SPECIFICATION FairSpec
INVARIANTS TypeOK NoErr NoSteal CoveredModuloKnown CoveredStrict SlotSane BackedOK
PROPERTIES WokenModuloKnown ServedModuloKnown WokenStrict
