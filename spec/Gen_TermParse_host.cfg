SPECIFICATION GSpec
CONSTANTS
  RawMode = TRUE
  Inputs = {}
  FixStaleTimer = FALSE
  AllowLongCsi = TRUE
  MaxTok = 24
  Mut = ""
  Fam = "host"
  GenNames <- CoreNames
  GenSigma <- SigmaSmall
  MinToks = 0
  MaxToks = 0
  MaxBytes = 3
  Modes = {"free"}
  FreeMax = 3
  TmoPolicy = "both"
INVARIANTS
  Emit
  GNoPanic
  GCut
