\* process group: two running members of capacity 1, join/leave, 3 group sends, stop of a member
CONSTANTS
  Actors = {1, 2}
  Procs = {0, 1}
  Names = {}
  Caps = {1}
  Kinds = {"cast"}
  Spawners = {}
  Senders = {}
  Stoppers = {0}
  Lookers = {}
  GSenders = {1}
  Joiners = {}
  Prestarted = {1, 2}
  Prejoined = TRUE
  InitialActors = {}
  Replacements = {}
  MsgsPer = 3
  StopsPer = 1
  LooksPer = 0
  JoinsPer = 0
  SupChoices = {FALSE}
  SupProc = 99
  SupCap = 1
  PreMayFail = FALSE
  PostMayFail = FALSE
  StopHooksMayFail = FALSE
  DrainOnClose = FALSE
  ReportBeforeRelease = FALSE
  ReserveIgnoresStarting = FALSE
SPECIFICATION Spec
INVARIANTS TypeOK SerialFifo Conservation HandlingOnlyWhileRunning HookOrder CallSound RegistrySound FailedStartFreesName SupervisionSound GroupExactlyOne GroupLockSound GroupTriesEachOnce
