CONSTANTS
  w1 = w1
  w2 = w2
  Wakers = {w1}
  Target <- TgtA
  Tasks = {"t1"}
  QCap = 1
  Mode = "external"
  Driver = "poll"
  Eager = FALSE
  ArmInFlush = TRUE
  WakeAfterPush = TRUE
  Overflow = FALSE
  Hosts <- BothHosts
  Muts = {"none"}
  Ops = {"o1"}
  Timers = {"s1"}
  Jobs = {}
  Owner <- OwnA
  AnyTurn = TRUE
SPECIFICATION XFairSpec
INVARIANTS XTypeOK PendingBound TypeOK RealSafe
PROPERTIES Completes WakeSeen OpSeen TimerSeen
