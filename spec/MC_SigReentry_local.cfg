CONSTANTS
  N = 3
  L = 2
  Mode = "local"
  MaxSignals = 2
SPECIFICATION Spec
INVARIANTS WellFormed NoLostTask
