---- MODULE MC_PollDriver ----
EXTENDS PollDriver
CONSTANTS o1, o2, o3
KindSSB == (o1 :> "single") @@ (o2 :> "single") @@ (o3 :> "blocking")
KindSSS == (o1 :> "single") @@ (o2 :> "single") @@ (o3 :> "single")
FdSame == (o1 :> 1) @@ (o2 :> 1) @@ (o3 :> 2)
View == <<phase, rc, q, armed, avail, cflag, hasres, jobs, chan, token, drv, mon>>
====
