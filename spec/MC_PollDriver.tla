---- MODULE MC_PollDriver ----
EXTENDS PollDriver
CONSTANTS o1, o2, o3
KindSSB == (o1 :> "single") @@ (o2 :> "single") @@ (o3 :> "blocking")
KindSSS == (o1 :> "single") @@ (o2 :> "single") @@ (o3 :> "single")
FdSame == (o1 :> 1) @@ (o2 :> 1) @@ (o3 :> 2)
FdAll1 == (o1 :> 1) @@ (o2 :> 1) @@ (o3 :> 1)
DirR == (o1 :> "r") @@ (o2 :> "r") @@ (o3 :> "r")
DirRW == (o1 :> "r") @@ (o2 :> "w") @@ (o3 :> "r")
DirRRW == (o1 :> "r") @@ (o2 :> "r") @@ (o3 :> "w")
View == <<phase, rc, q, armed, avail, cflag, hasres, jobs, chan, token, drv, mon>>
====
