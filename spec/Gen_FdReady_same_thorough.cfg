CONSTANTS
  RW = {"a", "c"}
  WW = {"b"}
  Kinds = {"ready", "io"}
  TokModes = {"no", "slow"}
  MaxPW = 1
  MaxFill = 1
  AllowShut = FALSE
  Eager = TRUE
  Strict = FALSE
  Mut = "none"
  Driver = "any"
  MaxSteps = 9
SPECIFICATION GSpec
VIEW GView
INVARIANTS Emit NoErr
