SPECIFICATION Spec
CONSTANTS
  RawMode = TRUE
  Inputs <- InputsCtl
  FixStaleTimer = FALSE
  AllowLongCsi = TRUE
  MaxTok = 24
  Mut = "esc_esc_keeps"
INVARIANTS
  CutIsNeedMore
PROPERTIES
  Progress
