CONSTANTS
  Limit = 2
  Jobs = {"j1", "j2", "j3"}
  Disp = {"D1"}
  NW = 3
  PanicJobs = {"j2"}
  Caught = TRUE
  DriverLoop = TRUE
  Fix = TRUE
  TimedFifo = FALSE
SPECIFICATION FairSpec
PROPERTIES DispatchReturns SendCompletes AcceptedRuns AllRun
