\* deviation EncloseTruncates reproduced on the real code: 255 / 256 byte payloads behind lfl = 1
CONSTANTS
  FixExtractOverflow = TRUE
  FixFramerError = TRUE
  Lfls = {1}
  HostLfls = {1}
  Endians = {TRUE, FALSE}
  DelimKinds = {}
  HostDelimKinds = {}
  WithNoop = FALSE
  WithLim = FALSE
  Codecs = {"bytes"}
  PayAlpha = {}
  MaxPay = 0
  MaxFrames = 2
  BigPays = {255, 256}
  WideFrom = 9
  WideMaxPay = 0
  WideMaxFrames = 0
  WideHostAlpha = {}
  WideHostExtra = 0
  Modes = {"rt"}
  HostAlpha = {}
  HostExtra = 0
  ChunkMin = 1
  ChunkMax = 16
  WLimits = {300}
  ZeroReads = 0
  MaxErr = 0
  AfterDone = 0
  AnyMax = 0
  LongModes = {"whole"}
  HostAnyMax = 0
  HostModes = {"whole"}
  WideHostModes = {"whole"}
SPECIFICATION GSpec
INVARIANTS Emit
