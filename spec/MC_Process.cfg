CONSTANTS
  K = 2
  EchoBuf = 1
  NIns = {0, 6}
  NOuts = {3}
  NErrs = {3}
  WChunks = {0}
  RChunks = {1}
  IoStatuses = {"c3"}
  Codes = {"c0"}
  Sigs = {"s9"}
  Drivers = {"iour", "poll"}
  Impls = {"blocking", "pidfd"}
  Families = {"echo", "consumer", "producer", "exit", "status", "held"}
  BlockingChildPipes = FALSE
SPECIFICATION FairSpec
INVARIANTS TypeOK InOrder Conservation WaitSafe CompleteAtEnd NoDeadlockStrict LiveAtTerminal
PROPERTIES ExitLeadsToWait MustCompleteCompletes
