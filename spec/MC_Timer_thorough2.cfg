\* thorough: two futures, two wakers each, longer horizon
CONSTANTS
  N = 2
  Deadlines = {0, 1, 2, 3}
  Periods = {1, 2}
  Kinds = {"sleep", "timeout", "interval"}
  NW = 2
  MaxNow = 4
  MaxGen = 4
  Mut = "none"
SPECIFICATION Spec
INVARIANTS TypeOK WheelExact WakerOwner NeverEarly AlwaysFires ReadyWhenDue MinTimeoutCorrect IdleSleepBound TimeoutExact IntervalAligned
