CONSTANTS
  RW = {"a", "c"}
  WW = {}
  Kinds = {"ready", "io"}
  TokModes = {"no"}
  MaxPW = 1
  MaxFill = 0
  AllowShut = FALSE
  Eager = FALSE
  Strict = FALSE
  Mut = "none"
  Driver = "iour"
SPECIFICATION FairSpec
PROPERTIES WokenModuloKnown
