CONSTANTS
  Handles = {"h1", "h2", "o1"}
  Ops = {"o1"}
  InitLive = {}
  Variant = "unsync"
  AllowClone = TRUE
  AllowTake2 = TRUE
  AllowCancel = TRUE
  AllowSpurious = TRUE
  FileLayer = TRUE
  SilentRelease = FALSE
  ForgetsHandle = TRUE
  MaxMigrate = 2
  RegisterOnce = FALSE
SPECIFICATION FairSpec
INVARIANTS Safe
PROPERTIES NoLeakLive
