\* quick: behaviours replayed on the real Framed / framers.
\* round trip: every framer; lfl 1..2, delimiters, noop: frame lists <= 3, payload <= 2, every
\* fragmentation of wires up to AnyMax bytes, else ones / whole / every split point;
\* lfl 3..8: frame lists <= 2, payload <= 1.  hostile: strings over HostAlpha up to header + 2
\* (lfl 3..8: over {00, FF} up to the header width).
CONSTANTS
  FixExtractOverflow = TRUE
  FixFramerError = TRUE
  Lfls = {1, 2, 3, 4, 5, 6, 7, 8}
  HostLfls = {1, 2, 3, 4, 5, 6, 7, 8}
  Endians = {TRUE, FALSE}
  DelimKinds = {"nl", "c1", "R3", "a12"}
  HostDelimKinds = {"c1", "a12", "a11"}
  WithNoop = TRUE
  WithLim = TRUE
  Codecs = {"bytes"}
  PayAlpha = {1}
  MaxPay = 2
  MaxFrames = 3
  BigPays = {}
  WideFrom = 3
  WideMaxPay = 1
  WideMaxFrames = 2
  WideHostAlpha = {0, 255}
  WideHostExtra = 0
  Modes = {"rt", "hostile"}
  HostAlpha = {0, 1, 2, 255}
  HostExtra = 2
  ChunkMin = 1
  ChunkMax = 16
  WLimits = {16}
  ZeroReads = 0
  MaxErr = 0
  AfterDone = 1
  AnyMax = 4
  LongModes = {"ones", "whole", "split"}
  HostAnyMax = 2
  HostModes = {"ones", "whole"}
  WideHostModes = {"whole"}
SPECIFICATION GSpec
INVARIANTS Emit
