CONSTANTS
  Cfgs <- CfgsAll
  Side = "w"
  MaxSrc = 7
  MaxAcc = 7
  MaxSrcA = 5
  MaxAccA = 5
  Sizes = {0, 1, 2, 3}
  Ks = {1, 2, 3}
  Fuel = 3
  Detail = FALSE
  OldReadLimit = FALSE
  WakeAll = TRUE
SPECIFICATION Spec
INVARIANTS ReadFifo WriteFifo WriteLimit ReadLimitStrict LimitReported RWakeCover WWakeCover Sane

