\* one dispatcher (push_blocking retry loop), Limit 2, four jobs: the single-runtime limit overrun needs 4 jobs
CONSTANTS
  Limit = 2
  Jobs = {"j1", "j2", "j3", "j4"}
  Disp = {"D1"}
  NW = 4
  PanicJobs = {"j2"}
  Caught = TRUE
  DriverLoop = TRUE
  Fix = TRUE
  TimedFifo = FALSE
SPECIFICATION Spec
INVARIANTS Safety Bounded ThreadsBounded NoDeviation
