------------------------------ MODULE FdAsync ------------------------------
(* X02 - descriptor readiness, completion style: compio-runtime fd::AsyncFd (unix).

   Implementation-shaped model of
     compio-runtime/src/fd/async_fd/mod.rs   AsyncRead / AsyncWrite for &AsyncFd: every read / write call builds its
                                             own Read / Write operation on a clone of the SharedFd and awaits
                                             crate::submit(op)  (no state in the AsyncFd itself)
     compio-runtime/src/future/future.rs     Submit::poll (Idle -> push, Submitted -> pop or update_waker),
                                             PinnedDrop (an operation still in flight is cancelled; a result that
                                             has arrived but was not taken is dropped with the key)
     compio-driver                           Read / Write: io_uring Read/Write SQE; polling driver wait_readable /
                                             wait_writable then the syscall in Driver::poll

   One descriptor (connected stream socket), environment as in FdReady: pw units written by the peer, rd consumed,
   shut, wfull. A waiter slot w of direction r awaits AsyncFd::read(UNIT buffer), of direction w awaits
   AsyncFd::write(small buffer). op[w] is the operation of the waiter's current future:
       none | flight (pushed, not completed) | done (result stored in the key, not yet taken)
   orph[d] counts operations whose future was dropped in flight (Proactor::cancel requested, key not yet reaped).

   Named deviations (inherent to completion style I/O, kept explicit):
     DropCompletedRead   dropping a read future whose operation has already completed discards the bytes it took:
                         the unit is lost for every later reader (ghost set lost)
     OrphTakes           a cancelled operation can still complete with data when the data arrives before the
                         cancellation is processed (checking variant only; the generator excludes the race)

   Eager = TRUE: generator variant (Gen_FdAsync): environment steps and drops in flight are followed by a full
   driver poll, at most one operation in flight per direction (the completion order of two is driver specific). *)
EXTENDS Naturals, FiniteSets, TLC

CONSTANTS RW, WW, MaxPW, MaxFill, AllowShut, Eager, Strict, Mut   \* Mut: "none" | "nowake" | "dropall" | "dup"

W == RW \cup WW
Dirs == {"r", "w"}
Dir(w) == IF w \in RW THEN "r" ELSE "w"
EOFV == MaxPW + 1

VARIABLES pw, rd, shut, wfull, fills,
          fst, op, res, woken, orph,
          got, lastgot, lost, err, needPoll

vars == <<pw, rd, shut, wfull, fills, fst, op, res, woken, orph, got, lastgot, lost, err, needPoll>>

Ready(d) == IF d = "r" THEN (rd < pw \/ shut) ELSE ~wfull

TypeOK ==
  /\ pw \in 0..MaxPW /\ rd \in 0..pw /\ shut \in BOOLEAN /\ wfull \in BOOLEAN /\ fills \in 0..MaxFill
  /\ fst \in [W -> {"none", "new", "pend"}] /\ op \in [W -> {"none", "flight", "done"}]
  /\ res \in [W -> 0..EOFV] /\ woken \in [W -> BOOLEAN] /\ orph \in [Dirs -> 0..(Cardinality(W) + 1)]
  /\ got \subseteq 1..MaxPW /\ lastgot \in [W -> 0..MaxPW] /\ lost \subseteq 1..MaxPW /\ needPoll \in BOOLEAN

Init ==
  /\ pw = 0 /\ rd = 0 /\ shut = FALSE /\ wfull = FALSE /\ fills = 0
  /\ fst = [w \in W |-> "none"] /\ op = [w \in W |-> "none"] /\ res = [w \in W |-> 0]
  /\ woken = [w \in W |-> FALSE] /\ orph = [d \in Dirs |-> 0]
  /\ got = {} /\ lastgot = [w \in W |-> 0] /\ lost = {} /\ err = {} /\ needPoll = FALSE

Guard == ~(Eager /\ needPoll)
InFlight(d) == Cardinality({w \in W : Dir(w) = d /\ op[w] = "flight"}) + orph[d]

\* result of one Future::poll of the waiter, from the state before the call
PollRes(w) ==
  IF fst[w] = "pend" /\ op[w] = "done"
  THEN (IF Dir(w) = "w" THEN "wrote" ELSE IF res[w] = EOFV THEN "eof" ELSE "data")
  ELSE "pending"

Start(w) ==
  /\ fst[w] = "none" /\ Guard
  /\ fst' = [fst EXCEPT ![w] = "new"] /\ woken' = [woken EXCEPT ![w] = FALSE]
  /\ UNCHANGED <<pw, rd, shut, wfull, fills, op, res, orph, got, lastgot, lost, err, needPoll>>

\* Submit::poll: Idle -> push (always Pending: both drivers answer through Proactor::poll);
\* Submitted -> pop: Ready(result) or update_waker + Pending
PollW(w) ==
  /\ fst[w] \in {"new", "pend"} /\ Guard
  /\ (Eager /\ fst[w] = "new") => InFlight(Dir(w)) = 0
  /\ orph[Dir(w)] < 2 \/ fst[w] = "pend"
  /\ LET r == PollRes(w)
         u == res[w]
     IN
     /\ fst' = [fst EXCEPT ![w] = IF r = "pending" THEN "pend" ELSE "none"]
     /\ op' = [op EXCEPT ![w] = IF fst[w] = "new" THEN "flight" ELSE IF r = "pending" THEN @ ELSE "none"]
     /\ res' = [res EXCEPT ![w] = IF r = "pending" THEN @ ELSE 0]
     /\ woken' = [woken EXCEPT ![w] = FALSE]
     /\ got' = IF r = "data" THEN got \cup {u} ELSE got
     /\ lastgot' = [lastgot EXCEPT ![w] = IF r = "data" THEN u ELSE @]
     /\ err' = err \cup (IF r = "data" /\ u \in got THEN {"dup"} ELSE {})
                   \cup (IF r = "data" /\ u <= lastgot[w] THEN {"order"} ELSE {})
                   \cup (IF r = "eof" /\ ~shut THEN {"eof_early"} ELSE {})
  /\ UNCHANGED <<pw, rd, shut, wfull, fills, orph, lost, needPoll>>

\* drop of the future: Submit::drop cancels an operation in flight; a completed, untaken result is discarded
DropW(w) ==
  /\ fst[w] \in {"new", "pend"} /\ Guard
  /\ LET d == Dir(w)
         inflight == op[w] = "flight"
         hit(x) == IF Mut = "dropall" THEN (Dir(x) = d /\ op[x] = "flight") ELSE (x = w /\ inflight)
     IN
     /\ Eager => ~(inflight /\ Ready(d))       \* race between data and cancellation: not replayed
     \* io_uring: after the peer's half-close (EPOLLRDHUP) a write that waits for buffer space is retried and then
     \* handed to a kernel worker thread that blocks in send; its cancellation is only eventually effective
     /\ Eager => ~(inflight /\ d = "w" /\ shut)
     /\ fst' = [fst EXCEPT ![w] = "none"]
     /\ op' = [x \in W |-> IF hit(x) \/ x = w THEN "none" ELSE op[x]]
     /\ orph' = [orph EXCEPT ![d] = @ + Cardinality({x \in W : hit(x)})]
     /\ lost' = IF op[w] = "done" /\ d = "r" /\ res[w] # EOFV THEN lost \cup {res[w]} ELSE lost   \* DropCompletedRead
     /\ res' = [res EXCEPT ![w] = 0]
     /\ woken' = [woken EXCEPT ![w] = FALSE]
     /\ err' = err \cup (IF Strict /\ op[w] = "done" /\ d = "r" /\ res[w] # EOFV THEN {"lost"} ELSE {})
     /\ needPoll' = (needPoll \/ (Eager /\ inflight))
  /\ UNCHANGED <<pw, rd, shut, wfull, fills, got, lastgot>>

-----------------------------------------------------------------------------
PeerWrite ==
  /\ Guard /\ pw < MaxPW /\ ~shut /\ pw' = pw + 1 /\ needPoll' = Eager
  /\ UNCHANGED <<rd, shut, wfull, fills, fst, op, res, woken, orph, got, lastgot, lost, err>>
PeerShut ==
  /\ Guard /\ AllowShut /\ ~shut /\ shut' = TRUE /\ needPoll' = Eager
  /\ UNCHANGED <<pw, rd, wfull, fills, fst, op, res, woken, orph, got, lastgot, lost, err>>
Fill ==
  /\ Guard /\ ~wfull /\ fills < MaxFill /\ wfull' = TRUE /\ fills' = fills + 1 /\ needPoll' = Eager
  /\ UNCHANGED <<pw, rd, shut, fst, op, res, woken, orph, got, lastgot, lost, err>>
Drain ==
  /\ Guard /\ wfull /\ wfull' = FALSE /\ needPoll' = Eager
  /\ UNCHANGED <<pw, rd, shut, fills, fst, op, res, woken, orph, got, lastgot, lost, err>>

-----------------------------------------------------------------------------
(* Driver: the completion of one operation: the I/O happens now (the unit is taken from the socket / the bytes go
   into the send buffer), Entry::notify stores the result and wakes the waiter. *)
TakeUnit == IF Mut = "dup" /\ rd > 0 THEN rd ELSE rd + 1

DrvComplete(w) ==
  /\ ~Eager /\ op[w] = "flight" /\ Ready(Dir(w))
  /\ op' = [op EXCEPT ![w] = "done"]
  /\ res' = [res EXCEPT ![w] = IF Dir(w) = "w" THEN 1 ELSE IF rd < pw THEN TakeUnit ELSE EOFV]
  /\ rd' = IF Dir(w) = "r" /\ rd < pw THEN rd + 1 ELSE rd
  /\ woken' = [woken EXCEPT ![w] = @ \/ Mut # "nowake"]
  /\ UNCHANGED <<pw, shut, wfull, fills, fst, orph, got, lastgot, lost, err, needPoll>>

OrphCancelled(d) ==
  /\ ~Eager /\ orph[d] > 0 /\ orph' = [orph EXCEPT ![d] = @ - 1]
  /\ UNCHANGED <<pw, rd, shut, wfull, fills, fst, op, res, woken, got, lastgot, lost, err, needPoll>>

OrphTakes(d) ==
  /\ ~Eager /\ orph[d] > 0 /\ Ready(d) /\ orph' = [orph EXCEPT ![d] = @ - 1]
  /\ rd' = IF d = "r" /\ rd < pw THEN rd + 1 ELSE rd
  /\ lost' = IF d = "r" /\ rd < pw THEN lost \cup {rd + 1} ELSE lost
  /\ UNCHANGED <<pw, shut, wfull, fills, fst, op, res, woken, got, lastgot, err, needPoll>>

\* generator variant: cancelled operations are reaped (they cannot take anything: the direction was not ready when
\* they were cancelled and the environment has not moved since), the at most one operation per direction completes
DrvPoll ==
  /\ Eager /\ (needPoll \/ \E w \in W : op[w] = "flight" /\ Ready(Dir(w)))
  /\ LET fin(w) == op[w] = "flight" /\ Ready(Dir(w)) IN
     /\ op' = [w \in W |-> IF fin(w) THEN "done" ELSE op[w]]
     /\ res' = [w \in W |-> IF ~fin(w) THEN res[w] ELSE IF Dir(w) = "w" THEN 1 ELSE IF rd < pw THEN TakeUnit ELSE EOFV]
     /\ rd' = IF (\E w \in RW : fin(w)) /\ rd < pw THEN rd + 1 ELSE rd
     /\ woken' = [w \in W |-> woken[w] \/ (fin(w) /\ Mut # "nowake")]
  /\ orph' = [d \in Dirs |-> 0] /\ needPoll' = FALSE
  /\ UNCHANGED <<pw, shut, wfull, fills, fst, got, lastgot, lost, err>>

Next ==
  \/ \E w \in W : Start(w) \/ PollW(w) \/ DropW(w) \/ DrvComplete(w)
  \/ PeerWrite \/ PeerShut \/ Fill \/ Drain
  \/ \E d \in Dirs : OrphCancelled(d) \/ OrphTakes(d)
  \/ DrvPoll

Spec == Init /\ [][Next]_vars
RePoll(w) == woken[w] /\ PollW(w)
FairSpec == Spec /\ (\A w \in W : WF_vars(DrvComplete(w)) /\ WF_vars(RePoll(w)))
                 /\ (\A d \in Dirs : WF_vars(OrphCancelled(d) \/ OrphTakes(d)))

-----------------------------------------------------------------------------
NoErr == err = {}
Held == {res[w] : w \in {x \in RW : op[x] = "done" /\ res[x] # EOFV}}
\* every unit taken from the socket is delivered, held by a completed operation, or lost to a dropped future:
\* exactly once, nothing else
ExactlyOnce ==
  /\ got \cup Held \cup lost = 1..rd
  /\ got \cap Held = {} /\ got \cap lost = {} /\ Held \cap lost = {}
  /\ \A x, y \in RW : (x # y /\ op[x] = "done" /\ op[y] = "done" /\ res[x] # EOFV) => res[x] # res[y]
\* a pending waiter that has not been woken has its own operation in flight (dropping another waiter never
\* removes it)
Unwoken(w) == fst[w] = "pend" /\ ~woken[w]
Covered == \A w \in W : Unwoken(w) => op[w] = "flight"
\* liveness: a pending operation of a ready direction completes and its waiter is woken and served
Woken == \A w \in W : (Unwoken(w) /\ Ready(Dir(w))) ~> (~Unwoken(w) \/ ~Ready(Dir(w)))
Served == \A w \in W : (fst[w] = "pend" /\ Ready(Dir(w))) ~> (fst[w] # "pend" \/ ~Ready(Dir(w)))
=============================================================================
