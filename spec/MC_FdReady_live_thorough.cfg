CONSTANTS
  RW = {"a"}
  WW = {"b"}
  Kinds = {"ready", "io"}
  TokModes = {"no", "slow"}
  MaxPW = 1
  MaxFill = 0
  AllowShut = FALSE
  Eager = FALSE
  Strict = FALSE
  Mut = "none"
  Driver = "poll"
SPECIFICATION FairSpec
PROPERTIES WokenModuloKnown ServedModuloKnown WokenStrict
