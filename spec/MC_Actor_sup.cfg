\* supervision: named supervised child fails or stops, supervisor respawns it under the same name
CONSTANTS
  Actors = {1, 2}
  Procs = {0, 3}
  Names = {"N"}
  Caps = {1}
  Kinds = {"fail", "cast"}
  Spawners = {0}
  Senders = {0}
  Stoppers = {0}
  Lookers = {}
  GSenders = {}
  Joiners = {}
  Prestarted = {}
  Prejoined = FALSE
  InitialActors = {1}
  Replacements = {2}
  MsgsPer = 1
  StopsPer = 1
  LooksPer = 0
  JoinsPer = 0
  SupChoices = {TRUE}
  SupProc = 3
  SupCap = 2
  PreMayFail = FALSE
  PostMayFail = TRUE
  StopHooksMayFail = FALSE
  DrainOnClose = FALSE
  ReportBeforeRelease = FALSE
  ReserveIgnoresStarting = FALSE
SPECIFICATION Spec
INVARIANTS TypeOK SerialFifo Conservation HandlingOnlyWhileRunning HookOrder CallSound RegistrySound FailedStartFreesName SupervisionSound GroupExactlyOne GroupLockSound GroupTriesEachOnce RespawnNeverCollides
