--------------------------- MODULE Gen_BufferPool ---------------------------
(* Behaviour printer for BufferPool, Eager variant: kernel and driver steps pre-empt the user as soon as
   they are enabled (the harness waits for their effect after every command), so a behaviour is a program
   of user commands with the model state expected BEFORE each command and at the end.
   Replayed on the real Proactor / Runtime by harness bin replay_bufpool. *)
EXTENDS BufferPool, Json

CONSTANTS MaxLen,
          AllowClose     \* FALSE for datagram sockets (no end of data)
VARIABLE hist
gvars == <<vars, hist>>

Internal(o) == Kernel(o) \/ Driver(o)
Busy == \E o \in Ops : ENABLED Internal(o)

Proj == [slot |-> [i \in 1..N |-> IF slot[i - 1] THEN 1 ELSE 0],
         prov |-> provided,
         hand |-> hand,
         q |-> [o \in Ops |-> Len(mq[o])],
         st |-> ost,
         alive |-> alive]

Rec(a, o, h, k, r, b) == [a |-> a, o |-> o, h |-> h, k |-> k, r |-> r, b |-> b, x |-> Proj]
Step(rec) == hist' = Append(hist, rec)

EndRes(o) == IF fin[o].res = "cancelled" THEN "cancelled" ELSE "end"

GInit == Init /\ hist = <<>>
GNext ==
  IF Busy
    THEN (\E o \in Ops : Internal(o)) /\ UNCHANGED hist
    ELSE /\ Len(hist) < MaxLen
         /\ \/ \E o \in Ops :
                 \/ SubmitManaged(o) /\ Step(Rec("submit", o, 0, 1, "ok", NoBuf))
                 \/ SubmitMulti(o) /\ Step(Rec("submit", o, 0, 2, "ok", NoBuf))
                 \/ o = "o1" /\ ExhaustedAtSubmit(o) /\ Step(Rec("submit", o, 0, 1, "exhausted", NoBuf))
                 \/ YieldQueued(o) /\ Step(Rec("next", o, FreeHandle, 0, "handle", Head(mq[o]).buf))
                 \/ YieldHandle(o) /\ Step(Rec("next", o, FreeHandle, 0, "handle", obuf[o]))
                 \/ Exhausted(o) /\ Step(Rec("next", o, 0, 0, "exhausted", NoBuf))
                 \/ NextEnd(o) /\ Step(Rec("next", o, 0, 0, EndRes(o), NoBuf))
                 \/ Cancel(o) /\ Step(Rec("cancel", o, 0, 0, "ok", NoBuf))
                 \/ KeyDropAfterRelease(o) /\ Step(Rec("keydrop", o, 0, 0, "ok", NoBuf))
                 \/ \E k \in 1..2 : FeedN(o, k) /\ Step(Rec("feed", o, 0, k, "ok", NoBuf))
                 \/ AllowClose /\ Len(hist) >= 3 /\ Close(o) /\ Step(Rec("close", o, 0, 0, "ok", NoBuf))
            \/ \E h \in Hs :
                 \/ HandleDrop(h) /\ Step(Rec("drop", "", h, 0, "ok", hand[h]))
                 \/ HandleDropAfterRelease(h) /\ Step(Rec("drop", "", h, 0, "ok", hand[h]))
            \/ Len(hist) + 5 >= MaxLen /\ PoolRelease /\ Step(Rec("release", "", 0, 0, "ok", NoBuf))
GSpec == GInit /\ [][GNext]_gvars

Done == ~Busy /\ Len(hist) >= MaxLen
EmitInv == Done => PrintT(<<"REPLAY", ToJson([kind |-> Kind, n |-> N, files |-> FileOps, maxh |-> MaxH,
                                              steps |-> hist, final |-> Proj])>>)
=============================================================================
