\* environment faults (one spurious empty read, one read error) and the JSON codec
CONSTANTS
  FixExtractOverflow = TRUE
  FixFramerError = TRUE
  Lfls = {4}
  HostLfls = {4}
  Endians = {TRUE}
  DelimKinds = {"nl"}
  HostDelimKinds = {"nl"}
  WithNoop = TRUE
  WithLim = TRUE
  Codecs = {"bytes", "json"}
  PayAlpha = {1}
  MaxPay = 1
  MaxFrames = 2
  BigPays = {}
  WideFrom = 9
  WideMaxPay = 0
  WideMaxFrames = 0
  WideHostAlpha = {}
  WideHostExtra = 0
  Modes = {"rt", "hostile"}
  HostAlpha = {0, 1}
  HostExtra = 1
  ChunkMin = 1
  ChunkMax = 16
  WLimits = {1}
  ZeroReads = 1
  MaxErr = 1
  AfterDone = 1
  AnyMax = 3
  LongModes = {"ones", "whole"}
  HostAnyMax = 2
  HostModes = {"whole"}
  WideHostModes = {"whole"}
SPECIFICATION GSpec
INVARIANTS Emit
