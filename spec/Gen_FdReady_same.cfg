CONSTANTS
  RW = {"a", "c"}
  WW = {}
  Kinds = {"ready", "io"}
  TokModes = {"no", "slow"}
  MaxPW = 1
  MaxFill = 0
  AllowShut = FALSE
  Eager = TRUE
  Strict = FALSE
  Mut = "none"
  Driver = "any"
  MaxSteps = 8
SPECIFICATION GSpec
VIEW GView
INVARIANTS Emit NoErr
