CONSTANTS
  NT = 3
  MI = 1
  MaxPolls = 3
  MaxW = 2
  NJ = 2
  Outcomes = {"pend", "stash", "selfwake", "ready", "panic"}
  Mut = "none"
  MaxSteps = 7
SPECIFICATION GSpec
INVARIANTS Emit
