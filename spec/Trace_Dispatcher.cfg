CONSTANTS
  MaxTasks = 8
  MaxWorkers = 3
  MaxSenders = 3
  NWChoices = {1}
  ModeChoices = {TRUE}
  FaultChoices = {"none"}
  PoolChoices = {99}
  KindChoices = {"async", "blocking"}
  BodyPanics = TRUE
  BodyUsesPool = FALSE
  JoinerOnPool = FALSE
  ReceiverDrops = TRUE
  SkipIfReceiverGone = FALSE
INIT TraceInit
NEXT TraceNext
POSTCONDITION Accept
