CONSTANTS
  RW = {"a"}
  WW = {"b"}
  Kinds = {"ready", "io"}
  TokModes = {"no", "slow", "fast"}
  MaxPW = 1
  MaxFill = 1
  AllowShut = FALSE
  Eager = FALSE
  Strict = FALSE
  Mut = "none"
  Driver = "iour"
SPECIFICATION Spec
INVARIANTS TypeOK NoErr NoSteal CoveredModuloKnown CoveredStrict SlotSane BackedOK
