\* control (DESIGN D): Pending turned into another error (expected to FAIL)
CONSTANTS
  Backends = {"native"}
  Shapes = {"t13"}
  Bufferings = {TRUE, FALSE}
  Payloads = {1}
  Inits = {"c"}
  Limits = {0, 1}
  U = 2
  MaxPend = 1
  FlushBeforeRead = TRUE
  PendingIsWouldBlock = FALSE
  MidResumes = TRUE
  FinalFlush = TRUE
  CloseFlushes = TRUE
  FixRustlsHsFlush = FALSE
SPECIFICATION Spec
INVARIANTS NoFailure
