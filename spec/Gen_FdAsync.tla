---------------------------- MODULE Gen_FdAsync ----------------------------
(* Behaviour printer for FdAsync (Eager variant); same scheme as Gen_FdReady: one replayable path per distinct
   (state, incoming step). Replayed by extra/harness/hx02 bin replay_fd (mode asyncfd). For a "data" result the
   step carries the unit the model says the read delivers (u). *)
EXTENDS FdAsync, Sequences, Json

CONSTANTS MaxSteps
VARIABLES hist
gvars == <<vars, hist>>

Obs == [wk |-> {w \in W : woken'[w]}, rr |-> Ready("r")', rw |-> Ready("w")']
Step(a, w, r, u) == hist' = Append(hist, [a |-> a, w |-> w, res |-> r, u |-> u, x |-> Obs])

GInit == Init /\ hist = <<>>
GNext ==
  /\ Len(hist) < MaxSteps
  /\ \/ \E w \in W : Start(w) /\ Step("start", w, "", 0)
     \/ \E w \in W : PollW(w) /\ Step("poll", w, PollRes(w), IF PollRes(w) = "data" THEN res[w] ELSE 0)
     \/ \E w \in W : DropW(w) /\ Step("drop", w, "", 0)
     \/ PeerWrite /\ Step("pwrite", "", "", 0)
     \/ PeerShut /\ Step("shut", "", "", 0)
     \/ Fill /\ Step("fill", "", "", 0)
     \/ Drain /\ Step("drain", "", "", 0)
     \/ DrvPoll /\ Step("drv", "", "", 0)
GSpec == GInit /\ [][GNext]_gvars

Last == IF hist = <<>> THEN <<"", "", "">> ELSE <<hist[Len(hist)].a, hist[Len(hist)].w, hist[Len(hist)].res>>
GView == <<vars, Last>>
Emit == hist # <<>> => PrintT(<<"REPLAY", ToJson([fd |-> "asyncfd", rw |-> RW, ww |-> WW, steps |-> hist])>>)
=============================================================================
