----------------------------- MODULE Ancillary -----------------------------
(* C13 - control-message builder and iterator of compio_io::ancillary, transcribed as
   the code is written for the Unix (libc 0.2.189, linux) definitions it delegates to:

     compio-io/src/ancillary/mod.rs   AncillaryBuilder::{new, push}, AncillaryIter::{new, next},
                                      AncillaryRef::{level, ty, len, data}
     compio-io/src/ancillary/sys.rs   CMsgIter::{new, current, next, current_mut, is_space_enough},
                                      CMsgMut::encode_data, CMsgRef::decode_data
     libc                             CMSG_ALIGN, CMSG_SPACE, CMSG_LEN, CMSG_FIRSTHDR, CMSG_NXTHDR

   Hdr = sizeof(cmsghdr) and Align = sizeof(usize) are constants (16 and 8 on the 64 bit
   targets compiled here; 12 and 4 describe a 32 bit layout).

   A behaviour: choose a buffer capacity and a list of requests (payload sizes; level and
   type are the request index), build (every push answers ok or small), then iterate the
   initialized part of the buffer.

   Named deviation (recorded in known_findings.json), still in the code:
     ShortBufferAssert        AncillaryBuilder::new asserts capacity >= CMSG_SPACE(0): the builder
                              panics on a buffer shorter than one header instead of answering
                              small (documented, and required by the test invalid_buffer_length)
   Repaired defects, kept as switches (TRUE = the repaired code, FALSE = the pinned code of
   d4dae75; one control configuration each must still violate the property with FALSE):
     FixIterShort             FALSE: CMsgIter::new asserted len >= CMSG_SPACE(0) for the iterator
                              too, which panicked on an empty control buffer (the encoding of the
                              empty list); TRUE (commit ce1244e): such a buffer yields nothing
     FixDataSlice             FALSE: CMsgRef::decode_data handed decode() a slice of cmsg_len
                              bytes (header included), Hdr bytes longer than the payload, ending
                              outside the control buffer behind the last message;
                              TRUE (commit f097c6c): cmsg_len - CMSG_LEN(0) bytes            *)
EXTENDS Integers, Sequences, FiniteSets, TLC

CONSTANTS FixIterShort, FixDataSlice,   \* BOOLEAN switches, see above
          Caps,      \* buffer capacities explored
          Sizes,     \* payload sizes explored
          MaxMsgs,   \* maximal number of push requests
          Hdr, Align

VARIABLES cap,     \* capacity of the control buffer
          reqs,    \* payload sizes still to be pushed
          npush,   \* requests handled so far (level = type = request index)
          phase,   \* "new" | "build" | "iter" | "done" | "panic"
          blen,    \* buf_len() of the control buffer
          off,     \* builder CMsgIter::offset, -1 = None
          msgs,    \* headers written: sequence of [at, clen, lv, size]
          res,     \* answers of push: sequence of "ok" | "small"
          ilen,    \* length of the slice the iterator walks
          ioff,    \* iterator CMsgIter::offset, -1 = None
          got,     \* messages the iterator yielded: sequence of [at, clen, lv, dstart, dlen]
          where    \* where a panic happened: "" | "builder-new" | "iter-new"
vars == <<cap, reqs, npush, phase, blen, off, msgs, res, ilen, ioff, got, where>>

Al(n) == ((n + Align - 1) \div Align) * Align      \* CMSG_ALIGN
Space(n) == Al(n) + Al(Hdr)                        \* CMSG_SPACE
CLen(n) == Al(Hdr) + n                             \* CMSG_LEN
SeqsUpTo(S, n) == UNION {[1..m -> S] : m \in 0..n}

Init == /\ cap \in Caps
        /\ reqs \in SeqsUpTo(Sizes, MaxMsgs)
        /\ npush = 0 /\ phase = "new" /\ blen = 0 /\ off = -1 /\ msgs = <<>> /\ res = <<>>
        /\ ilen = 0 /\ ioff = -1 /\ got = <<>> /\ where = ""

\* CMsgIter::new(ptr, len): assert!(len >= CMSG_SPACE(0)); CMSG_FIRSTHDR
IterNewPanics(len) == len < Space(0)
FirstHdr(len) == IF len >= Hdr THEN 0 ELSE -1
\* CMSG_NXTHDR (libc 0.2.189 linux): null when cmsg_len < sizeof(cmsghdr) or when the
\* next header would not fit before msg_control + msg_controllen
NxtHdr(at, clen, len) == IF clen < Hdr THEN -1
                         ELSE LET nxt == at + Al(clen) IN IF nxt + Hdr > len THEN -1 ELSE nxt

\* AncillaryBuilder::new: set_len(0); ensure_init(); assert!(capacity >= CMSG_SPACE(0));
\* CMsgIter::new(ptr, capacity)
BuilderNew ==
  /\ phase = "new"
  /\ (IF IterNewPanics(cap)
      THEN phase' = "panic" /\ where' = "builder-new" /\ off' = off      \* ShortBufferAssert
      ELSE phase' = "build" /\ where' = where /\ off' = FirstHdr(cap))
  /\ blen' = 0
  /\ UNCHANGED <<cap, reqs, npush, msgs, res, ilen, ioff, got>>

\* AncillaryBuilder::push
SpaceEnough(size) == off # -1 /\ off + Space(size) <= cap        \* CMsgIter::is_space_enough
Push ==
  /\ phase = "build" /\ reqs # <<>>
  /\ LET size == Head(reqs) IN
       IF ~SpaceEnough(size)
       THEN /\ res' = Append(res, "small")                        \* Err(CodecError::BufferTooSmall)
            /\ UNCHANGED <<blen, off, msgs>>
       ELSE /\ res' = Append(res, "ok")
            /\ msgs' = Append(msgs, [at |-> off, clen |-> CLen(size), lv |-> npush + 1, size |-> size])
            /\ blen' = blen + Space(size)                          \* buffer.advance(CMSG_SPACE(size))
            /\ off' = NxtHdr(off, CLen(size), cap)                 \* inner.next()
  /\ reqs' = Tail(reqs)
  /\ npush' = npush + 1
  /\ UNCHANGED <<cap, phase, ilen, ioff, got, where>>

\* AncillaryIter::new(&buf[..buf_len])
IterNew ==
  /\ phase = "build" /\ reqs = <<>>
  /\ ilen' = blen
  /\ (IF ~FixIterShort /\ IterNewPanics(blen)
      THEN phase' = "panic" /\ where' = "iter-new" /\ ioff' = ioff     \* pinned code only
      ELSE phase' = "iter" /\ where' = where /\ ioff' = FirstHdr(blen))
  /\ UNCHANGED <<cap, reqs, npush, blen, off, msgs, res, got>>

\* the header the iterator reads at ioff is one the builder wrote (checked as an invariant)
HeaderAt(a) == CHOOSE m \in {msgs[i] : i \in 1..Len(msgs)} : m.at = a
HasHeaderAt(a) == \E i \in 1..Len(msgs) : msgs[i].at = a

\* AncillaryIter::next: current(), then next(); data() on the yielded reference
IterNext ==
  /\ phase = "iter" /\ ioff # -1
  /\ LET h == HeaderAt(ioff) IN
       /\ got' = Append(got, [at |-> ioff, clen |-> h.clen, lv |-> h.lv,
                              dstart |-> ioff + Hdr,            \* CMSG_DATA = cmsg.offset(1)
                              dlen |-> (IF FixDataSlice THEN h.clen - CLen(0)   \* payload only
                                        ELSE h.clen)])                         \* pinned: self.len()
       /\ ioff' = NxtHdr(ioff, h.clen, ilen)
  /\ UNCHANGED <<cap, reqs, npush, phase, blen, off, msgs, res, ilen, where>>

IterEnd ==
  /\ phase = "iter" /\ ioff = -1
  /\ phase' = "done"
  /\ UNCHANGED <<cap, reqs, npush, blen, off, msgs, res, ilen, ioff, got, where>>

Finish == phase \in {"done", "panic"} /\ UNCHANGED vars

Next == BuilderNew \/ Push \/ IterNew \/ IterNext \/ IterEnd \/ Finish
Spec == Init /\ [][Next]_vars

\* ---------------------------------------------------------------------------
\* properties
\* ---------------------------------------------------------------------------
RECURSIVE Used(_)
Used(n) == IF n = 0 THEN 0 ELSE Used(n - 1) + Space(msgs[n].size)

\* a request is answered ok exactly when it still fits behind what was accepted before it
\* (checked at the moment it is answered, see PushAnswer), blen accounts for the accepted ones
Accounting == /\ blen = Used(Len(msgs))
              /\ blen <= cap
              /\ \A i \in 1..Len(msgs) : msgs[i].at + Space(msgs[i].size) <= cap
              /\ \A i \in 1..Len(msgs) : msgs[i].at = Used(i - 1)
PushAnswer == [][ (phase = "build" /\ reqs # <<>> /\ reqs' # reqs) =>
                    (res'[Len(res')] = "ok") = (blen + Space(Head(reqs)) <= cap) ]_vars

\* the iterator yields exactly the accepted list, every header inside the walked slice
IterHeaders == \A i \in 1..Len(got) : got[i].at + Hdr <= ilen /\ HasHeaderAt(got[i].at)
IterAtHeader == phase = "iter" /\ ioff # -1 => HasHeaderAt(ioff) /\ ioff + Hdr <= ilen
RoundTrip == phase = "done" =>
               /\ Len(got) = Len(msgs)
               /\ \A i \in 1..Len(got) : got[i].at = msgs[i].at /\ got[i].lv = msgs[i].lv /\ got[i].clen = msgs[i].clen

\* the slice handed to decode() is the payload and lies inside the control buffer
DataSliceExact == \A i \in 1..Len(got) : got[i].dlen = got[i].clen - CLen(0) /\ got[i].dstart + got[i].dlen <= ilen
\* what holds even with FixDataSlice = FALSE: the payload itself is inside
PayloadInside == \A i \in 1..Len(got) : got[i].dstart + (got[i].clen - CLen(0)) <= ilen

\* panics: only the documented asserts
NoPanic == phase # "panic"
NoPanicModuloKnown == phase = "panic" => where = "builder-new" /\ cap < Space(0)
IterNeverPanics == where # "iter-new"
Terminates == <>(phase \in {"done", "panic"})
=============================================================================
