----------------------------- MODULE Trace_Quic -----------------------------
(* C16 - validation of application histories recorded from REAL compio-quic endpoints on
   loopback (harness/hquic/src/programs.rs, bin record_quic programs) against the
   contract-level operators of Quic.tla (AOpenOk, AWriteOk, AReadOk, AFinOk, AEofOk, AInv),
   the same operators the model Quic.tla is checked to refine (AbsInv, AbsRefines).
   The unit is a byte here, a chunk in the model.

   ndjson, one event per line in the order of a per-process sequence number taken when the
   call returned (client and server run on ONE thread, so that order is the real order);
   many programs are concatenated, each starts with a reset event:

     reset  s=#streams n=stream window in bytes (0 = default, not checked) off=max streams, bi=[..]
     open   s            open_uni_wait / open_bi_wait returned stream s (1..3)
     write  s n off      write returned n: bytes off..off+n of stream s were accepted
     fin / rst  s        finish / reset returned
     read   s n off ok   reads returned n bytes in total (consecutive reads are merged), ok = the
                         content equals the pattern of stream s at offset off
     eof    s            read returned end-of-stream
     stop   s            the reader called stop
     err    s n ok       an operation failed (n = 1: on the reading side), ok = the harness saw a
                         reason (close, reset, stop)
     dsend / drecv  n    datagram n sent / received (ok = content equals datagram n)
     close               Connection::close / Endpoint::close was called
     done   ok           all tasks completed (ok) - end of program
   Streams 4..6 are the reply direction of the bidirectional streams 1..3.              *)
EXTENDS Quic, Json, IOUtils

Rec == ndJsonDeserialize(IOEnv.TRACE)
N   == Len(Rec)

AS == 1..6
VARIABLES l,        \* cursor
          a,        \* contract-level state
          W, maxs, bi, nstr,
          dsent, drecv, closed

tvars == <<l, a, W, maxs, bi, nstr, dsent, drecv, closed>>

A0(n, b) == [opened |-> [s \in AS |-> s > 3 /\ s - 3 <= n /\ b[s - 3]],
             wr |-> [s \in AS |-> 0], rd |-> [s \in AS |-> 0],
             fin |-> [s \in AS |-> "no"], eof |-> [s \in AS |-> FALSE], cut |-> [s \in AS |-> FALSE]]

\* the variables of the model are not used here (only its contract-level operators are);
\* they sit in their initial state
TraceInit ==
  /\ Init
  /\ l = 1 /\ TLCSet(1, 1)
  /\ a = A0(0, <<FALSE, FALSE, FALSE>>) /\ W = 0 /\ maxs = 1 /\ bi = <<FALSE, FALSE, FALSE>> /\ nstr = 0
  /\ dsent = {} /\ drecv = {} /\ closed = FALSE

Fwd(s) == IF s > 3 THEN s - 3 ELSE s
Same(s) == {t \in 1..nstr : bi[t] = bi[s]}
\* is a failure of an operation on s explainable?
Excused(s) == \/ closed
              \/ s \in AS /\ (a.cut[Fwd(s)] \/ a.fin[Fwd(s)] = "reset")
Pad(b) == [i \in 1..3 |-> IF i <= Len(b) THEN b[i] ELSE FALSE]

Event(ev) ==
  \/ /\ ev.ev = "reset"
     /\ a' = A0(ev.s, Pad(ev.bi)) /\ W' = ev.n /\ maxs' = ev.off /\ bi' = Pad(ev.bi) /\ nstr' = ev.s
     /\ dsent' = {} /\ drecv' = {} /\ closed' = FALSE
  \/ /\ ev.ev = "open" /\ ev.s \in 1..nstr
     /\ AOpenOk(a, ev.s, Same(ev.s), maxs)
     /\ a' = AOpen(a, ev.s)
     /\ UNCHANGED <<W, maxs, bi, nstr, dsent, drecv, closed>>
  \/ /\ ev.ev = "write" /\ ev.s \in AS
     /\ AWriteOk(a, ev.s, ev.n, W) /\ ev.off = a.wr[ev.s]
     /\ a' = AWrite(a, ev.s, ev.n)
     /\ UNCHANGED <<W, maxs, bi, nstr, dsent, drecv, closed>>
  \/ /\ ev.ev \in {"fin", "rst"} /\ ev.s \in AS
     /\ AFinOk(a, ev.s)
     /\ a' = AFin(a, ev.s, IF ev.ev = "fin" THEN "fin" ELSE "reset")
     /\ UNCHANGED <<W, maxs, bi, nstr, dsent, drecv, closed>>
  \/ /\ ev.ev = "read" /\ ev.s \in AS
     /\ ev.ok /\ AReadOk(a, ev.s, ev.off, ev.n)
     /\ a' = ARead(a, ev.s, ev.n)
     /\ UNCHANGED <<W, maxs, bi, nstr, dsent, drecv, closed>>
  \/ /\ ev.ev = "eof" /\ ev.s \in AS
     /\ AEofOk(a, ev.s)
     /\ a' = AEof(a, ev.s)
     /\ UNCHANGED <<W, maxs, bi, nstr, dsent, drecv, closed>>
  \/ /\ ev.ev = "stop" /\ ev.s \in AS
     /\ a' = ACut(a, ev.s)
     /\ UNCHANGED <<W, maxs, bi, nstr, dsent, drecv, closed>>
  \/ /\ ev.ev = "err"
     /\ ev.ok /\ (ev.s = 0 => closed) /\ (ev.s # 0 => Excused(ev.s))
     /\ a' = IF ev.s \in AS /\ ev.n = 1 THEN ACut(a, ev.s) ELSE a
     /\ UNCHANGED <<W, maxs, bi, nstr, dsent, drecv, closed>>
  \/ /\ ev.ev = "dsend" /\ ev.n \notin dsent
     /\ dsent' = dsent \cup {ev.n}
     /\ UNCHANGED <<a, W, maxs, bi, nstr, drecv, closed>>
  \/ /\ ev.ev = "drecv" /\ ev.ok /\ ev.n \in dsent /\ ev.n \notin drecv       \* one sent, never twice
     /\ drecv' = drecv \cup {ev.n}
     /\ UNCHANGED <<a, W, maxs, bi, nstr, dsent, closed>>
  \/ /\ ev.ev = "close"
     /\ closed' = TRUE
     /\ UNCHANGED <<a, W, maxs, bi, nstr, dsent, drecv>>
  \/ /\ ev.ev = "done"
     /\ ev.ok                                       \* everything completed under the watchdog
     /\ AInv(a, W)
     /\ ~closed => \A s \in 1..nstr :
                     (a.fin[s] = "fin" /\ ~a.cut[s]) => (a.eof[s] /\ a.rd[s] = a.wr[s])
     /\ UNCHANGED <<a, W, maxs, bi, nstr, dsent, drecv, closed>>

TraceNext ==
  /\ l <= N
  /\ Event(Rec[l])
  /\ l' = l + 1
  /\ UNCHANGED vars
  /\ TLCSet(1, l + 1)

TraceSpec == TraceInit /\ [][TraceNext]_<<tvars, vars>>

Accept ==
  IF TLCGet(1) = N + 1
    THEN PrintT("TRACE_ACCEPTED")
    ELSE PrintT(<<"TRACE", ToJson([unmatched |-> TLCGet(1), event |-> Rec[TLCGet(1)]])>>)
=============================================================================
