--------------------------- MODULE MC_CompatLoop ---------------------------
(* Exhaustive configurations of CompatLoop: programs = who waits for what. *)
EXTENDS CompatLoop
CONSTANTS w1, w2
AllMuts == {"none", "clearAfterPoll", "ignoreFlush", "noTimeout", "noFlush", "drainAfterBlocking"}
BothHosts == {"tokio", "futures"}
\* program A: a thread wakes task t1, which also sleeps; the main future reads from a descriptor
TgtA == (w1 :> "t1")
OwnA == ("o1" :> "main") @@ ("s1" :> "t1")
\* program B: a thread wakes the main future; task t1 reads from a descriptor and runs a blocking job
TgtB == (w1 :> "main")
OwnB == ("o1" :> "t1") @@ ("j1" :> "t1")
\* program C: the main future reads and sleeps; a blocking job nobody waits for any more is still running
TgtC == (w1 :> "main")
OwnC == ("o1" :> "main") @@ ("s1" :> "main") @@ ("j1" :> "none")
\* program D: two threads (main, t1), t1 reads
TgtD == (w1 :> "main") @@ (w2 :> "t1")
OwnD == ("o1" :> "t1")
\* quick programs
TgtQ1 == (w1 :> "t1")
OwnQ1 == ("o1" :> "main")
TgtQ2 == (w1 :> "main")
OwnQ2 == ("s1" :> "t1") @@ ("j1" :> "main")
=============================================================================
