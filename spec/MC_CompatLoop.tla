--------------------------- MODULE MC_CompatLoop ---------------------------
(* Exhaustive configurations of CompatLoop: programs = who waits for what. *)
EXTENDS CompatLoop
CONSTANTS w1, w2
BothHosts == {"tokio", "futures"}
TgtNone == [w \in {} |-> "main"]
\* quick programs
TgtQ1 == (w1 :> "t1")                                   \* a thread wakes task t1; the main future reads
OwnQ1 == ("o1" :> "main")
OwnQT == ("s1" :> "main") @@ ("o1" :> "t1")             \* the main future sleeps, task t1 reads (no thread)
OwnQJ == ("o1" :> "main") @@ ("j1" :> "main")           \* the main future reads and runs a blocking job
OwnQO == ("o1" :> "main") @@ ("j1" :> "none")           \* ... a blocking job nobody waits for any more
\* thorough programs
TgtA == (w1 :> "t1")                                    \* a thread wakes t1, which also sleeps; main reads
OwnA == ("o1" :> "main") @@ ("s1" :> "t1")
TgtB == (w1 :> "main")                                  \* a thread wakes main; t1 reads and runs a blocking job
OwnB == ("o1" :> "t1") @@ ("j1" :> "t1")
TgtC == (w1 :> "main")                                  \* main reads and sleeps, orphan job
OwnC == ("o1" :> "main") @@ ("s1" :> "main") @@ ("j1" :> "none")
TgtD == (w1 :> "main") @@ (w2 :> "t1")                  \* two threads (main, t1), t1 reads
OwnD == ("o1" :> "t1")
=============================================================================
