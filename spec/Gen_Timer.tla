----------------------------- MODULE Gen_Timer -----------------------------
(* Behaviour printer for Timer: every program of create / poll / drop / finish-inner / drop-tick /
   advance-time / runtime-poll steps (the thread never blocks in the driver: Runtime::poll_with(ZERO))
   together with what the model observes after every step.  One JSON line per maximal behaviour;
   replayed on the real compio-runtime by harness bin replay_timer.

   step fields: a (action), i (object), d (deadline or start), p (period), w (waker number),
     res / val : result of a poll ("pending" | "ready" | "ok" | "elapsed" | "tick" with its value),
     wk        : for "rtpoll", per object the number of its waker that wake() invoked (0 = none),
     to        : current_timeout() after the step in ticks, rounded up (-1 = None),
     n         : model clock after the step.                                                   *)
EXTENDS Timer, Json, Sequences

CONSTANT MaxSteps
VARIABLES hist
gvars == <<vars, hist>>

NoWake == [j \in Objs |-> 0]
\* which waker of which object TimerRuntime::wake is going to invoke (evaluated before the step)
Woken == [j \in Objs |-> IF \E k \in Expired : wheel[k] # NoWaker /\ wheel[k][1] = j
                         THEN wheel[CHOOSE k \in Expired : wheel[k] # NoWaker /\ wheel[k][1] = j][2]
                         ELSE 0]

Rec(a, i, d, p, w) ==
  hist' = Append(hist, [a |-> a, i |-> i, d |-> d, p |-> p, w |-> w,
                        res |-> IF a = "poll" THEN obj'[i].res ELSE "",
                        val |-> IF a = "poll" THEN obj'[i].val ELSE -1,
                        wk  |-> IF a = "rtpoll" THEN Woken ELSE NoWake,
                        to  |-> MinTimeoutOf(wheel', now'),
                        n   |-> now'])

GInit == Init /\ hist = <<>>

\* Programs are kept in a canonical shape (nothing observable is lost):
\*  - objects are created in index order and the first poll of an object uses its waker 1 (symmetry);
\*  - the last step is one that observes something new: a poll, a runtime poll or a drop.
Last == Len(hist) = MaxSteps - 1

GNext ==
 /\ Len(hist) < MaxSteps
 /\ \/ ~Last /\ \E i \in Objs, d \in Deadlines : CreateSleep(i, d) /\ Rec("sleep", i, d, 0, 0)
    \/ ~Last /\ \E i \in Objs, d \in Deadlines : CreateTimeout(i, d) /\ Rec("timeout", i, d, 0, 0)
    \/ ~Last /\ \E i \in Objs, s \in Deadlines, p \in Periods : CreateInterval(i, s, p) /\ Rec("interval", i, s, p, 0)
    \/ \E i \in Objs, w \in 1..NW : (w = 1 \/ obj[i].res # "na") /\ Poll(i, w) /\ Rec("poll", i, 0, 0, w)
    \/ ~Last /\ \E i \in Objs : FinishInner(i) /\ Rec("finish", i, 0, 0, 0)
    \/ \E i \in Objs : Drop(i) /\ Rec("drop", i, 0, 0, 0)
    \/ ~Last /\ \E i \in Objs : DropTick(i) /\ Rec("droptick", i, 0, 0, 0)
    \/ ~Last /\ Tick /\ Rec("tick", 0, 0, 0, 0)
    \/ PollZero /\ Rec("rtpoll", 0, 0, 0, 0)

GSpec == GInit /\ [][GNext]_gvars

Emit == Len(hist) = MaxSteps => PrintT(<<"REPLAY", ToJson([n |-> N, nw |-> NW, steps |-> hist])>>)
=============================================================================
