CONSTANTS
  w1 = w1
  w2 = w2
  Wakers = {}
  Target <- TgtNone
  Tasks = {}
  QCap = 1
  Mode = "external"
  Driver = "iour"
  Eager = FALSE
  ArmInFlush = TRUE
  WakeAfterPush = TRUE
  Overflow = FALSE
  Hosts <- BothHosts
  Muts = {"oldFlush"}
  Ops = {"o1"}
  Timers = {}
  Jobs = {"j1"}
  Owner <- OwnQJ
  AnyTurn = TRUE
SPECIFICATION XSpec
INVARIANTS XTypeOK PendingBound TypeOK CtlOldFlush
