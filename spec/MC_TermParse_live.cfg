SPECIFICATION FairSpec
CONSTANTS
  RawMode = TRUE
  Inputs <- InputsWf
  FixStaleTimer = FALSE
  AllowLongCsi = TRUE
  MaxTok = 24
  Mut = ""
PROPERTIES
  Terminates
