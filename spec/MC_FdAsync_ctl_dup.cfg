CONSTANTS
  RW = {"a"}
  WW = {}
  MaxPW = 2
  MaxFill = 0
  AllowShut = FALSE
  Eager = FALSE
  Strict = FALSE
  Mut = "dup"
SPECIFICATION Spec
INVARIANTS NoErr ExactlyOnce
