\* with the repair of the rustls handshake flush as well: everything holds without exemption
CONSTANTS
  Backends = {"native", "rustls"}
  Shapes = {"t13", "t12"}
  Bufferings = {TRUE, FALSE}
  Payloads = {1}
  Inits = {"c", "s"}
  Limits = {0, 1}
  U = 2
  MaxPend = 1
  FlushBeforeRead = TRUE
  PendingIsWouldBlock = TRUE
  MidResumes = TRUE
  FinalFlush = TRUE
  CloseFlushes = TRUE
  FixRustlsHsFlush = TRUE
SPECIFICATION FairSpec
INVARIANTS TypeOK NoDeadlockStrict NoFailure InOrderExactlyOnce CleanCloseStrict
PROPERTIES Progress HandshakeCompletesStrict CloseCompletesStrict
