\* the two proposed repairs: everything holds without exemption
CONSTANTS
  Backends = {"native", "rustls"}
  Shapes = {"t13", "t12"}
  Bufferings = {TRUE, FALSE}
  Payloads = {1}
  Inits = {"c", "s"}
  Limits = {0, 1}
  U = 2
  MaxPend = 1
  FlushBeforeRead = TRUE
  PendingIsWouldBlock = TRUE
  MidResumes = TRUE
  FinalFlush = TRUE
  FixNativeClose = TRUE
  FixRustlsHsFlush = TRUE
SPECIFICATION FairSpec
INVARIANTS TypeOK NoDeadlockStrict NoFailure InOrderExactlyOnce CleanCloseStrict
PROPERTIES Progress HandshakeCompletesStrict CloseCompletesStrict
