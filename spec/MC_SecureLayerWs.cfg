\* compio-ws flush-before-yield rule: safety and liveness (small model, one run)
CONSTANTS
  Servers = {"A", "B"}
  Bufferings = {TRUE, FALSE}
  MaxPend = 3
  FlushBeforeYield = TRUE
  TransportFlush = TRUE
SPECIFICATION FairSpec
INVARIANTS TypeOK NoDeadlock NoFailure RepliesFlushedBeforeYield InOrder Finished
PROPERTIES CloseCompletes PongArrives
