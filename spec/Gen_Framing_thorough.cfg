\* thorough, exhaustive part: as the quick configuration with the bounds of the design for every framer
CONSTANTS
  FixExtractOverflow = TRUE
  FixFramerError = TRUE
  Lfls = {1, 2, 3, 4, 5, 6, 7, 8}
  HostLfls = {1, 2, 3, 4, 5, 6, 7, 8}
  Endians = {TRUE, FALSE}
  DelimKinds = {"nl", "c1", "R3", "a12"}
  HostDelimKinds = {"nl", "c1", "R3", "a12", "a11"}
  WithNoop = TRUE
  WithLim = TRUE
  Codecs = {"bytes", "json"}
  PayAlpha = {1}
  MaxPay = 2
  MaxFrames = 3
  BigPays = {}
  WideFrom = 3
  WideMaxPay = 2
  WideMaxFrames = 3
  WideHostAlpha = {0, 255}
  WideHostExtra = 2
  Modes = {"rt", "hostile"}
  HostAlpha = {0, 1, 2, 255}
  HostExtra = 2
  ChunkMin = 1
  ChunkMax = 16
  WLimits = {16}
  ZeroReads = 0
  MaxErr = 0
  AfterDone = 1
  AnyMax = 7
  LongModes = {"ones", "whole", "split"}
  HostAnyMax = 4
  HostModes = {"ones", "whole", "split"}
  WideHostModes = {"ones", "whole"}
SPECIFICATION GSpec
INVARIANTS Emit
