------------------------------ MODULE Gen_Quic ------------------------------
(* Program generator for C16: runs the model Quic.tla (simulation, seeded) and prints one
   program per completed behaviour: what the application did in that behaviour (streams opened,
   direction, chunk size classes written, finish / reset, reader pacing, stop, datagrams, who
   closed and after how many application-level steps, window and stream-limit setting).
   harness/hquic/src/programs.rs runs each program on real loopback endpoints.            *)
EXTENDS Quic, Json

CONSTANTS CMins,    \* possible earliest close points (application-level steps)
          Spices    \* e.g. {"plain", "plain2", "reset", "stop"}

VARIABLES csz,      \* [stream -> Seq of size classes 0..2 = 1 / 1200 / 70 000 bytes]
          dirs,     \* [stream -> "uni" | "bi"]
          tiny,     \* [stream -> reader starts with tiny reads]
          slow,     \* [stream -> the writer was blocked on the window at some point]
          quiet,    \* [stream -> finish was called while the connection of A was quiet (QuietA)]
          nops,     \* application-level steps so far
          closeBy, closeAt,
          cmin,     \* earliest close point of this behaviour
          spice,    \* "reset" / "stop": the behaviour may reset / stop streams
          emitted
gvars == <<vars, csz, dirs, tiny, slow, quiet, nops, closeBy, closeAt, cmin, spice, emitted>>

GInit == /\ Init
         /\ csz = [s \in Streams |-> <<>>]
         /\ dirs = [s \in Streams |-> "uni"]
         /\ tiny = [s \in Streams |-> FALSE]
         /\ slow = [s \in Streams |-> FALSE]
         /\ quiet = [s \in Streams |-> FALSE]
         /\ nops = 0 /\ closeBy = "none" /\ closeAt = 0 /\ emitted = FALSE
         /\ cmin \in CMins /\ spice \in Spices

AppReturn == \/ sent' # sent \/ got' # got \/ finS' # finS \/ openSeq' # openSeq
             \/ dgNext' # dgNext \/ dgGot' # dgGot \/ stopS' # stopS
             \/ \E j \in Streams : ph'[Rf(j)] = "end" /\ ph[Rf(j)] # "end"

Hist ==
  /\ IF sent' # sent
     THEN \E c \in 0..2 : csz' = [s \in Streams |-> IF sent'[s] > sent[s] THEN Append(csz[s], c) ELSE csz[s]]
     ELSE csz' = csz
  /\ IF openSeq' # openSeq
     THEN \E d \in {"uni", "bi"}, t \in BOOLEAN :
            /\ dirs' = [s \in Streams |-> IF IsOpen(s)' /\ ~IsOpen(s) THEN d ELSE dirs[s]]
            /\ tiny' = [s \in Streams |-> IF IsOpen(s)' /\ ~IsOpen(s) THEN t ELSE tiny[s]]
     ELSE UNCHANGED <<dirs, tiny>>
  /\ slow' = [s \in Streams |-> slow[s] \/ (fs'[Wf(s)] = "pend" /\ ph[Wf(s)] = "write")]
  /\ quiet' = [s \in Streams |-> quiet[s] \/ (finS'[s] = "fin" /\ finS[s] = "no" /\ QuietA)]
  \* in the behaviours chosen for it every finish waits for a quiet connection
  /\ (\E s \in Streams : finS'[s] = "fin" /\ finS[s] = "no") => (spice = "quiet" => QuietA)
  /\ nops' = IF AppReturn THEN nops + 1 ELSE nops
  /\ IF closeBy = "none" /\ (epClosed'["A"] /\ ~epClosed["A"])
     THEN closeBy' = "endpoint" /\ closeAt' = nops + 1
     ELSE IF closeBy = "none" /\ err'["A"] = "local" /\ err["A"] = "none"
     THEN closeBy' = "client" /\ closeAt' = nops + 1
     ELSE IF closeBy = "none" /\ err'["B"] = "local" /\ err["B"] = "none"
     THEN closeBy' = "server" /\ closeAt' = nops + 1
     ELSE UNCHANGED <<closeBy, closeAt>>
  \* a close is only taken once the behaviour has made cmin application-level steps, so that
  \* the random walk does not close nearly every behaviour at its very beginning
  /\ (closeBy' # closeBy) => nops >= cmin
  \* resets and stops only in the behaviours chosen for them (otherwise nearly every stream
  \* of a random walk ends that way)
  /\ (\E s \in Streams : finS'[s] = "reset" /\ finS[s] # "reset") => spice = "reset"
  /\ (stopS' # stopS) => spice = "stop"
  /\ UNCHANGED <<cmin, spice>>

GNext == \/ Progress /\ Hist /\ UNCHANGED emitted
         \/ /\ AcceptableFinal /\ ~emitted
            /\ emitted' = TRUE
            /\ UNCHANGED <<vars, csz, dirs, tiny, slow, quiet, nops, closeBy, closeAt, cmin, spice>>

GSpec == GInit /\ [][GNext]_gvars

Program ==
  [win |-> IF win < Units THEN "small" ELSE "default", maxs |-> maxs0,
   streams |-> [s \in Streams |->
       [dir |-> dirs[s], chunks |-> csz[s],
        end |-> IF finS[s] = "reset" THEN "reset" ELSE IF quiet[s] THEN "quietfin" ELSE "fin",
        pace |-> IF stopS[s] THEN "stop" ELSE IF slow[s] THEN "slow" ELSE IF tiny[s] THEN "tiny" ELSE "eager"]],
   dgrams |-> dgNext - 1, close |-> closeBy, closeAt |-> closeAt]

Emit == emitted => PrintT(<<"REPLAY", ToJson(Program)>>)
=============================================================================
