CONSTANTS
  Threads = {1, 2}
  Layouts <- LayoutsGenThree
  Muts <- MutsNone
  Sigs = {"a", "b"}
  BadSigs = {"k"}
  MaxRaise = 3
  RaiseOn = {0, 1, 2}
  SpuriousPolls = FALSE
  FixLeak = FALSE
  MaxNL = 3
  MaxSteps = 8
  AutoPoll = TRUE
  AllowPark = FALSE
  EmitAll = TRUE
SPECIFICATION GSpec
INVARIANTS GenSafe Emit
VIEW CoverView
