CONSTANTS
  Drvs = {"iour", "poll"}
  PoolBuf = 2
  MaxDgram = 3
  DevMultiDrop = TRUE
  DevIncomingDrop = TRUE
  DevManagedEmpty = TRUE
  DevPollMultiLen = FALSE
  Part = "dgram"
  Feat = {}
  Sizes = {0, 1, 4}
  Caps = {0, 1}
  SockBuf = 2
  MaxOff = 4
  Dirs = {1}
  Conns = {1, 2, 3}
  DgSocks = {"a", "c"}
  MaxDg = 2
SPECIFICATION SpecDgram
VIEW mcview
INVARIANTS TypeOk DgExact DgPayloadDelivered
