\* control (DESIGN D): MidHandshake does not resume (expected to FAIL)
CONSTANTS
  Backends = {"native"}
  Shapes = {"t13"}
  Bufferings = {TRUE, FALSE}
  Payloads = {1}
  Inits = {"c"}
  Limits = {0, 1}
  U = 2
  MaxPend = 1
  FlushBeforeRead = TRUE
  PendingIsWouldBlock = TRUE
  MidResumes = FALSE
  FinalFlush = TRUE
  CloseFlushes = TRUE
  FixRustlsHsFlush = FALSE
SPECIFICATION Spec
INVARIANTS NoFailure
