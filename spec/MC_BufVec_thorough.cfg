CONSTANTS
  N = 3
  Caps = {1, 2, 3}
  MaxSteps = 4
SPECIFICATION Spec
INVARIANTS ContractModuloKnown Inside
