CONSTANTS
  Setup = "hot"
  NW = 2
  SyncCap = 1
  MaxTicks = 1
  MaxJPolls = 1
  MaxWakes = 1
  JCmds = {}
  HCmds = {"tick", "clear", "execdrop"}
  Spurious = TRUE
  Strict = TRUE
  Fix = {"D10b", "D11", "D12"}
SPECIFICATION Spec
INVARIANTS NoErr HomeOnly ExactlyOnce NoWakerLeak RcMatches NoLostJoinWake PendingBound ScntOk
