\* control: if the start failure were reported before the name is released (seeded defect) FailedStartFreesName is violated
CONSTANTS
  Actors = {1, 2}
  Procs = {0, 1, 2}
  Names = {"N"}
  Caps = {1}
  Kinds = {}
  Spawners = {0, 1}
  Senders = {}
  Stoppers = {0}
  Lookers = {2}
  GSenders = {}
  Joiners = {}
  Prestarted = {}
  Prejoined = FALSE
  InitialActors = {1, 2}
  Replacements = {}
  MsgsPer = 0
  StopsPer = 1
  LooksPer = 1
  JoinsPer = 0
  SupChoices = {FALSE}
  SupProc = 99
  SupCap = 1
  PreMayFail = TRUE
  PostMayFail = FALSE
  StopHooksMayFail = FALSE
  DrainOnClose = FALSE
  ReportBeforeRelease = TRUE
  ReserveIgnoresStarting = FALSE
SPECIFICATION Spec
INVARIANTS FailedStartFreesName
