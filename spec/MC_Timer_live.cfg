\* liveness on the fair spec (no state constraint): every pending future completes, every entry leaves the wheel
CONSTANTS
  N = 2
  Deadlines = {1}
  Periods = {1}
  Kinds = {"sleep", "interval"}
  NW = 1
  MaxNow = 2
  MaxGen = 2
  Mut = "none"
SPECIFICATION FairSpec
PROPERTIES Completes Fires
