CONSTANTS
  MaxL = 4
  MaxCap = 4
  MaxIntr = 0
  MaxFault = 0
  Helpers = {"slice_read", "slice_read_vectored", "read_at", "read_vectored_at", "cursor_read", "cursor_read_vectored", "vec_write", "vec_write_vectored", "slice_write", "slice_write_vectored", "arr_write_at", "arr_write_vectored_at", "vec_write_at", "vec_write_vectored_at", "cursor_vec_write", "cursor_vec_write_vectored"}
  Fixed = {"read_to_end_appends", "bufreader_cap0", "copy_cap0", "bufwriter_accept", "read_vectored_at_clamp", "vec_write_vectored", "vec_write_vectored_at"}
SPECIFICATION MemSpec
INVARIANTS MemStrict MemNoPanic MemEmit
