--------------------------- MODULE Trace_HalfLock ---------------------------
(* Trace validation for X01: a history recorded by extra/harness/hx01 bin record_halflock from the REAL
   source file compio-signal/src/unix/half_lock.rs (compiled into the harness) - reader threads taking and
   holding guards, writer threads storing new values, the drop of every value observed through its Drop
   impl - is accepted iff the actions of module HalfLock can produce it.

   Calls are logged as call / return brackets; the atomic operations inside them (generation load, lock
   increment, pointer load, swap, update_seen rounds, generation switch, mutex) are silent steps that TLC
   places anywhere between the brackets.  A history is rejected exactly when no placement explains it,
   e.g. a value dropped while a guard that was returned for it has not been released, or a store that
   returns while such a guard is still held.

   Acceptance: register 1 holds the largest cursor reached; the POSTCONDITION prints TRACE_ACCEPTED when
   the whole trace was consumed and the first unexplained event otherwise. *)
EXTENDS HalfLock, Json, IOUtils, Sequences

Rec == ndJsonDeserialize(IOEnv.TRACE)
N == Len(Rec)

VARIABLE l
tvars == <<vars, l>>

TInit == Init /\ l = 1 /\ TLCSet(1, 1)

\* the trace configuration numbers readers and writers like the recorder does
RName(i) == i
WName(i) == i

ResetAll ==
  /\ mut' = mut
  /\ data' = 0 /\ gen' = 0 /\ lock' = [i \in Slots |-> 0] /\ mutex' = NoW
  /\ alive' = {0} /\ nver' = 1
  /\ rpc' = [r \in Readers |-> "idle"] /\ rslot' = [r \in Readers |-> 0] /\ rptr' = [r \in Readers |-> 0]
  /\ reads' = [r \in Readers |-> 0]
  /\ wpc' = [w \in Writers |-> "idle"] /\ wold' = [w \in Writers |-> 0] /\ wval' = [w \in Writers |-> 0]
  /\ seen' = [i \in Slots |-> FALSE] /\ pass' = 0 /\ wslot' = 0

Event(e) ==
  CASE e.e = "reset" -> ResetAll
    [] e.e = "read.call" -> UNCHANGED mut /\ ReadCall(RName(e.r))
    [] e.e = "read.ret" -> UNCHANGED mut /\ rptr[RName(e.r)] = e.v /\ ReadRet(RName(e.r))
    [] e.e = "release.call" -> UNCHANGED mut /\ ReleaseCall(RName(e.r))
    [] e.e = "release.ret" -> rpc[RName(e.r)] = "idle" /\ UNCHANGED vars
    [] e.e = "store.call" -> UNCHANGED mut /\ StoreCallV(WName(e.w), e.v)
    [] e.e = "drop" -> UNCHANGED mut /\ \E w \in Writers : wold[w] = e.v /\ WFree(w)
    [] e.e = "store.ret" -> wpc[WName(e.w)] = "idle" /\ UNCHANGED vars
    [] OTHER -> FALSE

Logged ==
  /\ l <= N
  /\ Event(Rec[l])
  /\ l' = l + 1
  /\ TLCSet(1, IF l + 1 > TLCGet(1) THEN l + 1 ELSE TLCGet(1))

Silent ==
  /\ l <= N
  /\ Rec[l].e # "reset"
  /\ \/ \E r \in Readers : ReaderStep(r)
     \/ \E w \in Writers : UNCHANGED mut /\ (WLock(w) \/ WSwap(w) \/ WSeen(w) \/ WGenInc(w) \/ WCheck(w) \/ WUnlock(w))
  /\ UNCHANGED l

TNext == Logged \/ Silent
TSpec == TInit /\ [][TNext]_tvars

Accepted ==
  IF TLCGet(1) = N + 1
    THEN PrintT(<<"TRACE_ACCEPTED", N>>)
    ELSE PrintT(<<"TRACE", ToJson([rejected_at |-> TLCGet(1), event |-> Rec[TLCGet(1)]])>>)
=============================================================================
