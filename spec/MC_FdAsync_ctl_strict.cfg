CONSTANTS
  RW = {"a"}
  WW = {}
  MaxPW = 1
  MaxFill = 0
  AllowShut = FALSE
  Eager = FALSE
  Strict = TRUE
  Mut = "none"
SPECIFICATION Spec
INVARIANTS NoErr
