CONSTANTS
  w1 = w1
  w2 = w2
  Wakers = {w1}
  Target <- TgtQ1
  Tasks = {"t1"}
  QCap = 1
  Mode = "external"
  Driver = "poll"
  Eager = FALSE
  ArmInFlush = TRUE
  WakeAfterPush = TRUE
  Overflow = FALSE
  Hosts <- BothHosts
  Muts = {"clearAfterPoll"}
  Ops = {"o1"}
  Timers = {}
  Jobs = {}
  Owner <- OwnQ1
  AnyTurn = TRUE
SPECIFICATION XSpec
INVARIANTS XTypeOK PendingBound TypeOK CtlClearAfterPoll
