CONSTANTS
  Driver = "iour"
  Shapes <- ShapesCtl
  MaxSteps = 0
  MaxCancel = 2
  MaxFeed = 2
  Eager = FALSE
  FixListen = TRUE
  FixFFStream = TRUE
  MutPersDropsCancel = FALSE
  MutNoDropCancel = FALSE
  MutNoWaker = FALSE
SPECIFICATION FairSpec
PROPERTIES FailFastResolvesStrict CancelResolves CompletionSeen
