CONSTANTS
  N = 3
  L = 2
  Mode = "remote"
  MaxSignals = 2
SPECIFICATION Spec
INVARIANTS WellFormed NoLostTask
