CONSTANTS
  Setup = "fresh"
  NW = 0
  SyncCap = 1
  MaxTicks = 2
  MaxJPolls = 3
  MaxWakes = 1
  JCmds = {"poll"}
  HCmds = {"tick", "clear", "execdrop"}
  Spurious = FALSE
  Strict = FALSE
  Fix = {}
  MaxLen = 60
SPECIFICATION GSpec
INVARIANTS Emit
