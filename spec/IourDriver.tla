----------------------------- MODULE IourDriver -----------------------------
(* Implementation-shaped model of compio-driver's io_uring driver
   (compio-driver/src/sys/driver/iour/mod.rs, src/lib.rs Proactor, src/key.rs),
   one action per critical section, composed with the OpAbs contract monitor.

   What is modelled as the code is written:
     - keys are reference counted (rc); push leaks one reference into the ring
       (push_raw_with_key: in_flight.insert + into_raw); a final CQE takes it back
       (create_entry: from_raw), a CQE with MORE only borrows (BorrowedKey);
     - the submission queue has SQCAP slots; a push that finds it full submits, drains the
       completion queue (poll_entries) and retries (push_raw);
     - Driver::cancel pushes an AsyncCancel entry and DROPS it when the queue is full
       (named deviation CancelDroppedWhenSqFull, known finding C05-iour-cancel-dropped);
     - thread-pool operations: the key is frozen and handed to a pool thread, the result
       comes back through the completed channel (poll_blocking);
     - Driver::drop in its three phases: drain the completion queue (one reference dropped
       per CQE whatever its MORE flag - as written), close the ring, release in_flight.

   The kernel is the environment: it takes submitted entries, completes single-shot
   operations once, multishot operations any number of times with MORE and once finally,
   and honours AsyncCancel.                                                              *)
EXTENDS OpAbs

CONSTANTS Kind,          \* [Ops -> {"single", "multi", "zc", "blocking"}]
          SQCAP,         \* submission queue capacity
          MaxMore,       \* bound on MORE completions per multishot operation
          Eager,         \* TRUE: schedule-generation variant - cancelled operations complete at submit time
          FixCancelPush, \* TRUE: Driver::cancel goes through push_raw (submit-and-retry) - the repaired behaviour
          FixDrainMore   \* TRUE: Driver::drop only releases a reference for final CQEs (repaired behaviour)

VARIABLES phase,        \* [Ops -> "idle" | "held" | "gone"]   the submitter's key
          rc,           \* [Ops -> Nat]                          strong references
          sq,           \* Seq of [t: "op"|"cancel", o]
          kern,         \* ops the kernel is working on
          kcancel,      \* ops with an AsyncCancel pending in the kernel
          cq,           \* Seq of [o, more]
          inflight,     \* Driver::in_flight
          cflag,        \* [Ops -> BOOLEAN]  RawOp::cancelled
          hasres,       \* [Ops -> BOOLEAN]  result is Ready
          mores,        \* [Ops -> Nat]      MORE completions produced so far
          jobs,         \* ops handed to the pool, not yet finished
          chan,         \* completed channel (Seq of ops)
          token,        \* ops for which a cancel token exists
          drv,          \* "live" | "drained" | "closed" | "gone"
          lost,         \* ghost: ops whose AsyncCancel was dropped because the SQ was full
          mon,          \* OpAbs monitor
          last          \* events emitted by the last step (binding: compared with the hooks of the real driver)

vars == <<phase, rc, sq, kern, kcancel, cq, inflight, cflag, hasres, mores, jobs, chan, token, drv, lost, mon, last>>

Emit(evs) == mon' = Apply(mon, evs) /\ last' = evs

E(ev, o) == [ev |-> ev, op |-> o, a |-> 0, fd |-> 0]
EA(ev, o, a) == [ev |-> ev, op |-> o, a |-> a, fd |-> 0]

Init == /\ phase = [o \in Ops |-> "idle"] /\ rc = [o \in Ops |-> 0]
        /\ sq = <<>> /\ kern = {} /\ kcancel = {} /\ cq = <<>> /\ inflight = {}
        /\ cflag = [o \in Ops |-> FALSE] /\ hasres = [o \in Ops |-> FALSE]
        /\ mores = [o \in Ops |-> 0] /\ jobs = {} /\ chan = <<>> /\ token = {}
        /\ drv = "live" /\ lost = {} /\ mon = MonInit /\ last = <<>>

\* ---- helpers ---------------------------------------------------------------------------
\* dropping one reference of o: events to emit and new rc
FreeEv(o) == <<E("free", o), E("hbufdrop", o)>>     \* released without being taken: the buffer goes too
DecEvents(r, o) == IF r[o] = 1 THEN FreeEv(o) ELSE <<>>

\* the kernel consumes the whole SQ (io_uring_enter submit)
SqOps == {sq[i].o : i \in {j \in 1..Len(sq) : sq[j].t = "op"}}
SqCancels == {sq[i].o : i \in {j \in 1..Len(sq) : sq[j].t = "cancel"}}
KernAll == kern \cup SqOps
KCancelAll == (kcancel \cup SqCancels) \cap KernAll
\* Eager: an AsyncCancel that finds its target completes it (ECANCELED) before io_uring_enter returns
EagerSeq == IF Eager THEN SelectSeq(sq, LAMBDA x : x.t = "cancel" /\ x.o \in KernAll /\ Kind[x.o] # "zc") ELSE <<>>
EagerSet == {EagerSeq[i].o : i \in 1..Len(EagerSeq)}
\* Eager: a zero-copy send on a loopback socket produces its result completion (MORE) and its
\* notification (final) before io_uring_enter returns
EagerZc == IF Eager THEN SelectSeq(sq, LAMBDA x : x.t = "op" /\ Kind[x.o] = "zc") ELSE <<>>
EagerZcSet == {EagerZc[i].o : i \in 1..Len(EagerZc)}
RECURSIVE ZcCq(_)
ZcCq(z) == IF z = <<>> THEN <<>>
           ELSE <<[o |-> Head(z).o, more |-> TRUE], [o |-> Head(z).o, more |-> FALSE]>> \o ZcCq(Tail(z))
EagerCq == ZcCq(EagerZc) \o [i \in 1..Len(EagerSeq) |-> [o |-> EagerSeq[i].o, more |-> FALSE]]
KernAfterSubmit == (KernAll \ EagerSet) \ EagerZcSet
KCancelAfterSubmit == (KCancelAll \ EagerSet) \ EagerZcSet

\* poll_entries over a completion queue c: fold producing <<rc, inflight, hasres, events>>
RECURSIVE PollFold(_, _, _, _, _)
PollFold(c, r, inf, hr, evs) ==
  IF c = <<>> THEN <<r, inf, hr, evs>>
  ELSE LET x == Head(c) o == x.o IN
       IF x.more
         THEN PollFold(Tail(c), r, inf, hr, Append(evs, EA("cqe", o, 1)))
         ELSE \* final: in_flight.remove, from_raw, notify (set_result), the Entry's key is dropped
              PollFold(Tail(c), [r EXCEPT ![o] = @ - 1], inf \ {o}, [hr EXCEPT ![o] = TRUE],
                       evs \o <<EA("cqe", o, 0), E("result", o)>> \o DecEvents(r, o))

\* ---- submitter -------------------------------------------------------------------------
\* Proactor::push for ring operations, SQ has room
PushRing(o) ==
  /\ drv = "live" /\ phase[o] = "idle" /\ Kind[o] # "blocking" /\ Len(sq) < SQCAP
  /\ phase' = [phase EXCEPT ![o] = "held"]
  /\ rc' = [rc EXCEPT ![o] = 2]
  /\ sq' = Append(sq, [t |-> "op", o |-> o])
  /\ inflight' = inflight \cup {o}
  /\ Emit(<<E("alloc", o), E("submit", o), E("hsub", o)>>)
  /\ UNCHANGED <<kern, kcancel, cq, cflag, hasres, mores, jobs, chan, token, drv, lost>>

\* Proactor::push when the SQ is full: push_raw submits, drains the CQ (poll_entries), retries
PushRingOverflow(o) ==
  /\ drv = "live" /\ phase[o] = "idle" /\ Kind[o] # "blocking" /\ Len(sq) >= SQCAP
  /\ LET f == PollFold(cq \o EagerCq, [rc EXCEPT ![o] = 2], inflight, hasres, <<E("alloc", o)>>) IN
       /\ rc' = f[1]
       /\ inflight' = f[2] \cup {o}
       /\ hasres' = f[3]
       /\ Emit(f[4] \o <<E("submit", o), E("hsub", o)>>)
  /\ kern' = KernAfterSubmit /\ kcancel' = KCancelAfterSubmit
  /\ sq' = <<[t |-> "op", o |-> o]>>
  /\ cq' = <<>>
  /\ phase' = [phase EXCEPT ![o] = "held"]
  /\ UNCHANGED <<cflag, mores, jobs, chan, token, drv, lost>>

\* Proactor::push of a thread-pool operation: push_blocking freezes the key for the pool thread
PushBlocking(o) ==
  /\ drv = "live" /\ phase[o] = "idle" /\ Kind[o] = "blocking"
  /\ phase' = [phase EXCEPT ![o] = "held"]
  /\ rc' = [rc EXCEPT ![o] = 2]
  /\ jobs' = jobs \cup {o}
  /\ Emit(<<E("alloc", o), E("bdispatch", o), E("hsub", o)>>)
  /\ UNCHANGED <<sq, kern, kcancel, cq, inflight, cflag, hasres, mores, chan, token, drv, lost>>

\* the pool thread runs the job and sends the frozen key back
PoolRun(o) ==
  /\ o \in jobs
  /\ jobs' = jobs \ {o}
  /\ chan' = Append(chan, o)
  /\ Emit(<<E("bstart", o), E("bdone", o)>>)
  /\ UNCHANGED <<phase, rc, sq, kern, kcancel, cq, inflight, cflag, hasres, mores, token, drv, lost>>

\* Proactor::poll: poll_blocking, then submit, poll_entries
RECURSIVE ChanFold(_, _, _, _)
ChanFold(c, r, hr, evs) ==
  IF c = <<>> THEN <<r, hr, evs>>
  ELSE LET o == Head(c) IN
       ChanFold(Tail(c), [r EXCEPT ![o] = @ - 1], [hr EXCEPT ![o] = TRUE],
                evs \o <<E("result", o)>> \o DecEvents(r, o))

Poll ==
  /\ drv = "live"
  \* poll_blocking delivers the entries of the completed channel; poll then goes on (without waiting when there were
  \* any): submit, poll_entries.  (Before fix 3888dbb poll returned right after poll_blocking had found entries and
  \* left the submission and completion queues to the next call - at this level only the grouping of the hook events
  \* into Poll steps differs, no property of this module depends on it; the externally driven runtime that did
  \* depend on it is modelled in CompatLoop, control "oldPollBlocking".)
  /\ LET fc == ChanFold(chan, rc, hasres, <<>>)
         f == PollFold(cq \o EagerCq, fc[1], inflight, fc[2], fc[3]) IN
       /\ rc' = f[1] /\ inflight' = f[2] /\ hasres' = f[3] /\ Emit(f[4])
       /\ kern' = KernAfterSubmit /\ kcancel' = KCancelAfterSubmit
       /\ sq' = <<>> /\ cq' = <<>> /\ chan' = <<>>
  /\ UNCHANGED <<phase, cflag, mores, jobs, token, drv, lost>>

\* Proactor::pop
Pop(o) ==
  /\ drv = "live" /\ phase[o] = "held"
  /\ IF hasres[o]
       THEN \* take_result: try_unwrap requires the key to be unique
            /\ rc[o] = 1
            /\ phase' = [phase EXCEPT ![o] = "gone"]
            /\ rc' = [rc EXCEPT ![o] = 0]
            /\ Emit(<<E("htake", o), E("free", o), EA("hready", o, 1)>>)
       ELSE /\ Emit(<<E("htake", o), E("hpending", o)>>)
            /\ UNCHANGED <<phase, rc>>
  /\ UNCHANGED <<sq, kern, kcancel, cq, inflight, cflag, hasres, mores, jobs, chan, token, drv, lost>>

\* Driver::cancel(key): push an AsyncCancel entry.
\*   repaired (FixCancelPush): through push_raw - a full SQ is submitted, the CQ drained (poll_entries), then pushed
\*   as originally written:   the entry is DROPPED when the SQ is full (fixed finding C05-iour-cancel-dropped)
CancelPush(o, r, inf, hr) ==
  IF Len(sq) < SQCAP
    THEN [sq |-> Append(sq, [t |-> "cancel", o |-> o]), kern |-> kern, kc |-> kcancel, cq |-> cq,
          r |-> r, inf |-> inf, hr |-> hr, evs |-> <<>>, full |-> 0, lost |-> lost]
    ELSE IF FixCancelPush
      THEN LET f == PollFold(cq \o EagerCq, r, inf, hr, <<>>) IN
           [sq |-> <<[t |-> "cancel", o |-> o]>>, kern |-> KernAfterSubmit, kc |-> KCancelAfterSubmit, cq |-> <<>>,
            r |-> f[1], inf |-> f[2], hr |-> f[3], evs |-> f[4], full |-> 1, lost |-> lost]
      ELSE [sq |-> sq, kern |-> kern, kc |-> kcancel, cq |-> cq,
            r |-> r, inf |-> inf, hr |-> hr, evs |-> <<>>, full |-> 1, lost |-> lost \cup {o}]

\* Proactor::cancel(key): the future-drop route; consumes the submitter's key
Cancel(o) ==
  /\ drv = "live" /\ phase[o] = "held"
  /\ phase' = [phase EXCEPT ![o] = "gone"]
  /\ cflag' = [cflag EXCEPT ![o] = TRUE]
  /\ IF cflag[o]
       THEN \* already cancelled (by a token): return None, the key is dropped
            /\ rc' = [rc EXCEPT ![o] = @ - 1]
            /\ Emit(<<E("htake", o), EA("cancelled", o, 1)>> \o DecEvents(rc, o))
            /\ UNCHANGED <<sq, lost, kern, kcancel, cq, inflight, hasres>>
       ELSE IF rc[o] = 1 /\ hasres[o]
         THEN /\ rc' = [rc EXCEPT ![o] = 0]
              /\ Emit(<<E("htake", o), EA("cancelled", o, 0), E("free", o), EA("hready", o, 1)>>)
              /\ UNCHANGED <<sq, lost, kern, kcancel, cq, inflight, hasres>>
         ELSE LET c == CancelPush(o, rc, inflight, hasres) IN
              /\ sq' = c.sq /\ lost' = c.lost /\ kern' = c.kern /\ kcancel' = c.kc /\ cq' = c.cq
              /\ inflight' = c.inf /\ hasres' = c.hr
              /\ rc' = [c.r EXCEPT ![o] = @ - 1]
              /\ Emit(<<E("htake", o), EA("cancelled", o, 0), EA("cancelreq", o, c.full)>> \o c.evs \o DecEvents(c.r, o))
  /\ UNCHANGED <<mores, jobs, chan, token, drv>>

\* register_cancel + cancel_token
MakeToken(o) ==
  /\ drv = "live" /\ phase[o] = "held" /\ o \notin token
  /\ token' = token \cup {o}
  /\ UNCHANGED <<phase, rc, sq, kern, kcancel, cq, inflight, cflag, hasres, mores, jobs, chan, drv, lost, mon>> /\ last' = <<>>

FireToken(o) ==
  /\ drv = "live" /\ o \in token
  /\ token' = token \ {o}
  /\ IF rc[o] = 0
       THEN UNCHANGED <<cflag, sq, lost, mon, rc, kern, kcancel, cq, inflight, hasres>> /\ last' = <<>>   \* upgrade fails: false
       ELSE IF cflag[o] \/ hasres[o]
         THEN /\ cflag' = [cflag EXCEPT ![o] = TRUE]
              /\ Emit(<<EA("cancelled", o, IF cflag[o] THEN 1 ELSE 0)>>)
              /\ UNCHANGED <<sq, lost, rc, kern, kcancel, cq, inflight, hasres>>
         ELSE \* the upgraded key is a temporary strong reference, dropped when Driver::cancel returns
              LET c == CancelPush(o, [rc EXCEPT ![o] = @ + 1], inflight, hasres) IN
              /\ cflag' = [cflag EXCEPT ![o] = TRUE]
              /\ sq' = c.sq /\ lost' = c.lost /\ kern' = c.kern /\ kcancel' = c.kc /\ cq' = c.cq
              /\ inflight' = c.inf /\ hasres' = c.hr
              /\ rc' = [c.r EXCEPT ![o] = @ - 1]
              /\ Emit(<<EA("cancelled", o, 0), EA("cancelreq", o, c.full)>> \o c.evs \o DecEvents(c.r, o))
  /\ UNCHANGED <<phase, mores, jobs, chan, drv>>

\* the submitter drops its key without cancelling (as in drop_with_inflight_ops)
KeyDrop(o) ==
  /\ phase[o] = "held"
  /\ phase' = [phase EXCEPT ![o] = "gone"]
  /\ rc' = [rc EXCEPT ![o] = @ - 1]
  /\ Emit(<<E("htake", o)>> \o DecEvents(rc, o))
  /\ UNCHANGED <<sq, kern, kcancel, cq, inflight, cflag, hasres, mores, jobs, chan, token, drv, lost>>

\* ---- kernel ----------------------------------------------------------------------------
KFinal(o) ==
  /\ o \in kern /\ drv \in {"live", "drained"}
  /\ Eager => (Kind[o] = "single" /\ o \notin kcancel /\ drv = "live")
  /\ Kind[o] = "zc" => mores[o] = 1           \* the notification follows the send result
  /\ kern' = kern \ {o} /\ kcancel' = kcancel \ {o}
  /\ cq' = Append(cq, [o |-> o, more |-> FALSE])
  /\ UNCHANGED <<phase, rc, sq, inflight, cflag, hasres, mores, jobs, chan, token, drv, lost, mon>> /\ last' = <<>>

KMore(o) ==
  /\ o \in kern /\ Kind[o] \in {"multi", "zc"} /\ mores[o] < (IF Kind[o] = "zc" THEN 1 ELSE MaxMore)
  /\ o \notin kcancel /\ drv \in {"live", "drained"}
  /\ Eager => drv = "live"
  /\ mores' = [mores EXCEPT ![o] = @ + 1]
  /\ cq' = Append(cq, [o |-> o, more |-> TRUE])
  /\ UNCHANGED <<phase, rc, sq, kern, kcancel, inflight, cflag, hasres, jobs, chan, token, drv, lost, mon>> /\ last' = <<>>

\* ---- Driver::drop ------------------------------------------------------------------------
RECURSIVE DrainFold(_, _, _, _)
DrainFold(c, r, inf, evs) ==
  IF c = <<>> THEN <<r, inf, evs>>
  ELSE LET x == Head(c) o == x.o IN
       IF x.more /\ FixDrainMore
         THEN DrainFold(Tail(c), r, inf, Append(evs, EA("dropcqe", o, 1)))
         ELSE \* as written: in_flight.remove + drop(from_raw) for every CQE, MORE or not
              DrainFold(Tail(c), [r EXCEPT ![o] = IF @ > 0 THEN @ - 1 ELSE 0], inf \ {o},
                        Append(evs, EA("dropcqe", o, IF x.more THEN 1 ELSE 0))
                          \o (IF r[o] = 1 THEN FreeEv(o) ELSE <<>>))   \* r[o] = 0: the drop touches freed memory, silently

DropDrain ==
  /\ drv = "live"
  /\ drv' = "drained"
  /\ LET f == DrainFold(cq, rc, inflight, <<E("hdrvdrop", CHOOSE o \in Ops : TRUE)>>) IN
       /\ rc' = f[1] /\ inflight' = f[2] /\ Emit(f[3])
  /\ cq' = <<>>
  /\ UNCHANGED <<phase, sq, kern, kcancel, cflag, hasres, mores, jobs, chan, token, lost>>

DropClose ==
  /\ drv = "drained"
  /\ drv' = "closed"
  /\ kern' = {} /\ kcancel' = {} /\ sq' = <<>> /\ cq' = <<>>
  /\ Emit(<<E("ringclosed", CHOOSE o \in Ops : TRUE)>>)
  /\ UNCHANGED <<phase, rc, inflight, cflag, hasres, mores, jobs, chan, token, lost>>

RECURSIVE FreeFold(_, _, _)
FreeFold(s, r, evs) ==
  IF s = {} THEN <<r, evs>>
  ELSE LET o == CHOOSE x \in s : TRUE IN
       FreeFold(s \ {o}, [r EXCEPT ![o] = IF @ > 0 THEN @ - 1 ELSE 0],
                evs \o <<E("dropfree", o)>> \o (IF r[o] <= 1 THEN FreeEv(o) ELSE <<>>))

DropFree ==
  /\ drv = "closed"
  /\ drv' = "gone"
  /\ LET f == FreeFold(inflight, rc, <<>>) IN rc' = f[1] /\ Emit(f[2])
  /\ inflight' = {}
  /\ UNCHANGED <<phase, sq, kern, kcancel, cq, cflag, hasres, mores, jobs, chan, token, lost>>

\* after the driver is gone the completed channel is dropped with its entries
\* (each entry owns a key reference) once the pool threads are done
DropChan ==
  /\ drv = "gone" /\ jobs = {} /\ chan # <<>>
  /\ LET f == ChanFold(chan, rc, hasres, <<>>) IN
       \* no set_result here: only the references go away
       /\ rc' = f[1]
       /\ Emit(SelectSeq(f[3], LAMBDA e : e.ev \in {"free", "hbufdrop"}))
  /\ chan' = <<>>
  /\ UNCHANGED <<phase, sq, kern, kcancel, cq, inflight, cflag, hasres, mores, jobs, token, drv, lost>>

Finished == /\ drv = "gone" /\ jobs = {} /\ chan = <<>> /\ \A o \in Ops : phase[o] # "held"
End ==
  /\ Finished /\ ~mon.ended
  /\ Emit(<<E("hend", CHOOSE o \in Ops : TRUE)>>)
  /\ UNCHANGED <<phase, rc, sq, kern, kcancel, cq, inflight, cflag, hasres, mores, jobs, chan, token, drv, lost>>

Next ==
  \/ \E o \in Ops : \/ PushRing(o) \/ PushRingOverflow(o) \/ PushBlocking(o) \/ PoolRun(o)
                    \/ Pop(o) \/ Cancel(o) \/ MakeToken(o) \/ FireToken(o) \/ KeyDrop(o)
                    \/ KFinal(o) \/ KMore(o)
  \/ Poll \/ DropDrain \/ DropClose \/ DropFree \/ DropChan \/ End

Spec == Init /\ [][Next]_vars
\* fairness: the runtime keeps polling, pool threads run, and the kernel honours a submitted AsyncCancel
KCancelFinal(o) == o \in kcancel /\ KFinal(o)
FairSpec == Spec /\ WF_vars(Poll) /\ \A o \in Ops : WF_vars(KCancelFinal(o)) /\ WF_vars(PoolRun(o))

\* ---- properties --------------------------------------------------------------------------
Safe == NoViol(mon)
\* bookkeeping invariants of the implementation
InFlightIsLeaked == \A o \in inflight : rc[o] >= 1
TypeOK == /\ Len(sq) <= SQCAP /\ \A o \in Ops : rc[o] \in 0..3

\* C05 (design level): a cancelled interruptible ring operation eventually leaves the kernel
CancelPrompt == \A o \in Ops :
   (drv = "live" /\ cflag[o] /\ Kind[o] # "blocking" /\ (o \in kern \/ o \in SqOps))
      ~> (drv # "live" \/ (o \notin kern /\ o \notin SqOps))
\* C02 (design level): a final completion sitting in the CQ is eventually delivered
HasFinal(o) == \E i \in 1..Len(cq) : cq[i].o = o /\ ~cq[i].more
Delivered == \A o \in Ops : (drv = "live" /\ HasFinal(o)) ~> (hasres[o] \/ rc[o] = 0 \/ drv # "live")
=============================================================================
