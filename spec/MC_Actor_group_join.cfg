\* process group: join and leave racing 2 group sends, two running members of capacity 1
CONSTANTS
  Actors = {1, 2}
  Procs = {1, 2}
  Names = {}
  Caps = {1}
  Kinds = {"cast"}
  Spawners = {}
  Senders = {}
  Stoppers = {}
  Lookers = {}
  GSenders = {1}
  Joiners = {2}
  Prestarted = {1, 2}
  Prejoined = FALSE
  InitialActors = {}
  Replacements = {}
  MsgsPer = 2
  StopsPer = 0
  LooksPer = 0
  JoinsPer = 2
  SupChoices = {FALSE}
  SupProc = 99
  SupCap = 1
  PreMayFail = FALSE
  PostMayFail = FALSE
  StopHooksMayFail = FALSE
  DrainOnClose = FALSE
  ReportBeforeRelease = FALSE
  ReserveIgnoresStarting = FALSE
SPECIFICATION Spec
INVARIANTS TypeOK SerialFifo Conservation HandlingOnlyWhileRunning HookOrder CallSound RegistrySound FailedStartFreesName SupervisionSound GroupExactlyOne GroupLockSound GroupTriesEachOnce
