\* control (DESIGN D): poll_next yields before flushing (expected to FAIL)
CONSTANTS
  Servers = {"A", "B"}
  Bufferings = {TRUE, FALSE}
  MaxPend = 3
  FlushBeforeYield = FALSE
  TransportFlush = TRUE
SPECIFICATION Spec
INVARIANTS NoDeadlock
