CONSTANTS
  w1 = w1
  w2 = w2
  Wakers = {w1,w2}
  Target <- TgtMT
  Tasks = {"t1"}
  QCap = 2
  Mode = "external"
  Driver = "iour"
  Eager = TRUE
  ArmInFlush = TRUE
  WakeAfterPush = TRUE
  Overflow = FALSE
  Hosts = {"tokio","futures"}
  Muts = {"none"}
  Ops = {"o1","o2"}
  Timers = {"s1"}
  Jobs = {}
  Owner <- OwnP3
  AnyTurn = FALSE
  MaxLen = 400
  JobLast = FALSE
  JobAt = {}
  OpAt = {"clear","reset","awake1","awake2"}
  WakeAt = {"flush","clear","reset","awake1","awake2"}
SPECIFICATION GSpec
INVARIANTS EmitInv
