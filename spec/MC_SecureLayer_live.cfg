\* liveness on the fair specification (no state constraint)
CONSTANTS
  Backends = {"native", "rustls"}
  Shapes = {"t13"}
  Bufferings = {TRUE, FALSE}
  Payloads = {1}
  Inits = {"c"}
  Limits = {0, 1}
  U = 2
  MaxPend = 1
  FlushBeforeRead = TRUE
  PendingIsWouldBlock = TRUE
  MidResumes = TRUE
  FinalFlush = TRUE
  CloseFlushes = TRUE
  FixRustlsHsFlush = FALSE
SPECIFICATION FairSpec
PROPERTIES HandshakeCompletes CloseCompletes
