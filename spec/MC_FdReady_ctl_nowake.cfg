CONSTANTS
  RW = {"a"}
  WW = {"b"}
  Kinds = {"ready", "io"}
  TokModes = {"no"}
  MaxPW = 1
  MaxFill = 1
  AllowShut = FALSE
  Eager = FALSE
  Strict = FALSE
  Mut = "nowake"
  Driver = "iour"
SPECIFICATION Spec
INVARIANTS CoveredModuloKnown
