SPECIFICATION GSpec
CONSTANTS
  RawMode = TRUE
  Inputs = {}
  FixStaleTimer = FALSE
  AllowLongCsi = TRUE
  MaxTok = 24
  Mut = ""
  Fam = "wf"
  GenNames <- TokNames
  GenSigma <- SigmaSmall
  MinToks = 1
  MaxToks = 1
  MaxBytes = 0
  Modes = {"free","whole","bytes","split2"}
  FreeMax = 6
  TmoPolicy = "both"
INVARIANTS
  Emit
  GNoPanic
  GCut
