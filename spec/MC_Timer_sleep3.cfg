\* quick: exhaustive safety, three sleeps (equal / past / near / far deadlines)
CONSTANTS
  N = 3
  Deadlines = {0, 1, 2}
  Periods = {1}
  Kinds = {"sleep"}
  NW = 1
  MaxNow = 3
  MaxGen = 3
  Mut = "none"
SPECIFICATION Spec
INVARIANTS TypeOK WheelExact WakerOwner NeverEarly AlwaysFires ReadyWhenDue MinTimeoutCorrect IdleSleepBound TimeoutExact IntervalAligned
