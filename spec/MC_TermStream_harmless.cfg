SPECIFICATION FairSpec
CONSTANTS
  MaxFeed = 2
  MaxWinch = 0
  MaxDrop = 0
  Eager = FALSE
  Mut = "no_timer_poll"
VIEW View
PROPERTIES
  EscResolves
