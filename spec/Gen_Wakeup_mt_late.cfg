CONSTANTS
  w1 = w1
  w2 = w2
  Wakers = {w1, w2}
  Target <- TgtMT
  Tasks = {"t1"}
  QCap = 1
  Mode = "block_on"
  Driver = "iour"
  Eager = TRUE
  ArmInFlush = FALSE
  WakeAfterPush = TRUE
  Overflow = FALSE
  MaxLen = 80
  LateRounds = 1
  W2Window = {}
SPECIFICATION GSpec
INVARIANTS EmitInv
