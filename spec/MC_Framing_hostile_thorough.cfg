\* thorough, hostile peers: four-letter alphabet up to header + 2 for lfl 1..4 and the delimiters,
\* three-letter alphabet up to header + 1 for lfl 5..8; one read error
CONSTANTS
  FixExtractOverflow = TRUE
  FixFramerError = TRUE
  Lfls = {}
  HostLfls = {1, 2, 3, 4, 5, 6, 7, 8}
  Endians = {TRUE, FALSE}
  DelimKinds = {}
  HostDelimKinds = {"nl", "c1", "R3", "a12", "a11"}
  WithNoop = TRUE
  WithLim = TRUE
  Codecs = {"bytes"}
  PayAlpha = {}
  MaxPay = 0
  MaxFrames = 0
  BigPays = {}
  WideFrom = 5
  WideMaxPay = 0
  WideMaxFrames = 0
  WideHostAlpha = {0, 1, 255}
  WideHostExtra = 1
  Modes = {"hostlazy"}
  HostAlpha = {0, 1, 2, 255}
  HostExtra = 2
  ChunkMin = 1
  ChunkMax = 16
  WLimits = {16}
  ZeroReads = 0
  MaxErr = 0
  AfterDone = 0
SPECIFICATION Spec
INVARIANTS InRange PosInside NoPanic ErrorOnlyWhenRefused MeasureNonNeg
PROPERTIES Progress
