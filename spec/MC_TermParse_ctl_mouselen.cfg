SPECIFICATION Spec
CONSTANTS
  RawMode = TRUE
  Inputs <- InputsCtl
  FixStaleTimer = FALSE
  AllowLongCsi = TRUE
  MaxTok = 24
  Mut = "mouse_len"
INVARIANTS
  NoPanic
PROPERTIES
  Progress
