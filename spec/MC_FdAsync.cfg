CONSTANTS
  RW = {"a", "c"}
  WW = {"b"}
  MaxPW = 1
  MaxFill = 1
  AllowShut = TRUE
  Eager = FALSE
  Strict = FALSE
  Mut = "none"
SPECIFICATION FairSpec
INVARIANTS TypeOK NoErr ExactlyOnce Covered
PROPERTIES Woken Served
