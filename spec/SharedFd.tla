------------------------------ MODULE SharedFd ------------------------------
(* C06, part 1: the SharedFd clone / drop / take protocol of compio-driver/src/fd.rs.

   Implementation shaped: one action per atomic step of the code (the names of the
   hook sites "fd.<site>" are given with every action). The same actions describe

     Variant = "unsync"  feature sync off: Rc / Cell / RefCell, one thread. Every method
                         (Drop::drop, one poll of the take() future, Clone::clone) runs to
                         its end before anything else happens (predicate Quiet).
     Variant = "sync"    feature sync on: Arc / AtomicBool / AtomicWaker. Drops and polls of
                         different threads interleave step by step.
     Variant = "fixed"   the repaired release protocol (decrement first, then wake through a
                         cell that outlives the descriptor), see notes/C06.md. Not the code:
                         it is here to show that the proposed repair satisfies the liveness
                         property the code violates.

   Holders of the descriptor: the closer (the handle on which close() / take() is called),
   other user handles and operations in flight (Ops), which hold a clone from start to finish.

   Named deviations (genuine defects, reproduced on the real crate by the harness):
     SilentRelease   REPAIRED in /repo (switch SilentRelease = TRUE is the old code, kept for the
                     control configs): the Shared<Inner> held by a take() future was released
                     WITHOUT the notification of Drop for SharedFd (a second take() returning
                     None, a dropped close() future): a closer waiting for that last reference
                     was never woken. Both variants. Now the future holds a SharedFd and gives
                     it up through Drop (sites fd.drop.check, wake, dec).
     ForgetsHandle   REPAIRED in /repo (switch ForgetsHandle = TRUE is the old code): File::close /
                     Socket::close kept the handle in a ManuallyDrop inside the future: dropping
                     the future before its first poll forgot the handle, the descriptor was never
                     closed. Now the unpolled future drops the handle like any other drop.
     RegisterOnce    NOT in the code - a control switch (RegisterOnce = TRUE): take() registers its
                     waker only in the first poll that finds the descriptor shared. When the
                     pending future is polled again with ANOTHER waker (moved to another task,
                     select! / timeout then awaited elsewhere) the last drop wakes the stale
                     waker and the task that now owns the future sleeps for ever. The code
                     registers in every poll (WakerSlot / AtomicWaker::register replaces the
                     stored waker unless will_wake), which is what the model checks with the
                     waker identity wk / slot.
     DropRace        OPEN, known finding (sync only): Drop reads strong_count and waits, wakes,
                     and only then the count is decremented: the closer re-polls before the
                     decrement, or two droppers both read 3, or the dropper read waits before
                     the swap. Variant "fixed" is the protocol that repairs it. *)
EXTENDS Naturals, FiniteSets, Sequences, TLC

CONSTANTS
  Handles,      \* the other holders, a subset of the names in Universe
  Ops,          \* the holders that are operations in flight (subset of Handles)
  InitLive,     \* holders that exist in the initial state (subset of Handles)
  Variant,      \* "unsync" | "sync" | "fixed"
  AllowClone,   \* new holders are cloned from existing ones
  AllowTake2,   \* another user handle may call take() as well (second take)
  AllowCancel,  \* the closer's future may be dropped while pending
  AllowSpurious,\* the executor may re-poll the closer without a wake
  FileLayer,    \* close() of compio-fs / compio-net rather than the raw SharedFd::take()
  SilentRelease,\* TRUE = code before the repair: a take() future releases its reference silently
  ForgetsHandle,\* TRUE = code before the repair: the unpolled close() future forgets the handle
  MaxMigrate,   \* how often the pending close future may be polled with ANOTHER waker (task migration)
  RegisterOnce  \* control only: TRUE = the waker is registered in the first pending poll only

Universe == <<"h1", "h2", "h3", "o1", "o2">>
Idx(h) == CHOOSE i \in 1..Len(Universe) : Universe[i] = h

ASSUME /\ Handles \subseteq {Universe[i] : i \in 1..Len(Universe)}
       /\ Ops \subseteq Handles /\ InitLive \subseteq Handles
       /\ Variant \in {"unsync", "sync", "fixed"}

VARIABLES
  count,    \* strong count of Shared<Inner>
  waits,    \* Inner.waits
  slot,     \* the waker stored in Inner.waker: 0 = none, 1..2 = identity of the task's waker
  woken,    \* the set of wakers (tasks) that were woken and have not polled since
  wk,       \* the waker given to the closer's latest poll (the task that owns the future now)
  registered, \* take() has registered a waker at least once (only RegisterOnce looks at it)
  nmig,     \* number of migrations so far
  hs,       \* per holder: "none" "live" "wake" "dec" "t2" "t2d" "fchk" "gone"
  pcC,      \* closer: "idle" "u1" "reg" "u2" "pending" "done" "dchk" "dwake" "ddec" "cancelled" "forgot"
  takers,   \* ghost: holders that called take() themselves (labels the generated programs)
  closed,   \* how often the owned descriptor T left the Shared (close or hand-out)
  silentLast \* ghost: the last reference but the closer's was released silently
vars == <<count, waits, slot, woken, wk, registered, nmig, hs, pcC, takers, closed, silentLast>>
cvars == <<wk, registered, nmig>>
Wakers == 1..2

HState == {"none", "live", "wake", "dec", "t2", "t2d", "fchk", "gone"}
CState == {"idle", "u1", "reg", "u2", "pending", "done", "dchk", "dwake", "ddec", "cancelled", "forgot"}

TypeOK ==
  /\ count \in 0..(Cardinality(Handles) + 1)
  /\ waits \in BOOLEAN /\ slot \in {0} \cup Wakers /\ woken \subseteq Wakers /\ silentLast \in BOOLEAN
  /\ wk \in Wakers /\ registered \in BOOLEAN /\ nmig \in 0..MaxMigrate
  /\ hs \in [Handles -> HState]
  /\ pcC \in CState /\ takers \subseteq Handles
  /\ closed \in 0..2

Init ==
  /\ count = Cardinality(InitLive) + 1
  /\ waits = FALSE /\ slot = 0 /\ woken = {} /\ silentLast = FALSE
  /\ wk = 1 /\ registered = FALSE /\ nmig = 0
  /\ hs = [h \in Handles |-> IF h \in InitLive THEN "live" ELSE "none"]
  /\ pcC = "idle" /\ takers = {}
  /\ closed = 0

-----------------------------------------------------------------------------
(* who is in the middle of a method *)
MidH(h) == hs[h] \in {"wake", "dec", "t2", "t2d", "fchk"}
MidC == pcC \in {"u1", "reg", "u2", "dchk", "dwake", "ddec"}
(* unsync: a method runs to its end before any other holder acts *)
Quiet(x) == Variant = "unsync" =>
              /\ \A g \in Handles \ {x} : ~MidH(g)
              /\ (x # "C" => ~MidC)

Holds(h) == hs[h] \in {"live", "wake", "dec", "t2", "t2d"}       \* contributes to count
Released(h) == hs[h] \in {"none", "gone", "fchk"}
CloserHolds == pcC \in {"idle", "u1", "reg", "u2", "pending", "dchk", "dwake", "ddec", "forgot"}
OpsUsing == {o \in Ops : hs[o] = "live"}

Wake == /\ woken' = (IF slot # 0 THEN woken \cup {slot} ELSE woken)   \* WakerSlot::wake = take + wake:
        /\ slot' = 0                                                   \* the task whose waker was stored
Unref == /\ count' = count - 1
         /\ closed' = IF count = 1 THEN closed + 1 ELSE closed  \* last owner drops Inner

(* the lowest-numbered unused name of a kind: programs are generated in canonical form *)
Fresh(S) == {h \in S : /\ hs[h] = "none"
                       /\ \A g \in S : hs[g] = "none" => Idx(h) <= Idx(g)}

-----------------------------------------------------------------------------
(* Clone::clone (one fetch_add): a user handle or an operation takes a reference *)
Clone(src, h) ==
  /\ AllowClone /\ Quiet(h)
  /\ \/ src = "C" /\ pcC = "idle"
     \/ src \in Handles \ Ops /\ hs[src] = "live"
  /\ h \in Fresh(IF h \in Ops THEN Ops ELSE Handles \ Ops)
  /\ hs' = [hs EXCEPT ![h] = "live"]
  /\ count' = count + 1
  /\ UNCHANGED <<waits, slot, woken, pcC, takers, closed, silentLast>>
  /\ UNCHANGED cvars

(* Drop for SharedFd, site fd.drop.check: strong_count == 2 && waits.
   Also the tail of a take() that resolved to None (repaired code: the future drops its SharedFd) *)
DropCheck(h) ==
  /\ Variant # "fixed" /\ Quiet(h)
  /\ hs[h] \in {"live", "t2d"}
  /\ hs' = [hs EXCEPT ![h] = IF count = 2 /\ waits THEN "wake" ELSE "dec"]
  /\ UNCHANGED <<count, waits, slot, woken, pcC, takers, closed, silentLast>>
  /\ UNCHANGED cvars

(* site fd.drop.wake: self.0.waker.wake() *)
DropWake(h) ==
  /\ hs[h] = "wake" /\ Quiet(h)
  /\ Wake
  /\ hs' = [hs EXCEPT ![h] = "dec"]
  /\ UNCHANGED <<count, waits, pcC, takers, closed, silentLast>>
  /\ UNCHANGED cvars

(* site fd.drop.dec: end of the Drop body, the field Shared<Inner> is dropped *)
DropDec(h) ==
  /\ hs[h] = "dec" /\ Quiet(h)
  /\ Unref
  /\ hs' = [hs EXCEPT ![h] = "gone"]
  /\ silentLast' = FALSE
  /\ UNCHANGED <<waits, slot, woken, pcC, takers>>
  /\ UNCHANGED cvars

(* second take() by another handle, site fd.take.swap: waits is already set, the future
   resolves to None ... *)
T2Swap(h) ==
  /\ AllowTake2 /\ Quiet(h)
  /\ h \notin Ops /\ hs[h] = "live" /\ waits
  /\ hs' = [hs EXCEPT ![h] = "t2"]
  /\ takers' = takers \cup {h}
  /\ UNCHANGED <<count, waits, slot, woken, pcC, closed, silentLast>>
  /\ UNCHANGED cvars

(* ... site fd.take.none. Repaired code: nothing happens here, the SharedFd captured by the
   future is dropped next (DropCheck ...). In the fixed protocol the release notifies. *)
T2None(h) ==
  /\ ~SilentRelease /\ Variant # "fixed"
  /\ hs[h] = "t2" /\ Quiet(h)
  /\ hs' = [hs EXCEPT ![h] = "t2d"]
  /\ UNCHANGED <<count, waits, slot, woken, pcC, takers, closed, silentLast>>
  /\ UNCHANGED cvars

(* Old code (deviation SilentRelease): the Shared<Inner> captured by the future is dropped
   as a plain Rc/Arc, no wake. Also the release step of the fixed protocol (which notifies). *)
T2Release(h) ==
  /\ SilentRelease \/ Variant = "fixed"
  /\ hs[h] = "t2" /\ Quiet(h)
  /\ Unref
  /\ hs' = [hs EXCEPT ![h] = IF Variant = "fixed" /\ count > 1 THEN "fchk" ELSE "gone"]
  /\ silentLast' = (Variant # "fixed" /\ count = 2)
  /\ UNCHANGED <<waits, slot, woken, pcC, takers>>
  /\ UNCHANGED cvars

(* fixed protocol: decrement first (the notification cell outlives the descriptor) ... *)
FDropDec(h) ==
  /\ Variant = "fixed"
  /\ hs[h] = "live"
  /\ Unref
  /\ hs' = [hs EXCEPT ![h] = IF count > 1 THEN "fchk" ELSE "gone"]
  /\ silentLast' = FALSE
  /\ UNCHANGED <<waits, slot, woken, pcC, takers>>
  /\ UNCHANGED cvars

(* ... then read waits and wake *)
FDropNotify(h) ==
  /\ hs[h] = "fchk"
  /\ (IF waits THEN Wake ELSE UNCHANGED <<woken, slot>>)
  /\ hs' = [hs EXCEPT ![h] = "gone"]
  /\ UNCHANGED <<count, waits, pcC, takers, closed, silentLast>>
  /\ UNCHANGED cvars

-----------------------------------------------------------------------------
(* the closer: first poll of take(), site fd.take.swap: waits.swap(true) *)
CSwap ==
  /\ pcC = "idle" /\ Quiet("C")
  /\ waits' = TRUE
  /\ pcC' = "u1"
  /\ UNCHANGED <<count, slot, woken, hs, takers, closed, silentLast>>
  /\ UNCHANGED cvars

TryUnwrap(next) ==
  IF count = 1 THEN /\ count' = 0 /\ closed' = closed + 1 /\ pcC' = "done"
               ELSE /\ pcC' = next /\ UNCHANGED <<count, closed>>

(* site fd.take.unwrap1: Shared::try_unwrap (compare_exchange 1 -> 0) *)
CUnwrap1 ==
  /\ pcC = "u1" /\ Quiet("C")
  /\ TryUnwrap("reg")
  /\ UNCHANGED <<waits, slot, woken, hs, takers, silentLast>>
  /\ UNCHANGED cvars

(* site fd.take.register: WakerSlot / AtomicWaker::register stores the waker of THIS poll
   (it replaces a different one). Control RegisterOnce: only the first time. *)
CRegister ==
  /\ pcC = "reg" /\ Quiet("C")
  /\ slot' = IF RegisterOnce /\ registered THEN slot ELSE wk
  /\ registered' = TRUE
  /\ pcC' = "u2"
  /\ UNCHANGED <<count, waits, woken, wk, nmig, hs, takers, closed, silentLast>>

(* site fd.take.unwrap2; failing means Poll::Pending *)
CUnwrap2 ==
  /\ pcC = "u2" /\ Quiet("C")
  /\ TryUnwrap("pending")
  /\ UNCHANGED <<waits, slot, woken, hs, takers, silentLast>>
  /\ UNCHANGED cvars

(* the executor polls the woken task that owns the future again *)
CRepoll ==
  /\ pcC = "pending" /\ wk \in woken /\ Quiet("C")
  /\ woken' = woken \ {wk}
  /\ pcC' = "u1"
  /\ UNCHANGED <<count, waits, slot, cvars, hs, takers, closed, silentLast>>

(* a poll nobody asked for (select!, join!, a busy executor), same task; never required to happen *)
CSpurious ==
  /\ AllowSpurious
  /\ pcC = "pending" /\ wk \notin woken /\ Quiet("C")
  /\ pcC' = "u1"
  /\ UNCHANGED <<count, waits, slot, woken, cvars, hs, takers, closed, silentLast>>

(* the pending future has moved to another task (first polled under a timeout / select in task A,
   then awaited in task B): the next poll comes with the other waker; never required to happen *)
CMigrate ==
  /\ nmig < MaxMigrate
  /\ pcC = "pending" /\ Quiet("C")
  /\ wk' = 3 - wk /\ nmig' = nmig + 1
  /\ woken' = woken \ {3 - wk}
  /\ pcC' = "u1"
  /\ UNCHANGED <<count, waits, slot, registered, hs, takers, closed, silentLast>>

(* the closer's reference is given up without closing. Old code and fixed protocol: one silent
   decrement (nobody waits for the closer itself). Repaired code: the SharedFd inside the future
   is dropped: CDropCheck / CDropWake / CDropDec (sites fd.drop.check, wake, dec). *)
GiveUp ==
  IF SilentRelease \/ Variant = "fixed"
    THEN /\ Unref /\ pcC' = "cancelled"
    ELSE /\ pcC' = "dchk" /\ UNCHANGED <<count, closed>>

(* the pending future is dropped *)
CCancel ==
  /\ AllowCancel
  /\ pcC = "pending" /\ Quiet("C")
  /\ GiveUp
  /\ UNCHANGED <<waits, slot, woken, hs, takers, silentLast>>
  /\ UNCHANGED cvars

(* the future returned by close() / take() is dropped before its first poll.
   Old file layer (deviation ForgetsHandle): the ManuallyDrop<File> inside is never dropped. *)
CDropUnpolled ==
  /\ AllowCancel
  /\ pcC = "idle" /\ Quiet("C")
  /\ (IF FileLayer /\ ForgetsHandle THEN /\ pcC' = "forgot" /\ UNCHANGED <<count, closed>>
                                     ELSE GiveUp)
  /\ UNCHANGED <<waits, slot, woken, hs, takers, silentLast>>
  /\ UNCHANGED cvars

CDropCheck ==
  /\ pcC = "dchk" /\ Quiet("C")
  /\ pcC' = IF count = 2 /\ waits THEN "dwake" ELSE "ddec"
  /\ UNCHANGED <<count, waits, slot, woken, hs, takers, closed, silentLast>>
  /\ UNCHANGED cvars

CDropWake ==
  /\ pcC = "dwake" /\ Quiet("C")
  /\ Wake
  /\ pcC' = "ddec"
  /\ UNCHANGED <<count, waits, hs, takers, closed, silentLast>>
  /\ UNCHANGED cvars

CDropDec ==
  /\ pcC = "ddec" /\ Quiet("C")
  /\ Unref
  /\ pcC' = "cancelled"
  /\ UNCHANGED <<waits, slot, woken, hs, takers, silentLast>>
  /\ UNCHANGED cvars

-----------------------------------------------------------------------------
HNext(h) == \/ DropCheck(h) \/ DropWake(h) \/ DropDec(h)
            \/ T2Swap(h) \/ T2None(h) \/ T2Release(h)
            \/ FDropDec(h) \/ FDropNotify(h)
            \/ \E src \in (Handles \ Ops) \cup {"C"} : Clone(src, h)
CNext == CSwap \/ CUnwrap1 \/ CRegister \/ CUnwrap2 \/ CRepoll \/ CSpurious \/ CMigrate \/ CCancel
         \/ CDropUnpolled \/ CDropCheck \/ CDropWake \/ CDropDec
Next == CNext \/ \E h \in Handles : HNext(h)

Spec == Init /\ [][Next]_vars

(* a method that has started finishes; the executor polls a woken task; nothing forces the
   user to drop, clone, close, cancel or poll spuriously *)
Fairness ==
  /\ \A h \in Handles : WF_vars(DropWake(h) \/ DropDec(h) \/ T2None(h) \/ T2Release(h) \/ FDropNotify(h)
                                  \/ (hs[h] = "t2d" /\ DropCheck(h)))
  /\ WF_vars(CUnwrap1 \/ CRegister \/ CUnwrap2 \/ CRepoll \/ CDropCheck \/ CDropWake \/ CDropDec)
FairSpec == Spec /\ Fairness

-----------------------------------------------------------------------------
(* the structural link between the counter and the holders *)
CountOK == count = Cardinality({h \in Handles : Holds(h)}) + (IF CloserHolds THEN 1 ELSE 0)

ClosedOnce == closed <= 1
(* closed means nobody else has it, in particular no operation in flight *)
ClosedMeansAlone == closed >= 1 => /\ \A h \in Handles : Released(h)
                                   /\ OpsUsing = {}
(* close() resolves only when it has really taken the descriptor *)
DoneMeansClosed == pcC = "done" => closed = 1 /\ count = 0
(* never leaked: when the last reference is gone the descriptor has been closed *)
NoLeak == (count = 0) <=> (closed = 1)
(* the forgotten handle of the file layer is the only way to keep a reference for ever *)
Forgotten == pcC = "forgot"

Safe == TypeOK /\ CountOK /\ ClosedOnce /\ ClosedMeansAlone /\ DoneMeansClosed /\ NoLeak

(* everybody else has let go and close() has been called *)
AllReleased == pcC \notin {"idle", "forgot"} /\ \A h \in Handles : hs[h] \in {"none", "gone", "fchk"}
Finished == pcC \in {"done", "cancelled"}
(* the task that owns the future (waker of the latest poll) has not been woken *)
Stranded == pcC = "pending" /\ wk \notin woken /\ \A h \in Handles : hs[h] \in {"none", "gone"}

(* the liveness clause of the property: CRepoll is the only fair way on, and it needs the waker
   of the LATEST poll to have been woken *)
Live == AllReleased ~> Finished
(* safety form for the single-threaded code: whenever the closer waits, the stored waker is the
   one of its latest poll (or that task has already been woken) *)
SlotIsLatest == (pcC = "pending" /\ Variant = "unsync" /\ ~(\E h \in Handles : MidH(h))) =>
                  (slot = wk \/ wk \in woken)
(* the same modulo the recorded deviation SilentRelease: in the unsync variant every strand
   is caused by a silent last release *)
LiveModuloSilent == AllReleased ~> (Finished \/ (Stranded /\ silentLast))
(* unsync safety form of the same statement: a quiescent closer that is alone is woken or done *)
NoStrandUnlessSilent == (Stranded /\ count = 1 /\ ~MidC) => silentLast
(* repaired single-threaded code: a closer that is alone is never left waiting without a wake-up *)
NoStrand == ~(Stranded /\ count = 1 /\ ~MidC)

(* leak freedom as liveness: once every holder is gone the descriptor is closed
   (violated exactly by the deviation ForgetsHandle of the file layer) *)
HandlesGone == /\ pcC \in {"done", "cancelled", "forgot"}
               /\ \A h \in Handles : hs[h] \in {"none", "gone", "fchk"}
NoLeakLive == HandlesGone ~> (closed = 1)
NeverForgotten == [](pcC # "forgot")
=============================================================================
