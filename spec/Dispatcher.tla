----------------------------- MODULE Dispatcher -----------------------------
(* C18 - compio-dispatcher: "the dispatcher starts every accepted task exactly once".

   Implementation-shaped model of compio-dispatcher/src/lib.rs (pinned tree):

     new_impl      unbounded flume MPMC channel of boxed closures; every worker thread owns a
                   clone of the receiver and runs
                       Runtime::builder()...build().expect(..).block_on_at(async {
                           while let Ok(f) = receiver.recv_async().await {
                               let task = f.spawn(rt);               (WorkerRecv: pop + spawn,
                               if concurrent { task.detach() }        one poll of the main future)
                               else { task.await.ok(); }             (WorkerAwaitDone)
                           }                                          (WorkerLoopEnd)
                       })                                             (WorkerLeave: last tick, future dropped)
                   then the Runtime is dropped (executor.clear() drops every unfinished task)
                   and the thread ends (WorkerExit).
     dispatch      Concrete::new (oneshot pair) / sender.send / Ok(rx) or Err(DispatchError(f))
     dispatch_blocking   the same closure type handed to the shared AsyncifyPool
     join          drop(sender) (JoinCall); thread::spawn(joiner) (JoinSpawnOnThread; before the
                   repair d1f1c64: pool.dispatch(joiner), JoinSpawnOnPool, with the thread as
                   fallback); the joiner joins the worker threads in order (JoinThread) and sends
                   the results; join resumes a worker panic (JoinRet).

   Granularity: one action per step that another thread can observe.  Steps of one thread with
   nothing observable in between are one action (pop + spawn + detach; body return +
   callback.send; Runtime drop + thread end).

   The spawned future is   async { let res = func().await; callback.send(res).ok(); }
   so a body panic (caught by the executor) drops the oneshot sender: the receiver sees Canceled.
   A worker THREAD panics only outside task polls: Runtime build failure (WorkerBootPanic) or a
   failing driver poll inside block_on (WorkerPollPanic, compio-runtime/src/lib.rs poll_with).

   The mode names are the code's: cfg.concurrent = TRUE (detach) | FALSE ("sequential": await).

   Trusted, not modelled below their contract: flume (FIFO, every message received once,
   send fails iff every receiver is gone, the queue is freed with the last handle), the
   executor (a spawned task is polled on its own thread, C04), futures oneshot, the pool's
   internal protocol (C17; here only "a slot is occupied from accept to completion").

   The caller's side of the oneshot: DropReceiver(i) - the receiver of an accepted closure may be
   dropped at any time (fire-and-forget dispatch).  No action of the code reads rdrop: a closure
   is started whether or not anybody still listens (ExactlyOnce, AllStartedAtJoin, SeqAllFinished,
   EventuallyStarted hold with ReceiverDrops = TRUE).  Control: SkipIfReceiverGone = TRUE models
   the realistic "optimisation"  if callback.is_canceled() { return }  at the head of the spawned
   future (SkipStart); MC_Dispatcher_skip.cfg must violate AllStartedAtJoin.

   Repaired deviation, kept as a switch (notes/C18.md, /repo d1f1c64):  JoinerOnPool = TRUE is the
   pinned behaviour - join parks the joiner closure on a thread of the SAME blocking pool the
   worker runtimes use (JoinerHoldsPoolSlot); a task that needs the pool while no slot is left
   spins in Driver::push_blocking, the worker never leaves, join never returns.  Permanent iff the
   limit is 1: MC_Dispatcher_pool1.cfg (JoinerOnPool = TRUE) must still produce the liveness
   counterexample.  Every other config has JoinerOnPool = FALSE: the joiner has its own thread. *)
EXTENDS Integers, Sequences, FiniteSets, TLC

CONSTANTS MaxTasks, MaxWorkers, MaxSenders,
          NWChoices,      \* worker counts explored (subset of 1..MaxWorkers)
          ModeChoices,    \* subset of BOOLEAN, values of DispatcherBuilder::concurrent
          FaultChoices,   \* subset of {"none","boot","poll"}: may a worker thread panic, and where
          PoolChoices,    \* thread_pool_limit values (slots of the shared AsyncifyPool)
          KindChoices,    \* subset of {"async","blocking"}: dispatch / dispatch_blocking
          BodyPanics,     \* BOOLEAN: a task body may panic
          BodyUsesPool,   \* BOOLEAN: an async body may run one blocking op on the shared pool
          JoinerOnPool,   \* BOOLEAN: TRUE = pinned tree (joiner dispatched to the pool), FALSE = repaired
          ReceiverDrops,  \* BOOLEAN: the caller may drop the oneshot receiver of an accepted closure
          SkipIfReceiverGone \* BOOLEAN: FALSE = the code; TRUE = control: "nobody wants the result, do
                          \* not start it" (must violate the property, MC_Dispatcher_skip.cfg)

Tasks   == 1..MaxTasks
Workers == 1..MaxWorkers
Senders == 1..MaxSenders
Pool    == 0                      \* owner of a dispatch_blocking closure
Nobody  == -1                     \* not (or no longer) on any thread

VARIABLES
  cfg,      \* [nw, concurrent, fault, pool]  fixed after Init
  q,        \* flume queue: Seq(Tasks)
  txAlive,  \* Dispatcher.sender not yet dropped
  rx,       \* workers whose receiver clone is alive
  st,       \* closure life cycle, see StSet
  kind,     \* "none" | "async" | "blocking"
  owner,    \* thread the closure lives on: the worker that popped it | Pool | Nobody (before, and
            \* again once it completed or was dropped: what ran where is then history)
  res,      \* oneshot: "open" | "value" | "closed" (sender dropped without a value)
  bop,      \* blocking op of an async body: "no" | "want" (spinning in push_blocking) | "has" | "used"
  nstart,   \* ghost: number of times the closure was called
  rdrop,    \* the caller dropped its receiver while the closure was still on its way (fire and
            \* forget); forgotten once the closure is complete / dropped: nothing reads it then
  wpc,      \* worker pc, see WpcSet
  cur,      \* closure the worker holds / awaits (0 = none)
  wpanic,   \* the worker thread ended by a panic
  spc,      \* dispatching thread: "idle" | "calling" | "returning"
  scur, sres,
  jpc,      \* "idle" | "called" | "joining" | "joined" | "returned"
  jidx,     \* next thread the joiner joins
  jvia,     \* "none" | "pool" | "thread"
  jres,     \* "none" | "ok" | "panic"
  poolBusy  \* occupied pool slots

vars == <<cfg, q, txAlive, rx, st, kind, owner, res, bop, nstart, rdrop, wpc, cur, wpanic,
          spc, scur, sres, jpc, jidx, jvia, jres, poolBusy>>

StSet  == {"new",       \* not dispatched
           "inflight",  \* inside dispatch / dispatch_blocking
           "returned",  \* rejected: handed back in DispatchError
           "queued",    \* in the channel
           "spawned",   \* in the worker's executor, func not yet called
           "pooled",    \* accepted by the blocking pool, not yet called
           "running",   \* func called
           "done",      \* body returned, callback.send executed (same poll)
           "panicked",  \* body panicked, future and oneshot sender dropped
           "dropped",   \* closure / future dropped unfinished (runtime drop, queue freed)
           "skipped"}   \* control only: completed without func ever being called
WpcSet == {"absent", "boot", "recv", "await", "fin", "left", "exited"}

\* ---------------------------------------------------------------------------
Configs == [nw: NWChoices, concurrent: ModeChoices, fault: FaultChoices, pool: PoolChoices]

Init0(c) ==
  [cfg |-> c, q |-> <<>>, txAlive |-> TRUE, rx |-> 1..c.nw,
   st |-> [i \in Tasks |-> "new"], kind |-> [i \in Tasks |-> "none"],
   owner |-> [i \in Tasks |-> Nobody], res |-> [i \in Tasks |-> "open"],
   bop |-> [i \in Tasks |-> "no"],
   nstart |-> [i \in Tasks |-> 0], rdrop |-> [i \in Tasks |-> FALSE],
   wpc |-> [w \in Workers |-> IF w <= c.nw THEN "boot" ELSE "absent"],
   cur |-> [w \in Workers |-> 0], wpanic |-> [w \in Workers |-> FALSE],
   spc |-> [s \in Senders |-> "idle"], scur |-> [s \in Senders |-> 0],
   sres |-> [s \in Senders |-> "none"],
   jpc |-> "idle", jidx |-> 0, jvia |-> "none", jres |-> "none", poolBusy |-> 0]

Init == \E c \in Configs :
  LET z == Init0(c) IN
  /\ cfg = z.cfg /\ q = z.q /\ txAlive = z.txAlive /\ rx = z.rx /\ st = z.st /\ kind = z.kind
  /\ owner = z.owner /\ res = z.res /\ bop = z.bop /\ nstart = z.nstart /\ rdrop = z.rdrop
  /\ wpc = z.wpc /\ cur = z.cur /\ wpanic = z.wpanic /\ spc = z.spc /\ scur = z.scur
  /\ sres = z.sres /\ jpc = z.jpc /\ jidx = z.jidx /\ jvia = z.jvia /\ jres = z.jres
  /\ poolBusy = z.poolBusy

\* ---------------------------------------------------------------------------
QSet == {q[k] : k \in 1..Len(q)}

\* The worker thread is stuck in the middle of a task poll (nothing else happens on that
\* thread): spinning in Driver::push_blocking.
Busy(w) == \E i \in Tasks : owner[i] = w /\ bop[i] = "want"

\* Tasks are polled by the ticks of block_on: while the main future is suspended in
\* recv_async / task.await, and in the last tick after the loop ended.
InLoop(w) == wpc[w] \in {"recv", "await", "fin"}

\* flume frees the queue with the last handle; the closures still inside are dropped and with
\* them their oneshot senders.  tx2 / rx2 are the handles after the step.
Freed(tx2, rx2) == ~tx2 /\ rx2 = {}
StAfterHandles(tx2, rx2) ==
  [i \in Tasks |-> IF Freed(tx2, rx2) /\ i \in QSet THEN "dropped" ELSE st[i]]
ResAfterHandles(tx2, rx2) ==
  [i \in Tasks |-> IF Freed(tx2, rx2) /\ i \in QSet THEN "closed" ELSE res[i]]
QAfterHandles(tx2, rx2) == IF Freed(tx2, rx2) THEN <<>> ELSE q

\* ---------------------------------------------------------------------------
\* dispatching threads
\* ---------------------------------------------------------------------------
\* Dispatcher::dispatch / dispatch_blocking take &self and join takes self: a call cannot start
\* once join was called (ownership).
DispatchCall(s, i, k) ==
  /\ spc[s] = "idle" /\ st[i] = "new" /\ jpc = "idle" /\ k \in {"async", "blocking"}
  /\ spc' = [spc EXCEPT ![s] = "calling"]
  /\ scur' = [scur EXCEPT ![s] = i]
  /\ st' = [st EXCEPT ![i] = "inflight"]
  /\ kind' = [kind EXCEPT ![i] = k]
  /\ UNCHANGED <<rdrop, cfg, q, txAlive, rx, owner, res, bop, nstart, wpc, cur, wpanic, sres,
                 jpc, jidx, jvia, jres, poolBusy>>

\* self.sender.send(..): linearization point of dispatch. Err iff every receiver is gone.
DispatchSend(s) ==
  LET i == scur[s] IN
  /\ spc[s] = "calling" /\ kind[i] = "async"
  /\ spc' = [spc EXCEPT ![s] = "returning"]
  /\ IF rx # {}
       THEN /\ q' = Append(q, i)
            /\ st' = [st EXCEPT ![i] = "queued"]
            /\ sres' = [sres EXCEPT ![s] = "accepted"]
       ELSE /\ q' = q
            /\ st' = [st EXCEPT ![i] = "returned"]      \* closure recovered from SendError
            /\ sres' = [sres EXCEPT ![s] = "rejected"]
  /\ UNCHANGED <<rdrop, cfg, txAlive, rx, kind, owner, res, bop, nstart, wpc, cur, wpanic, scur,
                 jpc, jidx, jvia, jres, poolBusy>>

\* self.pool.dispatch(concrete): accepted when a slot is free; a rejection hands the closure back.
\* (A rejection with a free slot is possible while a pool thread is between two jobs: C17.)
DispatchPoolAccept(s) ==
  LET i == scur[s] IN
  /\ spc[s] = "calling" /\ kind[i] = "blocking"
  /\ poolBusy < cfg.pool
  /\ poolBusy' = poolBusy + 1
  /\ spc' = [spc EXCEPT ![s] = "returning"]
  /\ st' = [st EXCEPT ![i] = "pooled"]
  /\ owner' = [owner EXCEPT ![i] = Pool]
  /\ sres' = [sres EXCEPT ![s] = "accepted"]
  /\ UNCHANGED <<rdrop, cfg, q, txAlive, rx, kind, res, bop, nstart, wpc, cur, wpanic, scur,
                 jpc, jidx, jvia, jres>>

DispatchPoolReject(s) ==
  LET i == scur[s] IN
  /\ spc[s] = "calling" /\ kind[i] = "blocking"
  /\ spc' = [spc EXCEPT ![s] = "returning"]
  /\ st' = [st EXCEPT ![i] = "returned"]
  /\ sres' = [sres EXCEPT ![s] = "rejected"]
  /\ UNCHANGED <<rdrop, cfg, q, txAlive, rx, kind, owner, res, bop, nstart, wpc, cur, wpanic, scur,
                 jpc, jidx, jvia, jres, poolBusy>>

\* Ok(rx) / Err(DispatchError(f)) reaches the caller
DispatchRet(s) ==
  /\ spc[s] = "returning"
  /\ spc' = [spc EXCEPT ![s] = "idle"]
  /\ scur' = [scur EXCEPT ![s] = 0]
  /\ sres' = [sres EXCEPT ![s] = "none"]
  /\ UNCHANGED <<rdrop, cfg, q, txAlive, rx, st, kind, owner, res, bop, nstart, wpc, cur, wpanic,
                 jpc, jidx, jvia, jres, poolBusy>>

\* The caller drops the oneshot receiver it got from Ok(rx) (fire-and-forget dispatch): possible at
\* any time after the call returned.  The dispatcher must not care: no action of the code reads
\* rdrop - a closure is started whether or not anybody still listens (callback.send(res).ok()
\* just fails silently).  Once the closure is complete or dropped the receiver is history.
Final(x) == x \in {"done", "panicked", "dropped", "skipped", "returned"}
ForgetFinal(st2) == [i \in Tasks |-> rdrop[i] /\ ~Final(st2[i])]
DropReceiver(i) ==
  /\ ReceiverDrops
  /\ st[i] \in {"queued", "spawned", "pooled", "running"} /\ ~rdrop[i]
  /\ \A s \in Senders : scur[s] # i          \* Ok(rx) has reached the caller
  /\ rdrop' = [rdrop EXCEPT ![i] = TRUE]
  /\ UNCHANGED <<cfg, q, txAlive, rx, st, kind, owner, res, bop, nstart, wpc, cur, wpanic,
                 spc, scur, sres, jpc, jidx, jvia, jres, poolBusy>>

\* What the caller's oneshot receiver reports when polled now.  Receiving does not change the
\* dispatcher, so it is a function of the state, not an action.
RecvOutcome(i) == IF res[i] = "value" THEN "ok" ELSE IF res[i] = "closed" THEN "canceled" ELSE "pending"

\* ---------------------------------------------------------------------------
\* worker threads
\* ---------------------------------------------------------------------------
WorkerBoot(w) ==
  /\ wpc[w] = "boot"
  /\ wpc' = [wpc EXCEPT ![w] = "recv"]
  /\ UNCHANGED <<rdrop, cfg, q, txAlive, rx, st, kind, owner, res, bop, nstart, cur, wpanic,
                 spc, scur, sres, jpc, jidx, jvia, jres, poolBusy>>

\* .expect("cannot create compio runtime"): the thread closure unwinds, its receiver is dropped
WorkerBootPanic(w) ==
  /\ wpc[w] = "boot" /\ cfg.fault = "boot"
  /\ wpc' = [wpc EXCEPT ![w] = "exited"]
  /\ wpanic' = [wpanic EXCEPT ![w] = TRUE]
  /\ rx' = rx \ {w}
  /\ st' = StAfterHandles(txAlive, rx') /\ res' = ResAfterHandles(txAlive, rx')
  /\ q' = QAfterHandles(txAlive, rx')
  /\ rdrop' = ForgetFinal(st')
  /\ UNCHANGED <<cfg, txAlive, kind, owner, bop, nstart, cur, spc, scur, sres,
                 jpc, jidx, jvia, jres, poolBusy>>

\* recv_async() returns Ok(f) - the pop is the linearization point among the workers - and in the
\* same poll f.spawn(rt, meta), then task.detach() (concurrent) or the start of task.await
WorkerRecv(w) ==
  /\ wpc[w] = "recv" /\ ~Busy(w) /\ q # <<>>
  /\ LET i == Head(q) IN
       /\ q' = Tail(q)
       /\ st' = [st EXCEPT ![i] = "spawned"]
       /\ owner' = [owner EXCEPT ![i] = w]
       /\ IF cfg.concurrent
            THEN wpc' = wpc /\ cur' = cur
            ELSE wpc' = [wpc EXCEPT ![w] = "await"] /\ cur' = [cur EXCEPT ![w] = i]
  /\ UNCHANGED <<rdrop, cfg, txAlive, rx, kind, res, bop, nstart, wpanic, spc, scur, sres,
                 jpc, jidx, jvia, jres, poolBusy>>

\* sequential mode: task.await.ok() completes (Ok or JoinError::Panicked, both ignored)
WorkerAwaitDone(w) ==
  /\ wpc[w] = "await" /\ ~Busy(w)
  /\ st[cur[w]] \in {"done", "panicked", "skipped"}
  /\ wpc' = [wpc EXCEPT ![w] = "recv"]
  /\ cur' = [cur EXCEPT ![w] = 0]
  /\ UNCHANGED <<rdrop, cfg, q, txAlive, rx, st, kind, owner, res, bop, nstart, wpanic,
                 spc, scur, sres, jpc, jidx, jvia, jres, poolBusy>>

\* recv_async() returns Err(Disconnected): only when the queue is empty and the sender is gone
WorkerLoopEnd(w) ==
  /\ wpc[w] = "recv" /\ ~Busy(w) /\ q = <<>> /\ ~txAlive
  /\ wpc' = [wpc EXCEPT ![w] = "fin"]
  /\ UNCHANGED <<rdrop, cfg, q, txAlive, rx, st, kind, owner, res, bop, nstart, cur, wpanic,
                 spc, scur, sres, jpc, jidx, jvia, jres, poolBusy>>

\* block_on_at returns after one more tick; the main future (and its receiver clone) is dropped.
\* That tick (Executor::tick) polls up to event_interval = 61 hot tasks and a freshly spawned task
\* is hot: every closure this worker popped has been called before the runtime is dropped (the
\* bound is far outside the sizes explored here and in the recorded programs).
WorkerLeave(w) ==
  /\ wpc[w] = "fin" /\ ~Busy(w)
  /\ \A i \in Tasks : owner[i] = w => st[i] # "spawned"
  /\ wpc' = [wpc EXCEPT ![w] = "left"]
  /\ rx' = rx \ {w}
  /\ st' = StAfterHandles(txAlive, rx') /\ res' = ResAfterHandles(txAlive, rx')
  /\ q' = QAfterHandles(txAlive, rx')
  /\ rdrop' = ForgetFinal(st')
  /\ UNCHANGED <<cfg, txAlive, kind, owner, bop, nstart, cur, wpanic, spc, scur, sres,
                 jpc, jidx, jvia, jres, poolBusy>>

\* Runtime::poll_with: panic!("{e:?}") on a driver error while the main future is suspended.
\* catch_unwind in block_on_at: the main future (receiver clone, awaited JoinHandle) is dropped
\* by the unwind; executor.clear() and resume_unwind follow (WorkerExit).
WorkerPollPanic(w) ==
  /\ wpc[w] \in {"recv", "await"} /\ ~Busy(w) /\ cfg.fault = "poll"
  /\ wpc' = [wpc EXCEPT ![w] = "left"]
  /\ wpanic' = [wpanic EXCEPT ![w] = TRUE]
  /\ rx' = rx \ {w}
  /\ st' = StAfterHandles(txAlive, rx') /\ res' = ResAfterHandles(txAlive, rx')
  /\ q' = QAfterHandles(txAlive, rx')
  /\ rdrop' = ForgetFinal(st')
  /\ UNCHANGED <<cfg, txAlive, kind, owner, bop, nstart, cur, spc, scur, sres,
                 jpc, jidx, jvia, jres, poolBusy>>

\* executor.clear(): every unfinished task of this runtime is dropped (Runtime::drop, or the
\* panic path of block_on_at) and a dropped future drops its oneshot sender; the thread ends.
Unfinished(i, w) == owner[i] = w /\ st[i] \in {"spawned", "running"}
WorkerExit(w) ==
  /\ wpc[w] = "left"
  /\ wpc' = [wpc EXCEPT ![w] = "exited"]
  /\ st' = [i \in Tasks |-> IF Unfinished(i, w) THEN "dropped" ELSE st[i]]
  /\ res' = [i \in Tasks |-> IF Unfinished(i, w) THEN "closed" ELSE res[i]]
  /\ owner' = [i \in Tasks |-> IF Unfinished(i, w) THEN Nobody ELSE owner[i]]
  /\ rdrop' = ForgetFinal(st')
  /\ UNCHANGED <<cfg, q, txAlive, rx, kind, bop, nstart, cur, wpanic, spc, scur, sres,
                 jpc, jidx, jvia, jres, poolBusy>>

\* ---------------------------------------------------------------------------
\* the closures
\* ---------------------------------------------------------------------------
\* May the thread that owns closure i poll it now?
Runnable(i) ==
  \/ owner[i] = Pool
  \/ owner[i] \in Workers /\ InLoop(owner[i])
       /\ \A j \in Tasks : (j # i /\ owner[j] = owner[i]) => bop[j] # "want"

\* first poll of the spawned future / the pool thread picks the closure: func() is called
Start(i) ==
  /\ st[i] \in {"spawned", "pooled"} /\ Runnable(i)
  /\ st' = [st EXCEPT ![i] = "running"]
  /\ nstart' = [nstart EXCEPT ![i] = @ + 1]
  /\ UNCHANGED <<rdrop, cfg, q, txAlive, rx, kind, owner, res, bop, wpc, cur, wpanic, spc, scur, sres,
                 jpc, jidx, jvia, jres, poolBusy>>

\* CONTROL ONLY (SkipIfReceiverGone): the spawned future looks at callback.is_canceled() first and
\* returns without calling func.  Realistic ("do not waste the worker's time"), and wrong: an
\* accepted closure is never started.
SkipStart(i) ==
  /\ SkipIfReceiverGone
  /\ st[i] = "spawned" /\ Runnable(i) /\ rdrop[i]
  /\ st' = [st EXCEPT ![i] = "skipped"]
  /\ res' = [res EXCEPT ![i] = "closed"]
  /\ owner' = [owner EXCEPT ![i] = Nobody]
  /\ rdrop' = ForgetFinal(st')
  /\ UNCHANGED <<cfg, q, txAlive, rx, kind, bop, nstart, wpc, cur, wpanic, spc, scur, sres,
                 jpc, jidx, jvia, jres, poolBusy>>

\* the body returns its value and, in the same poll, callback.send(res).ok()
\* (a pool thread returns to the pool afterwards)
Finish(i) ==
  /\ st[i] = "running" /\ Runnable(i) /\ bop[i] \in {"no", "used"}
  /\ st' = [st EXCEPT ![i] = "done"]
  /\ res' = [res EXCEPT ![i] = "value"]
  /\ poolBusy' = IF owner[i] = Pool THEN poolBusy - 1 ELSE poolBusy
  /\ owner' = [owner EXCEPT ![i] = Nobody]
  /\ rdrop' = ForgetFinal(st')
  /\ UNCHANGED <<cfg, q, txAlive, rx, kind, bop, nstart, wpc, cur, wpanic, spc, scur, sres,
                 jpc, jidx, jvia, jres>>

\* the body panics: the executor catches it and drops the future (a pool thread just dies)
BodyPanic(i) ==
  /\ BodyPanics
  /\ st[i] = "running" /\ Runnable(i) /\ bop[i] \in {"no", "used"}
  /\ st' = [st EXCEPT ![i] = "panicked"]
  /\ res' = [res EXCEPT ![i] = "closed"]
  /\ poolBusy' = IF owner[i] = Pool THEN poolBusy - 1 ELSE poolBusy
  /\ owner' = [owner EXCEPT ![i] = Nobody]
  /\ rdrop' = ForgetFinal(st')
  /\ UNCHANGED <<cfg, q, txAlive, rx, kind, bop, nstart, wpc, cur, wpanic, spc, scur, sres,
                 jpc, jidx, jvia, jres>>

\* An async body submits a blocking op (spawn_blocking, an asyncified fs op, ...):
\* Driver::push_blocking is   while let Err(e) = pool.dispatch(closure) { yield_now() }
BodyPoolWant(i) ==
  /\ BodyUsesPool
  /\ st[i] = "running" /\ kind[i] = "async" /\ Runnable(i) /\ bop[i] = "no"
  /\ bop' = [bop EXCEPT ![i] = "want"]
  /\ UNCHANGED <<rdrop, cfg, q, txAlive, rx, st, kind, owner, res, nstart, wpc, cur, wpanic,
                 spc, scur, sres, jpc, jidx, jvia, jres, poolBusy>>

BodyPoolAcquire(i) ==
  /\ bop[i] = "want" /\ poolBusy < cfg.pool
  /\ bop' = [bop EXCEPT ![i] = "has"]
  /\ poolBusy' = poolBusy + 1
  /\ UNCHANGED <<rdrop, cfg, q, txAlive, rx, st, kind, owner, res, nstart, wpc, cur, wpanic,
                 spc, scur, sres, jpc, jidx, jvia, jres>>

\* the pool thread finishes the op (independently of what happened to the task meanwhile)
BodyPoolDone(i) ==
  /\ bop[i] = "has"
  /\ bop' = [bop EXCEPT ![i] = "used"]
  /\ poolBusy' = poolBusy - 1
  /\ UNCHANGED <<rdrop, cfg, q, txAlive, rx, st, kind, owner, res, nstart, wpc, cur, wpanic,
                 spc, scur, sres, jpc, jidx, jvia, jres>>

\* ---------------------------------------------------------------------------
\* join
\* ---------------------------------------------------------------------------
\* first poll of join(self): drop(self.sender)
JoinCall ==
  /\ jpc = "idle" /\ \A s \in Senders : spc[s] = "idle"
  /\ jpc' = "called"
  /\ txAlive' = FALSE
  /\ st' = StAfterHandles(FALSE, rx) /\ res' = ResAfterHandles(FALSE, rx)
  /\ q' = QAfterHandles(FALSE, rx)
  /\ rdrop' = ForgetFinal(st')
  /\ UNCHANGED <<cfg, rx, kind, owner, bop, nstart, wpc, cur, wpanic, spc, scur, sres,
                 jidx, jvia, jres, poolBusy>>

\* pinned tree only - self.pool.dispatch(joiner): the joiner occupies a slot of the shared pool ...
JoinSpawnOnPool ==
  /\ JoinerOnPool
  /\ jpc = "called" /\ poolBusy < cfg.pool
  /\ jpc' = "joining" /\ jidx' = 1 /\ jvia' = "pool"
  /\ poolBusy' = poolBusy + 1
  /\ UNCHANGED <<rdrop, cfg, q, txAlive, rx, st, kind, owner, res, bop, nstart, wpc, cur, wpanic,
                 spc, scur, sres, jres>>

\* ... or, when the pool refuses it, runs on a thread of its own:  std::thread::spawn(f.0).
\* Repaired tree: always  std::thread::spawn(joiner).
JoinSpawnOnThread ==
  /\ jpc = "called" /\ (~JoinerOnPool \/ poolBusy >= cfg.pool)
  /\ jpc' = "joining" /\ jidx' = 1 /\ jvia' = "thread"
  /\ UNCHANGED <<rdrop, cfg, q, txAlive, rx, st, kind, owner, res, bop, nstart, wpc, cur, wpanic,
                 spc, scur, sres, jres, poolBusy>>

\* threads.into_iter().map(|t| t.join()).collect(); after the last one tx.send(results) and the
\* joiner's thread returns to the pool
JoinThread ==
  /\ jpc = "joining" /\ jidx <= cfg.nw /\ wpc[jidx] = "exited"
  /\ jidx' = jidx + 1
  /\ IF jidx = cfg.nw
       THEN /\ jpc' = "joined"
            /\ poolBusy' = IF jvia = "pool" THEN poolBusy - 1 ELSE poolBusy
       ELSE UNCHANGED <<jpc, poolBusy>>
  /\ UNCHANGED <<rdrop, cfg, q, txAlive, rx, st, kind, owner, res, bop, nstart, wpc, cur, wpanic,
                 spc, scur, sres, jvia, jres>>

\* rx.await; for res in results { res.unwrap_or_else(|e| resume_unwind(e)) }; Ok(())
JoinRet ==
  /\ jpc = "joined"
  /\ jpc' = "returned"
  /\ jres' = IF \E w \in Workers : wpanic[w] THEN "panic" ELSE "ok"
  /\ UNCHANGED <<rdrop, cfg, q, txAlive, rx, st, kind, owner, res, bop, nstart, wpc, cur, wpanic,
                 spc, scur, sres, jidx, jvia, poolBusy>>

\* ---------------------------------------------------------------------------
WorkerStep(w) ==
  \/ WorkerBoot(w) \/ WorkerBootPanic(w) \/ WorkerRecv(w) \/ WorkerAwaitDone(w)
  \/ WorkerLoopEnd(w) \/ WorkerLeave(w) \/ WorkerPollPanic(w) \/ WorkerExit(w)

TaskStep(i) ==
  \/ Start(i) \/ Finish(i) \/ BodyPanic(i) \/ DropReceiver(i) \/ SkipStart(i)
  \/ BodyPoolWant(i) \/ BodyPoolAcquire(i) \/ BodyPoolDone(i)

JoinStep ==
  \/ JoinCall \/ JoinSpawnOnPool \/ JoinSpawnOnThread \/ JoinThread \/ JoinRet

SenderStep(s) ==
  \/ DispatchSend(s) \/ DispatchPoolAccept(s) \/ DispatchPoolReject(s) \/ DispatchRet(s)

\* Closures are dispatched in id order (ids are interchangeable): symmetry reduction of the
\* exhaustive search only; the actions themselves take any id (used by Trace_Dispatcher).
NextNew == CHOOSE i \in Tasks : st[i] = "new" /\ \A j \in Tasks : st[j] = "new" => i <= j
Next ==
  \/ \E s \in Senders, k \in KindChoices :
        (\E i \in Tasks : st[i] = "new") /\ DispatchCall(s, NextNew, k)
  \/ \E s \in Senders : SenderStep(s)
  \/ \E w \in Workers : WorkerStep(w)
  \/ \E i \in Tasks : TaskStep(i)
  \/ JoinStep

Spec == Init /\ [][Next]_vars

\* Fairness: everything the threads do once they are at it is weakly fair.  Not fair (the
\* environment's choice): a new dispatch call, calling join, a body panic, a worker fault, a body
\* choosing to use the pool.  WF on Finish = task bodies terminate.
Fairness ==
  /\ \A s \in Senders : WF_vars(SenderStep(s))
  /\ \A w \in Workers :
       /\ WF_vars(WorkerBoot(w)) /\ WF_vars(WorkerRecv(w))
       /\ WF_vars(WorkerAwaitDone(w)) /\ WF_vars(WorkerLoopEnd(w)) /\ WF_vars(WorkerLeave(w))
       /\ WF_vars(WorkerExit(w))
  /\ \A i \in Tasks :
       /\ WF_vars(Start(i)) /\ WF_vars(Finish(i)) /\ WF_vars(SkipStart(i))
       /\ WF_vars(BodyPoolAcquire(i)) /\ WF_vars(BodyPoolDone(i))
  /\ WF_vars(JoinSpawnOnPool) /\ WF_vars(JoinSpawnOnThread)
  /\ WF_vars(JoinThread) /\ WF_vars(JoinRet)

FairSpec == Spec /\ Fairness

\* ---------------------------------------------------------------------------
\* what the property says
\* ---------------------------------------------------------------------------
Accepted(i) == st[i] \notin {"new", "inflight", "returned"}
Active(w)   == {i \in Tasks : owner[i] = w /\ st[i] = "running"}
Joined      == jpc = "returned"

TypeOK ==
  /\ cfg \in Configs
  /\ q \in Seq(Tasks) /\ txAlive \in BOOLEAN /\ rx \subseteq Workers
  /\ st \in [Tasks -> StSet] /\ kind \in [Tasks -> {"none", "async", "blocking"}]
  /\ owner \in [Tasks -> Workers \cup {Pool, Nobody}]
  /\ res \in [Tasks -> {"open", "value", "closed"}]
  /\ bop \in [Tasks -> {"no", "want", "has", "used"}] /\ rdrop \in [Tasks -> BOOLEAN]
  /\ wpc \in [Workers -> WpcSet] /\ cur \in [Workers -> Tasks \cup {0}]
  /\ jpc \in {"idle", "called", "joining", "joined", "returned"}
  /\ poolBusy \in 0..(MaxTasks + 1)
  /\ \A k1, k2 \in 1..Len(q) : k1 # k2 => q[k1] # q[k2]
  /\ \A i \in Tasks : (i \in QSet) <=> (st[i] = "queued")

\* started exactly once, on exactly one worker runtime (owner never changes once set); a rejected
\* closure is never called
ExactlyOnce ==
  \A i \in Tasks :
    /\ nstart[i] <= 1
    /\ (st[i] \in {"running", "done", "panicked"}) => nstart[i] = 1
    /\ (st[i] \in {"new", "inflight", "returned", "queued", "spawned", "pooled"}) => nstart[i] = 0
    /\ (st[i] = "running" /\ kind[i] = "async") => owner[i] \in 1..cfg.nw
    /\ (st[i] = "running" /\ kind[i] = "blocking") => owner[i] = Pool
    /\ (st[i] \in {"done", "panicked", "dropped", "returned", "new", "inflight", "queued"}) => owner[i] = Nobody
    /\ st[i] # "skipped"        \* nothing that was accepted completes without having been called

\* ran to completion => its own receiver gets its result; Canceled only if it did not
ResultDelivery ==
  \A i \in Tasks :
    /\ (st[i] = "done") <=> (RecvOutcome(i) = "ok")
    /\ (RecvOutcome(i) = "canceled") => st[i] \in {"panicked", "dropped", "skipped"}
    /\ (st[i] \in {"panicked", "dropped", "skipped"}) => RecvOutcome(i) = "canceled"

\* joined first => no receiver of an accepted dispatch() is left open (it resolves at once)
JoinedFirst ==
  Joined => \A i \in Tasks : (Accepted(i) /\ kind[i] = "async") => res[i] # "open"

\* sequential mode: a worker never overlaps two tasks ...
SeqNoOverlap ==
  (~cfg.concurrent) =>
     \A w \in Workers :
        Cardinality({i \in Tasks : owner[i] = w /\ st[i] \in {"spawned", "running"}}) <= 1
\* ... and every accepted task finished before join returns (a join that resumes a worker panic
\* does not return; then the tasks of the dead workers are dropped)
SeqAllFinished ==
  (~cfg.concurrent /\ Joined /\ jres = "ok") =>
     \A i \in Tasks : (Accepted(i) /\ kind[i] = "async") => st[i] \in {"done", "panicked"}
\* both modes, independent of whether the caller kept its receiver: when join returns normally
\* every accepted closure has been started (exactly once, ExactlyOnce)
AllStartedAtJoin ==
  (Joined /\ jres = "ok") =>
     \A i \in Tasks : (Accepted(i) /\ kind[i] = "async") => nstart[i] = 1
\* concurrent mode: nothing accepted is left behind unresolved either
ConcNothingLeft ==
  Joined => \A i \in Tasks : (Accepted(i) /\ kind[i] = "async") => st[i] \in {"done", "panicked", "dropped"}

\* join returns only after all workers have exited, and propagates a worker panic
JoinAfterExit ==
  /\ (jpc \in {"joined", "returned"}) => \A w \in 1..cfg.nw : wpc[w] = "exited"
  /\ Joined => (jres = "panic" <=> \E w \in Workers : wpanic[w])
  /\ Joined => \A w \in Workers : Active(w) = {}

\* ---------------------------------------------------------------------------
\* liveness (checked on FairSpec)
\* ---------------------------------------------------------------------------
\* every accepted task is eventually started, unless join intervenes (or, with faulty workers,
\* the worker that popped it died first / every worker died)
EventuallyStarted ==
  \A i \in Tasks : (st[i] = "queued") ~> (nstart[i] = 1 \/ jpc # "idle" \/ rx = {} \/ st[i] = "dropped")
EventuallyPooledStarted ==
  \A i \in Tasks : (st[i] = "pooled") ~> (nstart[i] = 1)
\* join eventually returns
JoinReturns == (jpc = "called") ~> Joined
\* a receiver never hangs: with healthy workers always, otherwise once join was called
ReceiverResolves ==
  \A i \in Tasks : (Accepted(i) /\ (cfg.fault = "none" \/ jpc # "idle" \/ kind[i] = "blocking"))
                      ~> (RecvOutcome(i) # "pending")

\* The (repaired) deviation: the joiner sits on a slot of the pool the workers need.
JoinerHoldsPoolSlot == jpc = "joining" /\ jvia = "pool"
PoolStarved == \E i \in Tasks : bop[i] = "want" /\ poolBusy >= cfg.pool /\ JoinerHoldsPoolSlot
=============================================================================
