CONSTANTS
  MaxTasks = 2
  MaxWorkers = 2
  MaxSenders = 1
  NWChoices = {2}
  ModeChoices = {TRUE, FALSE}
  FaultChoices = {"none"}
  PoolChoices = {1}
  KindChoices = {"async", "blocking"}
  BodyPanics = FALSE
  BodyUsesPool = TRUE
  JoinerOnPool = FALSE
  ReceiverDrops = TRUE
  SkipIfReceiverGone = FALSE
SPECIFICATION FairSpec
INVARIANTS TypeOK ExactlyOnce ResultDelivery JoinedFirst SeqNoOverlap SeqAllFinished AllStartedAtJoin ConcNothingLeft JoinAfterExit
PROPERTIES EventuallyStarted EventuallyPooledStarted JoinReturns ReceiverResolves
