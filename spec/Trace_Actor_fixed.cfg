\* trace validation of recorded compio-actor histories (see Trace_Actor.tla); TRACE = path of the ndjson file
CONSTANTS
  Actors = {0, 1, 2, 3, 4, 5, 6, 7, 8, 9, 10, 11}
  Procs = {0, 1, 2, 3, 4, 9}
  Names = {"x", "y"}
  Caps = {1}
  Kinds = {}
  Spawners = {}
  Senders = {}
  Stoppers = {}
  Lookers = {}
  GSenders = {}
  Joiners = {}
  Prestarted = {}
  Prejoined = FALSE
  InitialActors = {}
  Replacements = {}
  MsgsPer = 0
  StopsPer = 0
  LooksPer = 0
  JoinsPer = 0
  SupChoices = {}
  SupProc = 9
  SupCap = 64
  PreMayFail = FALSE
  PostMayFail = FALSE
  StopHooksMayFail = FALSE
  DrainOnClose = TRUE
  ReportBeforeRelease = FALSE
  ReserveIgnoresStarting = FALSE
INIT TInit
NEXT TNext
POSTCONDITION Accepted
