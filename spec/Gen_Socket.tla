----------------------------- MODULE Gen_Socket -----------------------------
(* Program generator for C14: two-peer socket programs over the operation alphabet of Socket.tla
   (one entry per named action / code path), printed as one JSON object per program and run on
   real sockets by harness/hnet/src/bin/record_socket.rs.

   A stream program: how the server accepts each connection (acc: single accept / multishot
   incoming stream; connection 1 carries the data), per peer a writer list and a reader list
   (together at most MaxOps operations), how the peer's stream is split into halves and whether
   the halves run concurrently or one after the other (ord). A datagram program: peers a and b
   send to each other; socket c sends to b concurrently with a (two sources).

   Sizes: 0, 1, 3 and Big (above the socket buffer: the transport accepts a prefix only); for
   datagrams DgBig (above the managed buffer and the small capacities: cut and flagged) and Big
   (above the largest datagram: refused).

   The program is built in one behaviour, one choice per step, so that -simulate samples programs
   uniformly per choice; Emit prints the finished program. *)
EXTENDS Integers, Sequences, Json, TLC

CONSTANTS Mode,        \* "stream" | "dgram"
          Big, DgBig, MaxOps

VARIABLES prog, pc, la, lb
gvars == <<prog, pc, la, lb>>

Sizes   == {0, 1, 3, Big}
DgSizes == {0, 1, 3, DgBig, Big}
DgCaps  == {0, 1, 3, DgBig}

One   == {"exact", "spare"}
Two   == {"vec2", "vec2s"}
SOp(k, shs, ns) == {[k |-> k, n |-> n, sh |-> s] : n \in ns, s \in shs}
ROp(k, shs, cs, its) == {[k |-> k, c |-> c, sh |-> s, it |-> i] : c \in cs, s \in shs, i \in its}

(* stream alphabet: Socket!SendPlain (send, msg), SendVectored (sendv, msgv), ZcSend (zc, zcv, zcmsg);
   RecvPlain (recv), RecvVectored (recvv), RecvMsg (msg, msgv), RecvManaged (managed, msgmanaged),
   MultiOpen/MultiNext/MultiDrop (multi, msgmulti: it items are taken, 0 = until the end) *)
StreamSend == SOp("send", One, Sizes) \cup SOp("sendv", Two, Sizes) \cup SOp("zc", One, Sizes)
              \cup SOp("zcv", Two, Sizes) \cup SOp("msg", One, Sizes) \cup SOp("msgv", Two, Sizes)
              \cup SOp("zcmsg", {"exact"}, Sizes)
StreamRecv == ROp("recv", One, Sizes, {0}) \cup ROp("recvv", Two, Sizes, {0}) \cup ROp("msg", One, Sizes, {0})
              \cup ROp("msgv", Two, Sizes, {0}) \cup ROp("managed", {"pool"}, Sizes, {0})
              \cup ROp("msgmanaged", {"pool"}, Sizes, {0}) \cup ROp("multi", {"pool"}, Sizes, {0, 1, 2})
              \cup ROp("msgmulti", {"pool"}, {0}, {0, 1, 2})

(* datagram alphabet: Socket!DgSend (sendto, sendtov, sendmsg, sendmsgv, zcto, zctov, zcmsgto and the
   connected send, sendv, zc, zcv), DgSendTooBig (size Big); DgRecv (recvfrom, recvfromv, recvmsg,
   recvmsgv, recv, recvv), DgRecvManaged (fmanaged, mmanaged, managed), DgMulti* (fmulti, mmulti, multi) *)
DgSendU == SOp("sendto", One, DgSizes) \cup SOp("sendtov", Two, DgSizes) \cup SOp("sendmsg", One, DgSizes)
           \cup SOp("sendmsgv", Two, DgSizes) \cup SOp("zcto", One, DgSizes) \cup SOp("zctov", Two, DgSizes)
           \cup SOp("zcmsgto", {"exact"}, DgSizes)
DgSendC == SOp("send", One, DgSizes) \cup SOp("sendv", Two, DgSizes) \cup SOp("zc", One, DgSizes)
           \cup SOp("zcv", Two, DgSizes)
DgRecvU == ROp("recvfrom", One, DgCaps, {0}) \cup ROp("recvfromv", Two, DgCaps, {0}) \cup ROp("recvmsg", One, DgCaps, {0})
           \cup ROp("recvmsgv", Two, DgCaps, {0}) \cup ROp("fmanaged", {"pool"}, DgCaps, {0})
           \cup ROp("mmanaged", {"pool"}, DgCaps, {0}) \cup ROp("fmulti", {"pool"}, {0}, {1, 2})
           \cup ROp("mmulti", {"pool"}, {0}, {1, 2})
DgRecvC == ROp("recv", One, DgCaps, {0}) \cup ROp("recvv", Two, DgCaps, {0}) \cup ROp("managed", {"pool"}, DgCaps, {0})
           \cup ROp("multi", {"pool"}, DgCaps, {1, 2})

AccLists == {<<x>> : x \in {"single", "multi"}} \cup {<<x, y>> : x, y \in {"single", "multi"}}
            \cup {<<x, y, z>> : x, y, z \in {"single", "multi"}}
Splits == {"none", "owned", "borrowed"}
EmptyPeer == [w |-> <<>>, r |-> <<>>, split |-> "none", ord |-> "none"]

GInit ==
  /\ pc = "hdr"
  /\ la = <<0, 0>> /\ lb = <<0, 0>>
  /\ prog = [t |-> Mode, acc |-> <<"single">>, conn |-> FALSE, a |-> EmptyPeer, b |-> EmptyPeer, c |-> EmptyPeer]

(* lengths: <<number of writes, number of reads>> per peer, together 1..MaxOps *)
Lens == {<<w, r>> : w \in 0..MaxOps, r \in 0..MaxOps} \ {x \in {<<w, r>> : w \in 0..MaxOps, r \in 0..MaxOps} : x[1] + x[2] = 0 \/ x[1] + x[2] > MaxOps}

Hdr ==
  /\ pc = "hdr"
  /\ IF Mode = "stream"
       THEN \E acc \in AccLists, sa \in Splits, sb \in Splits, o \in {"none", "awr", "arw", "bwr", "brw"} :
              prog' = [prog EXCEPT !.acc = acc,
                         !.a = [@ EXCEPT !.split = sa, !.ord = IF o = "awr" THEN "wr" ELSE IF o = "arw" THEN "rw" ELSE "none"],
                         !.b = [@ EXCEPT !.split = sb, !.ord = IF o = "bwr" THEN "wr" ELSE IF o = "brw" THEN "rw" ELSE "none"]]
       ELSE \E cn \in BOOLEAN : prog' = [prog EXCEPT !.conn = cn]
  /\ pc' = "len"
  /\ UNCHANGED <<la, lb>>

ChooseLen ==
  /\ pc = "len"
  /\ \E x \in Lens, y \in Lens : la' = x /\ lb' = y
  /\ pc' = "ops"
  /\ UNCHANGED prog

SendSet == IF Mode = "stream" THEN StreamSend ELSE IF prog.conn THEN DgSendC ELSE DgSendU
RecvSet == IF Mode = "stream" THEN StreamRecv ELSE IF prog.conn THEN DgRecvC \cup DgRecvU ELSE DgRecvU \cup DgRecvC

AddOp ==
  /\ pc = "ops"
  /\ \/ /\ Len(prog.a.w) < la[1] /\ \E o \in SendSet : prog' = [prog EXCEPT !.a.w = Append(@, o)]
     \/ /\ Len(prog.a.w) = la[1] /\ Len(prog.a.r) < la[2] /\ \E o \in RecvSet : prog' = [prog EXCEPT !.a.r = Append(@, o)]
     \/ /\ Len(prog.a.w) = la[1] /\ Len(prog.a.r) = la[2] /\ Len(prog.b.w) < lb[1]
        /\ \E o \in SendSet : prog' = [prog EXCEPT !.b.w = Append(@, o)]
     \/ /\ Len(prog.a.w) = la[1] /\ Len(prog.a.r) = la[2] /\ Len(prog.b.w) = lb[1] /\ Len(prog.b.r) < lb[2]
        /\ \E o \in RecvSet : prog' = [prog EXCEPT !.b.r = Append(@, o)]
  /\ UNCHANGED <<pc, la, lb>>

(* the third datagram socket sends 0..3 datagrams to b concurrently with a *)
Third ==
  /\ pc = "ops" /\ Mode = "dgram" /\ ~prog.conn
  /\ Len(prog.a.w) = la[1] /\ Len(prog.a.r) = la[2] /\ Len(prog.b.w) = lb[1] /\ Len(prog.b.r) = lb[2]
  /\ \E o1, o2, o3 \in SOp("sendto", {"exact"}, DgSizes \ {Big}) \cup SOp("sendmsg", {"exact"}, {1, 3}), m \in 0..3 :
       prog' = [prog EXCEPT !.c.w = SubSeq(<<o1, o2, o3>>, 1, m)]
  /\ pc' = "fin"
  /\ UNCHANGED <<la, lb>>

(* the last step has exactly one successor (the simulator evaluates Emit on every successor) *)
Finish ==
  /\ \/ /\ pc = "ops" /\ (Mode = "stream" \/ prog.conn)
        /\ Len(prog.a.w) = la[1] /\ Len(prog.a.r) = la[2] /\ Len(prog.b.w) = lb[1] /\ Len(prog.b.r) = lb[2]
     \/ pc = "fin"
  /\ pc' = "done"
  /\ UNCHANGED <<prog, la, lb>>

GNext == Hdr \/ ChooseLen \/ AddOp \/ Third \/ Finish
GSpec == GInit /\ [][GNext]_gvars

Emit == pc = "done" => PrintT(<<"REPLAY", ToJson(prog)>>)
=============================================================================
