CONSTANTS
  RW = {"a"}
  WW = {"b"}
  Kinds = {"ready", "io"}
  TokModes = {"no", "fast"}
  MaxPW = 1
  MaxFill = 1
  AllowShut = TRUE
  Eager = TRUE
  Strict = FALSE
  Mut = "none"
  Driver = "any"
  MaxSteps = 7
SPECIFICATION GSpec
VIEW GView
INVARIANTS Emit NoErr
