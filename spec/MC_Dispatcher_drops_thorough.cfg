CONSTANTS
  MaxTasks = 3
  MaxWorkers = 2
  MaxSenders = 2
  NWChoices = {2}
  ModeChoices = {TRUE, FALSE}
  FaultChoices = {"none"}
  PoolChoices = {4}
  KindChoices = {"async"}
  BodyPanics = TRUE
  BodyUsesPool = FALSE
  JoinerOnPool = FALSE
  ReceiverDrops = TRUE
  SkipIfReceiverGone = FALSE
SPECIFICATION Spec
INVARIANTS TypeOK ExactlyOnce ResultDelivery JoinedFirst SeqNoOverlap SeqAllFinished AllStartedAtJoin ConcNothingLeft JoinAfterExit
