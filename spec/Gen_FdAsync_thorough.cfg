CONSTANTS
  RW = {"a", "c"}
  WW = {"b", "d"}
  MaxPW = 2
  MaxFill = 1
  AllowShut = TRUE
  Eager = TRUE
  Strict = FALSE
  Mut = "none"
  MaxSteps = 11
SPECIFICATION GSpec
VIEW GView
INVARIANTS Emit NoErr ExactlyOnce Covered
