SPECIFICATION FairSpec
CONSTANTS
  MaxCalls = 2
  MaxFlush = 2
  MaxIntr = 1
  AllowCancel = FALSE
  AllowLie = FALSE
  FixCancel = FALSE
VIEW View
PROPERTIES
  FlushCompletes
