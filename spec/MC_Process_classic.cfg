CONSTANTS
  K = 2
  EchoBuf = 1
  NIns = {0, 4, 6}
  NOuts = {0, 3}
  NErrs = {0, 3}
  WChunks = {0}
  RChunks = {0}
  IoStatuses = {"c0"}
  Codes = {"c0"}
  Sigs = {"s9"}
  Drivers = {"iour"}
  Impls = {"blocking"}
  Families = {"echo", "producer"}
  BlockingChildPipes = FALSE
SPECIFICATION Spec
INVARIANTS TypeOK SequentialNeverStuck
