\* CONTROL: behaviour before the fix commit (Fix = FALSE); this run MUST violate the property below
CONSTANTS
  Limit = 2
  Jobs = {"j1", "j2", "j3", "j4"}
  Disp = {"D1"}
  NW = 4
  PanicJobs = {}
  Caught = TRUE
  DriverLoop = TRUE
  Fix = FALSE
  TimedFifo = FALSE
SPECIFICATION Spec
INVARIANTS Bounded
