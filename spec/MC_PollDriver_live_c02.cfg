CONSTANTS
  o1 = o1
  o2 = o2
  o3 = o3
  Ops = {o1, o2}
  Kind <- KindSSB
  FdOf <- FdSame
  Dir <- DirR
  Fds = {1}
  Eager = FALSE
SPECIFICATION FairSpec
PROPERTIES Served
