SPECIFICATION Spec
CONSTANTS
  RawMode = TRUE
  Inputs <- InputsStale
  FixStaleTimer = FALSE
  AllowLongCsi = TRUE
  MaxTok = 24
  Mut = ""
INVARIANTS
  TimerFresh
PROPERTIES
  Progress
