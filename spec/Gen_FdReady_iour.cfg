CONSTANTS
  RW = {}
  WW = {"b"}
  Kinds = {"ready", "io"}
  TokModes = {"no"}
  MaxPW = 0
  MaxFill = 2
  AllowShut = TRUE
  Eager = TRUE
  Strict = FALSE
  Mut = "none"
  Driver = "iour"
  MaxSteps = 13
SPECIFICATION GSpec
VIEW GView
INVARIANTS Emit NoErr
