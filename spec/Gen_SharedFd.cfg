CONSTANTS
  Handles = {"h1", "h2", "o1"}
  Ops = {"o1"}
  InitLive = {}
  Variant = "unsync"
  AllowClone = TRUE
  AllowTake2 = TRUE
  AllowCancel = TRUE
  AllowSpurious = TRUE
  FileLayer = FALSE
  SilentRelease = FALSE
  ForgetsHandle = FALSE
  MaxMigrate = 0
  RegisterOnce = FALSE
  MaxLen = 8
SPECIFICATION GSpec
INVARIANTS Emit
