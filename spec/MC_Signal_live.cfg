CONSTANTS
  Threads = {1, 2}
  Layouts <- LayoutsLiveQ
  Muts <- MutsNone
  Sigs = {"a", "b"}
  BadSigs = {"k"}
  MaxRaise = 1
  RaiseOn = {1}
  SpuriousPolls = FALSE
  FixLeak = FALSE
  MaxNL = 3
SPECIFICATION FairSpec
INVARIANTS Safe
PROPERTIES CallsReturn HandlersReturn EventuallyCompletes
