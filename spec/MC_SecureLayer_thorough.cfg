\* thorough: all payload classes, limits 1, 2, all, two scheduled Pendings
CONSTANTS
  Backends = {"native", "rustls"}
  Shapes = {"t13", "t12"}
  Bufferings = {TRUE, FALSE}
  Payloads = {0, 1, 2}
  Inits = {"c", "s"}
  Limits = {0, 1, 2}
  U = 2
  MaxPend = 2
  FlushBeforeRead = TRUE
  PendingIsWouldBlock = TRUE
  MidResumes = TRUE
  FinalFlush = TRUE
  CloseFlushes = TRUE
  FixRustlsHsFlush = FALSE
SPECIFICATION Spec
INVARIANTS TypeOK NativeClean NoDeadlock NoWaitOnUnflushed NoFailure InOrderExactlyOnce CleanClose NoBufferedDataDropped HandshakeAgreement
PROPERTIES Progress
