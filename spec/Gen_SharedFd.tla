---------------------------- MODULE Gen_SharedFd ----------------------------
(* Program printer for the single-threaded (unsync) SharedFd protocol: the step actions of
   SharedFd run under Variant = "unsync" (a method runs to its end), the history records one
   entry per completed METHOD (clone, drop, opstart, opfinish, poll - with the identity w of the
   waker it was made with: re-polls with the same and with ANOTHER waker -, take2, cancel,
   dropunpolled) with the projected state after it. One JSON line per maximal program;
   replayed by harness bins fd_replay / fd_replay_sync (SharedFd<Instrumented>, compio_fs::File,
   compio_net::TcpStream / UnixStream). *)
EXTENDS SharedFd, Json

CONSTANT MaxLen
VARIABLE hist
gvars == <<vars, hist>>

(* woken = the waker of the closer's LATEST poll has been woken; wok[i] = waker i has been woken;
   w (in the record) = the waker the poll was made with *)
Proj == [count |-> count, waits |-> waits, closed |-> closed, c |-> pcC, woken |-> (wk \in woken),
         wok |-> [i \in Wakers |-> i \in woken], wk |-> wk,
         slot |-> slot, strand |-> (Stranded /\ count = 1)]

Rec(a, who, src) == hist' = Append(hist, [a |-> a, h |-> who, src |-> src, w |-> wk', x |-> Proj'])
Silent == UNCHANGED hist

GInit == Init /\ hist = <<>>

GNext ==
  /\ Len(hist) < MaxLen
  /\ \/ \E h \in Handles, src \in (Handles \ Ops) \cup {"C"} :
          Clone(src, h) /\ Rec(IF h \in Ops THEN "opstart" ELSE "clone", h, src)
     \/ \E h \in Handles : DropCheck(h) /\ Silent
     \/ \E h \in Handles : DropWake(h) /\ Silent
     \/ \E h \in Handles : DropDec(h) /\ Rec(IF h \in takers THEN "take2"
                                               ELSE IF h \in Ops THEN "opfinish" ELSE "drop", h, "")
     \/ \E h \in Handles : T2Swap(h) /\ Silent
     \/ \E h \in Handles : T2None(h) /\ Silent
     \/ \E h \in Handles : T2Release(h) /\ Rec("take2", h, "")
     \/ CSwap /\ Silent
     \/ CUnwrap1 /\ (IF pcC' = "done" THEN Rec("poll", "C", "") ELSE Silent)
     \/ CRegister /\ Silent
     \/ CUnwrap2 /\ Rec("poll", "C", "")
     \/ CRepoll /\ Silent
     \/ CSpurious /\ Silent
     \/ CMigrate /\ Silent
     \/ CCancel /\ (IF pcC' = "cancelled" THEN Rec("cancel", "C", "") ELSE Silent)
     \/ CDropUnpolled /\ (IF pcC' \in {"cancelled", "forgot"} THEN Rec("dropunpolled", "C", "") ELSE Silent)
     \/ CDropCheck /\ Silent
     \/ CDropWake /\ Silent
     \/ CDropDec /\ Rec(IF waits THEN "cancel" ELSE "dropunpolled", "C", "")

GSpec == GInit /\ [][GNext]_gvars

Emit == (~ENABLED GNext) =>
          PrintT(<<"REPLAY", ToJson([variant |-> Variant, file |-> FileLayer, steps |-> hist])>>)
=============================================================================
