\* control: handshake() without the final flush (expected to FAIL)
CONSTANTS
  Backends = {"native"}
  Shapes = {"t13", "t12"}
  Bufferings = {TRUE, FALSE}
  Payloads = {1}
  Inits = {"c"}
  Limits = {0, 1}
  U = 2
  MaxPend = 1
  FlushBeforeRead = TRUE
  PendingIsWouldBlock = TRUE
  MidResumes = TRUE
  FinalFlush = FALSE
  CloseFlushes = TRUE
  FixRustlsHsFlush = FALSE
SPECIFICATION Spec
INVARIANTS NoDeadlock
