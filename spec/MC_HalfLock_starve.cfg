CONSTANTS
  Readers = {r1, r2}
  Writers = {w1}
  MaxWrites = 2
  MaxReads = 0
  Perpetual = TRUE
  Muts <- MutsNone
SPECIFICATION FairSpec
INVARIANTS Safe
PROPERTIES StoreTerminates
