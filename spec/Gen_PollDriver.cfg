CONSTANTS
  o1 = o1
  o2 = o2
  o3 = o3
  Ops = {o1, o2, o3}
  Kind <- KindDef
  FdOf <- FdDef
  Dir <- DirR
  Fds = {1, 2}
  MaxLen = 14
  Eager = TRUE
SPECIFICATION GSpec
INVARIANTS EmitInv
