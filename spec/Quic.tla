-------------------------------- MODULE Quic --------------------------------
(* C16 - compio-quic: streams, datagrams and the per-connection waker tables.

   quinn-proto (the QUIC protocol engine) is the environment; what is modelled is
   compio-quic's own bookkeeping around it:

     compio-quic/src/connection.rs   ConnectionState {error, connected, on_connected,
                                     on_handshake_data, datagram_received, datagrams_unblocked,
                                     stream_opened, stream_available, writable, readable, stopped},
                                     terminate, close, ConnectionInner::run (the driver task),
                                     poll_open_stream, poll_accept_stream, poll_recv_datagram,
                                     try_send_datagram, Connecting::poll, handshake_data,
                                     accepted_0rtt, closed
     compio-quic/src/send_stream.rs  execute_poll_write, finish, reset, stopped
     compio-quic/src/recv_stream.rs  execute_poll_read, stop
     compio-quic/src/endpoint.rs     Endpoint::close, poll_incoming (incoming_wakers)

   One action per critical section under the connection's state lock (Mutex<ConnectionState>),
   named after the function that takes the lock.  An iteration of the driver loop
   (handle_event + the whole  while let Some(event) = conn.poll()  loop) holds the lock
   throughout, so "a frame arrives, the protocol engine emits its event, the waker table
   entry is woken" is ONE action (the Driver... actions).

   Data flows from side A (opens the streams, writes, sends datagrams) to side B (accepts,
   reads, receives datagrams); each side has the complete set of waker tables and its own
   error slot, exactly as each side has its own ConnectionState.

   A future is an application task with its own waker:
     fs[f] = "idle"   will poll its current operation (first poll, or after a Ready result)
             "pend"   the last poll returned Pending
             "woken"  its waker was called; it will poll again
             "done" / "err"   completed (with a value / with an error)
   Deviations of the pinned code that are recorded as known findings are NAMED predicates
   (OnConnectedOverwritten, DriverCancelled); everything else has to hold.          *)
EXTENDS Integers, Sequences, FiniteSets, TLC

CONSTANTS NS,          \* number of streams A opens
          Units,       \* payload of every stream in abstract units (a unit = one write call)
          Lens,        \* possible payload lengths (subset of 1..Units), chosen when a stream is opened
          Wins,        \* possible stream flow-control windows (units); one is chosen initially
          ConnWin,     \* connection flow-control window (units)
          MaxStreamss, \* possible concurrent-stream limits B grants to A; one is chosen initially
          NDg,         \* number of datagrams A sends
          DgCap,       \* capacity of the outgoing datagram buffer
          AllowReset, AllowStop, AllowLoss,
          Extra,       \* which of the futures "CN","HD","Z1","Z2","CL","WI" exist
          CloseKinds,  \* subset of {"localA","localB","endpointA","endpointB"}
          Deviations,  \* subset of {"drop_closed"}
          DgReaders,   \* 1 | 2: tasks parked in recv_datagram (with 2, each takes one datagram)
          DgWakeAll,   \* TRUE as the code is: DatagramReceived wakes EVERY parked reader (control: FALSE)
          FinishWakes  \* TRUE as the code is: SendStream::finish calls state.wake() (control: FALSE)

Sides == {"A", "B"}
Other(x) == IF x = "A" THEN "B" ELSE "A"
Streams == 1..NS
CloseName(k, x) == IF k = "local" THEN (IF x = "A" THEN "localA" ELSE "localB")
                   ELSE (IF x = "A" THEN "endpointA" ELSE "endpointB")

ConnTables == {"on_connected", "on_handshake_data", "datagram_received", "datagrams_unblocked",
               "stream_opened", "stream_available", "writable", "readable", "stopped"}
\* "closed_join" is the waker inside the driver task's JoinHandle (Connection::closed awaits it),
\* "incoming" is EndpointState::incoming_wakers; terminate does not touch these two.
Tables == ConnTables \cup {"closed_join", "incoming"}

Wf(s) == <<"W", s>>       \* writer task of stream s (A): open_wait, write.., finish, stopped
Rf(j) == <<"R", j>>       \* reader task j (B): accept, read.. until end-of-stream
X(n)  == <<n, 0>>
Fut == {Wf(s) : s \in Streams} \cup {Rf(j) : j \in Streams}
         \cup (IF NDg > 0 THEN {X("DS"), X("DR")} ELSE {})
         \cup (IF NDg > 0 /\ DgReaders = 2 THEN {X("DR2")} ELSE {})
         \cup {X(e) : e \in Extra}
SideOf(f) == IF f[1] \in {"W", "DS", "CN", "HD", "CL"} THEN "A" ELSE "B"
Handshaking == Extra \cap {"CN", "HD", "Z1", "Z2"} # {}

VARIABLES fs, ph, tab, err, drv, hs,
          win, maxs0, total,
          openSeq, maxS, msWire, annUpTo, nAcc, rs,
          sent, wire, rbuf, got, credit, cw, cmax, cmw, cblk,
          finS, finD, stopS, stopD, acked, freed,
          dgNext, dgOut, dgWire, dgBuf, dgGot, dgBlocked,
          closeWire, epClosed, chan,
          kick,     \* [side -> the poller waker of the driver task was fired (state.wake()): a turn is due]
          finOut    \* [stream -> the FIN was handed to the network by a turn of A's driver]

appv  == <<fs, ph, tab>>
connv == <<err, drv, hs, closeWire, epClosed, chan>>
strv  == <<win, maxs0, total, openSeq, maxS, msWire, annUpTo, nAcc, rs>>
datav == <<sent, wire, rbuf, got, credit, cw, cmax, cmw, cblk, finS, finD, stopS, stopD, acked, freed>>
dgv   == <<dgNext, dgOut, dgWire, dgBuf, dgGot, dgBlocked>>
wakev == <<kick, finOut>>
vars  == <<appv, connv, strv, datav, dgv, wakev>>

\* state.wake(): what an API call queued in quinn-proto only leaves the machine when the driver task
\* runs an iteration (poll_transmit). The driver runs when its poller waker was fired (kick) or
\* when anything else turns it (a packet, a timer, a channel event: every Driver.. action of side A).
\* Only the FIN is tracked this way (finOut); data, credit and close are transmitted eagerly.
WakeSame == UNCHANGED wakev
FlushA == /\ finOut' = [s \in 1..NS |-> finOut[s] \/ finS[s] = "fin"]
          /\ kick' = [kick EXCEPT !["A"] = FALSE]
FinishWake == /\ kick' = [kick EXCEPT !["A"] = @ \/ FinishWakes] /\ UNCHANGED finOut
TurnOf(x) == IF x = "A" THEN FlushA ELSE WakeSame

RECURSIVE SumTo(_, _)
SumTo(f, n) == IF n = 0 THEN 0 ELSE f[n] + SumTo(f, n - 1)
Sum(f) == SumTo(f, NS)                                   \* f is a function on Streams
SeqN(a, b) == [i \in 1..(b - a + 1) |-> a + i - 1]      \* <<a, a+1, .., b>>

StreamOf(f) == IF f[1] = "W" THEN f[2] ELSE IF f[1] = "R" THEN rs[f[2]] ELSE 0

\* ---------------------------------------------------------------------------
\* waker tables
\* ---------------------------------------------------------------------------
NoWake == [t \in Tables |-> {}]
\* wake (and remove) the futures ws[t] from table t of `side`
Wake(side, ws) ==
  /\ tab' = [tab EXCEPT ![side] = [t \in Tables |-> tab[side][t] \ ws[t]]]
  /\ fs' = [f \in Fut |-> IF fs[f] = "pend" /\ (\E t \in Tables : f \in ws[t] /\ f \in tab[side][t])
                          THEN "woken" ELSE fs[f]]
\* wake_stream(id, map)
OfStream(side, t, s) == {f \in tab[side][t] : StreamOf(f) = s}
\* drain(..).for_each(Waker::wake) / wake_all_streams
All(side, t) == tab[side][t]

\* poll returned Pending after storing cx.waker() in table t.
\* on_connected is an Option<Waker>: storing a waker REPLACES the one that was there.
RegIn(T, t, f) == [T EXCEPT ![t] = IF t = "on_connected" THEN {f} ELSE @ \cup {f}]
Register(f, t) ==
  /\ tab' = [tab EXCEPT ![SideOf(f)] = RegIn(@, t, f)]
  /\ fs' = [fs EXCEPT ![f] = "pend"]
Finish(f, how) == fs' = [fs EXCEPT ![f] = how] /\ UNCHANGED tab
Runnable(f) == fs[f] \in {"idle", "woken"}

\* ConnectionState::terminate: every table is drained and woken
TerminateOf(T) == [t \in Tables |-> IF t \in ConnTables THEN T[t] ELSE {}]
TerminateWakes(side) == TerminateOf(tab[side])

\* ---------------------------------------------------------------------------
Init ==
  /\ fs = [f \in Fut |-> "idle"]
  /\ ph = [f \in Fut |-> IF f[1] = "W" THEN "open" ELSE IF f[1] = "R" THEN "accept" ELSE "x"]
  /\ tab = [x \in Sides |-> [t \in Tables |-> {}]]
  /\ err = [x \in Sides |-> "none"]
  /\ drv = [x \in Sides |-> TRUE]
  /\ hs = IF Handshaking THEN "init" ELSE "done"
  /\ win \in Wins /\ maxs0 \in MaxStreamss /\ total = [s \in Streams |-> 0]
  /\ openSeq = <<>> /\ maxS = maxs0 /\ msWire = 0 /\ annUpTo = 0 /\ nAcc = 0
  /\ rs = [j \in Streams |-> 0]
  /\ sent = [s \in Streams |-> 0]
  /\ wire = [s \in Streams |-> <<>>] /\ rbuf = [s \in Streams |-> <<>>] /\ got = [s \in Streams |-> <<>>]
  /\ credit = [s \in Streams |-> win] /\ cw = [s \in Streams |-> 0]
  /\ cmax = ConnWin /\ cmw = 0 /\ cblk = {}
  /\ finS = [s \in Streams |-> "no"] /\ finD = [s \in Streams |-> "no"]
  /\ stopS = [s \in Streams |-> FALSE] /\ stopD = [s \in Streams |-> FALSE]
  /\ acked = [s \in Streams |-> FALSE] /\ freed = [s \in Streams |-> FALSE]
  /\ dgNext = 1 /\ dgOut = <<>> /\ dgWire = <<>> /\ dgBuf = <<>> /\ dgGot = <<>> /\ dgBlocked = FALSE
  /\ closeWire = [x \in Sides |-> FALSE]
  /\ epClosed = [x \in Sides |-> FALSE]
  /\ chan = [x \in Sides |-> FALSE]
  /\ kick = [x \in Sides |-> FALSE]
  /\ finOut = [s \in Streams |-> FALSE]

Up == hs = "done"                       \* the application has its Connection objects
Open(x) == err[x] = "none"
PosOf(s) == CHOOSE i \in 1..Len(openSeq) : openSeq[i] = s
IsOpen(s) == \E i \in 1..Len(openSeq) : openSeq[i] = s

\* ===========================================================================
\* application side: one action per lock acquisition of a poll function
\* ===========================================================================

\* Connection::poll_open_stream (open_uni_wait / open_bi_wait)
PollOpenStream(s) ==
  LET f == Wf(s) IN
  /\ Up /\ Runnable(f) /\ ph[f] = "open"
  /\ IF ~Open("A") THEN Finish(f, "err") /\ UNCHANGED <<ph, openSeq, total>>
     ELSE IF Len(openSeq) < maxS
          THEN /\ openSeq' = Append(openSeq, s)
               /\ \E n \in Lens : total' = [total EXCEPT ![s] = n]
               /\ ph' = [ph EXCEPT ![f] = "write"]
               /\ Finish(f, "idle")
          ELSE Register(f, "stream_available") /\ UNCHANGED <<ph, openSeq, total>>
  /\ UNCHANGED <<connv, win, maxs0, maxS, msWire, annUpTo, nAcc, rs, datav, dgv>>
  /\ WakeSame

\* SendStream::execute_poll_write
TotalSent == Sum(sent)
ExecutePollWrite(s) ==
  LET f == Wf(s) IN
  /\ Runnable(f) /\ ph[f] = "write"
  /\ IF ~Open("A") THEN Finish(f, "err") /\ UNCHANGED <<ph, sent, wire, cblk>>      \* try_state
     ELSE IF stopD[s] THEN Finish(f, "err") /\ UNCHANGED <<ph, sent, wire, cblk>>   \* WriteError::Stopped
     ELSE IF sent[s] < credit[s] /\ TotalSent < cmax
          THEN /\ sent' = [sent EXCEPT ![s] = @ + 1]
               /\ wire' = [wire EXCEPT ![s] = Append(@, sent[s] + 1)]
               /\ ph' = [ph EXCEPT ![f] = IF sent[s] + 1 = total[s] THEN "fin" ELSE "write"]
               /\ Finish(f, "idle") /\ UNCHANGED cblk
          ELSE \* WriteError::Blocked: writable.insert(stream, waker)
               /\ Register(f, "writable")
               /\ cblk' = IF sent[s] < credit[s] THEN cblk \cup {s} ELSE cblk   \* connection_blocked
               /\ UNCHANGED <<ph, sent, wire>>
  /\ UNCHANGED <<connv, strv, rbuf, got, credit, cw, cmax, cmw, finS, finD, stopS, stopD, acked, freed, dgv>>
  /\ WakeSame

\* SendStream::finish (synchronous)
FinishStream(s) ==
  LET f == Wf(s) IN
  /\ Runnable(f) /\ ph[f] = "fin"
  /\ finS' = [finS EXCEPT ![s] = IF Open("A") /\ ~stopD[s] THEN "fin" ELSE @]
  /\ ph' = [ph EXCEPT ![f] = "stopped"]
  /\ UNCHANGED <<fs, tab, connv, strv, sent, wire, rbuf, got, credit, cw, cmax, cmw, cblk, finD, stopS, stopD, acked, freed, dgv>>
  /\ FinishWake

\* SendStream::reset instead of writing on / finishing
ResetStream(s) ==
  LET f == Wf(s) IN
  /\ AllowReset /\ Runnable(f) /\ ph[f] \in {"write", "fin"} /\ Open("A") /\ ~stopD[s]
  /\ finS' = [finS EXCEPT ![s] = "reset"]
  /\ wire' = [wire EXCEPT ![s] = <<>>]          \* unsent data is dropped
  /\ ph' = [ph EXCEPT ![f] = "end"]
  /\ Finish(f, "done")
  /\ UNCHANGED <<connv, strv, sent, rbuf, got, credit, cw, cmax, cmw, cblk, finD, stopS, stopD, acked, freed, dgv>>
  /\ WakeSame

\* SendStream::stopped
PollStopped(s) ==
  LET f == Wf(s) IN
  /\ Runnable(f) /\ ph[f] = "stopped"
  /\ IF stopD[s] \/ acked[s] THEN Finish(f, "done")        \* Ok(Some(code)) / Ok(None)
     ELSE IF ~Open("A") THEN Finish(f, "err")
     ELSE Register(f, "stopped")
  /\ UNCHANGED <<ph, connv, strv, datav, dgv>>
  /\ WakeSame

\* Connection::poll_accept_stream (accept_uni / accept_bi)
PollAcceptStream(j) ==
  LET f == Rf(j) IN
  /\ Up /\ Runnable(f) /\ ph[f] = "accept"
  /\ IF ~Open("B") THEN Finish(f, "err") /\ UNCHANGED <<ph, nAcc, rs>>
     ELSE IF nAcc < annUpTo
          THEN /\ rs' = [rs EXCEPT ![j] = openSeq[nAcc + 1]]
               /\ nAcc' = nAcc + 1
               /\ ph' = [ph EXCEPT ![f] = "read"]
               /\ Finish(f, "idle")
          ELSE Register(f, "stream_opened") /\ UNCHANGED <<ph, nAcc, rs>>
  /\ UNCHANGED <<connv, win, maxs0, total, openSeq, maxS, msWire, annUpTo, datav, dgv>>
  /\ WakeSame

\* RecvStream::execute_poll_read: buffered data is handed out even after the connection ended
ExecutePollRead(j, k) ==
  LET f == Rf(j)  s == rs[j] IN
  /\ Runnable(f) /\ ph[f] = "read"
  /\ IF Len(rbuf[s]) > 0
     THEN /\ k \in 1..Len(rbuf[s])
          /\ got' = [got EXCEPT ![s] = @ \o SubSeq(rbuf[s], 1, k)]
          /\ rbuf' = [rbuf EXCEPT ![s] = SubSeq(@, k + 1, Len(@))]
          \* chunks.finalize().should_transmit(): flow-control credit goes out (if still connected)
          /\ cw' = [cw EXCEPT ![s] = IF Open("B") THEN Len(got[s]) + k + win ELSE @]
          /\ cmw' = IF Open("B") THEN Sum([t \in Streams |-> Len(got[t])]) + k + ConnWin ELSE cmw
          /\ Finish(f, "idle") /\ UNCHANGED <<ph, freed, msWire>>
     ELSE /\ k = 1
          /\ UNCHANGED <<got, rbuf, cw, cmw>>
          /\ IF finD[s] = "fin"
             THEN /\ ph' = [ph EXCEPT ![f] = "end"] /\ Finish(f, "done")       \* end of stream
                  /\ freed' = [freed EXCEPT ![s] = TRUE]
                  /\ msWire' = IF Open("B") THEN msWire + 1 ELSE msWire
             ELSE IF finD[s] = "reset"
             THEN /\ ph' = [ph EXCEPT ![f] = "end"] /\ Finish(f, "err")        \* ReadError::Reset
                  /\ freed' = [freed EXCEPT ![s] = TRUE]
                  /\ msWire' = IF Open("B") THEN msWire + 1 ELSE msWire
             ELSE IF ~Open("B") THEN Finish(f, "err") /\ UNCHANGED <<ph, freed, msWire>>
             ELSE Register(f, "readable") /\ UNCHANGED <<ph, freed, msWire>>
  /\ UNCHANGED <<connv, win, maxs0, total, openSeq, maxS, annUpTo, nAcc, rs, sent, wire, credit, cmax, cblk, finS, finD, stopS, stopD, acked, dgv>>
  /\ WakeSame

\* RecvStream::stop (also what dropping an unfinished RecvStream does)
StopStream(j) ==
  LET f == Rf(j)  s == rs[j] IN
  /\ AllowStop /\ Runnable(f) /\ ph[f] = "read" /\ Open("B") /\ finD[s] = "no"
  /\ stopS' = [stopS EXCEPT ![s] = TRUE]
  /\ rbuf' = [rbuf EXCEPT ![s] = <<>>]
  /\ freed' = [freed EXCEPT ![s] = TRUE]
  /\ msWire' = msWire + 1
  /\ ph' = [ph EXCEPT ![f] = "end"] /\ Finish(f, "done")
  /\ UNCHANGED <<connv, win, maxs0, total, openSeq, maxS, annUpTo, nAcc, rs, sent, wire, got, credit, cw, cmax, cmw, cblk, finS, finD, stopD, acked, dgv>>
  /\ WakeSame

\* Connection::try_send_datagram (send_datagram_wait)
TrySendDatagram ==
  LET f == X("DS") IN
  /\ NDg > 0 /\ Up /\ Runnable(f) /\ dgNext <= NDg
  /\ IF ~Open("A") THEN Finish(f, "err") /\ UNCHANGED <<dgNext, dgOut, dgBlocked>>
     ELSE IF Len(dgOut) < DgCap
          THEN /\ dgOut' = Append(dgOut, dgNext) /\ dgNext' = dgNext + 1
               /\ Finish(f, IF dgNext = NDg THEN "done" ELSE "idle") /\ UNCHANGED dgBlocked
          ELSE /\ dgBlocked' = TRUE /\ Register(f, "datagrams_unblocked")
               /\ UNCHANGED <<dgNext, dgOut>>
  /\ UNCHANGED <<ph, connv, strv, datav, dgWire, dgBuf, dgGot>>
  /\ WakeSame

\* Connection::poll_recv_datagram
PollRecvDatagram(r) ==
  LET f == X(r) IN
  /\ NDg > 0 /\ f \in Fut /\ Up /\ Runnable(f)
  /\ IF ~Open("B") THEN Finish(f, "err") /\ UNCHANGED <<dgBuf, dgGot>>
     ELSE IF Len(dgBuf) > 0
          THEN /\ dgGot' = Append(dgGot, Head(dgBuf)) /\ dgBuf' = Tail(dgBuf)
               /\ Finish(f, IF DgReaders = 2 \/ Head(dgBuf) = NDg THEN "done" ELSE "idle")
          ELSE Register(f, "datagram_received") /\ UNCHANGED <<dgBuf, dgGot>>
  /\ UNCHANGED <<ph, connv, strv, datav, dgNext, dgOut, dgWire, dgBlocked>>
  /\ WakeSame

\* <Connecting as Future>::poll on A
PollConnecting ==
  LET f == X("CN") IN
  /\ "CN" \in Extra /\ Runnable(f)
  /\ IF ~Open("A") THEN Finish(f, "err")
     ELSE IF hs = "done" THEN Finish(f, "done")
     ELSE Register(f, "on_connected")
  /\ UNCHANGED <<ph, connv, strv, datav, dgv>>
  /\ WakeSame

\* Connecting::handshake_data on A
PollHandshakeData ==
  LET f == X("HD") IN
  /\ "HD" \in Extra /\ Runnable(f)
  /\ IF ~Open("A") THEN Finish(f, "err")
     ELSE IF hs # "init" THEN Finish(f, "done")
     ELSE Register(f, "on_handshake_data")
  /\ UNCHANGED <<ph, connv, strv, datav, dgv>>
  /\ WakeSame

\* Connection::accepted_0rtt on a 0.5-RTT connection of B (Connection is Clone: two waiters)
PollAccepted0rtt(z) ==
  LET f == X(z) IN
  /\ z \in Extra \cap {"Z1", "Z2"} /\ Runnable(f)
  /\ IF ~Open("B") THEN Finish(f, "err")
     ELSE IF hs = "done" THEN Finish(f, "done")
     ELSE Register(f, "on_connected")
  /\ UNCHANGED <<ph, connv, strv, datav, dgv>>
  /\ WakeSame

\* Connection::closed on A: takes the driver's JoinHandle out of the state and awaits it
PollClosed ==
  LET f == X("CL") IN
  /\ "CL" \in Extra /\ Runnable(f)
  /\ IF ~drv["A"] /\ ~Open("A") THEN Finish(f, "done")      \* the driver task has ended
     ELSE Register(f, "closed_join")
  /\ UNCHANGED <<ph, connv, strv, datav, dgv>>
  /\ WakeSame

\* DEVIATION (known finding): the pending closed() future is dropped (select!, timeout).
\* Dropping the JoinHandle cancels the driver task of the connection.
DropClosed ==
  LET f == X("CL") IN
  /\ "drop_closed" \in Deviations /\ "CL" \in Extra /\ fs[f] = "pend" /\ drv["A"]
  /\ drv' = [drv EXCEPT !["A"] = FALSE]
  /\ tab' = [tab EXCEPT !["A"]["closed_join"] = {}]
  /\ fs' = [fs EXCEPT ![f] = "done"]
  /\ UNCHANGED <<ph, err, hs, closeWire, epClosed, chan, strv, datav, dgv>>
  /\ WakeSame

\* Endpoint::wait_incoming on B's endpoint (EndpointState::poll_incoming)
PollIncoming ==
  LET f == X("WI") IN
  /\ "WI" \in Extra /\ Runnable(f)
  /\ IF epClosed["B"] THEN Finish(f, "done")                \* None
     ELSE Register(f, "incoming")
  /\ UNCHANGED <<ph, connv, strv, datav, dgv>>
  /\ WakeSame

\* ===========================================================================
\* close paths
\* ===========================================================================
\* ConnectionState::close = conn.close + terminate(LocallyClosed) + wake the driver
CloseEffect(x) ==
  /\ err' = [err EXCEPT ![x] = "local"]
  /\ closeWire' = [closeWire EXCEPT ![Other(x)] = TRUE]
  /\ Wake(x, TerminateWakes(x))

\* Connection::close called by the application
Close(x) ==
  /\ CloseName("local", x) \in CloseKinds /\ Up /\ Open(x)
  /\ CloseEffect(x)
  /\ UNCHANGED <<ph, drv, hs, epClosed, chan, strv, datav, dgv>>
  /\ WakeSame

\* Endpoint::close: a ConnectionEvent::Close is queued for every connection, incoming_wakers woken
EndpointClose(x) ==
  /\ CloseName("endpoint", x) \in CloseKinds /\ ~epClosed[x]
  /\ epClosed' = [epClosed EXCEPT ![x] = TRUE]
  /\ chan' = [chan EXCEPT ![x] = TRUE]
  /\ Wake(x, [NoWake EXCEPT !["incoming"] = All(x, "incoming")])
  /\ UNCHANGED <<ph, err, drv, hs, closeWire, strv, datav, dgv>>
  /\ WakeSame

\* driver: ConnectionEvent::Close(..) => state.close(..)
DriverCloseEvent(x) ==
  /\ drv[x] /\ chan[x]
  /\ chan' = [chan EXCEPT ![x] = FALSE]
  /\ IF Open(x) THEN CloseEffect(x) ELSE UNCHANGED <<err, closeWire, tab, fs>>
  /\ UNCHANGED <<ph, drv, hs, epClosed, strv, datav, dgv>>
  /\ TurnOf(x)

\* driver: Event::ConnectionLost { reason } => state.terminate(reason)
DriverConnectionLost(x) ==
  /\ drv[x] /\ closeWire[x]
  /\ closeWire' = [closeWire EXCEPT ![x] = FALSE]
  /\ IF Open(x)
     THEN err' = [err EXCEPT ![x] = "peer"] /\ Wake(x, TerminateWakes(x))
     ELSE UNCHANGED <<err, tab, fs>>
  /\ UNCHANGED <<ph, drv, hs, epClosed, chan, strv, datav, dgv>>
  /\ TurnOf(x)

\* driver: conn.is_drained() => the loop ends, the task completes, its JoinHandle's waker fires
DriverDrained(x) ==
  /\ drv[x] /\ ~Open(x) /\ ~chan[x]
  /\ drv' = [drv EXCEPT ![x] = FALSE]
  /\ Wake(x, [NoWake EXCEPT !["closed_join"] = All(x, "closed_join")])
  /\ UNCHANGED <<ph, err, hs, closeWire, epClosed, chan, strv, datav, dgv>>
  /\ TurnOf(x)

\* ===========================================================================
\* driver iterations that process a frame from the peer (ConnectionInner::run)
\* ===========================================================================
Live(x) == drv[x] /\ Open(x)

\* HandshakeDataReady => on_handshake_data.take().wake()   (both sides advance together)
DriverHandshakeDataReady ==
  /\ hs = "init" /\ Live("A") /\ Live("B")
  /\ hs' = "data"
  /\ Wake("A", [NoWake EXCEPT !["on_handshake_data"] = All("A", "on_handshake_data")])
  /\ UNCHANGED <<ph, err, drv, closeWire, epClosed, chan, strv, datav, dgv>>
  /\ FlushA

\* Connected => connected = true; on_connected.take().wake()
DriverConnected ==
  /\ hs = "data" /\ Live("A") /\ Live("B")
  /\ hs' = "done"
  /\ tab' = [x \in Sides |-> [tab[x] EXCEPT !["on_connected"] = {}]]
  /\ fs' = [f \in Fut |-> IF fs[f] = "pend" /\ f \in tab[SideOf(f)]["on_connected"] THEN "woken" ELSE fs[f]]
  /\ UNCHANGED <<ph, err, drv, closeWire, epClosed, chan, strv, datav, dgv>>
  /\ FlushA

\* B: STREAM frame(s) of stream s with k units (and possibly the FIN).
\* New stream  => Stream(Opened{dir})  => stream_opened[dir].drain().wake()
\* known stream => Stream(Readable{id}) => wake_stream(id, readable)
DriverStreamFrame(s, k, withFin) ==
  /\ Live("B") /\ IsOpen(s) /\ finD[s] = "no" /\ ~stopS[s]
  /\ k \in 0..Len(wire[s])
  /\ withFin => (finS[s] = "fin" /\ finOut[s] /\ k = Len(wire[s]))
  /\ k > 0 \/ withFin
  /\ rbuf' = [rbuf EXCEPT ![s] = @ \o SubSeq(wire[s], 1, k)]
  /\ wire' = [wire EXCEPT ![s] = SubSeq(@, k + 1, Len(@))]
  /\ finD' = [finD EXCEPT ![s] = IF withFin THEN "fin" ELSE @]
  /\ IF PosOf(s) > annUpTo
     THEN /\ annUpTo' = PosOf(s)
          /\ Wake("B", [NoWake EXCEPT !["stream_opened"] = All("B", "stream_opened")])
     ELSE /\ UNCHANGED annUpTo
          /\ Wake("B", [NoWake EXCEPT !["readable"] = OfStream("B", "readable", s)])
  /\ UNCHANGED <<ph, connv, win, maxs0, total, openSeq, maxS, msWire, nAcc, rs, sent, got, credit, cw, cmax, cmw, cblk, finS, stopS, stopD, acked, freed, dgv>>
  /\ WakeSame

\* B: RESET_STREAM => Stream(Readable{id}) (or Opened for a stream not seen before)
DriverResetStream(s) ==
  /\ Live("B") /\ IsOpen(s) /\ finS[s] = "reset" /\ finD[s] = "no" /\ ~stopS[s]
  /\ finD' = [finD EXCEPT ![s] = "reset"]
  /\ rbuf' = [rbuf EXCEPT ![s] = <<>>]
  /\ IF PosOf(s) > annUpTo
     THEN /\ annUpTo' = PosOf(s)
          /\ Wake("B", [NoWake EXCEPT !["stream_opened"] = All("B", "stream_opened")])
     ELSE /\ UNCHANGED annUpTo
          /\ Wake("B", [NoWake EXCEPT !["readable"] = OfStream("B", "readable", s)])
  /\ UNCHANGED <<ph, connv, win, maxs0, total, openSeq, maxS, msWire, nAcc, rs, sent, wire, got, credit, cw, cmax, cmw, cblk, finS, stopS, stopD, acked, freed, dgv>>
  /\ WakeSame

\* A: MAX_STREAM_DATA => Stream(Writable{id}) => wake_stream(id, writable)
\* (quinn-proto parks the stream in connection_blocked when the connection window is closed)
DriverMaxStreamData(s) ==
  /\ Live("A") /\ cw[s] > credit[s]
  /\ credit' = [credit EXCEPT ![s] = cw[s]]
  /\ cw' = [cw EXCEPT ![s] = 0]
  /\ IF TotalSent < cmax
     THEN Wake("A", [NoWake EXCEPT !["writable"] = OfStream("A", "writable", s)]) /\ UNCHANGED cblk
     ELSE cblk' = cblk \cup {s} /\ UNCHANGED <<tab, fs>>
  /\ UNCHANGED <<ph, connv, strv, sent, wire, rbuf, got, cmax, cmw, finS, finD, stopS, stopD, acked, freed, dgv>>
  /\ FlushA

\* A: MAX_DATA => every stream in connection_blocked gets Stream(Writable{id})
DriverMaxData ==
  /\ Live("A") /\ cmw > cmax
  /\ cmax' = cmw /\ cmw' = 0
  /\ cblk' = {}
  /\ Wake("A", [NoWake EXCEPT !["writable"] = {f \in tab["A"]["writable"] : StreamOf(f) \in cblk}])
  /\ UNCHANGED <<ph, connv, strv, sent, wire, rbuf, got, credit, cw, finS, finD, stopS, stopD, acked, freed, dgv>>
  /\ FlushA

\* A: everything including the FIN acknowledged => Stream(Finished{id}) => wake_stream(id, stopped)
DriverFinished(s) ==
  /\ Live("A") /\ finS[s] = "fin" /\ finD[s] = "fin" /\ ~acked[s]
  /\ acked' = [acked EXCEPT ![s] = TRUE]
  /\ Wake("A", [NoWake EXCEPT !["stopped"] = OfStream("A", "stopped", s)])
  /\ UNCHANGED <<ph, connv, strv, sent, wire, rbuf, got, credit, cw, cmax, cmw, cblk, finS, finD, stopS, stopD, freed, dgv>>
  /\ FlushA

\* A: STOP_SENDING => Stream(Stopped{id}) => wake_stream(id, stopped); wake_stream(id, writable)
DriverStopped(s) ==
  /\ Live("A") /\ stopS[s] /\ ~stopD[s] /\ ~acked[s]
  /\ stopD' = [stopD EXCEPT ![s] = TRUE]
  /\ wire' = [wire EXCEPT ![s] = <<>>]
  /\ Wake("A", [NoWake EXCEPT !["stopped"] = OfStream("A", "stopped", s),
                               !["writable"] = OfStream("A", "writable", s)])
  /\ UNCHANGED <<ph, connv, strv, sent, rbuf, got, credit, cw, cmax, cmw, cblk, finS, finD, stopS, acked, freed, dgv>>
  /\ FlushA

\* A: MAX_STREAMS => Stream(Available{dir}) => stream_available[dir].drain().wake()
DriverMaxStreams ==
  /\ Live("A") /\ msWire > 0
  /\ maxS' = maxS + msWire /\ msWire' = 0
  /\ Wake("A", [NoWake EXCEPT !["stream_available"] = All("A", "stream_available")])
  /\ UNCHANGED <<ph, connv, win, maxs0, total, openSeq, annUpTo, nAcc, rs, datav, dgv>>
  /\ FlushA

\* A: a datagram leaves the outgoing buffer => DatagramsUnblocked => datagrams_unblocked.drain().wake()
DriverDatagramSent ==
  /\ Live("A") /\ Len(dgOut) > 0
  /\ dgWire' = Append(dgWire, Head(dgOut)) /\ dgOut' = Tail(dgOut)
  /\ dgBlocked' = FALSE
  /\ IF dgBlocked
     THEN Wake("A", [NoWake EXCEPT !["datagrams_unblocked"] = All("A", "datagrams_unblocked")])
     ELSE UNCHANGED <<tab, fs>>
  /\ UNCHANGED <<ph, connv, strv, datav, dgNext, dgBuf, dgGot>>
  /\ FlushA

\* B: DATAGRAM frame => DatagramReceived => datagram_received.drain().wake()
DriverDatagramReceived ==
  /\ Live("B") /\ Len(dgWire) > 0
  /\ dgBuf' = Append(dgBuf, Head(dgWire)) /\ dgWire' = Tail(dgWire)
  \* quinn-proto emits DatagramReceived only for a datagram that arrives into an EMPTY queue
  /\ IF Len(dgBuf) > 0 THEN UNCHANGED <<tab, fs>>
     ELSE IF DgWakeAll \/ All("B", "datagram_received") = {}
     THEN Wake("B", [NoWake EXCEPT !["datagram_received"] = All("B", "datagram_received")])
     ELSE \E one \in All("B", "datagram_received") :          \* control: pop_front + one wake
            Wake("B", [NoWake EXCEPT !["datagram_received"] = {one}])
  /\ UNCHANGED <<ph, connv, strv, datav, dgNext, dgOut, dgGot, dgBlocked>>
  /\ WakeSame

\* A: the driver task was scheduled by state.wake() and runs an iteration: poll_transmit
DriverTransmit ==
  /\ Live("A") /\ kick["A"]
  /\ FlushA
  /\ UNCHANGED <<appv, connv, strv, datav, dgv>>

\* datagrams are unreliable
DatagramLost ==
  /\ AllowLoss /\ Len(dgWire) > 0
  /\ dgWire' = Tail(dgWire)
  /\ UNCHANGED <<appv, connv, strv, datav, dgNext, dgOut, dgBuf, dgGot, dgBlocked>>
  /\ WakeSame

\* DEVIATION 1 (known finding): on_connected holds ONE waker; a second accepted_0rtt() waiter
\* replaces the first, which is then woken neither by Connected nor by terminate.
OnConnectedOverwritten(f) ==
  /\ f[1] \in {"Z1", "Z2"} /\ {"Z1", "Z2"} \subseteq Extra
  /\ fs[f] = "pend" /\ f \notin tab["B"]["on_connected"]
\* DEVIATION 2 (known finding): the driver task of the side was cancelled by dropping closed()
DriverCancelled(x) == ~drv[x] /\ Open(x)

KnownStranded(f) == \/ OnConnectedOverwritten(f)
                    \/ DriverCancelled(SideOf(f)) \/ DriverCancelled(Other(SideOf(f)))

\* ---------------------------------------------------------------------------
AppStep == \/ \E s \in Streams : \/ PollOpenStream(s) \/ ExecutePollWrite(s) \/ FinishStream(s)
                                 \/ ResetStream(s) \/ PollStopped(s)
           \/ \E j \in Streams : \/ PollAcceptStream(j) \/ StopStream(j)
                                 \/ \E k \in 1..Units : ExecutePollRead(j, k)
           \/ TrySendDatagram \/ \E r \in {"DR", "DR2"} : PollRecvDatagram(r)
           \/ PollConnecting \/ PollHandshakeData \/ \E z \in {"Z1", "Z2"} : PollAccepted0rtt(z)
           \/ PollClosed \/ PollIncoming
DriverStep == \/ \E s \in Streams : \/ \E k \in 0..Units, b \in BOOLEAN : DriverStreamFrame(s, k, b)
                                    \/ DriverResetStream(s) \/ DriverMaxStreamData(s)
                                    \/ DriverFinished(s) \/ DriverStopped(s)
              \/ DriverMaxData \/ DriverMaxStreams \/ DriverDatagramSent \/ DriverDatagramReceived
              \/ DriverTransmit
              \/ DriverHandshakeDataReady \/ DriverConnected
              \/ \E x \in Sides : DriverCloseEvent(x) \/ DriverConnectionLost(x) \/ DriverDrained(x)
CloseStep == \E x \in Sides : Close(x) \/ EndpointClose(x)
Progress == AppStep \/ DriverStep \/ CloseStep \/ DatagramLost \/ DropClosed

\* Hang detection: TLC runs with deadlock checking ON. A state without successor is a hang
\* unless it is an acceptable final state, in which the explicit Terminated step is enabled.
Complete(f) == fs[f] \in {"done", "err"}
AcceptableFinal ==
  \A f \in Fut : \/ Complete(f)
                 \/ (f[1] = "WI" /\ ~epClosed["B"])      \* nobody closed the endpoint
                 \/ (f[1] = "CL" /\ Open("A"))           \* nobody closed the connection
                 \/ (f[1] \in {"DR", "DR2"} /\ Open("B"))           \* datagrams may be lost
                 \/ KnownStranded(f)
Terminated == AcceptableFinal /\ UNCHANGED vars
\* the same without the named deviations (used by the control runs: must be VIOLATED exactly
\* in the configurations that contain a deviation scenario)
HangFree ==
  (~ENABLED Progress) =>
     \A f \in Fut : \/ Complete(f)
                    \/ (f[1] = "WI" /\ ~epClosed["B"])
                    \/ (f[1] = "CL" /\ Open("A"))
                    \/ (f[1] \in {"DR", "DR2"} /\ Open("B"))
Next == Progress \/ Terminated

Spec == Init /\ [][Next]_vars
\* the application keeps polling what was woken, the drivers keep running; closing, stopping,
\* resetting, losing datagrams and dropping futures are never forced
FairSpec == Init /\ [][Next]_vars /\ WF_vars(AppStep) /\ WF_vars(DriverStep)

\* ===========================================================================
\* properties
\* ===========================================================================
FsVals == {"idle", "pend", "woken", "done", "err"}
TypeOK == /\ fs \in [Fut -> FsVals]
          /\ \A x \in Sides, t \in Tables : tab[x][t] \subseteq Fut
          /\ \A s \in Streams : sent[s] \in 0..Units /\ credit[s] \in 0..(Units + win)

\* (1) in order, exactly once: what the reader got, what is buffered for it and what is still
\*     in flight is exactly what was written, in that order (unless the stream was cut short)
Cut(s) == finS[s] = "reset" \/ stopS[s]
InOrderExactlyOnce ==
  \A s \in Streams :
    /\ got[s] = SeqN(1, Len(got[s]))
    /\ ~Cut(s) => got[s] \o rbuf[s] \o wire[s] = SeqN(1, sent[s])
\* (2) end-of-stream only after finish and after the last byte
ReaderOf(s) == {j \in Streams : rs[j] = s}
FinAfterLastByte ==
  \A j \in Streams : (ph[Rf(j)] = "end" /\ fs[Rf(j)] = "done" /\ ~stopS[rs[j]]) =>
      finS[rs[j]] = "fin" /\ Len(got[rs[j]]) = sent[rs[j]] /\ sent[rs[j]] = total[rs[j]]
\* (3) flow control: the writer is never more than a window ahead of the reading application
FlowControl == /\ \A s \in Streams : sent[s] <= Len(got[s]) + win /\ sent[s] <= credit[s]
               /\ TotalSent <= Sum([t \in Streams |-> Len(got[t])]) + ConnWin
               /\ Len(openSeq) <= maxS
               /\ maxS + msWire <= maxs0 + Cardinality({s \in Streams : freed[s]})

\* (4) no stranded future: a future whose poll returned Pending is registered in the table that
\*     the event it waits for wakes
\* the authoritative map "what a blocked call of this kind registers in" (also used by
\* Gen_QuicWakers to enumerate the combinations the harness builds)
KindTable(k) ==
  CASE k = "open"           -> "stream_available"      \* open_uni_wait / open_bi_wait  [dir]
    [] k = "write"          -> "writable"              \* SendStream::write*            [stream id]
    [] k = "stopped"        -> "stopped"               \* SendStream::stopped           [stream id]
    [] k = "accept"         -> "stream_opened"         \* accept_uni / accept_bi        [dir]
    [] k = "read"           -> "readable"              \* RecvStream::read*, received_reset [stream id]
    [] k = "send_datagram"  -> "datagrams_unblocked"
    [] k = "recv_datagram"  -> "datagram_received"
    [] k = "connecting"     -> "on_connected"          \* one slot
    [] k = "accepted_0rtt"  -> "on_connected"          \* the same slot
    [] k = "handshake_data" -> "on_handshake_data"     \* one slot, one possible waiter (&mut self)
    [] k = "closed"         -> "closed_join"
    [] k = "wait_incoming"  -> "incoming"
    [] OTHER                -> "none"
KindOf(f) ==
  CASE f[1] = "W" -> (IF ph[f] \in {"open", "write", "stopped"} THEN ph[f] ELSE "none")
    [] f[1] = "R" -> (IF ph[f] \in {"accept", "read"} THEN ph[f] ELSE "none")
    [] f[1] = "DS" -> "send_datagram"
    [] f[1] \in {"DR", "DR2"} -> "recv_datagram"
    [] f[1] = "CN" -> "connecting"
    [] f[1] = "HD" -> "handshake_data"
    [] f[1] \in {"Z1", "Z2"} -> "accepted_0rtt"
    [] f[1] = "CL" -> "closed"
    [] f[1] = "WI" -> "wait_incoming"
TableOf(f) == KindTable(KindOf(f))
Registered(f) == f \in tab[SideOf(f)][TableOf(f)]

NoStrandedFuture ==
  \A f \in Fut : fs[f] = "pend" => (Registered(f) \/ OnConnectedOverwritten(f))
NoStrandedFutureStrict == \A f \in Fut : fs[f] = "pend" => Registered(f)

\* (5) no lost wake-up: a Pending future is never left with a poll that would return Ready
WouldBeReady(f) ==
  LET x == SideOf(f)  s == StreamOf(f) IN
  \/ ~Open(x) /\ f[1] \notin {"CL", "WI"}
  \/ f[1] = "W" /\ ph[f] = "open" /\ Len(openSeq) < maxS
  \/ f[1] = "W" /\ ph[f] = "write" /\ (stopD[s] \/ (sent[s] < credit[s] /\ TotalSent < cmax))
  \/ f[1] = "W" /\ ph[f] = "stopped" /\ (stopD[s] \/ acked[s])
  \/ f[1] = "R" /\ ph[f] = "accept" /\ nAcc < annUpTo
  \/ f[1] = "R" /\ ph[f] = "read" /\ (Len(rbuf[s]) > 0 \/ finD[s] # "no")
  \/ f[1] = "DS" /\ Len(dgOut) < DgCap
  \/ f[1] \in {"DR", "DR2"} /\ Len(dgBuf) > 0
  \/ f[1] \in {"CN", "Z1", "Z2"} /\ hs = "done"
  \/ f[1] = "HD" /\ hs # "init"
  \/ f[1] = "CL" /\ ~drv["A"] /\ ~Open("A")
  \/ f[1] = "WI" /\ epClosed["B"]
NoLostWakeup == \A f \in Fut : fs[f] = "pend" => (~WouldBeReady(f) \/ OnConnectedOverwritten(f))

\* (6) after close: every table of the side is empty and stays empty
ClosedTablesEmpty == \A x \in Sides : ~Open(x) => \A t \in ConnTables : tab[x][t] = {}
\* and no future of that side is left Pending (they were all woken, or the named deviation)
ClosedNobodyPending ==
  \A f \in Fut : (~Open(SideOf(f)) /\ f[1] \notin {"CL", "WI"}) => (fs[f] # "pend" \/ OnConnectedOverwritten(f))
\* a future of a closed side that polls gets an error, never a value out of thin air:
\* checked as an action property (only buffered stream data may still be handed out)
ErrorAfterClose ==
  [][\A f \in Fut :
       (~Open(SideOf(f)) /\ fs[f] \in {"idle", "woken"} /\ fs'[f] = "done" /\ f[1] \notin {"CL", "WI"})
         => \/ f[1] = "R" /\ finD[StreamOf(f)] = "fin"              \* data + FIN were already here
            \/ f[1] = "W" /\ ph[f] = "stopped" /\ (stopD[f[2]] \/ acked[f[2]])]_vars

\* (7) independence: a step of stream s leaves the data of every other stream alone
StreamData(s) == <<sent[s], wire[s], rbuf[s], got[s], finS[s], finD[s], stopS[s], stopD[s], acked[s]>>
Independence ==
  [][\A s \in Streams : StreamData(s)' # StreamData(s) =>
        \A t \in Streams \ {s} : StreamData(t)' = StreamData(t)]_vars

\* ===========================================================================
\* contract level: what an application history may look like.  The same operators are
\* (a) implied by the model above (AbsInv / AbsRefines, checked by TLC) and
\* (b) used by Trace_Quic.tla to validate histories recorded from the real endpoints,
\*     where the unit is a byte instead of an abstract chunk.
\* a = [opened, wr, rd, fin, eof, cut], functions over stream numbers.
\* ===========================================================================
AInv(a, W) ==
  \A s \in DOMAIN a.wr :
    /\ a.rd[s] <= a.wr[s]                                      \* nothing out of thin air
    /\ (W > 0 /\ ~a.cut[s]) => a.wr[s] <= a.rd[s] + W          \* a slow reader delays the writer
    /\ a.eof[s] => (a.fin[s] = "fin" /\ a.rd[s] = a.wr[s])     \* FIN after the last byte
AOpenOk(a, s, same, maxs) ==
  /\ ~a.opened[s]
  /\ Cardinality({t \in same : a.opened[t]})
       < maxs + Cardinality({t \in same : a.opened[t] /\ (a.eof[t] \/ a.cut[t])})
AOpen(a, s) == [a EXCEPT !.opened[s] = TRUE]
AWriteOk(a, s, n, W) ==
  /\ a.opened[s] /\ a.fin[s] = "no" /\ n >= 1
  /\ (W > 0 /\ ~a.cut[s]) => a.wr[s] + n <= a.rd[s] + W
AWrite(a, s, n) == [a EXCEPT !.wr[s] = @ + n]
AReadOk(a, s, off, n) == /\ ~a.eof[s] /\ n >= 1 /\ off = a.rd[s] /\ a.rd[s] + n <= a.wr[s]
ARead(a, s, n) == [a EXCEPT !.rd[s] = @ + n]
AFinOk(a, s) == a.opened[s] /\ a.fin[s] = "no"
AFin(a, s, how) == [a EXCEPT !.fin[s] = how]
AEofOk(a, s) == /\ ~a.eof[s] /\ a.fin[s] = "fin" /\ a.rd[s] = a.wr[s]
AEof(a, s) == [a EXCEPT !.eof[s] = TRUE]
ACut(a, s) == [a EXCEPT !.cut[s] = TRUE]

\* projection of the model state
ReaderDone(s) == \E j \in Streams : rs[j] = s /\ ph[Rf(j)] = "end"
Abs == [opened |-> [s \in Streams |-> IsOpen(s)],
        wr     |-> sent,
        rd     |-> [s \in Streams |-> Len(got[s])],
        fin    |-> finS,
        eof    |-> [s \in Streams |-> ReaderDone(s) /\ finD[s] = "fin" /\ ~stopS[s]],
        cut    |-> [s \in Streams |-> freed[s] /\ ~(finD[s] = "fin" /\ ~stopS[s])]]
AbsInv == AInv(Abs, win)
AbsRefines ==
  [][\A s \in Streams :
       /\ (Abs'.opened[s] /\ ~Abs.opened[s]) => AOpenOk(Abs, s, Streams, maxs0)
       /\ Abs'.wr[s] > Abs.wr[s] => AWriteOk(Abs, s, Abs'.wr[s] - Abs.wr[s], win)
       /\ Abs'.rd[s] > Abs.rd[s] => AReadOk(Abs, s, Abs.rd[s], Abs'.rd[s] - Abs.rd[s])
       /\ (Abs'.fin[s] # Abs.fin[s]) => AFinOk(Abs, s)
       /\ (Abs'.eof[s] /\ ~Abs.eof[s]) => AEofOk(Abs, s)]_vars

\* the connection of A is quiet: nothing is queued for its driver and no event is on its way to it
QuietA == /\ ~kick["A"] /\ cmw <= cmax /\ msWire = 0 /\ Len(dgOut) = 0 /\ ~closeWire["A"] /\ ~chan["A"]
          /\ \A s \in Streams : /\ cw[s] <= credit[s] /\ (finS[s] = "fin" => finOut[s])
                                /\ ~(finS[s] = "fin" /\ finD[s] = "fin" /\ ~acked[s])
                                /\ ~(stopS[s] /\ ~stopD[s] /\ ~acked[s])
\* finishing yields end-of-stream at the peer (needs the wake in finish: the connection may be quiet)
EofArrives ==
  \A s \in Streams : (finS[s] = "fin") ~> (finD[s] = "fin" \/ stopS[s] \/ ~Open("A") \/ ~Open("B"))

\* liveness on FairSpec
Termination == <>[]AcceptableFinal
\* a writer blocked on the window proceeds when the reader drains
BlockedWriterProceeds ==
  \A s \in Streams : (fs[Wf(s)] = "pend" /\ ph[Wf(s)] = "write") ~> (fs[Wf(s)] # "pend")
\* close => every pending future of the side completes
CloseCompletes ==
  \A x \in Sides : (~Open(x)) ~> (\A f \in Fut : (SideOf(f) = x /\ f[1] \notin {"WI"}) => Complete(f))
=============================================================================
