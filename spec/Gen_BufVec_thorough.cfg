CONSTANTS
  N = 3
  Caps = {1, 2, 3}
  MaxSteps = 6
SPECIFICATION GSpec
INVARIANTS Emit
