CONSTANTS
  Drvs = {"iour", "poll"}
  PoolBuf = 2
  MaxDgram = 4
  DevMultiDrop = TRUE
  DevIncomingDrop = TRUE
  DevManagedEmpty = TRUE
  DevPollMultiLen = FALSE
  Part = "stream"
  Feat = {"zc", "managed", "multi"}
  Sizes = {0, 1, 3}
  Caps = {0, 1, 3}
  SockBuf = 2
  MaxOff = 3
  Dirs = {1}
  Conns = {1, 2, 3}
  DgSocks = {"a", "b", "c"}
  MaxDg = 3
SPECIFICATION SpecStream
VIEW mcview
INVARIANTS NoLostBytes
