CONSTANTS
  Cap = 4
  InitLens = {0, 1, 2, 4}
  Kinds = {"exact", "grow", "fixed"}
  MaxDepth = 3
  MaxSteps = 6
SPECIFICATION Spec
INVARIANTS ContractModuloKnown AlwaysInside
