CONSTANTS
  RW = {"a"}
  WW = {"b"}
  Kinds = {"ready", "io"}
  TokModes = {"no"}
  MaxPW = 1
  MaxFill = 1
  AllowShut = TRUE
  Eager = FALSE
  Strict = FALSE
  Mut = "none"
  Driver = "iour"
SPECIFICATION FairSpec
PROPERTIES WokenModuloKnown ServedModuloKnown WokenStrict
