---------------------------- MODULE Gen_Process ----------------------------
(* Behaviour printer for Process: one JSON object per terminal state of every program of the
   configured families (the program itself plus what the model says the run ends with).
   lib/checks/c20.py groups the terminal states by program; the harness bin replay_process
   runs each program against the real compio-process with real helper children. *)
EXTENDS Process, Json

Outcome == [prog |-> prog,
            done |-> AllDone,
            out |-> Len(gotO), err |-> Len(gotE), cin |-> Len(cin), sent |-> wsent,
            status |-> wres, blocked |-> blk,
            w |-> wpc, ro |-> ropc, re |-> repc, t |-> tpc, ch |-> ch]

Emit == Terminal => PrintT(<<"REPLAY", ToJson(Outcome)>>)
=============================================================================
