CONSTANTS
  N = 2
  Caps = {1, 2}
  MaxSteps = 4
SPECIFICATION GSpec
INVARIANTS Emit
