CONSTANTS
  NS = 1
  Units = 1
  Lens = {1}
  Wins = {1}
  ConnWin = 1
  MaxStreamss = {1}
  NDg = 0
  DgCap = 1
  DgReaders = 1
  DgWakeAll = TRUE
  FinishWakes = TRUE
  AllowReset = FALSE
  AllowStop = FALSE
  AllowLoss = FALSE
  Extra = {"CL"}
  CloseKinds = {"localB"}
  Deviations = {"drop_closed"}
SPECIFICATION Spec
INVARIANTS TypeOK InOrderExactlyOnce FinAfterLastByte FlowControl NoStrandedFuture NoLostWakeup ClosedTablesEmpty ClosedNobodyPending HangFree
PROPERTIES ErrorAfterClose
