\* CONTROL: behaviour before the fix commit (Fix = FALSE); this run MUST violate the property below
CONSTANTS
  Limit = 1
  Jobs = {"j1", "j2"}
  Disp = {"D1"}
  NW = 2
  PanicJobs = {}
  Caught = TRUE
  DriverLoop = TRUE
  Fix = FALSE
  TimedFifo = FALSE
SPECIFICATION FairSpec
PROPERTIES SendCompletes
