CONSTANTS
  Limit = 1
  Jobs = {"j1", "j2"}
  Disp = {"D1"}
  NW = 2
  PanicJobs = {}
  Caught = TRUE
  DriverLoop = TRUE
  Fix = FALSE
  TimedFifo = FALSE
SPECIFICATION FairSpec
PROPERTIES SendCompletes
