---------------------------- MODULE MC_TermParseMut ----------------------------
(* an input family of TermParse in a module of its own: TLC evaluates every constant definition of the modules it
   loads when it starts *)
EXTENDS MC_TermParse
InputsMutated == MutatedOk(TokNames, Sigma) \cup Truncated(TokNames, {"a", "esc", "up", "eacute"}) \cup LongCsi
=============================================================================
