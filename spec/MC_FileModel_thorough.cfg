CONSTANTS
  Devs = {}
  Groups = {"data", "open", "ns", "pipe"}
  Drivers = {"iour", "poll", "iour_blk"}
  MaxOps = 3
  InitFiles <- Init_Narrow
  Offsets <- Off_Wide
  RBufs <- RB_Wide
  WBufs <- WB_Wide
  VRBufs <- VRB_Wide
  VWBufs <- VWB_Wide
  VOffsets <- VOff_Wide
  SetLens = {0, 2, 5}
  PlainData = {"sync_all", "sync_data", "metadata"}
  CurBufs <- RB_Narrow
  CurWBufs <- WB_Narrow
  AppendModes = {FALSE, TRUE}
  OpenOpts <- AllOpts
  OpenPaths = {"f", "d"}
  OpenData = {"read_at", "write_at", "metadata", "set_len"}
  NsInits = {"f", "fd"}
  NsOps <- Ns_Wide
  PWBufs <- PW_Wide
  PRBufs <- PR_Wide
  PVWBufs <- PVW_Wide
  PVRBufs <- PVR_Wide
SPECIFICATION Spec
INVARIANTS PathsAgree DevOnlyWhereNamed Sanity
