CONSTANTS
  Cfgs <- CfgsAll
  Side = "w"
  MaxSrc = 24
  MaxAcc = 24
  MaxSrcA = 24
  MaxAccA = 24
  Sizes = {0, 1, 2, 3}
  Ks = {1, 2, 3}
  Fuel = 3
  Detail = TRUE
  OldReadLimit = FALSE
  WakeAll = TRUE
  MaxSteps = 8
  Cover = FALSE
  UninitSizes = {0, 1, 2, 3}
SPECIFICATION GSpec
INVARIANTS ReadFifo WriteFifo WriteLimit ReadLimitStrict LimitReported RWakeCover WWakeCover Sane Emit

