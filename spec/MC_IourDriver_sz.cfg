CONSTANTS
  o1 = o1
  o2 = o2
  o3 = o3
  Ops = {o1, o2}
  Kind <- KindSZ
  SQCAP = 1
  MaxMore = 2
  Eager = FALSE
  FixCancelPush = TRUE
  FixDrainMore = TRUE
SPECIFICATION Spec
VIEW View
INVARIANTS Safe TypeOK InFlightIsLeaked
