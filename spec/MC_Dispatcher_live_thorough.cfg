CONSTANTS
  MaxTasks = 2
  MaxWorkers = 2
  MaxSenders = 1
  NWChoices = {2}
  ModeChoices = {TRUE, FALSE}
  FaultChoices = {"none", "boot", "poll"}
  PoolChoices = {1, 2}
  KindChoices = {"async", "blocking"}
  BodyPanics = TRUE
  BodyUsesPool = TRUE
  JoinerOnPool = FALSE
  ReceiverDrops = FALSE
  SkipIfReceiverGone = FALSE
SPECIFICATION FairSpec
INVARIANTS TypeOK ExactlyOnce ResultDelivery JoinedFirst SeqNoOverlap SeqAllFinished AllStartedAtJoin ConcNothingLeft JoinAfterExit
PROPERTIES EventuallyStarted EventuallyPooledStarted JoinReturns ReceiverResolves
