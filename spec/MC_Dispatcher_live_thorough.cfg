CONSTANTS
  MaxTasks = 2
  MaxWorkers = 2
  MaxSenders = 1
  NWChoices = {2}
  ModeChoices = {TRUE, FALSE}
  FaultChoices = {"none", "boot", "poll"}
  PoolChoices = {2}
  KindChoices = {"async", "blocking"}
  BodyPanics = TRUE
  BodyUsesPool = TRUE
SPECIFICATION FairSpec
INVARIANTS TypeOK ExactlyOnce ResultDelivery JoinedFirst SeqNoOverlap SeqAllFinished ConcNothingLeft JoinAfterExit
PROPERTIES EventuallyStarted EventuallyPooledStarted JoinReturns ReceiverResolves
