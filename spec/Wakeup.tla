------------------------------- MODULE Wakeup -------------------------------
(* C03 - a wake-up from any thread is never lost.

   Implementation-shaped model of the cross-thread wake path of compio, one action per
   segment between two hook sites (cfg(compio_verif)) of the real code, so that a behaviour
   of this module is a schedule the harness can steer real threads through:

     waker thread, main future        compio-driver  sys/driver/iour/notify.rs  Notify::wake_by_ref
        [w.begin] set cond   [awake.wake] fetch_or(NOTIFIED)   [notify.write] write(eventfd) iff previous = IDLE
     waker thread, spawned task       compio-executor task/remote.rs Remote::schedule
        [w.begin] set cond   [exec.state.start_scheduling]   [exec.remote.reserve] pending += 1
        [exec.remote.push] sync.push (full: wake the driver once, then yield and retry)
        then wake the driver as above     [exec.state.finish_scheduling]
     runtime thread, Runtime::block_on   compio-runtime lib.rs, compio-executor lib.rs, iour/mod.rs
        [rt.poll_main] poll the main future
        [exec.drain.load] pending = 0 ? skip : pop ...  [exec.drain.popped] make_hot, pop ... [exec.drain.sub] pending -= n
        [exec.state.unschedule] clear SCHEDULED, poll the task
        [awake.reset] need_wait = ~NOTIFIED; flag := IDLE     [iour.arm_notifier] push the multishot PollAdd
        [drv.wait.enter] io_uring_enter: submit; block iff need_wait and no hot task remains
        [drv.wait.leave]   [awake.set] flag := AWAKE   [notify.clear] read(eventfd) for a NOTIFY completion   [awake.set]
     external event loop (compio-compat style)  instead of blocking in its own loop the runtime is driven by
        flush() = submit + reset (reports "notified"), the loop waits for the driver's descriptor to become readable,
        then poll_with(0)

   The kernel is the environment: an armed multishot poll on the eventfd posts one NOTIFY completion per write;
   a PollAdd submitted while the eventfd is readable completes at once.  With Eager = TRUE (schedule generation)
   these happen immediately, otherwise at any later time (the checked model is a superset of reality).        *)
EXTENDS Integers, Sequences, FiniteSets, TLC

CONSTANTS Wakers,        \* waking threads
          Target,        \* [Wakers -> {"main", "t1", "t2"}]
          Tasks,         \* subset of {"t1", "t2"}: spawned tasks that exist
          QCap,          \* capacity of the cross-thread queue (>= 1)
          Mode,          \* "block_on" | "external"
          Driver,        \* "iour" | "poll"
          Eager,         \* schedule-generation variant
          Overflow,      \* TRUE: a task poll may submit operations into a full submission queue (push_raw: submit, drain the
                         \*       CQ with poll_entries - which must leave the AwakeFlag alone - and retry)
          WakeAfterPush, \* TRUE: Remote::schedule always wakes the driver after its push landed (repaired); FALSE: not when it
                         \*       already woke it because the queue was full (lost wake-up, fixed finding C03-remote-full-queue)
          ArmInFlush     \* TRUE: flush() also arms the notifier (repaired behaviour of the external mode)

IDLE == 0  NOTIFIED == 1  AWAKE == 2
HasN(f) == f = 1 \/ f = 3
OrN(f) == IF f = 0 THEN 1 ELSE IF f = 2 THEN 3 ELSE f

VARIABLES flag,          \* AwakeFlag
          efd,           \* eventfd counter > 0
          armed,         \* multishot PollAdd on the eventfd is live in the kernel
          sqNotif,       \* the PollAdd entry sits in the SQ, not yet submitted
          needPush,      \* DriverFlags::NEED_PUSH_NOTIFIER
          cq,            \* number of unprocessed NOTIFY completions
          batch,         \* completions in the snapshot poll_entries is iterating over
          owed,          \* eventfd writes the kernel has not yet turned into completions (non-eager)
          syncq, pending,\* cross-thread queue and its reservation counter
          sched,         \* [Tasks -> BOOLEAN] SCHEDULED bit
          scheduling,    \* [Tasks -> BOOLEAN] SCHEDULING bit
          hot,           \* Seq(Tasks) hot queue
          reg,           \* targets polled at least once (their waker can be in another thread's hands)
          cond, seen,    \* [Wakers -> BOOLEAN] ghost: condition set before the wake / observed by a poll of the target
          pcW, wNotified,\* waker program counters; "already woke the driver because the queue was full"
          pcR, needWait, drained, inKernel,
          lastPopped,    \* element returned by the last sync.pop (made hot in the next segment)
          extNotified,   \* external mode: what flush() reported
          lastOv         \* the last task poll overflowed the submission queue (schedule annotation)

vars == <<flag, efd, armed, sqNotif, needPush, cq, batch, owed, syncq, pending, sched, scheduling, hot, reg,
          cond, seen, pcW, wNotified, pcR, needWait, drained, inKernel, lastPopped, extNotified, lastOv>>

TaskWakers == {w \in Wakers : Target[w] # "main"}

\* the tasks were spawned before block_on: they are scheduled and hot, nobody has been polled yet
TaskSeq == IF Tasks = {} THEN <<>> ELSE IF Tasks = {"t1"} THEN <<"t1">> ELSE <<"t1", "t2">>
Init == /\ flag = IDLE /\ efd = FALSE /\ armed = (Driver = "poll") /\ sqNotif = FALSE /\ needPush = (Driver = "iour")
        /\ cq = 0 /\ batch = 0 /\ owed = 0
        /\ syncq = <<>> /\ pending = 0
        /\ sched = [t \in Tasks |-> TRUE] /\ scheduling = [t \in Tasks |-> FALSE] /\ hot = TaskSeq /\ reg = {}
        /\ cond = [w \in Wakers |-> FALSE] /\ seen = [w \in Wakers |-> FALSE]
        /\ pcW = [w \in Wakers |-> "begin"] /\ wNotified = [w \in Wakers |-> FALSE]
        /\ pcR = "pollMain" /\ needWait = FALSE /\ drained = 0 /\ inKernel = FALSE
        /\ lastPopped = "none" /\ extNotified = FALSE /\ lastOv = FALSE

\* ------------------------------------------------------------------ kernel
\* an eventfd write: the armed multishot poll produces a completion (at once when Eager)
WriteEffects == /\ efd' = TRUE
                /\ IF armed /\ Eager THEN cq' = cq + 1 /\ owed' = owed
                   ELSE IF armed THEN owed' = owed + 1 /\ cq' = cq
                   ELSE UNCHANGED <<cq, owed>>
KPost == /\ ~Eager /\ owed > 0 /\ armed
         /\ owed' = owed - 1 /\ cq' = cq + 1
         /\ UNCHANGED <<flag, efd, armed, sqNotif, needPush, batch, syncq, pending, sched, scheduling, hot, reg, cond, seen,
                        pcW, wNotified, pcR, needWait, drained, inKernel, lastPopped, extNotified, lastOv>>

\* ------------------------------------------------------------------ wakers
WU == <<armed, sqNotif, needPush, batch, hot, reg, seen, pcR, needWait, drained, inKernel, lastPopped, extNotified, lastOv>>

\* [w.begin] the condition the target is waiting for becomes true, then wake
WBegin(w) ==
  /\ pcW[w] = "begin" /\ Target[w] \in reg
  /\ cond' = [cond EXCEPT ![w] = TRUE]
  /\ pcW' = [pcW EXCEPT ![w] = IF Target[w] = "main" THEN "fetchOr" ELSE "startSched"]
  /\ UNCHANGED <<flag, efd, cq, owed, syncq, pending, sched, scheduling, wNotified>> /\ UNCHANGED WU

\* [exec.state.start_scheduling]
WStartSched(w) ==
  /\ pcW[w] = "startSched"
  /\ LET t == Target[w] IN
       /\ sched' = [sched EXCEPT ![t] = TRUE]
       /\ scheduling' = [scheduling EXCEPT ![t] = TRUE]
       /\ pcW' = [pcW EXCEPT ![w] = IF sched[t] THEN "finish" ELSE "reserve"]
  /\ UNCHANGED <<flag, efd, cq, owed, syncq, pending, cond, wNotified>> /\ UNCHANGED WU

\* [exec.remote.reserve]
WReserve(w) ==
  /\ pcW[w] = "reserve"
  /\ pending' = pending + 1
  /\ pcW' = [pcW EXCEPT ![w] = "push"]
  /\ UNCHANGED <<flag, efd, cq, owed, syncq, sched, scheduling, cond, wNotified>> /\ UNCHANGED WU

\* [exec.remote.push] / [exec.remote.push_retry]: one attempt
WPush(w) ==
  /\ pcW[w] \in {"push", "pushRetry"}
  /\ IF Len(syncq) < QCap
       THEN /\ syncq' = Append(syncq, Target[w])
            /\ pcW' = [pcW EXCEPT ![w] = IF wNotified[w] /\ ~WakeAfterPush THEN "finish" ELSE "fetchOr"]
       ELSE /\ UNCHANGED syncq
            /\ pcW' = [pcW EXCEPT ![w] = IF wNotified[w] THEN "pushRetry" ELSE "fetchOrFull"]
  /\ UNCHANGED <<flag, efd, cq, owed, pending, sched, scheduling, cond, wNotified>> /\ UNCHANGED WU

\* [awake.wake] fetch_or(NOTIFIED); the eventfd is written iff the previous value was IDLE
WFetchOr(w) ==
  /\ pcW[w] \in {"fetchOr", "fetchOrFull"}
  /\ flag' = OrN(flag)
  /\ LET full == pcW[w] = "fetchOrFull" IN
       IF flag = IDLE
         THEN pcW' = [pcW EXCEPT ![w] = IF full THEN "writeFull" ELSE "write"] /\ UNCHANGED wNotified
         ELSE IF full
           THEN \* woke the driver because the queue was full: the same segment retries the push
                /\ wNotified' = [wNotified EXCEPT ![w] = TRUE]
                /\ pcW' = [pcW EXCEPT ![w] = "pushAfterWake"]
           ELSE /\ pcW' = [pcW EXCEPT ![w] = IF Target[w] = "main" THEN "done" ELSE "finish"]
                /\ UNCHANGED wNotified
  /\ UNCHANGED <<efd, cq, owed, syncq, pending, sched, scheduling, cond>> /\ UNCHANGED WU

\* [notify.write]
WWrite(w) ==
  /\ pcW[w] \in {"write", "writeFull"}
  /\ WriteEffects
  /\ IF pcW[w] = "writeFull"
       THEN wNotified' = [wNotified EXCEPT ![w] = TRUE] /\ pcW' = [pcW EXCEPT ![w] = "pushAfterWake"]
       ELSE UNCHANGED wNotified /\ pcW' = [pcW EXCEPT ![w] = IF Target[w] = "main" THEN "done" ELSE "finish"]
  /\ UNCHANGED <<flag, syncq, pending, sched, scheduling, cond>> /\ UNCHANGED WU

\* the push attempt that follows the wake in the same segment (no hook site in between)
WPushAfterWake(w) ==
  /\ pcW[w] = "pushAfterWake"
  /\ IF Len(syncq) < QCap
       THEN syncq' = Append(syncq, Target[w]) /\ pcW' = [pcW EXCEPT ![w] = IF WakeAfterPush THEN "fetchOr" ELSE "finish"]
       ELSE UNCHANGED syncq /\ pcW' = [pcW EXCEPT ![w] = "pushRetry"]
  /\ UNCHANGED <<flag, efd, cq, owed, pending, sched, scheduling, cond, wNotified>> /\ UNCHANGED WU

\* [exec.state.finish_scheduling]
WFinish(w) ==
  /\ pcW[w] = "finish"
  /\ scheduling' = [scheduling EXCEPT ![Target[w]] = FALSE]
  /\ pcW' = [pcW EXCEPT ![w] = "done"]
  /\ UNCHANGED <<flag, efd, cq, owed, syncq, pending, sched, cond, wNotified>> /\ UNCHANGED WU

WStep(w) == \/ WBegin(w) \/ WStartSched(w) \/ WReserve(w) \/ WPush(w) \/ WFetchOr(w) \/ WWrite(w)
            \/ WPushAfterWake(w) \/ WFinish(w)

\* ------------------------------------------------------------------ runtime thread
RU == <<efd, owed, cond, pcW, wNotified, scheduling>>
RX == <<lastPopped, extNotified>>

AfterDrain == IF hot # <<>> THEN "runTask" ELSE (IF Mode = "block_on" THEN "reset" ELSE "flush")

\* [rt.poll_main] poll the main future, then tick() up to drain_sync's load
RPollMain ==
  /\ pcR = "pollMain"
  /\ seen' = [w \in Wakers |-> IF Target[w] = "main" THEN cond[w] ELSE seen[w]]
  /\ reg' = reg \cup {"main"}
  /\ pcR' = "drainLoad"
  /\ UNCHANGED <<flag, armed, sqNotif, needPush, cq, syncq, pending, sched, hot, needWait, drained, inKernel>> /\ UNCHANGED RU /\ UNCHANGED RX
  /\ UNCHANGED batch
  /\ UNCHANGED lastOv

\* [exec.drain.load] pending = 0 => skip the queue; else the first pop
RDrainLoad ==
  /\ pcR = "drainLoad"
  /\ IF pending = 0
       THEN pcR' = AfterDrain /\ UNCHANGED <<syncq, hot, drained, lastPopped>>
       ELSE IF syncq = <<>>
         THEN pcR' = AfterDrain /\ UNCHANGED <<syncq, hot, drained, lastPopped>>   \* reserved but not pushed yet
         ELSE /\ drained' = 1 /\ pcR' = "popped" /\ lastPopped' = Head(syncq)
              /\ syncq' = Tail(syncq) /\ hot' = hot                            \* make_hot happens in the next segment
  /\ UNCHANGED <<flag, armed, sqNotif, needPush, cq, pending, sched, seen, needWait, inKernel, extNotified>> /\ UNCHANGED RU
  /\ UNCHANGED reg
  /\ UNCHANGED batch
  /\ UNCHANGED lastOv

\* [exec.drain.popped] make_hot(id) of the popped element (kept in `lastPopped`), then the next pop
RPopped ==
  /\ pcR = "popped"
  /\ LET h2 == IF \E i \in 1..Len(hot) : hot[i] = lastPopped THEN hot ELSE Append(hot, lastPopped) IN
       IF syncq = <<>>
         THEN hot' = h2 /\ pcR' = "drainSub" /\ UNCHANGED <<syncq, drained, lastPopped>>
         ELSE hot' = h2 /\ syncq' = Tail(syncq) /\ lastPopped' = Head(syncq) /\ drained' = drained + 1 /\ pcR' = "popped"
  /\ UNCHANGED <<flag, armed, sqNotif, needPush, cq, pending, sched, seen, needWait, inKernel, extNotified>> /\ UNCHANGED RU
  /\ UNCHANGED reg
  /\ UNCHANGED batch
  /\ UNCHANGED lastOv

\* [exec.drain.sub]
RDrainSub ==
  /\ pcR = "drainSub"
  /\ pending' = pending - drained /\ drained' = 0
  /\ pcR' = AfterDrain
  /\ UNCHANGED <<flag, armed, sqNotif, needPush, cq, syncq, sched, hot, seen, needWait, inKernel, lastPopped, extNotified>> /\ UNCHANGED RU
  /\ UNCHANGED reg
  /\ UNCHANGED batch
  /\ UNCHANGED lastOv

\* [exec.state.unschedule] Task::run: clear SCHEDULED, poll the task's future
RRunTask ==
  /\ pcR = "runTask" /\ hot # <<>>
  /\ LET t == Head(hot) IN
       /\ sched' = [sched EXCEPT ![t] = FALSE]
       /\ seen' = [w \in Wakers |-> IF Target[w] = t THEN cond[w] ELSE seen[w]]
       /\ reg' = reg \cup {t}
  /\ hot' = Tail(hot)
  /\ \E ov \in (IF Overflow /\ Driver = "iour" THEN BOOLEAN ELSE {FALSE}) :
       /\ lastOv' = ov
       /\ pcR' = IF ov THEN "ovEnter"
                 ELSE IF Tail(hot) # <<>> THEN "runTask" ELSE (IF Mode = "block_on" THEN "reset" ELSE "flush")
  /\ UNCHANGED <<flag, armed, sqNotif, needPush, cq, syncq, pending, needWait, drained, inKernel, lastPopped, extNotified>> /\ UNCHANGED RU
  /\ UNCHANGED batch

\* [awake.reset]
RReset ==
  /\ pcR = "reset"
  /\ needWait' = ~HasN(flag) /\ flag' = IDLE
  /\ pcR' = IF needPush /\ Driver = "iour" THEN "arm" ELSE "enter"
  /\ UNCHANGED <<armed, sqNotif, needPush, cq, syncq, pending, sched, hot, seen, drained, inKernel, lastPopped, extNotified>> /\ UNCHANGED RU
  /\ UNCHANGED reg
  /\ UNCHANGED batch
  /\ UNCHANGED lastOv

\* [iour.arm_notifier]
RArm ==
  /\ pcR = "arm"
  /\ sqNotif' = TRUE /\ needPush' = FALSE /\ pcR' = "enter"
  /\ UNCHANGED <<flag, armed, cq, syncq, pending, sched, hot, seen, needWait, drained, inKernel, lastPopped, extNotified>> /\ UNCHANGED RU
  /\ UNCHANGED reg
  /\ UNCHANGED batch
  /\ UNCHANGED lastOv

\* [drv.wait.enter] io_uring_enter: submit the SQ; wait iff need_wait (block_on: and the timeout is not zero)
SubmitEffects ==
  /\ armed' = (armed \/ sqNotif) /\ sqNotif' = FALSE
  /\ IF sqNotif /\ ~armed /\ efd
       THEN (IF Eager THEN cq' = cq + 1 /\ UNCHANGED owed ELSE owed' = owed + 1 /\ UNCHANGED cq)
       ELSE UNCHANGED <<cq, owed>>
REnter ==
  /\ pcR = "enter"
  /\ SubmitEffects
  /\ inKernel' = (needWait /\ Mode = "block_on")     \* external mode: poll_with(Some(ZERO)) never blocks
  /\ pcR' = "leave"
  /\ UNCHANGED <<flag, efd, needPush, syncq, pending, sched, hot, seen, needWait, drained, lastPopped, extNotified, cond, pcW, wNotified, scheduling>>
  /\ UNCHANGED reg
  /\ UNCHANGED batch
  /\ UNCHANGED lastOv

\* [drv.wait.leave] returns at once when it did not have to wait, else when a completion is there
RLeave ==
  /\ pcR = "leave"
  /\ (inKernel => cq > 0)
  /\ inKernel' = FALSE
  /\ pcR' = "awake1"
  /\ IF Driver = "poll" THEN cq' = 0 /\ efd' = FALSE ELSE UNCHANGED <<cq, efd>>    \* Poller::wait consumes its own notification
  /\ UNCHANGED <<flag, armed, sqNotif, needPush, syncq, pending, sched, hot, seen, needWait, drained, lastPopped, extNotified>>
  /\ UNCHANGED <<owed, cond, pcW, wNotified, scheduling>>
  /\ UNCHANGED reg
  /\ UNCHANGED batch
  /\ UNCHANGED lastOv

\* [awake.set] first
RAwake1 ==
  /\ pcR = "awake1"
  /\ flag' = AWAKE
  /\ batch' = cq                                  \* poll_entries iterates a snapshot of the completion queue
  /\ pcR' = IF cq > 0 /\ Driver = "iour" THEN "clear"
            ELSE IF Driver = "poll" /\ Mode = "external" THEN "pollMain"    \* zero timeout, no events: ETIMEDOUT right here
            ELSE "awake2"
  /\ UNCHANGED <<armed, sqNotif, needPush, cq, syncq, pending, sched, hot, seen, needWait, drained, inKernel, lastPopped, extNotified>> /\ UNCHANGED RU
  /\ UNCHANGED reg
  /\ UNCHANGED lastOv

\* [notify.clear] poll_entries: NOTIFY completion(s): read the eventfd
RClear ==
  /\ pcR = "clear"
  /\ efd' = FALSE /\ cq' = cq - 1 /\ batch' = batch - 1      \* one Notifier::clear per NOTIFY completion
  /\ pcR' = IF batch > 1 THEN "clear" ELSE "awake2"
  /\ UNCHANGED <<flag, armed, sqNotif, needPush, owed, syncq, pending, sched, hot, seen, needWait, drained, inKernel, lastPopped, extNotified,
                 cond, pcW, wNotified, scheduling>>
  /\ UNCHANGED reg
  /\ UNCHANGED lastOv

\* [awake.set] second
RAwake2 ==
  /\ pcR = "awake2"
  /\ flag' = AWAKE
  /\ pcR' = "pollMain"
  /\ UNCHANGED <<armed, sqNotif, needPush, cq, syncq, pending, sched, hot, seen, needWait, drained, inKernel, lastPopped, extNotified>> /\ UNCHANGED RU
  /\ UNCHANGED reg
  /\ UNCHANGED batch
  /\ UNCHANGED lastOv

\* ---- external event loop -------------------------------------------------------------------
\* [drv.flush] Proactor::flush: submit, then reset; the loop then waits on the driver's descriptor
\* unless flush reported a notification
\* Proactor::flush, io_uring: submit_auto(0) = [drv.wait.enter] submit [drv.wait.leave], then reset;
\* polling driver: only the reset
RFlushArm ==
  /\ pcR = "flush" /\ Driver = "iour" /\ ArmInFlush /\ needPush
  /\ sqNotif' = TRUE /\ needPush' = FALSE /\ pcR' = "flushEnter"
  /\ UNCHANGED <<flag, armed, cq, syncq, pending, sched, hot, seen, needWait, drained, inKernel, lastPopped, extNotified, reg, batch>>
  /\ UNCHANGED RU
  /\ UNCHANGED lastOv

RFlush ==
  /\ Driver = "iour"
  /\ (pcR = "flushEnter" \/ (pcR = "flush" /\ ~(ArmInFlush /\ needPush)))
  /\ SubmitEffects
  /\ pcR' = "flushLeave"
  /\ UNCHANGED <<flag, efd, needPush, syncq, pending, sched, hot, seen, needWait, drained, inKernel, lastPopped, extNotified,
                 cond, pcW, wNotified, scheduling, reg>>
  /\ UNCHANGED batch
  /\ UNCHANGED lastOv

RFlushLeave ==
  /\ pcR = "flushLeave"
  /\ pcR' = "flushReset"
  /\ UNCHANGED <<flag, armed, sqNotif, needPush, cq, syncq, pending, sched, hot, seen, needWait, drained, inKernel, lastPopped, extNotified, reg, batch>>
  /\ UNCHANGED RU
  /\ UNCHANGED lastOv

\* [awake.reset] inside flush.  (Since compio ca1210a flush() also reports a non-empty completed channel and since
\* 3888dbb poll() does not return early after poll_blocking: thread-pool completions are not a wake source of this
\* module, so no step here changes; CompatLoop.tla, which EXTENDS this module, models both - XFlushReset, XPollBlocking.)
RFlushReset ==
  /\ (pcR = "flushReset" \/ (pcR = "flush" /\ Driver = "poll"))
  /\ extNotified' = HasN(flag) /\ flag' = IDLE
  /\ pcR' = "extWait"
  /\ UNCHANGED <<armed, sqNotif, needPush, cq, syncq, pending, sched, hot, seen, needWait, drained, inKernel, lastPopped, reg>> /\ UNCHANGED RU
  /\ UNCHANGED batch
  /\ UNCHANGED lastOv

\* the external loop: poll(2) on the ring fd (readable iff the CQ is non-empty) unless flush said "notified"
RExtWait ==
  /\ pcR = "extWait"
  /\ (extNotified \/ cq > 0)
  /\ pcR' = "reset"              \* poll_with(Some(ZERO)): Proactor::poll
  /\ UNCHANGED <<flag, armed, sqNotif, needPush, cq, syncq, pending, sched, hot, seen, needWait, drained, inKernel, lastPopped, extNotified>>
  /\ UNCHANGED RU
  /\ UNCHANGED reg
  /\ UNCHANGED batch
  /\ UNCHANGED lastOv

\* ---- push_raw with a full submission queue, inside a task poll ------------------------------------
\* [drv.wait.enter] submit_auto(0): submit the queue (no wait)
AfterOv == IF hot # <<>> THEN "runTask" ELSE (IF Mode = "block_on" THEN "reset" ELSE "flush")
ROvEnter ==
  /\ pcR = "ovEnter"
  /\ SubmitEffects
  /\ pcR' = "ovLeave"
  /\ UNCHANGED <<flag, efd, needPush, syncq, pending, sched, hot, seen, needWait, drained, inKernel, lastPopped, extNotified,
                 cond, pcW, wNotified, scheduling, reg, batch, lastOv>>
\* [drv.wait.leave] then poll_entries over a snapshot of the completion queue; the AwakeFlag is NOT touched
ROvLeave ==
  /\ pcR = "ovLeave"
  /\ batch' = cq
  /\ pcR' = IF cq > 0 THEN "ovClear" ELSE AfterOv
  /\ UNCHANGED <<flag, armed, sqNotif, needPush, cq, syncq, pending, sched, hot, seen, needWait, drained, inKernel, lastPopped,
                 extNotified, reg, lastOv>>
  /\ UNCHANGED RU
\* [notify.clear]
ROvClear ==
  /\ pcR = "ovClear"
  /\ efd' = FALSE /\ cq' = cq - 1 /\ batch' = batch - 1
  /\ pcR' = IF batch > 1 THEN "ovClear" ELSE AfterOv
  /\ UNCHANGED <<flag, armed, sqNotif, needPush, owed, syncq, pending, sched, hot, seen, needWait, drained, inKernel, lastPopped,
                 extNotified, cond, pcW, wNotified, scheduling, reg, lastOv>>

RStep == \/ RPollMain \/ RDrainLoad \/ RPopped \/ RDrainSub \/ RRunTask \/ RReset \/ RArm \/ REnter \/ RLeave
         \/ RAwake1 \/ RClear \/ RAwake2 \/ ROvEnter \/ ROvLeave \/ ROvClear \/ RFlushArm \/ RFlush \/ RFlushLeave \/ RFlushReset \/ RExtWait

Next == RStep \/ KPost \/ \E w \in Wakers : WStep(w)

Spec == Init /\ [][Next]_vars
FairSpec == Spec /\ WF_vars(RStep) /\ WF_vars(KPost) /\ \A w \in Wakers : WF_vars(WStep(w))

\* ------------------------------------------------------------------ properties
PendingBound == pending >= Len(syncq)
TypeOK == /\ flag \in 0..3 /\ pending \in 0..(Cardinality(Wakers) + 1) /\ Len(syncq) <= QCap
\* safety form of "never lost": the runtime is never parked in the kernel for ever while a wake is outstanding:
\* parked, nothing owed by the kernel, nothing in the CQ, all wakers finished, and some condition unseen
Stuck == /\ ((pcR = "leave" /\ inKernel) \/ (pcR = "extWait" /\ ~extNotified))
         /\ cq = 0 /\ batch = 0 /\ owed = 0
         /\ \A w \in Wakers : pcW[w] = "done"
         /\ \E w \in Wakers : ~seen[w]
NeverStuck == ~Stuck
\* liveness: every wake is followed by a poll of its target that observes the condition
NoLostWake == \A w \in Wakers : cond[w] ~> seen[w]
=============================================================================
