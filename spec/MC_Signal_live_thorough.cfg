CONSTANTS
  Threads = {1, 2}
  Layouts <- LayoutsLive
  Muts <- MutsNone
  Sigs = {"a", "b"}
  BadSigs = {"k"}
  MaxRaise = 1
  RaiseOn = {0, 1, 2}
  SpuriousPolls = FALSE
  FixLeak = FALSE
  MaxNL = 3
SPECIFICATION FairSpec
INVARIANTS Safe
PROPERTIES CallsReturn HandlersReturn EventuallyCompletes
