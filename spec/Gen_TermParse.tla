---------------------------- MODULE Gen_TermParse ----------------------------
(* Behaviour printer of TermParse (check X05): the input is built from catalogue tokens (family "wf") or from bytes of
   an alphabet (family "host"), then read in fragments of a chosen pattern with escape time-outs where the timer is
   armed; every complete behaviour is printed with what each read / time-out / end of input must yield.
   extra/harness/hx05 (x05_stream) replays them on the real EventStream over a pseudo terminal. *)
EXTENDS MC_TermParse, Json

CONSTANTS Fam, GenNames, GenSigma, MinToks, MaxToks, MaxBytes, Modes, FreeMax, TmoPolicy
VARIABLES phase, toks, steps, mode, nread, rs, os, armed0, touts
gvars == <<vars, phase, toks, steps, mode, nread, rs, os, armed0, touts>>

RECURSIVE TokEnds(_, _)
TokEnds(ts, at) == IF ts = <<>> THEN {} ELSE
   (IF Head(ts) = "esc" THEN {at + 1} ELSE {}) \cup TokEnds(Tail(ts), at + Len(Tk[Head(ts)]))
EscEnds == TokEnds(toks, 0)
RECURSIVE Bounds(_, _)
Bounds(ts, at) == IF ts = <<>> THEN {} ELSE {at + Len(Tk[Head(ts)])} \cup Bounds(Tail(ts), at + Len(Tk[Head(ts)]))
NonIgn(sq) == SelectSeq(sq, LAMBDA e : e.t # "ign")
Step(a, n, gap, stale, ev) == [a |-> a, n |-> n, gap |-> gap, stale |-> stale, ev |-> ev]

GInit == /\ input = <<>> /\ pos = 0 /\ buf = <<>> /\ out = <<>> /\ panic = FALSE /\ rd = FALSE
         /\ timer = "none" /\ timerEsc = 0 /\ closed = FALSE /\ seg0 = 0 /\ nOutSeg = 0 /\ ref = <<>>
         /\ phase = "build" /\ toks = <<>> /\ steps = <<>> /\ mode = "" /\ nread = 0 /\ rs = 0 /\ os = 0
         /\ armed0 = FALSE /\ touts = {}

AddTok(n) == /\ phase = "build" /\ Fam = "wf" /\ Len(toks) < MaxToks
             /\ toks' = Append(toks, n) /\ input' = input \o Tk[n]
             /\ UNCHANGED <<pos, buf, out, panic, rd, timer, timerEsc, closed, seg0, nOutSeg, ref, phase, steps, mode, nread, rs, os, armed0, touts>>
AddByte(x) == /\ phase = "build" /\ Fam = "host" /\ Len(input) < MaxBytes
              /\ input' = Append(input, x)
              /\ UNCHANGED <<pos, buf, out, panic, rd, timer, timerEsc, closed, seg0, nOutSeg, ref, phase, toks, steps, mode, nread, rs, os, armed0, touts>>
Start(m) == /\ phase = "build" /\ input # <<>> /\ Len(toks) >= MinToks
            /\ (m = "free") => Len(input) <= FreeMax
            /\ (m \in {"split2"}) => Len(input) > FreeMax
            /\ (m = "tokens") => Len(toks) >= 2
            /\ phase' = "run" /\ mode' = m /\ ref' = RefLex(input, 1)
            /\ UNCHANGED <<input, pos, buf, out, panic, rd, timer, timerEsc, closed, seg0, nOutSeg, toks, steps, nread, rs, os, armed0, touts>>

MustTimeout == TmoPolicy = "clean" /\ timer = "armed" /\ ~rd /\ pos \in EscEnds

GReadByte == /\ phase = "run" /\ ~MustTimeout
             /\ (mode = "bytes") => ~rd
             /\ ReadByte
             /\ IF rd THEN UNCHANGED <<rs, os, armed0>>
                ELSE /\ rs' = pos /\ os' = Len(out) /\ armed0' = (timer = "armed")
             /\ UNCHANGED <<phase, toks, steps, mode, nread, touts>>

MayEnd == \/ mode \in {"bytes", "free"}
          \/ mode = "whole" /\ pos = Len(input)
          \/ mode = "split2" /\ ((nread = 0 /\ pos < Len(input)) \/ (nread = 1 /\ pos = Len(input)))
          \/ mode = "tokens" /\ pos \in Bounds(toks, 0)

GReadEnd == /\ phase = "run" /\ MayEnd
            /\ ReadEnd
            /\ LET stale == armed0 /\ timer' = "armed" /\ timerEsc' # pos IN
               steps' = Append(steps, Step("read", pos - rs, IF stale THEN 1 ELSE 0, FALSE, NonIgn(SubSeq(out, os + 1, Len(out)))))
            /\ nread' = nread + 1
            /\ UNCHANGED <<phase, toks, mode, rs, os, armed0, touts>>

GTimeout == /\ phase = "run"
            /\ \/ TmoPolicy = "both"
               \/ pos = Len(input)
               \/ TmoPolicy = "clean" /\ pos \in EscEnds
            /\ Timeout
            /\ steps' = Append(steps, Step("timeout", 0, 0, timerEsc # pos, NonIgn(SubSeq(out', Len(out) + 1, Len(out')))))
            /\ touts' = touts \cup {pos}
            /\ UNCHANGED <<phase, toks, mode, nread, rs, os, armed0>>

GClose == /\ phase = "run" /\ ~RawMode /\ timer = "none"
          /\ Close
          /\ steps' = Append(steps, Step("eof", 0, 0, FALSE, NonIgn(SubSeq(out', Len(out) + 1, Len(out'))) \o <<[t |-> "end"]>>))
          /\ UNCHANGED <<phase, toks, mode, nread, rs, os, armed0, touts>>

GNext == \/ \E n \in GenNames : AddTok(n)
         \/ \E x \in GenSigma : AddByte(x)
         \/ \E m \in Modes : Start(m)
         \/ GReadByte \/ GReadEnd \/ GTimeout \/ GClose
GSpec == GInit /\ [][GNext]_gvars

Done == phase = "run" /\ ~rd /\ ~panic /\ pos = Len(input) /\ timer = "none" /\ (RawMode \/ closed)
Emit == Done => PrintT(<<"REPLAY", ToJson([k |-> "parse", raw |-> RawMode, fam |-> Fam, clean |-> (Fam = "wf" /\ touts = EscEnds),
                                            toks |-> toks, input |-> input, steps |-> steps])>>)
GNoPanic == ~panic
GCut == phase = "run" => CutIsNeedMore
=============================================================================
