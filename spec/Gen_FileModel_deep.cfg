CONSTANTS
  Devs = {}
  Groups = {"data", "open", "ns", "pipe"}
  Drivers = {"iour", "poll"}
  MaxOps = 3
  InitFiles <- Init_One
  Offsets <- Off_Narrow
  RBufs <- RB_One
  WBufs <- WB_One
  VRBufs <- VRB_One
  VWBufs <- VWB_Narrow
  VOffsets = {1}
  SetLens = {1, 5}
  PlainData = {"sync_data", "metadata"}
  CurBufs <- RB_Cur
  CurWBufs <- WB_Cur
  AppendModes = {FALSE}
  OpenOpts <- Opts_Deep
  OpenPaths = {"f", "d"}
  OpenData = {"read_at", "write_at", "metadata", "set_len"}
  NsInits = {"f"}
  NsOps <- Ns_Narrow
  PWBufs <- PW_Narrow
  PRBufs <- PR_Narrow
  PVWBufs <- PVW_Narrow
  PVRBufs <- PVR_Narrow
SPECIFICATION GSpec
INVARIANTS PathsAgree Sanity Emit
