CONSTANTS
  Setup = "cold"
  NW = 2
  SyncCap = 1
  MaxTicks = 2
  MaxJPolls = 1
  MaxWakes = 1
  JCmds = {"hdrop"}
  HCmds = {"tick", "clear", "execdrop"}
  Spurious = TRUE
  Strict = TRUE
  Fix = {"D10a", "D10b", "D11", "D12"}
SPECIFICATION Spec
INVARIANTS NoErr HomeOnly ExactlyOnce NoWakerLeak RcMatches NoLostJoinWake PendingBound ScntOk
