---- MODULE MC_IourDriver ----
EXTENDS IourDriver
CONSTANTS o1, o2, o3
KindSMB == (o1 :> "single") @@ (o2 :> "multi") @@ (o3 :> "blocking")
KindSM == (o1 :> "single") @@ (o2 :> "multi")
KindSB == (o1 :> "single") @@ (o3 :> "blocking")
KindSS == (o1 :> "single") @@ (o2 :> "single")
KindSZ == (o1 :> "single") @@ (o2 :> "zc")
\* state space reduction: the last-event variable is a projection aid, not behaviour
View == <<phase, rc, sq, kern, kcancel, cq, inflight, cflag, hasres, mores, jobs, chan, token, drv, lost, mon>>
====
