----------------------------- MODULE PollDriver -----------------------------
(* Implementation-shaped model of compio-driver's polling driver
   (compio-driver/src/sys/driver/poll/mod.rs, src/lib.rs Proactor, src/key.rs), composed with
   the OpAbs contract monitor.

   As the code is written:
     - push: pre_submit says Wait(fd, readable): the key is cloned into the fd's queue
       (FdQueue::push_back_interest) and the poller is armed one-shot with the key at the
       FRONT of the queue (queue.event());
     - poll: first the completed channel (thread-pool results and cancellations), then every
       readiness event of the batch: the event's key is dereferenced (BorrowedKey), the front
       of that fd's queue is popped and operated; Ready => result stored, queue reference
       dropped; then renew: re-arm with the new front or delete the fd;
     - cancel: cancel_one removes the key from the fd queue, re-arms, and sends one
       ECANCELED entry through the completed channel (delivered by the next poll);
     - thread-pool operations: frozen key handed to a pool thread, result through the channel;
     - Driver::drop: the registry (all queued keys) and the channel are dropped.

   The environment makes descriptors readable (Feed) - the harness does that with pipe writes. *)
EXTENDS OpAbs

CONSTANTS Kind,          \* [Ops -> {"single", "blocking"}]
          Dir,           \* [Ops -> {"r", "w"}]  a single op waits for readability (recv) or writability (send)
          FdOf,          \* [Ops -> Fds]  descriptor a single op works on
          Fds,
          Eager          \* schedule-generation variant (no effect here, kept for symmetry)

VARIABLES phase,        \* [Ops -> "idle" | "held" | "gone"]
          rc,           \* [Ops -> Nat]
          q,            \* [Fds -> [r: Seq(Ops), w: Seq(Ops)]]   FdQueue::{read_queue, write_queue}
          armed,        \* [Fds -> [r: BOOLEAN, w: BOOLEAN, key: Ops \cup {"none"}]]  one-shot registration (queue.event())
          avail,        \* [Fds -> [r: BOOLEAN, w: BOOLEAN]]    descriptor readable / writable
          cflag, hasres, jobs, chan, token, drv,
          mon, last

vars == <<phase, rc, q, armed, avail, cflag, hasres, jobs, chan, token, drv, mon, last>>

None == "none"
Emit(evs) == mon' = Apply(mon, evs) /\ last' = evs
E(ev, o) == [ev |-> ev, op |-> o, a |-> 0, fd |-> 0]
EA(ev, o, a) == [ev |-> ev, op |-> o, a |-> a, fd |-> 0]
EF(ev, o, f) == [ev |-> ev, op |-> o, a |-> 0, fd |-> f]
FreeEv(o) == <<E("free", o), E("hbufdrop", o)>>
DecEvents(r, o) == IF r[o] = 1 THEN FreeEv(o) ELSE <<>>

Remove(s, o) == SelectSeq(s, LAMBDA x : x # o)
Front(s) == IF s = <<>> THEN None ELSE Head(s)
NoArm == [r |-> FALSE, w |-> FALSE, key |-> None]
\* FdQueue::event(): readable iff a reader is queued, writable iff a writer is queued; the key is the
\* write front if there is one, else the read front
EventOf(qq) == [r |-> qq.r # <<>>, w |-> qq.w # <<>>,
                key |-> IF qq.w # <<>> THEN Head(qq.w) ELSE IF qq.r # <<>> THEN Head(qq.r) ELSE None]
PushQ(qq, o) == IF Dir[o] = "r" THEN [qq EXCEPT !.r = Append(@, o)] ELSE [qq EXCEPT !.w = Append(@, o)]
RemQ(qq, o) == [r |-> Remove(qq.r, o), w |-> Remove(qq.w, o)]
InQ(qq, o) == (\E i \in 1..Len(qq.r) : qq.r[i] = o) \/ (\E i \in 1..Len(qq.w) : qq.w[i] = o)
EmptyQ(qq) == qq.r = <<>> /\ qq.w = <<>>

Init == /\ phase = [o \in Ops |-> "idle"] /\ rc = [o \in Ops |-> 0]
        /\ q = [f \in Fds |-> [r |-> <<>>, w |-> <<>>]]
        /\ armed = [f \in Fds |-> NoArm]
        \* descriptors that have a writer start with a full send buffer (the harness fills it)
        /\ avail = [f \in Fds |-> [r |-> FALSE, w |-> FALSE]]
        /\ cflag = [o \in Ops |-> FALSE] /\ hasres = [o \in Ops |-> FALSE]
        /\ jobs = {} /\ chan = <<>> /\ token = {} /\ drv = "live" /\ mon = MonInit /\ last = <<>>


\* ---- submitter -------------------------------------------------------------------------
Push(o) ==
  /\ drv = "live" /\ phase[o] = "idle" /\ Kind[o] = "single"
  /\ LET f == FdOf[o] IN
       \* the harness submits a recv on a socket without data and a send on a socket whose buffer is full
       /\ (IF Dir[o] = "r" THEN ~avail[f].r ELSE ~avail[f].w)
       /\ q' = [q EXCEPT ![f] = PushQ(@, o)]
       /\ armed' = [armed EXCEPT ![f] = EventOf(PushQ(q[f], o))]
       /\ Emit(<<E("alloc", o), EF("psubmit", o, f), E("hsub", o)>>)
  /\ phase' = [phase EXCEPT ![o] = "held"]
  /\ rc' = [rc EXCEPT ![o] = 2]
  /\ UNCHANGED <<avail, cflag, hasres, jobs, chan, token, drv>>

PushBlocking(o) ==
  /\ drv = "live" /\ phase[o] = "idle" /\ Kind[o] = "blocking"
  /\ phase' = [phase EXCEPT ![o] = "held"]
  /\ rc' = [rc EXCEPT ![o] = 2]
  /\ jobs' = jobs \cup {o}
  /\ Emit(<<E("alloc", o), E("bdispatch", o), E("hsub", o)>>)
  /\ UNCHANGED <<q, armed, avail, cflag, hasres, chan, token, drv>>

PoolRun(o) ==
  /\ o \in jobs
  /\ jobs' = jobs \ {o}
  /\ chan' = Append(chan, o)
  /\ Emit(<<E("bstart", o), E("bdone", o)>>)
  /\ UNCHANGED <<phase, rc, q, armed, avail, cflag, hasres, token, drv>>

\* poll_completed: every channel entry is notified (set_result) and its key reference dropped
RECURSIVE ChanFold(_, _, _, _)
ChanFold(c, r, hr, evs) ==
  IF c = <<>> THEN <<r, hr, evs>>
  ELSE LET o == Head(c) IN
       ChanFold(Tail(c), [r EXCEPT ![o] = @ - 1], [hr EXCEPT ![o] = TRUE],
                evs \o <<E("result", o)>> \o DecEvents(r, o))

\* readiness events of one batch, processed in some order: a descriptor produces an event when a
\* registered interest is ready
Ready(f) == (armed[f].r /\ avail[f].r) \/ (armed[f].w /\ avail[f].w)
ReadyFds == {f \in Fds : Ready(f)}

RECURSIVE EventFold(_, _, _, _, _, _, _)
EventFold(fs, r, hr, qq, ar, av, evs) ==
  IF fs = <<>> THEN <<r, hr, qq, ar, av, evs>>
  ELSE LET f == Head(fs)
           k == ar[f].key                 \* the key the event carries (dereferenced)
           evR == ar[f].r /\ av[f].r       \* event.readable
           \* FdQueue::pop_interest: a readable event pops the read front, otherwise a writable one the write front
           isR == evR /\ qq[f].r # <<>>
           p == IF isR THEN Head(qq[f].r) ELSE Head(qq[f].w)
           nq == IF isR THEN [qq[f] EXCEPT !.r = Tail(@)] ELSE [qq[f] EXCEPT !.w = Tail(@)]
       IN EventFold(Tail(fs),
                    [r EXCEPT ![p] = @ - 1],
                    [hr EXCEPT ![p] = TRUE],
                    [qq EXCEPT ![f] = nq],
                    [ar EXCEPT ![f] = EventOf(nq)],                 \* renew with what is still queued
                    \* a recv takes everything that is there; a send leaves the socket writable
                    [av EXCEPT ![f] = IF isR THEN [@ EXCEPT !.r = FALSE] ELSE @],
                    evs \o <<E("pevent", k), EF("ppop", p, f), E("result", p)>> \o DecEvents(r, p))

SeqOfSet(S) == CHOOSE s \in [1..Cardinality(S) -> S] : \A i, j \in 1..Cardinality(S) : i # j => s[i] # s[j]

Poll ==
  /\ drv = "live"
  /\ LET c == ChanFold(chan, rc, hasres, <<>>)
         order == SeqOfSet(ReadyFds)
         e == EventFold(order, c[1], c[2], q, armed, avail, c[3])
     IN /\ rc' = e[1] /\ hasres' = e[2] /\ q' = e[3] /\ armed' = e[4] /\ avail' = e[5]
        /\ Emit(e[6])
  /\ chan' = <<>>
  /\ UNCHANGED <<phase, cflag, jobs, token, drv>>

Pop(o) ==
  /\ drv = "live" /\ phase[o] = "held"
  /\ IF hasres[o]
       THEN /\ rc[o] = 1
            /\ phase' = [phase EXCEPT ![o] = "gone"]
            /\ rc' = [rc EXCEPT ![o] = 0]
            /\ Emit(<<E("htake", o), E("free", o), EA("hready", o, 1)>>)
       ELSE /\ Emit(<<E("htake", o), E("hpending", o)>>)
            /\ UNCHANGED <<phase, rc>>
  /\ UNCHANGED <<q, armed, avail, cflag, hasres, jobs, chan, token, drv>>

\* Driver::cancel(key): for the op's fd: cancel_one -> remove_one + one ECANCELED entry into the channel.
\* r is the reference counts with the caller's key still counted.
DrvCancel(o, r) ==
  IF Kind[o] = "blocking"
    THEN [r |-> r, q |-> q, armed |-> armed, chan |-> chan, evs |-> <<>>]       \* op_type() = None
    ELSE LET f == FdOf[o]
             inq == InQ(q[f], o)
             nq == RemQ(q[f], o)
         IN [r |-> IF inq THEN r ELSE [r EXCEPT ![o] = @ + 1],    \* queue ref dropped, channel entry holds a clone
             q |-> [q EXCEPT ![f] = nq],
             \* remove_one: the queue exists => renew with what is left; no queue => nothing
             armed |-> IF EmptyQ(q[f]) THEN armed ELSE [armed EXCEPT ![f] = EventOf(nq)],
             chan |-> Append(chan, o),
             evs |-> <<EF("pcancel", o, f)>>]

Cancel(o) ==
  /\ drv = "live" /\ phase[o] = "held"
  /\ phase' = [phase EXCEPT ![o] = "gone"]
  /\ cflag' = [cflag EXCEPT ![o] = TRUE]
  /\ IF cflag[o]
       THEN /\ rc' = [rc EXCEPT ![o] = @ - 1]
            /\ Emit(<<E("htake", o), EA("cancelled", o, 1)>> \o DecEvents(rc, o))
            /\ UNCHANGED <<q, armed, chan>>
       ELSE IF rc[o] = 1 /\ hasres[o]
         THEN /\ rc' = [rc EXCEPT ![o] = 0]
              /\ Emit(<<E("htake", o), EA("cancelled", o, 0), E("free", o), EA("hready", o, 1)>>)
              /\ UNCHANGED <<q, armed, chan>>
         ELSE LET c == DrvCancel(o, rc) IN
              /\ q' = c.q /\ armed' = c.armed /\ chan' = c.chan
              /\ rc' = [c.r EXCEPT ![o] = @ - 1]
              /\ Emit(<<E("htake", o), EA("cancelled", o, 0)>> \o c.evs \o DecEvents(c.r, o))
  /\ UNCHANGED <<avail, hasres, jobs, token, drv>>

MakeToken(o) ==
  /\ drv = "live" /\ phase[o] = "held" /\ o \notin token
  /\ token' = token \cup {o}
  /\ UNCHANGED <<phase, rc, q, armed, avail, cflag, hasres, jobs, chan, drv, mon>> /\ last' = <<>>

FireToken(o) ==
  /\ drv = "live" /\ o \in token
  /\ token' = token \ {o}
  /\ IF rc[o] = 0
       THEN UNCHANGED <<cflag, rc, q, armed, chan, mon>> /\ last' = <<>>
       ELSE IF cflag[o] \/ hasres[o]
         THEN /\ cflag' = [cflag EXCEPT ![o] = TRUE]
              /\ Emit(<<EA("cancelled", o, IF cflag[o] THEN 1 ELSE 0)>>)
              /\ UNCHANGED <<rc, q, armed, chan>>
         ELSE LET c == DrvCancel(o, [rc EXCEPT ![o] = @ + 1]) IN
              /\ cflag' = [cflag EXCEPT ![o] = TRUE]
              /\ q' = c.q /\ armed' = c.armed /\ chan' = c.chan
              /\ rc' = [c.r EXCEPT ![o] = @ - 1]
              /\ Emit(<<EA("cancelled", o, 0)>> \o c.evs \o DecEvents(c.r, o))
  /\ UNCHANGED <<phase, avail, hasres, jobs, drv>>

KeyDrop(o) ==
  /\ phase[o] = "held"
  /\ phase' = [phase EXCEPT ![o] = "gone"]
  /\ rc' = [rc EXCEPT ![o] = @ - 1]
  /\ Emit(<<E("htake", o)>> \o DecEvents(rc, o))
  /\ UNCHANGED <<q, armed, avail, cflag, hasres, jobs, chan, token, drv>>

\* ---- environment ------------------------------------------------------------------------
Feed(f) ==      \* the peer sends: the descriptor becomes readable
  /\ drv = "live" /\ ~avail[f].r
  /\ avail' = [avail EXCEPT ![f].r = TRUE]
  /\ UNCHANGED <<phase, rc, q, armed, cflag, hasres, jobs, chan, token, drv, mon>> /\ last' = <<>>

Drain(f) ==     \* the peer reads everything: the descriptor becomes writable
  /\ drv = "live" /\ ~avail[f].w /\ \E o \in Ops : Kind[o] = "single" /\ Dir[o] = "w" /\ FdOf[o] = f
  /\ avail' = [avail EXCEPT ![f].w = TRUE]
  /\ UNCHANGED <<phase, rc, q, armed, cflag, hasres, jobs, chan, token, drv, mon>> /\ last' = <<>>

\* ---- Driver::drop: registry and channel go away -------------------------------------------
RECURSIVE DropFold(_, _, _)
DropFold(s, r, evs) ==
  IF s = <<>> THEN <<r, evs>>
  ELSE LET o == Head(s) IN
       DropFold(Tail(s), [r EXCEPT ![o] = @ - 1], evs \o DecEvents(r, o))

RECURSIVE Concat(_, _)
Concat(fs, qq) == IF fs = <<>> THEN <<>> ELSE qq[Head(fs)] \o Concat(Tail(fs), qq)

DropDriver ==
  /\ drv = "live"
  /\ drv' = "gone"
  /\ LET allq == Concat(SeqOfSet(Fds), [f \in Fds |-> q[f].r \o q[f].w])
         keep == IF jobs = {} THEN chan ELSE <<>>     \* a pool thread still holds a sender: the channel survives
         f == DropFold(allq \o keep, rc, <<E("hdrvdrop", CHOOSE o \in Ops : TRUE), E("ringclosed", CHOOSE o \in Ops : TRUE)>>)
     IN /\ rc' = f[1] /\ Emit(f[2])
        /\ chan' = IF jobs = {} THEN <<>> ELSE chan
  /\ q' = [f \in Fds |-> [r |-> <<>>, w |-> <<>>]] /\ armed' = [f \in Fds |-> NoArm]
  /\ UNCHANGED <<phase, avail, cflag, hasres, jobs, token>>

DropChan ==
  /\ drv = "gone" /\ jobs = {} /\ chan # <<>>
  /\ LET f == DropFold(chan, rc, <<>>) IN rc' = f[1] /\ Emit(f[2])
  /\ chan' = <<>>
  /\ UNCHANGED <<phase, q, armed, avail, cflag, hasres, jobs, token, drv>>

Finished == /\ drv = "gone" /\ jobs = {} /\ chan = <<>> /\ \A o \in Ops : phase[o] # "held"
End ==
  /\ Finished /\ ~mon.ended
  /\ Emit(<<E("hend", CHOOSE o \in Ops : TRUE)>>)
  /\ UNCHANGED <<phase, rc, q, armed, avail, cflag, hasres, jobs, chan, token, drv>>

Next ==
  \/ \E o \in Ops : \/ Push(o) \/ PushBlocking(o) \/ PoolRun(o) \/ Pop(o) \/ Cancel(o)
                    \/ MakeToken(o) \/ FireToken(o) \/ KeyDrop(o)
  \/ \E f \in Fds : Feed(f) \/ Drain(f)
  \/ Poll \/ DropDriver \/ DropChan \/ End

Spec == Init /\ [][Next]_vars
FairSpec == Spec /\ WF_vars(Poll) /\ \A o \in Ops : WF_vars(PoolRun(o))

Safe == NoViol(mon)
\* per-fd FIFO and arming discipline of the implementation
ArmedIsFront == \A f \in Fds : drv = "live" => armed[f] = EventOf(q[f])
QueuedAreAlive == \A f \in Fds : (\A i \in 1..Len(q[f].r) : rc[q[f].r[i]] >= 1) /\ (\A i \in 1..Len(q[f].w) : rc[q[f].w[i]] >= 1)
\* C02 liveness (design level): a ready descriptor with a waiting head reader is eventually served
Served == \A f \in Fds :
   /\ (drv = "live" /\ avail[f].r /\ q[f].r # <<>>) ~> (~avail[f].r \/ q[f].r = <<>> \/ drv # "live")
   /\ (drv = "live" /\ avail[f].w /\ q[f].w # <<>>) ~> (q[f].w = <<>> \/ drv # "live")
\* C05 liveness: a cancelled queued operation eventually gets its result
CancelDelivered == \A o \in Ops : (drv = "live" /\ cflag[o] /\ rc[o] > 0 /\ ~hasres[o] /\ Kind[o] = "single")
                                     ~> (hasres[o] \/ rc[o] = 0 \/ drv # "live")
=============================================================================
