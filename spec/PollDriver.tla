----------------------------- MODULE PollDriver -----------------------------
(* Implementation-shaped model of compio-driver's polling driver
   (compio-driver/src/sys/driver/poll/mod.rs, src/lib.rs Proactor, src/key.rs), composed with
   the OpAbs contract monitor.

   As the code is written:
     - push: pre_submit says Wait(fd, readable): the key is cloned into the fd's queue
       (FdQueue::push_back_interest) and the poller is armed one-shot with the key at the
       FRONT of the queue (queue.event());
     - poll: first the completed channel (thread-pool results and cancellations), then every
       readiness event of the batch: the event's key is dereferenced (BorrowedKey), the front
       of that fd's queue is popped and operated; Ready => result stored, queue reference
       dropped; then renew: re-arm with the new front or delete the fd;
     - cancel: cancel_one removes the key from the fd queue, re-arms, and sends one
       ECANCELED entry through the completed channel (delivered by the next poll);
     - thread-pool operations: frozen key handed to a pool thread, result through the channel;
     - Driver::drop: the registry (all queued keys) and the channel are dropped.

   The environment makes descriptors readable (Feed) - the harness does that with pipe writes. *)
EXTENDS OpAbs

CONSTANTS Kind,          \* [Ops -> {"single", "blocking"}]
          FdOf,          \* [Ops -> Fds]  descriptor a single op reads from
          Fds,
          Eager          \* schedule-generation variant (no effect here, kept for symmetry)

VARIABLES phase,        \* [Ops -> "idle" | "held" | "gone"]
          rc,           \* [Ops -> Nat]
          q,            \* [Fds -> Seq(Ops)]   FdQueue::read_queue
          armed,        \* [Fds -> Ops \cup {"none"}]  key registered with the poller (one-shot)
          avail,        \* [Fds -> BOOLEAN]    descriptor readable
          cflag, hasres, jobs, chan, token, drv,
          mon, last

vars == <<phase, rc, q, armed, avail, cflag, hasres, jobs, chan, token, drv, mon, last>>

None == "none"
Emit(evs) == mon' = Apply(mon, evs) /\ last' = evs
E(ev, o) == [ev |-> ev, op |-> o, a |-> 0, fd |-> 0]
EA(ev, o, a) == [ev |-> ev, op |-> o, a |-> a, fd |-> 0]
EF(ev, o, f) == [ev |-> ev, op |-> o, a |-> 0, fd |-> f]
FreeEv(o) == <<E("free", o), E("hbufdrop", o)>>
DecEvents(r, o) == IF r[o] = 1 THEN FreeEv(o) ELSE <<>>

Init == /\ phase = [o \in Ops |-> "idle"] /\ rc = [o \in Ops |-> 0]
        /\ q = [f \in Fds |-> <<>>] /\ armed = [f \in Fds |-> None] /\ avail = [f \in Fds |-> FALSE]
        /\ cflag = [o \in Ops |-> FALSE] /\ hasres = [o \in Ops |-> FALSE]
        /\ jobs = {} /\ chan = <<>> /\ token = {} /\ drv = "live" /\ mon = MonInit /\ last = <<>>

Front(s) == IF s = <<>> THEN None ELSE Head(s)
Remove(s, o) == SelectSeq(s, LAMBDA x : x # o)

\* ---- submitter -------------------------------------------------------------------------
Push(o) ==
  /\ drv = "live" /\ phase[o] = "idle" /\ Kind[o] = "single"
  /\ ~avail[FdOf[o]]              \* the harness submits on an empty pipe (pre_submit always waits anyway)
  /\ LET f == FdOf[o] IN
       /\ q' = [q EXCEPT ![f] = Append(@, o)]
       /\ armed' = [armed EXCEPT ![f] = Front(Append(q[f], o))]
       /\ Emit(<<E("alloc", o), EF("psubmit", o, f), E("hsub", o)>>)
  /\ phase' = [phase EXCEPT ![o] = "held"]
  /\ rc' = [rc EXCEPT ![o] = 2]
  /\ UNCHANGED <<avail, cflag, hasres, jobs, chan, token, drv>>

PushBlocking(o) ==
  /\ drv = "live" /\ phase[o] = "idle" /\ Kind[o] = "blocking"
  /\ phase' = [phase EXCEPT ![o] = "held"]
  /\ rc' = [rc EXCEPT ![o] = 2]
  /\ jobs' = jobs \cup {o}
  /\ Emit(<<E("alloc", o), E("bdispatch", o), E("hsub", o)>>)
  /\ UNCHANGED <<q, armed, avail, cflag, hasres, chan, token, drv>>

PoolRun(o) ==
  /\ o \in jobs
  /\ jobs' = jobs \ {o}
  /\ chan' = Append(chan, o)
  /\ Emit(<<E("bstart", o), E("bdone", o)>>)
  /\ UNCHANGED <<phase, rc, q, armed, avail, cflag, hasres, token, drv>>

\* poll_completed: every channel entry is notified (set_result) and its key reference dropped
RECURSIVE ChanFold(_, _, _, _)
ChanFold(c, r, hr, evs) ==
  IF c = <<>> THEN <<r, hr, evs>>
  ELSE LET o == Head(c) IN
       ChanFold(Tail(c), [r EXCEPT ![o] = @ - 1], [hr EXCEPT ![o] = TRUE],
                evs \o <<E("result", o)>> \o DecEvents(r, o))

\* readiness events of one batch, processed in some order (the set of ready armed fds)
ReadyFds == {f \in Fds : armed[f] # None /\ avail[f]}

RECURSIVE EventFold(_, _, _, _, _, _, _)
EventFold(fs, r, hr, qq, ar, av, evs) ==
  IF fs = <<>> THEN <<r, hr, qq, ar, av, evs>>
  ELSE LET f == Head(fs)
           k == ar[f]                 \* the key the event carries (dereferenced)
           p == Head(qq[f])           \* the front of the queue is what gets popped and operated
           nq == Tail(qq[f])
       IN EventFold(Tail(fs),
                    [r EXCEPT ![p] = @ - 1],
                    [hr EXCEPT ![p] = TRUE],
                    [qq EXCEPT ![f] = nq],
                    [ar EXCEPT ![f] = Front(nq)],
                    [av EXCEPT ![f] = FALSE],       \* the read takes everything that is there
                    evs \o <<E("pevent", k), EF("ppop", p, f), E("result", p)>> \o DecEvents(r, p))

SeqOfSet(S) == CHOOSE s \in [1..Cardinality(S) -> S] : \A i, j \in 1..Cardinality(S) : i # j => s[i] # s[j]

Poll ==
  /\ drv = "live"
  /\ LET c == ChanFold(chan, rc, hasres, <<>>)
         order == SeqOfSet(ReadyFds)
         e == EventFold(order, c[1], c[2], q, armed, avail, c[3])
     IN /\ rc' = e[1] /\ hasres' = e[2] /\ q' = e[3] /\ armed' = e[4] /\ avail' = e[5]
        /\ Emit(e[6])
  /\ chan' = <<>>
  /\ UNCHANGED <<phase, cflag, jobs, token, drv>>

Pop(o) ==
  /\ drv = "live" /\ phase[o] = "held"
  /\ IF hasres[o]
       THEN /\ rc[o] = 1
            /\ phase' = [phase EXCEPT ![o] = "gone"]
            /\ rc' = [rc EXCEPT ![o] = 0]
            /\ Emit(<<E("htake", o), E("free", o), EA("hready", o, 1)>>)
       ELSE /\ Emit(<<E("htake", o), E("hpending", o)>>)
            /\ UNCHANGED <<phase, rc>>
  /\ UNCHANGED <<q, armed, avail, cflag, hasres, jobs, chan, token, drv>>

\* Driver::cancel(key): for the op's fd: cancel_one -> remove_one + one ECANCELED entry into the channel.
\* r is the reference counts with the caller's key still counted.
DrvCancel(o, r) ==
  IF Kind[o] = "blocking"
    THEN [r |-> r, q |-> q, armed |-> armed, chan |-> chan, evs |-> <<>>]       \* op_type() = None
    ELSE LET f == FdOf[o]
             inq == \E i \in 1..Len(q[f]) : q[f][i] = o
             nq == Remove(q[f], o)
         IN [r |-> IF inq THEN r ELSE [r EXCEPT ![o] = @ + 1],    \* queue ref dropped, channel entry holds a clone
             q |-> [q EXCEPT ![f] = nq],
             \* remove_one: the queue exists => renew with the new front; no queue => nothing
             armed |-> IF q[f] = <<>> THEN armed ELSE [armed EXCEPT ![f] = Front(nq)],
             chan |-> Append(chan, o),
             evs |-> <<EF("pcancel", o, f)>>]

Cancel(o) ==
  /\ drv = "live" /\ phase[o] = "held"
  /\ phase' = [phase EXCEPT ![o] = "gone"]
  /\ cflag' = [cflag EXCEPT ![o] = TRUE]
  /\ IF cflag[o]
       THEN /\ rc' = [rc EXCEPT ![o] = @ - 1]
            /\ Emit(<<E("htake", o), EA("cancelled", o, 1)>> \o DecEvents(rc, o))
            /\ UNCHANGED <<q, armed, chan>>
       ELSE IF rc[o] = 1 /\ hasres[o]
         THEN /\ rc' = [rc EXCEPT ![o] = 0]
              /\ Emit(<<E("htake", o), EA("cancelled", o, 0), E("free", o), EA("hready", o, 1)>>)
              /\ UNCHANGED <<q, armed, chan>>
         ELSE LET c == DrvCancel(o, rc) IN
              /\ q' = c.q /\ armed' = c.armed /\ chan' = c.chan
              /\ rc' = [c.r EXCEPT ![o] = @ - 1]
              /\ Emit(<<E("htake", o), EA("cancelled", o, 0)>> \o c.evs \o DecEvents(c.r, o))
  /\ UNCHANGED <<avail, hasres, jobs, token, drv>>

MakeToken(o) ==
  /\ drv = "live" /\ phase[o] = "held" /\ o \notin token
  /\ token' = token \cup {o}
  /\ UNCHANGED <<phase, rc, q, armed, avail, cflag, hasres, jobs, chan, drv, mon>> /\ last' = <<>>

FireToken(o) ==
  /\ drv = "live" /\ o \in token
  /\ token' = token \ {o}
  /\ IF rc[o] = 0
       THEN UNCHANGED <<cflag, rc, q, armed, chan, mon>> /\ last' = <<>>
       ELSE IF cflag[o] \/ hasres[o]
         THEN /\ cflag' = [cflag EXCEPT ![o] = TRUE]
              /\ Emit(<<EA("cancelled", o, IF cflag[o] THEN 1 ELSE 0)>>)
              /\ UNCHANGED <<rc, q, armed, chan>>
         ELSE LET c == DrvCancel(o, [rc EXCEPT ![o] = @ + 1]) IN
              /\ cflag' = [cflag EXCEPT ![o] = TRUE]
              /\ q' = c.q /\ armed' = c.armed /\ chan' = c.chan
              /\ rc' = [c.r EXCEPT ![o] = @ - 1]
              /\ Emit(<<EA("cancelled", o, 0)>> \o c.evs \o DecEvents(c.r, o))
  /\ UNCHANGED <<phase, avail, hasres, jobs, drv>>

KeyDrop(o) ==
  /\ phase[o] = "held"
  /\ phase' = [phase EXCEPT ![o] = "gone"]
  /\ rc' = [rc EXCEPT ![o] = @ - 1]
  /\ Emit(<<E("htake", o)>> \o DecEvents(rc, o))
  /\ UNCHANGED <<q, armed, avail, cflag, hasres, jobs, chan, token, drv>>

\* ---- environment ------------------------------------------------------------------------
Feed(f) ==
  /\ drv = "live" /\ ~avail[f]
  /\ avail' = [avail EXCEPT ![f] = TRUE]
  /\ UNCHANGED <<phase, rc, q, armed, cflag, hasres, jobs, chan, token, drv, mon>> /\ last' = <<>>

\* ---- Driver::drop: registry and channel go away -------------------------------------------
RECURSIVE DropFold(_, _, _)
DropFold(s, r, evs) ==
  IF s = <<>> THEN <<r, evs>>
  ELSE LET o == Head(s) IN
       DropFold(Tail(s), [r EXCEPT ![o] = @ - 1], evs \o DecEvents(r, o))

RECURSIVE Concat(_, _)
Concat(fs, qq) == IF fs = <<>> THEN <<>> ELSE qq[Head(fs)] \o Concat(Tail(fs), qq)

DropDriver ==
  /\ drv = "live"
  /\ drv' = "gone"
  /\ LET allq == Concat(SeqOfSet(Fds), q)
         keep == IF jobs = {} THEN chan ELSE <<>>     \* a pool thread still holds a sender: the channel survives
         f == DropFold(allq \o keep, rc, <<E("hdrvdrop", CHOOSE o \in Ops : TRUE), E("ringclosed", CHOOSE o \in Ops : TRUE)>>)
     IN /\ rc' = f[1] /\ Emit(f[2])
        /\ chan' = IF jobs = {} THEN <<>> ELSE chan
  /\ q' = [f \in Fds |-> <<>>] /\ armed' = [f \in Fds |-> None]
  /\ UNCHANGED <<phase, avail, cflag, hasres, jobs, token>>

DropChan ==
  /\ drv = "gone" /\ jobs = {} /\ chan # <<>>
  /\ LET f == DropFold(chan, rc, <<>>) IN rc' = f[1] /\ Emit(f[2])
  /\ chan' = <<>>
  /\ UNCHANGED <<phase, q, armed, avail, cflag, hasres, jobs, token, drv>>

Finished == /\ drv = "gone" /\ jobs = {} /\ chan = <<>> /\ \A o \in Ops : phase[o] # "held"
End ==
  /\ Finished /\ ~mon.ended
  /\ Emit(<<E("hend", CHOOSE o \in Ops : TRUE)>>)
  /\ UNCHANGED <<phase, rc, q, armed, avail, cflag, hasres, jobs, chan, token, drv>>

Next ==
  \/ \E o \in Ops : \/ Push(o) \/ PushBlocking(o) \/ PoolRun(o) \/ Pop(o) \/ Cancel(o)
                    \/ MakeToken(o) \/ FireToken(o) \/ KeyDrop(o)
  \/ \E f \in Fds : Feed(f)
  \/ Poll \/ DropDriver \/ DropChan \/ End

Spec == Init /\ [][Next]_vars
FairSpec == Spec /\ WF_vars(Poll) /\ \A o \in Ops : WF_vars(PoolRun(o))

Safe == NoViol(mon)
\* per-fd FIFO and arming discipline of the implementation
ArmedIsFront == \A f \in Fds : drv = "live" => armed[f] = Front(q[f])
QueuedAreAlive == \A f \in Fds : \A i \in 1..Len(q[f]) : rc[q[f][i]] >= 1
\* C02 liveness (design level): a ready descriptor with a waiting head reader is eventually served
Served == \A f \in Fds : (drv = "live" /\ avail[f] /\ q[f] # <<>>) ~> (~avail[f] \/ q[f] = <<>> \/ drv # "live")
\* C05 liveness: a cancelled queued operation eventually gets its result
CancelDelivered == \A o \in Ops : (drv = "live" /\ cflag[o] /\ rc[o] > 0 /\ ~hasres[o] /\ Kind[o] = "single")
                                     ~> (hasres[o] \/ rc[o] = 0 \/ drv # "live")
=============================================================================
