CONSTANTS
  o1 = o1
  o2 = o2
  o3 = o3
  Ops = {o1, o2, o3}
  Kind <- KindSSB
  FdOf <- FdSame
  Dir <- DirR
  Fds = {1, 2}
  Eager = FALSE
SPECIFICATION Spec
VIEW View
INVARIANTS Safe ArmedIsFront QueuedAreAlive
