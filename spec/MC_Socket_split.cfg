CONSTANTS
  Drvs = {"iour", "poll"}
  PoolBuf = 2
  MaxDgram = 4
  DevMultiDrop = TRUE
  DevIncomingDrop = TRUE
  DevManagedEmpty = TRUE
  DevPollMultiLen = TRUE
  Part = "stream"
  Feat = {"split"}
  Sizes = {0, 1}
  Caps = {1}
  SockBuf = 2
  MaxOff = 2
  Dirs = {1}
  Conns = {1, 2, 3}
  DgSocks = {"a", "b", "c"}
  MaxDg = 3
SPECIFICATION SpecStream
VIEW mcview
INVARIANTS TypeOk StreamPrefix Conservation StreamExact EofComplete ZcOk HandleOk
