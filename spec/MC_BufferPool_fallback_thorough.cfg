CONSTANTS
  N = 4
  Kind = "fallback"
  Ops = {"o1", "o2"}
  FileOps = {"o2"}
  SrcType = "pipe"
  MaxPend = 3
  MaxH = 5
  ResetProvides = TRUE
  TakeEmptiesSlot = TRUE
  KeyRaceDev = TRUE
  DropReturnsQueued = TRUE
SPECIFICATION Spec
INVARIANTS Safe
