CONSTANTS
  N = 2
  Kind = "ring"
  Ops = {"o1", "o2"}
  FileOps = {}
  SrcType = "pipe"
  MaxPend = 2
  MaxH = 3
  ResetProvides = FALSE
  TakeEmptiesSlot = TRUE
  KeyRaceDev = TRUE
  DropReturnsQueued = TRUE
SPECIFICATION Spec
INVARIANTS Safe
