CONSTANTS
  Setup = "cold"
  NW = 2
  SyncCap = 2
  MaxTicks = 2
  MaxJPolls = 1
  MaxWakes = 1
  JCmds = {"poll", "hdrop"}
  HCmds = {"tick", "clear", "execdrop"}
  Spurious = TRUE
  Strict = FALSE
  Fix = {}
  MaxLen = 80
SPECIFICATION GSpec
INVARIANTS Emit
