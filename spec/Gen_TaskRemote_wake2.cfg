CONSTANTS
  Setup = "cold"
  NW = 2
  SyncCap = 2
  MaxTicks = 2
  MaxJPolls = 1
  MaxWakes = 1
  JCmds = {"poll", "hdrop"}
  HCmds = {"tick", "clear", "execdrop"}
  Spurious = TRUE
  Strict = TRUE
  Fix = {"D10a", "D10b", "D11", "D12"}
  MaxLen = 90
SPECIFICATION GSpec
INVARIANTS Emit
