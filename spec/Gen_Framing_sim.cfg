\* thorough, sampled part (TLC -simulate, seeded with VERIF_SEED): arbitrary fragmentations of
\* everything, two-letter payload alphabet, hostile bytes over four letters chosen on delivery
\* (reads of at most 3 bytes so that a step has few successors), environment faults
CONSTANTS
  FixExtractOverflow = TRUE
  FixFramerError = TRUE
  Lfls = {1, 2, 3, 4, 5, 6, 7, 8}
  HostLfls = {1, 2, 3, 4, 5, 6, 7, 8}
  Endians = {TRUE, FALSE}
  DelimKinds = {"nl", "c1", "R3", "a12"}
  HostDelimKinds = {"nl", "c1", "R3", "a12", "a11"}
  WithNoop = TRUE
  WithLim = TRUE
  Codecs = {"bytes", "json"}
  PayAlpha = {1, 255}
  MaxPay = 2
  MaxFrames = 3
  BigPays = {}
  WideFrom = 9
  WideMaxPay = 0
  WideMaxFrames = 0
  WideHostAlpha = {}
  WideHostExtra = 0
  Modes = {"rt"}
  HostAlpha = {0, 1, 2, 255}
  HostExtra = 2
  ChunkMin = 1
  ChunkMax = 3
  WLimits = {1, 3}
  ZeroReads = 1
  MaxErr = 1
  AfterDone = 1
  AnyMax = 100000
  LongModes = {"any"}
  HostAnyMax = 100000
  HostModes = {"any"}
  WideHostModes = {"any"}
SPECIFICATION GSpec
INVARIANTS Emit
