CONSTANTS
  Limit = 2
  Jobs = {"j1", "j2", "j3", "j4"}
  Disp = {"D1", "D2"}
  NW = 4
  PanicJobs = {"j3"}
  Caught = FALSE
  DriverLoop = FALSE
  Fix = FALSE
  TimedFifo = FALSE
SPECIFICATION Spec
INVARIANTS Safety BoundedModuloKnown ThreadsBoundedModuloKnown
