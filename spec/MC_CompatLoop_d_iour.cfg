CONSTANTS
  w1 = w1
  w2 = w2
  Wakers = {w1,w2}
  Target <- TgtD
  Tasks = {"t1"}
  QCap = 1
  Mode = "external"
  Driver = "iour"
  Eager = FALSE
  ArmInFlush = TRUE
  WakeAfterPush = TRUE
  Overflow = FALSE
  Hosts <- BothHosts
  Muts = {"none"}
  Ops = {"o1"}
  Timers = {}
  Jobs = {}
  Owner <- OwnD
  AnyTurn = TRUE
SPECIFICATION XFairSpec
INVARIANTS XTypeOK PendingBound TypeOK RealSafe
PROPERTIES Completes WakeSeen OpSeen
