CONSTANTS
  Limit = 2
  Jobs = {"j1", "j2", "j3", "j4"}
  Disp = {"D1"}
  NW = 4
  PanicJobs = {"j2"}
  Caught = TRUE
  DriverLoop = TRUE
  Fix = TRUE
  TimedFifo = FALSE
SPECIFICATION FairSpec
INVARIANTS Safety Bounded ThreadsBounded NoDeviation
PROPERTIES SendCompletes AcceptedRuns AllRun
