CONSTANTS
  w1 = w1
  w2 = w2
  Wakers = {w1}
  Target <- TgtQ2
  Tasks = {"t1"}
  QCap = 1
  Mode = "external"
  Driver = "iour"
  Eager = FALSE
  ArmInFlush = TRUE
  WakeAfterPush = TRUE
  Overflow = FALSE
  Hosts <- BothHosts
  Muts = {"none","flushSeesCompleted","drainAfterBlocking","repaired"}
  Ops = {}
  Timers = {"s1"}
  Jobs = {"j1"}
  Owner <- OwnQ2
  AnyTurn = TRUE
SPECIFICATION XSpec
INVARIANTS XTypeOK PendingBound TypeOK RealSafe RepFlushSeesCompleted RepDrainAfterBlocking RepBoth
