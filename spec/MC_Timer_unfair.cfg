\* non-vacuity control of the liveness check: without fairness Completes must be violated
CONSTANTS
  N = 1
  Deadlines = {1}
  Periods = {1}
  Kinds = {"sleep"}
  NW = 1
  MaxNow = 2
  MaxGen = 1
  Mut = "none"
SPECIFICATION Spec
PROPERTIES Completes
