CONSTANTS
  Drvs = {"iour", "poll"}
  PoolBuf = 4096
  MaxDgram = 65507
  DevMultiDrop = TRUE
  DevIncomingDrop = TRUE
  DevManagedEmpty = TRUE
  DevPollMultiLen = FALSE
  Part = "stream"
  Feat = {}
  Sizes = {0}
  Caps = {0}
  SockBuf = 0
  MaxOff = 0
  Dirs = {1, 2}
  Conns = {0}
  DgSocks = {"a"}
  MaxDg = 0
SPECIFICATION TSpec
POSTCONDITION Accepted
