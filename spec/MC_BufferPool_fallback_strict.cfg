CONSTANTS
  N = 2
  Kind = "fallback"
  Ops = {"o1", "o2"}
  FileOps = {"o2"}
  SrcType = "pipe"
  MaxPend = 2
  MaxH = 3
  ResetProvides = TRUE
  TakeEmptiesSlot = TRUE
  KeyRaceDev = TRUE
  DropReturnsQueued = TRUE
SPECIFICATION Spec
INVARIANTS SafeStrict
