CONSTANTS
  NT = 2
  MI = 1
  MaxPolls = 2
  MaxW = 1
  NJ = 1
  Outcomes = {"selfwake", "ready", "panic"}
  Mut = "none"
SPECIFICATION LiveSpec
INVARIANTS NoErr ExactlyOnce
PROPERTIES DetachCompletes TickTerminates
