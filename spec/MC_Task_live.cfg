CONSTANTS
  NT = 1
  MI = 1
  MaxPolls = 3
  MaxW = 1
  NJ = 1
  Outcomes = {"selfwake", "ready", "panic"}
  Mut = "none"
SPECIFICATION LiveSpec
INVARIANTS NoErr ExactlyOnce
PROPERTIES DetachCompletes TickTerminates
