CONSTANTS
  Cfgs <- CfgsAll
  Side = "w"
  MaxSrc = 5
  MaxAcc = 5
  MaxSrcA = 4
  MaxAccA = 4
  Sizes = {0, 1, 2, 3}
  Ks = {1, 2, 3}
  Fuel = 3
  Detail = FALSE
  OldReadLimit = FALSE
  WakeAll = TRUE
SPECIFICATION FairSpec
INVARIANTS ReadFifo WriteFifo WriteLimit ReadLimitStrict LimitReported RWakeCover WWakeCover Sane
PROPERTY Woken
