CONSTANTS
  Limit = 1
  Jobs = {"j1", "j2", "j3"}
  Disp = {"D1"}
  NW = 3
  PanicJobs = {"j1"}
  Caught = TRUE
  DriverLoop = TRUE
  Fix = TRUE
  TimedFifo = TRUE
  MaxLen = 40
  NoTimeout = FALSE
SPECIFICATION ESpec
