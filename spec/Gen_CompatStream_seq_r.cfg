CONSTANTS
  Cfgs <- CfgsSync
  Side = "r"
  MaxSrc = 15
  MaxAcc = 15
  MaxSrcA = 15
  MaxAccA = 15
  Sizes = {0, 1, 2, 3}
  Ks = {1, 2, 3}
  Fuel = 3
  Detail = TRUE
  OldReadLimit = FALSE
  WakeAll = TRUE
  MaxSteps = 4
  Cover = FALSE
  UninitSizes = {0, 1, 2, 3}
SPECIFICATION GSpec
INVARIANTS ReadFifo WriteFifo WriteLimit ReadLimitStrict LimitReported RWakeCover WWakeCover Sane Emit

