SPECIFICATION GSpec
CONSTANTS
  RawMode = TRUE
  Inputs = {}
  FixStaleTimer = FALSE
  AllowLongCsi = TRUE
  MaxTok = 24
  Mut = ""
  Fam = "host"
  GenNames <- CoreNames
  GenSigma <- Sigma
  MinToks = 0
  MaxToks = 0
  MaxBytes = 8
  Modes = {"free"}
  FreeMax = 8
  TmoPolicy = "both"
INVARIANTS
  Emit
  GNoPanic
  GCut
