CONSTANTS
  N = 2
  Kind = "ring"
  Ops = {"o1", "o2"}
  FileOps = {"o2"}
  SrcType = "dgram"
  MaxPend = 2
  MaxH = 3
  ResetProvides = TRUE
  TakeEmptiesSlot = TRUE
  KeyRaceDev = TRUE
  DropReturnsQueued = TRUE
SPECIFICATION Spec
INVARIANTS Safe
