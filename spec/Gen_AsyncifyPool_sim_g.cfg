CONSTANTS
  Limit = 2
  Jobs = {"j1", "j2", "j3", "j4"}
  Disp = {"D1", "D2"}
  NW = 4
  PanicJobs = {"j2"}
  Caught = FALSE
  DriverLoop = FALSE
  Fix = TRUE
  TimedFifo = TRUE
  MaxLen = 40
  NoTimeout = FALSE
SPECIFICATION GSpec
INVARIANTS Emit
