CONSTANTS
  Driver = "poll"
  Shapes <- ShapesVis3
  MaxSteps = 4
  MaxCancel = 1
  MaxFeed = 2
  Eager = TRUE
  FixListen = FALSE
  FixFFStream = FALSE
  MutPersDropsCancel = FALSE
  MutNoDropCancel = FALSE
  MutNoWaker = FALSE
SPECIFICATION GSpec
INVARIANTS Emit
VIEW ViewState
