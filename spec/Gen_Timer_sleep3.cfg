\* thorough, exhaustive: every canonical program of 6 steps over three sleeps
CONSTANTS
  N = 3
  Deadlines = {0, 1, 2}
  Periods = {1}
  Kinds = {"sleep"}
  NW = 1
  MaxNow = 3
  MaxGen = 3
  Mut = "none"
  MaxSteps = 6
SPECIFICATION GSpec
INVARIANTS Emit
