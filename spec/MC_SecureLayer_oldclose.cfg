\* control: poll_close as it was before commit 05a3075 (no flush after SSL_shutdown) must lose the close alert (expected to FAIL)
CONSTANTS
  Backends = {"native"}
  Shapes = {"t13"}
  Bufferings = {TRUE, FALSE}
  Payloads = {1}
  Inits = {"c"}
  Limits = {0, 1}
  U = 2
  MaxPend = 1
  FlushBeforeRead = TRUE
  PendingIsWouldBlock = TRUE
  MidResumes = TRUE
  FinalFlush = TRUE
  CloseFlushes = FALSE
  FixRustlsHsFlush = FALSE
SPECIFICATION Spec
INVARIANTS NoDeadlockStrict
