CONSTANTS
  RW = {"a"}
  WW = {"b"}
  Kinds = {"ready", "io"}
  TokModes = {"no", "fast"}
  MaxPW = 1
  MaxFill = 1
  AllowShut = TRUE
  Eager = FALSE
  Strict = TRUE
  Mut = "none"
  Driver = "iour"
SPECIFICATION Spec
INVARIANTS NoErr
