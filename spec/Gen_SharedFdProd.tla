-------------------------- MODULE Gen_SharedFdProd --------------------------
(* Program printer for SharedFdProd: every order of the submitter's steps (push, trigger,
   poll, cancel, pop, popmulti, dropkey, dropdrv, calldrop) until everything has been let go,
   with the predicted owner of every produced descriptor after each step. Replayed by harness
   bin fd_prod on the real Proactor (both drivers, every concrete operation of the class) with
   the process's descriptor table compared before and after. *)
EXTENDS SharedFdProd, Json

VARIABLE hist
gvars == <<vars, hist>>

Proj == [own |-> own, hasres |-> hasres, ukey |-> ukey, dkey |-> dkey, opfree |-> opfree,
         nfd |-> nfd, kst |-> kst, ncq |-> Len(cq), dev |-> devhit]
Rec(a) == hist' = Append(hist, [a |-> a, x |-> Proj'])

GInit == Init /\ hist = <<>>
GNext == \/ Push /\ Rec("push")
         \/ Trigger /\ Rec("trigger")
         \/ Poll /\ Rec("poll")
         \/ Cancel /\ Rec("cancel")
         \/ Pop /\ Rec("pop")
         \/ PopMulti /\ Rec("popmulti")
         \/ DropKey /\ Rec("dropkey")
         \/ DropDrv /\ Rec("dropdrv")
         \/ CallerDrop /\ Rec("calldrop")
GSpec == GInit /\ [][GNext]_gvars

Leaks == Cardinality({i \in 1..NFd : own[i] = "leaked"})
Emit == (Done /\ kst # "none") =>
          PrintT(<<"REPLAY", ToJson([driver |-> Driver, class |-> Class, leaks |-> Leaks,
                                     steps |-> hist])>>)
=============================================================================
