\* the full bound (sampled with -simulate): <= 3 futures, deadlines 0..4, two wakers, 7 steps
CONSTANTS
  N = 3
  Deadlines = {0, 1, 2, 3, 4}
  Periods = {1, 2}
  Kinds = {"sleep", "timeout", "interval"}
  NW = 2
  MaxNow = 5
  MaxGen = 6
  Mut = "none"
  MaxSteps = 7
SPECIFICATION GSpec
INVARIANTS Emit
