CONSTANTS
  Cfgs <- CfgsAll
  Side = "w"
  MaxSrc = 6
  MaxAcc = 7
  MaxSrcA = 6
  MaxAccA = 4
  Sizes = {0, 1, 2, 3}
  Ks = {1, 2, 3}
  Fuel = 3
  Detail = TRUE
  OldReadLimit = FALSE
  WakeAll = TRUE
  MaxSteps = 40
  Cover = TRUE
  UninitSizes = {0, 1, 2, 3}
SPECIFICATION GSpec
INVARIANTS ReadFifo WriteFifo WriteLimit ReadLimitStrict LimitReported RWakeCover WWakeCover Sane Emit
VIEW CoverView
