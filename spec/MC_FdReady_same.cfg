CONSTANTS
  RW = {"a", "c"}
  WW = {}
  Kinds = {"ready", "io"}
  TokModes = {"no", "slow"}
  MaxPW = 1
  MaxFill = 0
  AllowShut = TRUE
  Eager = FALSE
  Strict = FALSE
  Mut = "none"
  Driver = "iour"
SPECIFICATION Spec
INVARIANTS TypeOK NoErr NoSteal CoveredModuloKnown SlotSane BackedOK
