SPECIFICATION Spec
CONSTANTS
  MaxCalls = 4
  MaxFlush = 4
  MaxIntr = 2
  AllowCancel = TRUE
  AllowLie = TRUE
  FixCancel = FALSE
VIEW View
INVARIANTS
  TypeOK
  Conservation
  AfterOk
  WrittenInRangeUnlessCancelled
