SPECIFICATION GSpec
CONSTANTS
  RawMode = TRUE
  Inputs = {}
  FixStaleTimer = FALSE
  AllowLongCsi = TRUE
  MaxTok = 24
  Mut = ""
  Fam = "host"
  GenNames <- CoreNames
  GenSigma <- SigmaSmall
  MinToks = 0
  MaxToks = 0
  MaxBytes = 4
  Modes = {"free"}
  FreeMax = 4
  TmoPolicy = "both"
INVARIANTS
  Emit
  GNoPanic
  GCut
