CONSTANTS
  w1 = w1
  w2 = w2
  Wakers = {}
  Target <- TgtNone
  Tasks = {}
  QCap = 2
  Mode = "external"
  Driver = "poll"
  Eager = TRUE
  ArmInFlush = TRUE
  WakeAfterPush = TRUE
  Overflow = FALSE
  Hosts = {"tokio","futures"}
  Muts = {"none"}
  Ops = {"o1"}
  Timers = {}
  Jobs = {"j1"}
  Owner <- OwnP7
  AnyTurn = FALSE
  MaxLen = 400
  JobLast = TRUE
  JobAt = {"awake2"}
  OpAt = {}
  WakeAt = {}
SPECIFICATION GSpec
INVARIANTS EmitInv
