CONSTANTS
  RW = {"a","c"}
  WW = {}
  Kinds = {"ready","io"}
  TokModes = {"no","fast"}
  MaxPW = 1
  MaxFill = 0
  AllowShut = TRUE
  Eager = FALSE
  Strict = FALSE
  Mut = "none"
SPECIFICATION Spec
INVARIANTS TypeOK NoErr NoSteal CoveredModuloKnown SlotSane BackedOK
