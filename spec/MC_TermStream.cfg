SPECIFICATION Spec
CONSTANTS
  MaxFeed = 3
  MaxWinch = 2
  MaxDrop = 1
  Eager = FALSE
  Mut = ""
VIEW View
INVARIANTS
  TypeOK
  NoLostWake
  Registered
  TimerOnlyForEsc
  NoLostWinch
