SPECIFICATION Spec
CONSTANTS
  MaxCalls = 2
  MaxFlush = 3
  MaxIntr = 1
  AllowCancel = TRUE
  AllowLie = TRUE
  FixCancel = FALSE
VIEW View
INVARIANTS
  TypeOK
  Conservation
  AfterOk
  WrittenInRangeUnlessCancelled
