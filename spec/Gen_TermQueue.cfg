SPECIFICATION Spec
CONSTANTS
  MaxCalls = 2
  MaxFlush = 2
  MaxIntr = 1
  AllowCancel = FALSE
  AllowLie = TRUE
  FixCancel = FALSE
VIEW View
INVARIANTS
  Emit
  FailedAddsNothing
