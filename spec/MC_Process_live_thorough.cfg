CONSTANTS
  K = 2
  EchoBuf = 1
  NIns = {0, 1, 3, 4, 6}
  NOuts = {0, 1, 3}
  NErrs = {0, 3}
  WChunks = {0, 1, 2}
  RChunks = {0, 1}
  IoStatuses = {"c3"}
  Codes = {"c0", "c3"}
  Sigs = {"s15", "s9"}
  Drivers = {"iour", "poll"}
  Impls = {"blocking", "pidfd"}
  Families = {"echo", "consumer", "producer", "exit", "status", "held"}
  BlockingChildPipes = FALSE
SPECIFICATION FairSpec
INVARIANTS TypeOK WaitSafe
PROPERTIES ExitLeadsToWait MustCompleteCompletes
