CONSTANTS
  Drvs = {"iour", "poll"}
  PoolBuf = 2
  MaxDgram = 3
  DevMultiDrop = TRUE
  DevIncomingDrop = TRUE
  DevManagedEmpty = TRUE
  DevPollMultiLen = FALSE
  Part = "stream"
  Feat = {"multi"}
  Sizes = {1, 3}
  Caps = {1, 3}
  SockBuf = 2
  MaxOff = 4
  Dirs = {1}
  Conns = {1, 2}
  DgSocks = {"a"}
  MaxDg = 1
SPECIFICATION FairSpec
PROPERTIES Drains EofArrives
