CONSTANTS
  w1 = w1
  w2 = w2
  Wakers = {w1, w2}
  Target <- TgtMT
  Tasks = {"t1"}
  QCap = 1
  Mode = "block_on"
  Driver = "iour"
  Eager = FALSE
  ArmInFlush = TRUE
  WakeAfterPush = TRUE
  Overflow = FALSE
SPECIFICATION FairSpec
INVARIANTS PendingBound TypeOK NeverStuck
PROPERTIES NoLostWake
