\* thorough: exhaustive safety, three futures of any kind
CONSTANTS
  N = 3
  Deadlines = {0, 1, 2}
  Periods = {2}
  Kinds = {"sleep", "timeout", "interval"}
  NW = 1
  MaxNow = 3
  MaxGen = 3
  Mut = "none"
SPECIFICATION Spec
INVARIANTS TypeOK WheelExact WakerOwner NeverEarly AlwaysFires ReadyWhenDue MinTimeoutCorrect IdleSleepBound TimeoutExact IntervalAligned
