\* control (DESIGN D): no flush before read in the handshake shim (expected to FAIL)
CONSTANTS
  Backends = {"native"}
  Shapes = {"t13"}
  Bufferings = {TRUE, FALSE}
  Payloads = {1}
  Inits = {"c"}
  Limits = {0, 1}
  U = 2
  MaxPend = 1
  FlushBeforeRead = FALSE
  PendingIsWouldBlock = TRUE
  MidResumes = TRUE
  FinalFlush = TRUE
  CloseFlushes = TRUE
  FixRustlsHsFlush = FALSE
SPECIFICATION Spec
INVARIANTS NoDeadlock
