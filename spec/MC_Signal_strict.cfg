CONSTANTS
  Threads = {1, 2}
  Layouts <- LayoutsBad
  Muts <- MutsNone
  Sigs = {"a", "b"}
  BadSigs = {"k"}
  MaxRaise = 1
  RaiseOn = {0}
  SpuriousPolls = FALSE
  FixLeak = FALSE
  MaxNL = 3
SPECIFICATION Spec
INVARIANTS SlabExact
