------------------------------ MODULE HalfLock ------------------------------
(* X01, part 1: the half-lock of compio-signal/src/unix/half_lock.rs (copied from signal-hook-registry).

   It protects the table of registered listeners: signal handlers are READERS (they may run at any
   instruction of any thread, so they may neither block nor allocate), normal-context threads
   registering / unregistering listeners are WRITERS.  One action per atomic operation of the code:

     HalfLock::read        RLoadGen    generation.load
                           RLockInc    lock[generation % 2].fetch_add(1)
                           RLoadData   data.load                      (then the guard is returned)
     ReadGuard::drop       RUnlock     lock[slot].fetch_sub(1)
     HalfLock::write       WLock       write_mutex.lock (+ data.load under the mutex)
     WriteGuard::store     WSwap       data.swap(new)
       write_barrier       WSeen(i)    update_seen: lock[i].load == 0, one load per slot, sticky
                           WGenInc     generation.fetch_add(1)         (only generation % 2 is ever used)
                           WCheck      while !seen_zero.all() -> another update_seen round
                           WFree       drop(Box::from_raw(old))
     WriteGuard dropped    WUnlock     mutex released, the call returns

   ReadCall / ReadRet / ReleaseCall / StoreCall are the call / return brackets of the environment
   (Trace_HalfLock binds recorded events to them; in the exhaustive configs they are ordinary actions).

   The Mut* constants are model mutations for the control configurations (each must violate Safe);
   Perpetual = TRUE lets readers come back for ever (control for the liveness property: the writer can
   starve, which half_lock.rs documents as its accepted trade-off). *)
EXTENDS Naturals, FiniteSets, TLC

CONSTANTS Readers, Writers,
          MaxWrites,        \* total number of store calls
          MaxReads,         \* read calls per reader (ignored when Perpetual)
          Perpetual,
          Muts              \* set of model mutations, one is chosen in Init ("none" = the code as it is):
                            \*   "nobarrier"  store frees the old value right after the swap
                            \*   "oldslot"    barrier waits only for the slot of the generation it found
                            \*   "newslot"    barrier waits only for the slot of the generation it switched to
                            \*   "loadfirst"  reader loads the pointer before it takes the lock

VARIABLES mut, data, gen, lock, mutex, alive, nver,
          rpc, rslot, rptr, reads,
          wpc, wold, wval, seen, pass, wslot

vars == <<mut, data, gen, lock, mutex, alive, nver, rpc, rslot, rptr, reads, wpc, wold, wval, seen, pass, wslot>>

NoW == 0
MutNoBarrier == mut = "nobarrier"
MutOnlyOldSlot == mut = "oldslot"
MutOnlyNewSlot == mut = "newslot"
MutLoadFirst == mut = "loadfirst"
MutsNone == {"none"}
MutsAll == {"nobarrier", "oldslot", "newslot", "loadfirst"}
Slots == {0, 1}

Init ==
  /\ mut \in Muts
  /\ data = 0 /\ gen = 0 /\ lock = [i \in Slots |-> 0] /\ mutex = NoW
  /\ alive = {0} /\ nver = 1
  /\ rpc = [r \in Readers |-> "idle"] /\ rslot = [r \in Readers |-> 0] /\ rptr = [r \in Readers |-> 0]
  /\ reads = [r \in Readers |-> 0]
  /\ wpc = [w \in Writers |-> "idle"] /\ wold = [w \in Writers |-> 0] /\ wval = [w \in Writers |-> 0]
  /\ seen = [i \in Slots |-> FALSE] /\ pass = 0 /\ wslot = 0

RVars == <<rpc, rslot, rptr, reads>>
WVars == <<wpc, wold, wval, seen, pass, wslot>>

(* ------------------------------- readers -------------------------------- *)
ReadCall(r) ==
  /\ rpc[r] = "idle"
  /\ Perpetual \/ reads[r] < MaxReads
  /\ rpc' = [rpc EXCEPT ![r] = IF MutLoadFirst THEN "ptr0" ELSE "gen"]
  /\ reads' = IF Perpetual THEN reads ELSE [reads EXCEPT ![r] = @ + 1]
  /\ UNCHANGED <<data, gen, lock, mutex, alive, nver, rslot, rptr, WVars>>

RLoadGen(r) ==
  /\ rpc[r] = "gen"
  /\ rslot' = [rslot EXCEPT ![r] = gen]
  /\ rpc' = [rpc EXCEPT ![r] = "inc"]
  /\ UNCHANGED <<data, gen, lock, mutex, alive, nver, rptr, reads, WVars>>

RLockInc(r) ==
  /\ rpc[r] = "inc"
  /\ lock' = [lock EXCEPT ![rslot[r]] = @ + 1]
  /\ rpc' = [rpc EXCEPT ![r] = IF MutLoadFirst THEN "ret" ELSE "ptr"]
  /\ UNCHANGED <<data, gen, mutex, alive, nver, rslot, rptr, reads, WVars>>

RLoadData(r) ==
  /\ rpc[r] \in {"ptr", "ptr0"}
  /\ rptr' = [rptr EXCEPT ![r] = data]
  /\ rpc' = [rpc EXCEPT ![r] = IF rpc[r] = "ptr0" THEN "gen" ELSE "ret"]
  /\ UNCHANGED <<data, gen, lock, mutex, alive, nver, rslot, reads, WVars>>

ReadRet(r) ==
  /\ rpc[r] = "ret"
  /\ rpc' = [rpc EXCEPT ![r] = "held"]
  /\ UNCHANGED <<data, gen, lock, mutex, alive, nver, rslot, rptr, reads, WVars>>

ReleaseCall(r) ==
  /\ rpc[r] = "held"
  /\ rpc' = [rpc EXCEPT ![r] = "dec"]
  /\ UNCHANGED <<data, gen, lock, mutex, alive, nver, rslot, rptr, reads, WVars>>

RUnlock(r) ==
  /\ rpc[r] = "dec"
  /\ lock' = [lock EXCEPT ![rslot[r]] = @ - 1]
  /\ rpc' = [rpc EXCEPT ![r] = "idle"]
  /\ UNCHANGED <<data, gen, mutex, alive, nver, rslot, rptr, reads, WVars>>

(* ------------------------------- writers -------------------------------- *)
\* the stored value is identified by a version id that is not in use (the exhaustive configs take the
\* next unused number; a recorded trace brings its own ids)
StoreCallV(w, v) ==
  /\ wpc[w] = "idle"
  /\ v \notin alive
  /\ wval' = [wval EXCEPT ![w] = v]
  /\ nver' = IF v >= nver THEN v + 1 ELSE nver
  /\ wpc' = [wpc EXCEPT ![w] = "lock"]
  /\ UNCHANGED <<data, gen, lock, mutex, alive, RVars, wold, seen, pass, wslot>>

StoreCall(w) == nver <= MaxWrites /\ StoreCallV(w, nver)

WLock(w) ==
  /\ wpc[w] = "lock"
  /\ mutex = NoW
  /\ mutex' = w
  /\ wpc' = [wpc EXCEPT ![w] = "swap"]
  /\ UNCHANGED <<data, gen, lock, alive, nver, RVars, wold, wval, seen, pass, wslot>>

WSwap(w) ==
  /\ wpc[w] = "swap"
  /\ data' = wval[w]
  /\ alive' = alive \cup {wval[w]}
  /\ wold' = [wold EXCEPT ![w] = data]
  /\ seen' = [i \in Slots |-> FALSE]
  /\ pass' = 0
  /\ wslot' = 0
  /\ wpc' = [wpc EXCEPT ![w] = IF MutNoBarrier THEN "free" ELSE "seen"]
  /\ UNCHANGED <<gen, lock, mutex, nver, RVars, wval>>

\* update_seen: one load per slot, in slot order
WSeen(w) ==
  /\ wpc[w] = "seen"
  /\ seen' = [seen EXCEPT ![wslot] = @ \/ lock[wslot] = 0]
  /\ (IF wslot = 0
        THEN wslot' = 1 /\ UNCHANGED <<wpc, pass>>
        ELSE /\ wslot' = 0
             /\ pass' = 1
             /\ wpc' = [wpc EXCEPT ![w] = IF pass = 0 THEN "geninc" ELSE "check"])
  /\ UNCHANGED <<data, gen, lock, mutex, alive, nver, RVars, wold, wval>>

WGenInc(w) ==
  /\ wpc[w] = "geninc"
  /\ gen' = 1 - gen
  /\ wpc' = [wpc EXCEPT ![w] = "check"]
  /\ UNCHANGED <<data, lock, mutex, alive, nver, RVars, wold, wval, seen, pass, wslot>>

\* gen has been switched already when this is evaluated: the old generation's slot is 1 - gen
BarrierDone ==
  IF MutOnlyOldSlot THEN seen[1 - gen]
  ELSE IF MutOnlyNewSlot THEN seen[gen]
  ELSE seen[0] /\ seen[1]

WCheck(w) ==
  /\ wpc[w] = "check"
  /\ wpc' = [wpc EXCEPT ![w] = IF BarrierDone THEN "free" ELSE "seen"]
  /\ UNCHANGED <<data, gen, lock, mutex, alive, nver, RVars, wold, wval, seen, pass, wslot>>

WFree(w) ==
  /\ wpc[w] = "free"
  /\ alive' = alive \ {wold[w]}
  /\ wpc' = [wpc EXCEPT ![w] = "unlock"]
  /\ UNCHANGED <<data, gen, lock, mutex, nver, RVars, wold, wval, seen, pass, wslot>>

WUnlock(w) ==
  /\ wpc[w] = "unlock"
  /\ mutex' = NoW
  /\ wpc' = [wpc EXCEPT ![w] = "idle"]
  /\ UNCHANGED <<data, gen, lock, alive, nver, RVars, wold, wval, seen, pass, wslot>>

ReaderStep(r) == UNCHANGED mut /\ (RLoadGen(r) \/ RLockInc(r) \/ RLoadData(r) \/ RUnlock(r))
WriterStep(w) == UNCHANGED mut /\ (WLock(w) \/ WSwap(w) \/ WSeen(w) \/ WGenInc(w) \/ WCheck(w) \/ WFree(w) \/ WUnlock(w))
ReaderEnv(r) == UNCHANGED mut /\ (ReadCall(r) \/ ReadRet(r) \/ ReleaseCall(r))

Next ==
  \/ \E r \in Readers : ReaderEnv(r) \/ ReaderStep(r)
  \/ \E w \in Writers : (UNCHANGED mut /\ StoreCall(w)) \/ WriterStep(w)

Spec == Init /\ [][Next]_vars

\* every started call is continued; guards are released eventually (a handler returns)
Fair ==
  /\ \A r \in Readers : WF_vars(ReaderStep(r) \/ (UNCHANGED mut /\ (ReadRet(r) \/ ReleaseCall(r))))
  /\ \A w \in Writers : WF_vars(WriterStep(w))
FairSpec == Spec /\ Fair

(* ------------------------------ properties ------------------------------ *)
Holding(r) == rpc[r] \in {"ret", "held"}

\* the data a reader got is not freed while it holds the guard
Safe == \A r \in Readers : Holding(r) => rptr[r] \in alive
CurrentAlive == data \in alive
\* nothing but the current value survives a quiet moment
NoLeak == ((\A r \in Readers : rpc[r] = "idle") /\ (\A w \in Writers : wpc[w] = "idle")) => alive = {data}
LockBalanced ==
  \A i \in Slots : lock[i] = Cardinality({r \in Readers : rslot[r] = i /\ rpc[r] \in {"ptr", "ret", "held", "dec"}})
MutexOwned == \A w \in Writers : (wpc[w] \in {"swap", "seen", "geninc", "check", "free", "unlock"}) <=> (mutex = w)
\* readers never wait: whatever the writers do, a reader inside read() or dropping its guard can step
ReadWaitFree == \A r \in Readers : rpc[r] \in {"gen", "inc", "ptr", "dec"} => ENABLED ReaderStep(r)
\* a guard returned after a store has returned sees that store (or a later one)
TypeOK == /\ gen \in Slots /\ data \in 0..MaxWrites /\ alive \subseteq 0..MaxWrites
          /\ \A i \in Slots : lock[i] \in 0..Cardinality(Readers)

\* control configuration (one TLC run, -workers 1): every mutation must reach a state violating Safe;
\* CtlSeen is always TRUE and prints the name of a mutation the first time that happens
CtlIdx == CASE mut = "nobarrier" -> 21 [] mut = "oldslot" -> 22 [] mut = "newslot" -> 23 [] mut = "loadfirst" -> 24 [] OTHER -> 25
CtlInit == \A i \in 21..25 : TLCSet(i, 0)
CtlSeen == (~Safe /\ TLCGet(CtlIdx) = 0) => (TLCSet(CtlIdx, 1) /\ PrintT(<<"CTL", mut>>))
\* states of a mutation whose violation has been seen are not explored any further
CtlCons == TLCGet(CtlIdx) = 0
CtlSpec == CtlInit /\ Spec

Perms == Permutations(Readers) \cup Permutations(Writers)

StoreTerminates == \A w \in Writers : (wpc[w] # "idle") ~> (wpc[w] = "idle")
ReadTerminates == \A r \in Readers : (rpc[r] \in {"gen", "inc", "ptr"}) ~> (rpc[r] = "held")
=============================================================================
