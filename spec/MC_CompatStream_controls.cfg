CONSTANTS
  Cfgs <- CfgsControls
  Side = "r"
  MaxSrc = 4
  MaxAcc = 4
  MaxSrcA = 3
  MaxAccA = 3
  Sizes = {0, 1, 2, 3}
  Ks = {1, 2, 3}
  Fuel = 3
  Detail = FALSE
  OldReadLimit = TRUE
  WakeAll = FALSE
SPECIFICATION FairSpec
INVARIANTS ReadFifo ReadLimitStrict
PROPERTY Woken
