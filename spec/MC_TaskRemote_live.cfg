CONSTANTS
  Setup = "fresh"
  NW = 0
  SyncCap = 1
  MaxTicks = 2
  MaxJPolls = 3
  MaxWakes = 1
  JCmds = {"poll"}
  HCmds = {"tick", "clear", "execdrop"}
  Spurious = FALSE
  Strict = TRUE
  Fix = {"D10a", "D10b", "D11", "D12"}
SPECIFICATION LiveSpec
INVARIANTS NoErr HomeOnly ExactlyOnce
PROPERTIES JoinCompletes WaitTerminates
