\* quick, exhaustive: every canonical program of 5 steps over two futures of any kind
CONSTANTS
  N = 2
  Deadlines = {0, 1, 2}
  Periods = {2}
  Kinds = {"sleep", "timeout", "interval"}
  NW = 1
  MaxNow = 3
  MaxGen = 3
  Mut = "none"
  MaxSteps = 5
SPECIFICATION GSpec
INVARIANTS Emit
