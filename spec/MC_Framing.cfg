\* quick: Sink + Stream round trip for every framer (all fragmentations, states merge) and hostile
\* peers (bytes chosen when delivered) for every framer; safety, progress measure, deadlock freedom
CONSTANTS
  FixExtractOverflow = TRUE
  FixFramerError = TRUE
  Lfls = {1, 2, 3, 4, 5, 6, 7, 8}
  HostLfls = {1, 2, 3, 4, 5, 6, 7, 8}
  Endians = {TRUE, FALSE}
  DelimKinds = {"nl", "c1", "R3", "a12"}
  HostDelimKinds = {"c1", "a12", "a11"}
  WithNoop = TRUE
  WithLim = TRUE
  Codecs = {"bytes"}
  PayAlpha = {1}
  MaxPay = 2
  MaxFrames = 2
  BigPays = {}
  WideFrom = 3
  WideMaxPay = 2
  WideMaxFrames = 2
  WideHostAlpha = {0, 255}
  WideHostExtra = 1
  Modes = {"rt", "hostlazy"}
  HostAlpha = {0, 1, 2, 255}
  HostExtra = 2
  ChunkMin = 1
  ChunkMax = 16
  WLimits = {1, 16}
  ZeroReads = 0
  MaxErr = 0
  AfterDone = 0
SPECIFICATION Spec
INVARIANTS SinkExact SinkPrefix RoundTrip InRange PosInside NoPanic ErrorOnlyWhenRefused MeasureNonNeg
PROPERTIES Progress WProgress
