CONSTANTS
  Setup = "hot"
  NW = 1
  SyncCap = 1
  MaxTicks = 2
  MaxJPolls = 1
  MaxWakes = 1
  JCmds = {"hdrop"}
  HCmds = {"tick", "clear", "execdrop"}
  Spurious = TRUE
  Strict = TRUE
  Fix = {"D10a", "D10b", "D11", "D12"}
SPECIFICATION LiveSpec
INVARIANTS NoErr HomeOnly ExactlyOnce NoWakerLeak RcMatches NoLostJoinWake PendingBound ScntOk
PROPERTIES WaitTerminates
