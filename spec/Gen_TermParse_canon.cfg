SPECIFICATION GSpec
CONSTANTS
  RawMode = FALSE
  Inputs = {}
  FixStaleTimer = FALSE
  AllowLongCsi = TRUE
  MaxTok = 24
  Mut = ""
  Fam = "wf"
  GenNames <- CanonNames
  GenSigma <- SigmaSmall
  MinToks = 1
  MaxToks = 2
  MaxBytes = 0
  Modes = {"whole","bytes"}
  FreeMax = 0
  TmoPolicy = "clean"
INVARIANTS
  Emit
  GNoPanic
  GCut
