----------------------- MODULE Gen_TaskRemote_target -----------------------
(* Targeted schedules: TLC's shortest counterexample to "no thread is ever parked at hook site Site"
   is a schedule that reaches that site. The check (lib/checks/c04.py) asks for one per hook point
   that the seeded sample of Gen_TaskRemote did not exercise, reads the trace with -dumpTrace json
   and converts it into the schedule format of replay_remote, so that every scheduling point of the
   model is bound to the real code in every run. *)
EXTENDS TaskRemote
CONSTANT Site
NeverAt == \A t \in Th : pc[t] # Site
\* pattern "wake, poll, wake" (Setup = "cold": the task is only ever made runnable by remote wakes): the first wake
\* has been drained and polled by a complete tick, then a second remote wake has completed and sits in the sync
\* queue. Its start_scheduling necessarily comes after the unschedule / poll of the first tick - the classical
\* lost-wake-up schedule. The replay then lets the home thread tick once more and requires a poll.
NeverWakeAfterPoll == ~(/\ n.ticks = 1 /\ pc["H"] = "idle" /\ g.polls = 2 /\ syncq = 1
                        /\ \A t \in Wk : pc[t] = "idle")
=============================================================================
