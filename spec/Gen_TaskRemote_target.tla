----------------------- MODULE Gen_TaskRemote_target -----------------------
(* Targeted schedules: TLC's shortest counterexample to "no thread is ever parked at hook site Site"
   is a schedule that reaches that site. The check (lib/checks/c04.py) asks for one per hook point
   that the seeded sample of Gen_TaskRemote did not exercise, reads the trace with -dumpTrace json
   and converts it into the schedule format of replay_remote, so that every scheduling point of the
   model is bound to the real code in every run. *)
EXTENDS TaskRemote
CONSTANT Site
NeverAt == \A t \in Th : pc[t] # Site
=============================================================================
