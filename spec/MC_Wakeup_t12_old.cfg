CONSTANTS
  w1 = w1
  w2 = w2
  Wakers = {w1, w2}
  Target <- TgtT12
  Tasks = {"t1", "t2"}
  QCap = 1
  Mode = "block_on"
  Driver = "iour"
  Eager = FALSE
  ArmInFlush = TRUE
  WakeAfterPush = FALSE
  Overflow = FALSE
SPECIFICATION FairSpec
INVARIANTS PendingBound TypeOK NeverStuck
PROPERTIES NoLostWake
