CONSTANTS
  NT = 2
  MI = 1
  MaxPolls = 2
  MaxW = 2
  NJ = 2
  Outcomes = {"pend", "stash", "selfwake", "ready", "panic"}
  Mut = "none"
SPECIFICATION Spec
VIEW View
INVARIANTS NoErr ExactlyOnce RcMatches WordOk DetachKeepsRunning JoinerWoken NoStarvation QueueOk
PROPERTIES PanicIsolated
