\* lifecycle and failures: spawn, failing pre_start / post_start, handler failure, self stop, dropped reply
CONSTANTS
  Actors = {1}
  Procs = {0, 1}
  Names = {}
  Caps = {1}
  Kinds = {"cast", "fail", "stopself", "noreply", "callfail"}
  Spawners = {0}
  Senders = {1}
  Stoppers = {0}
  Lookers = {}
  GSenders = {}
  Joiners = {}
  Prestarted = {}
  Prejoined = FALSE
  InitialActors = {1}
  Replacements = {}
  MsgsPer = 3
  StopsPer = 1
  LooksPer = 0
  JoinsPer = 0
  SupChoices = {FALSE}
  SupProc = 99
  SupCap = 1
  PreMayFail = TRUE
  PostMayFail = TRUE
  StopHooksMayFail = FALSE
  DrainOnClose = FALSE
  ReportBeforeRelease = FALSE
  ReserveIgnoresStarting = FALSE
SPECIFICATION Spec
INVARIANTS TypeOK SerialFifo Conservation HandlingOnlyWhileRunning HookOrder CallSound RegistrySound FailedStartFreesName SupervisionSound GroupExactlyOne GroupLockSound GroupTriesEachOnce
