----------------------------- MODULE Gen_OpFut -----------------------------
(* Behaviour printer for OpFut (Eager variant): carries the harness steps with the expected observation of
   each as a history variable and prints the path to every distinct state (VIEW hides the history, so TLC
   keeps one shortest path per distinct state - ViewState - or per distinct state and incoming observation -
   ViewEdge).  lib/checks/x04.py keeps the maximal paths; harness bin x04_replay replays them. *)
EXTENDS OpFut, Json

VARIABLES hist
gvars == <<vars, hist>>

\* what the harness compares after a step: the observation of the step and is_terminated of every leaf
Exp == [r |-> last'.r, v |-> last'.v, n |-> last'.n, seen |-> last'.seen, lp |-> last'.lp, px |-> last'.px,
        dw |-> last'.dw, tm |-> [b \in Br |-> Term(br', b)], fin |-> rootSt']

GInit == Init /\ hist = <<>>
GNext == Next /\ hist' = Append(hist, [a |-> last'.a, b |-> last'.b, x |-> Exp])
GSpec == GInit /\ [][GNext]_gvars

ViewState == <<shape, phase, tokC, tokN, tokReg, postC, lst, br, rootSt>>
ViewEdge == <<shape, phase, tokC, tokN, tokReg, postC, lst, br, rootSt, last>>

Emit == (phase # "pre") =>
          PrintT(<<"REPLAY", ToJson([drv |-> Driver, o |-> shape.o, b |-> shape.b, steps |-> hist])>>)
=============================================================================
