------------------------------ MODULE Framing ------------------------------
(* C13 - framing: Framer::enclose / Framer::extract of every built-in framer,
   the Sink side (start_send / write_all / flush / close) and the Stream side
   (poll_next) of compio_io::framed::Framed, transcribed as the code is written:

     compio-io/src/framed/frame.rs   LengthDelimited, AnyDelimited (CharDelimited
                                     delegates to it), NoopFramer, Frame
     compio-io/src/framed/read.rs    StateInner::{Idle, Reading}, the eof flag
     compio-io/src/framed/write.rs   start_send, start_write (write_all), flush, close
     compio-io/src/buffer.rs         Buffer::{advance, reset, reserve}

   Bytes are integers 0..255.  TLC integers are 32 bit, so a decoded length is a
   length CLASS:  small(n) with n < 2^24 exact,  huge (at least 2^24, the sum
   lfl + len still fits a usize) and wrap (lfl + len exceeds usize::MAX, only
   possible for lfl = 8 and the bytes FF x 7 plus a low byte of F8 or more).

   Environment: the writer accepts any 1..wlimit bytes per write call; the reader
   delivers the stream in arbitrary fragments of 1..ChunkMax bytes (ChunkMax = 16
   is the spare capacity buf.reserve(16) guarantees before every read), may
   return up to ZeroReads empty reads before the real end, up to MaxErr errors,
   and returns 0 forever once the stream is exhausted.

   Named deviations (recorded in known_findings.json):
     EncloseTruncates       LengthDelimited::enclose stores only the low lfl bytes
                            of the payload length (still in the code)
   Repaired defects, kept as switches (TRUE = the repaired code, FALSE = the pinned code
   of d4dae75; one control configuration each must still violate NoPanic with FALSE):
     FixExtractOverflow     FALSE: LengthDelimited::extract computes lfl + len unchecked and
                            panics; TRUE (commit 0af596c): checked_add, Err(InvalidData)
     FixFramerError         FALSE: poll_next propagates an extract error with the question
                            mark after idle.take(): the state stays Idle(None) and the next
                            poll panics ("Inconsistent state"); TRUE (commit 3808013): the
                            state is restored, a failed flag is set and the stream ends   *)
EXTENDS Integers, Sequences, FiniteSets, TLC

CONSTANTS FixExtractOverflow, FixFramerError,   \* BOOLEAN switches, see above
          Lfls,        \* length-field widths explored in round-trip mode (subset of 1..8)
          HostLfls,    \* length-field widths explored against hostile input (0 only for the vacuity control)
          Endians,     \* subset of BOOLEAN, TRUE = big endian
          DelimKinds,  \* delimiter framers in round-trip mode, subset of {"nl", "c1", "R3", "a12", "a11"}
          HostDelimKinds, \* delimiter framers against hostile input
          WithNoop,    \* BOOLEAN
          WithLim,     \* BOOLEAN: a user-written framer that uses the Err arm of Framer::extract
                       \* (2 byte big-endian length field, refuses frames longer than LimLimit)
          Codecs,      \* subset of {"bytes", "json"}
          PayAlpha,    \* payload alphabet for the bytes codec
          MaxPay,      \* maximal payload length
          MaxFrames,   \* maximal number of frames
          BigPays,     \* extra payload lengths (payload = that many bytes 0x01)
          WideFrom,    \* LengthDelimited framers with lfl >= WideFrom use the Wide* bounds below
          WideMaxPay, WideMaxFrames, WideHostAlpha, WideHostExtra,
          Modes,       \* subset of {"rt", "hostile", "hostlazy"}
          HostAlpha,   \* alphabet of hostile strings
          HostExtra,   \* hostile strings have up to header width + HostExtra bytes
          ChunkMin,    \* smallest fragment one read delivers (unless less is left); 1 = every fragmentation
          ChunkMax,    \* largest fragment one read delivers
          WLimits,     \* set of per-call limits of the writer
          ZeroReads,   \* number of spurious empty reads the reader may return
          MaxErr,      \* number of read errors the reader may return
          AfterDone    \* how often the consumer polls again after the end of the stream

VARIABLES fr,      \* the framer  [k, lfl, be, dk, d]
          codec,   \* "bytes" | "json"  (uninterpreted: only selects the payload set)
          mode,    \* "rt" (encode, write, read back) | "hostile" (arbitrary bytes on the wire, chosen
                   \* at the start) | "hostlazy" (arbitrary bytes, chosen when they are delivered)
          frames,  \* payloads handed to the sink (ghost constant of the behaviour)
          wlimit,  \* what the writer accepts per call
          wst,     \* write::State  "config" (Configuring, nothing sent yet) | "idle" | "writing" | "closed"
          nsent,   \* frames completely sent
          wbuf,    \* write buffer after encode + enclose
          needle,  \* write_all progress
          sink,    \* bytes that reached the writer
          wire,    \* bytes not yet delivered by the reader
          lazy,    \* hostlazy: how many more bytes the peer may still send
          rbuf,    \* read buffer (the Vec: all initialized bytes)
          pos,     \* Buffer progress = Slice::begin
          eof,     \* read::State::eof
          st,      \* "wait" | "idle" | "reading" | "done" | "panic" | "poisoned" (Idle(None)) | "poisonpanic"
                   \* | "errored" (framer error returned, failed flag set) | "faildone" (None because failed)
          out,     \* ghost: payloads of the Ok items poll_next returned (Err items are counted in errs)
          zr, errs, after   \* environment budgets used

vars == <<fr, codec, mode, frames, wlimit, wst, nsent, wbuf, needle, sink,
          wire, lazy, rbuf, pos, eof, st, out, zr, errs, after>>
wvars == <<wst, nsent, wbuf, needle, sink>>
rvars == <<wire, lazy, rbuf, pos, eof, st, out, zr, errs, after>>
cvars == <<fr, codec, mode, frames, wlimit>>

Min(a, b) == IF a < b THEN a ELSE b
MinOf(S) == CHOOSE x \in S : \A y \in S : x <= y
SeqsUpTo(S, n) == UNION {[1..m -> S] : m \in 0..n}
RECURSIVE Flat(_)
Flat(ss) == IF ss = <<>> THEN <<>> ELSE Head(ss) \o Flat(Tail(ss))
IsPrefix(a, b) == Len(a) <= Len(b) /\ SubSeq(b, 1, Len(a)) = a

\* ---------------------------------------------------------------------------
\* framers
\* ---------------------------------------------------------------------------
DelimBytes(dk) == CASE dk = "nl"  -> <<10>>              \* LineDelimited = CharDelimited<'\n'>
                    [] dk = "c1"  -> <<1>>               \* CharDelimited<'\u{1}'>
                    [] dk = "R3"  -> <<226, 132, 157>>   \* CharDelimited<U+211D>, three UTF-8 bytes
                    [] dk = "a12" -> <<1, 2>>            \* AnyDelimited(&[1, 2])
                    [] dk = "a11" -> <<1, 1>>            \* AnyDelimited(&[1, 1]), overlaps itself
                    [] OTHER      -> <<0>>

FramerSetOf(lfls, dks) ==
  {[k |-> "ld", lfl |-> l, be |-> b, dk |-> "", d |-> <<>>] : l \in lfls, b \in Endians}
  \cup {[k |-> "delim", lfl |-> 0, be |-> FALSE, dk |-> x, d |-> DelimBytes(x)] : x \in dks}
  \cup (IF WithNoop THEN {[k |-> "noop", lfl |-> 0, be |-> FALSE, dk |-> "", d |-> <<>>]} ELSE {})
  \cup (IF WithLim THEN {[k |-> "lim", lfl |-> 2, be |-> TRUE, dk |-> "", d |-> <<>>]} ELSE {})
FramerSet == FramerSetOf(Lfls, DelimKinds)
HostFramerSet == FramerSetOf(HostLfls, HostDelimKinds)

HeaderWidth(f) == IF f.k \in {"ld", "lim"} THEN f.lfl ELSE Len(f.d)
LimLimit == 3
NoopMax == 4096                         \* NoopFramer::default().max_size

ExactDigits == 3
Pow256(i) == CASE i = 0 -> 1 [] i = 1 -> 256 [] i = 2 -> 65536 [] OTHER -> 16777216
\* i-th little-endian base-256 digit (1-based) of a length below 2^24
Digit(n, i) == IF i <= ExactDigits THEN (n \div Pow256(i - 1)) % 256 ELSE 0

\* LengthDelimited::enclose: to_be_bytes()[8 - lfl ..] resp. to_le_bytes()[.. lfl]
Header(f, n) == [j \in 1..f.lfl |-> IF f.be THEN Digit(n, f.lfl - j + 1) ELSE Digit(n, j)]

Enclose(f, p) == CASE f.k \in {"ld", "lim"} -> Header(f, Len(p)) \o p
                   [] f.k = "delim" -> p \o f.d              \* AnyDelimited::enclose: extend_from_slice
                   [] OTHER         -> p                     \* NoopFramer::enclose

\* deviation: the length does not fit the length field and is silently cut
EncloseTruncates(f, p) == f.k = "ld" /\ f.lfl <= ExactDigits /\ Len(p) >= Pow256(f.lfl)

More == [r |-> "more", pre |-> 0, pay |-> 0, suf |-> 0]
Panic == [r |-> "panic", pre |-> 0, pay |-> 0, suf |-> 0]
Error == [r |-> "err", pre |-> 0, pay |-> 0, suf |-> 0]
FrameOf(a, b, c) == [r |-> "frame", pre |-> a, pay |-> b, suf |-> c]

\* i-th little-endian digit of the length field at the start of view v
HdrDigit(f, v, i) == IF i > f.lfl THEN 0 ELSE IF f.be THEN v[f.lfl - i + 1] ELSE v[i]
LenClass(f, v) ==
  IF \A i \in 1..f.lfl : i > ExactDigits => HdrDigit(f, v, i) = 0
  THEN [c |-> "small", n |-> HdrDigit(f, v, 1) + 256 * HdrDigit(f, v, 2) + 65536 * HdrDigit(f, v, 3)]
  ELSE IF f.lfl = 8 /\ (\A i \in 2..8 : HdrDigit(f, v, i) = 255) /\ HdrDigit(f, v, 1) >= 248
       THEN [c |-> "wrap", n |-> 0]
       ELSE [c |-> "huge", n |-> 0]

\* LengthDelimited::extract
ExtractLD(f, v) ==
  IF Len(v) < f.lfl THEN More
  ELSE LET L == LenClass(f, v) IN
       CASE L.c = "small" -> (IF Len(v) < f.lfl + L.n THEN More ELSE FrameOf(f.lfl, L.n, 0))
         [] L.c = "huge"  -> More        \* buf.len() < lfl + len holds for every buffer that exists
         [] OTHER         -> (IF FixExtractOverflow THEN Error    \* checked_add failed: InvalidData
                              ELSE Panic)                      \* lfl + len overflows usize

\* AnyDelimited::extract: windows(m).position(== delimiter)
ExtractDelim(f, v) ==
  LET m == Len(f.d)
      hits == {p \in 0..(Len(v) - m) : SubSeq(v, p + 1, p + m) = f.d}
  IN IF Len(v) = 0 \/ hits = {} THEN More ELSE FrameOf(0, MinOf(hits), m)

\* NoopFramer::extract
ExtractNoop(v) == IF Len(v) = 0 THEN More ELSE FrameOf(0, Min(Len(v), NoopMax), 0)

\* the user-written framer: checks the announced length first, then delegates
ExtractLim(f, v) ==
  IF Len(v) >= f.lfl /\ (LenClass(f, v).c # "small" \/ LenClass(f, v).n > LimLimit) THEN Error
  ELSE ExtractLD(f, v)

Extract(f, v) == CASE f.k = "ld"    -> ExtractLD(f, v)
                   [] f.k = "lim"   -> ExtractLim(f, v)
                   [] f.k = "delim" -> ExtractDelim(f, v)
                   [] OTHER         -> ExtractNoop(v)

\* a payload the framer can carry at all: extracting from its own enclosure gives it back
\* (false for delimiter framers when payload + delimiter contains the delimiter earlier,
\*  and for LengthDelimited exactly when EncloseTruncates)
SelfDecodable(f, p) == LET e == Enclose(f, p) x == Extract(f, e) IN
                         IF f.k = "noop" THEN TRUE
                         ELSE x.r = "frame" /\ x.pre + x.pay + x.suf = Len(e) /\ x.pay = Len(p)

\* ---------------------------------------------------------------------------
\* initial states
\* ---------------------------------------------------------------------------
Wide(f) == f.k = "ld" /\ f.lfl >= WideFrom
JsonPays == {<<49>>, <<91, 93>>}                  \* the JSON texts  1  and  []
BytePays(f) == SeqsUpTo(PayAlpha, IF Wide(f) THEN WideMaxPay ELSE MaxPay)
               \cup {[i \in 1..n |-> 1] : n \in BigPays}
PaysOf(f, c) == IF c = "json" THEN JsonPays ELSE BytePays(f)
MaxFramesOf(f) == IF Wide(f) THEN WideMaxFrames ELSE MaxFrames
HostAlphaOf(f) == IF Wide(f) THEN WideHostAlpha ELSE HostAlpha
\* delimiter framers cannot carry a payload that produces the delimiter early: precondition
Carries(f, p) == f.k = "delim" => SelfDecodable(f, p)

HostExtraOf(f) == IF Wide(f) THEN WideHostExtra ELSE HostExtra
HostileStrings(f) == SeqsUpTo(HostAlphaOf(f), HeaderWidth(f) + HostExtraOf(f))

InitCommon ==
  /\ nsent = 0 /\ wbuf = <<>> /\ needle = 0 /\ sink = <<>>
  /\ rbuf = <<>> /\ pos = 0 /\ eof = FALSE /\ out = <<>>
  /\ zr = 0 /\ errs = 0 /\ after = 0

InitRt ==
  /\ mode = "rt" /\ "rt" \in Modes
  /\ fr \in FramerSet /\ codec \in Codecs
  /\ (codec = "json" => fr.k # "noop")      \* a byte pipe does not keep a JSON text in one piece
  /\ frames \in {s \in SeqsUpTo(PaysOf(fr, codec), MaxFramesOf(fr)) : \A i \in 1..Len(s) : Carries(fr, s[i])}
  /\ wlimit \in WLimits
  /\ wst = "config" /\ st = "wait" /\ wire = <<>> /\ lazy = 0
  /\ InitCommon

InitHostile ==
  /\ mode = "hostile" /\ "hostile" \in Modes
  /\ fr \in HostFramerSet /\ codec = "bytes" /\ frames = <<>>
  /\ wlimit = 0
  /\ wst = "closed" /\ st = "idle"
  /\ wire \in HostileStrings(fr) /\ lazy = 0
  /\ InitCommon

InitHostLazy ==
  /\ mode = "hostlazy" /\ "hostlazy" \in Modes
  /\ fr \in HostFramerSet /\ codec = "bytes" /\ frames = <<>>
  /\ wlimit = 0
  /\ wst = "closed" /\ st = "idle"
  /\ wire = <<>> /\ lazy = HeaderWidth(fr) + HostExtraOf(fr)
  /\ InitCommon

Init == InitRt \/ InitHostile \/ InitHostLazy

\* ---------------------------------------------------------------------------
\* Sink side (write.rs)
\* ---------------------------------------------------------------------------
\* start_send: buf.clear(); codec.encode(item, buf); framer.enclose(buf); start_write()
\* (State::buf() turns Configuring into Idle first)
StartSend ==
  /\ wst \in {"config", "idle"} /\ nsent < Len(frames)
  /\ wbuf' = Enclose(fr, frames[nsent + 1])
  /\ needle' = 0
  /\ wst' = "writing"
  /\ UNCHANGED <<nsent, sink, cvars, rvars>>

\* one iteration of write_all: io.write(buf.slice(needle..)) accepted n bytes
WriteSome(n) ==
  /\ wst = "writing" /\ needle < Len(wbuf)
  /\ n >= 1 /\ n <= Min(wlimit, Len(wbuf) - needle)
  /\ sink' = sink \o SubSeq(wbuf, needle + 1, needle + n)
  /\ needle' = needle + n
  /\ UNCHANGED <<wst, nsent, wbuf, cvars, rvars>>

\* write_all returned: poll_flush finds State::Writing, polls it to completion (poll_sink -> Idle)
\* and returns Ready; the writer itself is NOT flushed on this path (only a poll_flush that
\* finds State::Idle calls io.flush())
WriteDone ==
  /\ wst = "writing" /\ needle = Len(wbuf)
  /\ wst' = "idle"
  /\ nsent' = nsent + 1
  /\ UNCHANGED <<wbuf, needle, sink, cvars, rvars>>

\* poll_close: Idle -> start_close -> io.shutdown(); from Configuring poll_close only initialises
\* the state and returns Ready WITHOUT shutting the writer down (WriterShutDown below).
\* The read side then sees the sink content.
WriterShutDown == wst = "idle"
Close ==
  /\ wst \in {"config", "idle"} /\ nsent = Len(frames)
  /\ wst' = "closed"
  /\ wire' = sink
  /\ st' = "idle"
  /\ wlimit' = 0        \* the writer is gone; normalised so that read-side states merge
  /\ UNCHANGED <<nsent, wbuf, needle, sink, fr, codec, mode, frames, lazy, rbuf, pos, eof, out, zr, errs, after>>

\* ---------------------------------------------------------------------------
\* Stream side (read.rs poll_next)
\* ---------------------------------------------------------------------------
View == SubSeq(rbuf, pos + 1, Len(rbuf))         \* buf.inner(): Slice(begin = pos ..)
Ext == Extract(fr, View)

\* Idle, extract = Some(frame): slice the payload, decode, advance(frame.len()), reset when drained
IdleExtractFrame ==
  /\ st = "idle" /\ Ext.r = "frame"
  /\ LET flen == Ext.pre + Ext.pay + Ext.suf
         payload == SubSeq(View, Ext.pre + 1, Ext.pre + Ext.pay)
     IN /\ out' = Append(out, payload)
        /\ (IF pos + flen >= Len(rbuf)
            THEN rbuf' = <<>> /\ pos' = 0               \* Buffer::advance returned true: reset()
            ELSE rbuf' = rbuf /\ pos' = pos + flen)
  /\ UNCHANGED <<wire, lazy, eof, st, zr, errs, after, cvars, wvars>>

\* Idle, extract = None: buf.reserve(16), start io.append(buf)
IdleNeedMore ==
  /\ st = "idle" /\ Ext.r = "more"
  /\ st' = "reading"
  /\ UNCHANGED <<wire, lazy, rbuf, pos, eof, out, zr, errs, after, cvars, wvars>>

\* deviation ExtractAddOverflow: extract panics inside poll_next
IdleExtractPanics ==
  /\ st = "idle" /\ Ext.r = "panic"
  /\ st' = "panic"
  /\ UNCHANGED <<wire, lazy, rbuf, pos, eof, out, zr, errs, after, cvars, wvars>>

\* Idle, extract = Err(e).  Repaired code: Idle(Some(..)) is restored, failed is set and
\* Some(Err) returned.  Pinned code: "this.framer.extract(inner)?" returns Some(Err) after
\* idle.take(), the state is left as Idle(None).
IdleExtractErr ==
  /\ st = "idle" /\ Ext.r = "err"
  /\ st' = (IF FixFramerError THEN "errored" ELSE "poisoned")
  /\ UNCHANGED <<wire, lazy, rbuf, pos, eof, out, zr, errs, after, cvars, wvars>>

\* the next poll finds failed = true and returns None without touching reader or buffer
PollErrored ==
  /\ st = "errored"
  /\ st' = "faildone"
  /\ UNCHANGED <<wire, lazy, rbuf, pos, eof, out, zr, errs, after, cvars, wvars>>

\* and so does every later poll
PollAfterFailed ==
  /\ st = "faildone" /\ after < AfterDone
  /\ after' = after + 1
  /\ UNCHANGED <<wire, lazy, rbuf, pos, eof, st, out, zr, errs, cvars, wvars>>

\* the next poll finds Idle(None): idle.take().expect("Inconsistent state") panics
PollPoisoned ==
  /\ st = "poisoned"
  /\ st' = "poisonpanic"
  /\ UNCHANGED <<wire, lazy, rbuf, pos, eof, out, zr, errs, after, cvars, wvars>>

\* Reading completed with n > 0 bytes appended
ReadData(n) ==
  /\ st = "reading"
  /\ n >= Min(ChunkMin, Len(wire)) /\ n >= 1 /\ n <= Min(ChunkMax, Len(wire))
  /\ rbuf' = rbuf \o SubSeq(wire, 1, n)
  /\ wire' = SubSeq(wire, n + 1, Len(wire))
  /\ st' = "idle"
  /\ UNCHANGED <<lazy, pos, eof, out, zr, errs, after, cvars, wvars>>

\* hostlazy: the peer decides only now which n bytes it sends
ReadDataLazy(n) ==
  /\ st = "reading" /\ mode = "hostlazy"
  /\ n >= 1 /\ n <= Min(ChunkMax, lazy)
  /\ \E s \in [1..n -> HostAlphaOf(fr)] : rbuf' = rbuf \o s
  /\ lazy' = lazy - n
  /\ st' = "idle"
  /\ UNCHANGED <<wire, pos, eof, out, zr, errs, after, cvars, wvars>>

\* Reading completed with 0 bytes: the first time sets eof, the second time ends the stream
ReadZero ==
  /\ st = "reading"
  /\ \/ wire = <<>> /\ zr' = zr
     \/ wire # <<>> /\ zr < ZeroReads /\ zr' = zr + 1
  /\ (IF eof THEN st' = "done" /\ eof' = eof
             ELSE st' = "idle" /\ eof' = TRUE)
  /\ lazy' = 0                       \* hostlazy: the peer has closed, nothing follows
  /\ UNCHANGED <<wire, rbuf, pos, out, errs, after, cvars, wvars>>

\* Reading completed with an error: returned as an item, the state stays usable
ReadErr ==
  /\ st = "reading" /\ errs < MaxErr
  /\ errs' = errs + 1
  /\ st' = "idle"
  /\ UNCHANGED <<wire, lazy, rbuf, pos, eof, out, zr, after, cvars, wvars>>

\* the consumer polls again after None
PollAfterDone ==
  /\ st = "done" /\ after < AfterDone
  /\ after' = after + 1
  /\ st' = "idle"
  /\ UNCHANGED <<wire, lazy, rbuf, pos, eof, out, zr, errs, cvars, wvars>>

\* nothing left to do (lets TLC's deadlock check find every other state without a successor)
Finish == /\ \/ st \in {"panic", "poisonpanic"}
             \/ st \in {"done", "faildone"} /\ after = AfterDone
          /\ UNCHANGED vars

Next == \/ StartSend
        \/ \E n \in 1..ChunkMax : WriteSome(n)
        \/ WriteDone
        \/ Close
        \/ IdleExtractFrame
        \/ IdleNeedMore
        \/ IdleExtractPanics
        \/ IdleExtractErr
        \/ PollErrored
        \/ PollAfterFailed
        \/ PollPoisoned
        \/ \E n \in 1..ChunkMax : ReadData(n)
        \/ \E n \in 1..ChunkMax : ReadDataLazy(n)
        \/ ReadZero
        \/ ReadErr
        \/ PollAfterDone
        \/ Finish

Spec == Init /\ [][Next]_vars
FairSpec == Spec /\ WF_vars(Next)

\* ---------------------------------------------------------------------------
\* properties
\* ---------------------------------------------------------------------------
OkPayloads == out
Ended == st = "done"

\* the write side delivers exactly the enclosed frames, in order, once
SinkExact == wst = "closed" /\ mode = "rt" => sink = Flat([i \in 1..Len(frames) |-> Enclose(fr, frames[i])])
SinkPrefix == mode = "rt" => IsPrefix(sink, Flat([i \in 1..Len(frames) |-> Enclose(fr, frames[i])]))

SomeTruncated == \E i \in 1..Len(frames) : EncloseTruncates(fr, frames[i])

\* decoded list = encoded list (NoopFramer is a byte pipe: concatenation is preserved)
RoundTrip ==
  mode = "rt" =>
    IF fr.k = "noop"
    THEN /\ IsPrefix(Flat(OkPayloads), Flat(frames))
         /\ (Ended => Flat(OkPayloads) = Flat(frames))
         /\ \A i \in 1..Len(OkPayloads) : Len(OkPayloads[i]) >= 1
    ELSE /\ IsPrefix(OkPayloads, frames)                  \* nothing merged, split or invented
         /\ (Ended => OkPayloads = frames)                \* nothing dropped
RoundTripModuloKnown == SomeTruncated \/ RoundTrip

\* every extraction step is Frame | NeedMore | (the named) panic, and a frame lies inside the buffer
InRange == st = "idle" /\ Ext.r = "frame" => pos + Ext.pre + Ext.pay + Ext.suf <= Len(rbuf)
PosInside == pos <= Len(rbuf)
KnownOverflow == fr.k = "ld" /\ fr.lfl = 8 /\ Len(View) >= 8 /\ LenClass(fr, View).c = "wrap"
NoPanic == st \notin {"panic", "poisonpanic"}
NoPanicModuloKnown == st = "panic" => KnownOverflow      \* "poisonpanic" is the other named deviation
BuiltinNeverPoisoned == st \in {"poisoned", "poisonpanic"} => fr.k = "lim" \/ FixExtractOverflow
\* a framer error is only possible for the user framer and for the 8-byte overflow
ErrorOnlyWhenRefused == st \in {"errored", "faildone"} => fr.k = "lim" \/ (fr.k = "ld" /\ fr.lfl = 8)

\* progress measure: every step of the machine strictly decreases it
Rank(s) == CASE s = "idle" -> 2 [] s \in {"reading", "poisoned", "errored"} -> 1 [] OTHER -> 0
Measure == 3 * (3 * (Len(wire) + lazy) + 2 * (Len(rbuf) - pos) + (IF eof THEN 0 ELSE 1)
                + (ZeroReads - zr) + (MaxErr - errs)) + Rank(st)
Progress == [][ (st \in {"idle", "reading", "poisoned", "errored"} => Measure' < Measure) ]_rvars
RECURSIVE Unstarted(_)
Unstarted(i) == IF i > Len(frames) THEN 0 ELSE 2 * Len(Enclose(fr, frames[i])) + 3 + Unstarted(i + 1)
WMeasure == Unstarted(nsent + (IF wst = "writing" THEN 1 ELSE 0) + 1) + 2 * (Len(wbuf) - needle)
            + (IF wst = "writing" THEN 1 ELSE 0) + (IF wst = "closed" THEN 0 ELSE 1)
WProgress == [][ WMeasure' < WMeasure ]_wvars
MeasureNonNeg == Measure >= 0 /\ WMeasure >= 0

Finished == \/ st \in {"panic", "poisonpanic"}
            \/ st \in {"done", "faildone"} /\ after = AfterDone
Terminates == <>Finished
=============================================================================
