CONSTANTS
  w1 = w1
  w2 = w2
  Wakers = {w1, w2}
  Target <- TgtMT
  Tasks = {"t1"}
  QCap = 2
  Mode = "external"
  Driver = "poll"
  Eager = TRUE
  ArmInFlush = TRUE
  WakeAfterPush = TRUE
  Overflow = FALSE
  Hosts = {"tokio", "futures"}
  Muts = {"none"}
  Ops = {"o1", "o2"}
  Timers = {"s1", "s2"}
  Jobs = {"j1", "j2", "j3"}
  Owner <- OwnAll
  AnyTurn = FALSE
  MaxLen = 400
  Plans <- PlansGeneral
SPECIFICATION GSpec
INVARIANTS EmitInv
