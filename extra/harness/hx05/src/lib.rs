//! extension harness hx05: compio-term (check X05).
//!
//! * `Pty`: a pseudo terminal whose slave end is installed as fd 0 of this process, so that the REAL
//!   `EventStream::new()` (the only public entry that reaches the private parser) opens it through /dev/stdin;
//!   the harness keeps the master end and decides what every read of the stream delivers.
//! * `ev_json`: canonical JSON of a crossterm `Event` in the vocabulary of spec/TermParse.tla.
//! * `catalogue`: what a terminal sends for a key / mouse / paste / focus event and the event it means - written
//!   from the xterm / kitty protocol documents, independently of the model (contract oracle of the well-formed family).
use std::{
    io,
    os::fd::RawFd,
    sync::{
        Arc,
        atomic::{AtomicUsize, Ordering},
    },
    task::{Wake, Waker},
};

use compio_term::event::{Event, KeyCode, KeyEventKind, MediaKeyCode, ModifierKeyCode, MouseButton, MouseEventKind};
use serde_json::{Value, json};

/// Task waker: counts every wake, from any thread (the resize listener wakes from signal context).
pub struct CountWaker(pub AtomicUsize);

impl Wake for CountWaker {
    fn wake(self: Arc<Self>) {
        self.0.fetch_add(1, Ordering::SeqCst);
    }

    fn wake_by_ref(self: &Arc<Self>) {
        self.0.fetch_add(1, Ordering::SeqCst);
    }
}

pub fn count_waker() -> (Arc<CountWaker>, Waker) {
    let cw = Arc::new(CountWaker(AtomicUsize::new(0)));
    let w = Waker::from(cw.clone());
    (cw, w)
}

pub struct Pty {
    pub master: RawFd,
    pub slave: RawFd,
}

impl Pty {
    /// raw = true: cfmakeraw (every byte is delivered as written); raw = false: canonical mode with every special
    /// character disabled except VEOF = ^D (a ^D after a partial line delivers it, a ^D on an empty line is a
    /// zero length read).
    pub fn open(raw: bool) -> io::Result<Pty> {
        unsafe {
            let mut m = 0;
            let mut s = 0;
            if libc::openpty(&mut m, &mut s, std::ptr::null_mut(), std::ptr::null(), std::ptr::null()) != 0 {
                return Err(io::Error::last_os_error());
            }
            let mut t: libc::termios = std::mem::zeroed();
            if libc::tcgetattr(s, &mut t) != 0 {
                return Err(io::Error::last_os_error());
            }
            libc::cfmakeraw(&mut t);
            if !raw {
                t.c_lflag |= libc::ICANON;
                for c in t.c_cc.iter_mut() {
                    *c = 0;
                }
                t.c_cc[libc::VEOF] = 4;
            }
            t.c_cc[libc::VMIN] = if raw { 1 } else { t.c_cc[libc::VMIN] };
            if libc::tcsetattr(s, libc::TCSANOW, &t) != 0 {
                return Err(io::Error::last_os_error());
            }
            let fl = libc::fcntl(m, libc::F_GETFL);
            libc::fcntl(m, libc::F_SETFL, fl | libc::O_NONBLOCK);
            Ok(Pty { master: m, slave: s })
        }
    }

    /// Make the slave end fd 0 of the process (`io::stdin().is_terminal()` and /dev/stdin then name this pty).
    pub fn install_stdin(&self) -> io::Result<()> {
        if unsafe { libc::dup2(self.slave, 0) } < 0 {
            return Err(io::Error::last_os_error());
        }
        Ok(())
    }

    pub fn set_winsize(&self, cols: u16, rows: u16) {
        let ws = libc::winsize { ws_row: rows, ws_col: cols, ws_xpixel: 0, ws_ypixel: 0 };
        unsafe {
            libc::ioctl(self.master, libc::TIOCSWINSZ, &ws);
        }
    }

    /// Non-blocking write to the master; returns how many bytes the terminal took.
    pub fn write(&self, b: &[u8]) -> usize {
        if self.master < 0 || b.is_empty() {
            return 0;
        }
        let n = unsafe { libc::write(self.master, b.as_ptr() as _, b.len()) };
        if n < 0 { 0 } else { n as usize }
    }

    /// Bytes waiting in the input queue of the slave.
    pub fn unread(&self) -> i32 {
        let mut n: libc::c_int = 0;
        let r = unsafe { libc::ioctl(self.slave, libc::FIONREAD, &mut n) };
        if r != 0 { -1 } else { n }
    }

    pub fn hangup(&mut self) {
        if self.master >= 0 {
            unsafe { libc::close(self.master) };
            self.master = -1;
        }
    }
}

impl Drop for Pty {
    fn drop(&mut self) {
        unsafe {
            if self.master >= 0 {
                libc::close(self.master);
            }
            libc::close(self.slave);
        }
    }
}

fn media_idx(m: &MediaKeyCode) -> u32 {
    use MediaKeyCode::*;
    match m {
        Play => 0,
        Pause => 1,
        PlayPause => 2,
        Reverse => 3,
        Stop => 4,
        FastForward => 5,
        Rewind => 6,
        TrackNext => 7,
        TrackPrevious => 8,
        Record => 9,
        LowerVolume => 10,
        RaiseVolume => 11,
        MuteVolume => 12,
    }
}

fn modifier_idx(m: &ModifierKeyCode) -> u32 {
    use ModifierKeyCode::*;
    match m {
        LeftShift => 0,
        LeftControl => 1,
        LeftAlt => 2,
        LeftSuper => 3,
        LeftHyper => 4,
        LeftMeta => 5,
        RightShift => 6,
        RightControl => 7,
        RightAlt => 8,
        RightSuper => 9,
        RightHyper => 10,
        RightMeta => 11,
        IsoLevel3Shift => 12,
        IsoLevel5Shift => 13,
    }
}

fn button(b: &MouseButton) -> u32 {
    match b {
        MouseButton::Left => 0,
        MouseButton::Middle => 1,
        MouseButton::Right => 2,
    }
}

/// Canonical form shared with the model: {"t","c":[name,n],"m":modifier bits,"k","s","p"}.
///   key:   c = [code name, number] (F n, Char codepoint, Media / Mod index), k = kind 1 press 2 repeat 3 release,
///          s = KeyEventState bits;   mouse: c = [kind, button 0 left 1 middle 2 right 3 none], k = column, s = row;
///   paste: p = bytes of the text;    focus: c = ["Gained"|"Lost", 0];   resize: k = columns, s = rows.
pub fn ev_json(e: &Event) -> Value {
    match e {
        Event::Key(k) => {
            let (name, n): (String, u32) = match &k.code {
                KeyCode::F(n) => ("F".into(), *n as u32),
                KeyCode::Char(c) => ("Char".into(), *c as u32),
                KeyCode::Media(m) => ("Media".into(), media_idx(m)),
                KeyCode::Modifier(m) => ("Mod".into(), modifier_idx(m)),
                other => (format!("{other:?}"), 0),
            };
            let kind = match k.kind {
                KeyEventKind::Press => 1,
                KeyEventKind::Repeat => 2,
                KeyEventKind::Release => 3,
            };
            json!({"t": "key", "c": [name, n], "m": k.modifiers.bits(), "k": kind, "s": k.state.bits(), "p": []})
        }
        Event::Mouse(m) => {
            let (kind, b) = match &m.kind {
                MouseEventKind::Down(b) => ("Down", button(b)),
                MouseEventKind::Up(b) => ("Up", button(b)),
                MouseEventKind::Drag(b) => ("Drag", button(b)),
                MouseEventKind::Moved => ("Moved", 3),
                MouseEventKind::ScrollDown => ("ScrollDown", 3),
                MouseEventKind::ScrollUp => ("ScrollUp", 3),
                MouseEventKind::ScrollLeft => ("ScrollLeft", 3),
                MouseEventKind::ScrollRight => ("ScrollRight", 3),
            };
            json!({"t": "mouse", "c": [kind, b], "m": m.modifiers.bits(), "k": m.column, "s": m.row, "p": []})
        }
        Event::Paste(s) => json!({"t": "paste", "c": ["", 0], "m": 0, "k": 0, "s": 0, "p": s.as_bytes()}),
        Event::FocusGained => json!({"t": "focus", "c": ["Gained", 0], "m": 0, "k": 0, "s": 0, "p": []}),
        Event::FocusLost => json!({"t": "focus", "c": ["Lost", 0], "m": 0, "k": 0, "s": 0, "p": []}),
        Event::Resize(c, r) => json!({"t": "resize", "c": ["", 0], "m": 0, "k": c, "s": r, "p": []}),
    }
}

pub mod catalogue {
    //! token name -> (bytes a terminal sends, the event it means; None = a report the stream swallows).
    use serde_json::{Value, json};

    const SHIFT: u8 = 1;
    const CONTROL: u8 = 2;
    const ALT: u8 = 4;

    fn key(name: &str, n: u32, m: u8, k: u8, s: u8) -> Option<Value> {
        Some(json!({"t": "key", "c": [name, n], "m": m, "k": k, "s": s, "p": []}))
    }

    fn mouse(kind: &str, b: u32, m: u8, col: u16, row: u16) -> Option<Value> {
        Some(json!({"t": "mouse", "c": [kind, b], "m": m, "k": col, "s": row, "p": []}))
    }

    fn paste(p: &[u8]) -> Option<Value> {
        Some(json!({"t": "paste", "c": ["", 0], "m": 0, "k": 0, "s": 0, "p": p}))
    }

    fn focus(w: &str) -> Option<Value> {
        Some(json!({"t": "focus", "c": [w, 0], "m": 0, "k": 0, "s": 0, "p": []}))
    }

    /// `raw`: the terminal is in raw mode (a line feed is Ctrl-J there and Enter in cooked mode).
    pub fn token(name: &str, raw: bool) -> Option<(Vec<u8>, Option<Value>)> {
        let c = |s: &[u8]| s.to_vec();
        let csi = |s: &str| {
            let mut v = vec![0x1b, b'['];
            v.extend_from_slice(s.as_bytes());
            v
        };
        let pst = |s: &[u8]| {
            let mut v = b"\x1b[200~".to_vec();
            v.extend_from_slice(s);
            v.extend_from_slice(b"\x1b[201~");
            v
        };
        Some(match name {
            "a" => (c(b"a"), key("Char", 97, 0, 1, 0)),
            "A" => (c(b"A"), key("Char", 65, SHIFT, 1, 0)),
            "eacute" => (c(&[0xc3, 0xa9]), key("Char", 233, 0, 1, 0)),
            "Eacute" => (c(&[0xc3, 0x89]), key("Char", 201, SHIFT, 1, 0)),
            "euro" => (c(&[0xe2, 0x82, 0xac]), key("Char", 8364, 0, 1, 0)),
            "smile" => (c(&[0xf0, 0x9f, 0x98, 0x80]), key("Char", 128512, 0, 1, 0)),
            "cr" => (c(b"\r"), key("Enter", 0, 0, 1, 0)),
            "lf" => (c(b"\n"), if raw { key("Char", 106, CONTROL, 1, 0) } else { key("Enter", 0, 0, 1, 0) }),
            "tab" => (c(b"\t"), key("Tab", 0, 0, 1, 0)),
            "bs" => (c(&[0x7f]), key("Backspace", 0, 0, 1, 0)),
            "nul" => (c(&[0]), key("Char", 32, CONTROL, 1, 0)),
            "ctrl_c" => (c(&[3]), key("Char", 99, CONTROL, 1, 0)),
            "ctrl_bslash" => (c(&[0x1c]), key("Char", 52, CONTROL, 1, 0)),
            "esc" => (c(&[0x1b]), key("Esc", 0, 0, 1, 0)),
            "escesc" => (c(&[0x1b, 0x1b]), key("Esc", 0, 0, 1, 0)),
            "alt_x" => (c(&[0x1b, b'x']), key("Char", 120, ALT, 1, 0)),
            "alt_eacute" => (c(&[0x1b, 0xc3, 0xa9]), key("Char", 233, ALT, 1, 0)),
            "alt_cr" => (c(&[0x1b, 0x0d]), key("Enter", 0, ALT, 1, 0)),
            "up" => (csi("A"), key("Up", 0, 0, 1, 0)),
            "focus_in" => (csi("I"), focus("Gained")),
            "focus_out" => (csi("O"), focus("Lost")),
            "backtab" => (csi("Z"), key("BackTab", 0, SHIFT, 1, 0)),
            "f3_csi" => (csi("R"), key("F", 3, 0, 1, 0)),
            "ss3_up" => (c(&[0x1b, b'O', b'A']), key("Up", 0, 0, 1, 0)),
            "ss3_f1" => (c(&[0x1b, b'O', b'P']), key("F", 1, 0, 1, 0)),
            "ss3_f4" => (c(&[0x1b, b'O', b'S']), key("F", 4, 0, 1, 0)),
            "ctrl_right_rep" => (csi("1;6:2C"), key("Right", 0, SHIFT | CONTROL, 2, 0)),
            "shift_up" => (csi("1;2A"), key("Up", 0, SHIFT, 1, 0)),
            "cpr" => (csi("12;5R"), None),
            "del" => (csi("3~"), key("Delete", 0, 0, 1, 0)),
            "f5" => (csi("15~"), key("F", 5, 0, 1, 0)),
            "f12" => (csi("24~"), key("F", 12, 0, 1, 0)),
            "ctrl_pgup" => (csi("5;5~"), key("PageUp", 0, CONTROL, 1, 0)),
            "kitty_a_ctrl_rel" => (csi("97;5:3u"), key("Char", 97, CONTROL, 3, 0)),
            "kitty_esc" => (csi("27u"), key("Esc", 0, 0, 1, 0)),
            "kitty_shift_alt" => (csi("97:65;2u"), key("Char", 65, 0, 1, 0)),
            "kitty_kp0" => (csi("57399u"), key("Char", 48, 0, 1, 1)),
            "kitty_lshift" => (csi("57441;2u"), key("Mod", 0, SHIFT, 1, 0)),
            "kitty_caps" => (csi("97;65u"), key("Char", 97, 0, 1, 2)),
            "kitty_f13" => (csi("57376u"), key("F", 13, 0, 1, 0)),
            "kitty_play" => (csi("57428u"), key("Media", 0, 0, 1, 0)),
            "kitty_flags" => (csi("?1u"), None),
            "da1" => (csi("?62;c"), None),
            "sgr_down" => (csi("<0;4;3M"), mouse("Down", 0, 0, 3, 2)),
            "sgr_up" => (csi("<0;4;3m"), mouse("Up", 0, 0, 3, 2)),
            "sgr_drag_ctrl" => (csi("<50;1;1M"), mouse("Drag", 2, CONTROL, 0, 0)),
            "sgr_scroll" => (csi("<65;2;2M"), mouse("ScrollDown", 3, 0, 1, 1)),
            "rxvt_down" => (csi("32;10;5M"), mouse("Down", 0, 0, 9, 4)),
            "x10_down" => (c(&[0x1b, b'[', b'M', 0x20, 0x21, 0x21]), mouse("Down", 0, 0, 0, 0)),
            "x10_raw" => (c(&[0x1b, b'[', b'M', 0x23, 0x5b, 0x41]), mouse("Up", 0, 0, 58, 32)),
            "paste_hi" => (pst(b"hi"), paste(b"hi")),
            "paste_empty" => (pst(b""), paste(b"")),
            "paste_esc" => (pst(b"\x1b[Ax"), paste(b"\x1b[Ax")),
            "paste_nl" => (pst(b"a\r\nb"), paste(b"a\r\nb")),
            _ => return None,
        })
    }
}
