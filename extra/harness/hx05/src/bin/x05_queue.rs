//! X05 replay, command queue: behaviours printed by spec/Gen_TermQueue.tla are stepped through the REAL
//! `compio_term::CommandQueue` (queue / queue_many / flush / buffered_len / is_empty) over a scripted `AsyncWrite` sink
//! (short writes, zero writes, `Interrupted`, hard errors, a writer that claims too much, a write that stays pending
//! while the flush future is dropped, a failing `flush` of the writer).
//!
//! Compared with the model after every step (`mismatch` = drift). Contract (independent of the model): the sink holds
//! a prefix of the concatenated ANSI of the commands whose `queue` call succeeded, in queue order, each byte once; after
//! a flush that returned Ok it holds all of it; a failed `queue` / `queue_many` call contributes nothing;
//! `buffered_len` = what is still missing; nothing panics. After a cancelled flush (future dropped) the bytes handed to
//! the writer may be lost, but commands queued afterwards must arrive completely.
//!
//! usage: x05_queue <cases.jsonl>
use std::{
    cell::RefCell,
    collections::VecDeque,
    fmt,
    future::Future,
    io,
    panic::{AssertUnwindSafe, catch_unwind},
    pin::Pin,
    rc::Rc,
    task::{Context, Poll, Waker},
};

use compio_buf::{BufResult, IoBuf};
use compio_io::AsyncWrite;
use compio_term::{Command, CommandQueue, Queueable};
use hcore::out::Report;
use serde_json::{Value, json};

#[derive(Clone)]
struct Cmd {
    id: u8,
    len: u8,
    fail: bool,
}

fn cmd_bytes(id: u8, len: u8) -> Vec<u8> {
    [b'A' + id, b'a' + id, b'0' + id][..len as usize].to_vec()
}

impl Command for Cmd {
    fn write_ansi(&self, f: &mut impl fmt::Write) -> fmt::Result {
        // a failing command renders everything it has and then fails (the worst case for "no partial bytes")
        f.write_str(std::str::from_utf8(&cmd_bytes(self.id, self.len)).unwrap())?;
        if self.fail { Err(fmt::Error) } else { Ok(()) }
    }
}

#[derive(Clone, Debug)]
enum W {
    Ok(usize),
    Zero,
    Intr,
    Err,
    TooMany,
    Pending,
}

#[derive(Default)]
struct SinkState {
    out: Vec<u8>,
    script: VecDeque<W>,
    flush_err: bool,
    writes: u64,
    writes_this_flush: u64,
    flushes: u64,
}

#[derive(Clone)]
struct Sink(Rc<RefCell<SinkState>>);

struct PendOnce(bool);

impl Future for PendOnce {
    type Output = ();

    fn poll(mut self: Pin<&mut Self>, _: &mut Context<'_>) -> Poll<()> {
        if self.0 {
            Poll::Ready(())
        } else {
            self.0 = true;
            Poll::Pending
        }
    }
}

impl AsyncWrite for Sink {
    async fn write<T: IoBuf>(&mut self, buf: T) -> BufResult<usize, T> {
        let w = {
            let mut s = self.0.borrow_mut();
            s.writes += 1;
            s.writes_this_flush += 1;
            if s.writes_this_flush > 5000 {
                drop(s);
                panic!("RUNAWAY: more than 5000 writes in one flush");
            }
            s.script.pop_front()
        };
        let have = buf.as_init().len();
        match w {
            None => {
                self.0.borrow_mut().out.extend_from_slice(buf.as_init());
                BufResult(Ok(have), buf)
            }
            Some(W::Ok(n)) => {
                let n = n.min(have);
                self.0.borrow_mut().out.extend_from_slice(&buf.as_init()[..n]);
                BufResult(Ok(n), buf)
            }
            Some(W::Zero) => BufResult(Ok(0), buf),
            Some(W::Intr) => BufResult(Err(io::Error::new(io::ErrorKind::Interrupted, "scripted EINTR")), buf),
            Some(W::Err) => BufResult(Err(io::Error::other("scripted write error")), buf),
            Some(W::TooMany) => BufResult(Ok(have + 1), buf),
            Some(W::Pending) => {
                PendOnce(false).await;
                self.0.borrow_mut().out.extend_from_slice(buf.as_init());
                BufResult(Ok(have), buf)
            }
        }
    }

    async fn flush(&mut self) -> io::Result<()> {
        let mut s = self.0.borrow_mut();
        s.flushes += 1;
        if s.flush_err {
            s.flush_err = false;
            return Err(io::Error::other("scripted flush error"));
        }
        Ok(())
    }

    async fn shutdown(&mut self) -> io::Result<()> {
        Ok(())
    }
}

fn panic_msg(e: Box<dyn std::any::Any + Send>) -> String {
    if let Some(s) = e.downcast_ref::<&str>() {
        s.to_string()
    } else if let Some(s) = e.downcast_ref::<String>() {
        s.clone()
    } else {
        "panic".into()
    }
}

fn classify(r: &io::Result<()>) -> &'static str {
    match r {
        Ok(()) => "ok",
        Err(e) => match e.kind() {
            io::ErrorKind::WriteZero => "write_zero",
            io::ErrorKind::InvalidData => "invalid",
            _ => "err",
        },
    }
}

fn cmds_of(v: &Value) -> Vec<Cmd> {
    v.as_array()
        .map(|a| a.iter().map(|c| Cmd { id: c["cmd"].as_u64().unwrap() as u8, len: c["len"].as_u64().unwrap() as u8, fail: c["fail"].as_u64().unwrap_or(0) != 0 }).collect())
        .unwrap_or_default()
}

fn run_case(rep: &mut Report, case: &Value) -> u64 {
    let steps = case["steps"].as_array().cloned().unwrap_or_default();
    let state = Rc::new(RefCell::new(SinkState::default()));
    let mut q: CommandQueue<Sink> = if case["cap"].as_u64().unwrap_or(0) > 0 { CommandQueue::with_capacity(8, Sink(state.clone())) } else { CommandQueue::new(Sink(state.clone())) };
    // contract bookkeeping
    let mut reference: Vec<u8> = vec![]; // ANSI of every command whose queue call succeeded
    let mut lying = false; // the writer claimed more than it got: nothing can be required afterwards
    let mut cancelled_at: Option<usize> = None; // reference length when a flush future was dropped
    let mut after_cancel: Vec<u8> = vec![];
    let mut n = 0u64;
    let contract = |rep: &mut Report, kind: &str, desc: String, si: usize| {
        rep.problem("contract", json!({"kind": kind}), desc, case, si);
    };
    for (si, st) in steps.iter().enumerate() {
        n += 1;
        let a = st["a"].as_str().unwrap_or("");
        let mut res: String;
        match a {
            "queue" | "queue_many" => {
                let cmds = if a == "queue" { cmds_of(&json!([st])) } else { cmds_of(&st["cmds"]) };
                let r = catch_unwind(AssertUnwindSafe(|| -> io::Result<()> {
                    if a == "queue" {
                        q.queue(cmds[0].clone()).map(|_| ())
                    } else if cmds.len() == 2 {
                        q.queue_many((cmds[0].clone(), cmds[1].clone())).map(|_| ())
                    } else if cmds.is_empty() {
                        q.queue_many(()).map(|_| ())
                    } else {
                        q.queue_many(&cmds).map(|_| ())
                    }
                }));
                match r {
                    Err(p) => {
                        rep.problem("panic", json!({"kind": "panic_in_queue"}), format!("{a} panicked: {}", panic_msg(p)), case, si);
                        return n;
                    }
                    Ok(r) => {
                        let any_fail = cmds.iter().any(|c| c.fail);
                        if r.is_ok() == any_fail {
                            contract(rep, "queue_result", format!("{a} of {:?} returned {:?}", st, r.as_ref().map_err(|e| e.kind())), si);
                        }
                        if r.is_ok() {
                            for c in &cmds {
                                reference.extend(cmd_bytes(c.id, c.len));
                                if cancelled_at.is_some() {
                                    after_cancel.extend(cmd_bytes(c.id, c.len));
                                }
                            }
                        }
                        res = if r.is_ok() { "ok".into() } else { "err".into() };
                    }
                }
            }
            "flush" | "cancel" => {
                {
                    let mut s = state.borrow_mut();
                    s.script = st["script"]
                        .as_array()
                        .map(|a| {
                            a.iter()
                                .map(|w| match w["w"].as_str().unwrap_or("") {
                                    "ok" => W::Ok(w["n"].as_u64().unwrap_or(1) as usize),
                                    "zero" => W::Zero,
                                    "intr" => W::Intr,
                                    "err" => W::Err,
                                    "toomany" => W::TooMany,
                                    "pending" => W::Pending,
                                    o => panic!("unknown scripted write {o}"),
                                })
                                .collect()
                        })
                        .unwrap_or_default();
                    s.flush_err = st["fl"] == "err";
                    s.writes_this_flush = 0;
                    if s.script.iter().any(|w| matches!(w, W::TooMany)) {
                        lying = true;
                    }
                }
                let r = catch_unwind(AssertUnwindSafe(|| -> Option<io::Result<()>> {
                    let mut fut = Box::pin(q.flush());
                    let mut cx = Context::from_waker(Waker::noop());
                    for _ in 0..1000 {
                        match fut.as_mut().poll(&mut cx) {
                            Poll::Ready(r) => return Some(r),
                            Poll::Pending => {
                                if a == "cancel" {
                                    return None; // the future is dropped here
                                }
                            }
                        }
                    }
                    panic!("flush stays pending although the sink is ready");
                }));
                state.borrow_mut().script.clear();
                match r {
                    Err(p) => {
                        let m = panic_msg(p);
                        if m.starts_with("RUNAWAY") {
                            rep.problem("hang", json!({"kind": "flush_never_ends"}), "flush keeps writing for ever although the writer takes every byte it is given".into(), case, si);
                        } else {
                            rep.problem("panic", json!({"kind": "panic_in_flush"}), format!("flush panicked: {m}"), case, si);
                        }
                        return n;
                    }
                    Ok(None) => {
                        res = "cancelled".into();
                        cancelled_at = Some(reference.len());
                        after_cancel.clear();
                    }
                    Ok(Some(r)) => {
                        res = classify(&r).into();
                        if res == "err" && st["fl"] == "err" && st["r"] == "flush_err" {
                            res = "flush_err".into();
                        }
                        let out = state.borrow().out.clone();
                        if !lying && cancelled_at.is_none() {
                            if !reference.starts_with(&out) {
                                contract(rep, "sink_prefix", format!("the sink holds {:?}, the queued commands spell {:?}", out, reference), si);
                                return n;
                            }
                            if r.is_ok() && out != reference {
                                contract(rep, "sink_complete", format!("flush returned Ok; the sink holds {:?}, the queued commands spell {:?}", out, reference), si);
                                return n;
                            }
                        }
                        if !lying && cancelled_at.is_some() && r.is_ok() && !out.ends_with(&after_cancel) {
                            contract(rep, "cancelled_flush_corrupts_queue",
                                format!("a flush future was dropped while its write was pending; commands queued afterwards spell {:?}, after a successful flush the sink ends with {:?}",
                                    after_cancel, &out[out.len().saturating_sub(after_cancel.len() + 2)..]), si);
                            return n;
                        }
                    }
                }
            }
            o => panic!("unknown step {o}"),
        }
        // observers (after a cancelled flush buffered_len is asked once, right after the cancel)
        if cancelled_at.is_some() && a != "cancel" {
            continue;
        }
        let bl = catch_unwind(AssertUnwindSafe(|| (q.buffered_len(), q.is_empty())));
        let (bl, empty) = match bl {
            Ok(x) => x,
            Err(p) => {
                let kind = if cancelled_at.is_some() { "cancelled_flush_corrupts_queue" } else { "panic_in_buffered_len" };
                rep.problem("panic", json!({"kind": kind}), format!("buffered_len panicked: {}", panic_msg(p)), case, si);
                if cancelled_at.is_some() {
                    continue;
                }
                return n;
            }
        };
        if cancelled_at.is_some() {
            continue;
        }
        if !lying && cancelled_at.is_none() {
            let out_len = state.borrow().out.len();
            if bl != reference.len() - out_len.min(reference.len()) || empty != (bl == 0) {
                contract(rep, "buffered_len", format!("buffered_len = {bl}, is_empty = {empty}; queued {} bytes, the sink holds {out_len}", reference.len()), si);
                return n;
            }
        }
        // drift
        let want_r = st["r"].as_str().unwrap_or("");
        if want_r != res {
            rep.problem("mismatch", json!({"field": "r", "a": a}), format!("step {si} ({a}): model expects {want_r}, the implementation answers {res}"), case, si);
            return n;
        }
        if let Some(wb) = st["buffered"].as_u64() {
            if wb as usize != bl {
                rep.problem("mismatch", json!({"field": "buffered", "a": a}), format!("step {si} ({a}): model expects buffered_len {wb}, the implementation says {bl}"), case, si);
                return n;
            }
        }
        if let Some(ws) = st["sink"].as_array() {
            let ws: Vec<u8> = ws.iter().map(|x| x.as_u64().unwrap() as u8).collect();
            let out = state.borrow().out.clone();
            if ws != out {
                rep.problem("mismatch", json!({"field": "sink", "a": a}), format!("step {si} ({a}): model expects the sink to hold {:?}, it holds {:?}", ws, out), case, si);
                return n;
            }
        }
    }
    // the Queueable entry points build the same queue
    if case["via"] == "queueable" {
        let st2 = Rc::new(RefCell::new(SinkState::default()));
        let mut sink = Sink(st2.clone());
        let r = catch_unwind(AssertUnwindSafe(|| {
            let mut q2 = sink.queue(Cmd { id: 1, len: 2, fail: false }).expect("queue");
            q2.queue_many((Cmd { id: 2, len: 1, fail: false }, Cmd { id: 3, len: 3, fail: false })).expect("queue_many");
            let mut fut = Box::pin(q2.flush());
            let mut cx = Context::from_waker(Waker::noop());
            matches!(fut.as_mut().poll(&mut cx), Poll::Ready(Ok(())))
        }));
        let want = [cmd_bytes(1, 2), cmd_bytes(2, 1), cmd_bytes(3, 3)].concat();
        if !matches!(r, Ok(true)) || st2.borrow().out != want {
            rep.problem("contract", json!({"kind": "queueable"}), format!("Queueable::queue + queue_many + flush: sink {:?}, want {:?}", st2.borrow().out, want), case, 0);
        }
    }
    n
}

fn main() {
    hcore::out::silence_panics();
    let mut rep = Report::new();
    for case in hcore::out::cases_from_arg() {
        let steps = run_case(&mut rep, &case);
        rep.cases += 1;
        rep.steps += steps;
    }
    rep.finish();
}
