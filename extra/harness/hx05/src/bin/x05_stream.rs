//! X05 replay, parser and event stream: behaviours printed by spec/Gen_TermParse.tla and spec/Gen_TermStream.tla are
//! stepped through the REAL `compio_term::event::EventStream` (and through it the private escape-sequence parser) over
//! a pseudo terminal installed as fd 0 of this process. The harness owns the master end: every `read` step is one
//! write to the terminal that the stream has consumed before the next step, `timeout` waits for the escape timer,
//! `winch` resizes the terminal and raises SIGWINCH, `eof` is a ^D on an empty line of a cooked terminal.
//! The stream is polled by hand with a counting waker and only after a wake-up (lost wake-ups are data).
//!
//! Compared with the model after every step (`mismatch` = drift). Contract (independent of the model):
//!   * events of the fragmented run == events of the same input written at once (per segment between escape time-outs),
//!   * well-formed family: == the events the terminal meant (hx05::catalogue),
//!   * no panic, no endless poll, a pending `next()` is woken by input / time-out / resize, the lone ESC is not resolved
//!     before 20 ms have passed since it was written, one stream at a time, bytes written after a drop reach the next stream.
//!
//! usage: x05_stream <cases.jsonl> --drv iour|poll [--from N]
use std::{
    collections::HashMap,
    panic::{AssertUnwindSafe, catch_unwind},
    pin::Pin,
    sync::{Arc, atomic::Ordering, mpsc},
    task::{Context, Poll, Waker},
    time::{Duration, Instant},
};

use compio_driver::{DriverType, ProactorBuilder};
use compio_runtime::Runtime;
use compio_term::event::EventStream;
use futures_util::Stream;
use hcore::out::Report;
use hx05::{CountWaker, Pty, catalogue, count_waker, ev_json};
use serde_json::{Value, json};

const WATCHDOG: Duration = Duration::from_secs(20);
const ESC_TIMEOUT: Duration = Duration::from_millis(20);

enum Msg {
    Start(usize),
    Problem { ty: String, sig: Value, desc: String, idx: usize, step: usize },
    Stat(&'static str, u64),
    Done { steps: u64 },
    Fatal(String),
}

#[derive(Clone, Debug, PartialEq)]
enum Item {
    Ev(Value),
    Err(String),
    End,
}

fn panic_msg(e: Box<dyn std::any::Any + Send>) -> String {
    if let Some(s) = e.downcast_ref::<&str>() {
        s.to_string()
    } else if let Some(s) = e.downcast_ref::<String>() {
        s.clone()
    } else {
        "panic".into()
    }
}

struct Prob {
    ty: &'static str,
    sig: Value,
    desc: String,
}

struct Sess {
    rt: Runtime,
    pty: Pty,
    es: Option<EventStream>,
    cw: Arc<CountWaker>,
    waker: Waker,
    seen: usize,
    ended: bool,
    #[allow(dead_code)]
    raw: bool,
    last_item_at: Instant,
}

impl Sess {
    fn new(iour: bool, raw: bool) -> Result<Sess, String> {
        let pty = Pty::open(raw).map_err(|e| format!("openpty: {e}"))?;
        pty.install_stdin().map_err(|e| format!("dup2: {e}"))?;
        pty.set_winsize(80, 24);
        let mut pb = ProactorBuilder::new();
        pb.driver_type(if iour { DriverType::IoUring } else { DriverType::Poll }).capacity(16);
        let rt = Runtime::builder().with_proactor(pb).build().map_err(|e| format!("runtime: {e}"))?;
        let (cw, waker) = count_waker();
        Ok(Sess { rt, pty, es: None, cw, waker, seen: 0, ended: false, raw, last_item_at: Instant::now() })
    }

    fn open_stream(&mut self) -> Result<std::io::Result<()>, Prob> {
        let rt = &self.rt;
        let r = catch_unwind(AssertUnwindSafe(|| rt.enter(EventStream::new)));
        match r {
            Ok(Ok(es)) => {
                self.es = Some(es);
                self.ended = false;
                Ok(Ok(()))
            }
            Ok(Err(e)) => Ok(Err(e)),
            Err(p) => Err(Prob { ty: "panic", sig: json!({"kind": "panic_in_new"}), desc: format!("EventStream::new panicked: {}", panic_msg(p)) }),
        }
    }

    fn wakes(&self) -> usize {
        self.cw.0.load(Ordering::SeqCst)
    }

    /// Poll the stream until it is pending (or has ended).
    fn drain(&mut self, out: &mut Vec<Item>) -> Result<(), Prob> {
        if self.ended || self.es.is_none() {
            return Ok(());
        }
        let mut errs = 0;
        let mut n = 0usize;
        loop {
            self.seen = self.wakes();
            let es = self.es.as_mut().unwrap();
            let waker = self.waker.clone();
            let rt = &self.rt;
            let r = catch_unwind(AssertUnwindSafe(|| {
                rt.enter(|| {
                    let mut cx = Context::from_waker(&waker);
                    Pin::new(es).poll_next(&mut cx)
                })
            }));
            match r {
                Err(p) => {
                    // the stream is in an unknown state: drop it (guarded) so that the reader lease is returned
                    let es = self.es.take();
                    let _ = catch_unwind(AssertUnwindSafe(move || drop(es)));
                    self.ended = true;
                    return Err(Prob { ty: "panic", sig: json!({"kind": "panic_in_poll_next"}), desc: format!("EventStream::poll_next panicked: {}", panic_msg(p)) });
                }
                Ok(Poll::Pending) => return Ok(()),
                Ok(Poll::Ready(None)) => {
                    out.push(Item::End);
                    self.ended = true;
                    return Ok(());
                }
                Ok(Poll::Ready(Some(Ok(e)))) => {
                    self.last_item_at = Instant::now();
                    out.push(Item::Ev(ev_json(&e)))
                }
                Ok(Poll::Ready(Some(Err(e)))) => {
                    out.push(Item::Err(format!("{:?}", e.kind())));
                    errs += 1;
                    if errs >= 2 {
                        self.ended = true;
                        return Ok(());
                    }
                }
            }
            n += 1;
            if n > 2_000_000 {
                self.ended = true;
                return Err(Prob { ty: "hang", sig: json!({"kind": "endless_items"}), desc: "poll_next keeps yielding items for ever".into() });
            }
        }
    }

    fn drive(&self, t: Duration) -> Result<(), Prob> {
        let rt = &self.rt;
        catch_unwind(AssertUnwindSafe(|| rt.poll_with(Some(t))))
            .map_err(|p| Prob { ty: "panic", sig: json!({"kind": "panic_in_driver_poll"}), desc: format!("Runtime::poll_with panicked: {}", panic_msg(p)) })
    }

    /// Write `b` to the terminal and run until the stream has consumed it: a wake-up, a drain, an empty input queue and
    /// a driver round without a further wake-up.
    fn feed(&mut self, b: &[u8], out: &mut Vec<Item>) -> Result<(), Prob> {
        let t0 = Instant::now();
        let mut off = 0;
        let live = self.es.is_some() && !self.ended;
        let mut woke = false;
        loop {
            if off < b.len() {
                off += self.pty.write(&b[off..]);
            }
            if !live {
                if off >= b.len() {
                    return Ok(());
                }
                if t0.elapsed() > WATCHDOG {
                    return Err(Prob { ty: "hang", sig: json!({"kind": "harness_write_stuck"}), desc: "the terminal does not take the bytes".into() });
                }
                std::thread::sleep(Duration::from_millis(1));
                continue;
            }
            self.drive(Duration::from_millis(1))?;
            if self.wakes() > self.seen {
                woke = true;
                self.drain(out)?;
                if self.ended {
                    return Ok(());
                }
                continue;
            }
            if off >= b.len() && woke && self.pty.unread() == 0 {
                self.drive(Duration::ZERO)?;
                if self.wakes() > self.seen {
                    continue;
                }
                return Ok(());
            }
            if t0.elapsed() > WATCHDOG {
                return Err(Prob {
                    ty: "hang",
                    sig: json!({"kind": "input_did_not_wake"}),
                    desc: format!("{} bytes were written to the terminal; the pending stream was not woken within {:?} (unread in the tty: {})", b.len(), WATCHDOG, self.pty.unread()),
                });
            }
        }
    }

    /// Run until the task is woken and the stream yields something (or ends).
    /// Like await_item, but silence for `limit` is an answer too (the awaited event may already have been yielded).
    fn await_item_for(&mut self, out: &mut Vec<Item>, limit: Duration) -> Result<(), Prob> {
        let t0 = Instant::now();
        let before = out.len();
        while t0.elapsed() < limit && self.es.is_some() && !self.ended {
            if self.wakes() > self.seen {
                self.drain(out)?;
                if out.len() > before {
                    break;
                }
            }
            self.drive(Duration::from_millis(2))?;
        }
        Ok(())
    }

    fn await_item(&mut self, out: &mut Vec<Item>, what: &str) -> Result<(), Prob> {
        let t0 = Instant::now();
        let before = out.len();
        loop {
            if self.es.is_none() || self.ended {
                return Ok(());
            }
            if self.wakes() > self.seen {
                self.drain(out)?;
                if out.len() > before {
                    return Ok(());
                }
            }
            if t0.elapsed() > WATCHDOG {
                return Err(Prob { ty: "hang", sig: json!({"kind": "no_wake", "for": what}), desc: format!("the pending stream yielded nothing within {:?} after: {what}", WATCHDOG) });
            }
            self.drive(Duration::from_millis(2))?;
        }
    }

    fn close(mut self) {
        let es = self.es.take();
        let _ = catch_unwind(AssertUnwindSafe(|| drop(es)));
        let _ = self.drive(Duration::ZERO);
        let Sess { rt, pty, .. } = self;
        let _ = catch_unwind(AssertUnwindSafe(move || drop(rt)));
        drop(pty);
    }
}

fn evs(items: &[Item]) -> Vec<Value> {
    items
        .iter()
        .map(|i| match i {
            Item::Ev(v) => v.clone(),
            Item::Err(e) => json!({"t": "err", "e": e}),
            Item::End => json!({"t": "end"}),
        })
        .collect()
}

struct Ctx<'a> {
    tx: &'a mpsc::Sender<Msg>,
    idx: usize,
    iour: bool,
    whole: &'a mut HashMap<(bool, Vec<u8>, bool), Vec<Value>>,
}

impl Ctx<'_> {
    fn problem(&self, p: Prob, step: usize) {
        let mut sig = p.sig;
        sig["drv"] = json!(if self.iour { "iour" } else { "poll" });
        let _ = self.tx.send(Msg::Problem { ty: p.ty.into(), sig, desc: p.desc, idx: self.idx, step });
    }

    fn stat(&self, k: &'static str, n: u64) {
        let _ = self.tx.send(Msg::Stat(k, n));
    }
}

/// Reference of the fragmentation contract: the segment written at once into a fresh stream (then the escape time-out
/// if the fragmented run had one there). Cached per (mode, bytes, time-out).
fn whole_run(ctx: &mut Ctx<'_>, raw: bool, seg: &[u8], tmo: bool) -> Result<Vec<Value>, String> {
    let key = (raw, seg.to_vec(), tmo);
    if let Some(v) = ctx.whole.get(&key) {
        return Ok(v.clone());
    }
    let (mut r, mut out) = {
        let mut s = Sess::new(ctx.iour, raw)?;
        let mut out = vec![];
        let r = (|| -> Result<(), Prob> {
            match s.open_stream()? {
                Ok(()) => {}
                Err(e) => return Err(Prob { ty: "fatal", sig: json!({}), desc: format!("EventStream::new: {e}") }),
            }
            s.drain(&mut out)?;
            let t0 = Instant::now();
            if !seg.is_empty() {
                let mut b = seg.to_vec();
                if !raw && *b.last().unwrap() != b'\n' {
                    b.push(4);
                }
                s.feed(&b, &mut out)?;
            }
            if tmo {
                let ends_esc = matches!(out.last(), Some(Item::Ev(v)) if v["t"] == "key" && v["c"][0] == "Esc" && v["m"] == 0);
                if t0.elapsed() >= Duration::from_millis(15) && ends_esc {
                    s.await_item_for(&mut out, Duration::from_millis(1500))?;
                } else {
                    s.await_item(&mut out, "escape time-out (reference run)")?;
                }
            }
            Ok(())
        })();
        s.close();
        (r, out)
    };
    if let Err(p) = r.take_err() {
        if p.ty == "fatal" {
            return Err(p.desc);
        }
        // a panic / hang of the reference run is reported by the fragmented run of the same bytes as well
        out.push(Item::Err(format!("{}:{}", p.ty, p.sig)));
    }
    ctx.stat("whole_runs", 1);
    let v = evs(&out);
    ctx.whole.insert(key, v.clone());
    Ok(v)
}

trait TakeErr<E> {
    fn take_err(&mut self) -> Result<(), E>;
}

impl<E> TakeErr<E> for Result<(), E> {
    fn take_err(&mut self) -> Result<(), E> {
        std::mem::replace(self, Ok(()))
    }
}

struct Attempt {
    per_step: Vec<Vec<Value>>,
    probs: Vec<(Prob, usize)>,
    /// longest time a fragment ending in ESC stayed the last thing written (the lone-ESC ambiguity is open)
    esc_window: Duration,
    early: Vec<(usize, Duration, bool)>,
    fatal: Option<String>,
    /// a read that is followed by an escape time-out took so long that the timer may have fired inside it: what the
    /// time-out step would have to wait for is undecidable, the attempt says nothing
    alt_timing: bool,
}

fn run_steps(ctx: &mut Ctx<'_>, case: &Value) -> Attempt {
    let raw = case["raw"].as_bool().unwrap_or(true);
    let input: Vec<u8> = case["input"].as_array().map(|a| a.iter().map(|x| x.as_u64().unwrap() as u8).collect()).unwrap_or_default();
    let steps = case["steps"].as_array().cloned().unwrap_or_default();
    let mut at = Attempt { per_step: vec![], probs: vec![], esc_window: Duration::ZERO, early: vec![], fatal: None, alt_timing: false };
    let mut s = match Sess::new(ctx.iour, raw) {
        Ok(s) => s,
        Err(e) => {
            at.fatal = Some(e);
            return at;
        }
    };
    let mut cur = 0usize;
    let mut esc_open: Option<Instant> = None;
    let mut last_write = Instant::now();
    let mut feed_slow = false;
    let mut out_ends_esc = false;
    let implicit_open = case["k"] == "parse" || case["k"] == "flood";
    if implicit_open {
        match s.open_stream() {
            Ok(Ok(())) => {
                let mut o = vec![];
                if let Err(p) = s.drain(&mut o) {
                    at.probs.push((p, 0));
                }
            }
            Ok(Err(e)) => {
                at.fatal = Some(format!("EventStream::new: {e}"));
                s.close();
                return at;
            }
            Err(p) => at.probs.push((p, 0)),
        }
    }
    for (si, st) in steps.iter().enumerate() {
        let mut out: Vec<Item> = vec![];
        let a = st["a"].as_str().unwrap_or("");
        let r: Result<(), Prob> = match a {
            "read" => {
                let mut b: Vec<u8> = if let Some(t) = st["tok"].as_str() {
                    match catalogue::token(t, raw) {
                        Some((b, _)) => b,
                        None => {
                            at.fatal = Some(format!("unknown token {t}"));
                            break;
                        }
                    }
                } else if let Some(arr) = st["b"].as_array() {
                    arr.iter().map(|x| x.as_u64().unwrap() as u8).collect()
                } else {
                    let n = st["n"].as_u64().unwrap_or(0) as usize;
                    if cur + n > input.len() {
                        at.fatal = Some("read beyond the input".into());
                        break;
                    }
                    cur += n;
                    input[cur - n..cur].to_vec()
                };
                let ends_esc = b.last() == Some(&0x1b);
                if !raw && b.last() != Some(&b'\n') {
                    b.push(4);
                }
                if st["gap"].as_u64().unwrap_or(0) > 0 {
                    // let a good part of the running escape timer pass (the model predicts that it is not restarted)
                    let t = Instant::now();
                    while t.elapsed() < Duration::from_millis(9) {
                        let _ = s.drive(Duration::from_millis(1));
                    }
                }
                last_write = Instant::now();
                let r = s.feed(&b, &mut out);
                if let Some(t) = esc_open.take() {
                    at.esc_window = at.esc_window.max(t.elapsed());
                }
                if ends_esc {
                    esc_open = Some(last_write);
                }
                // the escape timer runs in real time: when this read took long and already ended with an Esc key, the
                // timer may have fired inside it
                feed_slow = last_write.elapsed() >= Duration::from_millis(15);
                out_ends_esc = matches!(out.last(), Some(Item::Ev(v)) if v["t"] == "key" && v["c"][0] == "Esc" && v["m"] == 0);
                r
            }
            "timeout" => {
                esc_open = None;
                let r = if feed_slow && out_ends_esc {
                    at.alt_timing = true;
                    s.await_item_for(&mut out, Duration::from_millis(1500))
                } else {
                    s.await_item(&mut out, "escape time-out")
                };
                let el = last_write.elapsed();
                if r.is_ok() && !out.is_empty() && el < ESC_TIMEOUT {
                    at.early.push((si, el, st["stale"].as_bool().unwrap_or(false)));
                }
                feed_slow = false;
                out_ends_esc = false;
                r
            }
            "winch" => {
                let c = st["cols"].as_u64().unwrap_or(80) as u16;
                let rws = st["rows"].as_u64().unwrap_or(24) as u16;
                s.pty.set_winsize(c, rws);
                unsafe { libc::kill(libc::getpid(), libc::SIGWINCH) };
                let r = s.await_item(&mut out, "SIGWINCH");
                if r.is_ok() {
                    let ok = out.iter().any(|i| matches!(i, Item::Ev(v) if v["t"] == "resize" && v["k"] == c && v["s"] == rws));
                    if !ok {
                        at.probs.push((Prob { ty: "contract", sig: json!({"kind": "resize_event"}), desc: format!("the terminal was resized to {c}x{rws} and SIGWINCH raised; the stream yielded {:?}", evs(&out)) }, si));
                    }
                }
                r
            }
            "eof" => {
                let r = s.feed(&[4], &mut out);
                if r.is_ok() && !s.ended {
                    s.await_item(&mut out, "end of input")
                } else {
                    r
                }
            }
            "hangup" => {
                s.pty.hangup();
                s.await_item(&mut out, "hang-up")
            }
            "drop" => {
                let es = s.es.take();
                let r = catch_unwind(AssertUnwindSafe(|| drop(es)))
                    .map_err(|p| Prob { ty: "panic", sig: json!({"kind": "panic_in_drop"}), desc: format!("dropping the stream panicked: {}", panic_msg(p)) });
                for _ in 0..3 {
                    let _ = s.drive(Duration::ZERO);
                }
                r
            }
            "new" => {
                let live = s.es.is_some();
                if live {
                    // a second stream next to the live one
                    let rt = &s.rt;
                    let r2 = catch_unwind(AssertUnwindSafe(|| rt.enter(EventStream::new)));
                    match r2 {
                        Ok(Ok(second)) => {
                            at.probs.push((Prob { ty: "contract", sig: json!({"kind": "two_streams"}), desc: "EventStream::new succeeded while another stream is alive".into() }, si));
                            drop(second);
                        }
                        Ok(Err(e)) => out.push(Item::Err(format!("{:?}", e.kind()))),
                        Err(p) => at.probs.push((Prob { ty: "panic", sig: json!({"kind": "panic_in_new"}), desc: panic_msg(p) }, si)),
                    }
                    Ok(())
                } else {
                    match s.open_stream() {
                        Ok(Ok(())) => s.drain(&mut out),
                        Ok(Err(e)) => {
                            at.probs.push((Prob { ty: "contract", sig: json!({"kind": "new_after_drop"}), desc: format!("EventStream::new after the previous stream was dropped: {e}") }, si));
                            Ok(())
                        }
                        Err(p) => Err(p),
                    }
                }
            }
            other => {
                at.fatal = Some(format!("unknown step {other}"));
                break;
            }
        };
        at.per_step.push(evs(&out));
        if let Err(p) = r {
            let stop = true;
            at.probs.push((p, si));
            if stop {
                break;
            }
        }
    }
    s.close();
    at
}

fn run_case(ctx: &mut Ctx<'_>, case: &Value) -> Result<u64, String> {
    let kind = case["k"].as_str().unwrap_or("parse");
    if kind == "flood" {
        return run_flood(ctx, case);
    }
    let raw = case["raw"].as_bool().unwrap_or(true);
    let steps = case["steps"].as_array().cloned().unwrap_or_default();
    let input: Vec<u8> = case["input"].as_array().map(|a| a.iter().map(|x| x.as_u64().unwrap() as u8).collect()).unwrap_or_default();
    let expect: Vec<Vec<Value>> = steps.iter().map(|s| s["ev"].as_array().cloned().unwrap_or_default()).collect();
    let expect_flat: Vec<Value> = expect.iter().flatten().cloned().collect();
    let mut att = run_steps(ctx, case);
    let mut tries = 1;
    loop {
        if att.fatal.is_some() {
            break;
        }
        let flat: Vec<Value> = att.per_step.iter().flatten().cloned().collect();
        let clean = att.probs.is_empty() && flat == expect_flat;
        // the escape timer runs in real time: when a fragment ending in ESC stayed the last thing written for long,
        // the other documented outcome (a lone Esc key) is legitimate - run the case again
        if clean || att.esc_window < Duration::from_millis(12) {
            break;
        }
        if tries >= 25 {
            // every attempt left a lone ESC waiting for 12 ms or more: the other documented outcome (Esc key) is legitimate
            // each time, the machine is too slow to decide this case
            ctx.stat("undecided_for_timing", 1);
            return Ok(0);
        }
        ctx.stat("retries_for_timing", 1);
        tries += 1;
        att = run_steps(ctx, case);
    }
    if let Some(f) = att.fatal {
        return Err(f);
    }
    let nsteps = att.per_step.len() as u64;
    let alt_timing = att.alt_timing;
    let had_probs = !att.probs.is_empty();
    for (p, si) in att.probs {
        ctx.problem(p, si);
    }
    for (si, el, stale) in &att.early {
        ctx.problem(
            Prob {
                ty: "contract",
                sig: json!({"kind": "esc_resolved_early", "stale_timer_predicted": stale}),
                desc: format!("a lone ESC was reported as the Esc key {:?} after the write that delivered it (escape time-out 20 ms){}", el,
                    if *stale { "; the model predicts it: the timer armed for an earlier ESC is not restarted" } else { "" }),
            },
            *si,
        );
    }
    if had_probs {
        return Ok(nsteps);
    }
    let flat: Vec<Value> = att.per_step.iter().flatten().cloned().collect();
    // ---- contract 1 (parse cases): fragmented == whole, segment by segment ----
    if kind == "parse" {
        let mut want: Vec<Value> = vec![];
        let mut seg: Vec<u8> = vec![];
        let mut cur = 0usize;
        let mut eof = false;
        for st in &steps {
            match st["a"].as_str().unwrap_or("") {
                "read" => {
                    let n = st["n"].as_u64().unwrap_or(0) as usize;
                    seg.extend_from_slice(&input[cur..cur + n]);
                    cur += n;
                }
                "timeout" => {
                    want.extend(whole_run(ctx, raw, &seg, true)?);
                    seg.clear();
                }
                "eof" => eof = true,
                _ => {}
            }
        }
        if !seg.is_empty() {
            want.extend(whole_run(ctx, raw, &seg, false)?);
        }
        let mut got = flat.clone();
        if eof {
            // what the end of input adds (a pending lone ESC, the end marker) is compared with the model only
            let k = att.per_step.last().map(|l| l.len()).unwrap_or(0);
            got.truncate(got.len() - k);
        }
        if got != want {
            let fam = case["fam"].as_str().unwrap_or("");
            ctx.problem(
                Prob {
                    ty: "contract",
                    sig: json!({"kind": "fragmentation", "fam": fam}),
                    desc: format!("input {:?} read in fragments {:?} gives {} events, written at once {}: {:?} vs {:?}", input,
                        steps.iter().map(|s| s["n"].as_u64().map(|n| n.to_string()).unwrap_or_else(|| s["a"].as_str().unwrap_or("").to_string())).collect::<Vec<_>>(),
                        got.len(), want.len(), got, want),
                },
                0,
            );
            return Ok(nsteps);
        }
        // ---- contract 2: the well-formed family means what the terminal meant ----
        if case["fam"] == "wf" && case["clean"].as_bool().unwrap_or(false) {
            let mut bytes = vec![];
            let mut meant = vec![];
            for t in case["toks"].as_array().cloned().unwrap_or_default() {
                let name = t.as_str().unwrap_or("");
                let Some((b, e)) = catalogue::token(name, raw) else {
                    return Err(format!("unknown token {name}"));
                };
                bytes.extend(b);
                if let Some(e) = e {
                    meant.push(e);
                }
            }
            if bytes != input {
                return Err(format!("case {}: tokens {:?} do not spell the input", ctx.idx, case["toks"]));
            }
            if got != meant {
                ctx.problem(
                    Prob {
                        ty: "contract",
                        sig: json!({"kind": "meaning", "toks": case["toks"]}),
                        desc: format!("the terminal sent {:?} = {:?}; the stream yielded {:?}, meant {:?}", case["toks"], input, got, meant),
                    },
                    0,
                );
                return Ok(nsteps);
            }
            ctx.stat("meaning_checked", 1);
        }
    } else {
        // stream scenarios: whole tokens fed after the last (re)creation of a stream are yielded exactly once, in order
        let mut meant: Vec<Value> = vec![];
        let mut got: Vec<Value> = vec![];
        let mut all_tok = true;
        let keep = |v: &&Value| v["t"] != "resize" && v["t"] != "err" && v["t"] != "end";
        for (st, o) in steps.iter().zip(att.per_step.iter()) {
            match st["a"].as_str().unwrap_or("") {
                "drop" => {
                    // what the dropped stream had not yielded is gone with it; bytes written from now on belong to the next stream
                    meant.clear();
                    got.clear();
                    all_tok = true;
                }
                "read" => {
                    if let Some(t) = st["tok"].as_str() {
                        if let Some((_, Some(e))) = catalogue::token(t, raw) {
                            meant.push(e);
                        }
                    } else {
                        all_tok = false;
                    }
                    got.extend(o.iter().filter(keep).cloned());
                }
                _ => got.extend(o.iter().filter(keep).cloned()),
            }
        }
        if all_tok && got != meant {
            ctx.problem(
                Prob { ty: "contract", sig: json!({"kind": "stream_order"}), desc: format!("tokens fed to the live stream mean {:?}; it yielded {:?}", meant, got) },
                0,
            );
            return Ok(nsteps);
        }
    }
    // ---- drift: the model's expectation, step by step ----
    for (si, (g, w)) in att.per_step.iter().zip(expect.iter()).enumerate() {
        if g != w && flat == expect_flat {
            // same events, attributed to a later step: the harness went on before the stream had consumed a fragment
            ctx.stat(if alt_timing { "esc_fired_inside_read" } else { "late_events" }, 1);
            break;
        }
        if g != w {
            ctx.problem(
                Prob {
                    ty: "mismatch",
                    sig: json!({"field": "ev", "a": steps[si]["a"], "k": kind}),
                    desc: format!("step {si} ({}): model expects {:?}, the implementation yields {:?} (input {:?})", steps[si]["a"], w, g, input),
                },
                si,
            );
            break;
        }
    }
    Ok(nsteps)
}

/// Long sequences: a bracketed paste is one event with exactly its bytes however many reads it takes; a CSI sequence
/// whose parameter bytes never end is buffered without bound (reported; a finding of the pinned tree).
fn run_flood(ctx: &mut Ctx<'_>, case: &Value) -> Result<u64, String> {
    let n = case["n"].as_u64().unwrap_or(65536) as usize;
    let what = case["what"].as_str().unwrap_or("paste");
    let mut s = Sess::new(ctx.iour, true)?;
    let mut out = vec![];
    let mut mid = vec![];
    let body: Vec<u8> = (0..n).map(|i| if what == "paste" { b"ab\x1b[2c\r\n~x"[i % 10] } else { b'0' + (i % 10) as u8 }).collect();
    let r = (|| -> Result<(), Prob> {
        match s.open_stream()? {
            Ok(()) => {}
            Err(e) => return Err(Prob { ty: "fatal", sig: json!({}), desc: format!("EventStream::new: {e}") }),
        }
        s.drain(&mut out)?;
        let head: &[u8] = if what == "paste" { b"\x1b[200~" } else { b"\x1b[" };
        s.feed(head, &mut out)?;
        for chunk in body.chunks(2048) {
            s.feed(chunk, &mut out)?;
        }
        mid = out.clone();
        let tail: &[u8] = if what == "paste" { b"\x1b[201~" } else { b";5A" };
        s.feed(tail, &mut out)?;
        Ok(())
    })();
    s.close();
    match r {
        Err(p) if p.ty == "fatal" => return Err(p.desc),
        Err(p) => {
            ctx.problem(p, 0);
            return Ok(1);
        }
        Ok(()) => {}
    }
    let got = evs(&out);
    if what == "paste" {
        let want = vec![json!({"t": "paste", "c": ["", 0], "m": 0, "k": 0, "s": 0, "p": body})];
        if got != want {
            let d = if got.len() == 1 { format!("one event with {} bytes", got[0]["p"].as_array().map(|a| a.len()).unwrap_or(0)) } else { format!("{} events", got.len()) };
            ctx.problem(Prob { ty: "contract", sig: json!({"kind": "paste_exact", "n": n}), desc: format!("a bracketed paste of {n} bytes must be one Paste event with exactly these bytes; got {d}") }, 0);
        }
    } else {
        let up = json!({"t": "key", "c": ["Up", 0], "m": 2, "k": 1, "s": 0, "p": []});
        if mid.is_empty() && got == vec![up] {
            ctx.problem(
                Prob {
                    ty: "contract",
                    sig: json!({"kind": "unbounded_buffering", "seq": "csi_parameters"}),
                    desc: format!("ESC [ followed by {n} parameter bytes yields nothing, and the final bytes ;5A still complete ONE Ctrl-Up key event: the parser kept all {n} bytes (no bound on a control sequence)"),
                },
                0,
            );
        } else {
            ctx.stat("csi_flood_bounded", 1);
        }
    }
    Ok(1)
}

fn main() {
    hcore::out::silence_panics();
    let args: Vec<String> = std::env::args().collect();
    let path = args.get(1).expect("usage: x05_stream <cases.jsonl> --drv iour|poll [--from N]").clone();
    let from: usize = args.iter().position(|a| a == "--from").and_then(|i| args.get(i + 1)).and_then(|s| s.parse().ok()).unwrap_or(0);
    let iour = args.iter().position(|a| a == "--drv").and_then(|i| args.get(i + 1)).map(|s| s != "poll").unwrap_or(true);
    let text = std::fs::read_to_string(&path).unwrap_or_else(|e| panic!("open {path}: {e}"));
    let raws: Arc<Vec<Value>> = Arc::new(text.lines().filter(|l| !l.trim().is_empty()).map(|l| serde_json::from_str(l).expect("bad json line")).collect());
    let mut rep = Report::new();
    let mut stats: std::collections::BTreeMap<&'static str, u64> = Default::default();
    let (tx, rx) = mpsc::channel::<Msg>();
    let raws2 = raws.clone();
    // SIGWINCH is handled on this (main) thread: the runtime thread blocks it, so that the signal handler's wake is the
    // cross-thread path (the same-thread path is finding X01-1, not the subject here)
    std::thread::Builder::new()
        .name("x05-worker".into())
        .stack_size(64 << 20)
        .spawn(move || {
            unsafe {
                let mut set: libc::sigset_t = std::mem::zeroed();
                libc::sigemptyset(&mut set);
                libc::sigaddset(&mut set, libc::SIGWINCH);
                libc::pthread_sigmask(libc::SIG_BLOCK, &set, std::ptr::null_mut());
            }
            let mut whole = HashMap::new();
            for i in from..raws2.len() {
                if tx.send(Msg::Start(i)).is_err() {
                    return;
                }
                let mut ctx = Ctx { tx: &tx, idx: i, iour, whole: &mut whole };
                let r = catch_unwind(AssertUnwindSafe(|| run_case(&mut ctx, &raws2[i])));
                let steps = match r {
                    Ok(Ok(s)) => s,
                    Ok(Err(f)) => {
                        let _ = tx.send(Msg::Fatal(f));
                        return;
                    }
                    Err(e) => {
                        let _ = tx.send(Msg::Problem { ty: "panic".into(), sig: json!({"kind": "harness_case_panic"}), desc: format!("panic outside a guarded step: {}", panic_msg(e)), idx: i, step: 0 });
                        0
                    }
                };
                if tx.send(Msg::Done { steps }).is_err() {
                    return;
                }
            }
        })
        .expect("spawn worker");
    let mut cur = from;
    let mut fatal: Option<String> = None;
    let mut aborted: Option<usize> = None;
    let mut restart = false;
    let mut hangs = 0;
    loop {
        match rx.recv_timeout(Duration::from_secs(150)) {
            Ok(Msg::Start(i)) => cur = i,
            Ok(Msg::Problem { ty, sig, desc, idx, step }) => {
                if ty == "panic" {
                    restart = true;
                }
                if ty == "hang" {
                    hangs += 1;
                }
                rep.problem(&ty, sig, desc, &raws[idx], step)
            }
            Ok(Msg::Stat(k, n)) => *stats.entry(k).or_insert(0) += n,
            Ok(Msg::Done { steps }) => {
                rep.cases += 1;
                rep.steps += steps;
                if hangs >= 6 {
                    // every hang costs the watchdog's 20 s: the verdict is clear, stop here
                    rep.set("gave_up_after_hangs", json!(cur));
                    break;
                }
                if restart && cur + 1 < raws.len() {
                    // code under test panicked: whatever it left behind (reader lease, runtime) must not leak into later cases
                    aborted = Some(cur);
                    break;
                }
            }
            Ok(Msg::Fatal(f)) => {
                fatal = Some(f);
                break;
            }
            Err(mpsc::RecvTimeoutError::Disconnected) => break,
            Err(mpsc::RecvTimeoutError::Timeout) => {
                rep.problem("hang", json!({"kind": "case_never_returns", "drv": if iour { "iour" } else { "poll" }}), "a call into compio-term did not return within 150 s".into(), &raws[cur], 0);
                rep.cases += 1;
                aborted = Some(cur);
                break;
            }
        }
    }
    for (k, v) in stats {
        rep.set(k, json!(v));
    }
    if let Some(a) = aborted {
        rep.set("aborted_at", json!(a));
    }
    if let Some(f) = &fatal {
        rep.set("fatal", json!(f));
    }
    rep.finish();
    std::process::exit(if fatal.is_some() { 3 } else { 0 });
}
