//! extension harness hx02
