//! extension harness hx02: descriptor readiness (compio-runtime fd: PollFd, AsyncFd).
//!
//! Common pieces of the replay and stress binaries: counting wakers, a socket pair whose readiness the
//! harness controls from the outside (raw libc calls on the peer end and on a dup of our end), a runtime
//! built on a chosen driver, and the bounded "settle" loop that lets the driver process what the kernel
//! already knows (never wall-clock ordering: the loop ends on an observation or on a generous deadline).
pub mod waiter;

use std::{
    os::fd::{AsRawFd, FromRawFd, OwnedFd, RawFd},
    sync::{
        Arc,
        atomic::{AtomicU64, Ordering},
    },
    task::{Wake, Waker},
    time::{Duration, Instant},
};

use compio_driver::{DriverType, ProactorBuilder};
use compio_runtime::Runtime;

pub struct CountWaker(pub AtomicU64);

impl Wake for CountWaker {
    fn wake(self: Arc<Self>) {
        self.0.fetch_add(1, Ordering::SeqCst);
    }

    fn wake_by_ref(self: &Arc<Self>) {
        self.0.fetch_add(1, Ordering::SeqCst);
    }
}

pub fn count_waker() -> (Arc<CountWaker>, Waker) {
    let c = Arc::new(CountWaker(AtomicU64::new(0)));
    let w = Waker::from(c.clone());
    (c, w)
}

pub fn driver_of(name: &str) -> DriverType {
    if name == "poll" { DriverType::Poll } else { DriverType::IoUring }
}

/// Build a runtime on the requested driver; None if that driver is not available here.
pub fn build_runtime(t: DriverType) -> Option<Runtime> {
    let mut pb = ProactorBuilder::new();
    pb.driver_type(t).capacity(64);
    let rt = Runtime::builder().with_proactor(pb).build().ok()?;
    if rt.driver_type() == t { Some(rt) } else { None }
}

/// Unit of the read direction: the peer writes UNIT position-coded bytes at a time, every read uses a UNIT buffer.
pub const UNIT: usize = 4;
/// Size of one waiter write: payload byte i of write number `serial` is serial*8+i (serial 1..=27),
/// bytes >= 0xE0 are filler written by the harness itself.
pub const WUNIT: usize = 8;
pub const MAX_SERIAL: u32 = 27;

/// Byte `i` of the peer->ours stream: position-coded so that loss, duplication and reordering are visible.
pub fn stream_byte(i: u64) -> u8 {
    0x5a ^ ((i as u8).wrapping_mul(31)).wrapping_add((i >> 8) as u8)
}

pub fn payload(serial: u32) -> Vec<u8> {
    (0..WUNIT as u32).map(|i| (serial * 8 + i) as u8).collect()
}

/// What the peer has seen of the ours->peer stream, parsed into whole waiter writes.
#[derive(Default)]
pub struct Wire {
    /// serials of complete payloads in wire order
    pub seen: Vec<u32>,
    /// bytes of a payload that has started but is not complete yet
    partial: Vec<u8>,
    pub filler: u64,
    /// first structural problem (torn / unknown bytes), if any
    pub problem: Option<String>,
}

impl Wire {
    fn feed(&mut self, bytes: &[u8]) {
        for &b in bytes {
            if b >= 0xE0 {
                if !self.partial.is_empty() && self.problem.is_none() {
                    self.problem = Some(format!("write torn by filler after {:?}", self.partial));
                    self.partial.clear();
                }
                self.filler += 1;
                continue;
            }
            let idx = (b % 8) as usize;
            let serial = (b / 8) as u32;
            let ok = if self.partial.is_empty() { idx == 0 && serial >= 1 } else { idx == self.partial.len() && self.partial[0] / 8 == b / 8 };
            if !ok {
                if self.problem.is_none() {
                    self.problem = Some(format!("unexpected byte {b:#x} after partial {:?}", self.partial));
                }
                self.partial.clear();
                continue;
            }
            self.partial.push(b);
            if self.partial.len() == WUNIT {
                self.seen.push(serial);
                self.partial.clear();
            }
        }
    }

    pub fn partial_len(&self) -> usize {
        self.partial.len()
    }
}

/// A connected AF_UNIX stream pair. `ours` is handed to compio, `peer` stays with the harness, `ours_dup` is a
/// dup of our end that the harness uses to fill the send buffer behind compio's back and to sample readiness.
pub struct Pair {
    pub ours: Option<OwnedFd>,
    pub ours_dup: OwnedFd,
    pub peer: OwnedFd,
    /// bytes the peer wrote into the peer->ours stream
    pub peer_out_pos: u64,
    pub wire: Wire,
    fill_ctr: u64,
}

fn set_nonblock(fd: RawFd) {
    unsafe {
        let fl = libc::fcntl(fd, libc::F_GETFL);
        libc::fcntl(fd, libc::F_SETFL, fl | libc::O_NONBLOCK);
    }
}

impl Pair {
    pub fn new() -> std::io::Result<Self> {
        let mut sv = [0i32; 2];
        let r = unsafe { libc::socketpair(libc::AF_UNIX, libc::SOCK_STREAM | libc::SOCK_CLOEXEC, 0, sv.as_mut_ptr()) };
        if r != 0 {
            return Err(std::io::Error::last_os_error());
        }
        let ours = unsafe { OwnedFd::from_raw_fd(sv[0]) };
        let peer = unsafe { OwnedFd::from_raw_fd(sv[1]) };
        // small send buffer so that filling it is cheap
        let sz: libc::c_int = 4096;
        unsafe {
            libc::setsockopt(
                sv[0],
                libc::SOL_SOCKET,
                libc::SO_SNDBUF,
                &sz as *const _ as *const libc::c_void,
                std::mem::size_of::<libc::c_int>() as u32,
            );
        }
        // our end stays in blocking mode (PollFd::new switches it itself; an O_NONBLOCK descriptor makes io_uring
        // answer EAGAIN instead of waiting, which is not what AsyncFd is used with); the harness' own calls on
        // it use MSG_DONTWAIT
        set_nonblock(sv[1]);
        let d = unsafe { libc::fcntl(sv[0], libc::F_DUPFD_CLOEXEC, 0) };
        if d < 0 {
            return Err(std::io::Error::last_os_error());
        }
        let ours_dup = unsafe { OwnedFd::from_raw_fd(d) };
        Ok(Self { ours: Some(ours), ours_dup, peer, peer_out_pos: 0, wire: Wire::default(), fill_ctr: 0 })
    }

    /// Peer writes `n` bytes of the peer->ours stream. Returns false if the kernel refused (never expected).
    pub fn peer_write(&mut self, n: usize) -> bool {
        let buf: Vec<u8> = (0..n as u64).map(|k| stream_byte(self.peer_out_pos + k)).collect();
        let r = unsafe { libc::write(self.peer.as_raw_fd(), buf.as_ptr() as *const libc::c_void, n) };
        if r as isize != n as isize {
            return false;
        }
        self.peer_out_pos += n as u64;
        true
    }

    /// Peer shuts down its write half: our end reads EOF after the queued bytes.
    pub fn peer_shutdown(&mut self) {
        unsafe { libc::shutdown(self.peer.as_raw_fd(), libc::SHUT_WR) };
    }

    /// Fill our send buffer with filler bytes until the kernel says EAGAIN (through the dup, not through compio).
    pub fn fill(&mut self) -> u64 {
        let mut total = 0u64;
        loop {
            let n = 1024usize;
            let buf: Vec<u8> = (0..n as u64).map(|k| 0xE0 | ((self.fill_ctr + k) % 32) as u8).collect();
            let r = unsafe {
                libc::send(self.ours_dup.as_raw_fd(), buf.as_ptr() as *const libc::c_void, n, libc::MSG_DONTWAIT | libc::MSG_NOSIGNAL)
            };
            if r <= 0 {
                break;
            }
            self.fill_ctr += r as u64;
            total += r as u64;
            if total > (8 << 20) {
                break;
            }
        }
        total
    }

    /// Peer reads everything that is queued and feeds it to the wire parser. Returns the number of bytes.
    pub fn drain(&mut self) -> u64 {
        let mut total = 0u64;
        let mut buf = vec![0u8; 65536];
        loop {
            let r = unsafe { libc::read(self.peer.as_raw_fd(), buf.as_mut_ptr() as *mut libc::c_void, buf.len()) };
            if r <= 0 {
                break;
            }
            self.wire.feed(&buf[..r as usize]);
            total += r as u64;
        }
        total
    }

    /// Bytes queued in the kernel for our end (FIONREAD).
    pub fn queued_in(&self) -> u64 {
        let mut n: libc::c_int = 0;
        unsafe { libc::ioctl(self.ours_dup.as_raw_fd(), libc::FIONREAD, &mut n) };
        n.max(0) as u64
    }

    /// Take what is still queued for our end out of the kernel (end of a case).
    pub fn take_leftover(&mut self) -> Vec<u8> {
        let mut out = Vec::new();
        let mut buf = [0u8; 4096];
        loop {
            let r = unsafe { libc::recv(self.ours_dup.as_raw_fd(), buf.as_mut_ptr() as *mut libc::c_void, buf.len(), libc::MSG_DONTWAIT) };
            if r <= 0 {
                break;
            }
            out.extend_from_slice(&buf[..r as usize]);
        }
        out
    }

    /// Level readiness of our end as the kernel reports it right now (poll(2) with zero timeout).
    pub fn kernel_ready(&self) -> (bool, bool) {
        let mut p = libc::pollfd { fd: self.ours_dup.as_raw_fd(), events: libc::POLLIN | libc::POLLOUT, revents: 0 };
        unsafe { libc::poll(&mut p, 1, 0) };
        (p.revents & (libc::POLLIN | libc::POLLHUP | libc::POLLRDHUP) != 0, p.revents & libc::POLLOUT != 0)
    }
}

/// Let the driver process what is pending: `poll_with` until `done()` holds or `max` passes. Returns whether
/// `done()` held. `min_rounds` zero-timeout rounds are always made (for "nothing must happen" expectations).
pub fn settle(rt: &Runtime, min_rounds: u32, max: Duration, mut done: impl FnMut() -> bool) -> bool {
    for _ in 0..min_rounds {
        rt.poll_with(Some(Duration::ZERO));
    }
    if done() {
        return true;
    }
    let t0 = Instant::now();
    loop {
        rt.poll_with(Some(Duration::from_millis(5)));
        if done() {
            return true;
        }
        if t0.elapsed() > max {
            return false;
        }
    }
}
