//! The futures a waiter slot can hold: the public readiness / I/O API of PollFd and AsyncFd, optionally under a
//! cancel token (with_cancel = "slow", with_cancel().fail_fast() = "fast"). All are polled by hand.
use std::{
    cell::Cell,
    future::Future,
    io,
    os::fd::OwnedFd,
    pin::Pin,
    rc::Rc,
    task::{Context, Poll},
};

use compio_buf::BufResult;
use compio_io::{AsyncRead as CRead, AsyncWrite as CWrite};
use compio_runtime::{
    CancelToken, FutureExt,
    fd::{AsyncFd, PollFd},
};
use futures_util::{AsyncRead, AsyncWrite};

use crate::{UNIT, payload};

#[derive(Debug, Clone)]
pub enum Res {
    /// readiness reported
    Ok,
    Data(Vec<u8>),
    Eof,
    /// (serial of the payload, bytes the call reported)
    Wrote(u32, usize),
    Err(i32, String),
    /// fail-fast cancellation (Err(Cancelled) of WithCancelFailFast)
    Cancelled,
}

impl Res {
    /// name in the vocabulary of the model
    pub fn name(&self) -> &'static str {
        match self {
            Res::Ok => "ok",
            Res::Data(_) => "data",
            Res::Eof => "eof",
            Res::Wrote(..) => "wrote",
            Res::Err(c, _) if *c == libc::ECANCELED => "ecanceled",
            Res::Err(..) => "error",
            Res::Cancelled => "cancelled",
        }
    }
}

fn err(e: io::Error) -> Res {
    Res::Err(e.raw_os_error().unwrap_or(-1), format!("{e:?}"))
}

pub type Fut = Pin<Box<dyn Future<Output = Res>>>;

/// Serial numbers of waiter writes: assigned when the write is first handed to compio.
#[derive(Clone, Default)]
pub struct Serials(pub Rc<Cell<u32>>);

impl Serials {
    pub fn next(&self) -> u32 {
        let s = self.0.get() + 1;
        self.0.set(s);
        s
    }
}

struct IoRead {
    fd: Rc<PollFd<OwnedFd>>,
    buf: [u8; UNIT],
}

impl Future for IoRead {
    type Output = Res;

    fn poll(self: Pin<&mut Self>, cx: &mut Context<'_>) -> Poll<Res> {
        let this = self.get_mut();
        let mut r: &PollFd<OwnedFd> = &this.fd;
        match Pin::new(&mut r).poll_read(cx, &mut this.buf) {
            Poll::Pending => Poll::Pending,
            Poll::Ready(Ok(0)) => Poll::Ready(Res::Eof),
            Poll::Ready(Ok(n)) => Poll::Ready(Res::Data(this.buf[..n.min(UNIT)].to_vec())),
            Poll::Ready(Err(e)) => Poll::Ready(err(e)),
        }
    }
}

struct IoWrite {
    fd: Rc<PollFd<OwnedFd>>,
    serials: Serials,
    /// serial of this write, 0 until the first poll
    cur: Rc<Cell<u32>>,
    buf: Vec<u8>,
}

impl Future for IoWrite {
    type Output = Res;

    fn poll(self: Pin<&mut Self>, cx: &mut Context<'_>) -> Poll<Res> {
        let this = self.get_mut();
        if this.cur.get() == 0 {
            let s = this.serials.next();
            this.cur.set(s);
            this.buf = payload(s);
        }
        let mut r: &PollFd<OwnedFd> = &this.fd;
        match Pin::new(&mut r).poll_write(cx, &this.buf) {
            Poll::Pending => Poll::Pending,
            Poll::Ready(Ok(n)) => Poll::Ready(Res::Wrote(this.cur.get(), n)),
            Poll::Ready(Err(e)) => Poll::Ready(err(e)),
        }
    }
}

/// kind "ready" | "io" on a PollFd
pub fn pollfd_future(fd: &Rc<PollFd<OwnedFd>>, dir: char, kind: &str, serials: &Serials, cur: &Rc<Cell<u32>>) -> Fut {
    let fd = fd.clone();
    match (kind, dir) {
        ("ready", 'r') => Box::pin(async move {
            match fd.read_ready().await {
                Ok(()) => Res::Ok,
                Err(e) => err(e),
            }
        }),
        ("ready", _) => Box::pin(async move {
            match fd.write_ready().await {
                Ok(()) => Res::Ok,
                Err(e) => err(e),
            }
        }),
        (_, 'r') => Box::pin(IoRead { fd, buf: [0; UNIT] }),
        _ => Box::pin(IoWrite { fd, serials: serials.clone(), cur: cur.clone(), buf: Vec::new() }),
    }
}

/// AsyncFd::read / AsyncFd::write through the compio-io traits of &AsyncFd
pub fn asyncfd_future(fd: &AsyncFd<OwnedFd>, dir: char, serials: &Serials, cur: &Rc<Cell<u32>>) -> Fut {
    let fd = fd.clone();
    if dir == 'r' {
        Box::pin(async move {
            let mut r = &fd;
            let BufResult(res, buf) = CRead::read(&mut r, Vec::with_capacity(UNIT)).await;
            match res {
                Ok(0) => Res::Eof,
                Ok(n) => {
                    if n != buf.len() {
                        Res::Err(-2, format!("read reported {n} bytes but the buffer holds {}", buf.len()))
                    } else {
                        Res::Data(buf)
                    }
                }
                Err(e) => err(e),
            }
        })
    } else {
        let serials = serials.clone();
        let cur = cur.clone();
        Box::pin(async move {
            let s = serials.next();
            cur.set(s);
            let mut w = &fd;
            let BufResult(res, _) = CWrite::write(&mut w, payload(s)).await;
            match res {
                Ok(n) => Res::Wrote(s, n),
                Err(e) => err(e),
            }
        })
    }
}

/// wrap a future into the token mode of the model
pub fn with_token(f: Fut, mode: &str, tok: Option<&CancelToken>) -> Fut {
    match (mode, tok) {
        ("slow", Some(t)) => Box::pin(f.with_cancel(t.clone())),
        ("fast", Some(t)) => {
            let g = f.with_cancel(t.clone()).fail_fast();
            Box::pin(async move {
                match g.await {
                    Ok(r) => r,
                    Err(_) => Res::Cancelled,
                }
            })
        }
        _ => f,
    }
}
