// throw-away probe
use std::{
    future::Future,
    pin::Pin,
    sync::atomic::Ordering,
    task::{Context, Poll},
    time::Duration,
};

use compio_runtime::{CancelToken, FutureExt, fd::PollFd};
use hx02::*;

fn main() {
    for drv in ["iour", "poll"] {
        let Some(rt) = build_runtime(driver_of(drv)) else {
            println!("{drv}: unavailable");
            continue;
        };
        println!("== {drv}");
        rt.enter(|| {
            // S0 basic
            let mut p = Pair::new().unwrap();
            let fd = PollFd::new(p.ours.take().unwrap()).unwrap();
            let (ca, wa) = count_waker();
            let (cb, wb) = count_waker();
            let mut a: Pin<Box<dyn Future<Output = std::io::Result<()>>>> = Box::pin(fd.read_ready());
            let mut b: Pin<Box<dyn Future<Output = std::io::Result<()>>>> = Box::pin(fd.write_ready());
            println!("a first {:?}", a.as_mut().poll(&mut Context::from_waker(&wa)).map(|r| r.is_ok()));
            println!("b first {:?}", b.as_mut().poll(&mut Context::from_waker(&wb)).map(|r| r.is_ok()));
            settle(&rt, 3, Duration::from_millis(50), || false);
            println!("woken a={} b={}", ca.0.load(Ordering::SeqCst), cb.0.load(Ordering::SeqCst));
            println!("b again {:?}", b.as_mut().poll(&mut Context::from_waker(&wb)).map(|r| r.is_ok()));
            p.peer_write(4);
            settle(&rt, 3, Duration::from_millis(50), || false);
            println!("woken a={} b={}", ca.0.load(Ordering::SeqCst), cb.0.load(Ordering::SeqCst));
            println!("a again {:?}", a.as_mut().poll(&mut Context::from_waker(&wa)).map(|r| r.is_ok()));
            drop(a);
            drop(b);

            // S1 same-direction waiters
            let (c1, w1) = count_waker();
            let (c2, w2) = count_waker();
            let mut f1: Pin<Box<dyn Future<Output = std::io::Result<()>>>> = Box::pin(fd.write_ready());
            let mut f2: Pin<Box<dyn Future<Output = std::io::Result<()>>>> = Box::pin(fd.write_ready());
            let n = p.fill();
            println!("filled {n}, kernel_ready {:?}", p.kernel_ready());
            println!("f1 {:?}", f1.as_mut().poll(&mut Context::from_waker(&w1)).map(|r| r.is_ok()));
            println!("f2 {:?}", f2.as_mut().poll(&mut Context::from_waker(&w2)).map(|r| r.is_ok()));
            settle(&rt, 3, Duration::from_millis(50), || false);
            println!("woken f1={} f2={}", c1.0.load(Ordering::SeqCst), c2.0.load(Ordering::SeqCst));
            println!("drained {:?} kernel_ready {:?}", p.drain(), p.kernel_ready());
            settle(&rt, 3, Duration::from_millis(50), || false);
            println!("woken f1={} f2={}", c1.0.load(Ordering::SeqCst), c2.0.load(Ordering::SeqCst));
            println!("f2 {:?}", f2.as_mut().poll(&mut Context::from_waker(&w2)).map(|r| r.is_ok()));
            settle(&rt, 3, Duration::from_millis(50), || false);
            println!("woken f1={} f2={}", c1.0.load(Ordering::SeqCst), c2.0.load(Ordering::SeqCst));
            println!("f1 {:?}", f1.as_mut().poll(&mut Context::from_waker(&w1)).map(|r| r.is_ok()));
            settle(&rt, 3, Duration::from_millis(50), || false);
            println!("woken f1={} f2={}", c1.0.load(Ordering::SeqCst), c2.0.load(Ordering::SeqCst));
            println!("f1 {:?}", f1.as_mut().poll(&mut Context::from_waker(&w1)).map(|r| r.is_ok()));
            drop(f1);
            drop(f2);

            // S2 cancel poison: drain reads first
            let mut p = Pair::new().unwrap();
            let fd = PollFd::new(p.ours.take().unwrap()).unwrap();
            let tok = CancelToken::new();
            let (c1, w1) = count_waker();
            let (c2, w2) = count_waker();
            let mut f1 = Box::pin(fd.read_ready().with_cancel(tok.clone()).fail_fast());
            println!("c: f1 {:?}", f1.as_mut().poll(&mut Context::from_waker(&w1)).map(|r| format!("{r:?}")));
            settle(&rt, 3, Duration::from_millis(50), || false);
            tok.cancel();
            println!("c: woken f1={}", c1.0.load(Ordering::SeqCst));
            println!("c: f1 {:?}", f1.as_mut().poll(&mut Context::from_waker(&w1)).map(|r| format!("{r:?}")));
            drop(f1);
            settle(&rt, 3, Duration::from_millis(50), || false);
            let mut f2: Pin<Box<dyn Future<Output = std::io::Result<()>>>> = Box::pin(fd.read_ready());
            let r = f2.as_mut().poll(&mut Context::from_waker(&w2)).map(|r| format!("{r:?}"));
            println!("c: f2 {:?}", r);
            if r.is_pending() {
            settle(&rt, 3, Duration::from_millis(50), || false);
            println!("c: woken f2={}", c2.0.load(Ordering::SeqCst));
            println!("c: f2 {:?}", f2.as_mut().poll(&mut Context::from_waker(&w2)).map(|r| format!("{r:?}")));
            }
            let _ = &mut p;
        });
    }
}
