//! X02 free-running leg: several tasks on one runtime use one descriptor concurrently (a reader task and a writer
//! task on the same PollFd / on clones of one AsyncFd) against a peer thread that produces and consumes at a
//! seeded, irregular pace (the 4 KiB send buffer fills and drains many times). Contract only:
//!   both tasks finish (watchdog, else "hang"), the reader got exactly the peer's stream, the peer got exactly
//!   the writer's stream (position-coded: loss, duplication, reordering are visible).
//!
//! usage: stress_fd <seed> <runs per driver and fd type>
use std::{
    io::{Read, Write},
    os::{
        fd::{AsRawFd, OwnedFd},
        unix::net::UnixStream,
    },
    rc::Rc,
    sync::mpsc,
    time::Duration,
};

use compio_buf::BufResult;
use compio_runtime::fd::{AsyncFd, PollFd};
use hcore::out::{Report, panic_msg};
use hx02::{build_runtime, driver_of};
use rand::{RngExt, SeedableRng, rngs::StdRng};
use serde_json::json;

fn in_byte(i: usize) -> u8 {
    (i as u8).wrapping_mul(13) ^ ((i >> 8) as u8).wrapping_mul(7) ^ 0x33
}

fn out_byte(i: usize) -> u8 {
    (i as u8).wrapping_mul(29) ^ ((i >> 8) as u8).wrapping_mul(3) ^ 0xc4
}

struct Outcome {
    reader: Result<Vec<u8>, String>,
    writer: Result<usize, String>,
}

/// the compio side: runs on its own thread, returns what the two tasks saw
fn compio_side(drv: &str, fdkind: &str, ours: OwnedFd, n_out: usize, seed: u64) -> Result<Outcome, String> {
    let rt = build_runtime(driver_of(drv)).ok_or_else(|| "driver unavailable".to_string())?;
    let fdkind = fdkind.to_string();
    Ok(rt.block_on(async move {
        if fdkind == "pollfd" {
            use futures_util::{AsyncReadExt, AsyncWriteExt};
            let fd = Rc::new(PollFd::new(ours).expect("PollFd::new"));
            let rfd = fd.clone();
            let reader = compio_runtime::spawn(async move {
                let mut rng = StdRng::seed_from_u64(seed ^ 0x11);
                let mut got = Vec::new();
                let mut r: &PollFd<OwnedFd> = &rfd;
                loop {
                    let want = rng.random_range(1..=97usize);
                    let mut buf = vec![0u8; want];
                    match r.read(&mut buf).await {
                        Ok(0) => return Ok(got),
                        Ok(n) => got.extend_from_slice(&buf[..n]),
                        Err(e) => return Err(format!("read: {e:?}")),
                    }
                }
            });
            let wfd = fd.clone();
            let writer = compio_runtime::spawn(async move {
                let mut rng = StdRng::seed_from_u64(seed ^ 0x22);
                let mut w: &PollFd<OwnedFd> = &wfd;
                let mut pos = 0usize;
                while pos < n_out {
                    let len = rng.random_range(1..=700usize).min(n_out - pos);
                    let chunk: Vec<u8> = (pos..pos + len).map(out_byte).collect();
                    if let Err(e) = w.write_all(&chunk).await {
                        return Err(format!("write at {pos}: {e:?}"));
                    }
                    pos += len;
                }
                Ok(pos)
            });
            let reader = reader.await.unwrap_or_else(|e| Err(format!("reader task: {e:?}")));
            let writer = writer.await.unwrap_or_else(|e| Err(format!("writer task: {e:?}")));
            Outcome { reader, writer }
        } else {
            use compio_io::{AsyncRead, AsyncWriteExt};
            let fd = AsyncFd::new(ours).expect("AsyncFd::new");
            let rfd = fd.clone();
            let reader = compio_runtime::spawn(async move {
                let mut rng = StdRng::seed_from_u64(seed ^ 0x11);
                let mut got = Vec::new();
                let mut r = &rfd;
                loop {
                    let want = rng.random_range(1..=97usize);
                    let BufResult(res, buf) = r.read(Vec::with_capacity(want)).await;
                    match res {
                        Ok(0) => return Ok(got),
                        Ok(n) if n == buf.len() => got.extend_from_slice(&buf),
                        Ok(n) => return Err(format!("read reported {n}, buffer holds {}", buf.len())),
                        Err(e) => return Err(format!("read: {e:?}")),
                    }
                }
            });
            let wfd = fd.clone();
            let writer = compio_runtime::spawn(async move {
                let mut rng = StdRng::seed_from_u64(seed ^ 0x22);
                let mut w = &wfd;
                let mut pos = 0usize;
                while pos < n_out {
                    let len = rng.random_range(1..=700usize).min(n_out - pos);
                    let chunk: Vec<u8> = (pos..pos + len).map(out_byte).collect();
                    let BufResult(res, _) = w.write_all(chunk).await;
                    if let Err(e) = res {
                        return Err(format!("write at {pos}: {e:?}"));
                    }
                    pos += len;
                }
                Ok(pos)
            });
            let reader = reader.await.unwrap_or_else(|e| Err(format!("reader task: {e:?}")));
            let writer = writer.await.unwrap_or_else(|e| Err(format!("writer task: {e:?}")));
            Outcome { reader, writer }
        }
    }))
}

/// the peer: writes the in-stream in irregular chunks, reads the out-stream at an irregular pace
fn peer_side(mut peer: UnixStream, n_in: usize, n_out: usize, seed: u64) -> Result<Vec<u8>, String> {
    let mut rng = StdRng::seed_from_u64(seed ^ 0x33);
    peer.set_nonblocking(true).map_err(|e| e.to_string())?;
    let mut wpos = 0usize;
    let mut got = Vec::with_capacity(n_out);
    let mut shut = false;
    let mut idle = 0u64;
    while got.len() < n_out || !shut {
        let mut progressed = false;
        if wpos < n_in && rng.random_range(0..3) != 0 {
            let len = rng.random_range(1..=400usize).min(n_in - wpos);
            let chunk: Vec<u8> = (wpos..wpos + len).map(in_byte).collect();
            match peer.write(&chunk) {
                Ok(n) => {
                    wpos += n;
                    progressed = n > 0;
                }
                Err(e) if e.kind() == std::io::ErrorKind::WouldBlock => {}
                Err(e) => return Err(format!("peer write: {e}")),
            }
        } else if wpos >= n_in && !shut {
            peer.shutdown(std::net::Shutdown::Write).map_err(|e| e.to_string())?;
            shut = true;
            progressed = true;
        }
        if got.len() < n_out && rng.random_range(0..4) != 0 {
            let mut buf = vec![0u8; rng.random_range(1..=2048usize)];
            match peer.read(&mut buf) {
                Ok(0) => return Err(format!("peer: EOF after {} of {n_out} bytes", got.len())),
                Ok(n) => {
                    got.extend_from_slice(&buf[..n]);
                    progressed = true;
                }
                Err(e) if e.kind() == std::io::ErrorKind::WouldBlock => {}
                Err(e) => return Err(format!("peer read: {e}")),
            }
        }
        if progressed {
            idle = 0;
            if rng.random_range(0..8) == 0 {
                std::thread::sleep(Duration::from_micros(rng.random_range(20..300)));
            }
        } else {
            idle += 1;
            std::thread::sleep(Duration::from_micros(200));
            if idle > 600_000 {
                return Err(format!("peer: no progress (wrote {wpos}/{n_in}, read {}/{n_out})", got.len()));
            }
        }
    }
    Ok(got)
}

fn first_diff(a: &[u8], f: impl Fn(usize) -> u8, n: usize) -> Option<String> {
    if let Some(i) = (0..a.len().min(n)).find(|&i| a[i] != f(i)) {
        return Some(format!("first wrong byte at {i} of {n} (got {} bytes)", a.len()));
    }
    if a.len() != n {
        return Some(format!("{} bytes instead of {n}", a.len()));
    }
    None
}

fn main() {
    let args: Vec<String> = std::env::args().collect();
    let seed: u64 = args.get(1).and_then(|s| s.parse().ok()).unwrap_or(1);
    let runs: u64 = args.get(2).and_then(|s| s.parse().ok()).unwrap_or(5);
    hcore::out::silence_panics();
    let mut rep = Report::new();
    let mut hangs = 0u32;
    let mut per = serde_json::Map::new();
    'outer: for drv in ["iour", "poll"] {
        if build_runtime(driver_of(drv)).is_none() {
            per.insert(drv.into(), json!("unavailable"));
            continue;
        }
        for fdkind in ["pollfd", "asyncfd"] {
            let mut done = 0u64;
            for k in 0..runs {
                let s = seed.wrapping_mul(1000003).wrapping_add(k);
                let case = json!({"driver": drv, "fd": fdkind, "seed": s});
                let sig = |c: &str| json!({"check": c, "leg": "stress", "fd": fdkind, "driver": drv});
                let n_in = 3000 + (s % 2000) as usize;
                let n_out = 12000 + (s % 9000) as usize;
                let (a, b) = UnixStream::pair().expect("socketpair");
                let sz: libc::c_int = 4096;
                unsafe {
                    libc::setsockopt(a.as_raw_fd(), libc::SOL_SOCKET, libc::SO_SNDBUF, &sz as *const _ as *const libc::c_void, 4);
                }
                let ours: OwnedFd = a.into();
                let (tx, rx) = mpsc::channel();
                let tx2 = tx.clone();
                let (d, f) = (drv.to_string(), fdkind.to_string());
                std::thread::spawn(move || {
                    let r = std::panic::catch_unwind(std::panic::AssertUnwindSafe(|| compio_side(&d, &f, ours, n_out, s)));
                    let _ = tx.send((0, r.map_err(panic_msg).and_then(|x| x).map(Some), None));
                });
                std::thread::spawn(move || {
                    let r = peer_side(b, n_in, n_out, s);
                    let _ = tx2.send((1, Ok(None), Some(r)));
                });
                let mut outcome = None;
                let mut peer_got = None;
                let mut failed = false;
                for _ in 0..2 {
                    match rx.recv_timeout(Duration::from_secs(120)) {
                        Ok((0, Ok(o), _)) => outcome = o,
                        Ok((0, Err(m), _)) => {
                            rep.problem("panic", sig("panic"), m, &case, 0);
                            failed = true;
                        }
                        Ok((_, _, Some(p))) => peer_got = Some(p),
                        Ok(_) => {}
                        Err(_) => {
                            rep.problem("hang", sig("hang"), "reader and writer task did not finish within 120 s (lost wake-up)".into(), &case, 0);
                            hangs += 1;
                            failed = true;
                            break;
                        }
                    }
                }
                rep.cases += 1;
                done += 1;
                if hangs >= 2 {
                    break 'outer;
                }
                if failed {
                    continue;
                }
                if let Some(o) = outcome {
                    match o.reader {
                        Ok(got) => {
                            if let Some(d) = first_diff(&got, in_byte, n_in) {
                                rep.problem("contract", sig("read_fifo"), format!("reader task: {d}"), &case, 0);
                            }
                            rep.steps += got.len() as u64;
                        }
                        Err(m) => rep.problem("contract", sig("read_error"), m, &case, 0),
                    }
                    match o.writer {
                        Ok(n) => rep.steps += n as u64,
                        Err(m) => rep.problem("contract", sig("write_error"), m, &case, 0),
                    }
                }
                match peer_got {
                    Some(Ok(got)) => {
                        if let Some(d) = first_diff(&got, out_byte, n_out) {
                            rep.problem("contract", sig("write_fifo"), format!("peer: {d}"), &case, 0);
                        }
                    }
                    Some(Err(m)) => rep.problem("contract", sig("peer"), m, &case, 0),
                    None => {}
                }
            }
            per.insert(format!("{drv}/{fdkind}"), json!(done));
        }
    }
    rep.set("runs", serde_json::Value::Object(per));
    rep.finish();
    if hangs > 0 {
        // stuck threads cannot be joined
        std::process::exit(0);
    }
}
