//! extension harness hx04
