//! extension harness hx04: operation futures and combinators of compio-runtime (check X04).
//!
//! A case is one root (outer combinator chain around a join of branches, each branch an inner chain around a
//! leaf) plus the harness steps TLC generated for it (spec/Gen_OpFut.tla) with the model's expectation after
//! every step. The root is polled by hand with a counting waker inside `Runtime::enter`, the driver is polled
//! by hand, completions are caused by the harness (bytes on a socket pair, connections to a listener).
pub mod leaf;
pub mod root;

use std::{
    os::fd::{AsRawFd, FromRawFd, OwnedFd},
    sync::{
        Arc,
        atomic::{AtomicUsize, Ordering},
    },
    task::{Context, Poll, Wake, Waker},
};

use compio_runtime::CancelToken;

/// Root waker: counts every wake, from any thread.
pub struct CountWaker(pub AtomicUsize);

impl Wake for CountWaker {
    fn wake(self: Arc<Self>) {
        self.0.fetch_add(1, Ordering::SeqCst);
    }

    fn wake_by_ref(self: &Arc<Self>) {
        self.0.fetch_add(1, Ordering::SeqCst);
    }
}

pub fn count_waker() -> (Arc<CountWaker>, Waker) {
    let cw = Arc::new(CountWaker(AtomicUsize::new(0)));
    let w = Waker::from(cw.clone());
    (cw, w)
}

pub fn socketpair() -> (OwnedFd, OwnedFd) {
    let mut fds = [0i32; 2];
    let r = unsafe {
        libc::socketpair(
            libc::AF_UNIX,
            libc::SOCK_STREAM | libc::SOCK_NONBLOCK | libc::SOCK_CLOEXEC,
            0,
            fds.as_mut_ptr(),
        )
    };
    assert_eq!(r, 0, "socketpair failed");
    unsafe { (OwnedFd::from_raw_fd(fds[0]), OwnedFd::from_raw_fd(fds[1])) }
}

pub fn write_all(fd: &OwnedFd, data: &[u8]) -> bool {
    let n = unsafe { libc::write(fd.as_raw_fd(), data.as_ptr() as _, data.len()) };
    n == data.len() as isize
}

/// Bytes waiting unread in the receive queue of a socket.
pub fn unread(fd: &OwnedFd) -> i32 {
    let mut n: libc::c_int = 0;
    let r = unsafe { libc::ioctl(fd.as_raw_fd(), libc::FIONREAD, &mut n) };
    if r != 0 { -1 } else { n }
}

/// The cancel token the given context carries, as an index into `toks` (0 = none, 9 = an unknown token).
/// `CancelToken::current()` is the public reading of `ContextExt::get_cancel`.
pub fn seen_token(waker: &Waker, toks: &[CancelToken; 2]) -> i64 {
    let mut cx = Context::from_waker(waker);
    let mut f = std::pin::pin!(CancelToken::current());
    match f.as_mut().poll(&mut cx) {
        Poll::Ready(Some(t)) => {
            if t == toks[0] {
                1
            } else if t == toks[1] {
                2
            } else {
                9
            }
        }
        Poll::Ready(None) => 0,
        Poll::Pending => -9,
    }
}

/// Same question asked on a thread that does not own the runtime: only "some / none" can be answered there
/// (a token must never show up on a foreign thread).
pub fn sees_some_token(waker: &Waker) -> bool {
    let mut cx = Context::from_waker(waker);
    let mut f = std::pin::pin!(CancelToken::current());
    match f.as_mut().poll(&mut cx) {
        Poll::Ready(Some(t)) => {
            // the token is an Rc of the runtime thread: never drop it here
            std::mem::forget(t);
            true
        }
        _ => false,
    }
}

/// Classification of an operation result in the vocabulary of the model.
pub fn classify(r: &std::io::Result<usize>) -> String {
    match r {
        Ok(_) => "ok".into(),
        Err(e) => match e.raw_os_error() {
            Some(libc::ECANCELED) => "canc".into(),
            Some(libc::EINVAL) => "einval".into(),
            Some(c) => format!("err{c}"),
            None => format!("err:{:?}", e.kind()),
        },
    }
}

/// Innermost token / personality of a path of wrapper names ("C1" "F2" "P1" ...), 0 = none.
pub fn vis_tok(path: &[String]) -> i64 {
    path.iter().rev().find(|w| !w.starts_with('P')).map(|w| wid(w)).unwrap_or(0)
}

pub fn vis_pers(path: &[String]) -> i64 {
    path.iter().rev().find(|w| w.starts_with('P')).map(|w| wid(w)).unwrap_or(0)
}

pub fn wid(w: &str) -> i64 {
    if w.ends_with('1') { 1 } else { 2 }
}

/// The personality id that is never registered with the ring.
pub const BAD_PERSONALITY: u16 = 777;
