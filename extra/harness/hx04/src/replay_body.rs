use std::{
    cell::RefCell,
    collections::BTreeMap,
    os::{
        fd::{AsRawFd, OwnedFd},
        linux::net::SocketAddrExt,
        unix::net::{SocketAddr, UnixListener, UnixStream},
    },
    panic::{AssertUnwindSafe, catch_unwind},
    rc::Rc,
    sync::{Arc, atomic::Ordering, mpsc},
    task::{Context, Poll},
    time::{Duration, Instant},
};

use compio_driver::{
    DriverType, ProactorBuilder, SharedFd,
    op::{AcceptMulti, Recv, RecvMulti},
};
use compio_runtime::{CancelToken, Runtime};
use hcore::out::{Report, panic_msg};
use hx04::{
    BAD_PERSONALITY, count_waker,
    leaf::{Item, LeafAm, LeafEnv, LeafMg, LeafObs, LeafPr, LeafSb, LeafSx, ObsCell, Out},
    root::{BoxFut, BrPoll, Branch, JoinN, Shared, Wrappers, wrap_future, wrap_stream},
    socketpair, unread, vis_pers, vis_tok, wid, write_all,
};
use rustix::net::RecvFlags;
use serde::Deserialize;
use serde_json::{Value, json};

/// A whole case must return within this (the steps have their own, shorter watchdog).
const CASE_TIMEOUT: Duration = Duration::from_secs(120);
/// How long a step waits for the wake-ups the model promises.
const WAKE_TIMEOUT: Duration = Duration::from_secs(25);

/// Steps that waited for promised wake-ups in vain (whole run).
static HANGS: std::sync::atomic::AtomicUsize = std::sync::atomic::AtomicUsize::new(0);

enum Msg {
    Start(usize),
    Problem { ty: String, sig: Value, desc: String, idx: usize, step: usize },
    Stat(String, u64),
    Done { steps: u64 },
    Fatal(String),
}

#[derive(Deserialize, Debug, Clone)]
struct BrSpec {
    c: Vec<String>,
    l: String,
}

#[derive(Deserialize, Debug, Clone)]
struct Exp {
    r: String,
    v: String,
    n: i64,
    seen: i64,
    lp: bool,
    px: i64,
    dw: usize,
    tm: Vec<String>,
    fin: String,
}

#[derive(Deserialize, Debug, Clone)]
struct Step {
    a: String,
    b: i64,
    x: Exp,
}

#[derive(Deserialize, Debug, Clone)]
struct Case {
    drv: String,
    o: Vec<String>,
    b: Vec<BrSpec>,
    steps: Vec<Step>,
}

/// Harness-side state of one branch.
struct BrRt {
    kind: String,
    /// outer chain followed by the branch's own chain, outermost first
    path: Vec<String>,
    obs: ObsCell,
    /// the harness' end of the socket pair
    peer: Option<OwnedFd>,
    /// a duplicate of the operation's descriptor (receive side / listener), never read by the harness
    opdup: Option<OwnedFd>,
    addr: Option<SocketAddr>,
    clients: Vec<UnixStream>,
    fed: Vec<u8>,
    delivered: usize,
    nfeed: u8,
    conns: usize,
    items_ok: usize,
    polled_ever: bool,
    saw_end: bool,
    final_seen: bool,
    ffitem_seen: bool,
}

impl BrRt {
    fn has_ff(&self) -> bool {
        self.path.iter().any(|w| w.starts_with('F'))
    }
}

struct Sink<'a> {
    tx: &'a mpsc::Sender<Msg>,
    idx: usize,
}

impl Sink<'_> {
    fn problem(&self, ty: &str, sig: Value, desc: String, step: usize) {
        let _ = self.tx.send(Msg::Problem { ty: ty.into(), sig, desc, idx: self.idx, step });
    }

    fn stat(&self, k: &str, v: u64) {
        let _ = self.tx.send(Msg::Stat(k.into(), v));
    }
}

fn drive_once(rt: &Runtime) {
    rt.poll_with(Some(Duration::ZERO));
}

include!("replay_case.rs");
