fn guard<T>(f: impl FnOnce() -> T) -> Result<T, String> {
    catch_unwind(AssertUnwindSafe(f)).map_err(panic_msg)
}

struct Built {
    root: BoxFut,
    brs: Vec<BrRt>,
}

/// Construct the root of the case out of the real futures / streams and combinators.
fn build_root(idx: usize, case: &Case, rt: &Runtime, iour: bool, toks: &[CancelToken; 2], pers: [u16; 2], shared: &Rc<RefCell<Shared>>) -> Result<Built, String> {
    let w = Wrappers { toks, pers };
    let mut brs = vec![];
    let mut branches = vec![];
    for (bi, spec) in case.b.iter().enumerate() {
        let obs: ObsCell = Rc::new(RefCell::new(LeafObs::default()));
        let env = LeafEnv { toks: toks.clone(), obs: obs.clone(), iour, p1: if iour { pers[0] } else { 0 } };
        let mut path = case.o.clone();
        path.extend(spec.c.iter().cloned());
        let mut rtb = BrRt {
            kind: spec.l.clone(),
            path,
            obs,
            peer: None,
            opdup: None,
            addr: None,
            clients: vec![],
            fed: vec![],
            delivered: 0,
            nfeed: 0,
            conns: 0,
            items_ok: 0,
            polled_ever: false,
            saw_end: false,
            final_seen: false,
            ffitem_seen: false,
        };
        let concrete = spec.c.is_empty();
        let branch = match spec.l.as_str() {
            "sb" | "sx" => {
                let (a, b) = socketpair();
                rtb.opdup = Some(a.try_clone().map_err(|e| format!("dup: {e}"))?);
                rtb.peer = Some(b);
                let op = Recv::new(SharedFd::new(a), Vec::<u8>::with_capacity(64), RecvFlags::empty());
                if spec.l == "sb" {
                    let leaf = Box::pin(LeafSb { fut: compio_runtime::submit(op), env });
                    if concrete { Branch::Sb(leaf) } else { Branch::Fut(wrap_future(leaf, &spec.c, &w)) }
                } else {
                    let leaf = Box::pin(LeafSx { fut: compio_runtime::submit(op).with_extra(), env });
                    if concrete { Branch::Sx(leaf) } else { Branch::Fut(wrap_future(leaf, &spec.c, &w)) }
                }
            }
            "am" => {
                let name = format!("x04-{}-{}-{}", std::process::id(), idx, bi);
                let addr = SocketAddr::from_abstract_name(name.as_bytes()).map_err(|e| format!("addr: {e}"))?;
                let l = UnixListener::bind_addr(&addr).map_err(|e| format!("bind: {e}"))?;
                l.set_nonblocking(true).map_err(|e| format!("nonblocking: {e}"))?;
                let lfd = OwnedFd::from(l);
                rtb.opdup = Some(lfd.try_clone().map_err(|e| format!("dup: {e}"))?);
                rtb.addr = Some(addr);
                let st = compio_runtime::submit_multi(AcceptMulti::new(SharedFd::new(lfd)));
                let leaf = Box::pin(LeafAm { st: Some(st), env });
                if concrete { Branch::Am(leaf) } else { Branch::Str(wrap_stream(leaf, &spec.c, &w)) }
            }
            "mg" => {
                let (a, b) = socketpair();
                rtb.opdup = Some(a.try_clone().map_err(|e| format!("dup: {e}"))?);
                rtb.peer = Some(b);
                let pool = rt.buffer_pool().map_err(|e| format!("buffer pool: {e}"))?;
                let op = RecvMulti::new(SharedFd::new(a), &pool, 0, RecvFlags::empty()).map_err(|e| format!("RecvMulti::new: {e}"))?;
                let st = compio_runtime::submit_multi(op).into_managed(pool);
                let leaf = Box::pin(LeafMg { st, env });
                if concrete { Branch::Mg(leaf) } else { Branch::Str(wrap_stream(leaf, &spec.c, &w)) }
            }
            "pr" => {
                let leaf = Box::pin(LeafPr { env });
                if concrete { Branch::Pr(leaf) } else { Branch::Fut(wrap_future(leaf, &spec.c, &w)) }
            }
            other => return Err(format!("unknown leaf {other}")),
        };
        brs.push(rtb);
        branches.push(branch);
    }
    shared.borrow_mut().branches = branches;
    let root = wrap_future(Box::pin(JoinN(shared.clone())), &case.o, &w);
    Ok(Built { root, brs })
}

/// What one poll of the root showed, in the vocabulary of the model.
#[derive(Debug, Clone)]
struct PollObs {
    r: String,
    v: String,
    n: i64,
    data: Vec<u8>,
    seen: i64,
    lp: bool,
    polls: u32,
    px: i64,
    fin: &'static str,
}

fn poll_root(root: &mut Option<BoxFut>, shared: &Rc<RefCell<Shared>>, brs: &[BrRt], b: usize, waker: &std::task::Waker) -> PollObs {
    {
        let mut sh = shared.borrow_mut();
        sh.sel = b;
        sh.last = None;
    }
    for br in brs {
        *br.obs.borrow_mut() = LeafObs::default();
    }
    let mut cx = Context::from_waker(waker);
    let res = guard(|| root.as_mut().expect("root").as_mut().poll(&mut cx));
    let mut o = PollObs { r: "-".into(), v: "-".into(), n: 0, data: vec![], seen: 0, lp: false, polls: 0, px: -1, fin: "live" };
    {
        let ob = brs[b].obs.borrow();
        o.polls = ob.polled;
        o.lp = ob.polled > 0;
        o.seen = if o.lp { ob.seen } else { 0 };
    }
    let last = shared.try_borrow_mut().ok().and_then(|mut s| s.last.take());
    match res {
        Err(msg) => {
            o.r = "panic".into();
            o.v = msg;
            return o;
        }
        Ok(Poll::Ready(Out::FF)) => {
            o.r = "ffroot".into();
            o.fin = "done";
            return o;
        }
        Ok(Poll::Ready(_)) => o.fin = "done",
        Ok(Poll::Pending) => {}
    }
    let units = |kind: &str, n: usize| -> i64 { if kind == "am" { n as i64 } else { (n / 4) as i64 } };
    match last {
        None => o.r = "nopoll".into(),
        Some(BrPoll::Pending) => o.r = "pend".into(),
        Some(BrPoll::End) => o.r = "end".into(),
        Some(BrPoll::Out(Out::FF)) => o.r = "ffbr".into(),
        Some(BrPoll::Item(Item::FF)) => o.r = "ffitem".into(),
        Some(BrPoll::Out(Out::Unit)) => o.r = "unit".into(),
        Some(BrPoll::Out(Out::Res { v, n, data, px })) => {
            o.r = "out".into();
            o.n = units(&brs[b].kind, n);
            o.v = v;
            o.data = data;
            o.px = px;
        }
        Some(BrPoll::Item(Item::Res { v, n, data })) => {
            o.r = "item".into();
            o.n = units(&brs[b].kind, n);
            o.v = v;
            o.data = data;
        }
    }
    o
}

include!("replay_steps.rs");
include!("replay_run.rs");
