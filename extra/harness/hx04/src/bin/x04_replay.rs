//! X04 replay: TLC-generated behaviours of spec/Gen_OpFut.tla stepped through the real Submit / SubmitMulti /
//! SubmitMultiManaged futures and the real with_cancel / fail_fast / with_personality combinators of
//! compio-runtime, on both drivers. After every step the observation is compared with the model's expectation
//! (difference = `mismatch`, spec drift) and, independently of the model, the property's own predicates are
//! evaluated on the real observation (`contract`); panics and missing wake-ups are data.
//!
//! usage: x04_replay <cases.jsonl> [--from N]
include!("../replay_body.rs");

fn main() {
    hcore::out::silence_panics();
    let args: Vec<String> = std::env::args().collect();
    let path = args.get(1).expect("usage: x04_replay <cases.jsonl> [--from N]").clone();
    let from: usize = args.iter().position(|a| a == "--from").and_then(|i| args.get(i + 1)).and_then(|s| s.parse().ok()).unwrap_or(0);
    let text = std::fs::read_to_string(&path).unwrap_or_else(|e| panic!("open {path}: {e}"));
    let raws: Arc<Vec<Value>> = Arc::new(text.lines().filter(|l| !l.trim().is_empty()).map(|l| serde_json::from_str(l).expect("bad json line")).collect());
    let mut rep = Report::new();
    let mut stats: BTreeMap<String, u64> = BTreeMap::new();
    let mut next = from;
    let mut fatal: Option<String> = None;
    let mut abandoned = 0u64;
    'outer: while next < raws.len() {
        let (tx, rx) = mpsc::channel::<Msg>();
        let raws2 = raws.clone();
        let start = next;
        // the code under test runs on a worker thread: a poll that never returns is reported and abandoned
        std::thread::Builder::new()
            .name(format!("x04-worker-{start}"))
            .spawn(move || {
                for i in start..raws2.len() {
                    if tx.send(Msg::Start(i)).is_err() {
                        return;
                    }
                    let raw = &raws2[i];
                    let r = catch_unwind(AssertUnwindSafe(|| run_case(i, raw, &tx)));
                    let steps = match r {
                        Ok(Ok(s)) => s,
                        Ok(Err(f)) => {
                            let _ = tx.send(Msg::Fatal(f));
                            return;
                        }
                        Err(e) => {
                            let _ = tx.send(Msg::Problem {
                                ty: "panic".into(),
                                sig: json!({"kind": "harness_case_panic"}),
                                desc: format!("panic outside a guarded step: {}", panic_msg(e)),
                                idx: i,
                                step: 0,
                            });
                            0
                        }
                    };
                    if tx.send(Msg::Done { steps }).is_err() {
                        return;
                    }
                }
            })
            .expect("spawn worker");
        let mut cur = start;
        loop {
            match rx.recv_timeout(CASE_TIMEOUT) {
                Ok(Msg::Start(i)) => {
                    cur = i;
                    eprintln!("case {i}");
                }
                Ok(Msg::Problem { ty, sig, desc, idx, step }) => rep.problem(&ty, sig, desc, &raws[idx], step),
                Ok(Msg::Stat(k, v)) => *stats.entry(k).or_insert(0) += v,
                Ok(Msg::Done { steps }) => {
                    rep.cases += 1;
                    rep.steps += steps;
                    next = cur + 1;
                    if next >= raws.len() {
                        break 'outer;
                    }
                }
                Ok(Msg::Fatal(f)) => {
                    fatal = Some(f);
                    break 'outer;
                }
                Err(mpsc::RecvTimeoutError::Timeout) => {
                    rep.problem(
                        "hang",
                        json!({"kind": "case_never_returned"}),
                        format!("case {cur} did not return within {CASE_TIMEOUT:?}: a poll or a drop of the code under test blocks"),
                        &raws[cur],
                        0,
                    );
                    rep.cases += 1;
                    abandoned += 1;
                    next = cur + 1;
                    if abandoned >= 8 {
                        fatal = Some("too many abandoned worker threads".into());
                        break 'outer;
                    }
                    continue 'outer;
                }
                Err(mpsc::RecvTimeoutError::Disconnected) => {
                    // the worker died without a message (should not happen: every case is guarded)
                    rep.problem("panic", json!({"kind": "worker_died"}), format!("worker died in case {cur}"), &raws[cur], 0);
                    rep.cases += 1;
                    next = cur + 1;
                    continue 'outer;
                }
            }
        }
    }
    for (k, v) in stats {
        rep.set(&k, json!(v));
    }
    rep.set("abandoned_workers", json!(abandoned));
    if let Some(f) = &fatal {
        rep.set("fatal", json!(f));
    }
    rep.finish();
    if fatal.is_some() {
        std::process::exit(3);
    }
    // abandoned workers may still be blocked inside the code under test
    std::process::exit(0);
}
