// temporary exploration binary (deleted before delivery)
use std::{
    future::Future,
    os::fd::{AsRawFd, FromRawFd, OwnedFd},
    pin::Pin,
    sync::{
        Arc,
        atomic::{AtomicUsize, Ordering},
    },
    task::{Context, Poll, Wake, Waker},
    time::Duration,
};

use compio_buf::BufResult;
use compio_driver::{
    DriverType, ProactorBuilder, SharedFd,
    op::{AcceptMulti, Recv, RecvMulti},
};
use compio_runtime::{CancelToken, FutureExt, Runtime, StreamExt as _};
use futures_util::{Stream, stream::FusedStream};
use rustix::net::RecvFlags;

struct CW(AtomicUsize);
impl Wake for CW {
    fn wake(self: Arc<Self>) {
        self.0.fetch_add(1, Ordering::SeqCst);
    }
    fn wake_by_ref(self: &Arc<Self>) {
        self.0.fetch_add(1, Ordering::SeqCst);
    }
}

fn socketpair() -> (OwnedFd, OwnedFd) {
    let mut fds = [0i32; 2];
    let r = unsafe { libc::socketpair(libc::AF_UNIX, libc::SOCK_STREAM | libc::SOCK_NONBLOCK | libc::SOCK_CLOEXEC, 0, fds.as_mut_ptr()) };
    assert_eq!(r, 0);
    unsafe { (OwnedFd::from_raw_fd(fds[0]), OwnedFd::from_raw_fd(fds[1])) }
}

fn drive(rt: &Runtime, n: usize) {
    for _ in 0..n {
        rt.poll_with(Some(Duration::from_millis(5)));
    }
}

fn show<T: std::fmt::Debug>(tag: &str, p: Poll<T>) {
    println!("  {tag}: {p:?}");
}

fn main() {
    for poll in [false, true] {
        println!("=== driver {}", if poll { "poll" } else { "iour" });
        let mut pb = ProactorBuilder::new();
        pb.driver_type(if poll { DriverType::Poll } else { DriverType::IoUring });
        let rt = Runtime::builder().with_proactor(pb).build().unwrap();
        let cw = Arc::new(CW(AtomicUsize::new(0)));
        let waker = Waker::from(cw.clone());
        let mut cx = Context::from_waker(&waker);
        rt.enter(|| {
            // E1: fail_fast on a pre-cancelled token
            {
                let t = CancelToken::new();
                t.clone().cancel();
                let mut f = Box::pin(std::future::pending::<()>().with_cancel(t.clone()).fail_fast());
                show("E1 pre-cancelled fail_fast first poll", f.as_mut().poll(&mut cx));
                show("E1 second poll", f.as_mut().poll(&mut cx));
                t.clone().cancel();
                show("E1 after 2nd cancel()", f.as_mut().poll(&mut cx));
            }
            // E1b: fail_fast, cancel after
            {
                let t = CancelToken::new();
                let mut f = Box::pin(std::future::pending::<()>().with_cancel(t.clone()).fail_fast());
                show("E1b first poll", f.as_mut().poll(&mut cx));
                let w0 = cw.0.load(Ordering::SeqCst);
                t.clone().cancel();
                println!("  E1b wakes by cancel: {}", cw.0.load(Ordering::SeqCst) - w0);
                show("E1b after cancel", f.as_mut().poll(&mut cx));
            }
            // E3: Recv on socketpair
            for prefed in [false, true] {
                for cancel in [false, true] {
                    let (a, b) = socketpair();
                    let t = CancelToken::new();
                    if prefed {
                        unsafe { libc::write(b.as_raw_fd(), b"abcd".as_ptr() as _, 4) };
                    }
                    let op = Recv::new(SharedFd::new(a), Vec::<u8>::with_capacity(8), RecvFlags::empty());
                    let mut f = Box::pin(compio_runtime::submit(op).with_extra().with_cancel(t.clone()));
                    let r = f.as_mut().poll(&mut cx);
                    println!("  E3 prefed={prefed} cancel={cancel} first poll ready={}", r.is_ready());
                    if r.is_pending() {
                        if cancel {
                            t.clone().cancel();
                        } else if !prefed {
                            unsafe { libc::write(b.as_raw_fd(), b"wxyz".as_ptr() as _, 4) };
                        }
                        drive(&rt, 3);
                        match f.as_mut().poll(&mut cx) {
                            Poll::Ready((BufResult(r, op), extra)) => {
                                println!("    second poll ready: {:?} pers={:?} buf={:?}", r, extra.get_personality(), {
                                    use compio_buf::IntoInner;
                                    op.into_inner()
                                })
                            }
                            Poll::Pending => println!("    second poll pending"),
                        }
                    }
                }
            }
            // E6: personality
            {
                let p = rt.register_personality();
                println!("  E6 register_personality: {p:?}");
                for pers in [p.as_ref().ok().copied().unwrap_or(1), 777u16] {
                    let (a, b) = socketpair();
                    unsafe { libc::write(b.as_raw_fd(), b"abcd".as_ptr() as _, 4) };
                    let op = Recv::new(SharedFd::new(a), Vec::<u8>::with_capacity(8), RecvFlags::empty());
                    let mut f = Box::pin(compio_runtime::submit(op).with_extra().with_personality(pers));
                    let mut r = f.as_mut().poll(&mut cx);
                    if r.is_pending() {
                        drive(&rt, 3);
                        r = f.as_mut().poll(&mut cx);
                    }
                    match r {
                        Poll::Ready((BufResult(r, _), extra)) => println!("    pers {pers}: {:?} extra.pers={:?}", r, extra.get_personality()),
                        Poll::Pending => println!("    pers {pers}: pending"),
                    }
                }
            }
            // E4: AcceptMulti
            {
                let path = std::env::temp_dir().join(format!("x04probe_{}_{}.sock", std::process::id(), poll));
                let _ = std::fs::remove_file(&path);
                let l = std::os::unix::net::UnixListener::bind(&path).unwrap();
                l.set_nonblocking(true).unwrap();
                let t = CancelToken::new();
                let mut st = Box::pin(compio_runtime::submit_multi(AcceptMulti::new(SharedFd::new(l))));
                println!("  E4 term0={}", st.is_terminated());
                let mut stc = Box::pin(futures_util::stream::pending::<()>());
                let _ = &mut stc;
                show("E4 first poll", st.as_mut().poll_next(&mut cx).map(|o| o.map(|BufResult(r, _)| r)));
                let c1 = std::os::unix::net::UnixStream::connect(&path).unwrap();
                let c2 = std::os::unix::net::UnixStream::connect(&path).unwrap();
                drive(&rt, 3);
                for i in 0..3 {
                    show(&format!("E4 poll {i}"), st.as_mut().poll_next(&mut cx).map(|o| o.map(|BufResult(r, _)| r)));
                    println!("    term={}", st.is_terminated());
                }
                drop((c1, c2, t));
                drop(st);
                drive(&rt, 3);
                let _ = std::fs::remove_file(&path);
            }
            // E4b: AcceptMulti under with_cancel, cancel while pending, then repoll; fail-fast stream repoll
            {
                let path = std::env::temp_dir().join(format!("x04probe_{}_{}b.sock", std::process::id(), poll));
                let _ = std::fs::remove_file(&path);
                let l = std::os::unix::net::UnixListener::bind(&path).unwrap();
                l.set_nonblocking(true).unwrap();
                let t = CancelToken::new();
                let mut st = Box::pin(compio_runtime::submit_multi(AcceptMulti::new(SharedFd::new(l))).with_cancel(t.clone()));
                show("E4b first poll", st.as_mut().poll_next(&mut cx).map(|o| o.map(|BufResult(r, _)| r)));
                t.clone().cancel();
                drive(&rt, 3);
                for i in 0..3 {
                    show(&format!("E4b poll {i}"), st.as_mut().poll_next(&mut cx).map(|o| o.map(|BufResult(r, _)| r)));
                }
                let _ = std::fs::remove_file(&path);
            }
            {
                let t = CancelToken::new();
                let mut st = Box::pin(futures_util::stream::pending::<()>().with_cancel(t.clone()).fail_fast());
                show("E2 ff stream first", st.as_mut().poll_next(&mut cx));
                t.clone().cancel();
                show("E2 ff stream after cancel", st.as_mut().poll_next(&mut cx));
                let r = std::panic::catch_unwind(std::panic::AssertUnwindSafe(|| st.as_mut().poll_next(&mut cx)));
                println!("  E2 ff stream re-poll: {:?}", r.map_err(|e| hcore::out::panic_msg(e)));
            }
            // E5: RecvMulti managed
            for mode in ["data_eof", "cancel"] {
                let (a, b) = socketpair();
                let pool = rt.buffer_pool().unwrap();
                let t = CancelToken::new();
                let op = RecvMulti::new(SharedFd::new(a), &pool, 0, RecvFlags::empty()).unwrap();
                let mut st = Box::pin(compio_runtime::submit_multi(op).into_managed(pool.clone()).with_cancel(t.clone()));
                let f = |o: Option<std::io::Result<Option<compio_driver::BufferRef>>>| o.map(|r| r.map(|b| b.map(|b| b.to_vec())));
                show(&format!("E5 {mode} first"), st.as_mut().poll_next(&mut cx).map(f));
                if mode == "data_eof" {
                    unsafe { libc::write(b.as_raw_fd(), b"abcd".as_ptr() as _, 4) };
                    drive(&rt, 3);
                    show("E5 after data", st.as_mut().poll_next(&mut cx).map(f));
                    show("E5 again", st.as_mut().poll_next(&mut cx).map(f));
                    unsafe { libc::write(b.as_raw_fd(), b"efgh".as_ptr() as _, 4) };
                    drive(&rt, 3);
                    show("E5 after data2", st.as_mut().poll_next(&mut cx).map(f));
                    drop(b);
                    drive(&rt, 3);
                    for i in 0..3 {
                        show(&format!("E5 after eof {i}"), st.as_mut().poll_next(&mut cx).map(f));
                    }
                } else {
                    t.clone().cancel();
                    drive(&rt, 3);
                    for i in 0..3 {
                        show(&format!("E5 after cancel {i}"), st.as_mut().poll_next(&mut cx).map(f));
                    }
                }
            }
        });
    }
}
