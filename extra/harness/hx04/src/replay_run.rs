fn run_case(idx: usize, raw: &Value, tx: &mpsc::Sender<Msg>) -> Result<u64, String> {
    let case: Case = serde_json::from_value(raw.clone()).map_err(|e| format!("bad case {idx}: {e}"))?;
    let sink = Sink { tx, idx };
    let iour = case.drv == "iour";
    let mut pb = ProactorBuilder::new();
    pb.driver_type(if iour { DriverType::IoUring } else { DriverType::Poll }).capacity(16);
    let rt = Runtime::builder().with_proactor(pb).build().map_err(|e| format!("runtime ({}): {e}", case.drv))?;
    let r = rt.enter(|| case_body(idx, &case, &rt, iour, &sink));
    let _ = guard(|| drive_once(&rt));
    let _ = guard(move || drop(rt));
    r
}

fn case_body(idx: usize, case: &Case, rt: &Runtime, iour: bool, sink: &Sink<'_>) -> Result<u64, String> {
    let toks = [CancelToken::new(), CancelToken::new()];
    let uses_p1 = case.o.iter().chain(case.b.iter().flat_map(|b| b.c.iter())).any(|w| w == "P1");
    let p1 = if iour && uses_p1 { rt.register_personality().map_err(|e| format!("register_personality: {e}"))? } else { 1 };
    if p1 == BAD_PERSONALITY {
        return Err("the ring handed out the id reserved for the unregistered personality".into());
    }
    let pers = [p1, BAD_PERSONALITY];
    let (cw, waker) = count_waker();
    let shared = Rc::new(RefCell::new(Shared { branches: vec![], sel: 0, last: None }));
    let mut root: Option<BoxFut> = None;
    let mut brs: Vec<BrRt> = vec![];
    let mut cancelled_pre = [false; 2];
    let mut cancelled_post = [false; 2];
    let mut built = false;
    let mut wk_total = 0usize;
    let mut fin: &'static str = "live";
    let mut steps_done = 0u64;
    let mism = |si: usize, field: &str, a: &str, leaf: &str, want: String, got: String| {
        sink.problem("mismatch", json!({"field": field, "a": a, "leaf": leaf, "drv": case.drv}),
            format!("step {si} ({a}): model expects {field} = {want}, the implementation shows {got}"), si);
    };
    'steps: for (si, step) in case.steps.iter().enumerate() {
        let x = &step.x;
        let mut leaf = String::new();
        let mut abort = false;
        match step.a.as_str() {
            "cancel" => {
                let t = (step.b - 1) as usize;
                if let Err(msg) = guard(|| toks[t].clone().cancel()) {
                    sink.problem("panic", json!({"kind": "panic_in_cancel"}), format!("CancelToken::cancel panicked: {msg}"), si);
                    abort = true;
                }
                if built { cancelled_post[t] = true } else { cancelled_pre[t] = true }
            }
            "build" => match guard(|| build_root(idx, case, rt, iour, &toks, pers, &shared)) {
                Ok(Ok(b)) => {
                    root = Some(b.root);
                    brs = b.brs;
                    built = true;
                }
                Ok(Err(e)) => return Err(e),
                Err(msg) => {
                    sink.problem("panic", json!({"kind": "panic_in_build"}), format!("constructing the root panicked: {msg}"), si);
                    abort = true;
                }
            },
            "feed" => {
                let br = &mut brs[(step.b - 1) as usize];
                leaf = br.kind.clone();
                if br.kind == "am" {
                    match UnixStream::connect_addr(br.addr.as_ref().expect("addr")) {
                        Ok(c) => {
                            br.clients.push(c);
                            br.conns += 1;
                        }
                        Err(e) => return Err(format!("connect: {e}")),
                    }
                } else {
                    br.nfeed += 1;
                    let chunk = [0x40 + step.b as u8, br.nfeed, 0xA5, br.nfeed ^ 0xFF];
                    if !write_all(br.peer.as_ref().expect("peer"), &chunk) {
                        return Err("short write to the peer socket".into());
                    }
                    br.fed.extend_from_slice(&chunk);
                }
            }
            "eof" => {
                let br = &mut brs[(step.b - 1) as usize];
                leaf = br.kind.clone();
                br.peer = None;
            }
            "drop" => {
                let r = guard(|| {
                    root = None;
                    shared.borrow_mut().branches.clear();
                });
                if let Err(msg) = r {
                    sink.problem("panic", json!({"kind": "panic_in_drop"}), format!("dropping the root panicked: {msg}"), si);
                    abort = true;
                }
                fin = "dropped";
            }
            "take" => {
                let b = (step.b - 1) as usize;
                leaf = brs[b].kind.clone();
                let got = guard(|| {
                    let mut sh = shared.borrow_mut();
                    let ok = match &mut sh.branches[b] {
                        Branch::Am(l) => l.as_mut().get_mut().try_take(),
                        _ => panic!("take on a branch that is not a concrete SubmitMulti"),
                    };
                    if ok {
                        sh.branches[b] = Branch::Gone;
                    }
                    ok
                });
                match got {
                    Ok(ok) => {
                        let r = if ok { "ok" } else { "err" };
                        let want = !brs[b].polled_ever || brs[b].final_seen || brs[b].saw_end;
                        if ok != want {
                            sink.problem("contract", json!({"kind": "try_take", "leaf": leaf}),
                                format!("try_take answered {r}; the stream was polled: {}, finished: {}", brs[b].polled_ever, brs[b].final_seen || brs[b].saw_end), si);
                        }
                        if r != x.r {
                            mism(si, "r", "take", &leaf, x.r.clone(), r.into());
                        }
                    }
                    Err(msg) => {
                        sink.problem("panic", json!({"kind": "panic_in_try_take"}), format!("try_take panicked: {msg}"), si);
                        abort = true;
                    }
                }
            }
            "poll" => {
                let b = (step.b - 1) as usize;
                leaf = brs[b].kind.clone();
                let o = poll_root(&mut root, &shared, &brs, b, &waker);
                sink.stat("polls", 1);
                if o.fin == "done" {
                    fin = "done";
                    // the task drops the finished root (and with it whatever a fail-fast level left unpolled)
                    let _ = guard(|| {
                        root = None;
                        shared.borrow_mut().branches.clear();
                    });
                }
                let term = if fin == "live" { shared.borrow().branches[b].term() } else { "-" };
                if o.r == "panic" {
                    sink.problem("panic", json!({"kind": "panic_on_poll", "leaf": leaf, "after_ffitem": brs[b].ffitem_seen}),
                        format!("polling [{}] over {leaf} panicked: {} (after the stream yielded Err(Cancelled): {})", brs[b].path.join(","), o.v, brs[b].ffitem_seen), si);
                    if x.r != "panic" {
                        mism(si, "r", "poll", &leaf, x.r.clone(), "panic".into());
                    }
                    abort = true;
                } else {
                    poll_contract(sink, si, iour, &mut brs[b], &o, term, &cancelled_pre, &cancelled_post);
                    if brs[b].obs.borrow().probe {
                        sink.stat("probe_polls", 1);
                    }
                    let got = [("r", o.r.clone()), ("v", o.v.clone()), ("n", o.n.to_string()), ("lp", o.lp.to_string()), ("seen", o.seen.to_string()), ("px", o.px.to_string())];
                    let want = [x.r.clone(), x.v.clone(), x.n.to_string(), x.lp.to_string(), x.seen.to_string(), x.px.to_string()];
                    for ((f, g), w) in got.iter().zip(want.iter()) {
                        if g != w {
                            mism(si, f, "poll", &leaf, w.clone(), g.clone());
                        }
                    }
                }
            }
            other => return Err(format!("unknown step {other}")),
        }
        steps_done += 1;
        if abort {
            break 'steps;
        }
        // settle: flush the submission queue and wait for every wake-up the model promises for this step
        wk_total += x.dw;
        let t0 = Instant::now();
        let mut spins = 0u32;
        loop {
            if let Err(msg) = guard(|| drive_once(rt)) {
                sink.problem("panic", json!({"kind": "panic_in_driver_poll"}), format!("Runtime::poll_with panicked: {msg}"), si);
                break 'steps;
            }
            let c = cw.0.load(Ordering::SeqCst);
            if c >= wk_total {
                break;
            }
            // once three steps have waited the full time in vain the alarm stands: later ones wait briefly, so that a
            // broken tree is reported in bounded time
            let limit = match HANGS.load(Ordering::SeqCst) {
                0..=2 => WAKE_TIMEOUT,
                3..=9 => Duration::from_millis(1500),
                10..=49 => Duration::from_millis(100),
                _ => Duration::from_millis(5),
            };
            if t0.elapsed() > limit {
                HANGS.fetch_add(1, Ordering::SeqCst);
                sink.problem("hang", json!({"kind": "wake_missing", "a": step.a, "leaf": leaf, "drv": case.drv}),
                    format!("step {si} ({}): the model promises {} wake-ups of the task in total, {c} arrived within {limit:?}", step.a, wk_total), si);
                if fin != "live" {
                    drop_oracle(sink, si, rt, &mut brs);
                }
                break 'steps;
            }
            spins += 1;
            if spins > 3 {
                std::thread::sleep(Duration::from_micros((50 * spins as u64).min(2000)));
            }
        }
        let c = cw.0.load(Ordering::SeqCst);
        if c != wk_total {
            mism(si, "wakes", &step.a, &leaf, wk_total.to_string(), c.to_string());
            wk_total = c;
        }
        if fin != x.fin {
            mism(si, "fin", &step.a, &leaf, x.fin.clone(), fin.into());
        }
        // nothing is submitted before the first poll: input fed to a never polled future stays unread
        if step.a == "feed" {
            let br = &brs[(step.b - 1) as usize];
            if !br.polled_ever && br.kind != "am" {
                let u = br.opdup.as_ref().map(unread).unwrap_or(-1);
                if u != br.fed.len() as i32 {
                    sink.problem("contract", json!({"kind": "submitted_before_first_poll", "leaf": br.kind}),
                        format!("{} bytes were fed to a future that was never polled, {u} are still unread", br.fed.len()), si);
                }
            }
        }
        if fin == "live" && built {
            let sh = shared.borrow();
            for (i, br) in sh.branches.iter().enumerate() {
                let t = br.term();
                if x.tm.get(i).map(String::as_str) != Some(t) {
                    mism(si, "term", &step.a, &brs[i].kind, format!("{:?}", x.tm.get(i)), t.into());
                }
            }
        }
        if fin != "live" {
            drop_oracle(sink, si, rt, &mut brs);
            break;
        }
    }
    let _ = guard(|| {
        root = None;
        shared.borrow_mut().branches.clear();
    });
    drop(brs);
    Ok(steps_done)
}
