/// The property's own predicates on what a poll really showed (independent of the model's expectation).
#[allow(clippy::too_many_arguments)]
fn poll_contract(sink: &Sink<'_>, si: usize, iour: bool, br: &mut BrRt, o: &PollObs, term: &str, cancelled_pre: &[bool; 2], cancelled_post: &[bool; 2]) {
    let chain = br.path.join(",");
    let leaf = br.kind.clone();
    let vt = vis_tok(&br.path);
    let vp = vis_pers(&br.path);
    // which operations / futures see which token
    if o.lp && o.seen != vt {
        sink.problem("contract", json!({"kind": "token_visibility", "leaf": leaf, "chain": chain}),
            format!("the leaf under [{chain}] saw token {} in its context, the innermost token of its own path is {vt}", o.seen), si);
    }
    if o.polls > 1 {
        sink.problem("mismatch", json!({"field": "polls", "leaf": leaf}), format!("leaf polled {} times by one poll of the root", o.polls), si);
    }
    {
        let ob = br.obs.borrow();
        if ob.probe {
            if ob.c1 != vt || ob.c2 != vt {
                sink.problem("contract", json!({"kind": "waker_clone_same_thread", "chain": chain}),
                    format!("clones of the context's waker made on the runtime thread carry tokens {} / {}, the context carried {vt}", ob.c1, ob.c2), si);
            }
            if ob.x1 != 0 || ob.other_sees {
                sink.problem("contract", json!({"kind": "waker_clone_other_thread", "chain": chain}),
                    format!("ext data reached another thread: clone made there sees token {}, owned clone used there sees a token: {}", ob.x1, ob.other_sees), si);
            }
        }
    }
    // fail-fast: a cancelled level answers Err(Cancelled) at once and polls nothing below it
    if !br.ffitem_seen && o.r != "panic" {
        let ff: Vec<i64> = br.path.iter().filter(|w| w.starts_with('F')).map(|w| wid(w)).collect();
        let post = ff.iter().any(|t| cancelled_post[(*t - 1) as usize]);
        let pre = ff.iter().any(|t| cancelled_pre[(*t - 1) as usize]);
        let prompt = matches!(o.r.as_str(), "ffroot" | "ffbr" | "ffitem") && !o.lp;
        if post && !prompt {
            sink.problem("contract", json!({"kind": "failfast_not_prompt", "leaf": leaf, "chain": chain}),
                format!("a fail-fast level of [{chain}] has its token cancelled, the poll answered {} and polled the leaf: {}", o.r, o.lp), si);
        } else if !post && pre && !prompt {
            sink.problem("contract", json!({"kind": "failfast_precancelled"}),
                format!("fail_fast() was called on an already cancelled token ([{chain}] over {leaf}): the poll answered {} instead of Err(Cancelled), inner polled: {}", o.r, o.lp), si);
        }
    }
    // results: the operation's own result, cancelled only through the visible token, EINVAL only through the
    // visible (unregistered) personality
    if o.r == "out" || o.r == "item" {
        match o.v.as_str() {
            "ok" => {
                if leaf == "am" {
                    br.items_ok += 1;
                    if br.items_ok > br.conns {
                        sink.problem("contract", json!({"kind": "data_mismatch", "leaf": leaf}), format!("{} connections delivered, {} made", br.items_ok, br.conns), si);
                    }
                } else {
                    let end = br.delivered + o.data.len();
                    if o.data.is_empty() || end > br.fed.len() || br.fed[br.delivered..end] != o.data[..] {
                        sink.problem("contract", json!({"kind": "data_mismatch", "leaf": leaf}),
                            format!("delivered bytes {:?} are not the next bytes fed to this operation ({:?} from offset {})", o.data, br.fed, br.delivered), si);
                    }
                    br.delivered = end.min(br.fed.len());
                }
            }
            "canc" => {
                if vt == 0 || !(cancelled_pre[(vt - 1) as usize] || cancelled_post[(vt - 1) as usize]) {
                    sink.problem("contract", json!({"kind": "cancelled_without_token", "leaf": leaf, "chain": chain}),
                        format!("the operation under [{chain}] reported ECANCELED, its visible token ({vt}) was not cancelled"), si);
                }
            }
            "einval" => {
                if !(iour && vp == 2) {
                    sink.problem("contract", json!({"kind": "personality_leak", "leaf": leaf, "chain": chain}),
                        format!("the operation under [{chain}] failed with EINVAL: it was stamped with the unregistered personality, its visible personality is {vp}"), si);
                }
            }
            "none" | "empty" => {}
            other => sink.problem("contract", json!({"kind": "unexpected_error", "leaf": leaf, "v": other}), format!("unexpected result {other} under [{chain}]"), si),
        }
        if iour && vp == 2 && o.v != "einval" {
            sink.problem("contract", json!({"kind": "personality_not_applied", "leaf": leaf, "chain": chain}),
                format!("the operation under [{chain}] must carry the (unregistered) personality 2 and fail with EINVAL, it reported {}", o.v), si);
        }
        if o.px >= 0 && o.px != vp {
            sink.problem("contract", json!({"kind": "personality_visibility", "leaf": leaf, "chain": chain}),
                format!("Submit<_, Extra> under [{chain}] reports personality {}, the innermost personality of its path is {vp}", o.px), si);
        }
    }
    // streams: fused end, final items
    if br.saw_end && !br.has_ff() && o.r != "end" {
        sink.problem("contract", json!({"kind": "not_fused", "leaf": leaf}), format!("the stream had ended and now answers {}", o.r), si);
    }
    if o.r == "end" {
        br.saw_end = true;
    }
    if o.r == "item" && (o.v != "ok" || !iour) {
        br.final_seen = true;
    }
    if o.r == "ffitem" {
        br.ffitem_seen = true;
    }
    if o.lp {
        br.polled_ever = true;
    }
    if term != "-" {
        let want = if leaf == "sb" || leaf == "sx" { "f" } else if br.final_seen || br.saw_end { "t" } else { "f" };
        if term != want {
            sink.problem("contract", json!({"kind": "is_terminated", "leaf": leaf}), format!("is_terminated() = {term} after the poll answered {} {}", o.r, o.v), si);
        }
    }
}

/// After the root is gone: a dropped future or stream must have cancelled its operation - input that arrives
/// now stays with the descriptor.
fn drop_oracle(sink: &Sink<'_>, si: usize, rt: &Runtime, brs: &mut [BrRt]) {
    for br in brs.iter_mut() {
        match br.kind.as_str() {
            "sb" | "sx" | "mg" => {
                let (Some(peer), Some(dup)) = (&br.peer, &br.opdup) else { continue };
                let x0 = unread(dup);
                if !write_all(peer, &[0xEE, 0xEE, 0xEE, 0xEE]) {
                    continue;
                }
                for _ in 0..3 {
                    if let Err(msg) = guard(|| drive_once(rt)) {
                        sink.problem("panic", json!({"kind": "panic_in_driver_poll", "after": "drop"}), format!("Runtime::poll_with panicked after the root was dropped: {msg}"), si);
                        return;
                    }
                    std::thread::sleep(Duration::from_micros(300));
                }
                let x1 = unread(dup);
                if x1 != x0 + 4 {
                    sink.problem("contract", json!({"kind": "drop_not_cancelled", "leaf": br.kind}),
                        format!("after the root was dropped 4 bytes were sent: {x0} -> {x1} bytes unread (an operation of the dropped future is still consuming input)"), si);
                }
            }
            "am" => {
                let (Some(addr), Some(dup)) = (&br.addr, &br.opdup) else { continue };
                // connections of earlier feeds that were never accepted are taken out first
                loop {
                    let fd = unsafe { libc::accept4(dup.as_raw_fd(), std::ptr::null_mut(), std::ptr::null_mut(), libc::SOCK_CLOEXEC | libc::SOCK_NONBLOCK) };
                    if fd < 0 {
                        break;
                    }
                    unsafe { libc::close(fd) };
                }
                let Ok(c) = UnixStream::connect_addr(addr) else { continue };
                for _ in 0..3 {
                    if let Err(msg) = guard(|| drive_once(rt)) {
                        sink.problem("panic", json!({"kind": "panic_in_driver_poll", "after": "drop"}), format!("Runtime::poll_with panicked after the root was dropped: {msg}"), si);
                        return;
                    }
                    std::thread::sleep(Duration::from_micros(300));
                }
                let fd = unsafe { libc::accept4(dup.as_raw_fd(), std::ptr::null_mut(), std::ptr::null_mut(), libc::SOCK_CLOEXEC | libc::SOCK_NONBLOCK) };
                if fd < 0 {
                    sink.problem("contract", json!({"kind": "drop_not_cancelled", "leaf": br.kind}),
                        "after the root was dropped a connection was made: it is no longer in the listener's backlog (the accept of the dropped stream took it)".into(), si);
                } else {
                    unsafe { libc::close(fd) };
                }
                drop(c);
            }
            _ => {}
        }
    }
}
